/-
  DecModel.Ops — the expectation the model attaches to every public entry point of the crate:
  which results and which newly raised flags the properties allow for given arguments.
-/
import DecModel.Dpd

namespace Dec

/-- A value crossing the API. -/
inductive Val
  | d (bits : Nat)                 -- a d128, by its 128 bits
  | i (v : Int)                    -- any integer type
  | s (bytes : Bytes)              -- text
  | f (bits : Nat)                 -- f32 by bits
  | g (bits : Nat)                 -- f64 by bits
  | b (v : Bool)
  | o (r : Option Ordering)        -- Option<Ordering>
  | err (code : Nat)               -- Err(status)
  | cls (n : Nat)                  -- ClassTypes by index
  | h (bytes : Bytes)              -- bytes fed to a Hasher
  deriving DecidableEq, Repr, Inhabited

/-- What the properties allow as the outcome of one call. -/
inductive Expect
  /-- the results are one of `alts`; exactly `raised` is newly raised -/
  | oneOf (alts : List (List Val)) (raised : Flags)
  /-- the results satisfy `p`; exactly `raised` is newly raised -/
  | pred (descr : String) (p : List Val → Bool) (raised : Flags)
  /-- the results and the raised flags together satisfy `p` (relational observations) -/
  | rel (descr : String) (p : List Val → Flags → Flags → Bool)   -- results, incoming word, outgoing word
  /-- the property is silent; only "returns normally" is required -/
  | noPanic
  /-- not an entry point the model knows -/
  | unknown

def exactly (vs : List Val) (raised : Flags) : Expect := .oneOf [vs] raised
def exactD (r : Datum × Flags) : Expect := .oneOf [[.d (encode r.1)]] r.2

/-- The quieted canonical copy of a NaN datum. -/
def quietNaN : Datum → Datum
  | .nan s _ p => .nan s false p
  | d => d

/-- Generic NaN-operand rule for computational operations: if some operand is a NaN the result is
the quieted canonical copy of one of the NaN operands, invalid iff some operand is signalling. -/
def nanRule (ds : List Datum) (k : Unit → Expect) : Expect :=
  let nans := ds.filter Datum.isNaN
  if nans.isEmpty then k ()
  else .oneOf (nans.map fun n => [Val.d (encode (quietNaN n))]) (if ds.any Datum.isSNaN then fInvalid else 0)

def isQuietNaNBits (b : Nat) : Bool :=
  match decode b with
  | .nan _ false _ => isCanonical b
  | _ => false

/-! ### name parsing for the integer-conversion family -/

structure IntTy where
  lo : Int
  hi : Int
  indef : Int

def i32Ty : IntTy := ⟨-2147483648, 2147483647, -2147483648⟩
def u32Ty : IntTy := ⟨0, 4294967295, 2147483648⟩
def i64Ty : IntTy := ⟨-9223372036854775808, 9223372036854775807, -9223372036854775808⟩
def u64Ty : IntTy := ⟨0, 18446744073709551615, 9223372036854775808⟩

def constTable : List (String × Nat) := [
  ("MINUS_ONE", 0xb0400000000000000000000000000001), ("ZERO", 0x30400000000000000000000000000000),
  ("ONE", 0x30400000000000000000000000000001), ("NAN", 0x7c000000000000000000000000000000),
  ("NEG_NAN", 0xfc000000000000000000000000000000), ("SNAN", 0x7e000000000000000000000000000000),
  ("NEG_SNAN", 0xfe000000000000000000000000000000), ("INFINITY", 0x78000000000000000000000000000000),
  ("NEGATIVE_INFINITY", 0xf8000000000000000000000000000000), ("EPSILON", 0x2ffe0000000000000000000000000001),
  ("MIN", 0x00420000000000000000000000000001), ("MAX", 0x5fffed09bead87c0378d8e63ffffffff)]

def boolE (v : Bool) (raised : Flags := 0) : Expect := exactly [.b v] raised

/-- Model of the `PartialEq` glue of the crate. -/
def eqGlue (x y : Datum) : Bool :=
  if x.isNaN && y.isNaN then true
  else if x.isNaN || y.isNaN then false
  else cmpD x y == some .eq

/-- Model of `partial_cmp`. -/
def partialCmpGlue (x y : Datum) : Option Ordering :=
  if eqGlue x y then some .eq
  else match cmpD x y with
    | some .lt => some .lt
    | some .gt => some .gt
    | _ => none

/-- Trailing-zero-free key of a datum: equal under `eqGlue` iff the keys are equal. -/
def hashKey (d : Datum) : Datum :=
  match d with
  | .nan .. => .nan false false 0
  | .inf s => .inf s
  | .fin s c e =>
    if c = 0 then .fin false 0 0
    else
      let tz := trailingZeros 34 c
      .fin s (c / 10 ^ tz) (e + tz)

def cmpPred (quiet : Bool) (name : String) (x y : Datum) : Expect :=
  match predTable name (cmpD x y) with
  | some v => boolE v (if quiet then quietCmpFlags x y else signalingCmpFlags x y)
  | none => .unknown

/-- d128-valued operation on one operand. -/
def un (x : Nat) (k : Datum → Expect) : Expect :=
  nanRule [decode x] fun _ => k (decode x)

def bin (x y : Nat) (k : Datum → Datum → Expect) : Expect :=
  nanRule [decode x, decode y] fun _ => k (decode x) (decode y)

def foldOp (f : Datum → Datum → Datum × Flags) (init : Datum) (xs : List Nat) : Option Datum :=
  xs.foldl (fun acc x =>
    match acc with
    | none => none
    | some a =>
      let d := decode x
      if a.isNaN || d.isNaN then none else some (f a d).1) (some init)

/-- Expectation for (`op`, `mode`, arguments). -/
def expectCore (op : String) (mode : Mode) (args : List Val) (tinyAfter : Bool := false) : Expect :=
  match op, args with
  -- C01 / C02 arithmetic
  | "addition", [.d x, .d y] => bin x y fun a b => exactD (addD mode a b)
  | "subtraction", [.d x, .d y] => bin x y fun a b => exactD (subD mode a b)
  | "multiplication", [.d x, .d y] => bin x y fun a b => exactD (mulD mode a b)
  | "division", [.d x, .d y] => bin x y fun a b => exactD (divD mode a b)
  | "square_root", [.d x] => un x fun a => exactD (sqrtD mode a)
  | "fused_multiply_add", [.d x, .d y, .d z] =>
    nanRule [decode x, decode y, decode z] fun _ =>
      -- 0·Inf with a quiet NaN addend is covered by nanRule (invalid is implementation-defined there)
      exactD (fmaD mode tinyAfter (decode x) (decode y) (decode z))
  | "fdim", [.d x, .d y] =>
    -- fdim's value for non-NaN operands is outside the twenty properties: only the NaN rule (C12), a canonical result
    -- (C13), accumulating flags (C14) and returning normally (C15) are demanded; `fdimD` documents what the code does
    bin x y fun _ _ => .rel "a canonical encoding; bits set on entry still set"
      (fun r fin fout => match r with
        | [.d b] => isCanonical b && (fout ||| fin == fout)
        | _ => false)
  | "op_add", [.d x, .d y] => dropFlags (bin x y fun a b => exactly [.d (encode (addD .rne a b).1)] 0)
  | "op_sub", [.d x, .d y] => dropFlags (bin x y fun a b => exactly [.d (encode (subD .rne a b).1)] 0)
  | "op_mul", [.d x, .d y] => dropFlags (bin x y fun a b => exactly [.d (encode (mulD .rne a b).1)] 0)
  | "op_div", [.d x, .d y] => dropFlags (bin x y fun a b => exactly [.d (encode (divD .rne a b).1)] 0)
  | "op_rem", [.d x, .d y] => dropFlags (bin x y fun a b => exactly [.d (encode (remD a b).1)] 0)
  | "op_neg", [.d x] => exactly [.d ((x + 2^127) % 2^128)] 0
  | "op_neg_ref", [.d x] => exactly [.d ((x + 2^127) % 2^128)] 0
  | "default", [] => exactly [.d 0x30400000000000000000000000000000] 0
  | "const", [.s name] =>
    (match constTable.find? (fun p => strBytes p.1 == name) with
     | some p => exactly [.d p.2] 0
     | none => .unknown)
  | "nan", [.s _] => .noPanic
  | "hash", [.d _] => .noPanic
  | "hash_slice", _ => .noPanic
  | "hash_pair", [.d x, .d y] =>
    .rel "eq as the model says, and equal values hash equally (recording hasher, DefaultHasher, HashSet lookup)"
      (fun r _ fl => match r with
        | [.b e, .b h1, .b h2, .b h3] => e == eqGlue (decode x) (decode y) && (!e || (h1 && h2 && h3)) && fl == 0
        | _ => false)
  | "roundtrip_display", [.d x] => exactly [.s (format true (decode x)), .d (reparse x)] 0
  | "roundtrip_lowerexp", [.d x] => exactly [.s (format false (decode x)), .d (reparse x)] 0
  | "roundtrip_serde", [.d x] =>
    -- the property fixes what comes back, not the JSON text: any string representation that round-trips is fine
    .pred "deserialising the serialised value returns it (NaN: sign and signalling-ness)"
      (fun r => match r with
        | [.s _, .d y] => y == reparse x
        | _ => false) 0
  -- C03 comparisons
  | "eq", [.d x, .d y] => boolE (eqGlue (decode x) (decode y))
  | "ne", [.d x, .d y] => boolE (!eqGlue (decode x) (decode y))
  | "partial_cmp", [.d x, .d y] => exactly [.o (partialCmpGlue (decode x) (decode y))] 0
  | "lt", [.d x, .d y] => boolE (cmpD (decode x) (decode y) == some .lt)
  | "gt", [.d x, .d y] => boolE (cmpD (decode x) (decode y) == some .gt)
  | "le", [.d x, .d y] =>
    boolE (partialCmpGlue (decode x) (decode y) == some .lt || partialCmpGlue (decode x) (decode y) == some .eq)
  | "ge", [.d x, .d y] =>
    boolE (partialCmpGlue (decode x) (decode y) == some .gt || partialCmpGlue (decode x) (decode y) == some .eq)
  -- C13 non-computational
  | "class", [.d x] => exactly [.cls (classOf (decode x))] 0
  | "is_canonical", [.d x] => boolE (isCanonical x)
  | "is_finite", [.d x] => boolE (decode x).isFin
  | "is_infinite", [.d x] => boolE (decode x).isInf
  | "is_nan", [.d x] => boolE (decode x).isNaN
  | "is_normal", [.d x] => boolE (isNormalD (decode x))
  | "is_signaling", [.d x] => boolE (decode x).isSNaN
  | "is_sign_minus", [.d x] => boolE ((x / 2^127) % 2 == 1)
  | "is_subnormal", [.d x] => boolE (isSubnormalD (decode x))
  | "is_zero", [.d x] => boolE (decode x).isZero
  -- quiet sign operations: only bit 127 may change, for every pattern
  | "copy", [.d x] => exactly [.d x] 0
  | "negate", [.d x] => exactly [.d ((x + 2^127) % 2^128)] 0
  | "abs", [.d x] => exactly [.d (x % 2^127)] 0
  | "copy_sign", [.d x, .d y] => exactly [.d (x % 2^127 + (y / 2^127) % 2 * 2^127)] 0
  | "same_quantum", [.d x, .d y] => boolE (sameQuantumD (decode x) (decode y))
  | "total_order", [.d x, .d y] => boolE (totalLe (decode x) (decode y))
  | "total_order_mag", [.d x, .d y] => boolE (totalLeMag (decode x) (decode y))
  -- C09
  | "quantize", [.d x, .d y] => bin x y fun a b => exactD (quantizeD mode a b)
  | "quantum", [.d x] =>
    (match decode x with
     | .nan .. => .pred "is a NaN" (fun r => match r with | [.d b] => (decode b).isNaN | _ => false) 0
     | a => exactly [.d (encode (quantumD a))] 0)
  | "quantexp", [.d x] =>
    (match decode x with
     | .fin _ _ e => exactly [.i e] 0
     | _ => exactly [.i (-2147483648)] fInvalid)
  | "llquantexp", [.d x] =>
    (match decode x with
     | .fin _ _ e => exactly [.i e] 0
     | _ => exactly [.i (-9223372036854775808)] fInvalid)
  -- C10
  | "remainder", [.d x, .d y] => bin x y fun a b => exactD (remD a b)
  | "fmod", [.d x, .d y] => bin x y fun a b => exactD (fmodD a b)
  -- C08
  | "round_to_integral_exact", [.d x] => un x fun a =>
    let r := toIntegralD mode a; exactly [.d (encode r.1)] (if r.2 then fInexact else 0)
  | "nearbyint", [.d x] => un x fun a => exactly [.d (encode (toIntegralD mode a).1)] 0
  | "round_to_integral_ties_to_away", [.d x] => un x fun a => exactly [.d (encode (toIntegralD .rna a).1)] 0
  | "round_to_integral_ties_to_even", [.d x] => un x fun a => exactly [.d (encode (toIntegralD .rne a).1)] 0
  | "round_to_integral_ties_toward_negative", [.d x] => un x fun a => exactly [.d (encode (toIntegralD .rdn a).1)] 0
  | "round_to_integral_ties_toward_positive", [.d x] => un x fun a => exactly [.d (encode (toIntegralD .rup a).1)] 0
  | "round_to_integral_ties_toward_zero", [.d x] => un x fun a => exactly [.d (encode (toIntegralD .rtz a).1)] 0
  | "modf", [.d x] =>
    (match decode x with
     | n@(.nan ..) =>
       .oneOf [[.d (encode (quietNaN n)), .d (encode (quietNaN n))]] (if n.isSNaN then fInvalid else 0)
     | .inf s =>
       .pred "modf(Inf): integral part Inf, fractional part a zero, both with the sign of x"
         (fun r => match r with
           | [.d i, .d f] => i == encode (.inf s) && (decode f).isZero && (decode f).neg == s && isCanonical f
           | _ => false) 0
     | a => let r := modfD a; exactly [.d (encode r.1), .d (encode r.2)] 0)
  -- C06
  | "lrint", [.d x] => let r := toIntD mode true i64Ty.lo i64Ty.hi i64Ty.indef (decode x); exactly [.i r.1] r.2
  | "llrint", [.d x] => let r := toIntD mode true i64Ty.lo i64Ty.hi i64Ty.indef (decode x); exactly [.i r.1] r.2
  | "lround", [.d x] => let r := toIntD .rna false i64Ty.lo i64Ty.hi i64Ty.indef (decode x); exactly [.i r.1] r.2
  | "llround", [.d x] => let r := toIntD .rna false i64Ty.lo i64Ty.hi i64Ty.indef (decode x); exactly [.i r.1] r.2
  | "from_i32", [.i n] => exactly [.d (encode (fromIntD n))] 0
  | "from_u32", [.i n] => exactly [.d (encode (fromIntD n))] 0
  | "from_i64", [.i n] => exactly [.d (encode (fromIntD n))] 0
  | "from_u64", [.i n] => exactly [.d (encode (fromIntD n))] 0
  | "from_u128", [.i n] => exactly [.d n.toNat] 0
  -- C11
  | "scaleb", [.d x, .i n] => un x fun a => exactD (scalebD mode n a)
  | "ldexp", [.d x, .i n] => un x fun a => exactD (scalebD mode n a)
  | "scalebln", [.d x, .i n] => un x fun a => exactD (scalebD mode (clampI32 n) a)
  | "logb", [.d x] => un x fun a => exactD (logbD a)
  | "log_b", [.d x] => let r := ilogbD (decode x); exactly [.i r.1] r.2
  | "frexp", [.d x] =>
    (match decode x with
     | a@(.fin ..) => let r := frexpD a; exactly [.d (encode r.1), .i r.2] 0
     | _ => .noPanic)
  -- C16
  | "min_num", [.d x, .d y] => minmax false false x y
  | "max_num", [.d x, .d y] => minmax true false x y
  | "min_num_mag", [.d x, .d y] => minmax false true x y
  | "max_num_mag", [.d x, .d y] => minmax true true x y
  -- C17
  | "next_up", [.d x] => un x fun a => exactly [.d (encode (nextUpD a))] 0
  | "next_down", [.d x] => un x fun a => exactly [.d (encode (nextDownD a))] 0
  | "next_after", [.d x, .d y] => bin x y fun a b => exactD (nextAfterD a b)
  | "next_toward", [.d x, .d y] => bin x y fun a b => exactD (nextAfterD a b)
  -- C07
  | "convert_from_f32", [.f bits] => binConv mode (decodeBin 8 23 bits)
  | "convert_from_f64", [.g bits] => binConv mode (decodeBin 11 52 bits)
  | "from_f32", [.f bits] => dropFlags (binConv .rne (decodeBin 8 23 bits))
  | "from_f64", [.g bits] => dropFlags (binConv .rne (decodeBin 11 52 bits))
  -- C19
  | "encode_decimal", [.d x] => exactly [.d (toDpd x)] 0
  | "decode_decimal", [.d x] => exactly [.d (fromDpd x)] 0
  -- C05 formatting
  | "display", [.d x] => exactly [.s (format true (decode x))] 0
  | "debug", [.d x] => exactly [.s (format true (decode x))] 0
  | "upperexp", [.d x] => exactly [.s (format true (decode x))] 0
  | "lowerexp", [.d x] => exactly [.s (format false (decode x))] 0
  -- C04 parsing
  | "convert_from_decimal_character", [.s t] => parseE mode t
  | "from_string_ref", [.s t] => dropFlags (parseE .rne t)
  | "from_str", [.s t] => fromStrE t
  | "twice", _ =>
    -- the same call made from a clear status word and from the given one (C14, independent of the model):
    -- results res0 ++ [out0] ++ res1 ++ [out1]; they must agree and out1 = in ||| out0
    .rel "same results from a clear and from the given status word, and outgoing word = incoming ||| (word from clear)"
      (fun r fin _ =>
        let k := (r.length - 2) / 2
        r.length ≥ 2 && r.length == 2 * k + 2 &&
        r.take k == (r.drop (k + 1)).take k &&
        (match r[k]?, r[2 * k + 1]? with
         | some (.i o0), some (.i o1) => o0 ≥ 0 && o1 == ((fin ||| o0.toNat : Nat) : Int)
         | _, _ => false))
  | "sum", _ => foldE true args
  | "product", _ => foldE false args
  | "compare_quiet_equal", [.d x, .d y] => cmpPred true "equal" (decode x) (decode y)
  | "compare_quiet_greater", [.d x, .d y] => cmpPred true "greater" (decode x) (decode y)
  | "compare_quiet_unordered", [.d x, .d y] => cmpPred true "unordered" (decode x) (decode y)
  | "compare_quiet_ordered", [.d x, .d y] => cmpPred true "ordered" (decode x) (decode y)
  | "compare_quiet_greater_equal", [.d x, .d y] => cmpPred true "greater_equal" (decode x) (decode y)
  | "compare_quiet_greater_unordered", [.d x, .d y] => cmpPred true "greater_unordered" (decode x) (decode y)
  | "compare_quiet_less", [.d x, .d y] => cmpPred true "less" (decode x) (decode y)
  | "compare_quiet_less_equal", [.d x, .d y] => cmpPred true "less_equal" (decode x) (decode y)
  | "compare_quiet_less_unordered", [.d x, .d y] => cmpPred true "less_unordered" (decode x) (decode y)
  | "compare_quiet_not_equal", [.d x, .d y] => cmpPred true "not_equal" (decode x) (decode y)
  | "compare_quiet_not_greater", [.d x, .d y] => cmpPred true "not_greater" (decode x) (decode y)
  | "compare_quiet_not_less", [.d x, .d y] => cmpPred true "not_less" (decode x) (decode y)
  | "compare_signaling_greater", [.d x, .d y] => cmpPred false "greater" (decode x) (decode y)
  | "compare_signaling_greater_equal", [.d x, .d y] => cmpPred false "greater_equal" (decode x) (decode y)
  | "compare_signaling_greater_unordered", [.d x, .d y] => cmpPred false "greater_unordered" (decode x) (decode y)
  | "compare_signaling_less", [.d x, .d y] => cmpPred false "less" (decode x) (decode y)
  | "compare_signaling_less_equal", [.d x, .d y] => cmpPred false "less_equal" (decode x) (decode y)
  | "compare_signaling_less_unordered", [.d x, .d y] => cmpPred false "less_unordered" (decode x) (decode y)
  | "compare_signaling_not_greater", [.d x, .d y] => cmpPred false "not_greater" (decode x) (decode y)
  | "compare_signaling_not_less", [.d x, .d y] => cmpPred false "not_less" (decode x) (decode y)
  | "convert_to_i32_ties_to_even", [.d x] => toIntE .rne false i32Ty x
  | "convert_to_i32_exact_ties_to_even", [.d x] => toIntE .rne true i32Ty x
  | "convert_to_i32_toward_negative", [.d x] => toIntE .rdn false i32Ty x
  | "convert_to_i32_exact_toward_negative", [.d x] => toIntE .rdn true i32Ty x
  | "convert_to_i32_toward_positive", [.d x] => toIntE .rup false i32Ty x
  | "convert_to_i32_exact_toward_positive", [.d x] => toIntE .rup true i32Ty x
  | "convert_to_i32_toward_zero", [.d x] => toIntE .rtz false i32Ty x
  | "convert_to_i32_exact_toward_zero", [.d x] => toIntE .rtz true i32Ty x
  | "convert_to_i32_ties_to_away", [.d x] => toIntE .rna false i32Ty x
  | "convert_to_i32_exact_ties_to_away", [.d x] => toIntE .rna true i32Ty x
  | "convert_to_u32_ties_to_even", [.d x] => toIntE .rne false u32Ty x
  | "convert_to_u32_exact_ties_to_even", [.d x] => toIntE .rne true u32Ty x
  | "convert_to_u32_toward_negative", [.d x] => toIntE .rdn false u32Ty x
  | "convert_to_u32_exact_toward_negative", [.d x] => toIntE .rdn true u32Ty x
  | "convert_to_u32_toward_positive", [.d x] => toIntE .rup false u32Ty x
  | "convert_to_u32_exact_toward_positive", [.d x] => toIntE .rup true u32Ty x
  | "convert_to_u32_toward_zero", [.d x] => toIntE .rtz false u32Ty x
  | "convert_to_u32_exact_toward_zero", [.d x] => toIntE .rtz true u32Ty x
  | "convert_to_u32_ties_to_away", [.d x] => toIntE .rna false u32Ty x
  | "convert_to_u32_exact_ties_to_away", [.d x] => toIntE .rna true u32Ty x
  | "convert_to_i64_ties_to_even", [.d x] => toIntE .rne false i64Ty x
  | "convert_to_i64_exact_ties_to_even", [.d x] => toIntE .rne true i64Ty x
  | "convert_to_i64_toward_negative", [.d x] => toIntE .rdn false i64Ty x
  | "convert_to_i64_exact_toward_negative", [.d x] => toIntE .rdn true i64Ty x
  | "convert_to_i64_toward_positive", [.d x] => toIntE .rup false i64Ty x
  | "convert_to_i64_exact_toward_positive", [.d x] => toIntE .rup true i64Ty x
  | "convert_to_i64_toward_zero", [.d x] => toIntE .rtz false i64Ty x
  | "convert_to_i64_exact_toward_zero", [.d x] => toIntE .rtz true i64Ty x
  | "convert_to_i64_ties_to_away", [.d x] => toIntE .rna false i64Ty x
  | "convert_to_i64_exact_ties_to_away", [.d x] => toIntE .rna true i64Ty x
  | "convert_to_u64_ties_to_even", [.d x] => toIntE .rne false u64Ty x
  | "convert_to_u64_exact_ties_to_even", [.d x] => toIntE .rne true u64Ty x
  | "convert_to_u64_toward_negative", [.d x] => toIntE .rdn false u64Ty x
  | "convert_to_u64_exact_toward_negative", [.d x] => toIntE .rdn true u64Ty x
  | "convert_to_u64_toward_positive", [.d x] => toIntE .rup false u64Ty x
  | "convert_to_u64_exact_toward_positive", [.d x] => toIntE .rup true u64Ty x
  | "convert_to_u64_toward_zero", [.d x] => toIntE .rtz false u64Ty x
  | "convert_to_u64_exact_toward_zero", [.d x] => toIntE .rtz true u64Ty x
  | "convert_to_u64_ties_to_away", [.d x] => toIntE .rna false u64Ty x
  | "convert_to_u64_exact_ties_to_away", [.d x] => toIntE .rna true u64Ty x
  | _, _ => .unknown
where
  toIntE (dir : Mode) (xflag : Bool) (ty : IntTy) (x : Nat) : Expect :=
    let r := toIntD dir xflag ty.lo ty.hi ty.indef (decode x); exactly [.i r.1] r.2
  foldE (isSum : Bool) (args : List Val) : Expect :=
    match parseDs args with
    | none => .unknown
    | some xs =>
      let r := if isSum then foldOp (addD .rne) (.fin false 0 0) xs else foldOp (mulD .rne) (.fin false 1 0) xs
      match r with
      | some v => exactly [.d (encode v)] 0
      | none => .pred "a NaN" (fun r => match r with | [.d b] => (decode b).isNaN | _ => false) 0
  minmax (isMax mag : Bool) (x y : Nat) : Expect :=
    let a := decode x; let b := decode y
    if a.isSNaN || b.isSNaN then
      .oneOf (([a, b].filter Datum.isNaN).map fun n => [Val.d (encode (quietNaN n))]) fInvalid
    else if a.isNaN && b.isNaN then
      .oneOf [[.d (encode a)], [.d (encode b)]] 0
    else if a.isNaN then exactly [.d (encode b)] 0
    else if b.isNaN then exactly [.d (encode a)] 0
    else .oneOf ((minmaxChoices isMax mag a b).map fun r => [Val.d (encode r)]) 0
  binConv (mode : Mode) : BinDatum → Expect
    | .inf s => exactly [.d (encode (.inf s))] 0
    | .nan s sig =>
      .pred "canonical quiet NaN with the sign of the operand"
        (fun r => match r with
          | [.d b] => isQuietNaNBits b && (decode b).neg == s
          | _ => false) (if sig then fInvalid else 0)
    | .fin s m E sub =>
      let r := binToDecD mode s m E
      exactly [.d (encode r.1)] (r.2 ||| (if sub && m != 0 then fDenormal else 0))
  dropFlags : Expect → Expect
    | .oneOf a _ => .oneOf a 0
    | .pred d p _ => .pred d p 0
    | e => e
  parseE (mode : Mode) (t : Bytes) : Expect :=
    match classifyText t with
    | .literal l =>
      if l.sigDigits.length ≤ 100 then exactD (parseLiteralSpec mode l) else .noPanic
    | .inf s => exactly [.d (encode (.inf s))] 0
    | .qnan s => exactly [.d (encode (.nan s false 0))] 0
    | .snan s => exactly [.d (encode (.nan s true 0))] 0
    | .illFormed => .pred "a quiet NaN" (fun r => match r with | [.d b] => isQuietNaNBits b | _ => false) 0
    | .lenient => .noPanic
  parseDs (args : List Val) : Option (List Nat) :=
    args.foldr (fun a acc => match a, acc with
      | .d x, some l => some (x :: l)
      | _, _ => none) (some [])
  /-- what parsing the printed form of `x` must give back: `x` itself when canonical (NaN: sign and
  signalling-ness; the text does not carry the payload) -/
  reparse (x : Nat) : Nat :=
    match decode x with
    | .nan s sig _ => encode (.nan s sig 0)
    | dd => encode dd
  fromStrE (t : Bytes) : Expect :=
    match parseE .rne t with
    | .oneOf alts raised =>
      if raised = 0 || raised = fInexact then .oneOf alts 0
      else .pred "Err (a flag other than inexact was raised); the payload of the error is not prescribed"
        (fun r => match r with | [.err _] => true | _ => false) 0
    | .pred d p _ => .pred d p 0
    | e => e

/-- The by-reference and compound-assignment operator forms denote the same operation. -/
def normOp : String → String
  | "op_add_ref" | "op_add_assign" | "op_add_assign_ref" => "op_add"
  | "op_sub_ref" | "op_sub_assign" | "op_sub_assign_ref" => "op_sub"
  | "op_mul_ref" | "op_mul_assign" | "op_mul_assign_ref" => "op_mul"
  | "op_div_ref" | "op_div_assign" | "op_div_assign_ref" => "op_div"
  | "op_rem_ref" | "op_rem_assign" | "op_rem_assign_ref" => "op_rem"
  | "op_neg_ref" => "op_neg"
  | "sum_ref" => "sum"
  | "product_ref" => "product"
  | s => s

/-- Expectation for (`op`, `mode`, arguments). -/
def expect (op : String) (mode : Mode) (args : List Val) (tinyAfter : Bool := false) : Expect :=
  expectCore (normOp op) mode args tinyAfter

end Dec
