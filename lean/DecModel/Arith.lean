/-
  DecModel.Arith — add, sub, mul, div, sqrt, fma, fdim on data (non-NaN operands; NaN operands are
  handled uniformly by `DecModel.Ops`).  Each returns the result datum and the flags newly raised.
-/
import DecModel.Round

namespace Dec

/-- The default quiet NaN created by invalid operations. -/
def defaultNaN : Datum := .nan false false 0

def invalidResult : Datum × Flags := (defaultNaN, fInvalid)

/-- Sign of an exact zero sum of two terms with signs `s1`, `s2`. -/
def zeroSumSign (mode : Mode) (s1 s2 : Bool) : Bool :=
  if s1 == s2 then s1 else mode == .rdn

/-- Signed integer value of a coefficient. -/
def sInt (neg : Bool) (c : Nat) : Int := if neg then -(c : Int) else (c : Int)

/-- Exact sum of two finite numbers `±c1·10^e1 ± c2·10^e2`, rounded. -/
def addFin (mode : Mode) (s1 : Bool) (c1 : Nat) (e1 : Int) (s2 : Bool) (c2 : Nat) (e2 : Int)
    (pref : Int) (tinyAfter : Bool := false) : Datum × Flags :=
  let m : Int := if e1 ≤ e2 then e1 else e2
  let S : Int := sInt s1 (c1 * 10 ^ (e1 - m).toNat) + sInt s2 (c2 * 10 ^ (e2 - m).toNat)
  if S = 0 then (zeroAt (zeroSumSign mode s1 s2) pref, 0)
  else finish mode (decide (S < 0)) S.natAbs 1 m pref tinyAfter

def addD (mode : Mode) : Datum → Datum → Datum × Flags
  | .inf s1, .inf s2 => if s1 == s2 then (.inf s1, 0) else invalidResult
  | .inf s1, _ => (.inf s1, 0)
  | _, .inf s2 => (.inf s2, 0)
  | .fin s1 c1 e1, .fin s2 c2 e2 => addFin mode s1 c1 e1 s2 c2 e2 (if e1 ≤ e2 then e1 else e2)
  | _, _ => invalidResult    -- NaN operands are not handled here

def subD (mode : Mode) (x y : Datum) : Datum × Flags := addD mode x y.negate

def mulD (mode : Mode) : Datum → Datum → Datum × Flags
  | .inf s1, .inf s2 => (.inf (s1 != s2), 0)
  | .inf s1, .fin s2 c2 _ => if c2 = 0 then invalidResult else (.inf (s1 != s2), 0)
  | .fin s1 c1 _, .inf s2 => if c1 = 0 then invalidResult else (.inf (s1 != s2), 0)
  | .fin s1 c1 e1, .fin s2 c2 e2 =>
    if c1 * c2 = 0 then (zeroAt (s1 != s2) (e1 + e2), 0)
    else finish mode (s1 != s2) (c1 * c2) 1 (e1 + e2) (e1 + e2)
  | _, _ => invalidResult

def divD (mode : Mode) : Datum → Datum → Datum × Flags
  | .inf _, .inf _ => invalidResult
  | .inf s1, .fin s2 _ _ => (.inf (s1 != s2), 0)
  | .fin s1 _ _, .inf s2 => (.fin (s1 != s2) 0 eMin, 0)
  | .fin s1 c1 e1, .fin s2 c2 e2 =>
    if c2 = 0 then
      if c1 = 0 then invalidResult else (.inf (s1 != s2), fDivZero)
    else if c1 = 0 then (zeroAt (s1 != s2) (e1 - e2), 0)
    else finish mode (s1 != s2) c1 c2 (e1 - e2) (e1 - e2)
  | _, _ => invalidResult

/-- Floor of `e/2`. -/
def halfFloor (e : Int) : Int := e.fdiv 2

def sqrtD (mode : Mode) : Datum → Datum × Flags
  | .inf s => if s then invalidResult else (.inf false, 0)
  | .fin s c e =>
    if c = 0 then (zeroAt s (halfFloor e), 0)
    else if s then invalidResult
    else
      -- value = √(c'·10^e') with e' even
      let odd := e % 2 != 0
      let c' := if odd then c * 10 else c
      let e' : Int := if odd then e - 1 else e
      -- scale so that the integer root has at least 36 digits
      let k : Nat := 37
      let N := c' * 10 ^ (2 * k)
      let r := isqrt N
      if r * r = N then finish mode false r 1 (halfFloor e' - k) (halfFloor e)
      else finish mode false (4 * r + 1) 4 (halfFloor e' - k) (halfFloor e)
  | _ => invalidResult

def fmaD (mode : Mode) (tinyAfter : Bool := false) : Datum → Datum → Datum → Datum × Flags
  | .fin s1 c1 e1, .fin s2 c2 e2, .fin s3 c3 e3 =>
    let pe := e1 + e2
    addFin mode (s1 != s2) (c1 * c2) pe s3 c3 e3 (if pe ≤ e3 then pe else e3) tinyAfter
  | .fin s1 _ _, .fin s2 _ _, .inf s3 => let _ := s1; let _ := s2; (.inf s3, 0)
  | x, y, z =>
    -- at least one of x, y infinite
    match mulD mode x y with
    | (.inf sp, _) =>
      (match z with
       | .inf s3 => if sp == s3 then (.inf sp, 0) else invalidResult
       | _ => (.inf sp, 0))
    | _ => invalidResult

/-- Total comparison of two finite numbers by value: `.lt`, `.eq` or `.gt`. -/
def cmpFin (s1 : Bool) (c1 : Nat) (e1 : Int) (s2 : Bool) (c2 : Nat) (e2 : Int) : Ordering :=
  let m : Int := if e1 ≤ e2 then e1 else e2
  compare (sInt s1 (c1 * 10 ^ (e1 - m).toNat)) (sInt s2 (c2 * 10 ^ (e2 - m).toNat))

/-- Numeric comparison of non-NaN data; `none` = unordered. -/
def cmpD : Datum → Datum → Option Ordering
  | .nan .., _ => none
  | _, .nan .. => none
  | .inf s1, .inf s2 => some (if s1 == s2 then .eq else if s1 then .lt else .gt)
  | .inf s1, _ => some (if s1 then .lt else .gt)
  | _, .inf s2 => some (if s2 then .gt else .lt)
  | .fin s1 c1 e1, .fin s2 c2 e2 => some (cmpFin s1 c1 e1 s2 c2 e2)

/-- `fdim x y = x - y` if `x > y`, `+0` (exponent 0) if `x ≤ y`. -/
def fdimD (mode : Mode) (x y : Datum) : Datum × Flags :=
  if cmpD x y == some .gt then subD mode x y else (.fin false 0 0, 0)

end Dec
