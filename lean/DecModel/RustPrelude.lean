/-
  DecModel.RustPrelude — the vocabulary the generated module `DecGen/Code.lean` is written in.

  `bin/gen_decgen` (through the `translate` tool, a `syn`-based Rust → Lean translator) regenerates
  `DecGen/Code.lean` from /repo/src on every run: one Lean `def` per whitelisted Rust function, statement by
  statement, in `do` notation over the `Except String` monad (an `Err` is a Rust panic: index out of bounds,
  `panic!`).  Rust's fixed-width integers are Lean's (`u64`/`usize` ↦ `UInt64`, `u32` ↦ `UInt32`, `i32` ↦ `Int32`,
  `i64` ↦ `Int64`, `u8` ↦ `UInt8`): their `+ - * <<< >>>` wrap exactly as Rust's do with overflow checks off
  (the crate's own profile), shift amounts are reduced modulo the width on both sides.

  Nothing here knows anything about decimal arithmetic.
-/
namespace Dec.Rs

/-- `BID_UINT128` = the crate's `d128 { w: [u64; 2] }`; `w0 = w[0]` is the low word -/
structure U128 where
  w0 : UInt64
  w1 : UInt64
  deriving DecidableEq, Repr

/-- `d128::default()` is the decimal zero `[0, 0x3040000000000000]`, not the all-zero pattern -/
instance : Inhabited U128 := ⟨⟨0, 0x3040000000000000⟩⟩

structure U192 where
  w0 : UInt64
  w1 : UInt64
  w2 : UInt64
  deriving DecidableEq, Repr, Inhabited

structure U256 where
  w0 : UInt64
  w1 : UInt64
  w2 : UInt64
  w3 : UInt64
  deriving DecidableEq, Repr, Inhabited

structure U384 where
  w0 : UInt64
  w1 : UInt64
  w2 : UInt64
  w3 : UInt64
  w4 : UInt64
  w5 : UInt64
  deriving DecidableEq, Repr, Inhabited

structure U512 where
  w0 : UInt64
  w1 : UInt64
  w2 : UInt64
  w3 : UInt64
  w4 : UInt64
  w5 : UInt64
  w6 : UInt64
  w7 : UInt64
  deriving DecidableEq, Repr, Inhabited

/-- `d128::RoundingMode` (discriminants 0 … 4) -/
inductive RoundingMode
  | NearestEven | Downward | Upward | TowardZero | NearestAway
  deriving DecidableEq, Repr, Inhabited

def RoundingMode.toNat : RoundingMode → Nat
  | .NearestEven => 0 | .Downward => 1 | .Upward => 2 | .TowardZero => 3 | .NearestAway => 4

/-- `RoundingMode::from(u32)`: panics on an unknown value -/
def RoundingMode.fromU32 (v : UInt32) : Except String RoundingMode :=
  if v == 0 then .ok .NearestEven else if v == 1 then .ok .Downward else if v == 2 then .ok .Upward
  else if v == 3 then .ok .TowardZero else if v == 4 then .ok .NearestAway else .error "Unknown rounding mode"


/-- `d128::ClassTypes` -/
inductive ClassTypes
  | SignalingNaN | QuietNaN | NegativeInfinity | NegativeNormal | NegativeSubnormal | NegativeZero
  | PositiveZero | PositiveSubnormal | PositiveNormal | PositiveInfinity
  deriving DecidableEq, Repr, Inhabited

/-- The IEEE binary encoding (`ebits` exponent bits, `mbits` stored significand bits) of the unsigned integer `n`
rounded to nearest, ties to even — what `n as f64` / `n as f32` computes for an unsigned `n`.  Exact rational
arithmetic on `Nat`; no floating point is used anywhere in the model. -/
def floatBitsOfNat (mbits bias : Nat) (n : Nat) : Nat :=
  if n = 0 then 0
  else
    let l := Nat.log2 n                                   -- 2^l ≤ n < 2^(l+1)
    if l ≤ mbits then (l + bias) * 2 ^ mbits + (n * 2 ^ (mbits - l) - 2 ^ mbits)
    else
      let sh := l - mbits
      let q := n / 2 ^ sh
      let r := n % 2 ^ sh
      let half := 2 ^ (sh - 1)
      let q := if r > half || (r == half && q % 2 == 1) then q + 1 else q
      -- q = 2^(mbits+1) after rounding up carries into the exponent field by itself
      (l + bias) * 2 ^ mbits + (q - 2 ^ mbits)

/-- `BID_UI64DOUBLE`: a `union { ui64: u64, d: f64 }`, kept as its bits.  The library only ever stores an
unsigned integer converted to `f64` in it and reads the bits back (to get the position of the leading bit). -/
structure F64U where
  bits : UInt64
  deriving DecidableEq, Repr, Inhabited

def F64U.ofU64 (x : UInt64) : F64U := ⟨UInt64.ofNat (floatBitsOfNat 52 1023 x.toNat)⟩

/-- `BID_UI32FLOAT`: `union { ui32: u32, d: f32 }`, kept as its bits -/
structure F32U where
  bits : UInt32
  deriving DecidableEq, Repr, Inhabited

def F32U.ofU64 (x : UInt64) : F32U := ⟨UInt32.ofNat (floatBitsOfNat 23 127 x.toNat)⟩

/-- the mathematical value of a Rust scalar (what an `as` cast starts from) -/
class ToI (α : Type) where
  toI : α → Int

instance : ToI UInt8 := ⟨fun x => x.toNat⟩
instance : ToI UInt32 := ⟨fun x => x.toNat⟩
instance : ToI UInt64 := ⟨fun x => x.toNat⟩
instance : ToI Int32 := ⟨fun x => x.toInt⟩
instance : ToI Int64 := ⟨fun x => x.toInt⟩
instance : ToI Bool := ⟨fun b => if b then 1 else 0⟩
instance : ToI Nat := ⟨fun n => n⟩
instance : ToI Int := ⟨fun n => n⟩
instance : ToI RoundingMode := ⟨fun m => m.toNat⟩

export ToI (toI)

/-- entry `i` of a table of `u64` (flattened as in `DecGen/T_*.lean`); out of range = Rust's index panic -/
def tbl64 (t : List Nat) (i : UInt64) : Except String UInt64 :=
  match t[i.toNat]? with
  | some v => .ok (UInt64.ofNat v)
  | none => .error "index out of bounds"

def tbl32 (t : List Nat) (i : UInt64) : Except String UInt32 :=
  match t[i.toNat]? with
  | some v => .ok (UInt32.ofNat v)
  | none => .error "index out of bounds"

def tbl8 (t : List Nat) (i : UInt64) : Except String UInt8 :=
  match t[i.toNat]? with
  | some v => .ok (UInt8.ofNat v)
  | none => .error "index out of bounds"

/-- a table of `i32` is dumped sign-extended to 64 bits -/
def tblI32 (t : List Nat) (i : UInt64) : Except String Int32 :=
  match t[i.toNat]? with
  | some v => .ok (Int32.ofInt (UInt64.ofNat v).toInt64.toInt)
  | none => .error "index out of bounds"

def tbl128 (t : List Nat) (i : UInt64) : Except String U128 :=
  match t[2 * i.toNat]?, t[2 * i.toNat + 1]? with
  | some a, some b => .ok ⟨UInt64.ofNat a, UInt64.ofNat b⟩
  | _, _ => .error "index out of bounds"

def tbl192 (t : List Nat) (i : UInt64) : Except String U192 :=
  match t[3 * i.toNat]?, t[3 * i.toNat + 1]?, t[3 * i.toNat + 2]? with
  | some a, some b, some c => .ok ⟨UInt64.ofNat a, UInt64.ofNat b, UInt64.ofNat c⟩
  | _, _, _ => .error "index out of bounds"

def tbl256 (t : List Nat) (i : UInt64) : Except String U256 :=
  match t[4 * i.toNat]?, t[4 * i.toNat + 1]?, t[4 * i.toNat + 2]?, t[4 * i.toNat + 3]? with
  | some a, some b, some c, some d => .ok ⟨UInt64.ofNat a, UInt64.ofNat b, UInt64.ofNat c, UInt64.ofNat d⟩
  | _, _, _, _ => .error "index out of bounds"

/-- `DEC_DIGITS { digits, threshold_hi, threshold_lo, digits1 }` (dumped in that order) -/
structure DecDigits where
  digits : UInt32
  threshold_hi : UInt64
  threshold_lo : UInt64
  digits1 : UInt32
  deriving DecidableEq, Repr, Inhabited

def tblDD (t : List Nat) (i : UInt64) : Except String DecDigits :=
  match t[4 * i.toNat]?, t[4 * i.toNat + 1]?, t[4 * i.toNat + 2]?, t[4 * i.toNat + 3]? with
  | some a, some b, some c, some d => .ok ⟨UInt32.ofNat a, UInt64.ofNat b, UInt64.ofNat c, UInt32.ofNat d⟩
  | _, _, _, _ => .error "index out of bounds"

/-- `T[lo..=hi].iter().take_while(p).count()`: the number of leading entries of the slice that satisfy `p`
(the slice itself panics when `hi` is out of range) -/
def countWhileAux {α} (get : Nat → Except String α) (p : α → Bool) : Nat → Nat → Nat → Except String Nat
  | 0, _, acc => .ok acc
  | n + 1, i, acc => do
    let v ← get i
    if p v then countWhileAux get p n (i + 1) (acc + 1) else pure acc

def countWhile64 (t : List Nat) (lo hi : Nat) (p : UInt64 → Bool) : Except String UInt64 := do
  let _ ← tbl64 t (UInt64.ofNat hi)
  let n ← countWhileAux (fun i => tbl64 t (UInt64.ofNat i)) p (hi + 1 - lo) lo 0
  pure (UInt64.ofNat n)

def countWhile128 (t : List Nat) (lo hi : Nat) (p : U128 → Bool) : Except String UInt64 := do
  let _ ← tbl128 t (UInt64.ofNat hi)
  let n ← countWhileAux (fun i => tbl128 t (UInt64.ofNat i)) p (hi + 1 - lo) lo 0
  pure (UInt64.ofNat n)

def countWhile256 (t : List Nat) (lo hi : Nat) (p : U256 → Bool) : Except String UInt64 := do
  let _ ← tbl256 t (UInt64.ofNat hi)
  let n ← countWhileAux (fun i => tbl256 t (UInt64.ofNat i)) p (hi + 1 - lo) lo 0
  pure (UInt64.ofNat n)

/-- the `k` little-endian bytes of `n` — what `Hasher::write_u32 / write_i32 / write_u64 / write_u128` feed to
`Hasher::write` on a little-endian target (std's default methods) -/
def leBytes (n k : Nat) : List UInt8 := (List.range k).map fun i => UInt8.ofNat (n / 256 ^ i % 256)

/-- `T[i][j]` of a table `[[BID_UINT128; inner]; outer]` -/
def tbl128_2 (t : List Nat) (inner : Nat) (i j : UInt64) : Except String U128 :=
  if j.toNat < inner then
    match t[2 * (i.toNat * inner + j.toNat)]?, t[2 * (i.toNat * inner + j.toNat) + 1]? with
    | some a, some b => .ok ⟨UInt64.ofNat a, UInt64.ofNat b⟩
    | _, _ => .error "index out of bounds"
  else .error "index out of bounds"

end Dec.Rs
