/-
  DecModel.RustPrelude — the vocabulary the generated module `DecGen/Code.lean` is written in.

  `bin/gen_decgen` (through the `translate` tool, a `syn`-based Rust → Lean translator) regenerates
  `DecGen/Code.lean` from /repo/src on every run: one Lean `def` per whitelisted Rust function, statement by
  statement, in `do` notation over the `Except String` monad (an `Err` is a Rust panic: index out of bounds,
  `panic!`).  Rust's fixed-width integers are Lean's (`u64`/`usize` ↦ `UInt64`, `u32` ↦ `UInt32`, `i32` ↦ `Int32`,
  `i64` ↦ `Int64`, `u8` ↦ `UInt8`): their `+ - * <<< >>>` wrap exactly as Rust's do with overflow checks off
  (the crate's own profile), shift amounts are reduced modulo the width on both sides.

  Nothing here knows anything about decimal arithmetic.
-/
namespace Dec.Rs

/-- `BID_UINT128` = the crate's `d128 { w: [u64; 2] }`; `w0 = w[0]` is the low word -/
structure U128 where
  w0 : UInt64
  w1 : UInt64
  deriving DecidableEq, Repr

/-- `d128::default()` is the decimal zero `[0, 0x3040000000000000]`, not the all-zero pattern -/
instance : Inhabited U128 := ⟨⟨0, 0x3040000000000000⟩⟩

structure U192 where
  w0 : UInt64
  w1 : UInt64
  w2 : UInt64
  deriving DecidableEq, Repr, Inhabited

structure U256 where
  w0 : UInt64
  w1 : UInt64
  w2 : UInt64
  w3 : UInt64
  deriving DecidableEq, Repr, Inhabited

structure U384 where
  w0 : UInt64
  w1 : UInt64
  w2 : UInt64
  w3 : UInt64
  w4 : UInt64
  w5 : UInt64
  deriving DecidableEq, Repr, Inhabited

structure U512 where
  w0 : UInt64
  w1 : UInt64
  w2 : UInt64
  w3 : UInt64
  w4 : UInt64
  w5 : UInt64
  w6 : UInt64
  w7 : UInt64
  deriving DecidableEq, Repr, Inhabited

/-- `d128::RoundingMode` (discriminants 0 … 4) -/
inductive RoundingMode
  | NearestEven | Downward | Upward | TowardZero | NearestAway
  deriving DecidableEq, Repr, Inhabited

def RoundingMode.toNat : RoundingMode → Nat
  | .NearestEven => 0 | .Downward => 1 | .Upward => 2 | .TowardZero => 3 | .NearestAway => 4

/-- `RoundingMode::from(u32)`: panics on an unknown value -/
def RoundingMode.fromU32 (v : UInt32) : Except String RoundingMode :=
  if v == 0 then .ok .NearestEven else if v == 1 then .ok .Downward else if v == 2 then .ok .Upward
  else if v == 3 then .ok .TowardZero else if v == 4 then .ok .NearestAway else .error "Unknown rounding mode"


/-- `d128::ClassTypes` -/
inductive ClassTypes
  | SignalingNaN | QuietNaN | NegativeInfinity | NegativeNormal | NegativeSubnormal | NegativeZero
  | PositiveZero | PositiveSubnormal | PositiveNormal | PositiveInfinity
  deriving DecidableEq, Repr, Inhabited

/-- The IEEE binary encoding (`ebits` exponent bits, `mbits` stored significand bits) of the unsigned integer `n`
rounded to nearest, ties to even — what `n as f64` / `n as f32` computes for an unsigned `n`.  Exact rational
arithmetic on `Nat`; no floating point is used anywhere in the model. -/
def floatBitsOfNat (mbits bias : Nat) (n : Nat) : Nat :=
  if n = 0 then 0
  else
    let l := Nat.log2 n                                   -- 2^l ≤ n < 2^(l+1)
    if l ≤ mbits then (l + bias) * 2 ^ mbits + (n * 2 ^ (mbits - l) - 2 ^ mbits)
    else
      let sh := l - mbits
      let q := n / 2 ^ sh
      let r := n % 2 ^ sh
      let half := 2 ^ (sh - 1)
      let q := if r > half || (r == half && q % 2 == 1) then q + 1 else q
      -- q = 2^(mbits+1) after rounding up carries into the exponent field by itself
      (l + bias) * 2 ^ mbits + (q - 2 ^ mbits)


/-! ### IEEE binary arithmetic on non-negative finite values (round to nearest, ties to even)

The division, square-root and remainder routines estimate quotients with `f64` / `f32` arithmetic on values that
are non-negative and finite by construction.  The operations below are exact definitions on `Nat` / `Int`
(no floating point is used in the model): decode to `m · 2^e`, compute exactly (division and square root with a
sticky bit), round once.  Anything outside the non-negative finite range (a sign bit, an infinity or NaN operand,
an overflowing result, division by zero) is reported as an error instead of being modelled: the translated
routines never produce it on the inputs the harness generates, and if they did the comparison with the compiled
code would say so. -/

/-- `(m, e)` with value `m · 2^e` for a non-negative finite pattern; `none` for sign / infinity / NaN -/
def fpDecode (mbits ebits : Nat) (bits : Nat) : Option (Nat × Int) :=
  let expF := bits / 2 ^ mbits % 2 ^ ebits
  let man := bits % 2 ^ mbits
  let bias : Int := 2 ^ (ebits - 1) - 1
  if bits / 2 ^ (mbits + ebits) != 0 then none            -- sign bit (or junk above)
  else if expF == 2 ^ ebits - 1 then none                 -- infinity / NaN
  else if expF == 0 then some (man, 1 - bias - mbits)     -- zero / subnormal
  else some (2 ^ mbits + man, (expF : Int) - bias - mbits)

/-- round `m · 2^e` (+ something in (0, 2^e) when `sticky`) to the format; `none` on overflow -/
def fpRound (mbits ebits : Nat) (m : Nat) (e : Int) (sticky : Bool) : Option Nat :=
  if m == 0 then (if sticky then none else some 0) else
  let bias : Int := 2 ^ (ebits - 1) - 1
  let emin : Int := 1 - bias - mbits                      -- exponent of the last place of subnormals / smallest normals
  let l := Nat.log2 m                                      -- 2^l ≤ m < 2^(l+1)
  -- target exponent of the last kept place
  let e0 : Int := max (e + (l : Int) - mbits) emin
  let (q, r, half, st) : Nat × Nat × Nat × Bool :=
    if e0 ≤ e then (m * 2 ^ (e - e0).toNat, 0, 1, sticky)
    else
      let sh := (e0 - e).toNat
      (m / 2 ^ sh, m % 2 ^ sh, 2 ^ (sh - 1), sticky)
  let up := if e0 ≤ e then false else (r > half || (r == half && (st || q % 2 == 1)))
  let q := if up then q + 1 else q
  -- q < 2^(mbits+2); a carry to 2^(mbits+1) moves to the next exponent by itself in the encoding below
  let expField : Int := e0 - emin + (if q ≥ 2 ^ mbits then 1 else 0)
  let bitsV : Int := if q ≥ 2 ^ mbits then (expField - 1) * 2 ^ mbits + q else q
  if bitsV / 2 ^ mbits ≥ 2 ^ ebits - 1 then none else some bitsV.toNat

def fpMul (mbits ebits : Nat) (a b : Nat) : Except String Nat :=
  match fpDecode mbits ebits a, fpDecode mbits ebits b with
  | some (m1, e1), some (m2, e2) =>
    match fpRound mbits ebits (m1 * m2) (e1 + e2) false with
    | some r => .ok r | none => .error "float overflow"
  | _, _ => .error "float operand is negative, infinite or NaN"

def fpAdd (mbits ebits : Nat) (a b : Nat) : Except String Nat :=
  match fpDecode mbits ebits a, fpDecode mbits ebits b with
  | some (m1, e1), some (m2, e2) =>
    let e := min e1 e2
    match fpRound mbits ebits (m1 * 2 ^ (e1 - e).toNat + m2 * 2 ^ (e2 - e).toNat) e false with
    | some r => .ok r | none => .error "float overflow"
  | _, _ => .error "float operand is negative, infinite or NaN"

def fpDiv (mbits ebits : Nat) (a b : Nat) : Except String Nat :=
  match fpDecode mbits ebits a, fpDecode mbits ebits b with
  | some (m1, e1), some (m2, e2) =>
    if m2 == 0 then .error "float division by zero" else
    let k := 2 * mbits + 8
    let n := m1 * 2 ^ k
    match fpRound mbits ebits (n / m2) (e1 - e2 - k) (n % m2 != 0) with
    | some r => .ok r | none => .error "float overflow"
  | _, _ => .error "float operand is negative, infinite or NaN"

/-- integer square root by Newton iteration (fuel = bit length) -/
def natSqrt (n : Nat) : Nat :=
  if n < 2 then n else
  let rec go (fuel x : Nat) : Nat :=
    match fuel with
    | 0 => x
    | f + 1 => let y := (x + n / x) / 2; if y < x then go f y else x
  go (Nat.log2 n + 2) (2 ^ ((Nat.log2 n) / 2 + 1))

def fpSqrt (mbits ebits : Nat) (a : Nat) : Except String Nat :=
  match fpDecode mbits ebits a with
  | some (m, e) =>
    -- scale so that the exponent is even and the root has plenty of bits
    let k := 2 * mbits + 8 + (if (e % 2 != 0) then 1 else 0)
    let n := m * 2 ^ k
    let s := natSqrt n
    match fpRound mbits ebits s ((e - k) / 2) (s * s != n) with
    | some r => .ok r | none => .error "float overflow"
  | none => .error "float operand is negative, infinite or NaN"

/-- `x as u64` for a non-negative finite float: truncation, saturating -/
def fpToU64 (mbits ebits : Nat) (a : Nat) : Except String UInt64 :=
  match fpDecode mbits ebits a with
  | some (m, e) =>
    let v := if e ≥ 0 then m * 2 ^ e.toNat else m / 2 ^ (-e).toNat
    .ok (if v ≥ 2 ^ 64 then 0xffffffffffffffff else UInt64.ofNat v)
  | none => .error "float operand is negative, infinite or NaN"

/-- `BID_UI64DOUBLE`: a `union { ui64: u64, d: f64 }`, kept as its bits.  The library only ever stores an
unsigned integer converted to `f64` in it and reads the bits back (to get the position of the leading bit). -/
structure F64U where
  bits : UInt64
  deriving DecidableEq, Repr, Inhabited

def F64U.ofU64 (x : UInt64) : F64U := ⟨UInt64.ofNat (floatBitsOfNat 52 1023 x.toNat)⟩
def F64U.mul (a b : F64U) : Except String F64U := (fpMul 52 11 a.bits.toNat b.bits.toNat).map fun r => ⟨UInt64.ofNat r⟩
def F64U.add (a b : F64U) : Except String F64U := (fpAdd 52 11 a.bits.toNat b.bits.toNat).map fun r => ⟨UInt64.ofNat r⟩
def F64U.div (a b : F64U) : Except String F64U := (fpDiv 52 11 a.bits.toNat b.bits.toNat).map fun r => ⟨UInt64.ofNat r⟩
def F64U.sqrt (a : F64U) : Except String F64U := (fpSqrt 52 11 a.bits.toNat).map fun r => ⟨UInt64.ofNat r⟩
def F64U.toU64 (a : F64U) : Except String UInt64 := fpToU64 52 11 a.bits.toNat

/-- `BID_UI32FLOAT`: `union { ui32: u32, d: f32 }`, kept as its bits -/
structure F32U where
  bits : UInt32
  deriving DecidableEq, Repr, Inhabited

def F32U.ofU64 (x : UInt64) : F32U := ⟨UInt32.ofNat (floatBitsOfNat 23 127 x.toNat)⟩
def F32U.mul (a b : F32U) : Except String F32U := (fpMul 23 8 a.bits.toNat b.bits.toNat).map fun r => ⟨UInt32.ofNat r⟩
def F32U.add (a b : F32U) : Except String F32U := (fpAdd 23 8 a.bits.toNat b.bits.toNat).map fun r => ⟨UInt32.ofNat r⟩
def F32U.div (a b : F32U) : Except String F32U := (fpDiv 23 8 a.bits.toNat b.bits.toNat).map fun r => ⟨UInt32.ofNat r⟩
def F32U.toU64 (a : F32U) : Except String UInt64 := fpToU64 23 8 a.bits.toNat

/-- the mathematical value of a Rust scalar (what an `as` cast starts from) -/
class ToI (α : Type) where
  toI : α → Int

instance : ToI UInt8 := ⟨fun x => x.toNat⟩
instance : ToI UInt32 := ⟨fun x => x.toNat⟩
instance : ToI UInt64 := ⟨fun x => x.toNat⟩
instance : ToI Int32 := ⟨fun x => x.toInt⟩
instance : ToI Int64 := ⟨fun x => x.toInt⟩
instance : ToI Bool := ⟨fun b => if b then 1 else 0⟩
instance : ToI Nat := ⟨fun n => n⟩
instance : ToI Int := ⟨fun n => n⟩
instance : ToI RoundingMode := ⟨fun m => m.toNat⟩

export ToI (toI)

/-- entry `i` of a table of `u64` (flattened as in `DecGen/T_*.lean`); out of range = Rust's index panic -/
def tbl64 (t : List Nat) (i : UInt64) : Except String UInt64 :=
  match t[i.toNat]? with
  | some v => .ok (UInt64.ofNat v)
  | none => .error "index out of bounds"

def tbl32 (t : List Nat) (i : UInt64) : Except String UInt32 :=
  match t[i.toNat]? with
  | some v => .ok (UInt32.ofNat v)
  | none => .error "index out of bounds"

def tbl8 (t : List Nat) (i : UInt64) : Except String UInt8 :=
  match t[i.toNat]? with
  | some v => .ok (UInt8.ofNat v)
  | none => .error "index out of bounds"

/-- a table of `i32` is dumped sign-extended to 64 bits -/
def tblI32 (t : List Nat) (i : UInt64) : Except String Int32 :=
  match t[i.toNat]? with
  | some v => .ok (Int32.ofInt (UInt64.ofNat v).toInt64.toInt)
  | none => .error "index out of bounds"

def tbl128 (t : List Nat) (i : UInt64) : Except String U128 :=
  match t[2 * i.toNat]?, t[2 * i.toNat + 1]? with
  | some a, some b => .ok ⟨UInt64.ofNat a, UInt64.ofNat b⟩
  | _, _ => .error "index out of bounds"

def tbl192 (t : List Nat) (i : UInt64) : Except String U192 :=
  match t[3 * i.toNat]?, t[3 * i.toNat + 1]?, t[3 * i.toNat + 2]? with
  | some a, some b, some c => .ok ⟨UInt64.ofNat a, UInt64.ofNat b, UInt64.ofNat c⟩
  | _, _, _ => .error "index out of bounds"

def tbl256 (t : List Nat) (i : UInt64) : Except String U256 :=
  match t[4 * i.toNat]?, t[4 * i.toNat + 1]?, t[4 * i.toNat + 2]?, t[4 * i.toNat + 3]? with
  | some a, some b, some c, some d => .ok ⟨UInt64.ofNat a, UInt64.ofNat b, UInt64.ofNat c, UInt64.ofNat d⟩
  | _, _, _, _ => .error "index out of bounds"

/-- `DEC_DIGITS { digits, threshold_hi, threshold_lo, digits1 }` (dumped in that order) -/
structure DecDigits where
  digits : UInt32
  threshold_hi : UInt64
  threshold_lo : UInt64
  digits1 : UInt32
  deriving DecidableEq, Repr, Inhabited

def tblDD (t : List Nat) (i : UInt64) : Except String DecDigits :=
  match t[4 * i.toNat]?, t[4 * i.toNat + 1]?, t[4 * i.toNat + 2]?, t[4 * i.toNat + 3]? with
  | some a, some b, some c, some d => .ok ⟨UInt32.ofNat a, UInt64.ofNat b, UInt64.ofNat c, UInt32.ofNat d⟩
  | _, _, _, _ => .error "index out of bounds"

/-- `T[lo..=hi].iter().take_while(p).count()`: the number of leading entries of the slice that satisfy `p`
(the slice itself panics when `hi` is out of range) -/
def countWhileAux {α} (get : Nat → Except String α) (p : α → Bool) : Nat → Nat → Nat → Except String Nat
  | 0, _, acc => .ok acc
  | n + 1, i, acc => do
    let v ← get i
    if p v then countWhileAux get p n (i + 1) (acc + 1) else pure acc

def countWhile64 (t : List Nat) (lo hi : Nat) (p : UInt64 → Bool) : Except String UInt64 := do
  let _ ← tbl64 t (UInt64.ofNat hi)
  let n ← countWhileAux (fun i => tbl64 t (UInt64.ofNat i)) p (hi + 1 - lo) lo 0
  pure (UInt64.ofNat n)

def countWhile128 (t : List Nat) (lo hi : Nat) (p : U128 → Bool) : Except String UInt64 := do
  let _ ← tbl128 t (UInt64.ofNat hi)
  let n ← countWhileAux (fun i => tbl128 t (UInt64.ofNat i)) p (hi + 1 - lo) lo 0
  pure (UInt64.ofNat n)

def countWhile256 (t : List Nat) (lo hi : Nat) (p : U256 → Bool) : Except String UInt64 := do
  let _ ← tbl256 t (UInt64.ofNat hi)
  let n ← countWhileAux (fun i => tbl256 t (UInt64.ofNat i)) p (hi + 1 - lo) lo 0
  pure (UInt64.ofNat n)

/-- flat position of `T[i₀][i₁]…` in a table of dimensions `dims` (row-major, as the tables are dumped); an index
outside its dimension is Rust's index panic -/
def flatIdx : List Nat → List Nat → Except String UInt64
  | [], [] => .ok 0
  | d :: ds, i :: is => do
    if i ≥ d then throw "index out of bounds"
    let rest ← flatIdx ds is
    pure (UInt64.ofNat (i * ds.foldl (· * ·) 1 + rest.toNat))
  | _, _ => .error "index arity"

/-- the `k` little-endian bytes of `n` — what `Hasher::write_u32 / write_i32 / write_u64 / write_u128` feed to
`Hasher::write` on a little-endian target (std's default methods) -/
def leBytes (n k : Nat) : List UInt8 := (List.range k).map fun i => UInt8.ofNat (n / 256 ^ i % 256)

/-- `T[i][j]` of a table `[[BID_UINT128; inner]; outer]` -/
def tbl128_2 (t : List Nat) (inner : Nat) (i j : UInt64) : Except String U128 :=
  if j.toNat < inner then
    match t[2 * (i.toNat * inner + j.toNat)]?, t[2 * (i.toNat * inner + j.toNat) + 1]? with
    | some a, some b => .ok ⟨UInt64.ofNat a, UInt64.ofNat b⟩
    | _, _ => .error "index out of bounds"
  else .error "index out of bounds"

end Dec.Rs
