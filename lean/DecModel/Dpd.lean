/-
  DecModel.Dpd — the densely-packed-decimal encoding (IEEE 754-2008 §3.5.2, Tables 3.3 / 3.4),
  defined from the standard's bit equations (no tables).
-/
import DecModel.BinConv

namespace Dec

def bit (n i : Nat) : Nat := (n / 2 ^ i) % 2

/-- Three decimal digits (value 0..999) → 10-bit declet (Table 3.4). -/
def declEnc (v : Nat) : Nat :=
  let d1 := v / 100; let d2 := (v / 10) % 10; let d3 := v % 10
  let a := bit d1 3; let b := bit d1 2; let c := bit d1 1; let d := bit d1 0
  let e := bit d2 3; let f := bit d2 2; let g := bit d2 1; let h := bit d2 0
  let i := bit d3 3; let j := bit d3 2; let k := bit d3 1; let m := bit d3 0
  let mk (p q r s t u v w x y : Nat) : Nat :=
    p*512 + q*256 + r*128 + s*64 + t*32 + u*16 + v*8 + w*4 + x*2 + y
  match a, e, i with
  | 0, 0, 0 => mk b c d f g h 0 j k m
  | 0, 0, _ => mk b c d f g h 1 0 0 m
  | 0, _, 0 => mk b c d j k h 1 0 1 m
  | 0, _, _ => mk b c d 1 0 h 1 1 1 m
  | _, 0, 0 => mk j k d f g h 1 1 0 m
  | _, 0, _ => mk f g d 0 1 h 1 1 1 m
  | _, _, 0 => mk j k d 0 0 h 1 1 1 m
  | _, _, _ => mk 0 0 d 1 1 h 1 1 1 m

/-- 10-bit declet (any of the 1024 patterns) → value 0..999 (Table 3.3). -/
def declDec (n : Nat) : Nat :=
  let p := bit n 9; let q := bit n 8; let r := bit n 7; let s := bit n 6; let t := bit n 5
  let u := bit n 4; let v := bit n 3; let w := bit n 2; let x := bit n 1; let y := bit n 0
  let dig (a b c : Nat) : Nat := a*4 + b*2 + c
  let (d1, d2, d3) : Nat × Nat × Nat :=
    if v = 0 then (dig p q r, dig s t u, dig w x y)
    else match w, x with
      | 0, 0 => (dig p q r, dig s t u, 8 + y)
      | 0, _ => (dig p q r, 8 + u, dig s t y)
      | _, 0 => (8 + r, dig s t u, dig p q y)
      | _, _ =>
        match s, t with
        | 0, 0 => (8 + r, 8 + u, dig p q y)
        | 0, _ => (8 + r, dig p q u, 8 + y)
        | _, 0 => (dig p q r, 8 + u, 8 + y)
        | _, _ => (8 + r, 8 + u, 8 + y)
  d1 * 100 + d2 * 10 + d3

/-- `k` declets for the low `3k` digits of `n`. -/
def declets : Nat → Nat → Nat
  | 0, _ => 0
  | k+1, n => declEnc (n % 1000) + 1024 * declets k (n / 1000)

def undeclets : Nat → Nat → Nat
  | 0, _ => 0
  | k+1, w => declDec (w % 1024) + 1000 * undeclets k (w / 1024)

/-- BID pattern → DPD pattern of the same datum. -/
def toDpd (b : Nat) : Nat :=
  match decode b with
  | .inf s => signBit s + 0x78 * 2^120
  | .nan s sig p => signBit s + 0x7c * 2^120 + (if sig then 2^121 else 0) + declets 11 p
  | .fin s c e =>
    let E := (e + 6176).toNat
    let d0 := c / P33
    let comb5 := if d0 ≥ 8 then 24 + (E / 4096) * 2 + (d0 % 2) else (E / 4096) * 8 + d0
    signBit s + comb5 * 2^122 + (E % 4096) * 2^110 + declets 11 (c % P33)

/-- DPD pattern → canonical BID pattern of the same datum. -/
def fromDpd (w : Nat) : Nat :=
  let s := (w / 2^127) % 2 == 1
  let comb5 := (w / 2^122) % 32
  let t := undeclets 11 (w % 2^110)
  if comb5 = 30 then encode (.inf s)
  else if comb5 = 31 then encode (.nan s ((w / 2^121) % 2 == 1) t)
  else
    let (d0, etop) : Nat × Nat := if comb5 ≥ 24 then (8 + comb5 % 2, (comb5 / 2) % 4) else (comb5 % 8, comb5 / 8)
    let E : Nat := etop * 4096 + (w / 2^110) % 4096
    encode (.fin s (d0 * P33 + t) ((E : Int) - 6176))

end Dec
