/-
  DecModel.Judge — decides whether one observed call of the implementation is allowed by the
  properties.  An observation is a text line

      <op> <mode|-|N> <flags_in> <arg>* => <result>* <flags_out>
      <op> <mode|-|N> <flags_in> <arg>* => PANIC        (or HANG: the watchdog gave up waiting)

  (hex flags; typed tokens, see `parseVal`).
-/
import DecModel.Ops
import DecModel.Scan
import DecModel.ScanNum
import DecModel.Format

namespace Dec

def hexDigit? (c : Char) : Option Nat :=
  if '0' ≤ c ∧ c ≤ '9' then some (c.toNat - 48)
  else if 'a' ≤ c ∧ c ≤ 'f' then some (c.toNat - 87)
  else if 'A' ≤ c ∧ c ≤ 'F' then some (c.toNat - 55)
  else none

def parseHex? (s : String) : Option Nat :=
  if s.isEmpty then none else
  s.toList.foldl (fun acc c => match acc, hexDigit? c with
    | some a, some d => some (a * 16 + d)
    | _, _ => none) (some 0)

def parseHexBytes? (s : String) : Option Bytes :=
  let rec go : List Char → Option Bytes
    | [] => some []
    | a :: b :: r =>
      match hexDigit? a, hexDigit? b, go r with
      | some x, some y, some t => some ((x * 16 + y) :: t)
      | _, _, _ => none
    | _ => none
  go s.toList

def parseVal (t : String) : Option Val :=
  let body := (t.drop 1).toString
  match t.toList.head? with
  | some 'D' => (parseHex? body).map .d
  | some 'I' => body.toInt?.map .i
  | some 'S' => (parseHexBytes? body).map .s
  | some 'F' => (parseHex? body).map .f
  | some 'G' => (parseHex? body).map .g
  | some 'B' => if body == "1" then some (.b true) else if body == "0" then some (.b false) else none
  | some 'O' =>
    (match body with
     | "L" => some (.o (some .lt)) | "E" => some (.o (some .eq)) | "G" => some (.o (some .gt))
     | "N" => some (.o none) | _ => none)
  | some 'E' => (parseHex? body).map .err
  | some 'C' => body.toNat?.map .cls
  | some 'H' => (parseHexBytes? body).map .h
  | _ => none

structure Obs where
  op : String
  mode : Mode
  flagsIn : Flags
  args : List Val
  /-- `none` = the call panicked -/
  out : Option (List Val × Flags)

def parseAll (ts : List String) : Option (List Val) :=
  ts.foldr (fun t acc => match parseVal t, acc with
    | some v, some l => some (v :: l)
    | _, _ => none) (some [])

def parseObs (line : String) : Option Obs :=
  let toks := (line.trimAscii.toString.splitOn " ").filter (· ≠ "")
  match toks with
  | op :: m :: fi :: rest =>
    let mode? : Option Mode := if m == "-" || m == "N" then some .rne else m.toNat?.bind Mode.ofNat?
    let (argT, resT) := (rest.takeWhile (· ≠ "=>"), (rest.dropWhile (· ≠ "=>")).drop 1)
    match mode?, parseHex? fi, parseAll argT with
    | some mode, some fin, some args =>
      if resT == ["PANIC"] || resT == ["HANG"] then some ⟨op, mode, fin, args, none⟩
      else match resT.getLast?, parseAll resT.dropLast with
        | some fo, some res =>
          (parseHex? fo).map fun fout => ⟨op, mode, fin, args, some (res, fout)⟩
        | _, _ => none
    | _, _, _ => none
  | _ => none

inductive Verdict
  | ok (clause : String)
  | viol (clause : String) (detail : String)
  | bad (why : String)

def showVal : Val → String
  | .d b => "D" ++ String.ofList (Nat.toDigits 16 b)
  | .i v => "I" ++ toString v
  | .s bs => "S" ++ String.ofList (bs.flatMap fun b => Nat.toDigits 16 (b / 16) ++ Nat.toDigits 16 (b % 16))
  | .f b => "F" ++ String.ofList (Nat.toDigits 16 b)
  | .g b => "G" ++ String.ofList (Nat.toDigits 16 b)
  | .b v => if v then "B1" else "B0"
  | .o (some .lt) => "OL" | .o (some .eq) => "OE" | .o (some .gt) => "OG" | .o none => "ON"
  | .err c => "E" ++ String.ofList (Nat.toDigits 16 c)
  | .cls n => "C" ++ toString n
  | .h bs => "H" ++ String.ofList (bs.flatMap fun b => Nat.toDigits 16 (b / 16) ++ Nat.toDigits 16 (b % 16))

def showVals (vs : List Val) : String := " ".intercalate (vs.map showVal)

/-- The acceptance predicate: is this observation allowed? -/
def judgeWith (e : Expect) (o : Obs) : Verdict :=
  match e, o.out with
  | .unknown, _ => .bad ("unknown op " ++ o.op)
  | _, none => .viol "panic" "the call panicked or did not return"
  | .noPanic, some (_, fout) =>
    -- the properties are silent on the result; flags may still only accumulate (C14)
    if fout ||| o.flagsIn = fout then .ok "no-panic" else .viol "flags" "a status bit that was set on entry is clear on return"
  | .oneOf alts raised, some (res, fout) =>
    if !alts.contains res then
      .viol "result" ("expected " ++ " | ".intercalate (alts.map showVals) ++ " raised " ++ String.ofList (Nat.toDigits 16 raised))
    else if fout ≠ (o.flagsIn ||| raised) then
      .viol "flags" ("expected raised " ++ String.ofList (Nat.toDigits 16 raised))
    else .ok (if alts.length > 1 then "one-of" else "exact")
  | .pred descr p raised, some (res, fout) =>
    if !p res then .viol "result" ("expected: " ++ descr)
    else if fout ≠ (o.flagsIn ||| raised) then
      .viol "flags" ("expected raised " ++ String.ofList (Nat.toDigits 16 raised))
    else .ok "pred"
  | .rel descr p, some (res, fout) =>
    if p res o.flagsIn fout then .ok "rel" else .viol "relation" ("expected: " ++ descr)

def accepts (tinyAfter : Bool) (o : Obs) : Verdict :=
  judgeWith (expect o.op o.mode o.args tinyAfter) o

/-! ### correspondence of the code-shaped scanner (`DecModel.Scan`)

`accepts` judges an observation against the *specification*.  `Scan.scanCP` is a second, code-shaped model
of the character scanner of `bid128_from_string` (the theorems about it — it never panics, it agrees with the
strict grammar — are in `DecProofs/Properties/C04Scan.lean`).  Its tie to the code is checked here: for every
observed `convert_from_decimal_character` the scanner's outcome must predict the returned bits exactly, also
in the zone where the specification is silent.  A disagreement is reported as `corr`, not `viol`: it says the
model no longer describes the code, not that the property fails on this input. -/

/-- UTF-8 bytes to code points; `none` for an ill-formed sequence (the harness only sends `&str`) -/
def decodeUtf8 : Bytes → Option (List Nat)
  | [] => some []
  | b0 :: t =>
    if b0 < 0x80 then (decodeUtf8 t).map (b0 :: ·)
    else if b0 < 0xC0 then none
    else if b0 < 0xE0 then
      match t with
      | b1 :: t1 => (decodeUtf8 t1).map (((b0 % 32) * 64 + b1 % 64) :: ·)
      | _ => none
    else if b0 < 0xF0 then
      match t with
      | b1 :: b2 :: t2 => (decodeUtf8 t2).map (((b0 % 16) * 4096 + (b1 % 64) * 64 + b2 % 64) :: ·)
      | _ => none
    else
      match t with
      | b1 :: b2 :: b3 :: t3 =>
        (decodeUtf8 t3).map (((b0 % 8) * 262144 + (b1 % 64) * 4096 + (b2 % 64) * 64 + b3 % 64) :: ·)
      | _ => none

/-- what the code-shaped model of `bid128_from_string` — scanner (`Scan`) followed by the numeric phase (`ScanNum`) —
predicts for a text: the exact bits and the raised flags, or a panic; `none`: no prediction (not a `&str`).  The
conversion runs from a clear status word (the repaired wrapper) and ORs its flags into the caller's. -/
def scanExpect (mode : Mode) (t : Bytes) : Option Expect :=
  match fromStringCodeBits mode t with
  | none => none
  | some none => some (.pred "a panic (the code-shaped model reaches a panic site)" (fun _ => false) 0)
  | some (some (bits, fl)) => some (exactly [.d bits] fl)

/-- `some why` when the observation is a text conversion and the code-shaped scanner predicts another outcome -/
def scanDisagrees (o : Obs) : Option String :=
  match o.op, o.args with
  | "convert_from_decimal_character", [.s t] =>
    match scanExpect o.mode t with
    | none => none
    | some e =>
      match o.out, e with
      | none, .pred _ _ _ => none
      | _, _ =>
        match judgeWith e o with
        | .viol c d => some (c ++ " " ++ d)
        | _ => none
  | _, _ => none

/-- `some why` when the observation is one of the four formatting operations and the code-shaped formatter model
(`DecModel/Format.lean`, a transcription of `bid128_to_string`; `C05Format.fmtCode_eq_format` proves it equal to
the specification-level `format` for all patterns) predicts another text -/
def fmtDisagrees (o : Obs) : Option String :=
  match o.args with
  | [.d x] =>
    if o.op == "display" || o.op == "debug" || o.op == "upperexp" || o.op == "lowerexp" then
      match fmtCodeOp o.op x, o.out with
      | some bs, some ([.s rs], _) => if bs == rs then none else some "another text"
      | some _, some _ => some "a text"
      | some _, none => some "a text, the code panicked"
      | none, none => none
      | none, some _ => some "a panic, the code returned"
    else none
  | _ => none

def judgeLine (tinyAfter : Bool) (line : String) : String :=
  match parseObs line with
  | none => "bad unparsable"
  | some o =>
    match accepts tinyAfter o with
    | .ok c =>
      match scanDisagrees o with
      | some why => "corr scanner-model " ++ why
      | none =>
        match fmtDisagrees o with
        | some why => "corr formatter-model predicts " ++ why
        | none => "ok " ++ c
    | .viol c d => "viol " ++ c ++ " " ++ d
    | .bad w => "bad " ++ w

end Dec
