/-
  DecModel.Str — textual form of a datum and the specification of parsing.
  Text is a list of bytes (UTF-8); only ASCII bytes are meaningful to the grammar.
-/
import DecModel.Rem

namespace Dec

abbrev Bytes := List Nat

def strBytes (s : String) : Bytes := s.toUTF8.toList.map (·.toNat)

/-! ASCII constants as explicit byte lists (so that everything below reduces in the kernel). -/
def bInf : Bytes := [73, 110, 102]                              -- "Inf"
def bNaN : Bytes := [78, 97, 78]                                -- "NaN"
def bSNaN : Bytes := [83, 78, 97, 78]                           -- "SNaN"
def lInf : Bytes := [105, 110, 102]                             -- "inf"
def lInfinity : Bytes := [105, 110, 102, 105, 110, 105, 116, 121]   -- "infinity"
def lNan : Bytes := [110, 97, 110]                              -- "nan"
def lSnan : Bytes := [115, 110, 97, 110]                        -- "snan"

/-- Decimal digits of `n`, most significant first; `[0]` for zero. -/
def natDigitsAux : Nat → Nat → List Nat → List Nat
  | 0, _, acc => acc
  | f+1, n, acc => if n < 10 then n :: acc else natDigitsAux f (n / 10) (n % 10 :: acc)

def natDigits (n : Nat) : List Nat := natDigitsAux (n.log2 + 2) n []

def digitBytes (n : Nat) : Bytes := (natDigits n).map (· + 48)

/-- `sign coefficient E sign exponent`; `+Inf`, `-NaN`, `+SNaN`.  `upper = false` gives `e`. -/
def format (upper : Bool) : Datum → Bytes
  | .inf s => (if s then 45 else 43) :: bInf
  | .nan s sig _ => (if s then 45 else 43) :: (if sig then bSNaN else bNaN)
  | .fin s c e =>
    (if s then 45 else 43) :: digitBytes c ++ [if upper then 69 else 101] ++
      [if e < 0 then 45 else 43] ++ digitBytes e.natAbs

/-! ### Parsing -/

def isDigitB (b : Nat) : Bool := 48 ≤ b && b ≤ 57
def lowerB (b : Nat) : Nat := if 65 ≤ b && b ≤ 90 then b + 32 else b
def eqIgnoreCase (a : Bytes) (lower : Bytes) : Bool := a.map lowerB == lower

def digitsVal (ds : Bytes) : Nat := ds.foldl (fun acc b => acc * 10 + (b - 48)) 0

/-- A parsed numeric literal: sign, integer digits, fraction digits, exponent. -/
structure Literal where
  neg : Bool
  intDigits : Bytes
  fracDigits : Bytes
  exp : Int
  deriving Repr

/-- What a text is, for the purposes of the parsing property. -/
inductive TextClass
  | literal (l : Literal)          -- a well-formed numeric literal (strict grammar)
  | inf (neg : Bool)
  | qnan (neg : Bool)
  | snan (neg : Bool)
  | illFormed                       -- must give a quiet NaN
  | lenient                         -- the library is lenient here; only "returns normally" is required
  deriving Repr

def takeDigits (s : Bytes) : Bytes × Bytes := (s.takeWhile isDigitB, s.dropWhile isDigitB)

/-- Split an optional sign off the front. -/
def splitSign : Bytes → Option Bool × Bytes
  | 43 :: r => (some false, r)
  | 45 :: r => (some true, r)
  | s => (none, s)

/-- Parse `[eE][+-]?digits+` exactly covering `s`. -/
def parseExpPart (s : Bytes) : Option Int :=
  match s with
  | [] => some 0
  | b :: r =>
    if b == 101 || b == 69 then
      let (sg, r) := splitSign r
      let (ds, rest) := takeDigits r
      if ds.isEmpty || !rest.isEmpty then none
      else some (if sg == some true then -(digitsVal ds : Int) else (digitsVal ds : Int))
    else none

/-- Strict grammar: `sign? (digits+ ('.' digits*)? | '.' digits+) ([eE] sign? digits+)?`. -/
def parseLiteral (s : Bytes) : Option Literal :=
  let (sg, r) := splitSign s
  let (ip, r) := takeDigits r
  let (fp, r, hadPoint) : Bytes × Bytes × Bool :=
    match r with
    | 46 :: r' => let (fp, r'') := takeDigits r'; (fp, r'', true)
    | _ => ([], r, false)
  let _ := hadPoint
  if ip.isEmpty && fp.isEmpty then none
  else match parseExpPart r with
    | some e => some { neg := sg == some true, intDigits := ip, fracDigits := fp, exp := e }
    | none => none

/-- Does `s` start with a literal that has a complete exponent part, followed by junk?  (The
library stops reading there.)  Also: more than zero leading blanks, bare sign / point. -/
def isLenient (s : Bytes) : Bool :=
  let body := s.dropWhile (fun b => b == 32 || b == 9)
  if body.length != s.length then true
  else
    let (_, r) := splitSign s
    -- a sign and/or a point with no digit at all: read as a zero by the library
    if (r.isEmpty && !s.isEmpty) || (r.head? == some 46 && !((r.drop 1).head?.map isDigitB).getD false) then true
    else if (r.take 4).map lowerB == lSnan && r.length > 4 then true
    else
      -- literal with exponent followed by junk
      let (ip, r1) := takeDigits r
      let (fp, r2) : Bytes × Bytes := match r1 with
        | 46 :: r' => takeDigits r'
        | _ => ([], r1)
      if ip.isEmpty && fp.isEmpty then false
      else match r2 with
        | b :: r3 =>
          if b == 101 || b == 69 then
            let (_, r4) := splitSign r3
            let (ds, rest) := takeDigits r4
            !ds.isEmpty && !rest.isEmpty
          else false
        | [] => false

def classifyText (s : Bytes) : TextClass :=
  match parseLiteral s with
  | some l => .literal l
  | none =>
    let (sg, r) := splitSign s
    let neg := sg == some true
    if eqIgnoreCase r lInf || eqIgnoreCase r lInfinity then .inf neg
    else if eqIgnoreCase r lNan then .qnan neg
    else if eqIgnoreCase r lSnan then .snan neg
    else if isLenient s then .lenient
    else .illFormed

/-- Significant digits of a literal (leading zeros dropped), and the exponent of the last digit. -/
def Literal.sigDigits (l : Literal) : Bytes := (l.intDigits ++ l.fracDigits).dropWhile (· == 48)
def Literal.coeff (l : Literal) : Nat := digitsVal (l.intDigits ++ l.fracDigits)
def Literal.exp10 (l : Literal) : Int := l.exp - l.fracDigits.length

/-- The value a well-formed literal must convert to. -/
def parseLiteralSpec (mode : Mode) (l : Literal) : Datum × Flags :=
  if l.coeff = 0 then (zeroAt l.neg l.exp10, 0)
  else finish mode l.neg l.coeff 1 l.exp10 l.exp10

end Dec
