/-
  DecModel.Format — a code-shaped model of the decimal → text formatter `bid128_to_string`
  (/repo/src/bid128_string.rs, lines 26–205) and of its digit-generation helpers
  (/repo/src/bid128_2_str_macros.rs: `__l0_normalize_10to18`, `__l0_split_midi_2`, `__l0_split_midi_3`,
  `__l1_split_midi_6`, `__l1_split_midi_6_lead`, `__l0_midi_2_str`, `__l0_midi_2_str_lead`).
  `impl Display`, `impl Debug` and `impl UpperExp for d128` call it with `upperExp = true`, `impl LowerExp` with
  `upperExp = false` (d128.rs, lines 1152–1174).

  The Rust code is outside the Rust → Lean translator's subset (`Vec`, `fmt::Write`), hence this hand transcription,
  statement by statement.  `DecProofs/Properties/C05Format.lean` proves that for every one of the 2^128 patterns it
  writes exactly `Dec.format upper (decode bits)` (and therefore never reaches one of the panic sites below).

  How the Rust state is represented
  * a `u64` / `u32` is a `Nat` below `2^64` / `2^32`.  The crate is built with overflow checks off (its Cargo.toml
    switches them off for the dev profile, and they are off by default in release), so `+ - *` wrap: `add64`, `sub64`,
    `mul64`, `add32`, … .  The one place where the code relies on that is the `u64` subtraction of the bias,
    `((x.w[1] & MASK_EXP) >> 49) - 6176` (lines 71, 91), which goes below zero for every negative exponent and is put
    right by the `as i32` that follows.  `a << s` loses the bits shifted out (`shl64`, `shl32`); `a >> s` is `>>>`;
    every shift amount is a literal below the width.  `a & m` is `&&&`.
  * an `i32` is an `Int` kept in range by `wrapI32`; `v as i32` for an unsigned `v` is `asI32 v` (low 32 bits read as
    two's complement), `v as u32` / `v as usize` for an `i32` are `i32AsU32` / `i32AsUsize` (a negative index becomes
    a huge one and the table access panics), `>>` on an `i32` is the arithmetic shift `Int.shiftRight`.
    The one bit operation on an `i32`, `Tmp as i32 & 0x3f`, is done on the 32-bit pattern (`&` with a non-negative
    mask does not look at the sign).
  * `fmt: &mut Formatter` is the list of bytes written so far.  `write_str` appends the bytes, `write_char(c)` appends
    the UTF-8 encoding of `c` (`utf8CP`).  The harness formats into a `String`, whose `fmt::Write` cannot fail, and
    `bid128_to_string` never looks at the formatter's flags, so `?` never returns early and a `fmt::Result` carries no
    information: it is not modelled.
  * `MiDi: Vec<u32>` is a `List Nat`; `vec.push(x)` is `vec ++ [x]`.
  * the constant tables are read from the generated modules `DecGen/T_*.lean` (flattened to one word per `u64` /
    `char`; a `&str` entry is its length followed by its bytes).  `MOD10_18_TBL[k][j]` is `mod1018 k j`,
    `BID_CHAR_TABLEn[i]` is `tblAt`, `BID_MIDI_TBL[i]` is `strEntry`; all of them are `none` for an index out of bounds
    (a Rust panic).  `&s[1..]` on a `&str` is `sliceFrom s 1` of `DecModel/Scan.lean` (`none` = off the end or not on
    a character boundary).
  * `exp.to_string()` (line 79) is the standard library's `i32` formatter: an optional `-` and the decimal digits of
    the magnitude (`i32ToString`); it is the only step that is not transcribed from the crate's own source.
  * the `while Tmp > 0` loop of lines 137–146 is a recursion with fuel; `Tmp` is shifted right by six bits in every
    round, so a `u64` is exhausted after 11 rounds and the fuel (64) cannot run out before `Tmp` does.
  * statements that the Rust source repeats verbatim are written once: `reduce1000` (lines 31–40 of `__l0_split_midi_2`
    = lines 56–65 of `__l0_split_midi_3`), `splitTento9` (lines 73–82 of `__l1_split_midi_6` = lines 95–104 of
    `__l1_split_midi_6_lead`).  A function that updates two variables returns the pair.

  `fmtCode` is the three-way branch of `bid128_to_string` (line 49 special → `fmtSpecial`, line 62 all-zero coefficient
  field → `fmtZero`, else → `fmtFinite`); `fmtFinite` is: unpack (lines 82–94), the coefficient (`writeCoeffOf`: the
  "print `0`" test of lines 99–101, else `coeffMidi` = limb loop + millennial digits, `writeCoeff` = table look-ups),
  the exponent (`writeExp`).  `fmtCodeOp` is the same under the harness's operation names.

  `none` = the code would panic.  The panic sites (none of which can fire, `C05Format.fmtCode_eq_format`):
    line 141 / 143 `MOD10_18_TBL[k_lcv][midi_ind as usize]` (row ≥ 9 or column ≥ 128),
    line 156 `MiDi[0]` and line 157 `MiDi[1..]` on an empty vector,
    `BID_MIDI_TBL[x as usize]` (macros.rs lines 129, 134, 136, 138) with `x ≥ 1000`, and the slices `[1..]`, `[2..]`,
    lines 179 / 188 `char::from_digit(d, 10).unwrap()` with `d ≥ 10`,
    lines 181–183, 192–193, 197–199 `BID_CHAR_TABLE3[…]` / `BID_CHAR_TABLE2[…]` out of bounds,
    and the loop fuel (not a Rust panic: the model's own bound).
-/
import DecModel.Scan
import DecGen.T_MOD10_18_TBL
import DecGen.T_BID_MIDI_TBL
import DecGen.T_BID_CHAR_TABLE2
import DecGen.T_BID_CHAR_TABLE3

namespace Dec
namespace Fmt

open Dec.Gen

/-! ### machine integers -/

/-- `a + b` on `u64` (wrapping) -/
def add64 (a b : Nat) : Nat := (a + b) % 2 ^ 64
/-- `a - b` on `u64` (wrapping), for `a, b < 2^64` -/
def sub64 (a b : Nat) : Nat := (a + 2 ^ 64 - b) % 2 ^ 64
/-- `a * b` on `u64` (wrapping) -/
def mul64 (a b : Nat) : Nat := (a * b) % 2 ^ 64
/-- `a << s` on `u64`, `s < 64` -/
def shl64 (a s : Nat) : Nat := (a <<< s) % 2 ^ 64

/-- `a + b` on `u32` (wrapping) -/
def add32 (a b : Nat) : Nat := (a + b) % 2 ^ 32
/-- `a - b` on `u32` (wrapping), for `a, b < 2^32` -/
def sub32 (a b : Nat) : Nat := (a + 2 ^ 32 - b) % 2 ^ 32
/-- `a * b` on `u32` (wrapping) -/
def mul32 (a b : Nat) : Nat := (a * b) % 2 ^ 32
/-- `a << s` on `u32`, `s < 32` -/
def shl32 (a s : Nat) : Nat := (a <<< s) % 2 ^ 32
/-- `v as u32` for a `u64` -/
def asU32 (v : Nat) : Nat := v % 2 ^ 32

/-- an integer wrapped into the range of `i32` -/
def wrapI32 (v : Int) : Int := (v + 2147483648) % 4294967296 - 2147483648
/-- `v as i32` for an unsigned `v` (`u32`, `u64`): the low 32 bits read as two's complement -/
def asI32 (v : Nat) : Int := wrapI32 (v : Int)
/-- `v as u32` for an `i32` -/
def i32AsU32 (v : Int) : Nat := (v % 4294967296).toNat
/-- `v as usize` for an `i32` (sign extension to 64 bits) -/
def i32AsUsize (v : Int) : Nat := (v % 18446744073709551616).toNat

/-! ### constants (bid_internal.rs lines 127–135, bid128_2_str_tables.rs lines 14–20) -/

def MASK_EXP : Nat := 0x7ffe000000000000
def MASK_SPECIAL : Nat := 0x7800000000000000
def MASK_NAN : Nat := 0x7c00000000000000
def MASK_SNAN : Nat := 0x7e00000000000000
def MASK_SIGN : Nat := 0x8000000000000000
def MASK_COEFF : Nat := 0x0001ffffffffffff
def BID_TWOTO60_M_10TO18 : Nat := 152921504606846976
def BID_TWOTO60 : Nat := 0x1000000000000000
/-- `floor(2^61 / 10^9)` -/
def BID_INV_TENTO9 : Nat := 2305843009
def BID_TENTO9 : Nat := 1000000000
def BID_TENTO6 : Nat := 1000000
def BID_TENTO3 : Nat := 1000

/-! ### table access -/

/-- `TABLE[i]` for a flattened table of one-word entries; `none` = index out of bounds -/
def tblAt (t : List Nat) (i : Nat) : Option Nat := t[i]?

/-- `MOD10_18_TBL[k][j]` (a `[[u64; 128]; 9]`, flattened row after row); `none` = index out of bounds -/
def mod1018 (k j : Nat) : Option Nat :=
  if k < MOD10_18_TBL_len ∧ j < 128 then MOD10_18_TBL[k * 128 + j]? else none

/-- entry `i` of a flattened `[&str; N]` (each entry: its length, then its bytes); `none` = index out of bounds -/
def strEntry : List Nat → Nat → Option Bytes
  | [], _ => none
  | len :: r, 0 => if len ≤ r.length then some (r.take len) else none
  | len :: r, i + 1 => strEntry (r.drop len) i

/-- `BID_MIDI_TBL[x as usize]` -/
def midiStr (x : Nat) : Option Bytes := strEntry BID_MIDI_TBL x

/-! ### bid128_2_str_macros.rs -/

/-- `__l0_normalize_10to18(&mut x_hi, &mut x_lo)` (lines 14–20): the new `(x_hi, x_lo)` -/
def normalize10to18 (x_hi x_lo : Nat) : Nat × Nat :=
  let l0_tmp := add64 x_lo BID_TWOTO60_M_10TO18                            -- 15
  if l0_tmp &&& BID_TWOTO60 == BID_TWOTO60 then                            -- 16
    (add64 x_hi 1, shl64 l0_tmp 4 >>> 4)                                   -- 17, 18
  else (x_hi, x_lo)

/-- lines 31–40 of `__l0_split_midi_2`, and again (with `l0_mid` for `l0_head` and `l0_x` for `x`) lines 56–65 of
`__l0_split_midi_3`, the same statements: `x` as `(l0_head, l0_tail)` -/
def reduce1000 (x : Nat) : Nat × Nat :=
  let l0_head := x >>> 10                                                              -- 31 / 56
  let l0_tail := sub32 (add32 (x &&& 0x03FF) (shl32 l0_head 5)) (shl32 l0_head 3)      -- 32 / 57
  let l0_tmp := l0_tail >>> 10                                                         -- 33 / 58
  let l0_head := add32 l0_head l0_tmp                                                  -- 34 / 59
  let l0_tail := sub32 (add32 (l0_tail &&& 0x03FF) (shl32 l0_tmp 5)) (shl32 l0_tmp 3)  -- 35 / 60
  if l0_tail > 999 then (add32 l0_head 1, sub32 l0_tail 1000)                          -- 37–40 / 62–65
  else (l0_head, l0_tail)

/-- `__l0_split_midi_2(x, vec)` (lines 30–44): the new `vec` -/
def splitMidi2 (x : Nat) (vec : List Nat) : List Nat :=
  let r := reduce1000 x                                                                -- 31–40
  let l0_head := r.1
  let l0_tail := r.2
  vec ++ [l0_head] ++ [l0_tail]                                                        -- 42, 43

/-- lines 47–54 of `__l0_split_midi_3`: `(l0_head, l0_x)` -/
def head1e6 (x : Nat) : Nat × Nat :=
  let l0_x := x                                                                        -- 47
  let l0_head := mul32 (l0_x >>> 17) 34359 >>> 18                                      -- 48
  let l0_x := sub32 l0_x (mul32 l0_head 1000000)                                       -- 49
  if l0_x ≥ 1000000 then (add32 l0_head 1, sub32 l0_x 1000000)                         -- 51–54
  else (l0_head, l0_x)

/-- `__l0_split_midi_3(x, vec)` (lines 46–70): the new `vec` -/
def splitMidi3 (x : Nat) (vec : List Nat) : List Nat :=
  let r := head1e6 x                                                                   -- 47–54
  let l0_head := r.1
  let l0_x := r.2
  let r := reduce1000 l0_x                                                             -- 56–65
  let l0_mid := r.1
  let l0_tail := r.2
  vec ++ [l0_head] ++ [l0_mid] ++ [l0_tail]                                            -- 67–69

/-- lines 73–82 and 95–104, the same statements in `__l1_split_midi_6` and `__l1_split_midi_6_lead`: split the
`u64` `x` into `(l1_x_hi, l1_x_lo)`, both `u32` -/
def splitTento9 (x : Nat) : Nat × Nat :=
  let l1_xhi_64 := mul64 (x >>> 28) BID_INV_TENTO9 >>> 33                              -- 73 / 95
  let l1_xlo_64 := sub64 x (mul64 l1_xhi_64 BID_TENTO9)                                -- 74 / 96
  if l1_xlo_64 ≥ BID_TENTO9 then                                                       -- 76 / 98
    (asU32 (add64 l1_xhi_64 1), asU32 (sub64 l1_xlo_64 BID_TENTO9))                    -- 77, 78, 81, 82 / 99, 100, 103, 104
  else
    (asU32 l1_xhi_64, asU32 l1_xlo_64)                                                 -- 81, 82 / 103, 104

/-- `__l1_split_midi_6(x, vec)` (lines 72–86): the new `vec` -/
def splitMidi6 (x : Nat) (vec : List Nat) : List Nat :=
  let r := splitTento9 x                                                               -- 73–82
  let l1_x_hi := r.1
  let l1_x_lo := r.2
  splitMidi3 l1_x_lo (splitMidi3 l1_x_hi vec)                                          -- 84, 85

/-- `__l1_split_midi_6_lead(x, vec)` (lines 88–126): the new `vec` -/
def splitMidi6Lead (x : Nat) (vec : List Nat) : List Nat :=
  if x ≥ BID_TENTO9 then                                                               -- 94
    let r := splitTento9 x                                                             -- 95–104
    let l1_x_hi := r.1
    let l1_x_lo := r.2
    if l1_x_hi ≥ BID_TENTO6 then                                                       -- 106
      splitMidi3 l1_x_lo (splitMidi3 l1_x_hi vec)                                      -- 107, 108
    else if l1_x_hi ≥ BID_TENTO3 then                                                  -- 109
      splitMidi3 l1_x_lo (splitMidi2 l1_x_hi vec)                                      -- 110, 111
    else
      splitMidi3 l1_x_lo (vec ++ [l1_x_hi])                                            -- 113, 114
  else
    let l1_x_lo := asU32 x                                                             -- 117
    if l1_x_lo ≥ BID_TENTO6 then                                                       -- 118
      splitMidi3 l1_x_lo vec                                                           -- 119
    else if l1_x_lo ≥ BID_TENTO3 then                                                  -- 120
      splitMidi2 l1_x_lo vec                                                           -- 121
    else
      vec ++ [l1_x_lo]                                                                 -- 123

/-- `__l0_midi_2_str(x, fmt)` (lines 128–130): the new `fmt` -/
def midi2Str (x : Nat) (fmt : Bytes) : Option Bytes :=
  match midiStr x with
  | none => none                                  -- `BID_MIDI_TBL[x as usize]`
  | some s => some (fmt ++ s)

/-- `__l0_midi_2_str_lead(x, fmt)` (lines 132–140): the new `fmt` -/
def midi2StrLead (x : Nat) (fmt : Bytes) : Option Bytes :=
  match midiStr x with
  | none => none                                  -- `BID_MIDI_TBL[x as usize]`
  | some s =>
    if x ≥ 100 then some (fmt ++ s)                                                    -- 134
    else if x ≥ 10 then
      match sliceFrom s 1 with                                                         -- 136
      | none => none                              -- `[1..]`
      | some t => some (fmt ++ t)
    else
      match sliceFrom s 2 with                                                         -- 138
      | none => none                              -- `[2..]`
      | some t => some (fmt ++ t)

/-! ### bid128_string.rs -/

/-- `i32::to_string` (the standard library's) -/
def i32ToString (v : Int) : Bytes := (if v < 0 then [45] else []) ++ digitBytes v.natAbs

/-- `char::from_digit(d, 10)` (as a code point) -/
def fromDigit10 (d : Nat) : Option Nat := if d < 10 then some (48 + d) else none

/-- `fmt.write_char(c)` -/
def writeChar (fmt : Bytes) (c : Nat) : Bytes := fmt ++ utf8CP c

/-- `fmt.write_char(TABLE[i as usize])` for the three / two consecutive entries from `ind` on
(lines 181–183, 197–199; 192–193) -/
def writeTable (t : List Nat) (ind : Int) (n : Nat) (fmt : Bytes) : Option Bytes :=
  match n with
  | 0 => some fmt
  | n + 1 =>
    match tblAt t (i32AsUsize ind) with
    | none => none                                -- index out of bounds
    | some c => writeTable t (wrapI32 (ind + 1)) n (writeChar fmt c)

/-- the `while Tmp > 0` loop of lines 137–146.  Arguments: fuel, `Tmp`, `k_lcv`, `HI_18Dig`, `LO_18Dig`;
result: `(HI_18Dig, LO_18Dig)` after the loop. -/
def limbLoop : Nat → Nat → Nat → Nat → Nat → Option (Nat × Nat)
  | 0, Tmp, _, HI_18Dig, LO_18Dig => if Tmp > 0 then none else some (HI_18Dig, LO_18Dig)   -- (fuel)
  | fuel + 1, Tmp, k_lcv, HI_18Dig, LO_18Dig =>
    if Tmp > 0 then                                                                    -- 137
      let midi_ind : Int := ((asU32 Tmp &&& 0x3f : Nat) : Int)                         -- 138
      let midi_ind := wrapI32 (midi_ind * 2)                                           -- 139  `<<= 1`
      let Tmp := Tmp >>> 6                                                             -- 140
      match mod1018 k_lcv (i32AsUsize midi_ind) with                                   -- 141
      | none => none
      | some a =>
        let HI_18Dig := add64 HI_18Dig a
        let midi_ind := wrapI32 (midi_ind + 1)                                         -- 142
        match mod1018 k_lcv (i32AsUsize midi_ind) with                                 -- 143
        | none => none
        | some b =>
          let LO_18Dig := add64 LO_18Dig b
          let k_lcv := k_lcv + 1                                                       -- 144
          let r := normalize10to18 HI_18Dig LO_18Dig                                   -- 145
          limbLoop fuel Tmp k_lcv r.1 r.2
    else some (HI_18Dig, LO_18Dig)

/-- lines 129–153: the coefficient `C1` (neither zero nor non-canonical) as millennial digits `MiDi` -/
def coeffMidi (C1w0 C1w1 : Nat) : Option (List Nat) :=
  let Tmp := C1w0 >>> 59                                                               -- 129
  let LO_18Dig := shl64 C1w0 5 >>> 5                                                   -- 130
  let Tmp := add64 Tmp (shl64 C1w1 5)                                                  -- 131
  match limbLoop 64 Tmp 0 0 LO_18Dig with                                              -- 132–146
  | none => none
  | some r =>
    let HI_18Dig := r.1
    let LO_18Dig := r.2
    if HI_18Dig == 0 then                                                              -- 148
      some (splitMidi6Lead LO_18Dig [])                                                -- 149
    else
      some (splitMidi6 LO_18Dig (splitMidi6Lead HI_18Dig []))                          -- 151, 152

/-- lines 157–159: `for midi in MiDi[1..].iter() { __l0_midi_2_str(*midi, fmt)?; }` -/
def writeMidis : List Nat → Bytes → Option Bytes
  | [], fmt => some fmt
  | m :: rest, fmt =>
    match midi2Str m fmt with
    | none => none
    | some fmt => writeMidis rest fmt

/-- lines 155–159: the millennial digits as text -/
def writeCoeff (MiDi : List Nat) (fmt : Bytes) : Option Bytes :=
  match MiDi with
  | [] => none                                    -- `MiDi[0]`, `MiDi[1..]`
  | m0 :: rest =>
    match midi2StrLead m0 fmt with                                                     -- 156
    | none => none
    | some fmt => writeMidis rest fmt                                                  -- 157–159

/-- lines 171–201: the one to four digits of the exponent's magnitude (`exp ≥ 0` here) -/
def writeExpDigits (exp : Int) (fmt : Bytes) : Option Bytes :=
  let d0 := i32AsU32 (wrapI32 (exp * 0x418a) >>> 24)                                   -- 174
  let d123 := i32AsU32 (wrapI32 (exp - wrapI32 (1000 * asI32 d0)))                     -- 175
  if d0 != 0 then                                                                      -- 177
    match fromDigit10 d0 with                                                          -- 179
    | none => none                                -- `.unwrap()`
    | some c =>
      let fmt := writeChar fmt c
      let ind := asI32 (mul32 3 d123)                                                  -- 180
      writeTable BID_CHAR_TABLE3 ind 3 fmt                                             -- 181–183
  else if d123 < 10 then                                                               -- 186
    match fromDigit10 d123 with                                                        -- 188
    | none => none                                -- `.unwrap()`
    | some c => some (writeChar fmt c)
  else if d123 < 100 then                                                              -- 189
    let ind := asI32 (mul32 2 (sub32 d123 10))                                         -- 191
    writeTable BID_CHAR_TABLE2 ind 2 fmt                                               -- 192, 193
  else
    let ind := asI32 (mul32 3 d123)                                                    -- 196
    writeTable BID_CHAR_TABLE3 ind 3 fmt                                               -- 197–199

/-- lines 162–201: `E`/`e`, the sign of the exponent and its one to four digits -/
def writeExp (upperExp : Bool) (exp : Int) (fmt : Bytes) : Option Bytes :=
  let fmt := writeChar fmt (if upperExp then 69 else 101)                              -- 163
  if exp < 0 then                                                                      -- 164
    writeExpDigits (wrapI32 (-exp)) (writeChar fmt 45)                                 -- 165, 166, 171–201
  else
    writeExpDigits exp (writeChar fmt 43)                                              -- 168, 171–201

/-- lines 51–61: `x` is a NaN or an infinity -/
def fmtSpecial (w1 : Nat) : Bytes :=
  if w1 &&& MASK_NAN == MASK_NAN then                                                  -- 51
    if w1 &&& MASK_SNAN == MASK_SNAN then                                              -- 52
      -- `(x.w[1] as BID_SINT64) < 0`: the top bit
      if w1 ≥ 2 ^ 63 then [45, 83, 78, 97, 78] else [43, 83, 78, 97, 78]               -- 54  "-SNaN" "+SNaN"
    else
      if w1 ≥ 2 ^ 63 then [45, 78, 97, 78] else [43, 78, 97, 78]                       -- 57  "-NaN" "+NaN"
  else
    if w1 &&& MASK_SIGN == 0 then [43, 73, 110, 102] else [45, 73, 110, 102]           -- 60  "+Inf" "-Inf"

/-- lines 63–79: the coefficient field and the low word are zero -/
def fmtZero (upperExp : Bool) (w1 : Nat) : Bytes :=
  let fmt : Bytes :=
    if upperExp then (if w1 &&& MASK_SIGN == MASK_SIGN then [45, 48, 69] else [43, 48, 69])        -- 65  "-0E" "+0E"
    else (if w1 &&& MASK_SIGN == MASK_SIGN then [45, 48, 101] else [43, 48, 101])                  -- 67  "-0e" "+0e"
  let exp := asI32 (sub64 ((w1 &&& MASK_EXP) >>> 49) 6176)                             -- 71
  let exp :=
    if exp > (((0x5ffe >>> 1 : Nat) : Int) - 6176) then                                -- 73
      wrapI32 (asI32 ((shl64 w1 2 &&& MASK_EXP) >>> 49) - 6176)                        -- 74
    else exp
  let fmt := if exp ≥ 0 then writeChar fmt 43 else fmt                                 -- 76–78
  fmt ++ i32ToString exp                                                               -- 79

/-- lines 96–160: the coefficient `C1` of `x` (`C1.w[1] = C1w1`, `C1.w[0] = x.w[0] = w0`) as text -/
def writeCoeffOf (w0 w1 C1w1 : Nat) (fmt : Bytes) : Option Bytes :=
  let C1w0 := w0
  if C1w1 > 0x0001ed09bead87c0                                                         -- 99
      || (C1w1 == 0x0001ed09bead87c0 && C1w0 > 0x378d8e63ffffffff)                     -- 100
      || (w1 &&& 0x6000000000000000 == 0x6000000000000000)                             -- 101
      || (C1w1 == 0 && C1w0 == 0) then
    some (writeChar fmt 48)                                                            -- 102
  else
    match coeffMidi C1w0 C1w1 with                                                     -- 129–153
    | none => none
    | some MiDi => writeCoeff MiDi fmt                                                 -- 155–159

/-- lines 81–201: `x` is neither special nor a zero with an all-zero coefficient field -/
def fmtFinite (upperExp : Bool) (w0 w1 : Nat) : Option Bytes :=
  let x_sign := w1 &&& MASK_SIGN                                                       -- 82
  let x_exp := w1 &&& MASK_EXP                                                         -- 83
  let x_exp :=
    if w1 &&& 0x6000000000000000 == 0x6000000000000000 then shl64 w1 2 &&& MASK_EXP    -- 85–87
    else x_exp
  let C1w1 := w1 &&& MASK_COEFF                                                        -- 89, 90
  let exp := asI32 (sub64 (x_exp >>> 49) 6176)                                         -- 91
  let fmt : Bytes := writeChar [] (if x_sign != 0 then 45 else 43)                     -- 94
  match writeCoeffOf w0 w1 C1w1 fmt with                                               -- 96–160
  | none => none
  | some fmt => writeExp upperExp exp fmt                                              -- 162–201

end Fmt

open Fmt in
/-- **What `bid128_to_string(x, fmt, upperExp)` writes** for `x.w[0] = w0`, `x.w[1] = w1` (both below `2^64`);
`none` = the code would panic. -/
def fmtCode (upperExp : Bool) (w0 w1 : Nat) : Option Bytes :=
  if w1 &&& MASK_SPECIAL == MASK_SPECIAL then                                          -- 49
    some (fmtSpecial w1)                                                               -- 50–61
  else if (w1 &&& MASK_COEFF == 0) && (w0 == 0) then                                   -- 62
    some (fmtZero upperExp w1)                                                         -- 63–79
  else
    fmtFinite upperExp w0 w1                                                           -- 80–201

/-- The formatter under the harness's operation names: `display`, `debug` and `upperexp` (`{}`, `{:?}`, `{:E}`)
call `bid128_to_string` with `upperExp = true`, `lowerexp` (`{:e}`) with `false`; `bits = w1 · 2^64 + w0`.
(`none` also for any other name.) -/
def fmtCodeOp (op : String) (bits : Nat) : Option Bytes :=
  let w0 := bits % 2 ^ 64
  let w1 := bits / 2 ^ 64 % 2 ^ 64
  match op with
  | "display" => fmtCode true w0 w1
  | "debug" => fmtCode true w0 w1
  | "upperexp" => fmtCode true w0 w1
  | "lowerexp" => fmtCode false w0 w1
  | _ => none

end Dec
