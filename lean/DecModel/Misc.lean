/-
  DecModel.Misc — quantize and quantum queries, round-to-integral family, modf, integer
  conversions, scaling / exponent extraction, next* (non-NaN operands; NaN operands are handled
  uniformly in `DecModel.Ops`).
-/
import DecModel.Compare

namespace Dec

/-! ### quantize and quantum queries -/

def quantizeD (mode : Mode) : Datum → Datum → Datum × Flags
  | .inf s1, .inf _ => (.inf s1, 0)
  | .inf _, _ => invalidResult
  | _, .inf _ => invalidResult
  | .fin s c e, .fin _ _ ey =>
    if c = 0 then (.fin s 0 ey, 0)
    else if e ≥ ey then
      let c' := c * 10 ^ (e - ey).toNat
      if c' < P34 then (.fin s c' ey, 0) else invalidResult
    else
      let D := 10 ^ (ey - e).toNat
      let m := roundInt mode s (c / D) (c % D) D
      (.fin s m ey, if c % D = 0 then 0 else fInexact)
  | _, _ => invalidResult

def sameQuantumD : Datum → Datum → Bool
  | .nan .., .nan .. => true
  | .inf _, .inf _ => true
  | .fin _ _ e1, .fin _ _ e2 => e1 == e2
  | _, _ => false

/-- `quantum x = 1·10^e`; `+Inf` for infinities. -/
def quantumD : Datum → Datum
  | .fin _ _ e => .fin false 1 e
  | .inf _ => .inf false
  | d => d

/-! ### round to integral -/

/-- Round a finite datum to an integral value in `mode`.  Exponent ≥ 0: unchanged.  Otherwise the
integer with exponent 0.  Returns the datum and whether the value changed. -/
def toIntegralD (mode : Mode) : Datum → Datum × Bool
  | .fin s c e =>
    if e ≥ 0 then (.fin s c e, false)
    else
      let D := 10 ^ (-e).toNat
      (.fin s (roundInt mode s (c / D) (c % D) D) 0, c % D != 0)
  | d => (d, false)

/-- `modf`: the integral part (toward zero) and the exact fractional part, both with the sign of x. -/
def modfD : Datum → Datum × Datum
  | .inf s => (.inf s, .fin s 0 eMax)
  | x@(.fin s _ _) =>
    let i := (toIntegralD .rtz x).1
    let f := (subD .rne x i).1
    (i.setSign s, f.setSign s)
  | d => (d, d)

/-! ### decimal → integer -/

/-- The integer obtained by rounding a finite datum in `mode`, and whether the datum was already
an integer. -/
def roundToInt (mode : Mode) (s : Bool) (c : Nat) (e : Int) : Int × Bool :=
  if e ≥ 0 then (sInt s (c * 10 ^ e.toNat), true)
  else
    let D := 10 ^ (-e).toNat
    (sInt s (roundInt mode s (c / D) (c % D) D), c % D == 0)

/-- Conversion to an integer type with range `[lo, hi]`; `indef` is the indefinite value.
`xflag` selects the inexact-signalling variants. -/
def toIntD (mode : Mode) (xflag : Bool) (lo hi indef : Int) : Datum → Int × Flags
  | .fin s c e =>
    let (n, exact) := roundToInt mode s c e
    if lo ≤ n ∧ n ≤ hi then (n, if xflag && !exact then fInexact else 0)
    else (indef, fInvalid)
  | _ => (indef, fInvalid)

def fromIntD (n : Int) : Datum := .fin (decide (n < 0)) n.natAbs 0

/-! ### scaleb, logb, frexp -/

def scalebD (mode : Mode) (n : Int) : Datum → Datum × Flags
  | .fin s c e =>
    if c = 0 then (zeroAt s (e + n), 0)
    else finish mode s c 1 (e + n) (e + n)
  | d => (d, 0)

def clampI32 (n : Int) : Int := clampInt (-2147483648) 2147483647 n

/-- Adjusted exponent `q + e - 1` of a finite non-zero datum. -/
def adjExp (c : Nat) (e : Int) : Int := (ndigits c : Int) + e - 1

def logbD : Datum → Datum × Flags
  | .inf _ => (.inf false, 0)
  | .fin _ c e =>
    if c = 0 then (.inf true, fDivZero)
    else (fromIntD (adjExp c e), 0)
  | d => (d, 0)

def ilogbD : Datum → Int × Flags
  | .inf _ => (2147483647, fInvalid)
  | .fin _ c e => if c = 0 then (-2147483648, fInvalid) else (adjExp c e, 0)
  | .nan .. => (-2147483648, fInvalid)

/-- `frexp` of a finite datum: fraction `c·10^(-q)` and exponent `q + e`; zeros give the zero itself
and exponent 0. -/
def frexpD : Datum → Datum × Int
  | .fin s c e =>
    if c = 0 then (.fin s 0 e, 0)
    else (.fin s c (-(ndigits c : Int)), (ndigits c : Int) + e)
  | d => (d, 0)

/-! ### next_up / next_down / next_after -/

/-- Pad a non-zero coefficient with zeros as far as 34 digits and `eMin` allow. -/
def normalize (c : Nat) (e : Int) : Nat × Int :=
  let k : Int := 34 - (ndigits c : Int)
  let room : Int := e - eMin
  let k := if k ≤ room then k else room
  (c * 10 ^ k.toNat, e - k)

def nextUpD : Datum → Datum
  | .inf s => if s then .fin true (P34 - 1) eMax else .inf false
  | .fin s c e =>
    if c = 0 then .fin false 1 eMin
    else
      let (c', e') := normalize c e
      if !s then
        if c' + 1 = P34 then (if e' + 1 > eMax then .inf false else .fin false P33 (e' + 1))
        else .fin false (c' + 1) e'
      else
        if c' = P33 ∧ e' > eMin then .fin true (P34 - 1) (e' - 1)
        else .fin true (c' - 1) e'
  | d => d

def nextDownD (d : Datum) : Datum := (nextUpD d.negate).negate

/-- `next_after x y` for non-NaN data. -/
def nextAfterD (x y : Datum) : Datum × Flags :=
  let r : Datum :=
    match cmpD x y with
    | some .lt => nextUpD x
    | some .gt => nextDownD x
    | _ => x.setSign y.neg
  let ovf : Bool := x.isFin && r.isInf
  let changed : Bool := cmpD x r != some .eq
  let tinyRes : Bool := match r with
    | .fin _ c e => c == 0 || adjExp c e < -6143
    | _ => false
  (r, if ovf then fOverflow ||| fInexact else if changed && tinyRes then fUnderflow ||| fInexact else 0)

end Dec
