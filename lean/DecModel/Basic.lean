/-
  DecModel.Basic — data, encoding and elementary helpers of the decimal128 (BID) model.

  Core Lean only (no Mathlib): everything here is executable and is linked into the `judge`
  executable.  The theorems about these definitions live in `DecProofs/*`.
-/

namespace Dec

/-- The five IEEE 754-2008 rounding-direction attributes, numbered as `RoundingMode` in the crate. -/
inductive Mode
  | rne   -- 0 NearestEven
  | rdn   -- 1 Downward
  | rup   -- 2 Upward
  | rtz   -- 3 TowardZero
  | rna   -- 4 NearestAway
  deriving DecidableEq, Repr, Inhabited

def Mode.ofNat? : Nat → Option Mode
  | 0 => some .rne | 1 => some .rdn | 2 => some .rup | 3 => some .rtz | 4 => some .rna | _ => none

def Mode.toNat : Mode → Nat
  | .rne => 0 | .rdn => 1 | .rup => 2 | .rtz => 3 | .rna => 4

def Mode.all : List Mode := [.rne, .rdn, .rup, .rtz, .rna]

/-- A decimal128 datum. `fin neg c e` is `(-1)^neg · c · 10^e`. -/
inductive Datum
  | fin (neg : Bool) (c : Nat) (e : Int)
  | inf (neg : Bool)
  | nan (neg : Bool) (sig : Bool) (payload : Nat)
  deriving DecidableEq, Repr, Inhabited

/-! ### Status flags: a bit set in a `Nat` (the crate's `_IDEC_flags`) -/

abbrev Flags := Nat
def fInvalid   : Flags := 0x01
def fDenormal  : Flags := 0x02
def fDivZero   : Flags := 0x04
def fOverflow  : Flags := 0x08
def fUnderflow : Flags := 0x10
def fInexact   : Flags := 0x20

/-! ### Format parameters -/

def P34 : Nat := 10000000000000000000000000000000000     -- 10^34
def P33 : Nat := 1000000000000000000000000000000000      -- 10^33
def eMin : Int := -6176
def eMax : Int := 6111
def bias : Nat := 6176

/-- Well-formed datum: what canonical encodings denote. -/
def Datum.WF : Datum → Prop
  | .fin _ c e => c < P34 ∧ eMin ≤ e ∧ e ≤ eMax
  | .inf _ => True
  | .nan _ _ p => p < P33

instance : DecidablePred Datum.WF := fun d => by
  cases d <;> unfold Datum.WF <;> infer_instance

def Datum.isNaN : Datum → Bool | .nan .. => true | _ => false
def Datum.isSNaN : Datum → Bool | .nan _ s _ => s | _ => false
def Datum.isInf : Datum → Bool | .inf _ => true | _ => false
def Datum.isFin : Datum → Bool | .fin .. => true | _ => false
def Datum.isZero : Datum → Bool | .fin _ c _ => c == 0 | _ => false
def Datum.neg : Datum → Bool
  | .fin n _ _ => n | .inf n => n | .nan n _ _ => n
def Datum.setSign (s : Bool) : Datum → Datum
  | .fin _ c e => .fin s c e | .inf _ => .inf s | .nan _ g p => .nan s g p
def Datum.negate (d : Datum) : Datum := d.setSign (!d.neg)

/-! ### Decoding all 2^128 patterns, canonical encoding -/

/-- Interpretation of any 128-bit pattern (IEEE 754-2008 §3.5.2, binary encoding of the
significand).  Non-canonical finite encodings are zeros keeping sign and exponent; trailing bits
of infinities are ignored; NaN payloads ≥ 10^33 and the reserved NaN bits read as zero. -/
def decode (b : Nat) : Datum :=
  let neg := (b / 2^127) % 2 == 1
  let g := (b / 2^123) % 16                 -- bits 126..123
  if g == 15 then
    if (b / 2^122) % 2 == 0 then .inf neg
    else
      let sig := (b / 2^121) % 2 == 1
      let p := b % 2^110
      .nan neg sig (if p < P33 then p else 0)
  else if g / 4 == 3 then                   -- bits 126,125 = 11: large-coefficient form, always ≥ 2^113
    .fin neg 0 (((b / 2^111) % 2^14 : Nat) - (6176 : Int))
  else
    let c := b % 2^113
    .fin neg (if c < P34 then c else 0) (((b / 2^113) % 2^14 : Nat) - (6176 : Int))

def signBit (neg : Bool) : Nat := if neg then 2^127 else 0

/-- The canonical encoding of a (well-formed) datum. -/
def encode : Datum → Nat
  | .fin neg c e => signBit neg + (e + 6176).toNat * 2^113 + c
  | .inf neg => signBit neg + 0x78 * 2^120
  | .nan neg sig p => signBit neg + 0x7c * 2^120 + (if sig then 2^121 else 0) + p

/-- Canonical re-encoding of a pattern. -/
def canon (b : Nat) : Nat := encode (decode b)

def isCanonical (b : Nat) : Bool := b < 2^128 && canon b == b

/-! ### Powers of ten, digit counting -/

@[inline] def pow10 (k : Nat) : Nat := 10 ^ k

/-- Number of decimal digits, by definition (0 has no digits). -/
def ndigitsSlow (n : Nat) : Nat :=
  if h : n = 0 then 0 else 1 + ndigitsSlow (n / 10)
decreasing_by omega

/-- Downward search for the digit count from a starting guess. -/
def digitsDown (n : Nat) : Nat → Nat → Nat
  | 0, d => d
  | f+1, d => if d = 0 then 0 else if n < 10 ^ (d-1) then digitsDown n f (d-1) else d

/-- Upward search. -/
def digitsUp (n : Nat) : Nat → Nat → Nat
  | 0, d => d
  | f+1, d => if n < 10 ^ d then d else digitsUp n f (d+1)

/-- Number of decimal digits of `n` (fast: a `log2`-based estimate, corrected by a bounded
search, *checked*, with the definitional count as fall-back; so it equals `ndigitsSlow`
whatever the quality of the estimate). -/
def ndigits (n : Nat) : Nat :=
  if n = 0 then 0 else
    let g := (n.log2 * 1233) / 4096 + 1
    let d := digitsUp n 4 (digitsDown n 4 g)
    if 10 ^ (d-1) ≤ n ∧ n < 10 ^ d ∧ 0 < d then d else ndigitsSlow n

/-- Trailing decimal zeros of `n`, at most `fuel`. -/
def trailingZeros : Nat → Nat → Nat
  | 0, _ => 0
  | f+1, n => if n ≠ 0 ∧ n % 10 = 0 then 1 + trailingZeros f (n / 10) else 0

/-- `⌊√n⌋` by Newton iteration with explicit fuel, then corrected and checked. -/
def isqrtIter : Nat → Nat → Nat → Nat
  | 0, _, x => x
  | f+1, n, x =>
    let y := (x + n / x) / 2
    if y < x then isqrtIter f n y else x

def isqrtFix : Nat → Nat → Nat → Nat
  | 0, _, r => r
  | f+1, n, r => if r * r > n then isqrtFix f n (r-1) else if (r+1)*(r+1) ≤ n then isqrtFix f n (r+1) else r

def isqrt (n : Nat) : Nat :=
  if n = 0 then 0 else
    let x0 := 2 ^ (n.log2 / 2 + 1)
    isqrtFix (n+1) n (isqrtIter (n.log2 + 8) n x0)

def clampInt (lo hi x : Int) : Int := if x < lo then lo else if x > hi then hi else x

end Dec
