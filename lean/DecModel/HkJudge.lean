/-
  DecModel.HkJudge — the judge for `hk_<name>` observations (the crate-internal helper routines called through
  the cfg hook).  Kept apart from `DecModel.Judge` because it depends on generated code (`DecGen/Code.lean`): if a
  change to /repo makes that module fail to build, the API-level judge still works and the failure is reported as
  a broken obligation of the properties that use the helper families.
-/
import DecModel.Judge
import DecModel.HkGen
import DecGen.Api
import DecGen.Api2
import DecGen.Api3
import DecModel.BinConvCode
import DecModel.RoundHelpers
import DecModel.PackHelpers
import DecModel.ArithHelpers

namespace Dec

/-! ### the crate-internal helper routines (`hk_<name>` observations)

The compiled routine (called through the cfg hook) is compared word for word with the Lean translation of its
source (`DecGen/Code.lean`, regenerated on every run): a disagreement means the translator (or the marshalling in
`HkGen`) does not describe the code — `corr translated-code`.  `hkModels` are hand-written code-shaped models that
carry the "correct for every input" theorems; where one is defined and disagrees with the compiled routine the
verdict is `corr helper-model` (the routine deviates from the model the theorems are about, on this input). -/

def wordsOf (vs : List Val) : Option (List Nat) :=
  vs.foldr (fun v acc => match v, acc with
    | .g x, some l => some (x :: l)
    | _, _ => none) (some [])

/-- the digit-group helpers of the hand-written formatter model (`DecModel/Format.lean`: the functions `C05Format.fmtCode_eq_format`
is about; `C05GenMidi.…_model` proves the translated helpers equal to them) -/
def hkMidi (name : String) (_ : Mode) (fl : Nat) (a : List Nat) : Option (List Nat × Nat) :=
  match name, a with
  | "split_midi_2", [x] => if x < 2 ^ 32 then some (Fmt.splitMidi2 x [], fl) else none
  | "split_midi_3", [x] => if x < 2 ^ 32 then some (Fmt.splitMidi3 x [], fl) else none
  | "split_midi_6", [x] => if x < 1000000000000000000 then some (Fmt.splitMidi6 x [], fl) else none
  | "split_midi_6_lead", [x] => if x < 1000000000000000000 then some (Fmt.splitMidi6Lead x [], fl) else none
  | "normalize_10to18", [h, l] =>
    if l < 2000000000000000000 ∧ h + 1 < 2 ^ 64 then some ([(Fmt.normalize10to18 h l).1, (Fmt.normalize10to18 h l).2], fl) else none
  | _, _ => none

/-- hand-written helper models: name, mode, incoming flags, argument words ↦ result words and outgoing flags
(`none`: no model for that name, or input outside the domain on which the model claims to mirror the code) -/
def hkModels : List (String → Mode → Nat → List Nat → Option (List Nat × Nat)) := [hkRound, hkPack, hkArith, hkMidi]

def showWords (ws : List Nat) : String := " ".intercalate (ws.map fun w => "G" ++ String.ofList (Nat.toDigits 16 w))

def judgeHk (name : String) (o : Obs) : String :=
  match wordsOf o.args with
  | none => "bad helper arguments must be words"
  | some ws =>
    match HkGen.run name o.mode o.flagsIn ws with
    | .unknown => "bad unknown helper " ++ name
    | .panic why =>
      match o.out with
      | none => "ok hk-panic-agrees"
      | some _ => "corr translated-code predicts a panic (" ++ why ++ "), the compiled routine returned"
    | .ok gw gf =>
      match o.out with
      | none => "corr translated-code returns " ++ showWords gw ++ ", the compiled routine panicked"
      | some (rv, rf) =>
        if wordsOf rv != some gw || rf != gf then
          "corr translated-code predicts " ++ showWords gw ++ " flags " ++ String.ofList (Nat.toDigits 16 gf)
        else
          match hkModels.findSome? (fun m => m name o.mode o.flagsIn ws) with
          | none => "ok hk-translated"
          | some (mw, mf) =>
            if mw == gw && mf == gf then "ok hk-translated+model"
            else "corr helper-model predicts " ++ showWords mw ++ " flags " ++ String.ofList (Nat.toDigits 16 mf)

/-! ### public methods whose routine is translated (`DecGen/Api.lean`)

Every observation of such a method is recomputed with the Lean translation of the routine's source and compared
bit for bit (results and status word).  This is the translator's own correspondence check on the API's input
space; it says nothing about right or wrong (the specification judge does that), only that `DecGen/Code.lean`
computes what the compiled code computes. -/

open Dec.Gen.Api in
def toAVal : Val → Option AVal
  | .d b => some (.d ⟨UInt64.ofNat (b % 2 ^ 64), UInt64.ofNat (b / 2 ^ 64)⟩)
  | .i v => some (.i v)
  | _ => none

open Dec.Gen.Api in
def ofAVal : AVal → Val
  | .d r => .d (r.w0.toNat + 2 ^ 64 * r.w1.toNat)
  | .i v => .i v
  | .b v => .b v
  | .c cls => .cls (match cls with
      | .SignalingNaN => 0 | .QuietNaN => 1 | .NegativeInfinity => 2 | .NegativeNormal => 3 | .NegativeSubnormal => 4
      | .NegativeZero => 5 | .PositiveZero => 6 | .PositiveSubnormal => 7 | .PositiveNormal => 8 | .PositiveInfinity => 9)
  | .o r => .o r
  | .h bs => .h (bs.map UInt8.toNat)

/-- the string routine `bid128_from_string_clear_status` as the code-shaped models of the scanner and the numeric phase predict it
(`DecModel/Scan.lean`, `ScanNum.lean`; `C04ScanNum.fromStringCode_correct`): the parameter the translated text glue is run over -/
def csModel (s : String) (m : Dec.Rs.RoundingMode) (f : UInt32) : Except String (Dec.Rs.U128 × UInt32) :=
  let mode : Mode := match m with
    | .NearestEven => .rne | .Downward => .rdn | .Upward => .rup | .TowardZero => .rtz | .NearestAway => .rna
  match fromStringCodeBits mode (s.toUTF8.toList.map UInt8.toNat) with
  | some (some (bits, fl)) => .ok (⟨UInt64.ofNat (bits % 2 ^ 64), UInt64.ofNat (bits / 2 ^ 64)⟩, f ||| UInt32.ofNat fl)
  | some none => .error "the scanner / numeric-phase model predicts a panic"
  | none => .error "not UTF-8"

/-- the text entry points (`convert_from_decimal_character`, `FromStr`, `From<&str>`, `nan`): the translated glue of d128.rs /
bid128_string.rs / bid128_noncomp.rs (`DecGen/Code3.lean`, `Api3.run3s`) run over `csModel` -/
def judgeText (modeTok : String) (o : Obs) (t : Bytes) : Option String :=
  match String.fromUTF8? (ByteArray.mk (t.map UInt8.ofNat).toArray) with
  | none => none
  | some text =>
    let omode : Option Dec.Rs.RoundingMode := if modeTok == "-" || modeTok == "N" then none else some (HkGen.rmode o.mode)
    match Dec.Gen.Api3.run3s csModel o.op omode (UInt32.ofNat o.flagsIn) text with
    | none => none
    | some (.error why) =>
      (match o.out with
       | none => some "ok api-panic-agrees"
       | some _ => some ("corr translated-code predicts a panic (" ++ why ++ "), the compiled text glue returned"))
    | some (.ok (r, fl)) =>
      (match o.out with
       | none => some "corr translated-code returns, the compiled text glue panicked"
       | some (rv, rf) =>
         let v : Val := match r with
           | .d x => .d (x.w0.toNat + 2 ^ 64 * x.w1.toNat)
           | .err e => .err e.toNat
         if rv == [v] && rf == fl.toNat then some "ok api-translated"
         else some ("corr translated-code (text glue over the scanner model) predicts " ++ showVal v ++ " " ++ String.ofList (Nat.toDigits 16 fl.toNat)))

/-- the formatter `bid128_to_string` as the code-shaped model predicts it (`DecModel/Format.lean`; `C05Format.fmtCode_eq_format`):
the parameter the translated formatter impls are run over -/
def tsModel (x : Dec.Rs.U128) (buf : List UInt8) (upper : Bool) : Except String (Bool × List UInt8) :=
  match fmtCode upper x.w0.toNat x.w1.toNat with
  | some bs => .ok (true, buf ++ bs.map UInt8.ofNat)
  | none => .error "the formatter model predicts a panic"

/-- `{}`, `{:?}`, `{:E}`, `{:e}`: the translated `impl Display / Debug / UpperExp / LowerExp for d128` (`Api3.run3f`) over `tsModel` -/
def judgeFmt (o : Obs) (bits : Nat) : Option String :=
  match Dec.Gen.Api3.run3f tsModel o.op ⟨UInt64.ofNat (bits % 2 ^ 64), UInt64.ofNat (bits / 2 ^ 64)⟩ [] with
  | none => none
  | some (.error why) =>
    (match o.out with
     | none => some "ok api-panic-agrees"
     | some _ => some ("corr translated-code predicts a panic (" ++ why ++ "), the compiled formatter impl returned"))
  | some (.ok (okv, bs)) =>
    (match o.out with
     | none => some "corr translated-code returns, the compiled formatter impl panicked"
     | some (rv, rf) =>
       if okv && rv == [.s (bs.map UInt8.toNat)] && rf == o.flagsIn then some "ok api-translated"
       else some "corr translated-code (formatter impl over the formatter model) predicts another text")

def judgeApi (modeTok : String) (o : Obs) : String :=
  let mode := if modeTok == "-" || modeTok == "N" then Dec.Gen.Api.defaultMode else HkGen.rmode o.mode
  let args := o.args.foldr (fun a acc => match toAVal a, acc with
    | some v, some l => some (v :: l)
    | _, _ => none) (some [])
  -- methods taking a binary float: the translated `binary32/64_to_bid128` (DecGen/Code2.lean) through DecGen/Api2.lean
  let float? : Option (Except String (Dec.Rs.U128 × UInt32)) := match o.args with
    | [.f b] => Dec.Gen.Api2.run2 o.op mode (UInt32.ofNat o.flagsIn) b
    | [.g b] => Dec.Gen.Api2.run2 o.op mode (UInt32.ofNat o.flagsIn) b
    | _ => none
  -- the hand-written code-shaped model of the same conversions (`DecModel/BinConvCode.lean`; `C07BinConvCode.bin64Code_spec`,
  -- `bin32Code_spec` prove it equal to the specification for every bit pattern and mode): its tie to the code is this comparison
  let hand? : Option String := match o.args with
    | [.f b] | [.g b] =>
      (match binConvCodeOp o.op (if modeTok == "-" || modeTok == "N" then .rne else o.mode) b, o.out with
       | some (some (bits, fl)), some (rv, rf) =>
         if rv == [.d bits] && rf == (o.flagsIn ||| fl) then none
         else some ("corr binconv-model predicts " ++ showVal (.d bits) ++ " raised " ++ String.ofList (Nat.toDigits 16 fl))
       | some (some _), none => some "corr binconv-model returns, the compiled routine panicked"
       | some none, some _ => some "corr binconv-model predicts a panic, the compiled routine returned"
       | _, _ => none)
    | _ => none
  let text? : Option String := match o.args with
    | [.s t] => judgeText modeTok o t
    | [.d bits] => judgeFmt o bits
    | _ => none
  match text? with
  | some why => why
  | none =>
  match hand? with
  | some why => why
  | none =>
  match float? with
  | some (.error why) =>
    (match o.out with
     | none => "ok api-panic-agrees"
     | some _ => "corr translated-code predicts a panic (" ++ why ++ "), the compiled routine returned")
  | some (.ok (r, fl)) =>
    (match o.out with
     | none => "corr translated-code returns, the compiled routine panicked"
     | some (rv, rf) =>
       let bits := r.w1.toNat * 2 ^ 64 + r.w0.toNat
       if rv == [.d bits] && rf == fl.toNat then "ok api-translated"
       else "corr translated-code predicts " ++ showVal (.d bits) ++ " " ++ String.ofList (Nat.toDigits 16 fl.toNat))
  | none =>
  match args with
  | none => "skip"
  | some as =>
    match Dec.Gen.Api.run o.op mode (UInt32.ofNat o.flagsIn) as with
    | none =>
      -- the trait glue of d128.rs (operators, *Assign, Neg, integer From impls, Default, Sum / Product, copy …): DecGen/Api3.lean;
      -- none of these entry points has a status word, so the word must come back as it went in
      (match Dec.Gen.Api3.run3 o.op as with
       | none => "skip"
       | some (.error why) =>
         (match o.out with
          | none => "ok api-panic-agrees"
          | some _ => "corr translated-code predicts a panic (" ++ why ++ "), the compiled glue returned")
       | some (.ok rs) =>
         (match o.out with
          | none => "corr translated-code returns, the compiled glue panicked"
          | some (rv, rf) =>
            if rv == rs.map ofAVal && rf == o.flagsIn then "ok api-translated"
            else "corr translated-code predicts " ++ " ".intercalate ((rs.map ofAVal).map showVal) ++ " " ++ String.ofList (Nat.toDigits 16 o.flagsIn)))
    | some (.error why) =>
      match o.out with
      | none => "ok api-panic-agrees"
      | some _ => "corr translated-code predicts a panic (" ++ why ++ "), the compiled routine returned"
    | some (.ok (rs, fl)) =>
      match o.out with
      | none => "corr translated-code returns, the compiled routine panicked"
      | some (rv, rf) =>
        if rv == rs.map ofAVal && rf == fl.toNat then "ok api-translated"
        else "corr translated-code predicts " ++ " ".intercalate ((rs.map ofAVal).map showVal) ++ " " ++ String.ofList (Nat.toDigits 16 fl.toNat)

def judgeHkLine (line : String) : String :=
  match parseObs line with
  | none => "bad unparsable"
  | some o =>
    if o.op.startsWith "hk_" then judgeHk (o.op.drop 3).toString o
    else judgeApi (((line.trimAscii.toString.splitOn " ").filter (· ≠ "")).getD 1 "-") o

end Dec
