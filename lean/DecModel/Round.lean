/-
  DecModel.Round — the single rounding / exponent-selection step every arithmetic operation of the
  model funnels into.
-/
import DecModel.Basic

namespace Dec

/-- Does rounding `q + r/D` (0 ≤ r < D) in `mode`, for a result of sign `neg`, go up to `q+1`? -/
def roundUp (mode : Mode) (neg : Bool) (qOdd : Bool) (r D : Nat) : Bool :=
  if r = 0 then false else
  match mode with
  | .rne => decide (2*r > D) || (decide (2*r = D) && qOdd)
  | .rna => decide (2*r ≥ D)
  | .rtz => false
  | .rdn => neg
  | .rup => !neg

/-- The integer `q + r/D` rounded in `mode` (magnitude; `neg` is the sign of the value). -/
def roundInt (mode : Mode) (neg : Bool) (q r D : Nat) : Nat :=
  if roundUp mode neg (q % 2 == 1) r D then q + 1 else q

/-- Overflow result: infinity or the largest finite number, by mode and sign. -/
def overflowResult (mode : Mode) (neg : Bool) : Datum :=
  let toInf := match mode with
    | .rne | .rna => true
    | .rtz => false
    | .rdn => neg
    | .rup => !neg
  if toInf then .inf neg else .fin neg (P34 - 1) eMax

/-- A zero with the exponent clamped into range. -/
def zeroAt (neg : Bool) (e : Int) : Datum := .fin neg 0 (clampInt eMin eMax e)

/-- `⌊log₁₀ (n/d)⌋` for `n, d > 0`. -/
def ilog10Ratio (n d : Nat) : Int :=
  let j : Int := (ndigits n : Int) - (ndigits d : Int)
  -- n/d ∈ (10^(j-1), 10^(j+1));  ⌊log⌋ = j if n/d ≥ 10^j else j-1
  let ge : Bool := if j ≥ 0 then decide (n ≥ d * 10 ^ j.toNat) else decide (n * 10 ^ (-j).toNat ≥ d)
  if ge then j else j - 1

/--
The universal finishing step.  The exact value is `(-1)^neg · (n/d) · 10^e` with `n, d > 0`.

* If the value is a member of the format (some `m·10^x`, `m < 10^34`, `eMin ≤ x ≤ eMax`), the result
  is the member of its cohort whose exponent is closest to `pref`, and no flag is raised.
* Otherwise it is rounded once at the least possible exponent `x = max(eMin, ⌊log₁₀ v⌋ - 33)`;
  inexact is raised, underflow iff `v` is tiny (below `10^-6143`, detected before rounding; with
  `tinyAfter` the decision is made on the result rounded with unbounded exponent range), and overflow
  (with the mode-dependent result) if the rounded exponent exceeds `eMax`.
-/
def finish (mode : Mode) (neg : Bool) (n d : Nat) (e pref : Int) (tinyAfter : Bool := false) : Datum × Flags :=
  let lg : Int := ilog10Ratio n d + e                 -- ⌊log₁₀ v⌋
  -- far outside the exponent range the outcome does not depend on the digits (and the powers of ten
  -- below would be astronomically large): certain overflow / certain deep underflow
  if lg > 7000 then (overflowResult mode neg, fOverflow ||| fInexact) else
  if lg < -7000 then (.fin neg (roundInt mode neg 0 1 4) eMin, fUnderflow ||| fInexact) else
  let x0 : Int := if lg - 33 < eMin then eMin else lg - 33
  -- v / 10^x0 = num / den
  let sh : Int := e - x0
  let num : Nat := if sh ≥ 0 then n * 10 ^ sh.toNat else n
  let den : Nat := if sh ≥ 0 then d else d * 10 ^ (-sh).toNat
  let q := num / den
  let r := num % den
  if r = 0 then
    -- exactly representable at x0 (q < 10^34), unless x0 is already too large
    if x0 > eMax then (overflowResult mode neg, fOverflow ||| fInexact)
    else
      let tz := trailingZeros 34 q
      let hi : Int := if x0 + tz > eMax then eMax else x0 + tz
      let x := clampInt x0 hi pref
      (.fin neg (q / 10 ^ (x - x0).toNat) x, 0)
  else
    let m := roundInt mode neg q r den
    let (m, x) := if m = P34 then (P33, x0 + 1) else (m, x0)
    if x > eMax then (overflowResult mode neg, fOverflow ||| fInexact)
    else
      let tiny : Bool :=
        if tinyAfter then
          -- tiny iff the result rounded to 34 digits with unbounded exponent is below 10^-6143
          if lg - 33 < eMin then
            let sh' : Int := e - (lg - 33)
            let num' : Nat := if sh' ≥ 0 then n * 10 ^ sh'.toNat else n
            let den' : Nat := if sh' ≥ 0 then d else d * 10 ^ (-sh').toNat
            let m' := roundInt mode neg (num' / den') (num' % den') den'
            !(m' = P34 && lg + 1 ≥ -6143)
          else false
        else decide (lg - 33 < eMin)
      (.fin neg m x, if tiny then fUnderflow ||| fInexact else fInexact)

end Dec
