/-
  DecModel.Rem — IEEE remainder and fmod (non-NaN operands).
-/
import DecModel.Misc

namespace Dec

/-- IEEE remainder `x - n·y`, `n` the integer nearest `x/y`, ties to even. -/
def remD : Datum → Datum → Datum × Flags
  | .inf _, _ => invalidResult
  | x@(.fin ..), .inf _ => (x, 0)
  | .fin s1 c1 e1, .fin _ c2 e2 =>
    if c2 = 0 then invalidResult
    else
      let m : Int := if e1 ≤ e2 then e1 else e2
      let X := c1 * 10 ^ (e1 - m).toNat
      let Y := c2 * 10 ^ (e2 - m).toNat
      let q := X / Y
      let r := X % Y
      -- choose between r (n = q) and r - Y (n = q + 1)
      let up : Bool := decide (2 * r > Y) || (decide (2 * r = Y) && q % 2 == 1)
      if r = 0 then (.fin s1 0 m, 0)
      else if up then (.fin (!s1) (Y - r) m, 0)
      else (.fin s1 r m, 0)
  | _, _ => invalidResult

/-- C `fmod`: `x - n·y`, `n = trunc(x/y)`; sign of `x`. -/
def fmodD : Datum → Datum → Datum × Flags
  | .inf _, _ => invalidResult
  | x@(.fin ..), .inf _ => (x, 0)
  | .fin s1 c1 e1, .fin _ c2 e2 =>
    if c2 = 0 then invalidResult
    else
      let m : Int := if e1 ≤ e2 then e1 else e2
      let X := c1 * 10 ^ (e1 - m).toNat
      let Y := c2 * 10 ^ (e2 - m).toNat
      (.fin s1 (X % Y) m, 0)
  | _, _ => invalidResult

end Dec
