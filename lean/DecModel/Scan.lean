/-
  DecModel.Scan — a code-shaped model of the text scanner inside
  `bid128_from_string_clear_status` (/repo/src/bid128_string.rs, lines 219–504).

  The scanner is modelled on the list of Unicode scalar values ("code points") of the text, because every
  test the Rust code makes on a `char` is a test on its code point, and the UTF-8 encoding of a `char`
  depends on nothing else.  `scanText` takes the `List Char` and maps `Char.toNat` over it.

  How the Rust state is represented
  * `str.chars().nth(ps + k)` is the `k`-th element of the *remaining* list (the text from character
    position `ps` on): `nth` never panics, it returns `None` past the end (`[]` here).
  * `&str[ps..]`, `&str[ps + 1..]` are *byte* slices: `sliceFrom (utf8 s) ps` on the UTF-8 bytes of the whole
    text, with Rust's panic condition (index beyond the end, or not on a character boundary) explicit.
    `range.get(0..4)` is `getRange range 0 4` (an `Option`, never a panic).
  * `buffer` (a `[char; 100]`) is the list of the digits stored so far; `buffer[n] = c` with `n` the number of
    digits seen so far is `bufSet`, which fails (Rust: index out of bounds) when `n ≥ 100`.
  * every `unwrap` whose guard is not the immediately enclosing `is_some() &&` / `is_none() ||` test is a
    `match` with an explicit `.panic` / `.error` arm naming the site.
  * integer arithmetic: `i32`/`usize` quantities are unbounded here (`Int`/`Nat`); they cannot wrap for texts
    shorter than 2^31 characters.  The two `u32` subtractions `(ch as u32) - ('0' as u32)` (lines 483, 493) DO wrap
    for characters below `'0'`; the crate is built with `overflow-checks = false` (its own Cargo.toml says so for
    the dev profile too), so this is a wrap and not a panic, and it is modelled as a wrap (`reDigit`).
    The `usize` subtractions `ndigits_total - ndigits_before` (lines 414, 439) cannot go below zero (the total starts
    at `ndigits_before` and only grows).  The one subtraction that would go below zero if its guard failed — the
    unclamped `0x3040000000000000 - (rrlz << 49)` of line 344 — is modelled as a panic site.

  The panic sites (each is an explicit `.panic` / `.error`; `DecProofs/Properties/C04Scan.lean` proves none fires):
    line 261 `&str[ps..]`, line 276 `&str[ps + 1..]`, line 344 (above), `buffer[n] = c` in the three digit loops
    (lines 379/381, 401/403, 426/428), line 474 `c.unwrap()`, line 485/487 `char::to_digit(c.unwrap(), 10).unwrap()`.
  The `unwrap`s of lines 260, 312, 377–432, 483, 493 sit directly behind their own `is_some()` test
  (`c.is_none() || …`, `c.is_some() && …`, `if c.is_some() {`) and are pattern matches here.

  What is NOT modelled HERE: the numeric phase (lines 506–643) — it is transcribed in `DecModel/ScanNum.lean`
  (`numericPhase`, and the composition `fromStringCode`), proved correct in `DecProofs/Properties/C04ScanNum.lean`.  `.number l sticky` hands over exactly the state that
  phase reads: the sign, the stored digits (at most 100), `right_radix_leading_zeros`, the digit counts and the
  exponent, packed into a `Literal` as described at `finishScan`.  (That phase indexes `buffer` at fixed positions
  below `ndigits_total.min(100)` and unwraps `to_digit(buffer[34])` only when `ndigits_total > 34`; its input space is
  bounded by the 100 stored digits and is exercised by the differential tests, not by this model.)
-/
import DecModel.Str

namespace Dec

deriving instance DecidableEq for Literal

/-- What the scanner turns a text into. -/
inductive ScanOutcome
  /-- quiet NaN with that sign bit, payload 0 (`0x7c00…` / `0xfc00…`) -/
  | nan (neg : Bool)
  /-- signalling NaN (`0x7e00…` / `0xfe00…`) -/
  | snan (neg : Bool)
  /-- infinity (`0x7800…` / `0xf800…`) -/
  | inf (neg : Bool)
  /-- the early-return zeros of the zero-skipping loop (lines 344 and 359): a zero with that sign and exponent `e`
  (biased exponent field `6176 + e`).  `e = −min k 6176` where `k` is the number of fraction zeros, so a text with
  more than 6176 fraction zeros gives exponent −6176 (field 0). -/
  | zero (neg : Bool) (e : Int)
  /-- the code went on to the numeric phase.  `l.neg` is the sign; `l.intDigits ++ l.fracDigits` without the
  leading `right_radix_leading_zeros` zeros of `l.fracDigits` is the content of `buffer` (the first 100 digits
  after the skipped zeros; `l.intDigits` the part of it that came before the point); `l.coeff` and `l.exp10` are
  the integer and the exponent the code has read: the value of the text is `l.coeff · 10^l.exp10`, exactly when
  there are at most 100 digits, truncated after the 100th digit otherwise.  `stickyBeyond100` says that one of the
  digits after the 100th was non-zero (the code only remembers that in `set_inexact`; `set_inexact` itself is
  `stickyBeyond100 ||` some stored digit after the 34th is non-zero).  No digits at all (`"."`, `"+"`, `".e5"`,
  `"0e5"`): `l.coeff = 0` and the code returns a zero with exponent `l.exp10` clamped into range. -/
  | number (l : Literal) (stickyBeyond100 : Bool)
  /-- an `unwrap` on `None`, an index out of range, or a slice off a character boundary would fire here -/
  | panic (site : String)
  deriving Repr, DecidableEq

/-! ### UTF-8 and Rust's string slicing -/

/-- UTF-8 encoding of one code point -/
def utf8CP (c : Nat) : Bytes :=
  if c < 0x80 then [c]
  else if c < 0x800 then [0xC0 + c / 64, 0x80 + c % 64]
  else if c < 0x10000 then [0xE0 + c / 4096, 0x80 + c / 64 % 64, 0x80 + c % 64]
  else [0xF0 + c / 262144, 0x80 + c / 4096 % 64, 0x80 + c / 64 % 64, 0x80 + c % 64]

/-- UTF-8 encoding of a text -/
def utf8 : List Nat → Bytes
  | [] => []
  | c :: t => utf8CP c ++ utf8 t

/-- a continuation byte `10xxxxxx` -/
def isContByte (b : Nat) : Bool := 0x80 ≤ b && b < 0xC0

/-- `str::is_char_boundary` -/
def isCharBoundary (b : Bytes) (i : Nat) : Bool :=
  i == 0 || i == b.length ||
    (match b[i]? with
     | some x => !isContByte x
     | none => false)

/-- `&s[i..]`: `none` is the panic ("byte index is out of bounds" / "is not a char boundary") -/
def sliceFrom (b : Bytes) (i : Nat) : Option Bytes :=
  if isCharBoundary b i then some (b.drop i) else none

/-- `s.get(i..j)` -/
def getRange (b : Bytes) (i j : Nat) : Option Bytes :=
  if i ≤ j && isCharBoundary b i && isCharBoundary b j then some ((b.take j).drop i) else none

/-! ### Character tests -/

/-- `*c == ' ' || *c == '\t'` -/
def isBlankCP (c : Nat) : Bool := c == 32 || c == 9

/-- `(c as i32 - '0' as i32) > 9`: a *signed* comparison, so every character below `'0'` (`!`, `/`, `,`, a line
feed …) is let through as if it were a digit -/
def aboveNine (c : Nat) : Bool := decide ((c : Int) - 48 > 9)

/-- `char::from_digit((ch as u32) - ('0' as u32), 10)` with the `u32` subtraction wrapping.  When it is `Some`,
the character it returns is `'0' + (ch − '0')`, that is `ch` itself. -/
def reDigit (ch : Nat) : Option Nat :=
  -- the wrapped difference: below `'0'` it is `ch + 2^32 − 48 ≥ 2^32 − 48`
  let x := if 48 ≤ ch then ch - 48 else ch + 4294967296 - 48
  if x < 10 then some ch else none

/-- `char::to_digit(c, 10)` -/
def toDigit10 (c : Nat) : Option Nat := if isDigitB c then some (c - 48) else none

/-! ### Lines 259–299: the special spellings -/

/-- `range.eq_ignore_ascii_case("inf") || range.eq_ignore_ascii_case("infinity")` -/
def isInfText (range : Bytes) : Bool := eqIgnoreCase range lInf || eqIgnoreCase range lInfinity

/-- `range.get(0..4).is_some_and(|prefix| prefix.eq_ignore_ascii_case("snan"))` -/
def hasSnanPrefix (range : Bytes) : Bool := (getRange range 0 4).any (fun p => eqIgnoreCase p lSnan)

/-- lines 261–273: the text does not begin (after blanks) with a point, a sign, or a character `≤ '9'` -/
def scanSpecial (s : List Nat) (ps : Nat) : ScanOutcome :=
  match sliceFrom (utf8 s) ps with
  | none => .panic "line 261: &str[ps..]"
  | some range =>
    if isInfText range then .inf false
    else if hasSnanPrefix range then .snan false
    else .nan false

/-! ### Lines 323–364: the zero-skipping loop -/

inductive ZeroSkip
  /-- the loop returned from the function -/
  | done (o : ScanOutcome)
  /-- the loop ended: the text from `ps` on, `rdx_pt_enc ≠ 0`, `right_radix_leading_zeros` -/
  | cont (rest : List Nat) (rdx : Bool) (rrlz : Nat)

/-- `if nth(ps) == '0' { while nth(ps) == '0' { … } }` (the `if` repeats the loop condition).  Arguments: the text
from `ps` on, `rdx_pt_enc ≠ 0`, `right_radix_leading_zeros`. -/
def zeroLoop (neg : Bool) : List Nat → Bool → Nat → ZeroSkip
  | [], rdx, z => .cont [] rdx z
  | [c], rdx, z =>
    if c != 48 then .cont [c] rdx z
    else
      -- ps += 1; if rdx_pt_enc != 0 { right_radix_leading_zeros += 1 }; line 355: end of text, rrlz is clamped
      .done (.zero neg (-((min (if rdx then z + 1 else z) 6176 : Nat) : Int)))
  | c :: d :: t2, rdx, z =>
    if c != 48 then .cont (c :: d :: t2) rdx z
    else
      -- ps += 1; if rdx_pt_enc != 0 { right_radix_leading_zeros += 1 }
      let z' := if rdx then z + 1 else z
      if d == 46 then
        if !rdx then
          -- first point; line 343: `nth(ps + 1).is_none()`
          if t2.isEmpty then
            -- line 344: `0x3040000000000000 - (rrlz << 49)`, not clamped here (rrlz is 0 when no point was seen)
            if z' ≤ 6176 then .done (.zero neg (-(z' : Int)))
            else .done (.panic "line 344: u64 subtraction below zero")
          else zeroLoop neg t2 true z'
        else .done (.nan neg)     -- line 351: second point
      else zeroLoop neg (d :: t2) rdx z'

/-! ### Lines 375–440: collecting digits -/

/-- `buffer[n] = c` where `buf` holds the `n` digits stored so far; `none` is the index-out-of-bounds panic -/
def bufSet (buf : Bytes) (n c : Nat) : Option Bytes := if n < 100 then some (buf ++ [c]) else none

/-- state after one of the three digit loops -/
structure DigitRun where
  /-- the text from `ps` on (its head is the `c` the loop stopped at) -/
  rest : List Nat
  /-- the counter (`ndigits_before` / `ndigits_total`) -/
  n : Nat
  /-- `buffer[0 .. min n 100]` -/
  buf : Bytes
  /-- a non-zero digit was read when the counter was ≥ 100 -/
  sticky : Bool
  deriving Repr, DecidableEq

/-- `while c.is_some() && char::is_digit(c.unwrap(), 10) { … ps += 1; c = nth(ps); n += 1 }`: the three loops
(lines 377, 399, 424) have the same body.  In the second and third branch the code also sets `set_inexact` when the
digit is not `'0'`; for the second branch that can be recomputed from `buffer`, so only the third is recorded. -/
def collectDigits : List Nat → Nat → Bytes → Bool → Except String DigitRun
  | [], n, buf, st => .ok ⟨[], n, buf, st⟩
  | c :: t, n, buf, st =>
    if !isDigitB c then .ok ⟨c :: t, n, buf, st⟩
    else if n < 34 then
      match bufSet buf n c with
      | none => .error "buffer[n] (n < MAX_FORMAT_DIGITS_128)"
      | some buf' => collectDigits t (n + 1) buf' st
    else if n < 100 then
      match bufSet buf n c with
      | none => .error "buffer[n] (n < MAX_STRING_DIGITS_128)"
      | some buf' => collectDigits t (n + 1) buf' st
    else collectDigits t (n + 1) buf (st || decide (c > 48))

/-! ### Lines 442–504: the exponent part -/

/-- lines 482–500: at most six more exponent digits.  Arguments: the text from `ps` on, `i`, `dec_expon`. -/
def expLoop : List Nat → Nat → Int → Except String Int
  | [], _, acc => .ok acc
  | ch :: t, i, acc =>
    match reDigit ch with
    | none => .ok acc
    | some c =>
      match toDigit10 c with
      | none => .error "line 485: char::to_digit(c.unwrap(), 10).unwrap()"
      | some d => if d ≤ 9 && i < 7 then expLoop t (i + 1) (acc * 10 + d) else .ok acc

/-- the NaN test of line 456 on the text after the `e` -/
def expHeadBad : List Nat → Bool
  | [] => true
  | d :: r2 => !isDigitB d && ((d != 43 && d != 45) || !(r2.head?.any isDigitB))

/-- lines 465–472 on the text after the `e`: (`sgn_exp = −1`, the text from `ps` on) -/
def expSign : List Nat → Bool × List Nat
  | [] => (false, [])
  | d :: r2 => if d == 45 then (true, r2) else if d == 43 then (false, r2) else (false, d :: r2)

/-- lines 474–503: `neg` = (`sgn_exp = −1`), the text from `ps` on, whose head is the `c` that is unwrapped -/
def expDigits (neg : Bool) : List Nat → Except String (Option Int)
  | [] => .error "line 474: c.unwrap()"
  | d0 :: r3 =>
    let e0 : Int := (d0 : Int) - 48
    -- line 478: only a leading `0` makes the code skip zeros
    match expLoop (if e0 == 0 then r3.dropWhile (· == 48) else r3) 1 e0 with
    | .error site => .error site
    | .ok e => .ok (some (if neg then -e else e))     -- (dec_expon + sgn_exp) ^ sgn_exp

/-- lines 446–503 on the text from `ps` on: `.ok none` is the `return NaN` of lines 449 and 460, `.ok (some e)` is
`dec_expon` after line 503.  Whatever follows the exponent digits that were read is ignored. -/
def scanExp : List Nat → Except String (Option Int)
  | [] => .ok (some 0)
  | c :: r1 =>
    if c != 101 && c != 69 then .ok none
    else if expHeadBad r1 then .ok none
    else expDigits (expSign r1).1 (expSign r1).2

/-- The state handed to the numeric phase, as a `Literal`.  `nb` = `ndigits_before`, `buf` = the stored digits,
`z` = `right_radix_leading_zeros`, `r` = the text from `ps` on.
`intDigits` = the stored digits that came before the point; `fracDigits` = `z` zeros and the stored digits that came
after it, so `exp10 = dec_expon − z − (stored fraction digits)`; when more than 100 integer digits were read the
`nb − 100` dropped ones are added to the exponent.  With `nt = ndigits_total ≤ 100` this is the code's
`dec_expon − ndigits_after − right_radix_leading_zeros` (line 507 without the bias). -/
def finishScan (neg : Bool) (nb : Nat) (buf : Bytes) (sticky : Bool) (z : Nat) (r : List Nat) : ScanOutcome :=
  match scanExp r with
  | .error site => .panic site
  | .ok none => .nan false                -- lines 449, 460: the sign is dropped
  | .ok (some e) =>
    .number { neg := neg, intDigits := buf.take nb, fracDigits := List.replicate z 48 ++ buf.drop nb,
              exp := e + ((nb - (buf.take nb).length : Nat) : Int) } sticky

/-- lines 366–440 and on: `r` = the text from `ps` on, `rdx` = `rdx_pt_enc ≠ 0`, `z` = `right_radix_leading_zeros` -/
def scanDigits (neg : Bool) (r : List Nat) (rdx : Bool) (z : Nat) : ScanOutcome :=
  if !rdx then
    -- digits before the point
    match collectDigits r 0 [] false with
    | .error site => .panic site
    | .ok a =>
      if a.rest.head? == some 46 then
        -- ps += 1; c = nth(ps); if c.is_some() { digits after the point }
        match collectDigits a.rest.tail a.n a.buf a.sticky with
        | .error site => .panic site
        | .ok b => finishScan neg a.n b.buf b.sticky z b.rest
      else finishScan neg a.n a.buf a.sticky z a.rest
  else
    -- the point has been seen already: ndigits_before = 0
    match collectDigits r 0 [] false with
    | .error site => .panic site
    | .ok b => finishScan neg 0 b.buf b.sticky z b.rest

/-- lines 309–364: `r` = the text after the sign -/
def scanBody (neg : Bool) (r : List Nat) : ScanOutcome :=
  match r with
  | [] =>
    -- `c` is None: no digits, no exponent
    scanDigits neg [] false 0
  | c :: t =>
    if c != 46 && aboveNine c then .nan neg        -- line 312
    else
      let rdx := c == 46
      let r2 := if rdx then t else c :: t
      match zeroLoop neg r2 rdx 0 with
      | .done o => o
      | .cont r3 rdx3 z => scanDigits neg r3 rdx3 z

/-- lines 276–307: the first character `c` is a point, a sign, or `≤ '9'`; `t` is the text after it -/
def scanSigned (s : List Nat) (ps c : Nat) (t : List Nat) : ScanOutcome :=
  match sliceFrom (utf8 s) (ps + 1) with
  | none => .panic "line 276: &str[ps + 1..]"
  | some range =>
    if isInfText range then
      if c == 43 then .inf false else if c == 45 then .inf true else .nan false
    else if (c == 43 || c == 45) && hasSnanPrefix range then     -- line 291: only after a sign
      if c == 45 then .snan true else .snan false
    else
      scanBody (c == 45) (if c == 45 || c == 43 then t else c :: t)

/-- The scanner on code points. -/
def scanCP (s : List Nat) : ScanOutcome :=
  if s.isEmpty then .nan false       -- line 246
  else
    -- line 254; the blanks are one byte each, so `ps` is a character index and a byte index
    let ps := (s.takeWhile isBlankCP).length
    match s.dropWhile isBlankCP with
    | [] => scanSpecial s ps         -- `c.is_none()`
    | c :: t =>
      if c != 46 && c != 45 && c != 43 && aboveNine c then scanSpecial s ps
      else scanSigned s ps c t

/-- **What `bid128_from_string` makes of a text**, up to the numeric phase. -/
def scanText (s : List Char) : ScanOutcome := scanCP (s.map Char.toNat)

end Dec
