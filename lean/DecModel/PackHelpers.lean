/-
  DecModel.PackHelpers — code-shaped models of the pack / unpack / underflow routines of
  /repo/src/bid_internal.rs:

      unpack_BID128_value (l. 597)   unpack_BID128 (l. 662)
      bid_get_BID128_very_fast (l. 717)   bid_get_BID128_fast (l. 747)   bid_get_BID128 (l. 766)
      handle_UF_128 (l. 402)   bid_handle_UF_128_rem (l. 258)

  and of the multi-word primitives they call (`__add_carry_out`, `__add_carry_in_out`, `__add_128_128`,
  `__add_128_64`, `__mul_64x64_to_128`, `__mul_128x128_full`, `__shr_128`, `__shr_128_long`, `__shl_128_long`,
  `__unsigned_compare_gt_128`, `__unsigned_compare_ge_128`), transcribed word by word (the 32-bit half-word
  products, the carry chains) so that this file stands on its own.

  How the Rust state is represented
  * a `u64` is a `Nat` below 2^64; a `BID_UINT128` is the pair `(w[0], w[1])` (low word first).
  * the crate is built with overflow checks off: `+ - * <<` on `u64` wrap.  Every such operation goes through
    `add64 / sub64 / mul64 / shl64`, which reduce modulo 2^64 explicitly.  `>>` is `shr64` (no wrap possible).
  * shift amounts: Rust `<<`/`>>` by 64 or more is an overflow (a masked shift in release builds).  The only
    variable shift amounts in these routines come from `BID_RECIP_SCALE[ed2]` (`amount`).  All the shifts are in
    range iff `1 ≤ amount ≤ 127` (`__shr_128 (Qh, amount)` computes `Qh.w[1] << (64 − amount)`, which needs
    `amount ≥ 1`; `__shl_128_long (Qh, 128 − amount)` computes `Qh.w[0] << (64 − amount)` resp.
    `Qh.w[0] >> (amount − 64)`; `Qh.w[1] >> (amount − 64)` needs `amount ≤ 127`).  The model checks that guard
    where the code reads `amount` and answers `none` if it fails; `C13PackHelpers.recip_scale_range` proves that the
    table that is compiled in has `1 ≤ amount ≤ 109` in every row, so the guard never fails.
  * `i32` quantities are `Int`s; the three `i32` additions that could wrap (`expon + 1` when the coefficient is
    10^34, `expon + 34` in the underflow test, `0 − expon` / `1 − expon`) go through `wrapI32`.
    `expon as u64` (sign extension) followed by `<< 49` is `shl64 (wordOfI32 expon) 49`.
  * table look-ups `T[i as usize]` panic when the index is out of range (a negative `i32` becomes a huge `usize`):
    `none`.  This is the only way these routines can panic.
  * the status word `*pfpsc` is threaded through as a `Nat`; `__set_status_flags` is `|||`.

  Tables are read from the generated modules `DecGen/T_*.lean` (regenerated from the compiled crate at every
  run); nothing of their contents is copied here.

  `hkPack` at the end is the interface for the differential judge (`hk_<name>` lines of the harness).
-/
import DecModel.Basic
import DecGen.T_BID_POWER10_TABLE_128
import DecGen.T_BID_ROUND_CONST_TABLE_128
import DecGen.T_BID_RECIPROCALS10_128
import DecGen.T_BID_RECIP_SCALE

namespace Dec
namespace PackH

/-- a `BID_UINT128`: `(w[0], w[1])`, low word first -/
abbrev U128 := Nat × Nat

/-- 2^64 -/
abbrev W64 : Nat := 0x10000000000000000

/-! ### wrapping `u64` / `i32` arithmetic -/

/-- `a + b` on `u64` (wraps) -/
@[inline] abbrev add64 (a b : Nat) : Nat := (a + b) % W64
/-- `a - b` on `u64` (wraps); `a, b < 2^64` -/
@[inline] abbrev sub64 (a b : Nat) : Nat := (a + W64 - b) % W64
/-- `a * b` on `u64` (wraps) -/
@[inline] abbrev mul64 (a b : Nat) : Nat := (a * b) % W64
/-- `a << k` on `u64`, `k < 64` (bits shifted out are lost) -/
@[inline] abbrev shl64 (a k : Nat) : Nat := (a <<< k) % W64
/-- `a >> k` on `u64`, `k < 64` -/
@[inline] abbrev shr64 (a k : Nat) : Nat := a >>> k
/-- `x as u32 as u64` -/
@[inline] abbrev lo32 (a : Nat) : Nat := a % 0x100000000

/-- an `i32` result of an addition / subtraction that may wrap -/
def wrapI32 (x : Int) : Int := (x + 2147483648) % 4294967296 - 2147483648
/-- `w as i32` for a 64-bit word (what the hook does with an `i32` argument) -/
def i32OfWord (w : Nat) : Int := wrapI32 (w : Int)
/-- `e as i64 as u64` / `e as u64` for an `i32`: sign extension to 64 bits -/
def wordOfI32 (e : Int) : Nat := (e % 18446744073709551616).toNat

/-! ### the multi-word primitives (bid_internal.rs l. 850–1130, 1414–1437) -/

/-- `__add_carry_out` -/
def add_carry_out (x y : Nat) : Nat × Nat :=
  let s := add64 x y
  (s, if s < x then 1 else 0)

/-- `__add_carry_in_out` -/
def add_carry_in_out (x y ci : Nat) : Nat × Nat :=
  let x1 := add64 x ci
  let s := add64 x1 y
  (s, if s < x1 ∨ x1 < ci then 1 else 0)

/-- `__add_128_128` ("assume no carry-out": a carry out of the high word is lost) -/
def add_128_128 (a b : U128) : U128 :=
  let q1 := add64 a.2 b.2
  let q0 := add64 b.1 a.1
  let q1 := if q0 < b.1 then add64 q1 1 else q1
  (q0, q1)

/-- `__add_128_64` -/
def add_128_64 (a : U128) (b : Nat) : U128 :=
  let r0 := add64 b a.1
  let r1 := if r0 < b then add64 a.2 1 else a.2
  (r0, r1)

/-- `__mul_64x64_to_128`: the four 32×32 partial products -/
def mul_64x64_to_128 (cx cy : Nat) : U128 :=
  let cxh := shr64 cx 32
  let cxl := lo32 cx
  let cyh := shr64 cy 32
  let cyl := lo32 cy
  let pm := mul64 cxh cyl
  let ph := mul64 cxh cyh
  let pl := mul64 cxl cyl
  let pm2 := mul64 cxl cyh
  let ph := add64 ph (shr64 pm 32)
  let pm := add64 (add64 (lo32 pm) pm2) (shr64 pl 32)
  -- BID_UINT128::new(h, l)
  (add64 (shl64 pm 32) (lo32 pl), add64 ph (shr64 pm 32))

/-- `__mul_128x128_full`: returns `(Qh, Ql)` -/
def mul_128x128_full (a b : U128) : U128 × U128 :=
  let albh := mul_64x64_to_128 a.1 b.2
  let ahbl := mul_64x64_to_128 b.1 a.2
  let albl := mul_64x64_to_128 a.1 b.1
  let ahbh := mul_64x64_to_128 a.2 b.2
  let qm := add_128_128 albh ahbl
  let qm2 := add_128_64 qm albl.2
  let qh := add_128_64 ahbh qm2.2
  (qh, (albl.1, qm2.1))

/-- `__shr_128 (A, k)`, `1 ≤ k ≤ 63` -/
def shr_128 (a : U128) (k : Nat) : U128 :=
  (shr64 a.1 k ||| shl64 a.2 (64 - k), shr64 a.2 k)

/-- `__shr_128_long (A, k)`, `1 ≤ k ≤ 127` -/
def shr_128_long (a : U128) (k : Nat) : U128 :=
  if k < 64 then (shr64 a.1 k ||| shl64 a.2 (64 - k), shr64 a.2 k)
  else (shr64 a.2 (k - 64), 0)

/-- `__shl_128_long (A, k)`, `1 ≤ k ≤ 127` -/
def shl_128_long (a : U128) (k : Nat) : U128 :=
  if k < 64 then (shl64 a.1 k, shl64 a.2 k ||| shr64 a.1 (64 - k))
  else (0, shl64 a.1 (k - 64))

/-- `__unsigned_compare_gt_128` -/
def gt_128 (a b : U128) : Bool := decide (a.2 > b.2) || (a.2 == b.2 && decide (a.1 > b.1))
/-- `__unsigned_compare_ge_128` -/
def ge_128 (a b : U128) : Bool := decide (a.2 > b.2) || (a.2 == b.2 && decide (a.1 ≥ b.1))
/-- the open-coded `Ql < BID_RECIPROCALS10_128[ed2]` -/
def lt_128 (a b : U128) : Bool := decide (a.2 < b.2) || (a.2 == b.2 && decide (a.1 < b.1))

/-! ### table access -/

/-- entry `i` of a flattened table of `BID_UINT128`s -/
def tbl128 (t : List Nat) (i : Nat) : U128 := (t.getD (2 * i) 0, t.getD (2 * i + 1) 0)

/-- `BID_POWER10_TABLE_128[i]` (constant indices 33 and 34 only: always in range) -/
def power10 (i : Nat) : U128 := tbl128 Dec.Gen.BID_POWER10_TABLE_128 i

/-- inner dimension of `BID_ROUND_CONST_TABLE_128 : [[BID_UINT128; N]; 5]` -/
def roundConstInner : Nat :=
  Dec.Gen.BID_ROUND_CONST_TABLE_128.length / (2 * Dec.Gen.BID_ROUND_CONST_TABLE_128_len)

/-- `BID_ROUND_CONST_TABLE_128[rmode as usize][ed2 as usize]`; `none` = index out of bounds (panic) -/
def roundConst (rmode : Mode) (ed2 : Int) : Option U128 :=
  if 0 ≤ ed2 ∧ ed2.toNat < roundConstInner ∧ rmode.toNat < Dec.Gen.BID_ROUND_CONST_TABLE_128_len then
    some (tbl128 Dec.Gen.BID_ROUND_CONST_TABLE_128 (rmode.toNat * roundConstInner + ed2.toNat))
  else none

/-- `BID_RECIPROCALS10_128[ed2 as usize]` -/
def recip (ed2 : Int) : Option U128 :=
  if 0 ≤ ed2 ∧ ed2.toNat < Dec.Gen.BID_RECIPROCALS10_128_len then
    some (tbl128 Dec.Gen.BID_RECIPROCALS10_128 ed2.toNat)
  else none

/-- `BID_RECIP_SCALE[ed2 as usize]` (an `i32`, flattened sign-extended), with the shift-range guard
`1 ≤ amount ≤ 127` described in the header -/
def recipScale (ed2 : Int) : Option Nat :=
  if 0 ≤ ed2 ∧ ed2.toNat < Dec.Gen.BID_RECIP_SCALE_len then
    let a := Dec.Gen.BID_RECIP_SCALE.getD ed2.toNat 0
    if 1 ≤ a ∧ a ≤ 127 then some a else none
  else none

/-! ### unpack -/

/-- result of the two unpack routines: return value, `*psign_x`, `*pexponent_x`, `*pcoefficient_x` -/
structure Unpacked where
  ret : Nat
  sign : Nat
  expon : Int
  coeff : U128
  deriving Repr, DecidableEq

/-- `unpack_BID128_value` (l. 597–658) -/
def unpack_BID128_value (x : U128) : Unpacked :=
  let sign := x.2 &&& 0x8000000000000000
  -- special encodings
  if (x.2 &&& 0x7800000000000000) ≥ 0x6000000000000000 then
    if (x.2 &&& 0x7800000000000000) < 0x7800000000000000 then
      -- non-canonical input
      let ex := shr64 x.2 47
      ⟨0, sign, ((ex % 0x100000000) &&& 0x3fff : Nat), (0, 0)⟩
    else
      let t33 := power10 33
      let c : U128 := (x.1, x.2 &&& 0x00003fffffffffff)
      let c : U128 :=
        if ge_128 c t33 then (0, x.2 &&& 0xfe00000000000000)
        else (c.1, x.2 &&& 0xfe003fffffffffff)
      let c : U128 :=
        if (x.2 &&& 0x7c00000000000000) = 0x7800000000000000 then (0, x.2 &&& 0xf800000000000000) else c
      ⟨0, sign, 0, c⟩
  else
    let coeff : U128 := (x.1, x.2 &&& 0x0001ffffffffffff)
    let t34 := power10 34
    let coeff : U128 := if ge_128 coeff t34 then (0, 0) else coeff
    let ex := shr64 x.2 49
    ⟨coeff.1 ||| coeff.2, sign, ((ex % 0x100000000) &&& 0x3fff : Nat), coeff⟩

/-- `unpack_BID128` (l. 662–712) -/
def unpack_BID128 (x : U128) : Unpacked :=
  let sign := x.2 &&& 0x8000000000000000
  if (x.2 &&& 0x7800000000000000) ≥ 0x6000000000000000 then
    if (x.2 &&& 0x7800000000000000) < 0x7800000000000000 then
      let ex := shr64 x.2 47
      ⟨0, sign, ((ex % 0x100000000) &&& 0x3fff : Nat), (0, 0)⟩
    else
      let t33 := power10 33
      let coeff : U128 := (x.1, x.2 &&& 0x00007fffffffffff)
      let c : U128 := (x.1, x.2)
      -- `!LARGE_COEFF_MASK128` = 0xffff800000000000
      let c : U128 := if ge_128 coeff t33 then (0, c.2 &&& 0xffff800000000000) else c
      ⟨0, sign, 0, c⟩
  else
    let coeff : U128 := (x.1, x.2 &&& 0x0001ffffffffffff)
    let t34 := power10 34
    let coeff : U128 := if ge_128 coeff t34 then (0, 0) else coeff
    let ex := shr64 x.2 49
    ⟨coeff.1 ||| coeff.2, sign, ((ex % 0x100000000) &&& 0x3fff : Nat), coeff⟩

/-! ### pack -/

/-- `bid_get_BID128_very_fast` (l. 717–727) -/
def get_BID128_very_fast (sgn : Nat) (expon : Int) (coeff : U128) : U128 :=
  let tmp := shl64 (wordOfI32 expon) 49
  (coeff.1, sgn ||| tmp ||| coeff.2)

/-- `bid_get_BID128_fast` (l. 747–763): the result and the updated `*expon`, `*coeff` -/
def get_BID128_fast (sgn : Nat) (expon : Int) (coeff : U128) : U128 × Int × U128 :=
  -- coeff == 10^34 ?
  let (expon, coeff) : Int × U128 :=
    if coeff.2 = 0x0001ed09bead87c0 ∧ coeff.1 = 0x378d8e6400000000 then
      (wrapI32 (expon + 1), (0x38c15b0a00000000, 0x0000314dc6448d93))
    else (expon, coeff)
  let tmp := shl64 (wordOfI32 expon) 49
  ((coeff.1, sgn ||| tmp ||| coeff.2), expon, coeff)

/-- the sign-adjusted rounding mode: `rmode = rnd_mode; if sgn != 0 && (rmode − 1) < 2 { rmode = 3 − rmode }`
(`Downward` and `Upward` change places for a negative result) -/
def ufRmode (sgn : Nat) (rnd_mode : Mode) : Mode :=
  if sgn ≠ 0 ∧ (rnd_mode = .rdn ∨ rnd_mode = .rup) then (if rnd_mode = .rdn then .rup else .rdn) else rnd_mode

/-- `Qh1 = __shl_128_long (Qh, 128 − amount);  Qh1.w[1] == 0 && Qh1.w[0] == 0 && Ql < BID_RECIPROCALS10_128[ed2]`:
the fractional part of the scaled product is below one reciprocal unit (the division was exact).  Used by the
round-half-even midpoint repair and by the exactness test of the truncating modes. -/
def fracZero (Qh Ql TP128 : U128) (amount : Nat) : Bool :=
  let Qh1 := shl_128_long Qh (128 - amount)
  Qh1.2 == 0 && Qh1.1 == 0 && lt_128 Ql TP128

/-- `Qh1.w[1] == 0x8000000000000000 && Qh1.w[0] == 0 && Ql < BID_RECIPROCALS10_128[ed2]`: the fractional part is
one half (exactness test of the two nearest modes, whose rounding constant is half a unit) -/
def fracHalf (Qh Ql TP128 : U128) (amount : Nat) : Bool :=
  let Qh1 := shl_128_long Qh (128 - amount)
  Qh1.2 == 0x8000000000000000 && Qh1.1 == 0 && lt_128 Ql TP128

/-- the `_ =>` arm ("round up") of the exactness test: adding one reciprocal unit to the fractional part carries
out of it -/
def fracTop (Qh Ql TP128 : U128) (amount : Nat) : Bool :=
  let Qh1 := shl_128_long Qh (128 - amount)
  let (_, CY) := add_carry_out Ql.1 TP128.1
  let (_, carry) := add_carry_in_out Ql.2 TP128.2 CY
  let Qh2 := shr_128_long Qh1 (128 - amount)
  let Tmp1 := shl_128_long (1, 0) amount
  let q0 := add64 Qh2.1 carry
  let q1 := if q0 < carry then add64 Qh2.2 1 else Qh2.2
  ge_128 (q0, q1) Tmp1

/-- `handle_UF_128` / `bid_handle_UF_128_rem` from the line `T128 = BID_ROUND_CONST_TABLE_128[rmode][ed2]` on
(l. 441–524 and l. 309–397: the two texts are the same statement for statement; in the `_rem` variant the final
`if status != EXACT` sits inside the `else`, where it is the same thing because `status` is still `EXACT` on the
other path).  `CQ` is the coefficient the rounding constant is added to, `ed2` the number of digits to remove. -/
def ufTail (sgn : Nat) (ed2 : Int) (CQ : U128) (rnd_mode : Mode) (fpsc : Nat) : Option (U128 × Nat) :=
  let rmode := ufRmode sgn rnd_mode
  match roundConst rmode ed2, recip ed2, recipScale ed2 with
  | some T128, some TP128, some amount =>
    -- add rounding constant to CQ
    let sc := add_carry_out T128.1 CQ.1
    let cq1 := add64 (add64 CQ.2 T128.2) sc.2
    let Q := mul_128x128_full (sc.1, cq1) TP128          -- (Qh, Ql)
    let CQ : U128 := if amount ≥ 64 then (shr64 Q.1.2 (amount - 64), 0) else shr_128 Q.1 amount
    -- round-half-even: undo the increment on an exact midpoint
    let CQ : U128 :=
      if rnd_mode = .rne ∧ CQ.1 &&& 1 = 1 then
        if fracZero Q.1 Q.2 TP128 amount then (sub64 CQ.1 1, CQ.2) else CQ
      else CQ
    let fpsc : Nat :=
      if fpsc &&& fInexact = fInexact then fpsc ||| fUnderflow
      else
        let exact : Bool :=
          match rmode with
          | .rne | .rna => fracHalf Q.1 Q.2 TP128 amount
          | .rdn | .rtz => fracZero Q.1 Q.2 TP128 amount
          | .rup => fracTop Q.1 Q.2 TP128 amount
        if exact then fpsc else fpsc ||| (fUnderflow ||| fInexact)
    some ((CQ.1, sgn ||| CQ.2), fpsc)
  | _, _, _ => none

/-- the early return of both underflow routines (`expon + 34 < 0`) -/
def ufDeep (sgn : Nat) (rnd_mode : Mode) (fpsc : Nat) : U128 × Nat :=
  let w0 := if (sgn ≠ 0 ∧ rnd_mode = .rdn) ∨ (sgn = 0 ∧ rnd_mode = .rup) then 1 else 0
  ((w0, sgn), fpsc ||| (fUnderflow ||| fInexact))

/-- `handle_UF_128` (l. 402–525); `none` = the table index `ed2 as usize` is out of range (the code panics) -/
def handle_UF_128 (sgn : Nat) (expon : Int) (CQ : U128) (rnd_mode : Mode) (fpsc : Nat) : Option (U128 × Nat) :=
  if wrapI32 (expon + 34) < 0 then some (ufDeep sgn rnd_mode fpsc)
  else
    let ed2 := wrapI32 (0 - expon)
    ufTail sgn ed2 CQ rnd_mode fpsc

/-- `bid_handle_UF_128_rem` (l. 258–398) -/
def handle_UF_128_rem (sgn : Nat) (expon : Int) (CQ : U128) (R : Nat) (rnd_mode : Mode) (fpsc : Nat) :
    Option (U128 × Nat) :=
  if wrapI32 (expon + 34) < 0 then some (ufDeep sgn rnd_mode fpsc)
  else
    -- CQ *= 10
    let CQ2 : U128 := (shl64 CQ.1 1, shl64 CQ.2 1 ||| shr64 CQ.1 63)
    let CQ8 : U128 := (shl64 CQ.1 3, shl64 CQ.2 3 ||| shr64 CQ.1 61)
    let CQ := add_128_128 CQ2 CQ8
    -- add remainder
    let CQ : U128 := if R ≠ 0 then (CQ.1 ||| 1, CQ.2) else CQ
    let ed2 := wrapI32 (1 - expon)
    ufTail sgn ed2 CQ rnd_mode fpsc

/-- the body of the normalisation loop of `bid_get_BID128` (l. 793–798): `coeff *= 10` by shifts and adds -/
def loopTimes10 (coeff : U128) : U128 :=
  let c1 := add64 (add64 (add64 (shl64 coeff.2 3) (shl64 coeff.2 1)) (shr64 coeff.1 61)) (shr64 coeff.1 63)
  let tmp2 := shl64 coeff.1 3
  let c0 := add64 (shl64 coeff.1 1) tmp2
  let c1 := if c0 < tmp2 then add64 c1 1 else c1
  (c0, c1)

/-- the normalisation loop of `bid_get_BID128` (l. 792–800): at most `fuel` turns -/
def getLoop : Nat → U128 → Int → U128 × Int
  | 0, coeff, expon => (coeff, expon)
  | fuel + 1, coeff, expon =>
    if gt_128 (power10 33) coeff ∧ expon > 12287 then getLoop fuel (loopTimes10 coeff) (expon - 1)
    else (coeff, expon)

/-- `bid_get_BID128` (l. 766–829).  The loop is entered only with `expon ≤ 12287 + 34` and leaves at
`expon = 12287` at the latest, so 34 turns are enough. -/
def get_BID128 (sgn : Nat) (expon : Int) (coeff : U128) (rnd_mode : Mode) (fpsc : Nat) : Option (U128 × Nat) :=
  -- coeff == 10^34 ?
  let (expon, coeff) : Int × U128 :=
    if coeff.2 = 0x0001ed09bead87c0 ∧ coeff.1 = 0x378d8e6400000000 then
      (wrapI32 (expon + 1), (0x38c15b0a00000000, 0x0000314dc6448d93))
    else (expon, coeff)
  if 0 ≤ expon ∧ expon ≤ 12287 then
    some ((coeff.1, sgn ||| shl64 (wordOfI32 expon) 49 ||| coeff.2), fpsc)
  else if expon < 0 then handle_UF_128 sgn expon coeff rnd_mode fpsc
  else
    let (coeff, expon) : U128 × Int :=
      if expon - 34 ≤ 12287 then getLoop 34 coeff expon else (coeff, expon)
    if expon > 12287 then
      if coeff.2 ||| coeff.1 = 0 then
        some ((0, sgn ||| shl64 12287 49), fpsc)
      else
        -- OF
        let fpsc := fpsc ||| (fOverflow ||| fInexact)
        if rnd_mode = .rtz ∨ (sgn ≠ 0 ∧ rnd_mode = .rup) ∨ (sgn = 0 ∧ rnd_mode = .rdn) then
          some ((0x378d8e63ffffffff, sgn ||| 0x5fffed09bead87c0), fpsc)
        else
          some ((0, sgn ||| 0x7800000000000000), fpsc)
    else
      some ((coeff.1, sgn ||| shl64 (wordOfI32 expon) 49 ||| coeff.2), fpsc)

end PackH

/-! ### the interface for the differential judge -/

open PackH in
/--
`hkPack name mode flagsIn args`: what the harness line `hk_<name> <mode> <flagsIn> G… G…` answers, as predicted by
the code-shaped models above: the result words (in the order of the hook `helper` in /repo/src/verif_hooks.rs)
and the full outgoing status word.

* names: `unpack_value`, `unpack` (args `w0 w1`; result `ret sign expon c.w0 c.w1`), `get_very_fast`
  (args `sgn expon c.w0 c.w1`; result `r.w0 r.w1`), `get_fast` (same args; result `r.w0 r.w1 expon' c'.w0 c'.w1`),
  `get`, `handle_uf` (same args; result `r.w0 r.w1`), `handle_uf_rem` (args `sgn expon CQ.w0 CQ.w1 R`).
  `i32`s travel sign-extended; the hook truncates the word with `as i32`, and so does this.
* `none`: another name, a wrong number of arguments, an argument that is not a 64-bit word, or an input on which
  the real routine panics with a table index out of range (the harness prints `=> PANIC`).  That happens exactly
  when the early-return test `expon + 34 < 0` (an `i32` sum: it wraps, and is taken, for `expon ≥ 2^31 − 34`) fails and
  the digit count `ed2 = −expon` (`handle_uf`; `get` reaches it only with `expon < 0`, so never) resp.
  `ed2 = 1 − expon` (`handle_uf_rem`) is negative: `handle_uf` with `1 ≤ expon < 2^31 − 34`, `handle_uf_rem` with
  `2 ≤ expon < 2^31 − 34`.  (`ed2 ≤ 35` always holds past the early return, and all three tables have 36 rows.)
  On every other input — all sign words, all 128-bit coefficients, all `i32` exponents, all status words, all five
  modes — the model is claimed to mirror the code word for word, including outside the domains of the theorems of
  `DecProofs/Properties/C13PackHelpers.lean` (zero coefficients on the deep underflow path, `expon = 0`, coefficients
  above 10^34, `expon + 1` wrapping at `2^31 − 1`, sign words other than 0 / 2^63).
-/
def hkPack (name : String) (mode : Mode) (flagsIn : Nat) (args : List Nat) : Option (List Nat × Nat) :=
  if args.all (· < W64) then
    match name, args with
    | "unpack_value", [w0, w1] =>
      let u := unpack_BID128_value (w0, w1)
      some ([u.ret, u.sign, wordOfI32 u.expon, u.coeff.1, u.coeff.2], flagsIn)
    | "unpack", [w0, w1] =>
      let u := unpack_BID128 (w0, w1)
      some ([u.ret, u.sign, wordOfI32 u.expon, u.coeff.1, u.coeff.2], flagsIn)
    | "get_very_fast", [sgn, e, c0, c1] =>
      let r := get_BID128_very_fast sgn (i32OfWord e) (c0, c1)
      some ([r.1, r.2], flagsIn)
    | "get_fast", [sgn, e, c0, c1] =>
      let (r, e', c') := get_BID128_fast sgn (i32OfWord e) (c0, c1)
      some ([r.1, r.2, wordOfI32 e', c'.1, c'.2], flagsIn)
    | "get", [sgn, e, c0, c1] =>
      (get_BID128 sgn (i32OfWord e) (c0, c1) mode flagsIn).map fun (r, f) => ([r.1, r.2], f)
    | "handle_uf", [sgn, e, c0, c1] =>
      (handle_UF_128 sgn (i32OfWord e) (c0, c1) mode flagsIn).map fun (r, f) => ([r.1, r.2], f)
    | "handle_uf_rem", [sgn, e, c0, c1, R] =>
      (handle_UF_128_rem sgn (i32OfWord e) (c0, c1) R mode flagsIn).map fun (r, f) => ([r.1, r.2], f)
    | _, _ => none
  else none

end Dec
