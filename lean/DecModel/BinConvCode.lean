/-
  DecModel.BinConvCode — a code-shaped model of the binary float → decimal128 conversions
  `binary64_to_bid128` (/repo/src/bid_binarydecimal.rs, lines 1031–1194) and `binary32_to_bid128` (lines 856–1027),
  with the helpers of that file they use: `clz64(_nz)`, `ctz64(_1bit)`, `clz32(_nz)`, `ctz32(_1bit)` (lines 23–96),
  `srl128(_short)`, `srl384_short`, `lt128`, `le128` (101–137), `__mul_128x256_to_384` (141–153), `__mul_10x64`,
  `__mul_10x384_to_384` (157–182), `unpack_binary32/64` (193–263), `return_bid128(_zero/_inf/_nan)` (265–286).
  `d128::convert_from_f64 / convert_from_f32` call them with the given rounding mode and status word,
  `impl From<f64> / From<f32> for d128` with `NearestEven` and a status word that is thrown away (d128.rs 359, 366, 1207, 1221).

  The two conversion routines are outside the Rust → Lean translator's subset (closure-valued parameters), hence this
  hand transcription, statement by statement.  `DecProofs/Properties/C07BinConvCode.lean` proves that for every bit
  pattern and every rounding mode it returns the encoding and the flags the specification `Dec.binToDecD` prescribes
  (and therefore never reaches a panic site).

  How the Rust state is represented
  * a `u64` is a `Nat` below `2^64`; `+ - *` wrap (the crate is built with overflow checks off): `AH.add64`, `AH.sub64`,
    `AH.mul64` of `DecModel/ArithHelpers.lean`; `x >> s`, `x << s` use the amount modulo 64 (`AH.shr64`, `AH.shl64`,
    with `AH.shamt k` the effective amount of an `i32` count `k`, and a `u64` count reduced by `% 64` inside them);
    `a & m` is `&&&`, `!m` is `not64 m`.
  * an `i32` is an `Int` kept in range by `AH.i32w`; `v as i32` for a `u64` is `AH.i32OfWord v`; `v as u64` / `as usize`
    for an `i32` is `i32AsU64 v` (sign extension: a negative table index becomes a huge one and the access panics);
    `e_hi & 127` on an `i32` is `e_hi % 128` (two's complement, so also for a negative `e_hi`), `e_hi >>= 7` is the
    arithmetic shift `e_hi / 128` (floor).  `n & -n` on an `i64` / `i32` is done on the bit patterns (`neg64`, `neg32`).
  * `BID_UINT128/256/512` are `AH.U128/U256/U512` (`w0` the low word).
  * the multi-word primitives of bid_internal.rs — `__mul_64x256_to_320`, `__mul_256x256_to_512`, `__mul_128x128_low`,
    `__add_carry_out`, `__add_carry_in_out` — are the line-by-line models `AH.mul64x256to320`, `AH.mul256x256to512`,
    `AH.mul128x128Low`, `AH.addCarryOut`, `AH.addCarryInOut` of `DecModel/ArithHelpers.lean` (proved to be the exact
    products / sums in `DecProofs/Properties/C01ArithHelpers.lean`, and equal to the machine translation of the Rust
    source in `DecProofs/Properties/C01GenArith.lean`).
  * the constant tables are read from the generated modules `DecGen/T_*.lean` (flattened to 64-bit words, low word
    first inside an entry; an `i32` entry is dumped sign-extended and read back with `AH.i32OfWord`).  `tbl1`, `tbl2`,
    `tbl4` read a 1-, 2-, 4-word entry and are `none` for an index out of range (a Rust panic).
  * `pfpsf` is the set of flags raised so far (the routines only ever OR bits into it), starting from 0;
    `unpack_binary64/32` either return early (`Unpacked.ret`, the `Some(..)` of the Rust code, produced by one of the
    three closures `return_bid128_zero/_inf/_nan`) or hand on `s, e, c, t` (`Unpacked.go`, the `None`).
  * after unpacking, the two routines differ only in the shift that brings the coefficient to the top of `c` (11 / 40) and
    in the constant `113 − 53` / `113 − 24` (lines 1057–1061 / 896–900): `afterUnpack` is that step with the two numbers
    as parameters.  From there on they consist of the same statements (lines 928–1026 = lines 1063–1193, except that
    line 931 is written twice in `binary32_to_bid128`): transcribed once, as `convTail`, in blocks: `exactBlock` (the
    integers and small dyadic fractions, lines 1063–1087), `tableR` (the decimal exponent estimate and the bipartite
    table look-up, lines 1095–1122), `mainBlock` (product, shift, adjustment by ten, lines 1124–1136) ending in
    `roundPack` (round bound, increment with carry and decade step `roundProv`, inexact flag, packing, lines 1141–1170).
    A function that updates several variables returns them in a structure (`TabR`, `Prov`) or a pair.

  `none` = the code would panic.  The panic sites (none of which can fire, `C07BinConvCode`): the table accesses
  `BID_COEFFLIMITS_BID128[a]`, `BID_POWER_FIVE[a]` (lines 1075, 1082), `BID_INNERTABLE_SIG/EXP[e_lo]` (1106, 1107),
  `BID_OUTERTABLE_SIG/EXP[e_hi]` (1112, 1114), `BID_ROUNDBOUND_128[..]` (1150).
-/
import DecModel.BinConv
import DecModel.ArithHelpers
import DecGen.T_BID_ROUNDBOUND_128
import DecGen.T_BID_POWER_FIVE
import DecGen.T_BID_COEFFLIMITS_BID128
import DecGen.T_BID_OUTERTABLE_SIG
import DecGen.T_BID_OUTERTABLE_EXP
import DecGen.T_BID_INNERTABLE_SIG
import DecGen.T_BID_INNERTABLE_EXP

namespace Dec
namespace BC

open Dec.Gen Dec.AH

/-! ### machine integers and tables -/

/-- `!m` on a `u64` -/
def not64 (m : Nat) : Nat := 18446744073709551615 - m % 18446744073709551616
/-- `!m` on a `u32` -/
def not32 (m : Nat) : Nat := 4294967295 - m % 4294967296
/-- `-n` on an `i64`, as a bit pattern -/
def neg64 (n : Nat) : Nat := (18446744073709551616 - n % 18446744073709551616) % 18446744073709551616
/-- `-n` on an `i32`, as a bit pattern -/
def neg32 (n : Nat) : Nat := (4294967296 - n % 4294967296) % 4294967296
/-- `v as u64` / `v as usize` for an `i32` (sign extension) -/
def i32AsU64 (v : Int) : Nat := (v % 18446744073709551616).toNat
/-- `a + b` on `u32` (wrapping) -/
def add32 (a b : Nat) : Nat := (a + b) % 4294967296
/-- `a - b` on `u32` (wrapping) -/
def sub32 (a b : Nat) : Nat := (a + 4294967296 - b % 4294967296) % 4294967296

/-- `TABLE[i]` of a table of one-word entries -/
def tbl1 (t : List Nat) (i : Nat) : Option Nat := t[i]?
/-- `TABLE[i]` of a table of `BID_UINT128` -/
def tbl2 (t : List Nat) (i : Nat) : Option U128 :=
  match t[2 * i]?, t[2 * i + 1]? with
  | some a, some b => some ⟨a, b⟩
  | _, _ => none
/-- `TABLE[i]` of a table of `BID_UINT256` -/
def tbl4 (t : List Nat) (i : Nat) : Option U256 :=
  match t[4 * i]?, t[4 * i + 1]?, t[4 * i + 2]?, t[4 * i + 3]? with
  | some a, some b, some c, some d => some ⟨a, b, c, d⟩
  | _, _, _, _ => none

/-! ### lines 17–96: counting leading / trailing zeros -/

def CLZ32_MASK16 : Nat := 0xFFFF0000
def CLZ32_MASK8 : Nat := 0xFF00FF00
def CLZ32_MASK4 : Nat := 0xF0F0F0F0
def CLZ32_MASK2 : Nat := 0xCCCCCCCC
def CLZ32_MASK1 : Nat := 0xAAAAAAAA
def CLZ64_MASK32 : Nat := 0xFFFFFFFF00000000
def CLZ64_MASK16 : Nat := 0xFFFF0000FFFF0000
def CLZ64_MASK8 : Nat := 0xFF00FF00FF00FF00
def CLZ64_MASK4 : Nat := 0xF0F0F0F0F0F0F0F0
def CLZ64_MASK2 : Nat := 0xCCCCCCCCCCCCCCCC
def CLZ64_MASK1 : Nat := 0xAAAAAAAAAAAAAAAA

/-- `clz32_nz` (lines 23–31) -/
def clz32Nz (n : Nat) : Nat :=
  let x1 := if n &&& CLZ32_MASK16 ≤ n &&& not32 CLZ32_MASK16 then 16 else 0
  let x2 := if n &&& CLZ32_MASK8 ≤ n &&& not32 CLZ32_MASK8 then 8 else 0
  let x3 := if n &&& CLZ32_MASK4 ≤ n &&& not32 CLZ32_MASK4 then 4 else 0
  let x4 := if n &&& CLZ32_MASK2 ≤ n &&& not32 CLZ32_MASK2 then 2 else 0
  let x5 := if n &&& CLZ32_MASK1 ≤ n &&& not32 CLZ32_MASK1 then 1 else 0
  add32 (add32 (add32 (add32 x1 x2) x3) x4) x5

/-- `clz32` (lines 33–35) -/
def clz32 (n : Nat) : Nat := if n == 0 then 32 else clz32Nz n

/-- `ctz32_1bit` (lines 40–48) -/
def ctz32OneBit (n : Nat) : Nat :=
  let x1 := if n &&& not32 CLZ32_MASK16 != 0 then 0 else 16
  let x2 := if n &&& not32 CLZ32_MASK8 != 0 then 0 else 8
  let x3 := if n &&& not32 CLZ32_MASK4 != 0 then 0 else 4
  let x4 := if n &&& not32 CLZ32_MASK2 != 0 then 0 else 2
  let x5 := if n &&& not32 CLZ32_MASK1 != 0 then 0 else 1
  add32 (add32 (add32 (add32 x1 x2) x3) x4) x5

/-- `ctz32` (lines 50–52); `n` is the bit pattern of the `i32` -/
def ctz32 (n : Nat) : Nat := if n == 0 then 32 else ctz32OneBit (n &&& neg32 n)

/-- `clz64_nz` (lines 64–73) -/
def clz64Nz (n : Nat) : Nat :=
  let x1 := if n &&& CLZ64_MASK32 ≤ n &&& not64 CLZ64_MASK32 then 32 else 0
  let x2 := if n &&& CLZ64_MASK16 ≤ n &&& not64 CLZ64_MASK16 then 16 else 0
  let x3 := if n &&& CLZ64_MASK8 ≤ n &&& not64 CLZ64_MASK8 then 8 else 0
  let x4 := if n &&& CLZ64_MASK4 ≤ n &&& not64 CLZ64_MASK4 then 4 else 0
  let x5 := if n &&& CLZ64_MASK2 ≤ n &&& not64 CLZ64_MASK2 then 2 else 0
  let x6 := if n &&& CLZ64_MASK1 ≤ n &&& not64 CLZ64_MASK1 then 1 else 0
  add64 (add64 (add64 (add64 (add64 x1 x2) x3) x4) x5) x6

/-- `clz64` (lines 75–77) -/
def clz64 (n : Nat) : Nat := if n == 0 then 64 else clz64Nz n

/-- `ctz64_1bit` (lines 82–91) -/
def ctz64OneBit (n : Nat) : Nat :=
  let x1 := if n &&& not64 CLZ64_MASK32 != 0 then 0 else 32
  let x2 := if n &&& not64 CLZ64_MASK16 != 0 then 0 else 16
  let x3 := if n &&& not64 CLZ64_MASK8 != 0 then 0 else 8
  let x4 := if n &&& not64 CLZ64_MASK4 != 0 then 0 else 4
  let x5 := if n &&& not64 CLZ64_MASK2 != 0 then 0 else 2
  let x6 := if n &&& not64 CLZ64_MASK1 != 0 then 0 else 1
  add64 (add64 (add64 (add64 (add64 x1 x2) x3) x4) x5) x6

/-- `ctz64` (lines 93–95); `n` is the bit pattern of the `i64` -/
def ctz64 (n : Nat) : Nat := if n == 0 then 64 else ctz64OneBit (n &&& neg64 n)

/-! ### lines 101–137: shifts and compares -/

/-- `srl128_short(hi, lo, c)` (lines 101–103): `(hi, lo)` -/
def srl128Short (hi lo c : Nat) : Nat × Nat :=
  (shr64 hi c, add64 (shl64 hi (sub64 64 c)) (shr64 lo c))

/-- `srl128(hi, lo, c)` (lines 105–113): `(hi, lo)` -/
def srl128 (hi lo c : Nat) : Nat × Nat :=
  if c == 0 then (hi, lo)
  else if c ≥ 64 then (0, shr64 hi (sub64 c 64))
  else srl128Short hi lo c

/-- `srl384_short(&mut x, c)` (lines 117–124); words 6, 7 are not touched -/
def srl384Short (x : U512) (c : Int) : U512 :=
  let w0 := add64 (shl64 x.w1 (shamt (i32w (64 - c)))) (shr64 x.w0 (shamt c))     -- 118
  let w1 := add64 (shl64 x.w2 (shamt (i32w (64 - c)))) (shr64 x.w1 (shamt c))     -- 119
  let w2 := add64 (shl64 x.w3 (shamt (i32w (64 - c)))) (shr64 x.w2 (shamt c))     -- 120
  let w3 := add64 (shl64 x.w4 (shamt (i32w (64 - c)))) (shr64 x.w3 (shamt c))     -- 121
  let w4 := add64 (shl64 x.w5 (shamt (i32w (64 - c)))) (shr64 x.w4 (shamt c))     -- 122
  let w5 := shr64 x.w5 (shamt c)                                                  -- 123
  ⟨w0, w1, w2, w3, w4, w5, x.w6, x.w7⟩

/-- `lt128` (lines 128–130) -/
def lt128 (x_hi x_lo y_hi y_lo : Nat) : Bool :=
  decide (x_hi < y_hi) || (x_hi == y_hi && decide (x_lo < y_lo))

/-- `le128` (lines 134–136) -/
def le128 (x_hi x_lo y_hi y_lo : Nat) : Bool :=
  decide (x_hi < y_hi) || (x_hi == y_hi && decide (x_lo ≤ y_lo))

/-! ### lines 141–182: the 128×256 product and the multiplication by ten -/

/-- `__mul_128x256_to_384(A, B)` (lines 141–153); words 6, 7 stay zero -/
def mul128x256to384 (A : U128) (B : U256) : U512 :=
  let P0 := mul64x256to320 A.w0 B                                   -- 144
  let P1 := mul64x256to320 A.w1 B                                   -- 145
  let R0 := P0.w0                                                   -- 146
  let a1 := addCarryOut P1.w0 P0.w1                                 -- 147
  let a2 := addCarryInOut P1.w1 P0.w2 a1.2                          -- 148
  let a3 := addCarryInOut P1.w2 P0.w3 a2.2                          -- 149
  let a4 := addCarryInOut P1.w3 P0.w4 a3.2                          -- 150
  let R5 := add64 P1.w4 a4.2                                        -- 151
  ⟨R0, a1.1, a2.1, a3.1, a4.1, R5, 0, 0⟩

/-- `__mul_10x64(&mut sum, &mut carryout, input, carryin)` (lines 157–163): `(sum, carryout)` -/
def mul10x64 (input carryin : Nat) : Nat × Nat :=
  let s3 := add64 input (shr64 input 2)                                                    -- 158
  let carryout := add64 (shl64 (if s3 < input then 1 else 0) 3) (shr64 s3 61)              -- 159
  let s3 := add64 (shl64 s3 3) (shl64 (input &&& 3) 1)                                     -- 160
  let sum := add64 s3 carryin                                                              -- 161
  (sum, if sum < s3 then add64 carryout 1 else carryout)                                   -- 162

/-- `__mul_10x384_to_384(&mut p)` (lines 167–182); the last carry is dropped, words 6, 7 are not touched -/
def mul10x384 (p : U512) : U512 :=
  let r0 := mul10x64 p.w0 0                                         -- 175
  let r1 := mul10x64 p.w1 r0.2                                      -- 176
  let r2 := mul10x64 p.w2 r1.2                                      -- 177
  let r3 := mul10x64 p.w3 r2.2                                      -- 178
  let r4 := mul10x64 p.w4 r3.2                                      -- 179
  let r5 := mul10x64 p.w5 r4.2                                      -- 180
  ⟨r0.1, r1.1, r2.1, r3.1, r4.1, r5.1, p.w6, p.w7⟩

/-! ### lines 265–286: packing -/

/-- `return_bid128(s, e, c_hi, c_lo)` (lines 265–270) -/
def returnBid128 (s e : Int) (c_hi c_lo : Nat) : U128 :=
  ⟨c_lo, add64 (add64 (shl64 (i32AsU64 s) 63) (shl64 (i32AsU64 e) 49)) c_hi⟩

/-- `return_bid128_zero(s)` (lines 272–274) -/
def returnBid128Zero (s : Int) : U128 := returnBid128 s 6176 0 0

/-- `return_bid128_inf(s)` (lines 276–278) -/
def returnBid128Inf (s : Int) : U128 := returnBid128 s (0xF * 2 ^ 10) 0 0

/-- `return_bid128_nan(s, c_hi, c_lo)` (lines 280–286) -/
def returnBid128Nan (s : Int) (c_hi c_lo : Nat) : U128 :=
  if lt128 54210108624275 4089650035136921599 (shr64 c_hi 18) (add64 (shr64 c_lo 18) (shl64 c_hi 46)) then
    returnBid128 s (0x1F * 2 ^ 9) 0 0
  else
    returnBid128 s (0x1F * 2 ^ 9) (shr64 c_hi 18) (add64 (shr64 c_lo 18) (shl64 c_hi 46))

/-! ### lines 193–263: unpacking -/

/-- what `unpack_binary32/64` leave behind -/
inductive Unpacked
  /-- `return Some(res)`: a zero, an infinity or a NaN, with the flags raised -/
  | ret (res : U128) (flags : Flags)
  /-- `None`: sign `s`, exponent `e`, normalised coefficient `c`, trailing-zero count `t`, flags raised -/
  | go (s e : Int) (c : Nat) (t : Int) (flags : Flags)
  deriving Repr, DecidableEq

/-- `unpack_binary64` (lines 229–263) on the bit pattern `bits` of `x` -/
def unpackBinary64 (bits : Nat) : Unpacked :=
  let c := bits                                                                  -- 234
  let e := i32OfWord (shr64 c 52 &&& sub64 (shl64 1 11) 1)                       -- 235
  let s := i32OfWord (shr64 c 63)                                                -- 236
  let c := c &&& sub64 (shl64 1 52) 1                                            -- 237
  if e == 0 then                                                                 -- 238
    if c == 0 then .ret (returnBid128Zero s) 0                                   -- 239–241
    else
      let l := i32OfWord (sub64 (clz64 c) (sub64 64 53))                         -- 242
      let c := shl64 c (shamt l)                                                 -- 243
      let e := i32w (-(i32w (l + 1074)))                                         -- 244
      let t := 0                                                                 -- 245
      .go s e c t fDenormal                                                      -- 246
  else if i32AsU64 e == sub64 (shl64 1 11) 1 then                                -- 247
    if c == 0 then .ret (returnBid128Inf s) 0                                    -- 248–250
    else
      let flags := if c &&& shl64 1 51 == 0 then fInvalid else 0                 -- 251–253
      .ret (returnBid128Nan s (shl64 c 13) 0) flags                              -- 254
  else
    let c := add64 c (shl64 1 52)                                                -- 256
    let t := i32OfWord (ctz64 c)                                                 -- 257
    let e := i32w (e - 1075)                                                     -- 258
    .go s e c t 0

/-- `unpack_binary32` (lines 193–227) on the bit pattern `bits` of `x` -/
def unpackBinary32 (bits : Nat) : Unpacked :=
  let c := bits                                                                  -- 197
  let e := i32OfWord (shr64 c 23 &&& sub64 (shl64 1 8) 1)                        -- 198
  let s := i32OfWord (shr64 c 31)                                                -- 199
  let c := c &&& sub64 (shl64 1 23) 1                                            -- 200
  if e == 0 then                                                                 -- 201
    if c == 0 then .ret (returnBid128Zero s) 0                                   -- 203–205
    else
      let l := i32OfWord (sub32 (clz32 (lo32 c)) (sub32 32 24))                  -- 206
      let c := shl64 c (shamt l)                                                 -- 207
      let e := i32w (-(i32w (l + 149)))                                          -- 208
      let t := 0                                                                 -- 209
      .go s e c t fDenormal                                                      -- 210
  else if i32AsU64 e == sub64 (shl64 1 8) 1 then                                 -- 211
    if c == 0 then .ret (returnBid128Inf s) 0                                    -- 212–214
    else
      let flags := if c &&& shl64 1 22 == 0 then fInvalid else 0                 -- 215–217
      .ret (returnBid128Nan s (shl64 c 42) 0) flags                              -- 218
  else
    let c := add64 c (shl64 1 23)                                                -- 220
    let t := i32OfWord (ctz32 (lo32 c))                                          -- 221
    let e := i32w (e - 150)                                                      -- 222
    .go s e c t 0

/-! ### lines 1063–1193 (= 928–1026): the conversion proper -/

/-- lines 1063–1087: the inputs that are integers below `10^34`, or dyadic fractions `c'/2^a` with `a ≤ 48` and
`c'·5^a` within 34 digits, are returned exactly.  `none` = panic, `some none` = fall through, `some (some res)` = return. -/
def exactBlock (s e : Int) (c : U128) (t : Int) : Option (Option U128) :=
  if e ≤ 0 then                                                                            -- 1063
    let a := i32w (-(i32w (e + t)))                                                        -- 1065
    if a ≤ 0 then                                                                          -- 1068
      let r := srl128 c.w1 c.w0 (i32AsU64 (i32w (15 - e)))                                 -- 1069
      if lt128 r.1 r.2 542101086242752 4003012203950112768 then                            -- 1070
        some (some (returnBid128 s 6176 r.1 r.2))                                          -- 1071
      else some none
    else if a ≤ 48 then                                                                    -- 1073
      match tbl2 BID_COEFFLIMITS_BID128 (i32AsU64 a) with                                  -- 1074
      | none => none
      | some pow5 =>
        let r := srl128 c.w1 c.w0 (i32AsU64 (i32w (15 + t)))                               -- 1075
        if le128 r.1 r.2 pow5.w1 pow5.w0 then                                              -- 1076
          match tbl2 BID_POWER_FIVE (i32AsU64 a) with                                      -- 1080
          | none => none
          | some pow5 =>
            let cc := mul128x128Low ⟨r.2, r.1⟩ pow5                                         -- 1078–1081
            some (some (returnBid128 s (i32w (6176 - a)) cc.w1 cc.w0))                     -- 1082
        else some none
    else some none
  else some none

/-- the result of the table look-up: the 256-bit multiplier `r`, its binary exponent `f`, the estimate `e_out` -/
structure TabR where
  r : U256
  f : Int
  e_out : Int
  deriving Repr, DecidableEq

/-- lines 1095–1122: the estimated (biased) decimal exponent and `r·2^f ≈ 10^(6176 − e_out)` from the bipartite table -/
def tableR (e : Int) : Option TabR :=
  let e_plus := i32w (e + 42152)                                                           -- 1095
  -- 1096: `e_out = (((19728 * e_plus) + ((19779 * e_plus) >> 16)) >> 16) - 6512`
  let e_out := i32w (i32w (i32w (19728 * e_plus) + i32w (19779 * e_plus) / 65536) / 65536 - 6512)
  let e_hi := i32w (11232 - e_out)                                                         -- 1100
  let e_lo := e_hi % 128                                                                   -- 1101
  let e_hi := e_hi / 128                                                                   -- 1102
  match tbl4 BID_INNERTABLE_SIG (i32AsU64 e_lo), tbl1 BID_INNERTABLE_EXP (i32AsU64 e_lo) with     -- 1106, 1107
  | some r, some fw =>
    let f := i32OfWord fw
    if e_hi != 39 then                                                                     -- 1111
      match tbl4 BID_OUTERTABLE_SIG (i32AsU64 e_hi), tbl1 BID_OUTERTABLE_EXP (i32AsU64 e_hi) with  -- 1112, 1114
      | some s_prime, some gw =>
        let f := i32w (i32w (f + 256) + i32OfWord gw)                                      -- 1114
        let t_prime := mul256x256to512 r s_prime                                           -- 1115
        some ⟨⟨add64 t_prime.w4 1, t_prime.w5, t_prime.w6, t_prime.w7⟩, f, e_out⟩          -- 1116–1119
      | _, _ => none
    else some ⟨r, f, e_out⟩
  | _, _ => none

/-- the provisional result while it is being rounded: `c_prov_hi`, `c_prov_lo`, `e_out` -/
structure Prov where
  hi : Nat
  lo : Nat
  e_out : Int
  deriving Repr, DecidableEq

/-- lines 1150–1160: the increment when the fraction is above the round bound, with the carry into the high word and
the step to the next decade at `10^34` -/
def roundProv (up : Bool) (p : Prov) : Prov :=
  if up then                                                                               -- 1150
    let lo := add64 p.lo 1                                                                 -- 1151
    if lo == 0 then ⟨add64 p.hi 1, lo, p.e_out⟩                                            -- 1152, 1153
    else if lo == 4003012203950112768 && p.hi == 542101086242752 then                      -- 1154, 1155
      ⟨54210108624275, 4089650035136921600, i32w (p.e_out + 1)⟩                            -- 1156–1158
    else ⟨p.hi, lo, p.e_out⟩
  else p

/-- lines 1141–1170: rounding of the fixed-point number `z` (integer part in words 5, 4; fraction below), the inexact
flag, packing -/
def roundPack (mode : Mode) (s : Int) (z : U512) (e_out : Int) (flags : Flags) : Option (U128 × Flags) :=
  let c_prov_hi := z.w5                                                                    -- 1141
  let c_prov_lo := z.w4                                                                    -- 1142
  match tbl2 BID_ROUNDBOUND_128                                                            -- 1148
      (add64 (add64 (shl64 mode.toNat 2) (shl64 (i32AsU64 s &&& 1) 1)) (c_prov_lo &&& 1)) with
  | none => none
  | some rb =>
    let p := roundProv (lt128 rb.w1 rb.w0 z.w3 z.w2) ⟨c_prov_hi, c_prov_lo, e_out⟩         -- 1150–1160
    let flags := if z.w3 != 0 || z.w2 != 0 then flags ||| fInexact else flags              -- 1164–1166
    some (returnBid128 s p.e_out p.hi p.lo, flags)                                         -- 1170

/-- lines 1124–1193: product, shift, adjustment by ten, then `roundPack` -/
def mainBlock (mode : Mode) (s e : Int) (c : U128) (tr : TabR) (flags : Flags) : Option (U128 × Flags) :=
  let z := mul128x256to384 c tr.r                                                          -- 1124
  let e := i32w (-(i32w (i32w (241 + e) + tr.f)))                                          -- 1128
  let z := srl384Short z e                                                                 -- 1129
  let lt := lt128 z.w5 z.w4 54210108624275 4089650035136921600                             -- 1134
  let z := if lt then mul10x384 z else z                                                   -- 1135
  let e_out := if lt then i32w (tr.e_out - 1) else tr.e_out                                -- 1136
  roundPack mode s z e_out flags                                                           -- 1141–1170

/-- lines 1063–1193 of `binary64_to_bid128` = lines 928–1026 of `binary32_to_bid128` -/
def convTail (mode : Mode) (s e : Int) (c : U128) (t : Int) (flags : Flags) : Option (U128 × Flags) :=
  match exactBlock s e c t with
  | none => none
  | some (some res) => some (res, flags)
  | some none =>
    match tableR e with
    | none => none
    | some tr => mainBlock mode s e c tr flags

/-- the 128-bit pattern of a `BID_UINT128` -/
def bitsOf (x : U128) : Nat := x.w1 * 18446744073709551616 + x.w0

/-- lines 1051–1193 (`up = 11`, `p = 53`) / 889–1026 (`up = 40`, `p = 24`): what follows the unpacking — the early return,
or the shift of the coefficient to the top of `c`, the adjustment of `t` and `e`, and the conversion proper -/
def afterUnpack (mode : Mode) (up : Nat) (p : Int) : Unpacked → Option (U128 × Flags)
  | .ret res flags => some (res, flags)                                          -- 1051–1053 / 889–891
  | .go s e cw1 t flags =>
    let c : U128 := ⟨0, shl64 cw1 up⟩                                            -- 1057, 1058 / 896, 897
    let t := i32w (t + (113 - p))                                                -- 1060 / 899
    let e := i32w (e - (113 - p))                                                -- 1061 / 900
    convTail mode s e c t flags

/-- `binary64_to_bid128(f64::from_bits(bits), mode, &mut 0)`: the `BID_UINT128` and the flags raised -/
def binary64ToBid128 (mode : Mode) (bits : Nat) : Option (U128 × Flags) :=
  afterUnpack mode 11 53 (unpackBinary64 bits)                                   -- 1049

/-- `binary32_to_bid128(f32::from_bits(bits), mode, &mut 0)` -/
def binary32ToBid128 (mode : Mode) (bits : Nat) : Option (U128 × Flags) :=
  afterUnpack mode 40 24 (unpackBinary32 bits)                                   -- 874–887

end BC

/-- **What `d128::convert_from_f64(f64::from_bits(bits), Some(mode), &mut st)` returns** (the 128-bit pattern) and the
flags it raises; `bits < 2^64`.  `none` = the code would panic. -/
def bin64Code (mode : Mode) (bits : Nat) : Option (Nat × Flags) :=
  (BC.binary64ToBid128 mode bits).map fun r => (BC.bitsOf r.1, r.2)

/-- **What `d128::convert_from_f32(f32::from_bits(bits), Some(mode), &mut st)` returns** and the flags it raises;
`bits < 2^32`. -/
def bin32Code (mode : Mode) (bits : Nat) : Option (Nat × Flags) :=
  (BC.binary32ToBid128 mode bits).map fun r => (BC.bitsOf r.1, r.2)

/-- The conversions under the harness's operation names.  `convert_from_f64`, `convert_from_f32`: the given mode;
`from_f64`, `from_f32` (`impl From`): `NearestEven`, and the status word is local to the call, so no flag is seen.
Outer `none` = not such an operation; inner `none` = the code would panic. -/
def binConvCodeOp (op : String) (mode : Mode) (bits : Nat) : Option (Option (Nat × Flags)) :=
  match op with
  | "convert_from_f64" => some (bin64Code mode bits)
  | "convert_from_f32" => some (bin32Code mode bits)
  | "from_f64" => some ((bin64Code .rne bits).map fun r => (r.1, 0))
  | "from_f32" => some ((bin32Code .rne bits).map fun r => (r.1, 0))
  | _ => none

end Dec
