/-
  DecModel.BinConv — binary32 / binary64 → decimal128.
-/
import DecModel.Str

namespace Dec

/-- What a binary floating-point bit pattern denotes. -/
inductive BinDatum
  | fin (neg : Bool) (m : Nat) (E : Int) (subnormal : Bool)   -- ±m·2^E
  | inf (neg : Bool)
  | nan (neg : Bool) (sig : Bool)
  deriving Repr

/-- Decode an IEEE binary interchange pattern with `ew` exponent bits and `fw` fraction bits. -/
def decodeBin (ew fw : Nat) (bits : Nat) : BinDatum :=
  let neg := (bits / 2 ^ (ew + fw)) % 2 == 1
  let ex := (bits / 2 ^ fw) % 2 ^ ew
  let fr := bits % 2 ^ fw
  let biasB : Int := 2 ^ (ew - 1) - 1
  if ex = 2 ^ ew - 1 then
    if fr = 0 then .inf neg else .nan neg ((fr / 2 ^ (fw - 1)) % 2 == 0)
  else if ex = 0 then .fin neg fr (1 - biasB - fw) true
  else .fin neg (fr + 2 ^ fw) ((ex : Int) - biasB - fw) false

/-- Conversion of a finite binary value `±m·2^E`: exact when 34 digits suffice (quantum exponent as
close to zero as possible), otherwise rounded once. -/
def binToDecD (mode : Mode) (neg : Bool) (m : Nat) (E : Int) : Datum × Flags :=
  if m = 0 then (.fin neg 0 0, 0)
  else if E ≥ 0 then finish mode neg (m * 2 ^ E.toNat) 1 0 0
  else finish mode neg m (2 ^ (-E).toNat) 0 0

end Dec
