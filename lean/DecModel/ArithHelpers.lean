/-
  DecModel.ArithHelpers — code-shaped models of the multi-word integer primitives at the end of
  /repo/src/bid_internal.rs (lines 849–1447): logical shifts, adds/subs with carry/borrow, the 64×64→128 multiply
  built from 32-bit halves and everything stacked on it, and the 128-bit compares.

  Every routine is a line-by-line transcription: one `let` per Rust statement, the same temporaries under the same
  names, the same order.  Nothing here multiplies or adds the operands as unbounded integers; that the words
  computed this way ARE the integer sum / product / quotient is what `DecProofs/Properties/C01ArithHelpers.lean` proves.

  How Rust's `u64` arithmetic is represented (the crate is built with `overflow-checks = false`, dev profile too):
  * a `u64` is a `Nat` below 2^64 (`W`); `+`, `-`, `*` wrap: `add64`, `sub64`, `mul64` reduce modulo 2^64;
  * `x >> s`, `x << s` on a `u64` with overflow checks off use the shift amount modulo 64 — for EVERY `s`, including
    `s ≥ 64` and negative `i32` amounts (`s as u32 & 63`); this is Rust's defined behaviour with the checks off (and what
    the compiled code does: see the `k = 0` rows of the validation), not undefined behaviour.  `shr64 x s`, `shl64 x s`
    take the amount already reduced to a `Nat` by `shamt`; `shl64` also drops the bits shifted out;
  * `(x as u32) as u64` is `lo32 x`;
  * an `i32` shift count is an `Int`; `64 - k`, `k - 64`, `128 - amount` are `i32` operations and wrap (`i32w`) — which
    never changes the value modulo 64, but is kept so that the transcription is literal;
  * `|` is `Nat.lor` (`|||`).
  * `BID_UINT128` is the crate's `d128`, whose `Default::default()` is NOT zero (it is `w = [0, 0x3040000000000000]`,
    the decimal zero).  Every routine below that starts from `Default::default()` writes both words before
    returning, so that value never shows; `BID_UINT192/256/384/512` derive `Default` and start as zeros, and the
    routines that fill only some words (`__shr_256`, `__sub_256_128_to_256`, `__mul_64x128_to_256`,
    `__mul_64x256_to_320`) return zeros in the others: modelled as such.

  No table is read by any routine of this group.

  The judge's interface is `Dec.hkArith` at the end.
-/
import DecModel.Basic

namespace Dec
namespace AH

/-- 2^64 -/
local notation "W" => (18446744073709551616 : Nat)

/-! ### machine words -/

/-- `a + b` on `u64` (wrapping) -/
def add64 (a b : Nat) : Nat := (a + b) % W
/-- `a - b` on `u64` (wrapping) -/
def sub64 (a b : Nat) : Nat := (a + W - b % W) % W
/-- `a * b` on `u64` (wrapping) -/
def mul64 (a b : Nat) : Nat := (a * b) % W
/-- `(x as u32) as u64` -/
def lo32 (x : Nat) : Nat := x % 4294967296
/-- `x >> s` on `u64`, `s` the effective amount (Rust reduces it modulo 64) -/
def shr64 (x s : Nat) : Nat := x / 2 ^ (s % 64)
/-- `x << s` on `u64`, `s` the effective amount (Rust reduces it modulo 64); bits shifted out are lost -/
def shl64 (x s : Nat) : Nat := (x * 2 ^ (s % 64)) % W
/-- an `i32` result (wrapping) -/
def i32w (x : Int) : Int := (x + 2147483648) % 4294967296 - 2147483648
/-- the effective amount of a shift by the `i32` value `k`: `(k as u32) & 63` -/
def shamt (k : Int) : Nat := (k % 64).toNat
/-- `word as i32` (the hook's truncation of a 64-bit argument word) -/
def i32OfWord (w : Nat) : Int := i32w (w : Int)
/-- `b as u64` for a `bool` -/
def b2w (b : Bool) : Nat := if b then 1 else 0

/-- `BID_UINT128`: `w0 = w[0]` is the low word -/
structure U128 where
  w0 : Nat
  w1 : Nat
  deriving DecidableEq, Repr, Inhabited
structure U192 where
  w0 : Nat
  w1 : Nat
  w2 : Nat
  deriving DecidableEq, Repr, Inhabited
structure U256 where
  w0 : Nat
  w1 : Nat
  w2 : Nat
  w3 : Nat
  deriving DecidableEq, Repr, Inhabited
structure U384 where
  w0 : Nat
  w1 : Nat
  w2 : Nat
  w3 : Nat
  w4 : Nat
  w5 : Nat
  deriving DecidableEq, Repr, Inhabited
structure U512 where
  w0 : Nat
  w1 : Nat
  w2 : Nat
  w3 : Nat
  w4 : Nat
  w5 : Nat
  w6 : Nat
  w7 : Nat
  deriving DecidableEq, Repr, Inhabited

/-- the words, low first -/
def U128.words (a : U128) : List Nat := [a.w0, a.w1]
def U192.words (a : U192) : List Nat := [a.w0, a.w1, a.w2]
def U256.words (a : U256) : List Nat := [a.w0, a.w1, a.w2, a.w3]
def U384.words (a : U384) : List Nat := [a.w0, a.w1, a.w2, a.w3, a.w4, a.w5]
def U512.words (a : U512) : List Nat := [a.w0, a.w1, a.w2, a.w3, a.w4, a.w5, a.w6, a.w7]

/-- the integer a little-endian word list stands for -/
def valOf : List Nat → Nat
  | [] => 0
  | w :: t => w + W * valOf t

def U128.val (a : U128) : Nat := a.w0 + W * a.w1
def U192.val (a : U192) : Nat := a.w0 + W * a.w1 + W * W * a.w2
def U256.val (a : U256) : Nat := a.w0 + W * a.w1 + W * W * a.w2 + W * W * W * a.w3
def U384.val (a : U384) : Nat :=
  a.w0 + W * a.w1 + W * W * a.w2 + W * W * W * a.w3 + W * W * W * W * a.w4 + W * W * W * W * W * a.w5
def U512.val (a : U512) : Nat :=
  a.w0 + W * a.w1 + W * W * a.w2 + W * W * W * a.w3 + W * W * W * W * a.w4 + W * W * W * W * W * a.w5
    + W * W * W * W * W * W * a.w6 + W * W * W * W * W * W * W * a.w7

/-- every word is a 64-bit word (the hypothesis of the theorems; `hkArith` checks it on its arguments) -/
def U128.wf (a : U128) : Prop := a.w0 < W ∧ a.w1 < W
def U192.wf (a : U192) : Prop := a.w0 < W ∧ a.w1 < W ∧ a.w2 < W
def U256.wf (a : U256) : Prop := a.w0 < W ∧ a.w1 < W ∧ a.w2 < W ∧ a.w3 < W
def U384.wf (a : U384) : Prop := a.w0 < W ∧ a.w1 < W ∧ a.w2 < W ∧ a.w3 < W ∧ a.w4 < W ∧ a.w5 < W
def U512.wf (a : U512) : Prop :=
  a.w0 < W ∧ a.w1 < W ∧ a.w2 < W ∧ a.w3 < W ∧ a.w4 < W ∧ a.w5 < W ∧ a.w6 < W ∧ a.w7 < W

/-! ### Logical shifts (bid_internal.rs 849–901) -/

/-- `__shr_128(A, k)` (line 850).  No guard on `k` in the routine: the three shifts use `k mod 64` and
`(64 - k) mod 64`, so the result is `⌊A / 2^k⌋` only for `1 ≤ k ≤ 63`; at `k = 0` the second line ORs the whole of
`A.w[1]` into the low word (`A.w[1] << 64` is `A.w[1] << 0`).  Callers guard with `amount < 64` and take `amount`
from `BID_RECIP_SCALE` (all entries ≥ 1). -/
def shr128 (A : U128) (k : Int) : U128 :=
  let Q0 := shr64 A.w0 (shamt k)                                  -- Q.w[0]  = A.w[0] >> k;
  let Q0 := Q0 ||| shl64 A.w1 (shamt (i32w (64 - k)))             -- Q.w[0] |= A.w[1] << (64 - k);
  let Q1 := shr64 A.w1 (shamt k)                                  -- Q.w[1]  = A.w[1] >> k;
  ⟨Q0, Q1⟩

/-- `__shr_256(A, k)` (line 861).  Despite the name only the two low words are shifted (as in `__shr_128`); `A.w[2]`,
`A.w[3]` are ignored and `Q.w[2] = Q.w[3] = 0`. -/
def shr256 (A : U256) (k : Int) : U256 :=
  let Q0 := shr64 A.w0 (shamt k)
  let Q0 := Q0 ||| shl64 A.w1 (shamt (i32w (64 - k)))
  let Q1 := shr64 A.w1 (shamt k)
  ⟨Q0, Q1, 0, 0⟩

/-- `__shr_128_long(A, k)` (line 872): the `k < 64` branch is `__shr_128`; the other uses `(k - 64) mod 64`. -/
def shr128Long (A : U128) (k : Int) : U128 :=
  if k < 64 then
    let Q0 := shr64 A.w0 (shamt k)
    let Q0 := Q0 ||| shl64 A.w1 (shamt (i32w (64 - k)))
    let Q1 := shr64 A.w1 (shamt k)
    ⟨Q0, Q1⟩
  else
    let Q0 := shr64 A.w1 (shamt (i32w (k - 64)))                  -- Q.w[0] = A.w[1] >> ((k) - 64);
    ⟨Q0, 0⟩                                                       -- Q.w[1] = 0;

/-- `__shl_128_long(A, k)` (line 888) -/
def shl128Long (A : U128) (k : Int) : U128 :=
  if k < 64 then
    let Q1 := shl64 A.w1 (shamt k)                                -- Q.w[1]  = A.w[1] << k;
    let Q1 := Q1 ||| shr64 A.w0 (shamt (i32w (64 - k)))           -- Q.w[1] |= A.w[0] >> (64 - k);
    let Q0 := shl64 A.w0 (shamt k)                                -- Q.w[0]  = A.w[0] << k;
    ⟨Q0, Q1⟩
  else
    let Q1 := shl64 A.w0 (shamt (i32w (k - 64)))                  -- Q.w[1] = A.w[0] << ((k) - 64);
    ⟨0, Q1⟩                                                       -- Q.w[0] = 0;

/-! ### Add / subtract (bid_internal.rs 903–1011) -/

/-- `__add_128_64` (line 909) -/
def add128_64 (A128 : U128) (B64 : Nat) : U128 :=
  let R64H := A128.w1
  let R0 := add64 B64 A128.w0                                      -- R128.w[0] = B64 + A128.w[0];
  let R64H := if R0 < B64 then add64 R64H 1 else R64H              -- if R128.w[0] < B64 { R64H += 1; }
  ⟨R0, R64H⟩

/-- `__sub_128_64` (line 922) -/
def sub128_64 (A128 : U128) (B64 : Nat) : U128 :=
  let R64H := A128.w1
  let R64H := if A128.w0 < B64 then sub64 R64H 1 else R64H         -- if A128.w[0] < B64 { R64H -= 1; }
  ⟨sub64 A128.w0 B64, R64H⟩

/-- `__add_128_128` (line 935; "assume no carry-out": the carry out of the high word is dropped) -/
def add128_128 (A128 B128 : U128) : U128 :=
  let Q1 := add64 A128.w1 B128.w1                                  -- Q128.w[1] = A128.w[1] + B128.w[1];
  let Q0 := add64 B128.w0 A128.w0                                  -- Q128.w[0] = B128.w[0] + A128.w[0];
  let Q1 := if Q0 < B128.w0 then add64 Q1 1 else Q1                -- if Q128.w[0] < B128.w[0] { Q128.w[1] += 1; }
  ⟨Q0, Q1⟩

/-- `__sub_128_128` (line 950) -/
def sub128_128 (A128 B128 : U128) : U128 :=
  let Q1 := sub64 A128.w1 B128.w1
  let Q0 := sub64 A128.w0 B128.w0
  let Q1 := if A128.w0 < B128.w0 then sub64 Q1 1 else Q1
  ⟨Q0, Q1⟩

/-- `__sub_256_128_to_256` (line 965).  Despite the name it is `__sub_128_128` on the two low words of `A`;
`A.w[2]`, `A.w[3]` are ignored, no borrow is propagated, `R.w[2] = R.w[3] = 0`. -/
def sub256_128to256 (A128 : U256) (B128 : U128) : U256 :=
  let Q1 := sub64 A128.w1 B128.w1
  let Q0 := sub64 A128.w0 B128.w0
  let Q1 := if A128.w0 < B128.w0 then sub64 Q1 1 else Q1
  ⟨Q0, Q1, 0, 0⟩

/-- `__add_carry_out` (line 981): `(S, CY)` -/
def addCarryOut (X Y : Nat) : Nat × Nat :=
  let S := add64 X Y
  let CY := if S < X then 1 else 0
  (S, CY)

/-- `__add_carry_in_out` (line 989): `(S, CY)` -/
def addCarryInOut (X Y CI : Nat) : Nat × Nat :=
  let X1 := add64 X CI
  let S := add64 X1 Y
  let CY := if S < X1 || X1 < CI then 1 else 0
  (S, CY)

/-- `__sub_borrow_out` (line 997): `(S, CY)` -/
def subBorrowOut (X Y : Nat) : Nat × Nat :=
  let X1 := X
  let S := sub64 X Y
  let CY := if S > X1 then 1 else 0
  (S, CY)

/-- `__sub_borrow_in_out` (line 1005): `(S, CY)` -/
def subBorrowInOut (X Y CI : Nat) : Nat × Nat :=
  let X0 := X
  let X1 := sub64 X CI
  let S := sub64 X1 Y
  let CY := if S > X1 || X1 > X0 then 1 else 0
  (S, CY)

/-! ### Multiplies (bid_internal.rs 1013–1404) -/

/-- `__mul_64x64_to_64` (line 1018) -/
def mul64x64to64 (CX CY : Nat) : Nat := mul64 CX CY

/-- `__mul_64x64_to_128` (line 1028): the 64×64 product from four 32×32 products -/
def mul64x64to128 (CX CY : Nat) : U128 :=
  let CXH := shr64 CX 32
  let CXL := lo32 CX
  let CYH := shr64 CY 32
  let CYL := lo32 CY
  let PM  := mul64 CXH CYL
  let PH  := mul64 CXH CYH
  let PL  := mul64 CXL CYL
  let PM2 := mul64 CXL CYH
  let PH  := add64 PH (shr64 PM 32)                                -- PH += PM >> 32;
  let PM  := add64 (add64 (lo32 PM) PM2) (shr64 PL 32)             -- PM = (PM as u32) + PM2 + (PL >> 32);
  ⟨add64 (shl64 PM 32) (lo32 PL), add64 PH (shr64 PM 32)⟩          -- new(PH + (PM >> 32), (PM << 32) + (PL as u32))

/-- `__mul_64x64_to_128_fast` (line 1047; "used for CX < 2^61, CY < 2^61"): the middle sum `PM` is formed without
splitting off its high half first, so it wraps when `CXH·CYL + CXL·CYH + (PL >> 32) ≥ 2^64`. -/
def mul64x64to128Fast (CX CY : Nat) : U128 :=
  let CXH := shr64 CX 32
  let CXL := lo32 CX
  let CYH := shr64 CY 32
  let CYL := lo32 CY
  let PM  := mul64 CXH CYL
  let PL  := mul64 CXL CYL
  let PH  := mul64 CXH CYH
  let PM  := add64 PM (mul64 CXL CYH)                              -- PM += CXL * CYH;
  let PM  := add64 PM (shr64 PL 32)                                -- PM += PL >> 32;
  ⟨add64 (shl64 PM 32) (lo32 PL), add64 PH (shr64 PM 32)⟩

/-- `__mul_64x64_to_128_full` (line 1064): textually `__mul_64x64_to_128` -/
def mul64x64to128Full (CX CY : Nat) : U128 :=
  let CXH := shr64 CX 32
  let CXL := lo32 CX
  let CYH := shr64 CY 32
  let CYL := lo32 CY
  let PM  := mul64 CXH CYL
  let PH  := mul64 CXH CYH
  let PL  := mul64 CXL CYL
  let PM2 := mul64 CXL CYH
  let PH  := add64 PH (shr64 PM 32)
  let PM  := add64 (add64 (lo32 PM) PM2) (shr64 PL 32)
  ⟨add64 (shl64 PM 32) (lo32 PL), add64 PH (shr64 PM 32)⟩

/-- `__mul_64x64_to_128MACH` (line 1205): textually `__mul_64x64_to_128` -/
def mul64x64to128MACH (CX64 CY64 : Nat) : U128 :=
  let CXH := shr64 CX64 32
  let CXL := lo32 CX64
  let CYH := shr64 CY64 32
  let CYL := lo32 CY64
  let PM  := mul64 CXH CYL
  let PH  := mul64 CXH CYH
  let PL  := mul64 CXL CYL
  let PM2 := mul64 CXL CYH
  let PH  := add64 PH (shr64 PM 32)
  let PM  := add64 (add64 (lo32 PM) PM2) (shr64 PL 32)
  ⟨add64 (shl64 PM 32) (lo32 PL), add64 PH (shr64 PM 32)⟩

/-- `__mul_64x64_to_128HIGH` (line 1223): the high word of the same computation -/
def mul64x64to128HIGH (CX64 CY64 : Nat) : Nat :=
  let CXH := shr64 CX64 32
  let CXL := lo32 CX64
  let CYH := shr64 CY64 32
  let CYL := lo32 CY64
  let PM  := mul64 CXH CYL
  let PH  := mul64 CXH CYH
  let PL  := mul64 CXL CYL
  let PM2 := mul64 CXL CYH
  let PH  := add64 PH (shr64 PM 32)
  let PM  := add64 (add64 (lo32 PM) PM2) (shr64 PL 32)
  add64 PH (shr64 PM 32)

/-- `__mul_128x128_high` (line 1081).  `QM = ALBH + AHBL` goes through `__add_128_128`, which drops the carry out of
bit 127. -/
def mul128x128High (A B : U128) : U128 :=
  let ALBH := mul64x64to128 A.w0 B.w1
  let AHBL := mul64x64to128 B.w0 A.w1
  let ALBL := mul64x64to128 A.w0 B.w0
  let AHBH := mul64x64to128 A.w1 B.w1
  let QM   := add128_128 ALBH AHBL
  let QM2  := add128_64 QM ALBL.w1
  add128_64 AHBH QM2.w1

/-- `__mul_128x128_full` (line 1093): `(Qh, Ql)`; same dropped carry as `__mul_128x128_high` -/
def mul128x128Full (A B : U128) : U128 × U128 :=
  let ALBH := mul64x64to128 A.w0 B.w1
  let AHBL := mul64x64to128 B.w0 A.w1
  let ALBL := mul64x64to128 A.w0 B.w0
  let AHBH := mul64x64to128 A.w1 B.w1
  let QM   := add128_128 ALBH AHBL
  let Ql0  := ALBL.w0
  let QM2  := add128_64 QM ALBL.w1
  let Qh   := add128_64 AHBH QM2.w1
  let Ql1  := QM2.w0
  (Qh, ⟨Ql0, Ql1⟩)

/-- `__mul_128x128_low` (line 1109) -/
def mul128x128Low (A B : U128) : U128 :=
  let ALBL := mul64x64to128 A.w0 B.w0
  let QM64 := add64 (mul64 B.w0 A.w1) (mul64 A.w0 B.w1)            -- B.w[0] * A.w[1] + A.w[0] * B.w[1]
  ⟨ALBL.w0, add64 QM64 ALBL.w1⟩

/-- `__mul_64x128_low` (line 1121) -/
def mul64x128Low (A : Nat) (B : U128) : U128 :=
  let ALBH := mul64x64to128 A B.w1
  let ALBL := mul64x64to128 A B.w0
  let Ql0 := ALBL.w0
  let QM2 := add128_64 ALBH ALBL.w1
  ⟨Ql0, QM2.w0⟩

/-- `__mul_64x128_full` (line 1133): `(Ph, Ql)` -/
def mul64x128Full (A : Nat) (B : U128) : Nat × U128 :=
  let ALBH := mul64x64to128 A B.w1
  let ALBL := mul64x64to128 A B.w0
  let Ql0 := ALBL.w0
  let QM2 := add128_64 ALBH ALBL.w1
  let Ql1 := QM2.w0
  let Ph := QM2.w1
  (Ph, ⟨Ql0, Ql1⟩)

/-- `__mul_64x128_to_192` (line 1147) -/
def mul64x128to_192 (A : Nat) (B : U128) : U192 :=
  let ALBH := mul64x64to128 A B.w1
  let ALBL := mul64x64to128 A B.w0
  let Q0 := ALBL.w0
  let QM2 := add128_64 ALBH ALBL.w1
  ⟨Q0, QM2.w0, QM2.w1⟩

/-- `__mul_64x128_to_256` (line 1161): `Q.w[3]` stays 0 -/
def mul64x128to256 (A : Nat) (B : U128) : U256 :=
  let ALBH := mul64x64to128 A B.w1
  let ALBL := mul64x64to128 A B.w0
  let Q0 := ALBL.w0
  let QM2 := add128_64 ALBH ALBL.w1
  ⟨Q0, QM2.w0, QM2.w1, 0⟩

/-- `__mul_64x128_to192` (line 1175): textually `__mul_64x128_to_192` -/
def mul64x128to192 (A : Nat) (B : U128) : U192 :=
  let ALBH := mul64x64to128 A B.w1
  let ALBL := mul64x64to128 A B.w0
  let Q0 := ALBL.w0
  let QM2 := add128_64 ALBH ALBL.w1
  ⟨Q0, QM2.w0, QM2.w1⟩

/-- `__mul_128x128_to_256` (line 1189) -/
def mul128x128to256 (A B : U128) : U256 :=
  let L := mul64x128Full A.w0 B                                     -- (Phl, Qll) = L
  let H := mul64x128Full A.w1 B                                     -- (Phh, Qlh) = H
  let P0 := L.2.w0                                                  -- P256.w[0] = Qll.w[0];
  let r1 := addCarryOut H.2.w0 L.2.w1                               -- (P256.w[1], CY1) = __add_carry_out(Qlh.w[0], Qll.w[1]);
  let r2 := addCarryInOut H.2.w1 L.1 r1.2                           -- (P256.w[2], CY2) = __add_carry_in_out(Qlh.w[1], Phl, CY1);
  let P3 := add64 H.1 r2.2                                          -- P256.w[3] = Phh + CY2;
  ⟨P0, r1.1, r2.1, P3⟩

/-- `__mul_64x192_to_256` (line 1240) -/
def mul64x192to256 (lA : Nat) (lB : U192) : U256 :=
  let lP0 := mul64x64to128 lA lB.w0
  let lP1 := mul64x64to128 lA lB.w1
  let lP2 := mul64x64to128 lA lB.w2
  let P0 := lP0.w0
  let r1 := addCarryOut lP1.w0 lP0.w1                               -- (lP.w[1], lC) = __add_carry_out(lP1.w[0], lP0.w[1]);
  let r2 := addCarryInOut lP2.w0 lP1.w1 r1.2                        -- (lP.w[2], lC) = __add_carry_in_out(lP2.w[0], lP1.w[1], lC);
  let P3 := add64 lP2.w1 r2.2                                       -- lP.w[3] = lP2.w[1] + lC;
  ⟨P0, r1.1, r2.1, P3⟩

/-- `__mul_64x256_to_256` (line 1255).  Textually `__mul_64x192_to_256`: `lB.w[3]` is never read, so this is NOT the
product truncated to 256 bits unless `lA · lB.w[3] ≡ 0 (mod 2^64)`; it is `lA · (lB mod 2^192)`. -/
def mul64x256to256 (lA : Nat) (lB : U256) : U256 :=
  let lP0 := mul64x64to128 lA lB.w0
  let lP1 := mul64x64to128 lA lB.w1
  let lP2 := mul64x64to128 lA lB.w2
  let P0 := lP0.w0
  let r1 := addCarryOut lP1.w0 lP0.w1                               -- (lP.w[1], lC) = __add_carry_out(lP1.w[0], lP0.w[1]);
  let r2 := addCarryInOut lP2.w0 lP1.w1 r1.2                        -- (lP.w[2], lC) = __add_carry_in_out(lP2.w[0], lP1.w[1], lC);
  let P3 := add64 lP2.w1 r2.2                                       -- lP.w[3] = lP2.w[1] + lC;
  ⟨P0, r1.1, r2.1, P3⟩

/-- `__mul_128x64_to_128` (line 1270) -/
def mul128x64to128 (A64 : Nat) (B128 : U128) : U128 :=
  let ALBH_L := mul64 A64 B128.w1
  let Q128 := mul64x64to128MACH A64 B128.w0
  ⟨Q128.w0, add64 Q128.w1 ALBH_L⟩                                  -- Q128.w[1] += ALBH_L;

/-- `__mul_64x128_to_128` (line 1279) -/
def mul64x128to128 (A : Nat) (B : U128) : U128 :=
  let ALBH := mul64x64to128 A B.w1
  let ALBL := mul64x64to128 A B.w0
  let Ql0 := ALBL.w0
  let QM2 := add128_64 ALBH ALBL.w1
  ⟨Ql0, QM2.w0⟩

/-- `__mul_64x256_to_320` (line 1291): returned in a `BID_UINT512`, words 5–7 zero -/
def mul64x256to320 (A : Nat) (B : U256) : U512 :=
  let lP0 := mul64x64to128 A B.w0
  let lP1 := mul64x64to128 A B.w1
  let lP2 := mul64x64to128 A B.w2
  let lP3 := mul64x64to128 A B.w3
  let P0 := lP0.w0
  let r1 := addCarryOut lP1.w0 lP0.w1                               -- (P.w[1], lC) = __add_carry_out(lP1.w[0], lP0.w[1]);
  let r2 := addCarryInOut lP2.w0 lP1.w1 r1.2                        -- (P.w[2], lC) = __add_carry_in_out(lP2.w[0], lP1.w[1], lC);
  let r3 := addCarryInOut lP3.w0 lP2.w1 r2.2                        -- (P.w[3], lC) = __add_carry_in_out(lP3.w[0], lP2.w[1], lC);
  let P4 := add64 lP3.w1 r3.2                                       -- P.w[4] = lP3.w[1] + lC;
  ⟨P0, r1.1, r2.1, r3.1, P4, 0, 0, 0⟩

/-- `__mul_192x192_to_384` (line 1308) -/
def mul192x192to384 (A B : U192) : U384 :=
  let P0 := mul64x192to256 A.w0 B
  let P1 := mul64x192to256 A.w1 B
  let P2 := mul64x192to256 A.w2 B
  let R0 := P0.w0                                                   -- P.w[0] = P0.w[0];
  let a1 := addCarryOut P1.w0 P0.w1                                 -- (P.w[1], CY) = __add_carry_out(P1.w[0], P0.w[1]);
  let a2 := addCarryInOut P1.w1 P0.w2 a1.2                          -- (P.w[2], CY) = __add_carry_in_out(P1.w[1], P0.w[2], CY);
  let a3 := addCarryInOut P1.w2 P0.w3 a2.2                          -- (P.w[3], CY) = __add_carry_in_out(P1.w[2], P0.w[3], CY);
  let R4 := add64 P1.w3 a3.2                                        -- P.w[4] = P1.w[3] + CY;
  let b2 := addCarryOut P2.w0 a2.1                                  -- (P.w[2], CY) = __add_carry_out(P2.w[0], P.w[2]);
  let b3 := addCarryInOut P2.w1 a3.1 b2.2                           -- (P.w[3], CY) = __add_carry_in_out(P2.w[1], P.w[3], CY);
  let b4 := addCarryInOut P2.w2 R4 b3.2                             -- (P.w[4], CY) = __add_carry_in_out(P2.w[2], P.w[4], CY);
  let R5 := add64 P2.w3 b4.2                                        -- P.w[5] = P2.w[3] + CY;
  ⟨R0, a1.1, b2.1, b3.1, b4.1, R5⟩

/-- `__sqr128_to_256` (line 1329) -/
def sqr128to256 (A : U128) : U256 :=
  let Qhh := mul64x64to128 A.w1 A.w1
  let Qlh := mul64x64to128 A.w0 A.w1
  let Qhh1 := add64 Qhh.w1 (shr64 Qlh.w1 63)                       -- Qhh.w[1] += Qlh.w[1] >> 63;
  let Qlh1 := add64 Qlh.w1 Qlh.w1 ||| shr64 Qlh.w0 63              -- Qlh.w[1] = (Qlh.w[1] + Qlh.w[1]) | (Qlh.w[0] >> 63);
  let Qlh0 := add64 Qlh.w0 Qlh.w0                                  -- Qlh.w[0] += Qlh.w[0];
  let Qll := mul64x64to128 A.w0 A.w0
  let r1 := addCarryOut Qlh0 Qll.w1                                 -- (P256.w[1], TMP_C1) = __add_carry_out(Qlh.w[0], Qll.w[1]);
  let P0 := Qll.w0                                                  -- P256.w[0] = Qll.w[0];
  let r2 := addCarryInOut Qlh1 Qhh.w0 r1.2                          -- (P256.w[2], TMP_C2) = __add_carry_in_out(Qlh.w[1], Qhh.w[0], TMP_C1);
  let P3 := add64 Qhh1 r2.2                                         -- P256.w[3] = Qhh.w[1] + TMP_C2;
  ⟨P0, r1.1, r2.1, P3⟩

/-- `__mul_256x256_to_512` (line 1369) -/
def mul256x256to512 (A B : U256) : U512 :=
  let P0 := mul64x256to320 A.w0 B
  let P1 := mul64x256to320 A.w1 B
  let P2 := mul64x256to320 A.w2 B
  let P3 := mul64x256to320 A.w3 B
  let R0 := P0.w0                                                   -- P.w[0] = P0.w[0];
  let a1 := addCarryOut P1.w0 P0.w1                                 -- (P.w[1], CY) = __add_carry_out(P1.w[0], P0.w[1]);
  let a2 := addCarryInOut P1.w1 P0.w2 a1.2                          -- (P.w[2], CY) = __add_carry_in_out(P1.w[1], P0.w[2], CY);
  let a3 := addCarryInOut P1.w2 P0.w3 a2.2                          -- (P.w[3], CY) = __add_carry_in_out(P1.w[2], P0.w[3], CY);
  let a4 := addCarryInOut P1.w3 P0.w4 a3.2                          -- (P.w[4], CY) = __add_carry_in_out(P1.w[3], P0.w[4], CY);
  let R5 := add64 P1.w4 a4.2                                        -- P.w[5] = P1.w[4] + CY;
  let b2 := addCarryOut P2.w0 a2.1                                  -- (P.w[2], CY) = __add_carry_out(P2.w[0], P.w[2]);
  let b3 := addCarryInOut P2.w1 a3.1 b2.2                           -- (P.w[3], CY) = __add_carry_in_out(P2.w[1], P.w[3], CY);
  let b4 := addCarryInOut P2.w2 a4.1 b3.2                           -- (P.w[4], CY) = __add_carry_in_out(P2.w[2], P.w[4], CY);
  let b5 := addCarryInOut P2.w3 R5 b4.2                             -- (P.w[5], CY) = __add_carry_in_out(P2.w[3], P.w[5], CY);
  let R6 := add64 P2.w4 b5.2                                        -- P.w[6] = P2.w[4] + CY;
  let c3 := addCarryOut P3.w0 b3.1                                  -- (P.w[3], CY) = __add_carry_out(P3.w[0], P.w[3]);
  let c4 := addCarryInOut P3.w1 b4.1 c3.2                           -- (P.w[4], CY) = __add_carry_in_out(P3.w[1], P.w[4], CY);
  let c5 := addCarryInOut P3.w2 b5.1 c4.2                           -- (P.w[5], CY) = __add_carry_in_out(P3.w[2], P.w[5], CY);
  let c6 := addCarryInOut P3.w3 R6 c5.2                             -- (P.w[6], CY) = __add_carry_in_out(P3.w[3], P.w[6], CY);
  let R7 := add64 P3.w4 c6.2                                        -- P.w[7] = P3.w[4] + CY;
  ⟨R0, a1.1, b2.1, c3.1, c4.1, c5.1, c6.1, R7⟩

/-- `__mul_64x128_short` (line 1397) -/
def mul64x128Short (A : Nat) (B : U128) : U128 :=
  let ALBH_L := mul64x64to64 A B.w1
  let Ql := mul64x64to128 A B.w0
  ⟨Ql.w0, add64 Ql.w1 ALBH_L⟩                                      -- Ql.w[1] += ALBH_L;

/-! ### Compares (bid_internal.rs 1406–1447) -/

/-- `__unsigned_compare_gt_128` (line 1414) -/
def compareGt128 (A B : U128) : Bool :=
  decide (A.w1 > B.w1) || (decide (A.w1 = B.w1) && decide (A.w0 > B.w0))

/-- `__unsigned_compare_ge_128` (line 1435) -/
def compareGe128 (A B : U128) : Bool :=
  decide (A.w1 > B.w1) || (decide (A.w1 = B.w1) && decide (A.w0 ≥ B.w0))

/-- `__test_equal_128` (line 1445) -/
def testEqual128 (A B : U128) : Bool :=
  decide (A.w1 = B.w1) && decide (A.w0 = B.w0)

end AH

/-! ### The judge's interface -/

open AH in
/-- The hook `verif_hooks::helper` for the names of this group, on argument words that are already known to be
64-bit words: the routine applied to the arguments in the hook's order, result words in the hook's order.
`none` for a name outside the group or a wrong number of arguments (the hook's `need(n)`). -/
def hkArithWords (name : String) (args : List Nat) : Option (List Nat) :=
  let ok (ws : List Nat) : Option (List Nat) := some ws
  match name, args with
  | "shr_128", [a0, a1, k] => ok (shr128 ⟨a0, a1⟩ (i32OfWord k)).words
  | "shr_256", [a0, a1, a2, a3, k] => ok (shr256 ⟨a0, a1, a2, a3⟩ (i32OfWord k)).words
  | "shr_128_long", [a0, a1, k] => ok (shr128Long ⟨a0, a1⟩ (i32OfWord k)).words
  | "shl_128_long", [a0, a1, k] => ok (shl128Long ⟨a0, a1⟩ (i32OfWord k)).words
  | "add_128_64", [a0, a1, b] => ok (add128_64 ⟨a0, a1⟩ b).words
  | "sub_128_64", [a0, a1, b] => ok (sub128_64 ⟨a0, a1⟩ b).words
  | "add_128_128", [a0, a1, b0, b1] => ok (add128_128 ⟨a0, a1⟩ ⟨b0, b1⟩).words
  | "sub_128_128", [a0, a1, b0, b1] => ok (sub128_128 ⟨a0, a1⟩ ⟨b0, b1⟩).words
  | "sub_256_128_to_256", [a0, a1, a2, a3, b0, b1] => ok (sub256_128to256 ⟨a0, a1, a2, a3⟩ ⟨b0, b1⟩).words
  | "add_carry_out", [x, y] => ok [(addCarryOut x y).1, (addCarryOut x y).2]
  | "add_carry_in_out", [x, y, ci] => ok [(addCarryInOut x y ci).1, (addCarryInOut x y ci).2]
  | "sub_borrow_out", [x, y] => ok [(subBorrowOut x y).1, (subBorrowOut x y).2]
  | "sub_borrow_in_out", [x, y, ci] => ok [(subBorrowInOut x y ci).1, (subBorrowInOut x y ci).2]
  | "mul_64x64_to_64", [x, y] => ok [mul64x64to64 x y]
  | "mul_64x64_to_128", [x, y] => ok (mul64x64to128 x y).words
  | "mul_64x64_to_128_fast", [x, y] => ok (mul64x64to128Fast x y).words
  | "mul_64x64_to_128_full", [x, y] => ok (mul64x64to128Full x y).words
  | "mul_64x64_to_128MACH", [x, y] => ok (mul64x64to128MACH x y).words
  | "mul_64x64_to_128HIGH", [x, y] => ok [mul64x64to128HIGH x y]
  | "mul_128x128_high", [a0, a1, b0, b1] => ok (mul128x128High ⟨a0, a1⟩ ⟨b0, b1⟩).words
  | "mul_128x128_full", [a0, a1, b0, b1] =>
      ok ((mul128x128Full ⟨a0, a1⟩ ⟨b0, b1⟩).1.words ++ (mul128x128Full ⟨a0, a1⟩ ⟨b0, b1⟩).2.words)   -- Qh then Ql
  | "mul_128x128_low", [a0, a1, b0, b1] => ok (mul128x128Low ⟨a0, a1⟩ ⟨b0, b1⟩).words
  | "mul_64x128_low", [a, b0, b1] => ok (mul64x128Low a ⟨b0, b1⟩).words
  | "mul_64x128_full", [a, b0, b1] =>
      ok ((mul64x128Full a ⟨b0, b1⟩).1 :: (mul64x128Full a ⟨b0, b1⟩).2.words)                          -- Ph then Ql
  | "mul_64x128_to_192", [a, b0, b1] => ok (mul64x128to_192 a ⟨b0, b1⟩).words
  | "mul_64x128_to_256", [a, b0, b1] => ok (mul64x128to256 a ⟨b0, b1⟩).words
  | "mul_64x128_to192", [a, b0, b1] => ok (mul64x128to192 a ⟨b0, b1⟩).words
  | "mul_128x128_to_256", [a0, a1, b0, b1] => ok (mul128x128to256 ⟨a0, a1⟩ ⟨b0, b1⟩).words
  | "mul_64x192_to_256", [a, b0, b1, b2] => ok (mul64x192to256 a ⟨b0, b1, b2⟩).words
  | "mul_64x256_to_256", [a, b0, b1, b2, b3] => ok (mul64x256to256 a ⟨b0, b1, b2, b3⟩).words
  | "mul_128x64_to_128", [a, b0, b1] => ok (mul128x64to128 a ⟨b0, b1⟩).words
  | "mul_64x128_to_128", [a, b0, b1] => ok (mul64x128to128 a ⟨b0, b1⟩).words
  | "mul_64x256_to_320", [a, b0, b1, b2, b3] => ok (mul64x256to320 a ⟨b0, b1, b2, b3⟩).words
  | "mul_192x192_to_384", [a0, a1, a2, b0, b1, b2] => ok (mul192x192to384 ⟨a0, a1, a2⟩ ⟨b0, b1, b2⟩).words
  | "sqr128_to_256", [a0, a1] => ok (sqr128to256 ⟨a0, a1⟩).words
  | "mul_256x256_to_512", [a0, a1, a2, a3, b0, b1, b2, b3] =>
      ok (mul256x256to512 ⟨a0, a1, a2, a3⟩ ⟨b0, b1, b2, b3⟩).words
  | "mul_64x128_short", [a, b0, b1] => ok (mul64x128Short a ⟨b0, b1⟩).words
  | "compare_gt_128", [a0, a1, b0, b1] => ok [b2w (compareGt128 ⟨a0, a1⟩ ⟨b0, b1⟩)]
  | "compare_ge_128", [a0, a1, b0, b1] => ok [b2w (compareGe128 ⟨a0, a1⟩ ⟨b0, b1⟩)]
  | "test_equal_128", [a0, a1, b0, b1] => ok [b2w (testEqual128 ⟨a0, a1⟩ ⟨b0, b1⟩)]
  | _, _ => none

/-- What the code-shaped models predict for `hk_<name>` of the hook `verif_hooks::helper` (name without the `hk_`
prefix), argument words `args`: `some (result words, outgoing status word)`.

`none` exactly when: the name is not one of the 40 of this group, or the number of arguments is not the hook's
`need(n)`, or some argument is not below 2^64.  On every other input the model claims to mirror the code — there is
no excluded sub-domain: shift counts are the hook's `word as i32` with Rust's modulo-64 shift amounts, so `k = 0`,
`k ≥ 64` and negative counts are predicted too (they are outside the domain on which the shift routines compute a
shift; the theorems say what that domain is), and the multiplies that drop a carry by design (`_fast`,
`__mul_128x128_high/_full`, `__mul_64x256_to_256`) are predicted with the carry dropped.

No routine of the group takes a rounding mode (`mode` is ignored; the harness prints `-`) or touches the status
word, so the outgoing status word is `flagsIn`. -/
def hkArith (name : String) (_mode : Mode) (flagsIn : Nat) (args : List Nat) : Option (List Nat × Nat) :=
  if args.all (fun a => decide (a < 18446744073709551616)) then
    (hkArithWords name args).map (fun ws => (ws, flagsIn))
  else none

end Dec
