/-
  DecModel.RoundHelpers — a code-shaped model of the four digit-removal rounding helpers of
  /repo/src/bid_round.rs:

      bid_round64_2_18   (lines  97–197)      hook name `round64`
      bid_round128_19_38 (lines 199–405)      hook name `round128`
      bid_round192_39_57 (lines 407–706)      hook name `round192`
      bid_round256_58_76 (lines 708–1175)     hook name `round256`

  Each takes `q` (number of decimal digits of `C`), `x` (number of digits to remove) and `C`, and returns `C*`
  (`C` rounded to nearest, ties to even, to `q − x` digits), `incr_exp`, and the four rounding indicators
  `is_midpoint_lt_even`, `is_midpoint_gt_even`, `is_inexact_lt_midpoint`, `is_inexact_gt_midpoint`
  (passed by `&mut bool`; "initialized to 0 by the caller", which the verification hook does and the model assumes).

  How the Rust state is represented
  * a `u64` is a `Nat` below `2^64`; a `BID_UINTnnn` is a structure of such words (`w0` least significant).
    The crate is built with overflow checks off, so `+`, `-`, `+=`, `-=` on `u64` wrap: `add64`, `sub64`.
  * `a >> s`, `a << (64 - s)`: `shr64`, `shl64`.  With overflow checks off a shift amount ≥ 64 is masked to six bits
    by rustc; the model does the same, but it never happens: the shift amounts are `BID_EXnnnMnnn[ind]` and
    `64 − BID_EXnnnMnnn[ind]`, and in every branch that shifts, `1 ≤ BID_EXnnnMnnn[ind] ≤ 63`
    (`C02RoundHelpers.shift64_range … shift256_range`).  The one row with shift 0, `BID_EX256M256[57]`, has its own
    branch (`ind == 57`, lines 889–902) which does not shift.
  * the constant tables are read from the generated modules `DecGen/T_*.lean` (`tw t k i j` = word `j` of entry `i`
    of a table of `k`-word entries, `tv t k i` = the entry as a number).  An index past the end of a table (a Rust
    panic) reads 0 here; it cannot happen for `q`, `x` in the range of the routine, `1 ≤ x ≤ q − 1` (the domain of
    `hkRound`): no index depends on `C`, and `C02RoundHelpers.idx64_in_range … idx256_in_range` check every `(q, x)`.
  * the product `P = C · Kx` (`__mul_64x64_to_128MACH`, `__mul_128x128_to_256`, `__mul_192x192_to_384`,
    `__mul_256x256_to_512` of bid_internal.rs) is the exact product of the two numbers, `P.w[k]` being its `k`-th
    64-bit word (`wd P k`).  Those four multi-word multipliers are schoolbook multiplications with explicit carries
    that return all `2n` words; they are modelled and validated on their own by the arithmetic-helper group, and the
    end-to-end validation of this file (model against the compiled routines) covers their use here.
  * the five `&mut bool` results are the fields of `Out`.  A `match ind { val if val <= 18 => …, … }` is an
    `if ind ≤ 18 then … else …` chain.

  Each routine is the composition, in program order, of the blocks the Rust code is made of (the comments give the
  line numbers): add the midpoint (`…AddMid`), multiply by `Kx`, split the product into `C*` and `f*` (`…Split`),
  the inexactness tests (`…Inexact`), the midpoint test (`…Midpoint`), the rounding-overflow test (`…Ovf`).
  In `bid_round256_58_76` the carry idioms that the four branches of the first block repeat verbatim are written once
  (`r256Add0 … r256Add3`).

  A defect the model reproduces: line 945 of `bid_round256_58_76` compares `fstar.w[3]` with
  `BID_TEN2MXTRUNC256[ind].w[2]` (it should be `.w[3]`; the same slip is in Intel's C original).  It only matters
  in the branch `ind ≤ 18` (`x ≤ 19`) — see `DecProofs/Properties/C02RoundHelpers.lean` for what goes wrong there
  and for the proof that nothing goes wrong for `x ≥ 20`.
-/
import DecModel.Basic
import DecGen.T_BID_MIDPOINT64
import DecGen.T_BID_MIDPOINT128
import DecGen.T_BID_MIDPOINT192
import DecGen.T_BID_MIDPOINT256
import DecGen.T_BID_KX64
import DecGen.T_BID_KX128
import DecGen.T_BID_KX192
import DecGen.T_BID_KX256
import DecGen.T_BID_EX64M64
import DecGen.T_BID_EX128M128
import DecGen.T_BID_EX192M192
import DecGen.T_BID_EX256M256
import DecGen.T_BID_MASK64
import DecGen.T_BID_MASK128
import DecGen.T_BID_MASK192
import DecGen.T_BID_MASK256
import DecGen.T_BID_HALF64
import DecGen.T_BID_HALF128
import DecGen.T_BID_HALF192
import DecGen.T_BID_HALF256
import DecGen.T_BID_TEN2MXTRUNC64
import DecGen.T_BID_TEN2MXTRUNC128
import DecGen.T_BID_TEN2MXTRUNC192
import DecGen.T_BID_TEN2MXTRUNC256
import DecGen.T_BID_TEN2K64
import DecGen.T_BID_TEN2K128
import DecGen.T_BID_TEN2K256

namespace Dec
namespace RH

open Dec.Gen

/-! ### u64 arithmetic, words, tables -/

/-- `a + b` on `u64` (wrapping) -/
def add64 (a b : Nat) : Nat := (a + b) % 2 ^ 64

/-- `a - b` on `u64` (wrapping), for `a, b < 2^64` -/
def sub64 (a b : Nat) : Nat := (a + 2 ^ 64 - b) % 2 ^ 64

/-- `a >> s` on `u64` (the amount masked to six bits, as rustc does with overflow checks off) -/
def shr64 (a s : Nat) : Nat := a >>> (s % 64)

/-- `a << s` on `u64` (the amount masked to six bits, the bits shifted out are lost) -/
def shl64 (a s : Nat) : Nat := (a <<< (s % 64)) % 2 ^ 64

/-- word `k` of the number `P`: `P.w[k]` -/
def wd (P k : Nat) : Nat := P / 2 ^ (64 * k) % 2 ^ 64

/-- word `j` of entry `i` of a flattened table whose entries have `k` words: `TABLE[i].w[j]` (`TABLE[i]` for `k = 1`) -/
def tw (t : List Nat) (k i j : Nat) : Nat := t.getD (i * k + j) 0

/-- entry `i` of a flattened table of `k`-word entries, as a number -/
def tv (t : List Nat) (k i : Nat) : Nat :=
  (List.range k).foldr (fun j acc => tw t k i j + 2 ^ 64 * acc) 0

structure U128 where
  w0 : Nat
  w1 : Nat
  deriving DecidableEq, Repr

structure U192 where
  w0 : Nat
  w1 : Nat
  w2 : Nat
  deriving DecidableEq, Repr

structure U256 where
  w0 : Nat
  w1 : Nat
  w2 : Nat
  w3 : Nat
  deriving DecidableEq, Repr

structure U384 where
  w0 : Nat
  w1 : Nat
  w2 : Nat
  w3 : Nat
  w4 : Nat
  w5 : Nat
  deriving DecidableEq, Repr

structure U512 where
  w0 : Nat
  w1 : Nat
  w2 : Nat
  w3 : Nat
  w4 : Nat
  w5 : Nat
  w6 : Nat
  w7 : Nat
  deriving DecidableEq, Repr

def U128.val (a : U128) : Nat := a.w0 + 2 ^ 64 * a.w1
def U192.val (a : U192) : Nat := a.w0 + 2 ^ 64 * a.w1 + 2 ^ 128 * a.w2
def U256.val (a : U256) : Nat := a.w0 + 2 ^ 64 * a.w1 + 2 ^ 128 * a.w2 + 2 ^ 192 * a.w3
def U384.val (a : U384) : Nat :=
  a.w0 + 2 ^ 64 * a.w1 + 2 ^ 128 * a.w2 + 2 ^ 192 * a.w3 + 2 ^ 256 * a.w4 + 2 ^ 320 * a.w5
def U512.val (a : U512) : Nat :=
  a.w0 + 2 ^ 64 * a.w1 + 2 ^ 128 * a.w2 + 2 ^ 192 * a.w3 + 2 ^ 256 * a.w4 + 2 ^ 320 * a.w5 + 2 ^ 384 * a.w6
    + 2 ^ 448 * a.w7

/-- the four rounding indicators (all `false` on entry) -/
structure Ind where
  midLtEven : Bool := false
  midGtEven : Bool := false
  inexLtMid : Bool := false
  inexGtMid : Bool := false
  deriving DecidableEq, Repr

/-- what a routine hands back: `C*`, `*incr_exp`, and the four indicators -/
structure Out (α : Type) where
  cstar : α
  incrExp : Bool
  ind : Ind
  deriving DecidableEq, Repr

/-! ### bid_round64_2_18 (lines 97–197) -/

/-- lines 162–171: "determine inexactness of the rounding of C*" -/
def r64Inexact (ind : Nat) (f1 f0 : Nat) : Ind :=
  if f1 > tw BID_HALF64 1 ind 0 || (f1 == tw BID_HALF64 1 ind 0 && f0 != 0) then
    -- f* > 1/2 and the result may be exact
    let tmp64 := sub64 f1 (tw BID_HALF64 1 ind 0)                         -- 165
    if tmp64 != 0 || f0 > tw BID_TEN2MXTRUNC64 1 ind 0 then               -- 166
      { inexLtMid := true }                                                -- 167
    else {}
  else
    { inexGtMid := true }                                                  -- 170

/-- lines 173–186: "check for midpoints" -/
def r64Midpoint (ind : Nat) (Cstar f1 f0 : Nat) (fl : Ind) : Nat × Ind :=
  if f1 == 0 && f0 ≤ tw BID_TEN2MXTRUNC64 1 ind 0 then                    -- 173
    if Cstar &&& 1 == 1 then                                               -- 175
      (sub64 Cstar 1, { fl with midGtEven := true, inexLtMid := false, inexGtMid := false })   -- 177–180
    else
      (Cstar, { fl with midLtEven := true, inexLtMid := false, inexGtMid := false })           -- 182–184
  else (Cstar, fl)

/-- lines 188–194: "check for rounding overflow, which occurs if Cstar = 10^(q-x)" -/
def r64Ovf (q x : Nat) (Cstar : Nat) : Nat × Bool :=
  let ind := q - x                                                         -- 188
  if Cstar == tw BID_TEN2K64 1 ind 0 then (tw BID_TEN2K64 1 (ind - 1) 0, true)   -- 189–191
  else (Cstar, false)                                                      -- 193

def round64 (q x C : Nat) : Out Nat :=
  let ind := x - 1                                                         -- 132
  let C := add64 C (tw BID_MIDPOINT64 1 ind 0)                             -- 133
  let P := C * tw BID_KX64 1 ind 0                                         -- 137  P128 = __mul_64x64_to_128MACH(C, Kx)
  let shift := tw BID_EX64M64 1 ind 0                                      -- 141
  let Cstar := shr64 (wd P 1) shift                                        -- 142
  let f1 := wd P 1 &&& tw BID_MASK64 1 ind 0                               -- 143
  let f0 := wd P 0                                                         -- 144
  let fl := r64Inexact ind f1 f0
  let (Cstar, fl) := r64Midpoint ind Cstar f1 f0 fl
  let (Cstar, incr) := r64Ovf q x Cstar
  { cstar := Cstar, incrExp := incr, ind := fl }

/-! ### bid_round128_19_38 (lines 199–405) -/

/-- lines 242–259: `C = C + 1/2 * 10^x` -/
def r128AddMid (ind : Nat) (C : U128) : U128 :=
  if ind ≤ 18 then
    let tmp64 := C.w0                                                      -- 245
    let w0 := add64 C.w0 (tw BID_MIDPOINT64 1 ind 0)                       -- 246
    let w1 := if w0 < tmp64 then add64 C.w1 1 else C.w1                    -- 247–249
    ⟨w0, w1⟩
  else
    let tmp64 := C.w0                                                      -- 252
    let w0 := add64 C.w0 (tw BID_MIDPOINT128 2 (ind - 19) 0)               -- 253
    let w1 := if w0 < tmp64 then add64 C.w1 1 else C.w1                    -- 254–256
    let w1 := add64 w1 (tw BID_MIDPOINT128 2 (ind - 19) 1)                 -- 257
    ⟨w0, w1⟩

/-- lines 267–285: `Cstar = P256 >> Ex`, `fstar = low Ex bits of P256` -/
def r128Split (ind : Nat) (P : Nat) : U128 × U256 :=
  let shift := tw BID_EX128M128 1 ind 0                                    -- 267
  if ind ≤ 18 then
    (⟨shr64 (wd P 2) shift ||| shl64 (wd P 3) (64 - shift),                -- 270
      shr64 (wd P 3) shift⟩,                                               -- 271
     ⟨wd P 0, wd P 1, wd P 2 &&& tw BID_MASK128 1 ind 0, 0⟩)               -- 272–275
  else
    (⟨shr64 (wd P 3) shift, 0⟩,                                            -- 278–279
     ⟨wd P 0, wd P 1, wd P 2, wd P 3 &&& tw BID_MASK128 1 ind 0⟩)          -- 280–283

/-- lines 303–342 -/
def r128Inexact (ind : Nat) (f : U256) : Ind :=
  let half := tw BID_HALF128 1 ind 0
  let t0 := tw BID_TEN2MXTRUNC128 2 ind 0
  let t1 := tw BID_TEN2MXTRUNC128 2 ind 1
  if ind ≤ 18 then
    if f.w2 > half || (f.w2 == half && (f.w1 != 0 || f.w0 != 0)) then      -- 305–308
      let tmp64 := sub64 f.w2 half                                         -- 311
      if tmp64 != 0 || f.w1 > t1 || (f.w1 == t1 && f.w0 > t0) then         -- 312–315
        { inexLtMid := true }
      else {}
    else { inexGtMid := true }                                             -- 319
  else
    if f.w3 > half || (f.w3 == half && (f.w2 != 0 || f.w1 != 0 || f.w0 != 0)) then   -- 323–327
      let tmp64 := sub64 f.w3 half                                         -- 330
      if tmp64 != 0 || f.w2 != 0 || f.w1 > t1 || (f.w1 == t1 && f.w0 > t0) then      -- 331–335
        { inexLtMid := true }
      else {}
    else { inexGtMid := true }                                             -- 339

/-- lines 344–363 -/
def r128Midpoint (ind : Nat) (Cstar : U128) (f : U256) (fl : Ind) : U128 × Ind :=
  let t0 := tw BID_TEN2MXTRUNC128 2 ind 0
  let t1 := tw BID_TEN2MXTRUNC128 2 ind 1
  if f.w3 == 0 && f.w2 == 0 && (f.w1 < t1 || (f.w1 == t1 && f.w0 ≤ t0)) then        -- 344–347
    if Cstar.w0 &&& 1 == 1 then                                            -- 349
      let w0 := sub64 Cstar.w0 1                                           -- 351
      let w1 := if w0 == 0xffffffffffffffff then sub64 Cstar.w1 1 else Cstar.w1      -- 352–354
      (⟨w0, w1⟩, { fl with midGtEven := true, inexLtMid := false, inexGtMid := false })
    else
      (Cstar, { fl with midLtEven := true, inexLtMid := false, inexGtMid := false })
  else (Cstar, fl)

/-- lines 365–398 -/
def r128Ovf (q x : Nat) (Cstar : U128) : U128 × Bool :=
  let ind := q - x                                                         -- 365
  if ind ≤ 19 then
    if Cstar.w1 == 0 && Cstar.w0 == tw BID_TEN2K64 1 ind 0 then            -- 368
      (⟨tw BID_TEN2K64 1 (ind - 1) 0, Cstar.w1⟩, true)                     -- 370–371
    else (Cstar, false)
  else if ind == 20 then
    if Cstar.w1 == tw BID_TEN2K128 2 0 1 && Cstar.w0 == tw BID_TEN2K128 2 0 0 then   -- 378
      (⟨tw BID_TEN2K64 1 19 0, 0⟩, true)                                   -- 380–382
    else (Cstar, false)
  else
    if Cstar.w1 == tw BID_TEN2K128 2 (ind - 20) 1 && Cstar.w0 == tw BID_TEN2K128 2 (ind - 20) 0 then   -- 388–389
      (⟨tw BID_TEN2K128 2 (ind - 21) 0, tw BID_TEN2K128 2 (ind - 21) 1⟩, true)       -- 391–393
    else (Cstar, false)

def round128 (q x : Nat) (C : U128) : Out U128 :=
  let ind := x - 1                                                         -- 242
  let C := r128AddMid ind C
  let P := C.val * tv BID_KX128 2 ind                                      -- 263  P256 = __mul_128x128_to_256(&C, &Kx)
  let (Cstar, fstar) := r128Split ind P
  let fl := r128Inexact ind fstar
  let (Cstar, fl) := r128Midpoint ind Cstar fstar fl
  let (Cstar, incr) := r128Ovf q x Cstar
  { cstar := Cstar, incrExp := incr, ind := fl }

/-! ### bid_round192_39_57 (lines 407–706) -/

/-- lines 446–489 -/
def r192AddMid (ind : Nat) (C : U192) : U192 :=
  if ind ≤ 18 then
    let tmp64 := C.w0                                                      -- 449
    let w0 := add64 C.w0 (tw BID_MIDPOINT64 1 ind 0)                       -- 450
    let w1 := if w0 < tmp64 then add64 C.w1 1 else C.w1                    -- 451–452
    let w2 := if w0 < tmp64 then (if w1 == 0 then add64 C.w2 1 else C.w2) else C.w2   -- 453–455
    ⟨w0, w1, w2⟩
  else if ind ≤ 37 then
    let tmp64 := C.w0                                                      -- 459
    let w0 := add64 C.w0 (tw BID_MIDPOINT128 2 (ind - 19) 0)               -- 460
    let w1 := if w0 < tmp64 then add64 C.w1 1 else C.w1                    -- 461–462
    let w2 := if w0 < tmp64 then (if w1 == 0 then add64 C.w2 1 else C.w2) else C.w2   -- 463–465
    let tmp64 := w1                                                        -- 467
    let w1 := add64 w1 (tw BID_MIDPOINT128 2 (ind - 19) 1)                 -- 468
    let w2 := if w1 < tmp64 then add64 w2 1 else w2                        -- 469–471
    ⟨w0, w1, w2⟩
  else
    let tmp64 := C.w0                                                      -- 474
    let w0 := add64 C.w0 (tw BID_MIDPOINT192 3 (ind - 38) 0)               -- 475
    let w1 := if w0 < tmp64 then add64 C.w1 1 else C.w1                    -- 476–477
    let w2 := if w0 < tmp64 then (if w1 == 0 then add64 C.w2 1 else C.w2) else C.w2   -- 478–480
    let tmp64 := w1                                                        -- 482
    let w1 := add64 w1 (tw BID_MIDPOINT192 3 (ind - 38) 1)                 -- 483
    let w2 := if w1 < tmp64 then add64 w2 1 else w2                        -- 484–486
    let w2 := add64 w2 (tw BID_MIDPOINT192 3 (ind - 38) 2)                 -- 487
    ⟨w0, w1, w2⟩

/-- lines 497–532 -/
def r192Split (ind : Nat) (P : Nat) : U192 × U384 :=
  let shift := tw BID_EX192M192 1 ind 0                                    -- 497
  if ind ≤ 18 then
    (⟨shl64 (wd P 4) (64 - shift) ||| shr64 (wd P 3) shift,                -- 502
      shl64 (wd P 5) (64 - shift) ||| shr64 (wd P 4) shift,                -- 501
      shr64 (wd P 5) shift⟩,                                               -- 500
     ⟨wd P 0, wd P 1, wd P 2, wd P 3 &&& tw BID_MASK192 1 ind 0, 0, 0⟩)    -- 503–508
  else if ind ≤ 37 then
    (⟨shl64 (wd P 5) (64 - shift) ||| shr64 (wd P 4) shift,                -- 513
      shr64 (wd P 5) shift,                                                -- 512
      0⟩,                                                                  -- 511
     ⟨wd P 0, wd P 1, wd P 2, wd P 3, wd P 4 &&& tw BID_MASK192 1 ind 0, 0⟩)   -- 514–519
  else
    (⟨shr64 (wd P 5) shift, 0, 0⟩,                                         -- 522–524
     ⟨wd P 0, wd P 1, wd P 2, wd P 3, wd P 4, wd P 5 &&& tw BID_MASK192 1 ind 0⟩)   -- 525–530

/-- the comparison `f* − 1/2 > T*` on the three low words, as written at lines 562–567, 582–587, 604–609 -/
def gtT192 (f : U384) (ind : Nat) : Bool :=
  let t0 := tw BID_TEN2MXTRUNC192 3 ind 0
  let t1 := tw BID_TEN2MXTRUNC192 3 ind 1
  let t2 := tw BID_TEN2MXTRUNC192 3 ind 2
  f.w2 > t2 || (f.w2 == t2 && f.w1 > t1) || (f.w2 == t2 && f.w1 == t1 && f.w0 > t0)

/-- lines 551–616 -/
def r192Inexact (ind : Nat) (f : U384) : Ind :=
  let half := tw BID_HALF192 1 ind 0
  if ind ≤ 18 then
    if f.w3 > half || (f.w3 == half && (f.w2 != 0 || f.w1 != 0 || f.w0 != 0)) then   -- 553–557
      let tmp64 := sub64 f.w3 half                                         -- 560
      if tmp64 != 0 || gtT192 f ind then { inexLtMid := true } else {}     -- 561–568
    else { inexGtMid := true }                                             -- 571
  else if ind ≤ 37 then
    if f.w4 > half || (f.w4 == half && (f.w3 != 0 || f.w2 != 0 || f.w1 != 0 || f.w0 != 0)) then   -- 575–576
      let tmp64 := sub64 f.w4 half                                         -- 579
      if tmp64 != 0 || f.w3 != 0 || gtT192 f ind then { inexLtMid := true } else {}   -- 580–588
    else { inexGtMid := true }                                             -- 591
  else
    if f.w5 > half
        || (f.w5 == half && (f.w4 != 0 || f.w3 != 0 || f.w2 != 0 || f.w1 != 0 || f.w0 != 0)) then   -- 595–597
      let tmp64 := sub64 f.w5 half                                         -- 600
      if tmp64 != 0 || f.w4 != 0 || f.w3 != 0 || gtT192 f ind then { inexLtMid := true } else {}    -- 601–610
    else { inexGtMid := true }                                             -- 613

/-- lines 618–645 -/
def r192Midpoint (ind : Nat) (Cstar : U192) (f : U384) (fl : Ind) : U192 × Ind :=
  let t0 := tw BID_TEN2MXTRUNC192 3 ind 0
  let t1 := tw BID_TEN2MXTRUNC192 3 ind 1
  let t2 := tw BID_TEN2MXTRUNC192 3 ind 2
  if f.w5 == 0 && f.w4 == 0 && f.w3 == 0
      && (f.w2 < t2 || (f.w2 == t2 && f.w1 < t1) || (f.w2 == t2 && f.w1 == t1 && f.w0 ≤ t0)) then   -- 618–626
    if Cstar.w0 &&& 1 == 1 then                                            -- 628
      let w0 := sub64 Cstar.w0 1                                           -- 630
      let w1 := if w0 == 0xffffffffffffffff then sub64 Cstar.w1 1 else Cstar.w1      -- 631–632
      let w2 := if w0 == 0xffffffffffffffff then
                  (if w1 == 0xffffffffffffffff then sub64 Cstar.w2 1 else Cstar.w2) else Cstar.w2   -- 633–635
      (⟨w0, w1, w2⟩, { fl with midGtEven := true, inexLtMid := false, inexGtMid := false })
    else
      (Cstar, { fl with midLtEven := true, inexLtMid := false, inexGtMid := false })
  else (Cstar, fl)

/-- lines 647–703 -/
def r192Ovf (q x : Nat) (Cstar : U192) : U192 × Bool :=
  let ind := q - x                                                         -- 647
  if ind ≤ 19 then
    if Cstar.w2 == 0 && Cstar.w1 == 0 && Cstar.w0 == tw BID_TEN2K64 1 ind 0 then     -- 650
      (⟨tw BID_TEN2K64 1 (ind - 1) 0, Cstar.w1, Cstar.w2⟩, true)           -- 652–653
    else (Cstar, false)
  else if ind == 20 then
    if Cstar.w2 == 0 && Cstar.w1 == tw BID_TEN2K128 2 0 1 && Cstar.w0 == tw BID_TEN2K128 2 0 0 then   -- 660
      (⟨tw BID_TEN2K64 1 19 0, 0, Cstar.w2⟩, true)                         -- 662–664
    else (Cstar, false)
  else if ind ≤ 38 then
    if Cstar.w2 == 0 && Cstar.w1 == tw BID_TEN2K128 2 (ind - 20) 1
        && Cstar.w0 == tw BID_TEN2K128 2 (ind - 20) 0 then                 -- 670
      (⟨tw BID_TEN2K128 2 (ind - 21) 0, tw BID_TEN2K128 2 (ind - 21) 1, Cstar.w2⟩, true)   -- 672–674
    else (Cstar, false)
  else if ind == 39 then
    if Cstar.w2 == tw BID_TEN2K256 4 0 2 && Cstar.w1 == tw BID_TEN2K256 4 0 1
        && Cstar.w0 == tw BID_TEN2K256 4 0 0 then                          -- 680
      (⟨tw BID_TEN2K128 2 18 0, tw BID_TEN2K128 2 18 1, 0⟩, true)          -- 682–685
    else (Cstar, false)
  else
    if Cstar.w2 == tw BID_TEN2K256 4 (ind - 39) 2 && Cstar.w1 == tw BID_TEN2K256 4 (ind - 39) 1
        && Cstar.w0 == tw BID_TEN2K256 4 (ind - 39) 0 then                 -- 691–693
      (⟨tw BID_TEN2K256 4 (ind - 40) 0, tw BID_TEN2K256 4 (ind - 40) 1, tw BID_TEN2K256 4 (ind - 40) 2⟩, true)   -- 695–698
    else (Cstar, false)

def round192 (q x : Nat) (C : U192) : Out U192 :=
  let ind := x - 1                                                         -- 446
  let C := r192AddMid ind C
  let P := C.val * tv BID_KX192 3 ind                                      -- 493  P384 = __mul_192x192_to_384(&C, &Kx)
  let (Cstar, fstar) := r192Split ind P
  let fl := r192Inexact ind fstar
  let (Cstar, fl) := r192Midpoint ind Cstar fstar fl
  let (Cstar, incr) := r192Ovf q x Cstar
  { cstar := Cstar, incrExp := incr, ind := fl }

/-! ### bid_round256_58_76 (lines 708–1175) -/

/-- the carry idiom of lines 751–761 (again at 764–774, 785–795, 811–821): `tmp64 = C.w[0]; C.w[0] += m;`
`if C.w[0] < tmp64 { C.w[1] += 1; if C.w[1] == 0 { C.w[2] += 1; if C.w[2] == 0 { C.w[3] += 1; } } }` -/
def r256Add0 (C : U256) (m : Nat) : U256 :=
  let tmp64 := C.w0
  let w0 := add64 C.w0 m
  let w1 := if w0 < tmp64 then add64 C.w1 1 else C.w1
  let w2 := if w0 < tmp64 then (if w1 == 0 then add64 C.w2 1 else C.w2) else C.w2
  let w3 := if w0 < tmp64 then (if w1 == 0 then (if w2 == 0 then add64 C.w3 1 else C.w3) else C.w3) else C.w3
  ⟨w0, w1, w2, w3⟩

/-- lines 775–782 (again at 796–803, 822–829): `tmp64 = C.w[1]; C.w[1] += m;`
`if C.w[1] < tmp64 { C.w[2] += 1; if C.w[2] == 0 { C.w[3] += 1; } }` -/
def r256Add1 (C : U256) (m : Nat) : U256 :=
  let tmp64 := C.w1
  let w1 := add64 C.w1 m
  let w2 := if w1 < tmp64 then add64 C.w2 1 else C.w2
  let w3 := if w1 < tmp64 then (if w2 == 0 then add64 C.w3 1 else C.w3) else C.w3
  ⟨C.w0, w1, w2, w3⟩

/-- lines 804–808 (again at 830–834): `tmp64 = C.w[2]; C.w[2] += m; if C.w[2] < tmp64 { C.w[3] += 1; }` -/
def r256Add2 (C : U256) (m : Nat) : U256 :=
  let tmp64 := C.w2
  let w2 := add64 C.w2 m
  let w3 := if w2 < tmp64 then add64 C.w3 1 else C.w3
  ⟨C.w0, C.w1, w2, w3⟩

/-- line 835: `C.w[3] += m` -/
def r256Add3 (C : U256) (m : Nat) : U256 := ⟨C.w0, C.w1, C.w2, add64 C.w3 m⟩

/-- lines 748–837: `C = C + 1/2 * 10^x` -/
def r256AddMid (ind : Nat) (C : U256) : U256 :=
  if ind ≤ 18 then
    r256Add0 C (tw BID_MIDPOINT64 1 ind 0)                                 -- 751–761
  else if ind ≤ 37 then
    let C := r256Add0 C (tw BID_MIDPOINT128 2 (ind - 19) 0)                -- 764–774
    r256Add1 C (tw BID_MIDPOINT128 2 (ind - 19) 1)                         -- 775–782
  else if ind ≤ 57 then
    let C := r256Add0 C (tw BID_MIDPOINT192 3 (ind - 38) 0)                -- 785–795
    let C := r256Add1 C (tw BID_MIDPOINT192 3 (ind - 38) 1)                -- 796–803
    r256Add2 C (tw BID_MIDPOINT192 3 (ind - 38) 2)                         -- 804–808
  else
    let C := r256Add0 C (tw BID_MIDPOINT256 4 (ind - 58) 0)                -- 811–821
    let C := r256Add1 C (tw BID_MIDPOINT256 4 (ind - 58) 1)                -- 822–829
    let C := r256Add2 C (tw BID_MIDPOINT256 4 (ind - 58) 2)                -- 830–834
    r256Add3 C (tw BID_MIDPOINT256 4 (ind - 58) 3)                         -- 835

/-- lines 845–917 -/
def r256Split (ind : Nat) (P : Nat) : U256 × U512 :=
  let shift := tw BID_EX256M256 1 ind 0                                    -- 845
  if ind ≤ 18 then
    (⟨shl64 (wd P 5) (64 - shift) ||| shr64 (wd P 4) shift,                -- 851
      shl64 (wd P 6) (64 - shift) ||| shr64 (wd P 5) shift,                -- 850
      shl64 (wd P 7) (64 - shift) ||| shr64 (wd P 6) shift,                -- 849
      shr64 (wd P 7) shift⟩,                                               -- 848
     ⟨wd P 0, wd P 1, wd P 2, wd P 3, wd P 4 &&& tw BID_MASK256 1 ind 0, 0, 0, 0⟩)   -- 852–859
  else if ind ≤ 37 then
    (⟨shl64 (wd P 6) (64 - shift) ||| shr64 (wd P 5) shift,                -- 865
      shl64 (wd P 7) (64 - shift) ||| shr64 (wd P 6) shift,                -- 864
      shr64 (wd P 7) shift,                                                -- 863
      0⟩,                                                                  -- 862
     ⟨wd P 0, wd P 1, wd P 2, wd P 3, wd P 4, wd P 5 &&& tw BID_MASK256 1 ind 0, 0, 0⟩)   -- 866–873
  else if ind ≤ 56 then
    (⟨shl64 (wd P 7) (64 - shift) ||| shr64 (wd P 6) shift,                -- 879
      shr64 (wd P 7) shift,                                                -- 878
      0, 0⟩,                                                               -- 876–877
     ⟨wd P 0, wd P 1, wd P 2, wd P 3, wd P 4, wd P 5, wd P 6 &&& tw BID_MASK256 1 ind 0, 0⟩)   -- 880–887
  else if ind == 57 then
    (⟨wd P 7, 0, 0, 0⟩,                                                    -- 890–893
     ⟨wd P 0, wd P 1, wd P 2, wd P 3, wd P 4, wd P 5, wd P 6, 0⟩)          -- 894–901
  else
    (⟨shr64 (wd P 7) shift, 0, 0, 0⟩,                                      -- 904–907
     ⟨wd P 0, wd P 1, wd P 2, wd P 3, wd P 4, wd P 5, wd P 6, wd P 7 &&& tw BID_MASK256 1 ind 0⟩)   -- 908–915

/-- the comparison `f* − 1/2 > T*` on the four low words as written at lines 970–979, 1001–1010, 1034–1043 -/
def gtT256 (f : U512) (ind : Nat) : Bool :=
  let t0 := tw BID_TEN2MXTRUNC256 4 ind 0
  let t1 := tw BID_TEN2MXTRUNC256 4 ind 1
  let t2 := tw BID_TEN2MXTRUNC256 4 ind 2
  let t3 := tw BID_TEN2MXTRUNC256 4 ind 3
  f.w3 > t3 || (f.w3 == t3 && f.w2 > t2) || (f.w3 == t3 && f.w2 == t2 && f.w1 > t1)
    || (f.w3 == t3 && f.w2 == t2 && f.w1 == t1 && f.w0 > t0)

/-- the same comparison as written at lines 945–954 (branch `ind ≤ 18`): the first disjunct reads
`fstar.w[3] > BID_TEN2MXTRUNC256[ind].w[2]` — word 2 where word 3 is meant -/
def gtT256Line945 (f : U512) (ind : Nat) : Bool :=
  let t0 := tw BID_TEN2MXTRUNC256 4 ind 0
  let t1 := tw BID_TEN2MXTRUNC256 4 ind 1
  let t2 := tw BID_TEN2MXTRUNC256 4 ind 2
  let t3 := tw BID_TEN2MXTRUNC256 4 ind 3
  f.w3 > t2 || (f.w3 == t3 && f.w2 > t2) || (f.w3 == t3 && f.w2 == t2 && f.w1 > t1)
    || (f.w3 == t3 && f.w2 == t2 && f.w1 == t1 && f.w0 > t0)

/-- lines 936–1050 -/
def r256Inexact (ind : Nat) (f : U512) : Ind :=
  let half := tw BID_HALF256 1 ind 0
  if ind ≤ 18 then
    if f.w4 > half || (f.w4 == half && (f.w3 != 0 || f.w2 != 0 || f.w1 != 0 || f.w0 != 0)) then   -- 938–940
      let tmp64 := sub64 f.w4 half                                         -- 943
      if tmp64 != 0 || gtT256Line945 f ind then { inexLtMid := true } else {}        -- 944–956
    else { inexGtMid := true }                                             -- 958
  else if ind ≤ 37 then
    if f.w5 > half
        || (f.w5 == half && (f.w4 != 0 || f.w3 != 0 || f.w2 != 0 || f.w1 != 0 || f.w0 != 0)) then   -- 962–964
      let tmp64 := sub64 f.w5 half                                         -- 967
      if tmp64 != 0 || f.w4 != 0 || gtT256 f ind then { inexLtMid := true } else {}  -- 968–981
    else { inexGtMid := true }                                             -- 983
  else if ind ≤ 57 then
    if f.w6 > half
        || (f.w6 == half && (f.w5 != 0 || f.w4 != 0 || f.w3 != 0 || f.w2 != 0 || f.w1 != 0 || f.w0 != 0)) then   -- 987–994
      let tmp64 := sub64 f.w6 half                                         -- 997
      if tmp64 != 0 || f.w5 != 0 || f.w4 != 0 || gtT256 f ind then { inexLtMid := true } else {}   -- 998–1012
    else { inexGtMid := true }                                             -- 1014
  else
    if f.w7 > half
        || (f.w7 == half && (f.w6 != 0 || f.w5 != 0 || f.w4 != 0 || f.w3 != 0 || f.w2 != 0 || f.w1 != 0
              || f.w0 != 0)) then                                          -- 1018–1026
      let tmp64 := sub64 f.w7 half                                         -- 1029
      if tmp64 != 0 || f.w6 != 0 || f.w5 != 0 || f.w4 != 0 || gtT256 f ind then { inexLtMid := true } else {}   -- 1030–1045
    else { inexGtMid := true }                                             -- 1047

/-- lines 1052–1085 -/
def r256Midpoint (ind : Nat) (Cstar : U256) (f : U512) (fl : Ind) : U256 × Ind :=
  let t0 := tw BID_TEN2MXTRUNC256 4 ind 0
  let t1 := tw BID_TEN2MXTRUNC256 4 ind 1
  let t2 := tw BID_TEN2MXTRUNC256 4 ind 2
  let t3 := tw BID_TEN2MXTRUNC256 4 ind 3
  if f.w7 == 0 && f.w6 == 0 && f.w5 == 0 && f.w4 == 0
      && (f.w3 < t3 || (f.w3 == t3 && f.w2 < t2) || (f.w3 == t3 && f.w2 == t2 && f.w1 < t1)
          || (f.w3 == t3 && f.w2 == t2 && f.w1 == t1 && f.w0 ≤ t0)) then   -- 1052–1063
    if Cstar.w0 &&& 1 == 1 then                                            -- 1065
      let w0 := sub64 Cstar.w0 1                                           -- 1067
      let w1 := if w0 == 0xffffffffffffffff then sub64 Cstar.w1 1 else Cstar.w1      -- 1068–1069
      let w2 := if w0 == 0xffffffffffffffff then
                  (if w1 == 0xffffffffffffffff then sub64 Cstar.w2 1 else Cstar.w2) else Cstar.w2   -- 1070–1071
      let w3 := if w0 == 0xffffffffffffffff then
                  (if w1 == 0xffffffffffffffff then
                    (if w2 == 0xffffffffffffffff then sub64 Cstar.w3 1 else Cstar.w3) else Cstar.w3)
                else Cstar.w3                                              -- 1072–1074
      (⟨w0, w1, w2, w3⟩, { fl with midGtEven := true, inexLtMid := false, inexGtMid := false })
    else
      (Cstar, { fl with midLtEven := true, inexLtMid := false, inexGtMid := false })
  else (Cstar, fl)

/-- lines 1087–1172 -/
def r256Ovf (q x : Nat) (Cstar : U256) : U256 × Bool :=
  let ind := q - x                                                         -- 1087
  if ind ≤ 19 then
    if Cstar.w3 == 0 && Cstar.w2 == 0 && Cstar.w1 == 0 && Cstar.w0 == tw BID_TEN2K64 1 ind 0 then   -- 1090–1093
      (⟨tw BID_TEN2K64 1 (ind - 1) 0, Cstar.w1, Cstar.w2, Cstar.w3⟩, true) -- 1095–1096
    else (Cstar, false)
  else if ind == 20 then
    if Cstar.w3 == 0 && Cstar.w2 == 0 && Cstar.w1 == tw BID_TEN2K128 2 0 1
        && Cstar.w0 == tw BID_TEN2K128 2 0 0 then                          -- 1103–1106
      (⟨tw BID_TEN2K64 1 19 0, 0, Cstar.w2, Cstar.w3⟩, true)               -- 1108–1110
    else (Cstar, false)
  else if ind ≤ 38 then
    if Cstar.w3 == 0 && Cstar.w2 == 0 && Cstar.w1 == tw BID_TEN2K128 2 (ind - 20) 1
        && Cstar.w0 == tw BID_TEN2K128 2 (ind - 20) 0 then                 -- 1116–1119
      (⟨tw BID_TEN2K128 2 (ind - 21) 0, tw BID_TEN2K128 2 (ind - 21) 1, Cstar.w2, Cstar.w3⟩, true)   -- 1121–1123
    else (Cstar, false)
  else if ind == 39 then
    if Cstar.w3 == 0 && Cstar.w2 == tw BID_TEN2K256 4 0 2 && Cstar.w1 == tw BID_TEN2K256 4 0 1
        && Cstar.w0 == tw BID_TEN2K256 4 0 0 then                          -- 1129–1132
      (⟨tw BID_TEN2K128 2 18 0, tw BID_TEN2K128 2 18 1, 0, Cstar.w3⟩, true)          -- 1134–1137
    else (Cstar, false)
  else if ind ≤ 57 then
    if Cstar.w3 == 0 && Cstar.w2 == tw BID_TEN2K256 4 (ind - 39) 2
        && Cstar.w1 == tw BID_TEN2K256 4 (ind - 39) 1 && Cstar.w0 == tw BID_TEN2K256 4 (ind - 39) 0 then   -- 1143–1146
      (⟨tw BID_TEN2K256 4 (ind - 40) 0, tw BID_TEN2K256 4 (ind - 40) 1, tw BID_TEN2K256 4 (ind - 40) 2,
        Cstar.w3⟩, true)                                                   -- 1148–1151
    else (Cstar, false)
  else
    if Cstar.w3 == tw BID_TEN2K256 4 (ind - 39) 3 && Cstar.w2 == tw BID_TEN2K256 4 (ind - 39) 2
        && Cstar.w1 == tw BID_TEN2K256 4 (ind - 39) 1 && Cstar.w0 == tw BID_TEN2K256 4 (ind - 39) 0 then   -- 1158–1161
      (⟨tw BID_TEN2K256 4 (ind - 40) 0, tw BID_TEN2K256 4 (ind - 40) 1, tw BID_TEN2K256 4 (ind - 40) 2,
        tw BID_TEN2K256 4 (ind - 40) 3⟩, true)                             -- 1163–1167
    else (Cstar, false)

def round256 (q x : Nat) (C : U256) : Out U256 :=
  let ind := x - 1                                                         -- 748
  let C := r256AddMid ind C
  let P := C.val * tv BID_KX256 4 ind                                      -- 841  P512 = __mul_256x256_to_512(&C, &Kx)
  let (Cstar, fstar) := r256Split ind P
  let fl := r256Inexact ind fstar
  let (Cstar, fl) := r256Midpoint ind Cstar fstar fl
  let (Cstar, incr) := r256Ovf q x Cstar
  { cstar := Cstar, incrExp := incr, ind := fl }

/-! ### The interface used by the judge -/

def b2n (b : Bool) : Nat := if b then 1 else 0

/-- the result layout of the hook: `incr_exp`, `is_midpoint_lt_even`, `is_midpoint_gt_even`, `is_inexact_lt_midpoint`,
`is_inexact_gt_midpoint` after the words of `C*` -/
def outWords {α : Type} (o : Out α) (ws : α → List Nat) : List Nat :=
  ws o.cstar ++ [b2n o.incrExp, b2n o.ind.midLtEven, b2n o.ind.midGtEven, b2n o.ind.inexLtMid, b2n o.ind.inexGtMid]

/-- `q` in the range of the routine, `1 ≤ x ≤ q − 1`, every word of `C` a `u64` -/
def inDomain (qlo qhi q x : Nat) (c : List Nat) : Bool :=
  decide (qlo ≤ q) && decide (q ≤ qhi) && decide (1 ≤ x) && decide (x + 1 ≤ q) && c.all (fun w => decide (w < 2 ^ 64))

end RH

open RH in
/--
What the code-shaped model predicts for the hook call `hk_<name> <mode> <flagsIn> G<arg> …`: the result words and the
outgoing status word.

Domain (elsewhere `none`): `name` one of `round64`, `round128`, `round192`, `round256`; arguments `q, x` followed by
the 1/2/3/4 words of `C` (least significant first); `q` in the range of the routine (2–18, 19–38, 39–57, 58–76),
`1 ≤ x ≤ q − 1`, every word below `2^64`.  `C` itself is NOT restricted (the model mirrors the code, wrapping
included, on every `C`; the specification theorems need `C < 10^q`).  The routines neither read the rounding mode nor
touch the status flags: the mode argument is ignored and `flagsIn` is returned unchanged.
-/
def hkRound (name : String) (_mode : Mode) (flagsIn : Nat) (args : List Nat) : Option (List Nat × Nat) :=
  match name, args with
  | "round64", [q, x, c0] =>
    if inDomain 2 18 q x [c0] then
      some (outWords (round64 q x c0) (fun c => [c]), flagsIn) else none
  | "round128", [q, x, c0, c1] =>
    if inDomain 19 38 q x [c0, c1] then
      some (outWords (round128 q x ⟨c0, c1⟩) (fun c => [c.w0, c.w1]), flagsIn) else none
  | "round192", [q, x, c0, c1, c2] =>
    if inDomain 39 57 q x [c0, c1, c2] then
      some (outWords (round192 q x ⟨c0, c1, c2⟩) (fun c => [c.w0, c.w1, c.w2]), flagsIn) else none
  | "round256", [q, x, c0, c1, c2, c3] =>
    if inDomain 58 76 q x [c0, c1, c2, c3] then
      some (outWords (round256 q x ⟨c0, c1, c2, c3⟩) (fun c => [c.w0, c.w1, c.w2, c.w3]), flagsIn) else none
  | _, _ => none

end Dec
