/-
  DecModel.HkGen — runs the *translated* helper routines (`DecGen/Code.lean`, regenerated from /repo/src on every
  run) on the argument words of an `hk_<name>` observation, marshalled exactly as the cfg hook
  `verif_hooks::helper` of /repo marshals them for the compiled routines.  The judge compares the two word for
  word: that is the check of the translator (and of this file's marshalling) against the code.
-/
import DecModel.Basic
import DecGen.Code
import DecGen.Code3

namespace Dec
namespace HkGen
open Dec.Rs Dec.Gen.Code Dec.Gen.Code3

def w (n : Nat) : UInt64 := UInt64.ofNat n
def i32 (n : Nat) : Int32 := Int32.ofInt (UInt64.ofNat n).toInt64.toInt      -- `a[k] as i32`
def u128 (a b : Nat) : U128 := ⟨w a, w b⟩
def b2n (b : Bool) : Nat := if b then 1 else 0
def i32w (e : Int32) : Nat := (UInt64.ofInt e.toInt).toNat                      -- `e as i64 as u64`

def rmode : Mode → RoundingMode
  | .rne => .NearestEven | .rdn => .Downward | .rup => .Upward | .rtz => .TowardZero | .rna => .NearestAway

def o128 (r : U128) : List Nat := [r.w0.toNat, r.w1.toNat]
def o192 (r : U192) : List Nat := [r.w0.toNat, r.w1.toNat, r.w2.toNat]
def o256 (r : U256) : List Nat := [r.w0.toNat, r.w1.toNat, r.w2.toNat, r.w3.toNat]
def o384 (r : U384) : List Nat := [r.w0.toNat, r.w1.toNat, r.w2.toNat, r.w3.toNat, r.w4.toNat, r.w5.toNat]
def o512 (r : U512) : List Nat :=
  [r.w0.toNat, r.w1.toNat, r.w2.toNat, r.w3.toNat, r.w4.toNat, r.w5.toNat, r.w6.toNat, r.w7.toNat]

/-- outcome of a translated routine: result words and outgoing status word, or a panic -/
inductive Res
  | ok (words : List Nat) (flags : Nat)
  | panic (why : String)
  | unknown

def lift {α} (fl : Nat) (r : Except String α) (f : α → List Nat) : Res :=
  match r with
  | .ok v => .ok (f v) fl
  | .error e => .panic e

def liftF {α} (r : Except String (α × UInt32)) (f : α → List Nat) : Res :=
  match r with
  | .ok (v, fl) => .ok (f v) fl.toNat
  | .error e => .panic e

def round5 {α} (f : α → List Nat) : α × Bool × Bool × Bool × Bool × Bool → List Nat
  | (c, i, a, b, c', d) => f c ++ [b2n i, b2n a, b2n b, b2n c', b2n d]

/-- the translated routine `name` on the hook's argument words -/
def run (name : String) (mode : Mode) (flagsIn : Nat) (a : List Nat) : Res :=
  let fl := flagsIn
  let f32 : UInt32 := UInt32.ofNat flagsIn
  match name, a with
  | "round64", [q, x, c0] =>
    lift fl (bid_round64_2_18 (i32 q) (i32 x) (w c0) false false false false false) (round5 fun c => [c.toNat])
  | "round128", [q, x, c0, c1] =>
    lift fl (bid_round128_19_38 (i32 q) (i32 x) (u128 c0 c1) false false false false false) (round5 o128)
  | "round192", [q, x, c0, c1, c2] =>
    lift fl (bid_round192_39_57 (i32 q) (i32 x) ⟨w c0, w c1, w c2⟩ false false false false false) (round5 o192)
  | "round256", [q, x, c0, c1, c2, c3] =>
    lift fl (bid_round256_58_76 (i32 q) (i32 x) ⟨w c0, w c1, w c2, w c3⟩ false false false false false) (round5 o256)
  | "unpack_value", [a0, a1] =>
    lift fl (unpack_BID128_value 0 0 default (u128 a0 a1)) fun (r, s, e, c) => [r.toNat, s.toNat, i32w e, c.w0.toNat, c.w1.toNat]
  | "unpack", [a0, a1] =>
    lift fl (unpack_BID128 0 0 default (u128 a0 a1)) fun (r, s, e, c) => [r.toNat, s.toNat, i32w e, c.w0.toNat, c.w1.toNat]
  | "get_very_fast", [s, e, c0, c1] => lift fl (bid_get_BID128_very_fast (w s) (i32 e) (u128 c0 c1)) o128
  | "get_fast", [s, e, c0, c1] =>
    lift fl (bid_get_BID128_fast (w s) (i32 e) (u128 c0 c1)) fun (r, e', c) => o128 r ++ [i32w e'] ++ o128 c
  | "get", [s, e, c0, c1] => liftF (bid_get_BID128 (w s) (i32 e) (u128 c0 c1) (rmode mode) f32) o128
  | "handle_uf", [s, e, c0, c1] => liftF (handle_UF_128 (w s) (i32 e) (u128 c0 c1) (rmode mode) f32) o128
  | "handle_uf_rem", [s, e, c0, c1, r] =>
    liftF (bid_handle_UF_128_rem (w s) (i32 e) (u128 c0 c1) (w r) (rmode mode) f32) o128
  | "shr_128", [a0, a1, k] => lift fl (shr_128 (u128 a0 a1) (i32 k)) o128
  | "shr_256", [a0, a1, a2, a3, k] => lift fl (shr_256 ⟨w a0, w a1, w a2, w a3⟩ (i32 k)) o256
  | "shr_128_long", [a0, a1, k] => lift fl (shr_128_long (u128 a0 a1) (i32 k)) o128
  | "shl_128_long", [a0, a1, k] => lift fl (shl_128_long (u128 a0 a1) (i32 k)) o128
  | "add_128_64", [a0, a1, b] => lift fl (add_128_64 (u128 a0 a1) (w b)) o128
  | "sub_128_64", [a0, a1, b] => lift fl (sub_128_64 (u128 a0 a1) (w b)) o128
  | "add_128_128", [a0, a1, b0, b1] => lift fl (add_128_128 (u128 a0 a1) (u128 b0 b1)) o128
  | "sub_128_128", [a0, a1, b0, b1] => lift fl (sub_128_128 (u128 a0 a1) (u128 b0 b1)) o128
  | "sub_256_128_to_256", [a0, a1, a2, a3, b0, b1] =>
    lift fl (sub_256_128_to_256 ⟨w a0, w a1, w a2, w a3⟩ (u128 b0 b1)) o256
  | "add_carry_out", [x, y] => lift fl (add_carry_out (w x) (w y)) fun (s, c) => [s.toNat, c.toNat]
  | "add_carry_in_out", [x, y, c] => lift fl (add_carry_in_out (w x) (w y) (w c)) fun (s, c) => [s.toNat, c.toNat]
  | "sub_borrow_out", [x, y] => lift fl (sub_borrow_out (w x) (w y)) fun (s, c) => [s.toNat, c.toNat]
  | "sub_borrow_in_out", [x, y, c] => lift fl (sub_borrow_in_out (w x) (w y) (w c)) fun (s, c) => [s.toNat, c.toNat]
  | "mul_64x64_to_64", [x, y] => lift fl (mul_64x64_to_64 (w x) (w y)) fun r => [r.toNat]
  | "mul_64x64_to_128", [x, y] => lift fl (mul_64x64_to_128 (w x) (w y)) o128
  | "mul_64x64_to_128_fast", [x, y] => lift fl (mul_64x64_to_128_fast (w x) (w y)) o128
  | "mul_64x64_to_128_full", [x, y] => lift fl (mul_64x64_to_128_full (w x) (w y)) o128
  | "mul_64x64_to_128MACH", [x, y] => lift fl (mul_64x64_to_128MACH (w x) (w y)) o128
  | "mul_64x64_to_128HIGH", [x, y] => lift fl (mul_64x64_to_128HIGH (w x) (w y)) fun r => [r.toNat]
  | "mul_128x128_high", [a0, a1, b0, b1] => lift fl (mul_128x128_high (u128 a0 a1) (u128 b0 b1)) o128
  | "mul_128x128_full", [a0, a1, b0, b1] =>
    lift fl (mul_128x128_full (u128 a0 a1) (u128 b0 b1)) fun (h, l) => o128 h ++ o128 l
  | "mul_128x128_low", [a0, a1, b0, b1] => lift fl (mul_128x128_low (u128 a0 a1) (u128 b0 b1)) o128
  | "mul_64x128_low", [x, b0, b1] => lift fl (mul_64x128_low (w x) (u128 b0 b1)) o128
  | "mul_64x128_full", [x, b0, b1] => lift fl (mul_64x128_full (w x) (u128 b0 b1)) fun (h, l) => [h.toNat] ++ o128 l
  | "mul_64x128_to_192", [x, b0, b1] => lift fl (mul_64x128_to_192 (w x) (u128 b0 b1)) o192
  | "mul_64x128_to_256", [x, b0, b1] => lift fl (mul_64x128_to_256 (w x) (u128 b0 b1)) o256
  | "mul_64x128_to192", [x, b0, b1] => lift fl (mul_64x128_to192 (w x) (u128 b0 b1)) o192
  | "mul_128x128_to_256", [a0, a1, b0, b1] => lift fl (mul_128x128_to_256 (u128 a0 a1) (u128 b0 b1)) o256
  | "mul_64x192_to_256", [x, b0, b1, b2] => lift fl (mul_64x192_to_256 (w x) ⟨w b0, w b1, w b2⟩) o256
  | "mul_64x256_to_256", [x, b0, b1, b2, b3] => lift fl (mul_64x256_to_256 (w x) ⟨w b0, w b1, w b2, w b3⟩) o256
  | "mul_128x64_to_128", [x, b0, b1] => lift fl (mul_128x64_to_128 (w x) (u128 b0 b1)) o128
  | "mul_64x128_to_128", [x, b0, b1] => lift fl (mul_64x128_to_128 (w x) (u128 b0 b1)) o128
  | "mul_64x256_to_320", [x, b0, b1, b2, b3] => lift fl (mul_64x256_to_320 (w x) ⟨w b0, w b1, w b2, w b3⟩) o512
  | "mul_192x192_to_384", [a0, a1, a2, b0, b1, b2] =>
    lift fl (mul_192x192_to_384 ⟨w a0, w a1, w a2⟩ ⟨w b0, w b1, w b2⟩) o384
  | "sqr128_to_256", [a0, a1] => lift fl (sqr128_to_256 default (u128 a0 a1)) o256
  | "mul_256x256_to_512", [a0, a1, a2, a3, b0, b1, b2, b3] =>
    lift fl (mul_256x256_to_512 ⟨w a0, w a1, w a2, w a3⟩ ⟨w b0, w b1, w b2, w b3⟩) o512
  | "mul_64x128_short", [x, b0, b1] => lift fl (mul_64x128_short (w x) (u128 b0 b1)) o128
  | "compare_gt_128", [a0, a1, b0, b1] => lift fl (unsigned_compare_gt_128 (u128 a0 a1) (u128 b0 b1)) fun r => [b2n r]
  | "compare_ge_128", [a0, a1, b0, b1] => lift fl (unsigned_compare_ge_128 (u128 a0 a1) (u128 b0 b1)) fun r => [b2n r]
  | "test_equal_128", [a0, a1, b0, b1] => lift fl (test_equal_128 (u128 a0 a1) (u128 b0 b1)) fun r => [b2n r]
  -- the digit-group helpers of bid128_to_string (DecGen/Code3.lean; `C05GenMidi`), on an empty vector
  | "split_midi_2", [x] => lift fl (l0_split_midi_2 (UInt32.ofNat x) []) fun v => v.map UInt32.toNat
  | "split_midi_3", [x] => lift fl (l0_split_midi_3 (UInt32.ofNat x) []) fun v => v.map UInt32.toNat
  | "split_midi_6", [x] => lift fl (l1_split_midi_6 (w x) []) fun v => v.map UInt32.toNat
  | "split_midi_6_lead", [x] => lift fl (l1_split_midi_6_lead (w x) []) fun v => v.map UInt32.toNat
  | "normalize_10to18", [h, l] => lift fl (l0_normalize_10to18 (w h) (w l)) fun (a, b) => [a.toNat, b.toNat]
  | _, _ => .unknown

end HkGen
end Dec
