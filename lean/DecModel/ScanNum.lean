/-
  DecModel.ScanNum — a code-shaped model of the NUMERIC PHASE of `bid128_from_string_clear_status`
  (/repo/src/bid128_string.rs, lines 506–643 at HEAD), i.e. what happens after the scanner of `DecModel/Scan.lean`
  has handed over

      sign_x, buffer[0 .. min ndigits_total 100], ndigits_total, ndigits_before / ndigits_after,
      right_radix_leading_zeros, dec_expon, set_inexact

  and the composition `fromStringCode` of the two, which is the whole of `bid128_from_string` on a clear status word
  (the wrapper `bid128_from_string` runs the body on a clear local word and ORs it into the caller's).

  The hand-over is the `.number l sticky` outcome of `scanText`.  What the numeric phase reads is recovered from it:
  * `sign_x` = `l.neg`;
  * `right_radix_leading_zeros` = the leading zeros of `l.fracDigits` when `l.intDigits` is empty, else 0 (`rrlzOf`):
    the first stored digit is never `0`, because the zero-skipping loop has consumed every leading zero;
  * `buffer` = `l.intDigits ++ l.fracDigits` without those zeros (`bufOf`), at most 100 digits; the Rust array has 100
    entries, the unused ones hold `' '`: `arrOf` pads with 32 so that every index / slice the code forms is looked up
    in an array of exactly that shape (`none` = index or slice out of range: the panic sites of this phase);
  * `ndigits_total` enters the code only through `ndigits_total <= 34`, `== 0`, `<= 19`, as slice end when it is `≤ 34`,
    and as `ndigits_total.min(100)`: all of these are functions of the number `n` of stored digits (= `min total 100`);
  * `dec_expon` after line 507 resp. 554: in the `≤ 34` branch `ndigits_after + right_radix_leading_zeros` is
    `l.fracDigits.length`; in the `> 34` branch `dec_expon + ndigits_before` is `l.exp + l.intDigits.length` (the scanner
    model has already added the integer digits it dropped beyond the 100th to `l.exp`).  The code computes these sums
    in `i32` with the counts cast by `as i32`: that is the exact sum reduced to `i32` (`wrapI32`);
  * `set_inexact` = `sticky ||` a stored digit after the 34th is not `0`.

  `u64` arithmetic wraps (`AH.add64`, `AH.sub64`, `AH.shl64` of `DecModel/ArithHelpers.lean`; the crate is built with
  overflow checks off).  `__mul_64x64_to_128_fast` is the transcription `AH.mul64x64to128Fast` of
  `DecModel/ArithHelpers.lean`; `bid_get_BID128` is the word-level model `PackH.get_BID128` of
  `DecModel/PackHelpers.lean` (`none` = a table index out of range).
-/
import DecModel.Scan
import DecModel.PackHelpers
import DecModel.ArithHelpers

namespace Dec
namespace ScanNum
open PackH

/-! ### the hand-over -/

/-- `right_radix_leading_zeros` -/
def rrlzOf (l : Literal) : Nat :=
  if l.intDigits.isEmpty then (l.fracDigits.takeWhile (· == 48)).length else 0

/-- the stored digits: `buffer[0 .. min ndigits_total 100]` -/
def bufOf (l : Literal) : Bytes := l.intDigits ++ l.fracDigits.drop (rrlzOf l)

/-- `buffer : [char; 100]`, initialised with `' '` -/
def arrOf (buf : Bytes) : Bytes := (buf ++ List.replicate 100 32).take 100

/-- `&buffer[a..b]`: `none` is the panic (`a > b` or `b > 100`) -/
def slice (arr : Bytes) (a b : Nat) : Option Bytes :=
  if a ≤ b ∧ b ≤ arr.length then some ((arr.take b).drop a) else none

/-- the 128-bit pattern of a `BID_UINT128` -/
def bits128 (r : U128) : Nat := r.2 * 2 ^ 64 + r.1

/-! ### the ×10 chains -/

/-- `((ch as i32) - ('0' as i32)) as BID_UINT64` -/
def digitWord (ch : Nat) : Nat := wordOfI32 ((ch : Int) - 48)

/-- `coeff2 = c + c;  c = (coeff2 << 2) + coeff2 + (*ch as BID_UINT64) - ('0' as BID_UINT64)` -/
def chainStep (c ch : Nat) : Nat :=
  let coeff2 := AH.add64 c c
  AH.sub64 (AH.add64 (AH.add64 (AH.shl64 coeff2 2) coeff2) ch) 48

/-- `for ch in &buffer[a..b] { … }` -/
def chain (c : Nat) (cs : Bytes) : Nat := cs.foldl chainStep c

/-- `x = ((buffer[a] as i32) - ('0' as i32)) as BID_UINT64;  for ch in &buffer[a + 1..b] { … }`: `none` = `buffer[a]` or
the slice is out of range -/
def readRun (arr : Bytes) (a b : Nat) : Option Nat := do
  let c0 ← arr[a]?
  let rest ← slice arr (a + 1) b
  some (chain (digitWord c0) rest)

/-- `.iter().any(|c| *c as i32 > '0' as i32)` -/
def anyAboveZero (cs : Bytes) : Bool := cs.any (fun c => decide (c > 48))

/-- `CX = __mul_64x64_to_128_fast(coeff_high, scale_high);  CX.w[0] += coeff_low;
if CX.w[0] < coeff_low { CX.w[1] += 1 }` -/
def assemble (coeffHigh scaleHigh coeffLow : Nat) : U128 :=
  let CX := AH.mul64x64to128Fast coeffHigh scaleHigh
  let w0 := AH.add64 CX.w0 coeffLow
  let w1 := if w0 < coeffLow then AH.add64 CX.w1 1 else CX.w1
  (w0, w1)

/-- `bid_get_BID128 (sign_x, dec_expon, &CX, rnd_mode, pfpsf)` and the pattern of its result -/
def pack (signX : Nat) (decExpon : Int) (CX : U128) (mode : Mode) (fpsf : Nat) : Option (Nat × Flags) :=
  (get_BID128 signX decExpon CX mode fpsf).map fun (r, f) => (bits128 r, f)

/-! ### lines 506–550: at most 34 digits -/

/-- `decExpon` = `dec_expon` after line 507 -/
def smallPath (mode : Mode) (signX : Nat) (arr : Bytes) (n : Nat) (decExpon : Int) : Option (Nat × Flags) :=
  if n = 0 then
    -- line 512: `sign_x | ((dec_expon.clamp(0, DECIMAL_MAX_EXPON_128) as BID_UINT64) << 49)`
    let ex : Int := if decExpon < 0 then 0 else if decExpon > 12287 then 12287 else decExpon
    some (bits128 (0, signX ||| AH.shl64 ex.toNat 49), 0)
  else if n ≤ 19 then do
    let coeffHigh ← readRun arr 0 n                    -- buffer[0], &buffer[1..ndigits_total]
    pack signX decExpon (coeffHigh, 0) mode 0
  else do
    let coeffHigh ← readRun arr 0 (n - 17)             -- buffer[0], &buffer[1..ndigits_total - 17]
    let coeffLow ← readRun arr (n - 17) n              -- buffer[ndigits_total - 17], &buffer[ndigits_total - 16..ndigits_total]
    pack signX decExpon (assemble coeffHigh 100000000000000000 coeffLow) mode 0

/-! ### lines 551–643: more than 34 digits -/

/-- the `match rnd_mode` of lines 580–616: `carry`.  `n` = `ndigits_total.min(MAX_STRING_DIGITS_128)`. -/
def carryOf (mode : Mode) (signX : Nat) (arr : Bytes) (n : Nat) (decExpon : Int) (coeffLow : Nat) : Option Nat :=
  match mode with
  | .rne => do
    let b : Nat ← arr[34]?
    -- `((('4' as i32 - buffer[i] as i32) as u32) >> 31)`
    let carry : Nat := if (52 : Int) - (b : Int) < 0 then 1 else 0
    if (b == 53 && (coeffLow &&& 1) != 1) || decide (decExpon < 0) then
      let carry := if decExpon ≥ 0 then 0 else carry
      let i := if decExpon ≥ 0 then 35 else 34
      let tail ← slice arr i n
      some (if anyAboveZero tail then 1 else carry)
    else some carry
  | .rdn =>
    -- `if sign_x != 0 && buffer[i..n].iter().any(..) { carry = 1 }`: the slice is formed only behind the sign test
    if signX ≠ 0 then do
      let tail ← slice arr 34 n
      some (if anyAboveZero tail then 1 else 0)
    else some 0
  | .rup =>
    if signX = 0 then do
      let tail ← slice arr 34 n
      some (if anyAboveZero tail then 1 else 0)
    else some 0
  | .rtz => some 0
  | .rna => do
    let b : Nat ← arr[34]?
    let digit : Nat ← toDigit10 b    -- `char::to_digit(buffer[i], 10).unwrap()`
    let carry : Nat := if (4 : Int) - (digit : Int) < 0 then 1 else 0
    if decExpon < 0 then
      -- lines 611–616: a sticky digit instead of a rounding here; none at 34 or more places below the least quantum
      if decExpon > -34 then do
        let tail ← slice arr 34 n
        some (if anyAboveZero tail then 1 else 0)
      else some 0
    else some carry

/-- `decExpon` = `dec_expon` after line 554; `setInexact` = `set_inexact` -/
def largePath (mode : Mode) (signX : Nat) (arr : Bytes) (n : Nat) (decExpon : Int) (setInexact : Bool) :
    Option (Nat × Flags) := do
  let coeffHigh ← readRun arr 0 17                     -- buffer[0], &buffer[1..MAX_FORMAT_DIGITS_128 - 17]
  let coeffLow ← readRun arr 17 34                     -- buffer[17], &buffer[18..34]
  let carry ← carryOf mode signX arr n decExpon coeffLow
  -- lines 619–627: the result will be subnormal: keep a 35th (sticky) digit and let `bid_get_BID128` round once
  let scaled : Bool := decide (decExpon < 0) && decide (decExpon > -34)
  let scaleHigh : Nat := if scaled then 1000000000000000000 else 100000000000000000
  let coeffLow : Nat := if scaled then AH.add64 (AH.shl64 coeffLow 3) (AH.shl64 coeffLow 1) else coeffLow
  let decExpon : Int := if scaled then wrapI32 (decExpon - 1) else decExpon
  let coeffLow := AH.add64 coeffLow carry
  let CX := assemble coeffHigh scaleHigh coeffLow
  let fpsf : Nat := if setInexact then fInexact else 0
  pack signX decExpon CX mode fpsf

/-! ### the phase -/

/-- **The numeric phase**: result pattern and raised flags; `none` = a panic site (an index or slice of `buffer` out of
range, `to_digit(..).unwrap()` on a non-digit, a table index out of range inside `bid_get_BID128`). -/
def numericPhase (mode : Mode) (l : Literal) (sticky : Bool) : Option (Nat × Flags) :=
  let signX : Nat := if l.neg then 0x8000000000000000 else 0
  let z := rrlzOf l
  let buf := bufOf l
  let n := buf.length
  let arr := arrOf buf
  if n ≤ 34 then
    smallPath mode signX arr n (wrapI32 (l.exp + 6176 - (l.fracDigits.length : Int)))
  else
    let setInexact := sticky || anyAboveZero (buf.drop 34)
    largePath mode signX arr (min n 100) (wrapI32 (l.exp + (l.intDigits.length : Int) + 6176 - 34 - (z : Int)))
      setInexact

/-- the result pattern of an outcome of the scanner that did not reach the numeric phase -/
def specialBits (hi : Nat) : Nat := hi * 2 ^ 120

/-- **`bid128_from_string` on a clear status word**, on the code points of the text: pattern and flags; `none` = panic -/
def fromStringCP (mode : Mode) (cps : List Nat) : Option (Nat × Flags) :=
  match scanCP cps with
  | .nan neg => some (specialBits (if neg then 0xfc else 0x7c), 0)
  | .snan neg => some (specialBits (if neg then 0xfe else 0x7e), 0)
  | .inf neg => some (specialBits (if neg then 0xf8 else 0x78), 0)
  | .zero neg e => some (signBit neg + (6176 + e).toNat * 2 ^ 113, 0)      -- lines 344 / 359
  | .number l sticky => numericPhase mode l sticky
  | .panic _ => none

/-- **`bid128_from_string` on a clear status word**: pattern and flags; `none` = panic -/
def fromStringCode (mode : Mode) (text : List Char) : Option (Nat × Flags) :=
  fromStringCP mode (text.map Char.toNat)

end ScanNum

export ScanNum (numericPhase fromStringCode)

/-! ### the interface for the judge -/

/-- decode UTF-8 leniently (any lead byte takes as many following bytes as it announces; a stray continuation byte or
a truncated sequence gives a code point that will not re-encode to the same bytes) -/
def utf8DecodeLoose : Nat → Bytes → List Nat
  | 0, _ => []
  | _, [] => []
  | f + 1, b :: t =>
    if b < 0x80 then b :: utf8DecodeLoose f t
    else if b < 0xE0 then
      match t with
      | b1 :: t' => ((b % 0x20) * 64 + b1 % 64) :: utf8DecodeLoose f t'
      | _ => [0x110000]
    else if b < 0xF0 then
      match t with
      | b1 :: b2 :: t' => ((b % 0x10) * 4096 + (b1 % 64) * 64 + b2 % 64) :: utf8DecodeLoose f t'
      | _ => [0x110000]
    else
      match t with
      | b1 :: b2 :: b3 :: t' =>
        ((b % 0x08) * 262144 + (b1 % 64) * 4096 + (b2 % 64) * 64 + b3 % 64) :: utf8DecodeLoose f t'
      | _ => [0x110000]

/-- the code points of a well-formed UTF-8 text (what a Rust `&str` is): every code point a Unicode scalar value, and
the encoding of the code points is the text byte for byte (so: no overlong forms, no stray or missing continuation
bytes) -/
def utf8Decode? (b : Bytes) : Option (List Nat) :=
  let cps := utf8DecodeLoose b.length b
  if cps.all (fun c => c < 0xD800 || (0xE000 ≤ c && c < 0x110000)) && utf8 cps == b then some cps else none

/-- `fromStringCodeBits mode utf8`: what `convert_from_decimal_character` on a clear status word returns for the text
with these UTF-8 bytes, in rounding mode `mode`, as predicted by the code-shaped models of the scanner and the numeric
phase: `some (some (pattern, flags))`; `some none` = the models predict a panic; `none` = no prediction (the bytes are
not well-formed UTF-8, so they are not a `&str`). -/
def fromStringCodeBits (mode : Mode) (utf8 : Bytes) : Option (Option (Nat × Flags)) :=
  (utf8Decode? utf8).map (ScanNum.fromStringCP mode)

end Dec
