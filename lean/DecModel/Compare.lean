/-
  DecModel.Compare — comparison predicates, classification, total order, min/max.
-/
import DecModel.Arith

namespace Dec

/-! ### The twenty comparison predicates as truth tables on the four-way relation -/

/-- Truth value of predicate `name` on the relation `r` (`none` = unordered). -/
def predTable (name : String) (r : Option Ordering) : Option Bool :=
  let lt := r == some .lt
  let eq := r == some .eq
  let gt := r == some .gt
  let un := r == none
  match name with
  | "equal" => some eq
  | "not_equal" => some (!eq)
  | "greater" => some gt
  | "greater_equal" => some (gt || eq)
  | "greater_unordered" => some (gt || un)
  | "less" => some lt
  | "less_equal" => some (lt || eq)
  | "less_unordered" => some (lt || un)
  | "not_greater" => some (!gt)
  | "not_less" => some (!lt)
  | "ordered" => some (!un)
  | "unordered" => some un
  | _ => none

/-- Flags raised by a quiet comparison: invalid iff some operand is a signalling NaN. -/
def quietCmpFlags (x y : Datum) : Flags := if x.isSNaN || y.isSNaN then fInvalid else 0
/-- Flags raised by a signalling comparison: invalid iff some operand is a NaN. -/
def signalingCmpFlags (x y : Datum) : Flags := if x.isNaN || y.isNaN then fInvalid else 0

/-! ### Classification -/

/-- Class numbers in the order of the crate's `ClassTypes` enum. -/
def classOf : Datum → Nat
  | .nan _ true _ => 0        -- SignalingNaN
  | .nan _ false _ => 1       -- QuietNaN
  | .inf true => 2            -- NegativeInfinity
  | .inf false => 9           -- PositiveInfinity
  | .fin s c e =>
    if c = 0 then (if s then 5 else 6)
    else
      let normal := decide ((ndigits c : Int) + e - 1 ≥ -6143)
      if s then (if normal then 3 else 4) else (if normal then 8 else 7)

def isNormalD : Datum → Bool
  | .fin _ c e => c != 0 && decide ((ndigits c : Int) + e - 1 ≥ -6143)
  | _ => false

def isSubnormalD : Datum → Bool
  | .fin _ c e => c != 0 && decide ((ndigits c : Int) + e - 1 < -6143)
  | _ => false

/-! ### totalOrder -/

/-- Total-order comparison of two finite data of the same sign class (magnitudes): value first,
then (for equal values) the smaller exponent first. -/
def totalKeyFinLe (c1 : Nat) (e1 : Int) (c2 : Nat) (e2 : Int) : Bool :=
  match cmpFin false c1 e1 false c2 e2 with
  | .lt => true
  | .gt => false
  | .eq => decide (e1 ≤ e2)

/-- `totalOrderMag`-style comparison of magnitudes `|x| ≤ |y|` in the IEEE total order
(both taken as positive). -/
def totalLeMag : Datum → Datum → Bool
  | .nan _ s1 p1, .nan _ s2 p2 =>
    -- signalling before quiet; among equals smaller payload first
    if s1 != s2 then s1 else decide (p1 ≤ p2)
  | .nan .., _ => false
  | _, .nan .. => true
  | .inf _, .inf _ => true
  | .inf _, _ => false
  | _, .inf _ => true
  | .fin _ c1 e1, .fin _ c2 e2 => totalKeyFinLe c1 e1 c2 e2

/-- IEEE 754-2008 §5.10 totalOrder(x, y). -/
def totalLe (x y : Datum) : Bool :=
  match x.neg, y.neg with
  | true, false => true
  | false, true => false
  | false, false => totalLeMag x y
  | true, true => totalLeMag y x

def totalLeMagOnly (x y : Datum) : Bool := totalLeMag x y

/-! ### min / max -/

/-- The acceptable results of the four min/max operations on non-NaN data: the set of operands
(canonical) that the exact order allows. -/
def minmaxChoices (isMax : Bool) (mag : Bool) (x y : Datum) : List Datum :=
  let ord : Option Ordering :=
    if mag then
      match cmpD (x.setSign false) (y.setSign false) with
      | some .eq => cmpD x y
      | o => o
    else cmpD x y
  match ord with
  | some .lt => if isMax then [y] else [x]
  | some .gt => if isMax then [x] else [y]
  | _ => [x, y]

end Dec
