/-
  DecProofs.TableFacts.Util — vocabulary for stating that a flattened constant table equals a closed form.
-/
import DecModel.Dpd

namespace Dec.TF

/-- `k` 64-bit words of `v`, least significant first -/
def words (k v : Nat) : List Nat := (List.range k).map (fun j => (v / 2 ^ (64 * j)) % 2 ^ 64)

/-- the flattened table of `n` entries of `k` words each with entry `i` equal to `f i` -/
def tab (k n : Nat) (f : Nat → Nat) : List Nat := (List.range n).flatMap (fun i => words k (f i))

/-- ceiling division -/
def cdiv (a b : Nat) : Nat := (a + b - 1) / b

/-- multiplicity of `p` in `n` (at most `fuel`) -/
def padicVal (p : Nat) : Nat → Nat → Nat
  | 0, _ => 0
  | f+1, n => if n ≠ 0 ∧ n % p = 0 then 1 + padicVal p f (n / p) else 0

/-- entry `i` (of `k` words) of a flattened table, as a number -/
def entry (t : List Nat) (k i : Nat) : Nat :=
  (List.range k).foldr (fun j acc => t.getD (i * k + j) 0 + 2 ^ 64 * acc) 0

end Dec.TF
