/-
  DecProofs.TableFacts.BinTables — the bipartite binary→decimal power tables, the packed trailing-zero
  table and the short reciprocal table, each pinned to its closed form by the kernel.

  * `BID_OUTERTABLE_{SIG,EXP}` (80 entries) and `BID_INNERTABLE_{SIG,EXP}` (128 entries): entry `i` of the
    outer table is for the power `p = 128·(i − 39)`, entry `j` of the inner table for `p = j − 64`;
    `EXP[k] = e` is a signed binary exponent and `SIG[k]` a normalised 256-bit integer
    (`2^255 ≤ SIG < 2^256`) with `SIG = ⌈10^p / 2^e⌉`: the table holds `10^p` to 256 significant bits,
    rounded up.  (So `10^(p_outer + p_inner)` is the product of two entries, which is how binary→decimal and
    decimal→binary conversions reach every power of ten in the double-extended range with two lookups.)
  * `BID_PACKED_10000_ZEROS`: two bits per even `d < 10000`, `min 3 (number of trailing decimal zeros of d)`.
  * `BID_RECIPROCALS10_64` with `BID_SHORT_RECIP_SCALE`: multiply-and-shift is exact division by `10^x`,
    `x = 1..17`, for every dividend below `3.5·10^18` (the code feeds it 17-digit quotients, `< 10^17`).
-/
import DecGen.T_BID_OUTERTABLE_SIG
import DecGen.T_BID_OUTERTABLE_EXP
import DecGen.T_BID_INNERTABLE_SIG
import DecGen.T_BID_INNERTABLE_EXP
import DecGen.T_BID_PACKED_10000_ZEROS
import DecGen.T_BID_RECIPROCALS10_64
import DecGen.T_BID_SHORT_RECIP_SCALE
import DecProofs.TableFacts.Mechanisms

namespace Dec.TableFacts
open Dec.TF

/-! ### the bipartite power tables -/

/-- an `i32` dumped sign-extended to 64 bits, read back as an integer -/
def sext64 (w : Nat) : Int := if w < 2 ^ 63 then (w : Int) else (w : Int) - 2 ^ 64

/-- `sig` is the normalised 256-bit ceiling of `10^p / 2^e` (a rational ceiling, written over ℕ case by
case: `p ≥ 0, e ≤ 0`: the integer `10^p·2^(−e)` exactly; `p ≥ 0, e > 0`: `⌈10^p / 2^e⌉`;
`p < 0` (then `e < 0`): `⌈2^(−e) / 10^(−p)⌉`). -/
def binRowOk (p e : Int) (sig : Nat) : Bool :=
  decide (2 ^ 255 ≤ sig) && decide (sig < 2 ^ 256) &&
    (if 0 ≤ p then
      (if e ≤ 0 then decide (sig = 10 ^ p.toNat * 2 ^ (-e).toNat)
       else decide (sig = cdiv (10 ^ p.toNat) (2 ^ e.toNat)))
    else decide (e < 0) && decide (sig = cdiv (2 ^ (-e).toNat) (10 ^ (-p).toNat)))

/-- the power of ten of outer entry `i` -/
def outerPow (i : Nat) : Int := 128 * ((i : Int) - 39)
/-- the power of ten of inner entry `j` -/
def innerPow (j : Nat) : Int := (j : Int) - 64

/-- **`BID_OUTERTABLE_SIG` / `BID_OUTERTABLE_EXP`**: all 80 entries — entry `i` is `10^(128·(i−39))` as a
normalised 256-bit significand rounded up, with its binary exponent. -/
theorem outertable_rows :
    (List.range 80).all (fun k =>
      binRowOk (outerPow k) (sext64 (Dec.Gen.BID_OUTERTABLE_EXP.getD k 0)) (entry Dec.Gen.BID_OUTERTABLE_SIG 4 k)) = true := by
  decide +kernel

/-- **`BID_INNERTABLE_SIG` / `BID_INNERTABLE_EXP`**: all 128 entries — entry `j` is `10^(j−64)` as a
normalised 256-bit significand rounded up, with its binary exponent. -/
theorem innertable_rows :
    (List.range 128).all (fun k =>
      binRowOk (innerPow k) (sext64 (Dec.Gen.BID_INNERTABLE_EXP.getD k 0)) (entry Dec.Gen.BID_INNERTABLE_SIG 4 k)) = true := by
  have lo : (List.range 64).all (fun k =>
      binRowOk (innerPow k) (sext64 (Dec.Gen.BID_INNERTABLE_EXP.getD k 0)) (entry Dec.Gen.BID_INNERTABLE_SIG 4 k)) = true := by
    decide +kernel
  have hi : (List.range 64).all (fun k =>
      binRowOk (innerPow (k + 64)) (sext64 (Dec.Gen.BID_INNERTABLE_EXP.getD (k + 64) 0))
        (entry Dec.Gen.BID_INNERTABLE_SIG 4 (k + 64))) = true := by
    decide +kernel
  rw [List.all_eq_true] at lo hi ⊢
  intro k hk
  have hk' := List.mem_range.1 hk
  by_cases h : k < 64
  · exact lo k (List.mem_range.2 h)
  · obtain ⟨j, rfl⟩ : ∃ j, k = j + 64 := ⟨k - 64, by omega⟩
    exact hi j (List.mem_range.2 (by omega))

theorem outertable_len : Dec.Gen.BID_OUTERTABLE_SIG.length = 4 * 80 ∧ Dec.Gen.BID_OUTERTABLE_EXP.length = 80 := by
  decide +kernel
theorem innertable_len : Dec.Gen.BID_INNERTABLE_SIG.length = 4 * 128 ∧ Dec.Gen.BID_INNERTABLE_EXP.length = 128 := by
  decide +kernel

/-- what `binRowOk` says, as propositions over ℕ: `sig` is normalised and is the least integer with
`sig · 2^e ≥ 10^p` -/
theorem binRowOk_spec {p e : Int} {sig : Nat} (h : binRowOk p e sig = true) :
    2 ^ 255 ≤ sig ∧ sig < 2 ^ 256 ∧
    (0 ≤ p → e ≤ 0 → sig = 10 ^ p.toNat * 2 ^ (-e).toNat) ∧
    (0 ≤ p → 0 < e → (sig - 1) * 2 ^ e.toNat < 10 ^ p.toNat ∧ 10 ^ p.toNat ≤ sig * 2 ^ e.toNat) ∧
    (p < 0 → e < 0 ∧ (sig - 1) * 10 ^ (-p).toNat < 2 ^ (-e).toNat ∧ 2 ^ (-e).toNat ≤ sig * 10 ^ (-p).toNat) := by
  have ceil : ∀ a b : Nat, 0 < a → 0 < b → (cdiv a b - 1) * b < a ∧ a ≤ cdiv a b * b := by
    intro a b ha hb
    unfold cdiv
    have h1 := Nat.div_add_mod (a + b - 1) b
    have h2 := Nat.mod_lt (a + b - 1) hb
    generalize (a + b - 1) / b = q at *
    generalize (a + b - 1) % b = r at *
    have hq : 0 < q := by
      rcases Nat.eq_zero_or_pos q with h | h
      · subst h; omega
      · exact h
    obtain ⟨q', rfl⟩ : ∃ q', q = q' + 1 := ⟨q - 1, by omega⟩
    rw [Nat.add_sub_cancel, Nat.mul_comm q' b, Nat.mul_comm (q' + 1) b]
    rw [Nat.mul_add, Nat.mul_one] at h1 ⊢
    omega
  unfold binRowOk at h
  simp only [Bool.and_eq_true, decide_eq_true_eq] at h
  obtain ⟨⟨h1, h2⟩, h3⟩ := h
  refine ⟨h1, h2, ?_, ?_, ?_⟩
  · intro hp he
    rw [if_pos hp, if_pos he, decide_eq_true_eq] at h3
    exact h3
  · intro hp he
    rw [if_pos hp, if_neg (by omega), decide_eq_true_eq] at h3
    rw [h3]
    exact ceil _ _ (Nat.pow_pos (by decide)) (Nat.pow_pos (by decide))
  · intro hp
    rw [if_neg (by omega)] at h3
    simp only [Bool.and_eq_true, decide_eq_true_eq] at h3
    refine ⟨h3.1, ?_⟩
    rw [h3.2]
    exact ceil _ _ (Nat.pow_pos (by decide)) (Nat.pow_pos (by decide))

/-- row `i` of the outer table satisfies the closed form -/
theorem outertable_row (i : Nat) (hi : i < 80) :
    binRowOk (outerPow i) (sext64 (Dec.Gen.BID_OUTERTABLE_EXP.getD i 0)) (entry Dec.Gen.BID_OUTERTABLE_SIG 4 i) = true :=
  List.all_eq_true.1 outertable_rows i (List.mem_range.2 hi)

/-- row `j` of the inner table satisfies the closed form -/
theorem innertable_row (j : Nat) (hj : j < 128) :
    binRowOk (innerPow j) (sext64 (Dec.Gen.BID_INNERTABLE_EXP.getD j 0)) (entry Dec.Gen.BID_INNERTABLE_SIG 4 j) = true :=
  List.all_eq_true.1 innertable_rows j (List.mem_range.2 hj)

-- the middle entries: 10^0 = 2^255 · 2^-255 in both tables
example : entry Dec.Gen.BID_OUTERTABLE_SIG 4 39 = 2 ^ 255 ∧ sext64 (Dec.Gen.BID_OUTERTABLE_EXP.getD 39 0) = -255 := by
  decide +kernel
example : entry Dec.Gen.BID_INNERTABLE_SIG 4 64 = 2 ^ 255 ∧ sext64 (Dec.Gen.BID_INNERTABLE_EXP.getD 64 0) = -255 := by
  decide +kernel
-- 10^1 = 0xA000…0 · 2^-252
example : entry Dec.Gen.BID_INNERTABLE_SIG 4 65 = 10 * 2 ^ 252 ∧ sext64 (Dec.Gen.BID_INNERTABLE_EXP.getD 65 0) = -252 := by
  decide +kernel

/-! ### `BID_PACKED_10000_ZEROS` -/

/-- number of trailing decimal zeros of `d` (for `0 < d < 10^4`; `0` for `d = 0`) -/
def tz10 (d : Nat) : Nat := padicVal 10 4 d

/-- `tz10 d` is the multiplicity of 10 in `d`, for every `0 < d < 10000` -/
theorem tz10_spec :
    (List.range 10000).all (fun d => d == 0 || (d % 10 ^ tz10 d == 0 && d % 10 ^ (tz10 d + 1) != 0)) = true := by
  decide +kernel

/-- the two-bit field for `d`: `min 3 (trailing zeros of d)`, and `3` for `d = 0` -/
def zfield (d : Nat) : Nat := if d = 0 then 3 else min 3 (tz10 d)

/-- byte `i` of the packed table: the fields of `8i, 8i+2, 8i+4, 8i+6` at bit offsets `0, 2, 4, 6` -/
def packedByte (i : Nat) : Nat :=
  zfield (8 * i) + 4 * zfield (8 * i + 2) + 16 * zfield (8 * i + 4) + 64 * zfield (8 * i + 6)

/-- **`BID_PACKED_10000_ZEROS`** (1250 bytes) is its closed form: byte `i` packs, two bits each,
`min 3 (number of trailing decimal zeros of d)` for `d = 8i, 8i+2, 8i+4, 8i+6` (`3` for `d = 0`). -/
theorem packed_zeros_eq : Dec.Gen.BID_PACKED_10000_ZEROS = (List.range 1250).map packedByte := by
  decide +kernel

theorem zfield_le (d : Nat) : zfield d ≤ 3 := by
  unfold zfield; split <;> omega

/-- **Mechanism (trailing-zero removal in exact division):** for even `d` with `2 ≤ d ≤ 9998`,
`(PACKED[d >> 3] >> (d & 7)) & 3 = min 3 (trailing zeros of d)`. -/
theorem packed_zeros_mechanism (d : Nat) (h1 : 2 ≤ d) (h2 : d ≤ 9998) (hev : d % 2 = 0) :
    (Dec.Gen.BID_PACKED_10000_ZEROS.getD (d / 8) 0 / 2 ^ (d % 8)) % 4 = min 3 (tz10 d) := by
  have hlen : d / 8 < 1250 := by omega
  have hget : Dec.Gen.BID_PACKED_10000_ZEROS.getD (d / 8) 0 = packedByte (d / 8) := by
    rw [packed_zeros_eq]; simp [List.getD_eq_getElem?_getD, hlen]
  have hz : zfield d = min 3 (tz10 d) := by
    unfold zfield; rw [if_neg (by omega)]
  rw [hget, ← hz]
  unfold packedByte
  have hd : d = 8 * (d / 8) + d % 8 := by omega
  have b0 := zfield_le (8 * (d / 8))
  have b2 := zfield_le (8 * (d / 8) + 2)
  have b4 := zfield_le (8 * (d / 8) + 4)
  have b6 := zfield_le (8 * (d / 8) + 6)
  have ho : d % 8 = 0 ∨ d % 8 = 2 ∨ d % 8 = 4 ∨ d % 8 = 6 := by omega
  rcases ho with h | h | h | h
  · have e : zfield d = zfield (8 * (d / 8)) := by congr 1; omega
    rw [h, e]; omega
  · have e : zfield d = zfield (8 * (d / 8) + 2) := by congr 1; omega
    rw [h, e]; omega
  · have e : zfield d = zfield (8 * (d / 8) + 4) := by congr 1; omega
    rw [h, e]; omega
  · have e : zfield d = zfield (8 * (d / 8) + 6) := by congr 1; omega
    rw [h, e]; omega

/-- the same as a finite check: for every even `d = 2, 4, …, 9998`, the two bits at bit offset `d mod 8` of
byte `d / 8` hold `min 3 (number of trailing decimal zeros of d)` -/
theorem packed_zeros_rows :
    (List.range 4999).all (fun k =>
      (Dec.Gen.BID_PACKED_10000_ZEROS.getD (2 * (k + 1) / 8) 0 / 2 ^ (2 * (k + 1) % 8)) % 4 ==
        min 3 (tz10 (2 * (k + 1)))) = true := by
  rw [List.all_eq_true]
  intro k hk
  have hk' := List.mem_range.1 hk
  rw [beq_iff_eq]
  exact packed_zeros_mechanism (2 * (k + 1)) (by omega) (by omega) (by omega)

example : (Dec.Gen.BID_PACKED_10000_ZEROS.getD (3000 / 8) 0 / 2 ^ (3000 % 8)) % 4 = 3 ∧ tz10 3000 = 3 := by
  decide +kernel
example : (Dec.Gen.BID_PACKED_10000_ZEROS.getD (120 / 8) 0 / 2 ^ (120 % 8)) % 4 = 1 ∧ tz10 120 = 1 := by
  decide +kernel

/-! ### `BID_RECIPROCALS10_64` with `BID_SHORT_RECIP_SCALE` -/

/-- **`BID_RECIPROCALS10_64` / `BID_SHORT_RECIP_SCALE`**, rows 1..17: each is the ceiling reciprocal of
`10^x` scaled by `2^(64 + scale)` with enough slack for every dividend below `3·10^18`. -/
theorem reciprocals10_64_rows :
    (List.range 17).all (fun j =>
      rowOk (entry Dec.Gen.BID_RECIPROCALS10_64 1 (j + 1)) (64 + Dec.Gen.BID_SHORT_RECIP_SCALE.getD (j + 1) 0)
        (10 ^ (j + 1)) (3 * 10 ^ 18)) = true := by
  decide +kernel

/-- the same with the bound `3.5·10^18` … -/
theorem reciprocals10_64_rows_35 :
    (List.range 17).all (fun j =>
      rowOk (entry Dec.Gen.BID_RECIPROCALS10_64 1 (j + 1)) (64 + Dec.Gen.BID_SHORT_RECIP_SCALE.getD (j + 1) 0)
        (10 ^ (j + 1)) (35 * 10 ^ 17)) = true := by
  decide +kernel

/-- … which is the largest bound of that shape: at `3.6·10^18` row 15 no longer passes the sufficient
condition, and the mechanism itself fails just above it: `C = 3534·10^15 − 1` gives `3534` instead of `3533`.  (The
table is *not* good for all of `u64`.) -/
theorem reciprocals10_64_bound_sharp :
    rowOk (entry Dec.Gen.BID_RECIPROCALS10_64 1 15) (64 + Dec.Gen.BID_SHORT_RECIP_SCALE.getD 15 0) (10 ^ 15) (36 * 10 ^ 17) = false ∧
    ((3534 * 10 ^ 15 - 1) * entry Dec.Gen.BID_RECIPROCALS10_64 1 15) / 2 ^ (64 + Dec.Gen.BID_SHORT_RECIP_SCALE.getD 15 0)
      ≠ (3534 * 10 ^ 15 - 1) / 10 ^ 15 := by
  decide +kernel

/-- **Mechanism (removing `x` trailing zeros from a 64-bit quotient in division):** for `x = 1..17` and every
`C < 3.5·10^18` (the code feeds it 17-digit chunks, `C < 10^17`),
`⌊C · RECIPROCALS10_64[x] / 2^(64 + SHORT_RECIP_SCALE[x])⌋ = ⌊C / 10^x⌋`. -/
theorem reciprocals10_64_mechanism (x : Nat) (h1 : 1 ≤ x) (h2 : x ≤ 17) (C : Nat) (hC : C < 35 * 10 ^ 17) :
    (C * entry Dec.Gen.BID_RECIPROCALS10_64 1 x) / 2 ^ (64 + Dec.Gen.BID_SHORT_RECIP_SCALE.getD x 0) = C / 10 ^ x := by
  obtain ⟨j, rfl⟩ : ∃ j, x = j + 1 := ⟨x - 1, by omega⟩
  have h := List.all_eq_true.1 reciprocals10_64_rows_35 j (List.mem_range.2 (by omega))
  exact rowOk_div _ _ _ _ C (Nat.pow_pos (by decide)) h hC

/-- the same in the shape the code computes it: high word of the 64×64→128 product, shifted right by the
tabulated amount -/
theorem reciprocals10_64_mechanism' (x : Nat) (h1 : 1 ≤ x) (h2 : x ≤ 17) (C : Nat) (hC : C < 35 * 10 ^ 17) :
    (C * Dec.Gen.BID_RECIPROCALS10_64.getD x 0) / 2 ^ 64 / 2 ^ (Dec.Gen.BID_SHORT_RECIP_SCALE.getD x 0) = C / 10 ^ x := by
  have h := reciprocals10_64_mechanism x h1 h2 C hC
  have e : entry Dec.Gen.BID_RECIPROCALS10_64 1 x = Dec.Gen.BID_RECIPROCALS10_64.getD x 0 := by
    simp [entry, List.range_succ]
  rw [e, Nat.pow_add, ← Nat.div_div_eq_div_mul] at h
  exact h

example : (12345678901234000 * entry Dec.Gen.BID_RECIPROCALS10_64 1 3) /
    2 ^ (64 + Dec.Gen.BID_SHORT_RECIP_SCALE.getD 3 0) = 12345678901234 := by decide +kernel

end Dec.TableFacts
