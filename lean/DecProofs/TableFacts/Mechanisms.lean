/-
  DecProofs.TableFacts.Mechanisms — what the reciprocal tables are *for*: multiplying by the tabulated
  reciprocal and shifting is exact integer division by the power of ten, for every coefficient the
  code can feed it (not just for sampled ones).
-/
import DecGen.T_BID_TEN2MK128
import DecGen.T_BID_SHIFTRIGHT128
import DecGen.T_BID_RECIPROCALS10_128
import DecGen.T_BID_RECIP_SCALE
import DecGen.T_BID_KX64
import DecGen.T_BID_KX128
import DecGen.T_BID_KX192
import DecGen.T_BID_KX256
import DecProofs.TableFacts.Util

namespace Dec.TableFacts
open Dec.TF

/-- If `K·P = 2^E + δ` (K is the reciprocal of `P` rounded up, scaled by `2^E`) and `(C/P + 1)·δ < K`,
then `⌊C·K / 2^E⌋ = ⌊C / P⌋`. -/
theorem mul_recip_div (C K E P δ : Nat) (hP : 0 < P) (hK : K * P = 2 ^ E + δ) (hδ : (C / P + 1) * δ < K) :
    (C * K) / 2 ^ E = C / P := by
  have hE : 0 < 2 ^ E := Nat.pow_pos (by decide)
  have hdm : P * (C / P) + C % P = C := Nat.div_add_mod C P
  have hr : C % P < P := Nat.mod_lt _ hP
  generalize hq : C / P = q at *
  generalize hrr : C % P = r at *
  -- C*K = q*(K*P) + r*K = q*2^E + q*δ + r*K
  have h1 : C * K = q * 2 ^ E + (q * δ + r * K) := by
    calc C * K = (P * q + r) * K := by rw [hdm]
      _ = q * (K * P) + r * K := by rw [Nat.add_mul, Nat.mul_comm P q, Nat.mul_assoc, Nat.mul_comm P K]
      _ = q * (2 ^ E + δ) + r * K := by rw [hK]
      _ = q * 2 ^ E + (q * δ + r * K) := by rw [Nat.mul_add, Nat.add_assoc]
  -- r*K ≤ (P-1)*K = K*P - K
  have h2 : r * K + K ≤ 2 ^ E + δ := by
    have : (r + 1) * K ≤ P * K := Nat.mul_le_mul_right K hr
    rw [Nat.add_mul, Nat.one_mul, Nat.mul_comm P K, hK] at this
    exact this
  have h3 : q * δ + δ < K := by rw [Nat.add_mul, Nat.one_mul] at hδ; exact hδ
  have h4 : q * δ + r * K < 2 ^ E := by omega
  rw [h1, Nat.mul_comm q (2 ^ E), Nat.mul_add_div hE, Nat.div_eq_of_lt h4, Nat.add_zero]

/-- The condition of `mul_recip_div` at the largest coefficient, checked for one table row:
`K` is the ceiling reciprocal and leaves enough slack for every `C < bound`. -/
def rowOk (K E P bound : Nat) : Bool :=
  decide (2 ^ E ≤ K * P) && decide ((bound / P + 1) * (K * P - 2 ^ E) < K)

theorem rowOk_div (K E P bound C : Nat) (hP : 0 < P) (h : rowOk K E P bound = true) (hC : C < bound) :
    (C * K) / 2 ^ E = C / P := by
  simp only [rowOk, Bool.and_eq_true, decide_eq_true_eq] at h
  obtain ⟨h1, h2⟩ := h
  apply mul_recip_div C K E P (K * P - 2 ^ E) hP (by omega)
  have : C / P ≤ bound / P := Nat.div_le_div_right (Nat.le_of_lt hC)
  calc (C / P + 1) * (K * P - 2 ^ E) ≤ (bound / P + 1) * (K * P - 2 ^ E) := Nat.mul_le_mul_right _ (by omega)
    _ < K := h2

/-- `BID_TEN2MK128` with `BID_SHIFTRIGHT128`: every row is good for all coefficients below 10^35
(the whole table, by the kernel). -/
theorem ten2mk128_rows :
    (List.range 34).all (fun i =>
      rowOk (entry Dec.Gen.BID_TEN2MK128 2 i) (128 + Dec.Gen.BID_SHIFTRIGHT128.getD i 0) (10 ^ (i + 1)) (10 ^ 35)) = true := by
  decide +kernel

/-- **Mechanism (rounding sites of add/mul/quantize/round-integral/to-int …):** for every number of
dropped digits `x = 1..34` and every `C < 10^35`, `⌊C · TEN2MK128[x−1] / 2^(128 + SHIFTRIGHT128[x−1])⌋ = ⌊C / 10^x⌋`. -/
theorem ten2mk128_mechanism (i : Nat) (hi : i < 34) (C : Nat) (hC : C < 10 ^ 35) :
    (C * entry Dec.Gen.BID_TEN2MK128 2 i) / 2 ^ (128 + Dec.Gen.BID_SHIFTRIGHT128.getD i 0) = C / 10 ^ (i + 1) := by
  have h := List.all_eq_true.1 ten2mk128_rows i (List.mem_range.2 hi)
  exact rowOk_div _ _ _ _ C (Nat.pow_pos (by decide)) h hC

/-- `BID_RECIPROCALS10_128` with `BID_RECIP_SCALE` (exact-quotient and underflow paths): rows 1..35 -/
theorem reciprocals10_128_rows :
    (List.range 35).all (fun j =>
      rowOk (entry Dec.Gen.BID_RECIPROCALS10_128 2 (j + 1)) (128 + Dec.Gen.BID_RECIP_SCALE.getD (j + 1) 0) (10 ^ (j + 1)) (10 ^ 35)) = true := by
  decide +kernel

theorem reciprocals10_128_mechanism (x : Nat) (h1 : 1 ≤ x) (h2 : x ≤ 35) (C : Nat) (hC : C < 10 ^ 35) :
    (C * entry Dec.Gen.BID_RECIPROCALS10_128 2 x) / 2 ^ (128 + Dec.Gen.BID_RECIP_SCALE.getD x 0) = C / 10 ^ x := by
  obtain ⟨j, rfl⟩ : ∃ j, x = j + 1 := ⟨x - 1, by omega⟩
  have h := List.all_eq_true.1 reciprocals10_128_rows j (List.mem_range.2 (by omega))
  exact rowOk_div _ _ _ _ C (Nat.pow_pos (by decide)) h hC

/-- the wide reciprocals `BID_KX{64,128,192,256}` (rounding of 2–76-digit intermediates in fma / mul):
`⌊C · Kx / 2^(64w + ⌊log2 10^x⌋)⌋ = ⌊C / 10^x⌋` checked per row for every `C` the rounding routines feed it: a `q`-digit
intermediate (`q ≤ 18, 38, 57, 76`) plus half a unit of the last kept place, i.e. `C < 1.5·10^18, 1.5·10^38, 1.5·10^57, 1.5·10^76`. -/
theorem kx64_rows : (List.range 17).all (fun i =>
    rowOk (entry Dec.Gen.BID_KX64 1 i) (64 + Nat.log2 (10 ^ (i + 1))) (10 ^ (i + 1)) (15 * 10 ^ 17)) = true := by decide +kernel
theorem kx128_rows : (List.range 37).all (fun i =>
    rowOk (entry Dec.Gen.BID_KX128 2 i) (128 + Nat.log2 (10 ^ (i + 1))) (10 ^ (i + 1)) (15 * 10 ^ 37)) = true := by decide +kernel
theorem kx192_rows : (List.range 56).all (fun i =>
    rowOk (entry Dec.Gen.BID_KX192 3 i) (192 + Nat.log2 (10 ^ (i + 1))) (10 ^ (i + 1)) (15 * 10 ^ 56)) = true := by decide +kernel
theorem kx256_rows : (List.range 75).all (fun i =>
    rowOk (entry Dec.Gen.BID_KX256 4 i) (256 + Nat.log2 (10 ^ (i + 1))) (10 ^ (i + 1)) (15 * 10 ^ 75)) = true := by decide +kernel

theorem kx_mechanism (w n bound : Nat) (t : List Nat)
    (rows : (List.range n).all (fun i => rowOk (entry t w i) (64 * w + Nat.log2 (10 ^ (i + 1))) (10 ^ (i + 1)) bound) = true)
    (i : Nat) (hi : i < n) (C : Nat) (hC : C < bound) :
    (C * entry t w i) / 2 ^ (64 * w + Nat.log2 (10 ^ (i + 1))) = C / 10 ^ (i + 1) :=
  rowOk_div _ _ _ _ C (Nat.pow_pos (by decide)) (List.all_eq_true.1 rows i (List.mem_range.2 hi)) hC

theorem kx64_mechanism (i : Nat) (hi : i < 17) (C : Nat) (hC : C < 15 * 10 ^ 17) :
    (C * entry Dec.Gen.BID_KX64 1 i) / 2 ^ (64 * 1 + Nat.log2 (10 ^ (i + 1))) = C / 10 ^ (i + 1) :=
  kx_mechanism 1 17 _ _ kx64_rows i hi C hC
theorem kx128_mechanism (i : Nat) (hi : i < 37) (C : Nat) (hC : C < 15 * 10 ^ 37) :
    (C * entry Dec.Gen.BID_KX128 2 i) / 2 ^ (64 * 2 + Nat.log2 (10 ^ (i + 1))) = C / 10 ^ (i + 1) :=
  kx_mechanism 2 37 _ _ kx128_rows i hi C hC
theorem kx192_mechanism (i : Nat) (hi : i < 56) (C : Nat) (hC : C < 15 * 10 ^ 56) :
    (C * entry Dec.Gen.BID_KX192 3 i) / 2 ^ (64 * 3 + Nat.log2 (10 ^ (i + 1))) = C / 10 ^ (i + 1) :=
  kx_mechanism 3 56 _ _ kx192_rows i hi C hC
theorem kx256_mechanism (i : Nat) (hi : i < 75) (C : Nat) (hC : C < 15 * 10 ^ 75) :
    (C * entry Dec.Gen.BID_KX256 4 i) / 2 ^ (64 * 4 + Nat.log2 (10 ^ (i + 1))) = C / 10 ^ (i + 1) :=
  kx_mechanism 4 75 _ _ kx256_rows i hi C hC

example : (123456789012345678901234567890123456 * entry Dec.Gen.BID_TEN2MK128 2 6) / 2 ^ (128 + Dec.Gen.BID_SHIFTRIGHT128.getD 6 0)
    = 12345678901234567890123456789 := by decide +kernel

end Dec.TableFacts
