/-
  DecProofs.TableFacts.NrDigits — what the digit-count tables are *for*: the two table-driven idioms by which the
  code obtains the number of decimal digits of a coefficient return exactly `ndigitsSlow C` (= `ndigits C`, the model's
  digit count) for every coefficient the code can feed them (0 < C < 2^113), not just for sampled ones.

  * idiom 1 (`BID_NR_DIGITS`; add/mul/fma/round-integral/to-int/next…/frexp …): `nrDigits_mechanism`
  * idiom 2 (`BID_ESTIMATE_DECIMAL_DIGITS` + `BID_POWER10_INDEX_BINEXP_128`; ilogb/quantize/rem …): `estDigits_mechanism`,
    and `estDigits_mechanism_over` for the case that the float-based bit-length estimate is one too large.
-/
import DecGen.T_BID_POWER10_INDEX_BINEXP_128
import DecProofs.TableFacts.F_BID_NR_DIGITS
import DecProofs.TableFacts.F_BID_ESTIMATE_DECIMAL_DIGITS
import DecProofs.Core.Digits

namespace Dec.TableFacts
open Dec.TF

/-! ### generic: indexing a flattened table of fixed-width rows -/

/-- Word `j` of row `i` of a `flatMap` of rows that all have width `k`. -/
theorem getElem?_flatMap_const_width {α β : Type} (f : α → List β) (k : Nat) (hk : ∀ a, (f a).length = k) :
    ∀ (l : List α) (i j : Nat) (a : α), l[i]? = some a → j < k → (l.flatMap f)[i * k + j]? = (f a)[j]?
  | [], i, j, a, h, _ => by simp at h
  | b :: l, 0, j, a, h, hj => by
    simp only [List.getElem?_cons_zero, Option.some.injEq] at h
    subst h
    rw [List.flatMap_cons, Nat.zero_mul, Nat.zero_add, List.getElem?_append_left (by rw [hk]; exact hj)]
  | b :: l, i + 1, j, a, h, hj => by
    rw [List.flatMap_cons, List.getElem?_append_right (by rw [hk, Nat.succ_mul]; omega)]
    have e : (i + 1) * k + j - (f b).length = i * k + j := by rw [hk, Nat.succ_mul]; omega
    rw [e]
    exact getElem?_flatMap_const_width f k hk l i j a (by simpa using h) hj

/-- `getD` form of `getElem?_flatMap_const_width` for a table indexed by `List.range n`. -/
theorem getD_flatMap_const_width {β : Type} (f : Nat → List β) (k n : Nat) (hk : ∀ a, (f a).length = k)
    (i j : Nat) (hi : i < n) (hj : j < k) (d : β) :
    ((List.range n).flatMap f).getD (i * k + j) d = (f i).getD j d := by
  rw [List.getD_eq_getElem?_getD, List.getD_eq_getElem?_getD,
    getElem?_flatMap_const_width f k hk (List.range n) i j i (List.getElem?_range hi) hj]

/-! ### generic: digit counts inside a binary bucket `2^i ≤ C < 2^(i+1)` -/

/-- the digit count is monotone -/
theorem ndigitsSlow_mono {a b : Nat} (ha : 0 < a) (hab : a ≤ b) : ndigitsSlow a ≤ ndigitsSlow b := by
  have hb : 0 < b := by omega
  have h2 := (ndigitsSlow_spec hb).2
  have := (@ndigits_le_iff a (ndigitsSlow b) ha).2 (by omega)
  rwa [ndigits_eq_slow] at this

/-- `C` has more than `k` digits iff `10^k ≤ C` (for `ndigitsSlow`) -/
theorem lt_ndigitsSlow_iff {n k : Nat} (h : 0 < n) : k < ndigitsSlow n ↔ 10 ^ k ≤ n := by
  rw [← ndigits_eq_slow]; exact lt_ndigits_iff h

/-- All numbers below `2^(i+1)` have at most one digit more than `2^i` has: a binary bucket straddles at most one power of ten. -/
theorem ndigitsSlow_bucket_hi (i : Nat) {C : Nat} (h0 : 0 < C) (hC : C < 2 ^ (i + 1)) :
    ndigitsSlow C ≤ ndigitsSlow (2 ^ i) + 1 := by
  have hp : 0 < 2 ^ i := Nat.pow_pos (by decide)
  have h2 := (ndigitsSlow_spec hp).2
  have : C < 10 ^ (ndigitsSlow (2 ^ i) + 1) := by rw [Nat.pow_succ] at hC ⊢; omega
  have := (@ndigits_le_iff C (ndigitsSlow (2 ^ i) + 1) h0).2 this
  rwa [ndigits_eq_slow] at this

/-- The core of both idioms: inside the bucket of `2^i`, the digit count is that of `2^i`, plus one iff `C` has reached the
next power of ten. -/
theorem ndigitsSlow_in_bucket (i : Nat) {C : Nat} (hlo : 2 ^ i ≤ C) (hhi : C < 2 ^ (i + 1)) :
    ndigitsSlow C = ndigitsSlow (2 ^ i) + (if C ≥ 10 ^ ndigitsSlow (2 ^ i) then 1 else 0) := by
  have hp : 0 < 2 ^ i := Nat.pow_pos (by decide)
  have h0 : 0 < C := by omega
  have hge := ndigitsSlow_mono hp hlo
  have hle := ndigitsSlow_bucket_hi i h0 hhi
  have hiff := @lt_ndigitsSlow_iff C (ndigitsSlow (2 ^ i)) h0
  split
  · rename_i h; have := hiff.2 h; omega
  · rename_i h; have : ¬ ndigitsSlow (2 ^ i) < ndigitsSlow C := fun hc => h (hiff.1 hc); omega

/-- The two-word comparison the code performs (`c1 > hi || (c1 == hi && c0 >= lo)`) is the comparison of the 128-bit numbers. -/
theorem ge128_iff (c1 c0 hi lo : Nat) (hc0 : c0 < 2 ^ 64) (hlo : lo < 2 ^ 64) :
    (c1 > hi ∨ (c1 = hi ∧ c0 ≥ lo)) ↔ c1 * 2 ^ 64 + c0 ≥ hi * 2 ^ 64 + lo := by
  omega

/-! ### idiom 1: `BID_NR_DIGITS` -/

/-- The digit-count lookup of the code on the flattened `BID_NR_DIGITS` table: entry `i = bitlength(C) − 1` is
`(digits, threshold_hi, threshold_lo, digits1)`; `q = digits` if that is non-zero, otherwise `digits1`, plus one if
`C ≥ threshold`. -/
def nrDigitsLookup (t : List Nat) (C : Nat) : Nat :=
  let i := Nat.log2 C
  let digits := t.getD (i * 4 + 0) 0
  let thi := t.getD (i * 4 + 1) 0
  let tlo := t.getD (i * 4 + 2) 0
  let digits1 := t.getD (i * 4 + 3) 0
  if digits ≠ 0 then digits else if C ≥ thi * 2 ^ 64 + tlo then digits1 + 1 else digits1

/-- row `i` of the closed form in `BID_NR_DIGITS_def` -/
def nrRow (i : Nat) : List Nat :=
  let dl := ndigitsSlow (2 ^ i); let dh := ndigitsSlow (2 ^ (i + 1) - 1)
  [if dl = dh then dl else 0, (10 ^ dl) / 2 ^ 64, (10 ^ dl) % 2 ^ 64, dl]

theorem BID_NR_DIGITS_rows : Dec.Gen.BID_NR_DIGITS = (List.range 113).flatMap nrRow := BID_NR_DIGITS_def

/-- word `j` of entry `i` of the real table is word `j` of the closed-form row -/
theorem BID_NR_DIGITS_getD (i j : Nat) (hi : i < 113) (hj : j < 4) :
    Dec.Gen.BID_NR_DIGITS.getD (i * 4 + j) 0 = (nrRow i).getD j 0 := by
  rw [BID_NR_DIGITS_rows]
  exact getD_flatMap_const_width nrRow 4 113 (fun _ => rfl) i j hi hj 0

/-- **Mechanism (digit count via `BID_NR_DIGITS`):** for every coefficient `0 < C < 2^113` the table lookup the code performs
(index by bit length; take `digits` if the whole binary bucket has one digit count, else `digits1` plus a comparison with the
tabulated power of ten) returns the number of decimal digits of `C`. -/
theorem nrDigits_mechanism {C : Nat} (h0 : 0 < C) (hC : C < 2 ^ 113) :
    nrDigitsLookup Dec.Gen.BID_NR_DIGITS C = ndigitsSlow C := by
  have hne : C ≠ 0 := by omega
  have hi : C.log2 < 113 := (Nat.log2_lt hne).2 hC
  have hlo : 2 ^ C.log2 ≤ C := Nat.log2_self_le hne
  have hhi : C < 2 ^ (C.log2 + 1) := Nat.lt_log2_self
  unfold nrDigitsLookup
  simp only [BID_NR_DIGITS_getD _ _ hi (by decide : 0 < 4), BID_NR_DIGITS_getD _ _ hi (by decide : 1 < 4),
    BID_NR_DIGITS_getD _ _ hi (by decide : 2 < 4), BID_NR_DIGITS_getD _ _ hi (by decide : 3 < 4), nrRow,
    List.getD_cons_zero, List.getD_cons_succ]
  generalize C.log2 = i at *
  have hp : 0 < 2 ^ i := Nat.pow_pos (by decide)
  have hdl : 0 < ndigitsSlow (2 ^ i) := ndigitsSlow_pos hp
  have hbucket := ndigitsSlow_in_bucket i hlo hhi
  have hthr : 10 ^ ndigitsSlow (2 ^ i) / 2 ^ 64 * 2 ^ 64 + 10 ^ ndigitsSlow (2 ^ i) % 2 ^ 64 = 10 ^ ndigitsSlow (2 ^ i) :=
    Nat.div_add_mod' _ _
  rw [hthr]
  -- the largest member of the bucket
  have hM0 : 0 < 2 ^ (i + 1) - 1 := by rw [Nat.pow_succ]; omega
  have hCM : C ≤ 2 ^ (i + 1) - 1 := by omega
  have hdh := ndigitsSlow_mono h0 hCM
  have hdl' := ndigitsSlow_mono hp hlo
  by_cases heq : ndigitsSlow (2 ^ i) = ndigitsSlow (2 ^ (i + 1) - 1)
  · rw [if_pos heq, if_pos (by omega)]; omega
  · rw [if_neg heq, if_neg (by simp)]
    rw [hbucket]
    split <;> rfl

/-- the same, against the model's fast digit count -/
theorem nrDigits_mechanism_ndigits {C : Nat} (h0 : 0 < C) (hC : C < 2 ^ 113) :
    nrDigitsLookup Dec.Gen.BID_NR_DIGITS C = ndigits C := by
  rw [ndigits_eq_slow]; exact nrDigits_mechanism h0 hC

/-- non-vacuity / sanity: a bucket with a single digit count (2^4..2^5−1 → 2 digits), a straddling bucket on both sides of the
threshold (999, 1000 ∈ [512, 1024)), the largest 34-digit coefficient, and a two-word threshold (10^20 ∈ [2^66, 2^67)). -/
example : nrDigitsLookup Dec.Gen.BID_NR_DIGITS 17 = 2 ∧ nrDigitsLookup Dec.Gen.BID_NR_DIGITS 999 = 3
    ∧ nrDigitsLookup Dec.Gen.BID_NR_DIGITS 1000 = 4 ∧ nrDigitsLookup Dec.Gen.BID_NR_DIGITS (10 ^ 34 - 1) = 34
    ∧ nrDigitsLookup Dec.Gen.BID_NR_DIGITS (10 ^ 20 - 1) = 20 ∧ nrDigitsLookup Dec.Gen.BID_NR_DIGITS (10 ^ 20) = 21 := by
  decide +kernel

/-! ### idiom 2: `BID_ESTIMATE_DECIMAL_DIGITS` + `BID_POWER10_INDEX_BINEXP_128` -/

/-- The second digit-count idiom (ilogb, quantize, rem, …) for a binary-exponent estimate `i`:
`digits = EST[i] + (C ≥ P10IDX[i] ? 1 : 0)` where `P10IDX[i]` is a two-word entry. -/
def estDigitsAt (est p10 : List Nat) (i C : Nat) : Nat :=
  est.getD i 0 + (if C ≥ entry p10 2 i then 1 else 0)

/-- … with the exact binary exponent `i = ⌊log₂ C⌋`. -/
def estDigitsLookup (est p10 : List Nat) (C : Nat) : Nat := estDigitsAt est p10 (Nat.log2 C) C

/-- What is needed of the two tables (there is no closed-form file for `BID_POWER10_INDEX_BINEXP_128`): for every index
`i ≤ 113`, `EST[i]` is the digit count of `2^i` and `P10IDX[i]` is the next power of ten `10^(digits of 2^i)`. -/
theorem est_p10idx_rows :
    (List.range 114).all (fun i =>
      decide (Dec.Gen.BID_ESTIMATE_DECIMAL_DIGITS.getD i 0 = ndigitsSlow (2 ^ i)) &&
      decide (entry Dec.Gen.BID_POWER10_INDEX_BINEXP_128 2 i = 10 ^ ndigitsSlow (2 ^ i))) = true := by
  decide +kernel

theorem est_p10idx_row (i : Nat) (hi : i < 114) :
    Dec.Gen.BID_ESTIMATE_DECIMAL_DIGITS.getD i 0 = ndigitsSlow (2 ^ i) ∧
    entry Dec.Gen.BID_POWER10_INDEX_BINEXP_128 2 i = 10 ^ ndigitsSlow (2 ^ i) := by
  have h := List.all_eq_true.1 est_p10idx_rows i (List.mem_range.2 hi)
  simpa only [Bool.and_eq_true, decide_eq_true_eq] using h

/-- **Mechanism (digit count via `BID_ESTIMATE_DECIMAL_DIGITS` / `BID_POWER10_INDEX_BINEXP_128`):** for every coefficient
`0 < C < 2^113`, with `i = ⌊log₂ C⌋`, `EST[i] + (C ≥ P10IDX[i] ? 1 : 0)` is the number of decimal digits of `C`. -/
theorem estDigits_mechanism {C : Nat} (h0 : 0 < C) (hC : C < 2 ^ 113) :
    estDigitsLookup Dec.Gen.BID_ESTIMATE_DECIMAL_DIGITS Dec.Gen.BID_POWER10_INDEX_BINEXP_128 C = ndigitsSlow C := by
  have hne : C ≠ 0 := by omega
  have hi : C.log2 < 113 := (Nat.log2_lt hne).2 hC
  have hlo : 2 ^ C.log2 ≤ C := Nat.log2_self_le hne
  have hhi : C < 2 ^ (C.log2 + 1) := Nat.lt_log2_self
  obtain ⟨e1, e2⟩ := est_p10idx_row C.log2 (by omega)
  unfold estDigitsLookup estDigitsAt
  rw [e1, e2, ndigitsSlow_in_bucket _ hlo hhi]

/-- the same, against the model's fast digit count -/
theorem estDigits_mechanism_ndigits {C : Nat} (h0 : 0 < C) (hC : C < 2 ^ 113) :
    estDigitsLookup Dec.Gen.BID_ESTIMATE_DECIMAL_DIGITS Dec.Gen.BID_POWER10_INDEX_BINEXP_128 C = ndigits C := by
  rw [ndigits_eq_slow]; exact estDigits_mechanism h0 hC

/-- No power of ten lies within a factor `1 − 2^-20` below a power of two `2^i`, `i ≤ 113`:
`10^(digits(2^i) − 1) ≤ 2^i − ⌈2^i / 2^20⌉`. (For `i < 20` this says `10^(d−1) ≤ 2^i − 1`, true for `i ≥ 1`.) -/
theorem pow10_not_just_below_pow2 :
    (List.range 113).all (fun j =>
      decide (10 ^ (ndigitsSlow (2 ^ (j + 1)) - 1) ≤ 2 ^ (j + 1) - cdiv (2 ^ (j + 1)) (2 ^ 20))) = true := by
  decide +kernel

/-- **Idiom 2 when the bit-length estimate is one too large.** The code obtains `i` from the exponent field of a
single-precision conversion of `C`, which can round up to the next power of two; then `i = ⌊log₂ C⌋ + 1` while
`C ≥ 2^i·(1 − 2^-20)` (single precision has 24 bits; the conversion here rounds three times, relative error < 2^-22; it is never
too small, as rounding is monotone and powers of two are representable). The lookup is still exact:
for `1 ≤ i ≤ 113` and `2^i − ⌈2^i/2^20⌉ ≤ C < 2^i`, `EST[i] + (C ≥ P10IDX[i] ? 1 : 0) = digits of C`. -/
theorem estDigits_mechanism_over {i C : Nat} (h1 : 1 ≤ i) (hi : i ≤ 113)
    (hlo : 2 ^ i - cdiv (2 ^ i) (2 ^ 20) ≤ C) (hhi : C < 2 ^ i) (h0 : 0 < C) :
    estDigitsAt Dec.Gen.BID_ESTIMATE_DECIMAL_DIGITS Dec.Gen.BID_POWER10_INDEX_BINEXP_128 i C = ndigitsSlow C := by
  obtain ⟨j, rfl⟩ : ∃ j, i = j + 1 := ⟨i - 1, by omega⟩
  obtain ⟨e1, e2⟩ := est_p10idx_row (j + 1) (by omega)
  have hrow := List.all_eq_true.1 pow10_not_just_below_pow2 j (List.mem_range.2 (by omega))
  simp only [decide_eq_true_eq] at hrow
  have hp : 0 < 2 ^ (j + 1) := Nat.pow_pos (by decide)
  obtain ⟨s1, s2⟩ := ndigitsSlow_spec hp
  have hd := ndigitsSlow_pos hp
  unfold estDigitsAt
  rw [e1, e2, if_neg (by omega), Nat.add_zero]
  -- 10^(d-1) ≤ C < 10^d
  obtain ⟨c1, c2⟩ := ndigitsSlow_spec h0
  exact digits_unique (Nat.le_trans hrow hlo) (by omega) c1 c2 hd (ndigitsSlow_pos h0)

example : estDigitsLookup Dec.Gen.BID_ESTIMATE_DECIMAL_DIGITS Dec.Gen.BID_POWER10_INDEX_BINEXP_128 999 = 3
    ∧ estDigitsLookup Dec.Gen.BID_ESTIMATE_DECIMAL_DIGITS Dec.Gen.BID_POWER10_INDEX_BINEXP_128 1000 = 4
    ∧ estDigitsLookup Dec.Gen.BID_ESTIMATE_DECIMAL_DIGITS Dec.Gen.BID_POWER10_INDEX_BINEXP_128 (10 ^ 34 - 1) = 34
    ∧ estDigitsLookup Dec.Gen.BID_ESTIMATE_DECIMAL_DIGITS Dec.Gen.BID_POWER10_INDEX_BINEXP_128 (10 ^ 20) = 21
    -- over-estimated bucket: C = 2^30 − 1 looked up at i = 30
    ∧ estDigitsAt Dec.Gen.BID_ESTIMATE_DECIMAL_DIGITS Dec.Gen.BID_POWER10_INDEX_BINEXP_128 30 (2 ^ 30 - 1) = 10 := by
  decide +kernel

end Dec.TableFacts
