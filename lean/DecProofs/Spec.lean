/-
  DecProofs.Spec — the ℚ-valued meaning of data, against which the property theorems are stated.
  (Mathlib is imported only in DecProofs/*, never in DecModel/*.)
-/
import Mathlib.Data.Rat.Defs
import Mathlib.Algebra.Order.Field.Basic
import Mathlib.Tactic.Ring
import Mathlib.Tactic.Linarith
import Mathlib.Tactic.Positivity
import Mathlib.Tactic.NormNum
import DecModel.Ops

namespace Dec

/-- `(-1)^neg · c · 10^e` -/
def fval (neg : Bool) (c : Nat) (e : Int) : ℚ := (if neg then -1 else 1) * (c : ℚ) * (10 : ℚ) ^ e

/-- the rational value of a finite datum -/
def Datum.val : Datum → Option ℚ
  | .fin s c e => some (fval s c e)
  | _ => none

/-- a finite member of the format: coefficient below 10^34, exponent in range -/
def Representable (c : Nat) (e : Int) : Prop := c < P34 ∧ eMin ≤ e ∧ e ≤ eMax

/-- `m` is `v` (a non-negative rational, the magnitude of a value of sign `neg`) rounded to an integer
in `mode`: within one unit on the mode's side; nearest with the tie rule for the two nearest modes. -/
def RoundedTo (mode : Mode) (neg : Bool) (v : ℚ) (m : Nat) : Prop :=
  match mode with
  | .rtz => (m : ℚ) ≤ v ∧ v < m + 1
  | .rdn => if neg then (v ≤ m ∧ (m : ℚ) < v + 1) else ((m : ℚ) ≤ v ∧ v < m + 1)
  | .rup => if neg then ((m : ℚ) ≤ v ∧ v < m + 1) else (v ≤ m ∧ (m : ℚ) < v + 1)
  | .rne => |v - m| ≤ 1/2 ∧ (|v - m| = 1/2 → m % 2 = 0)
  | .rna => |v - m| ≤ 1/2 ∧ (|v - m| = 1/2 → v ≤ m)

end Dec
