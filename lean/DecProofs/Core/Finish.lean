/-
  DecProofs.Core.Finish — the specification of `Dec.finish`, the single rounding / exponent-selection
  step of the model: exact members come back exactly with the cohort exponent closest to the preferred
  one; everything else is rounded once, correctly, at the least possible exponent.
-/
import DecProofs.Spec
import DecProofs.Core.RoundInt
import DecProofs.Core.Digits
import Mathlib.Tactic.FieldSimp
import Mathlib.Tactic.Push

namespace Dec


theorem fval_false (m : Nat) (x : Int) : fval false m x = (m : ℚ) * (10 : ℚ) ^ x := by
  simp [fval]

theorem fval_true (m : Nat) (x : Int) : fval true m x = -((m : ℚ) * (10 : ℚ) ^ x) := by
  simp [fval]

theorem P34_cast : ((P34 : Nat) : ℚ) = (10 : ℚ) ^ (34 : ℤ) := by
  unfold P34; norm_num

theorem P33_cast : ((P33 : Nat) : ℚ) = (10 : ℚ) ^ (33 : ℤ) := by
  unfold P33; norm_num

theorem P34_eq : P34 = 10 ^ 34 := by decide
theorem P33_eq : P33 = 10 ^ 33 := by decide

/-! ### from the integer rounding spec to the rational one -/

theorem RoundedTo_of_RoundedInt {mode : Mode} {neg : Bool} {V D m : Nat} (hD : 0 < D)
    (h : RoundedInt mode neg V D m) : RoundedTo mode neg ((V : ℚ) / D) m := by
  have hDq : (0 : ℚ) < D := by exact_mod_cast hD
  obtain ⟨w, hw⟩ : ∃ w : ℚ, w = (V : ℚ) / D := ⟨_, rfl⟩
  have hV : (V : ℚ) = w * D := by rw [hw]; field_simp
  rw [← hw]
  have lo : ∀ a : ℚ, a * D ≤ w * D → a ≤ w := fun a h => le_of_mul_le_mul_right h hDq
  have hi : ∀ a : ℚ, w * D ≤ a * D → w ≤ a := fun a h => le_of_mul_le_mul_right h hDq
  have lo' : ∀ a : ℚ, a * D < w * D → a < w := fun a h => lt_of_mul_lt_mul_right h hDq.le
  have hi' : ∀ a : ℚ, w * D < a * D → w < a := fun a h => lt_of_mul_lt_mul_right h hDq.le
  have tie : |w - m| = 1 / 2 → (2 * V = 2 * m * D + D ∨ 2 * m * D = 2 * V + D) := by
    intro ht
    rcases abs_cases (w - (m : ℚ)) with ⟨e, _⟩ | ⟨e, _⟩
    · left
      have : (2 * (V : ℚ)) = 2 * m * D + D := by rw [hV]; have : w = m + 1 / 2 := by linarith
                                                 rw [this]; ring
      exact_mod_cast this
    · right
      have : (2 * (m : ℚ) * D) = 2 * V + D := by rw [hV]; have : w = m - 1 / 2 := by linarith
                                                 rw [this]; ring
      exact_mod_cast this
  cases mode <;> cases neg <;> simp only [RoundedInt, RoundedTo, if_true, if_false, Bool.false_eq_true] at h ⊢
  all_goals
    first
    | (obtain ⟨h1, h2⟩ := h
       have h1q : ((_ : ℕ) : ℚ) ≤ _ := Nat.cast_le.mpr h1
       have h2q : ((_ : ℕ) : ℚ) < _ := Nat.cast_lt.mpr h2
       push_cast at h1q h2q
       rw [hV] at h1q h2q
       constructor
       · first | exact lo _ (by linarith) | exact hi _ (by linarith)
       · first | exact hi' _ (by linarith) | (have := lo' ((m : ℚ) - 1) (by linarith); linarith))
    | (obtain ⟨⟨h1, h2⟩, h3⟩ := h
       have h1q : ((_ : ℕ) : ℚ) ≤ _ := Nat.cast_le.mpr h1
       have h2q : ((_ : ℕ) : ℚ) ≤ _ := Nat.cast_le.mpr h2
       push_cast at h1q h2q
       rw [hV] at h1q h2q
       refine ⟨abs_le.mpr ⟨?_, ?_⟩, fun ht => ?_⟩
       · have := lo ((m : ℚ) - 1 / 2) (by linarith); linarith
       · have := hi ((m : ℚ) + 1 / 2) (by linarith); linarith
       · first
         | exact h3 (tie ht)
         | (have := h3 (tie ht)
            have hq : ((_ : ℕ) : ℚ) ≤ _ := Nat.cast_le.mpr this
            push_cast at hq
            rw [hV] at hq
            exact hi _ hq))


theorem clampInt_spec {lo hi : Int} (x : Int) (h : lo ≤ hi) :
    lo ≤ clampInt lo hi x ∧ clampInt lo hi x ≤ hi ∧
      ∀ y, lo ≤ y → y ≤ hi → |clampInt lo hi x - x| ≤ |y - x| := by
  unfold clampInt
  refine ⟨by split <;> [omega; (split <;> omega)], by split <;> [omega; (split <;> omega)], ?_⟩
  intro y h1 h2
  rcases abs_cases (y - x) with ⟨e, _⟩ | ⟨e, _⟩ <;> rw [e] <;> split <;> (try split) <;>
    (rename_i hh; rcases abs_cases (_ - x) with ⟨e', _⟩ | ⟨e', _⟩ <;> rw [e'] <;> omega)

theorem ten_pos : (0 : ℚ) < 10 := by norm_num
theorem ten_ne : (10 : ℚ) ≠ 0 := by norm_num
theorem one_lt_ten : (1 : ℚ) < 10 := by norm_num

/-- a zpow with a non-negative exponent is the cast of a natural power -/
theorem zpow_toNat {k : Int} (hk : 0 ≤ k) : (10 : ℚ) ^ k = ((10 ^ k.toNat : Nat) : ℚ) := by
  rw [Nat.cast_pow, ← zpow_natCast, Int.toNat_of_nonneg hk]; rfl

/-- exponent of a member with the same value is at least the least possible exponent -/
theorem member_ge_x0 {m' : Nat} {x' x0 : Int} {w : ℚ} (hr : Representable m' x')
    (hv : (m' : ℚ) * (10 : ℚ) ^ x' = w * (10 : ℚ) ^ x0) (hleast : x0 = eMin ∨ (10 : ℚ) ^ (33 : ℤ) ≤ w) :
    x0 ≤ x' := by
  obtain ⟨h1, h2, h3⟩ := hr
  rcases hleast with h | h
  · omega
  · have hm : (m' : ℚ) < (10 : ℚ) ^ (34 : ℤ) := by rw [← P34_cast]; exact_mod_cast h1
    have hp : (0 : ℚ) < (10 : ℚ) ^ x' := zpow_pos ten_pos _
    have hp0 : (0 : ℚ) < (10 : ℚ) ^ x0 := zpow_pos ten_pos _
    have a : (10 : ℚ) ^ (33 + x0) ≤ w * (10 : ℚ) ^ x0 := by
      rw [zpow_add₀ ten_ne]; exact mul_le_mul_of_nonneg_right h hp0.le
    have b : (m' : ℚ) * (10 : ℚ) ^ x' < (10 : ℚ) ^ (34 + x') := by
      rw [zpow_add₀ ten_ne]; exact mul_lt_mul_of_pos_right hm hp
    have c : (10 : ℚ) ^ (33 + x0) < (10 : ℚ) ^ (34 + x') := by linarith
    have := (zpow_lt_zpow_iff_right₀ one_lt_ten).mp c
    omega

/-- ... and then the scaled value is a natural number -/
theorem member_int {m' : Nat} {x' x0 : Int} {w : ℚ} (hx : x0 ≤ x')
    (hv : (m' : ℚ) * (10 : ℚ) ^ x' = w * (10 : ℚ) ^ x0) :
    w = ((m' * 10 ^ (x' - x0).toNat : Nat) : ℚ) := by
  have hp0 : (10 : ℚ) ^ x0 ≠ 0 := (zpow_pos ten_pos _).ne'
  have e : (10 : ℚ) ^ x' = (10 : ℚ) ^ (x' - x0) * (10 : ℚ) ^ x0 := by
    rw [← zpow_add₀ ten_ne]; congr 1; ring
  rw [e, ← mul_assoc] at hv
  have := mul_right_cancel₀ hp0 hv
  rw [← this, zpow_toNat (by omega)]
  push_cast; rfl

theorem exact_core (q : Nat) (hq0 : 0 < q) (hq : q < P34) (x0 pref : Int) (hx0 : eMin ≤ x0)
    (hx : x0 ≤ eMax) (hleast : x0 = eMin ∨ P33 ≤ q) :
    let x := clampInt x0 (if x0 + trailingZeros 34 q > eMax then eMax else x0 + trailingZeros 34 q) pref
    let m := q / 10 ^ (x - x0).toNat
    (m : ℚ) * (10 : ℚ) ^ x = q * (10 : ℚ) ^ x0 ∧ Representable m x ∧
      ∀ m' x', Representable m' x' → (m' : ℚ) * (10 : ℚ) ^ x' = q * (10 : ℚ) ^ x0 → |x - pref| ≤ |x' - pref| := by
  intro x m
  have hq' : q < 10 ^ 34 := by rw [← P34_eq]; exact hq
  obtain ⟨hi, hhi⟩ : ∃ hi : Int, hi = (if x0 + trailingZeros 34 q > eMax then eMax else x0 + trailingZeros 34 q) := ⟨_, rfl⟩
  have hlohi : x0 ≤ hi := by rw [hhi]; split <;> omega
  have hhi1 : hi ≤ eMax := by rw [hhi]; split <;> omega
  have hhi2 : hi ≤ x0 + trailingZeros 34 q := by rw [hhi]; split <;> omega
  have hxdef : x = clampInt x0 hi pref := by rw [hhi]
  obtain ⟨c1, c2, c3⟩ := clampInt_spec pref hlohi
  rw [← hxdef] at c1 c2 c3
  have hk : (x - x0).toNat ≤ trailingZeros 34 q := by omega
  have hdvd : 10 ^ (x - x0).toNat ∣ q := (dvd_iff_le_trailingZeros hq0 hq').mpr hk
  have hm : m * 10 ^ (x - x0).toNat = q := Nat.div_mul_cancel hdvd
  refine ⟨?_, ⟨?_, by omega, by omega⟩, ?_⟩
  · have e : (10 : ℚ) ^ x = (10 : ℚ) ^ (x - x0) * (10 : ℚ) ^ x0 := by
      rw [← zpow_add₀ ten_ne]; congr 1; ring
    rw [e, ← mul_assoc, zpow_toNat (by omega), ← Nat.cast_mul, hm]
  · exact Nat.lt_of_le_of_lt (Nat.div_le_self _ _) hq
  · intro m' x' hr hv
    have hle : x0 ≤ x' := by
      apply member_ge_x0 hr hv
      rcases hleast with h | h
      · left; exact h
      · right; rw [← P33_cast]; exact_mod_cast h
    have hqe := member_int hle hv
    have hqe' : q = m' * 10 ^ (x' - x0).toNat := by exact_mod_cast hqe
    have : (x' - x0).toNat ≤ trailingZeros 34 q :=
      (dvd_iff_le_trailingZeros hq0 hq').mp ⟨m', by rw [hqe', Nat.mul_comm]⟩
    exact c3 x' hle (by have := hr.2.2; omega)


theorem RoundedTo_exists (mode : Mode) (neg : Bool) {u : ℚ} (hu : 0 ≤ u) : ∃ M, RoundedTo mode neg u M := by
  have hnum : 0 ≤ u.num := Rat.num_nonneg.mpr hu
  obtain ⟨N, hN⟩ := Int.eq_ofNat_of_zero_le hnum
  have hD : 0 < u.den := u.den_pos
  refine ⟨roundInt mode neg (N / u.den) (N % u.den) u.den, ?_⟩
  have h := roundInt_spec mode neg (N / u.den) (N % u.den) u.den (Nat.mod_lt _ hD)
  rw [Nat.div_add_mod'] at h
  have h2 := RoundedTo_of_RoundedInt hD h
  have e : (N : ℚ) / u.den = u := by
    have := Rat.num_div_den u; rw [hN, Int.cast_natCast] at this; exact this
  rwa [e] at h2

theorem RoundedTo_ge {mode : Mode} {neg : Bool} {u : ℚ} {M K : Nat} (hK : (K : ℚ) ≤ u)
    (h : RoundedTo mode neg u M) : K ≤ M := by
  have : (K : ℚ) < M + 1 := by
    cases mode <;> cases neg <;> simp only [RoundedTo, if_true, if_false, Bool.false_eq_true] at h <;>
      first
      | (obtain ⟨h1, h2⟩ := h; linarith)
      | (obtain ⟨h1, h2⟩ := h; have := abs_le.mp h1; linarith)
  have : K < M + 1 := by exact_mod_cast this
  omega

theorem RoundedTo_le {mode : Mode} {neg : Bool} {u : ℚ} {M K : Nat} (hK : u ≤ (K : ℚ))
    (h : RoundedTo mode neg u M) : M ≤ K := by
  have : (M : ℚ) < K + 1 := by
    cases mode <;> cases neg <;> simp only [RoundedTo, if_true, if_false, Bool.false_eq_true] at h <;>
      first
      | (obtain ⟨h1, h2⟩ := h; linarith)
      | (obtain ⟨h1, h2⟩ := h; have := abs_le.mp h1; linarith)
  have : M < K + 1 := by exact_mod_cast this
  omega

/-- The rounding is unique. -/
theorem RoundedTo_unique {mode : Mode} {neg : Bool} {u : ℚ} {M M' : Nat}
    (h : RoundedTo mode neg u M) (h' : RoundedTo mode neg u M') : M = M' := by
  cases mode <;> cases neg <;> simp only [RoundedTo, if_true, if_false, Bool.false_eq_true] at h h'
  all_goals
    first
    | (obtain ⟨h1, h2⟩ := h; obtain ⟨h1', h2'⟩ := h'
       have a : (M : ℚ) < M' + 1 := by linarith
       have b : (M' : ℚ) < M + 1 := by linarith
       have a' : M < M' + 1 := by exact_mod_cast a
       have b' : M' < M + 1 := by exact_mod_cast b
       omega)
    | (obtain ⟨h1, h2⟩ := h; obtain ⟨h1', h2'⟩ := h'
       have c := abs_le.mp h1; have c' := abs_le.mp h1'
       have a : (M : ℚ) ≤ M' + 1 := by linarith
       have b : (M' : ℚ) ≤ M + 1 := by linarith
       have a' : M ≤ M' + 1 := by exact_mod_cast a
       have b' : M' ≤ M + 1 := by exact_mod_cast b
       by_contra hne
       rcases (by omega : M = M' + 1 ∨ M' = M + 1) with e | e
       · subst e
         push_cast at *
         have t1 : |u - ((M' : ℚ) + 1)| = 1 / 2 := by rw [abs_sub_comm, abs_of_nonneg] <;> linarith
         have t2 : |u - (M' : ℚ)| = 1 / 2 := by rw [abs_of_nonneg] <;> linarith
         have r1 := h2 t1; have r2 := h2' t2
         first | omega | linarith
       · subst e
         push_cast at *
         have t1 : |u - ((M : ℚ) + 1)| = 1 / 2 := by rw [abs_sub_comm, abs_of_nonneg] <;> linarith
         have t2 : |u - (M : ℚ)| = 1 / 2 := by rw [abs_of_nonneg] <;> linarith
         have r1 := h2' t1; have r2 := h2 t2
         first | omega | linarith)

theorem RoundedTo_small (mode : Mode) (neg : Bool) {u : ℚ} (hu0 : 0 < u) (hu : u < 1 / 2) :
    RoundedTo mode neg u (roundInt mode neg 0 1 4) := by
  have e1 : ∀ s, roundInt .rne s 0 1 4 = 0 := by decide
  have e2 : ∀ s, roundInt .rna s 0 1 4 = 0 := by decide
  have e3 : ∀ s, roundInt .rtz s 0 1 4 = 0 := by decide
  have e4 : roundInt .rdn true 0 1 4 = 1 := by decide
  have e5 : roundInt .rdn false 0 1 4 = 0 := by decide
  have e6 : roundInt .rup true 0 1 4 = 0 := by decide
  have e7 : roundInt .rup false 0 1 4 = 1 := by decide
  cases mode <;> cases neg <;> simp only [e1, e2, e3, e4, e5, e6, e7]
  all_goals simp only [RoundedTo, if_true, if_false, Bool.false_eq_true, Nat.cast_zero, Nat.cast_one, sub_zero, zero_add]
  all_goals
    first
    | (constructor <;> linarith)
    | (rw [abs_of_pos hu0]
       exact ⟨hu.le, fun h => absurd h (ne_of_lt hu)⟩)

/-! ### the scaled numerator / denominator of `finish` -/

/-- the rounding exponent: `max eMin (lg - 33)` -/
def fx0 (lg : Int) : Int := if lg - 33 < eMin then eMin else lg - 33
/-- numerator of `v / 10^x0` -/
def fnum (n : Nat) (sh : Int) : Nat := if sh ≥ 0 then n * 10 ^ sh.toNat else n
/-- denominator of `v / 10^x0` -/
def fden (d : Nat) (sh : Int) : Nat := if sh ≥ 0 then d else d * 10 ^ (-sh).toNat

theorem fden_pos {d : Nat} (hd : 0 < d) (sh : Int) : 0 < fden d sh := by
  unfold fden; split
  · exact hd
  · exact Nat.mul_pos hd (Nat.pow_pos (by omega))

theorem fnum_pos {n : Nat} (hn : 0 < n) (sh : Int) : 0 < fnum n sh := by
  unfold fnum; split
  · exact Nat.mul_pos hn (Nat.pow_pos (by omega))
  · exact hn

theorem fnum_fden_val (n : Nat) {d : Nat} (hd : 0 < d) (sh : Int) :
    ((fnum n sh : Nat) : ℚ) / (fden d sh : Nat) = (n : ℚ) / d * (10 : ℚ) ^ sh := by
  have hdq : (d : ℚ) ≠ 0 := by exact_mod_cast (by omega : d ≠ 0)
  unfold fnum fden
  by_cases h : sh ≥ 0
  · simp only [h, if_true]
    rw [zpow_toNat h]; push_cast; ring
  · simp only [h, if_false]
    have : (10 : ℚ) ^ sh = (((10 ^ (-sh).toNat : Nat) : ℚ))⁻¹ := by
      rw [← zpow_toNat (by omega), zpow_neg, inv_inv]
    rw [this]
    have hp : ((10 ^ (-sh).toNat : Nat) : ℚ) ≠ 0 := by
      rw [← zpow_toNat (by omega)]; exact (zpow_pos ten_pos _).ne'
    push_cast at hp ⊢
    field_simp


/-! ### unfolding `finish` -/



def finishAt (mode : Mode) (neg : Bool) (num den : Nat) (x0 pref : Int) (tiny : Bool) : Datum × Flags :=
  let q := num / den
  let r := num % den
  if r = 0 then
    if x0 > eMax then (overflowResult mode neg, fOverflow ||| fInexact)
    else
      let tz := trailingZeros 34 q
      let hi : Int := if x0 + tz > eMax then eMax else x0 + tz
      let x := clampInt x0 hi pref
      (.fin neg (q / 10 ^ (x - x0).toNat) x, 0)
  else
    let m := roundInt mode neg q r den
    let mx : Nat × Int := if m = P34 then (P33, x0 + 1) else (m, x0)
    if mx.2 > eMax then (overflowResult mode neg, fOverflow ||| fInexact)
    else (.fin neg mx.1 mx.2, if tiny then fUnderflow ||| fInexact else fInexact)

theorem finish_eq (mode : Mode) (neg : Bool) (n d : Nat) (e pref : Int) :
    finish mode neg n d e pref =
      (if ilog10Ratio n d + e > 7000 then (overflowResult mode neg, fOverflow ||| fInexact) else
       if ilog10Ratio n d + e < -7000 then (.fin neg (roundInt mode neg 0 1 4) eMin, fUnderflow ||| fInexact) else
       finishAt mode neg (fnum n (e - fx0 (ilog10Ratio n d + e))) (fden d (e - fx0 (ilog10Ratio n d + e)))
         (fx0 (ilog10Ratio n d + e)) pref (decide (ilog10Ratio n d + e - 33 < eMin))) := by
  rfl

theorem finishAt_exact (mode : Mode) (neg : Bool) (num den : Nat) (x0 pref : Int) (tiny : Bool)
    (hr : num % den = 0) (hx : x0 ≤ eMax) :
    finishAt mode neg num den x0 pref tiny =
      (.fin neg ((num / den) / 10 ^ (clampInt x0 (if x0 + trailingZeros 34 (num / den) > eMax then eMax else x0 + trailingZeros 34 (num / den)) pref - x0).toNat)
        (clampInt x0 (if x0 + trailingZeros 34 (num / den) > eMax then eMax else x0 + trailingZeros 34 (num / den)) pref), 0) := by
  have : ¬ x0 > eMax := by omega
  simp only [finishAt, hr, this, if_true, if_false]

theorem finishAt_exact_ovf (mode : Mode) (neg : Bool) (num den : Nat) (x0 pref : Int) (tiny : Bool)
    (hr : num % den = 0) (hx : x0 > eMax) :
    finishAt mode neg num den x0 pref tiny = (overflowResult mode neg, fOverflow ||| fInexact) := by
  simp only [finishAt, hr, hx, if_true]

theorem finishAt_inexact_carry (mode : Mode) (neg : Bool) (num den : Nat) (x0 pref : Int) (tiny : Bool)
    (hr : num % den ≠ 0) (hm : roundInt mode neg (num / den) (num % den) den = P34) :
    finishAt mode neg num den x0 pref tiny =
      if x0 + 1 > eMax then (overflowResult mode neg, fOverflow ||| fInexact)
      else (.fin neg P33 (x0 + 1), if tiny then fUnderflow ||| fInexact else fInexact) := by
  simp only [finishAt, hr, hm, if_true, if_false]

theorem finishAt_inexact (mode : Mode) (neg : Bool) (num den : Nat) (x0 pref : Int) (tiny : Bool)
    (hr : num % den ≠ 0) (hm : roundInt mode neg (num / den) (num % den) den ≠ P34) :
    finishAt mode neg num den x0 pref tiny =
      if x0 > eMax then (overflowResult mode neg, fOverflow ||| fInexact)
      else (.fin neg (roundInt mode neg (num / den) (num % den) den) x0, if tiny then fUnderflow ||| fInexact else fInexact) := by
  simp only [finishAt, hr, hm, if_false]

/-! ### the specification -/

/-- `v` is (the magnitude of) a finite member of the format -/
def IsMember (v : ℚ) : Prop := ∃ m x, Representable m x ∧ fval false m x = v

/--
`out` is the correctly rounded delivery of the exact value `(-1)^neg · v` (`v > 0` the magnitude) with
preferred exponent `pref`:

* exact: `v` is a member of the format; the result is the member of the cohort of `v` whose exponent is
  closest to `pref`; no flag;
* inexact: `v` is not a member; the result `m·10^x` has the least possible exponent (`m` has 34 digits or
  `x = eMin`) and `m` is `v / 10^x` rounded to an integer in `mode` — or the rounding at exponent `x - 1`
  carried to `10^34`, renormalised to `10^33·10^x`; inexact is raised, and underflow iff `v < 10^-6143`;
* overflow: `v` is not a member, `v / 10^eMax` rounds to at least `10^34`; the result is the mode's
  overflow result with overflow and inexact.
-/
def FinishSpec (mode : Mode) (neg : Bool) (v : ℚ) (pref : Int) (out : Datum × Flags) : Prop :=
  (IsMember v ∧ ∃ m x, out = (.fin neg m x, 0) ∧ fval false m x = v ∧ Representable m x ∧
      ∀ m' x', Representable m' x' → fval false m' x' = v → |x - pref| ≤ |x' - pref|)
  ∨ (¬ IsMember v ∧ ∃ m x,
      out = (.fin neg m x, if v < (10 : ℚ) ^ (-6143 : ℤ) then fUnderflow ||| fInexact else fInexact) ∧
      m < P34 ∧ eMin ≤ x ∧ x ≤ eMax ∧ (P33 ≤ m ∨ x = eMin) ∧
      (RoundedTo mode neg (v / (10 : ℚ) ^ x) m ∨ (m = P33 ∧ RoundedTo mode neg (v / (10 : ℚ) ^ (x - 1)) P34)))
  ∨ (¬ IsMember v ∧ out = (overflowResult mode neg, fOverflow ||| fInexact) ∧
      ∃ M, RoundedTo mode neg (v / (10 : ℚ) ^ eMax) M ∧ P34 ≤ M)

/-- a member is below `10^(34 + eMax)` -/
theorem member_lt {m : Nat} {x : Int} (hr : Representable m x) :
    (m : ℚ) * (10 : ℚ) ^ x < (10 : ℚ) ^ (34 + eMax) := by
  obtain ⟨h1, h2, h3⟩ := hr
  have hm : (m : ℚ) < (10 : ℚ) ^ (34 : ℤ) := by rw [← P34_cast]; exact_mod_cast h1
  have hp : (0 : ℚ) < (10 : ℚ) ^ x := zpow_pos ten_pos _
  calc (m : ℚ) * (10 : ℚ) ^ x < (10 : ℚ) ^ (34 : ℤ) * (10 : ℚ) ^ x := mul_lt_mul_of_pos_right hm hp
    _ = (10 : ℚ) ^ (34 + x) := by rw [zpow_add₀ ten_ne]
    _ ≤ (10 : ℚ) ^ (34 + eMax) := zpow_le_zpow_right₀ one_lt_ten.le (by omega)

/-- a positive member is at least `10^eMin` -/
theorem member_ge {m : Nat} {x : Int} (hr : Representable m x) (hpos : 0 < (m : ℚ) * (10 : ℚ) ^ x) :
    (10 : ℚ) ^ eMin ≤ (m : ℚ) * (10 : ℚ) ^ x := by
  obtain ⟨h1, h2, h3⟩ := hr
  have hp : (0 : ℚ) < (10 : ℚ) ^ x := zpow_pos ten_pos _
  have hm0 : m ≠ 0 := by
    rintro rfl; simp at hpos
  have hm : (1 : ℚ) ≤ m := by exact_mod_cast (by omega : 1 ≤ m)
  calc (10 : ℚ) ^ eMin ≤ (10 : ℚ) ^ x := zpow_le_zpow_right₀ one_lt_ten.le h2
    _ = 1 * (10 : ℚ) ^ x := (one_mul _).symm
    _ ≤ (m : ℚ) * (10 : ℚ) ^ x := mul_le_mul_of_nonneg_right hm hp.le

/-- the overflow clause for values of at least `10^(34 + eMax)` -/
theorem overflow_clause (mode : Mode) (neg : Bool) {v : ℚ} (hv : (10 : ℚ) ^ (34 + eMax) ≤ v) :
    ¬ IsMember v ∧ ∃ M, RoundedTo mode neg (v / (10 : ℚ) ^ eMax) M ∧ P34 ≤ M := by
  have hp : (0 : ℚ) < (10 : ℚ) ^ eMax := zpow_pos ten_pos _
  have hge : ((P34 : Nat) : ℚ) ≤ v / (10 : ℚ) ^ eMax := by
    rw [P34_cast, le_div_iff₀ hp, ← zpow_add₀ ten_ne]; exact hv
  constructor
  · rintro ⟨m, x, hr, hval⟩
    have := member_lt hr
    rw [fval_false] at hval
    linarith
  · have h0 : 0 ≤ v / (10 : ℚ) ^ eMax := le_trans (Nat.cast_nonneg _) hge
    obtain ⟨M, hM⟩ := RoundedTo_exists mode neg h0
    exact ⟨M, hM, RoundedTo_ge hge hM⟩

theorem flags_ne_zero (b : Prop) [Decidable b] :
    (0 : Flags) ≠ (if b then fUnderflow ||| fInexact else fInexact) := by
  split <;> decide

/-- The specification of the main branch of `finish`: `num/den = v / 10^x0`, which is below `10^34`,
and `x0` is the least possible exponent. -/
theorem finishAt_spec (mode : Mode) (neg : Bool) (num den : Nat) (x0 pref : Int) (tiny : Bool)
    (hden : 0 < den) (hnum : 0 < num)
    (hw34 : (num : ℚ) / den < (10 : ℚ) ^ (34 : ℤ)) (hx0 : eMin ≤ x0)
    (hleast : x0 = eMin ∨ (10 : ℚ) ^ (33 : ℤ) ≤ (num : ℚ) / den)
    (htiny : tiny = true ↔ (num : ℚ) / den * (10 : ℚ) ^ x0 < (10 : ℚ) ^ (-6143 : ℤ)) :
    FinishSpec mode neg ((num : ℚ) / den * (10 : ℚ) ^ x0) pref (finishAt mode neg num den x0 pref tiny) := by
  have hdenq : (0 : ℚ) < den := by exact_mod_cast hden
  have hp0 : (0 : ℚ) < (10 : ℚ) ^ x0 := zpow_pos ten_pos _
  have hdm : num / den * den + num % den = num := Nat.div_add_mod' num den
  have hrlt : num % den < den := Nat.mod_lt _ hden
  obtain ⟨q, hq⟩ : ∃ q, q = num / den := ⟨_, rfl⟩
  obtain ⟨r, hr⟩ : ∃ r, r = num % den := ⟨_, rfl⟩
  obtain ⟨w, hw⟩ : ∃ w : ℚ, w = (num : ℚ) / den := ⟨_, rfl⟩
  rw [← hq, ← hr] at hdm
  rw [← hr] at hrlt
  rw [← hw] at hw34 hleast htiny ⊢
  have hnumq : (num : ℚ) = q * den + r := by exact_mod_cast hdm.symm
  have hwq : w = q + (r : ℚ) / den := by rw [hw, hnumq]; field_simp
  have hr0 : (0 : ℚ) ≤ (r : ℚ) / den := by positivity
  have hr1 : (r : ℚ) / den < 1 := by
    rw [div_lt_one hdenq]; exact_mod_cast hrlt
  have hq34 : q < P34 := by
    have : (q : ℚ) < ((P34 : Nat) : ℚ) := by rw [P34_cast]; linarith
    exact_mod_cast this
  have hleastq : x0 = eMin ∨ P33 ≤ q := by
    rcases hleast with h | h
    · left; exact h
    · right
      have : ((P33 : Nat) : ℚ) < (q : ℚ) + 1 := by rw [P33_cast]; linarith
      have : P33 < q + 1 := by exact_mod_cast this
      omega
  -- overflow by a too large exponent
  have big : x0 > eMax → (10 : ℚ) ^ (34 + eMax) ≤ w * (10 : ℚ) ^ x0 := by
    intro hx
    have h33 : (10 : ℚ) ^ (33 : ℤ) ≤ w := by
      rcases hleast with h | h
      · exfalso; unfold eMin eMax at *; omega
      · exact h
    calc (10 : ℚ) ^ (34 + eMax) ≤ (10 : ℚ) ^ (33 + x0) := zpow_le_zpow_right₀ one_lt_ten.le (by omega)
      _ = (10 : ℚ) ^ (33 : ℤ) * (10 : ℚ) ^ x0 := by rw [zpow_add₀ ten_ne]
      _ ≤ w * (10 : ℚ) ^ x0 := mul_le_mul_of_nonneg_right h33 hp0.le
  have hdivx0 : w * (10 : ℚ) ^ x0 / (10 : ℚ) ^ x0 = w := by field_simp
  by_cases hrz : r = 0
  · -- exact
    have hwq' : w = q := by rw [hwq, hrz]; simp
    have hq0 : 0 < q := by
      rcases Nat.eq_zero_or_pos q with h | h
      · rw [h, hrz] at hdm; omega
      · exact h
    by_cases hx : x0 > eMax
    · right; right
      obtain ⟨a, b⟩ := overflow_clause mode neg (big hx)
      refine ⟨a, ?_, b⟩
      rw [finishAt_exact_ovf _ _ _ _ _ _ _ (by rw [← hr]; exact hrz) hx]
    · left
      have hx' : x0 ≤ eMax := by omega
      obtain ⟨c1, c2, c3⟩ := exact_core q hq0 hq34 x0 pref hx0 hx' hleastq
      rw [hwq']
      refine ⟨⟨_, _, c2, by rw [fval_false]; exact c1⟩, _, _, ?_, by rw [fval_false]; exact c1, c2, ?_⟩
      · rw [finishAt_exact _ _ _ _ _ _ _ (by rw [← hr]; exact hrz) hx', ← hq]
      · intro m' x' hrep hval
        rw [fval_false] at hval
        exact c3 m' x' hrep hval
  · -- inexact
    have hnotmem : ¬ IsMember (w * (10 : ℚ) ^ x0) := by
      rintro ⟨m', x', hrep, hval⟩
      rw [fval_false] at hval
      have hle := member_ge_x0 hrep hval hleast
      have hK := member_int hle hval
      rw [hw, div_eq_iff hdenq.ne'] at hK
      have hK' : num = m' * 10 ^ (x' - x0).toNat * den := by exact_mod_cast hK
      apply hrz
      rw [hr, hK', Nat.mul_mod_left]
    have hspec := roundInt_spec mode neg q r den hrlt
    rw [hdm] at hspec
    have hM := RoundedTo_of_RoundedInt hden hspec
    rw [← hw] at hM
    have hMq : roundInt mode neg q r den = q ∨ roundInt mode neg q r den = q + 1 := by
      unfold roundInt; split <;> simp
    have hflag : (if tiny = true then fUnderflow ||| fInexact else fInexact) =
        (if w * (10 : ℚ) ^ x0 < (10 : ℚ) ^ (-6143 : ℤ) then fUnderflow ||| fInexact else fInexact) := by
      by_cases ht : tiny = true
      · rw [if_pos ht, if_pos (htiny.mp ht)]
      · rw [if_neg ht, if_neg (fun h => ht (htiny.mpr h))]
    have hrz' : num % den ≠ 0 := by rw [← hr]; exact hrz
    by_cases hcarry : roundInt mode neg q r den = P34
    · have hfin := finishAt_inexact_carry mode neg num den x0 pref tiny hrz' (by rw [← hq, ← hr]; exact hcarry)
      rw [hfin]
      by_cases hx : x0 + 1 > eMax
      · rw [if_pos hx]
        right; right
        refine ⟨hnotmem, rfl, ?_⟩
        by_cases hx2 : x0 > eMax
        · exact (overflow_clause mode neg (big hx2)).2
        · have : x0 = eMax := by omega
          refine ⟨P34, ?_, Nat.le_refl _⟩
          rw [← this, hdivx0, ← hcarry]; exact hM
      · rw [if_neg hx]
        right; left
        refine ⟨hnotmem, P33, x0 + 1, by rw [hflag], by decide, by omega, by omega, Or.inl (Nat.le_refl _),
          Or.inr ⟨rfl, ?_⟩⟩
        have : x0 + 1 - 1 = x0 := by ring
        rw [this, hdivx0, ← hcarry]; exact hM
    · have hfin := finishAt_inexact mode neg num den x0 pref tiny hrz' (by rw [← hq, ← hr]; exact hcarry)
      rw [hfin, ← hq, ← hr]
      by_cases hx : x0 > eMax
      · rw [if_pos hx]
        right; right
        exact ⟨hnotmem, rfl, (overflow_clause mode neg (big hx)).2⟩
      · rw [if_neg hx]
        right; left
        refine ⟨hnotmem, _, x0, by rw [hflag], by omega, hx0, by omega, ?_, Or.inl ?_⟩
        · rcases hleastq with h | h
          · right; exact h
          · left; omega
        · rw [hdivx0]; exact hM

/-- `⌊log₁₀ v⌋` of the exact value: `10^lg ≤ v < 10^(lg+1)` with `lg = ilog10Ratio n d + e`. -/
theorem lg_spec {n d : Nat} (hn : 0 < n) (hd : 0 < d) (e : Int) :
    (10 : ℚ) ^ (ilog10Ratio n d + e) ≤ (n : ℚ) / d * (10 : ℚ) ^ e ∧
      (n : ℚ) / d * (10 : ℚ) ^ e < (10 : ℚ) ^ (ilog10Ratio n d + e + 1) := by
  obtain ⟨h1, h2⟩ := ilog10Ratio_spec hn hd
  have hp : (0 : ℚ) < (10 : ℚ) ^ e := zpow_pos ten_pos _
  constructor
  · rw [zpow_add₀ ten_ne]; exact mul_le_mul_of_nonneg_right h1 hp.le
  · have : ilog10Ratio n d + e + 1 = (ilog10Ratio n d + 1) + e := by ring
    rw [this, zpow_add₀ ten_ne]; exact mul_lt_mul_of_pos_right h2 hp

/-- **The specification of `finish`** (tininess detected before rounding): for `n, d > 0` the output is
the correct delivery of the exact value `(-1)^neg · (n/d) · 10^e` with preferred exponent `pref`, in the
sense of `FinishSpec`; the two far-out-of-range guard branches are covered. -/
theorem finish_spec (mode : Mode) (neg : Bool) (n d : Nat) (e pref : Int) (hn : 0 < n) (hd : 0 < d) :
    FinishSpec mode neg ((n : ℚ) / d * (10 : ℚ) ^ e) pref (finish mode neg n d e pref) := by
  obtain ⟨l1, l2⟩ := lg_spec hn hd e
  rw [finish_eq]
  generalize ilog10Ratio n d + e = lg at l1 l2
  obtain ⟨v, hv⟩ : ∃ v : ℚ, v = (n : ℚ) / d * (10 : ℚ) ^ e := ⟨_, rfl⟩
  rw [← hv] at l1 l2 ⊢
  have hvpos : 0 < v := lt_of_lt_of_le (zpow_pos ten_pos _) l1
  by_cases hhi : lg > 7000
  · rw [if_pos hhi]
    right; right
    have : (10 : ℚ) ^ (34 + eMax) ≤ v :=
      le_trans (zpow_le_zpow_right₀ one_lt_ten.le (by unfold eMax; omega)) l1
    obtain ⟨a, b⟩ := overflow_clause mode neg this
    exact ⟨a, rfl, b⟩
  rw [if_neg hhi]
  by_cases hlo : lg < -7000
  · rw [if_pos hlo]
    right; left
    have hvlt : v < (10 : ℚ) ^ (-7000 : ℤ) :=
      lt_of_lt_of_le l2 (zpow_le_zpow_right₀ one_lt_ten.le (by omega))
    have hnotmem : ¬ IsMember v := by
      rintro ⟨m, x, hrep, hval⟩
      rw [fval_false] at hval
      have := member_ge hrep (by rw [hval]; exact hvpos)
      rw [hval] at this
      have h2 : (10 : ℚ) ^ (-7000 : ℤ) ≤ (10 : ℚ) ^ eMin :=
        zpow_le_zpow_right₀ one_lt_ten.le (by unfold eMin; omega)
      linarith
    have htiny : v < (10 : ℚ) ^ (-6143 : ℤ) :=
      lt_of_lt_of_le hvlt (zpow_le_zpow_right₀ one_lt_ten.le (by omega))
    refine ⟨hnotmem, _, eMin, by rw [if_pos htiny], ?_, Int.le_refl _, by decide, Or.inr rfl, Or.inl ?_⟩
    · have : roundInt mode neg 0 1 4 = 0 ∨ roundInt mode neg 0 1 4 = 0 + 1 := by
        unfold roundInt; split <;> simp
      have : (1 : Nat) < P34 := by decide
      omega
    · have hp : (0 : ℚ) < (10 : ℚ) ^ eMin := zpow_pos ten_pos _
      apply RoundedTo_small
      · exact div_pos hvpos hp
      · rw [div_lt_iff₀ hp]
        have h3 : (10 : ℚ) ^ (-7000 : ℤ) ≤ (10 : ℚ) ^ (-1 + eMin) :=
          zpow_le_zpow_right₀ one_lt_ten.le (by unfold eMin; omega)
        rw [zpow_add₀ ten_ne] at h3
        have h4 : (10 : ℚ) ^ (-1 : ℤ) ≤ 1 / 2 := by norm_num
        have h5 := mul_le_mul_of_nonneg_right h4 hp.le
        exact lt_of_lt_of_le hvlt (le_trans h3 h5)
  rw [if_neg hlo]
  -- main branch
  have hx0def : fx0 lg = eMin ∧ lg - 33 < eMin ∨ fx0 lg = lg - 33 ∧ ¬ lg - 33 < eMin := by
    unfold fx0; split <;> simp [*]
  obtain ⟨x0, hx0⟩ : ∃ x0, x0 = fx0 lg := ⟨_, rfl⟩
  rw [← hx0] at hx0def ⊢
  have hp0 : (0 : ℚ) < (10 : ℚ) ^ x0 := zpow_pos ten_pos _
  have hval := fnum_fden_val n hd (e - x0)
  have hvw : ((fnum n (e - x0) : Nat) : ℚ) / (fden d (e - x0) : Nat) * (10 : ℚ) ^ x0 = v := by
    rw [hval, hv, mul_assoc, ← zpow_add₀ ten_ne]; congr 2; ring
  have hw : ((fnum n (e - x0) : Nat) : ℚ) / (fden d (e - x0) : Nat) = v / (10 : ℚ) ^ x0 := by
    rw [← hvw]; field_simp
  have hspec := finishAt_spec mode neg (fnum n (e - x0)) (fden d (e - x0)) x0 pref (decide (lg - 33 < eMin))
    (fden_pos hd _) (fnum_pos hn _) ?_ ?_ ?_ ?_
  · rw [hvw] at hspec; exact hspec
  · -- below 10^34
    rw [hw, div_lt_iff₀ hp0, ← zpow_add₀ ten_ne]
    exact lt_of_lt_of_le l2 (zpow_le_zpow_right₀ one_lt_ten.le (by unfold eMin at hx0def; omega))
  · unfold eMin at hx0def ⊢; omega
  · rcases hx0def with ⟨h, _⟩ | ⟨h, _⟩
    · left; exact h
    · right
      rw [hw, le_div_iff₀ hp0, ← zpow_add₀ ten_ne]
      exact le_trans (zpow_le_zpow_right₀ one_lt_ten.le (by omega)) l1
  · rw [hvw, decide_eq_true_eq]
    constructor
    · intro h
      exact lt_of_lt_of_le l2 (zpow_le_zpow_right₀ one_lt_ten.le (by unfold eMin at h; omega))
    · intro h
      by_contra hc
      have : (10 : ℚ) ^ (-6143 : ℤ) ≤ v :=
        le_trans (zpow_le_zpow_right₀ one_lt_ten.le (by unfold eMin at hc; omega)) l1
      linarith

/-! ### corollaries -/

/-- flags of the three outcomes: none / inexact (+ underflow) / overflow + inexact -/
theorem FinishSpec.flags {mode : Mode} {neg : Bool} {v : ℚ} {pref : Int} {out : Datum × Flags}
    (h : FinishSpec mode neg v pref out) :
    (out.2 = 0 ∧ IsMember v) ∨
      (¬ IsMember v ∧ (out.2 = fInexact ∨ out.2 = fUnderflow ||| fInexact ∨ out.2 = fOverflow ||| fInexact)) := by
  rcases h with ⟨hm, m, x, ho, _⟩ | ⟨hm, m, x, ho, _⟩ | ⟨hm, ho, _⟩
  · left; rw [ho]; exact ⟨rfl, hm⟩
  · right; refine ⟨hm, ?_⟩; rw [ho]; dsimp only; split <;> simp
  · right; refine ⟨hm, ?_⟩; rw [ho]; simp

/-- every correct delivery is a well-formed datum -/
theorem FinishSpec.wf {mode : Mode} {neg : Bool} {v : ℚ} {pref : Int} {out : Datum × Flags}
    (h : FinishSpec mode neg v pref out) : out.1.WF := by
  rcases h with ⟨_, m, x, ho, _, hr, _⟩ | ⟨_, m, x, ho, h1, h2, h3, _⟩ | ⟨_, ho, _⟩
  · rw [ho]; exact hr
  · rw [ho]; exact ⟨h1, h2, h3⟩
  · rw [ho]
    show (overflowResult mode neg).WF
    unfold overflowResult
    cases mode <;> cases neg <;> simp [Datum.WF] <;> decide

/-- the result of `finish` is always a well-formed datum -/
theorem finish_wf (mode : Mode) (s : Bool) (n d : Nat) (e pref : Int) (hn : 0 < n) (hd : 0 < d) :
    (finish mode s n d e pref).1.WF :=
  (finish_spec mode s n d e pref hn hd).wf

/-- whenever `finish` raises no flag and returns a finite datum, that datum has exactly the value
`(n/d)·10^e` -/
theorem finish_exact_value (mode : Mode) (s : Bool) (n d : Nat) (e pref : Int) (hn : 0 < n) (hd : 0 < d)
    {m : Nat} {x : Int} (h : finish mode s n d e pref = (.fin s m x, 0)) :
    (m : ℚ) * (10 : ℚ) ^ x = (n : ℚ) / d * (10 : ℚ) ^ e := by
  have hs := finish_spec mode s n d e pref hn hd
  rw [h] at hs
  rcases hs with ⟨_, m1, x1, ho, hval, _⟩ | ⟨_, m1, x1, ho, _⟩ | ⟨_, ho, _⟩
  · simp only [Prod.mk.injEq, Datum.fin.injEq, true_and, and_true] at ho
    obtain ⟨rfl, rfl⟩ := ho
    rw [← fval_false]; exact hval
  · exfalso
    have := (Prod.mk.inj ho).2
    exact flags_ne_zero _ this
  · exfalso
    have := (Prod.mk.inj ho).2
    exact absurd this (by decide)

/-- if no flag is raised the value was a member of the format, and conversely -/
theorem finish_flags_zero_iff (mode : Mode) (s : Bool) (n d : Nat) (e pref : Int) (hn : 0 < n) (hd : 0 < d) :
    (finish mode s n d e pref).2 = 0 ↔ IsMember ((n : ℚ) / d * (10 : ℚ) ^ e) := by
  rcases (finish_spec mode s n d e pref hn hd).flags with ⟨h1, h2⟩ | ⟨h1, h2⟩
  · exact ⟨fun _ => h2, fun _ => h1⟩
  · constructor
    · intro h0
      rw [h0] at h2
      exact absurd h2 (by decide)
    · intro hm; exact absurd hm h1

/-- a member of the format is delivered exactly, with the cohort exponent closest to the preferred one
and no flag -/
theorem finish_of_member (mode : Mode) (s : Bool) (n d : Nat) (e pref : Int) (hn : 0 < n) (hd : 0 < d)
    (hm : IsMember ((n : ℚ) / d * (10 : ℚ) ^ e)) :
    ∃ m x, finish mode s n d e pref = (.fin s m x, 0) ∧ fval false m x = (n : ℚ) / d * (10 : ℚ) ^ e ∧
      Representable m x ∧
      ∀ m' x', Representable m' x' → fval false m' x' = (n : ℚ) / d * (10 : ℚ) ^ e → |x - pref| ≤ |x' - pref| := by
  rcases finish_spec mode s n d e pref hn hd with ⟨_, h⟩ | ⟨h, _⟩ | ⟨h, _⟩
  · exact h
  · exact absurd hm h
  · exact absurd hm h

/-- an in-range finite number with its own exponent preferred comes back unchanged, without any flag -/
theorem finish_representable (mode : Mode) (s : Bool) (c : Nat) (e : Int)
    (hc : c ≠ 0) (hc34 : c < P34) (he1 : eMin ≤ e) (he2 : e ≤ eMax) :
    finish mode s c 1 e e = (.fin s c e, 0) := by
  have hrep : Representable c e := ⟨hc34, he1, he2⟩
  have hval : fval false c e = ((c : ℚ) / (1 : Nat) * (10 : ℚ) ^ e) := by
    rw [fval_false]; simp
  obtain ⟨m, x, ho, hv, _, hclose⟩ :=
    finish_of_member mode s c 1 e e (by omega) (by omega) ⟨c, e, hrep, hval⟩
  have hx := hclose c e hrep hval
  have hxe : x = e := by
    rw [sub_self, abs_zero] at hx
    have := abs_nonneg (x - e)
    have h0 : |x - e| = 0 := le_antisymm hx this
    have := abs_eq_zero.mp h0
    omega
  subst hxe
  rw [← hval, fval_false, fval_false] at hv
  have hp : (10 : ℚ) ^ x ≠ 0 := (zpow_pos ten_pos _).ne'
  have hmc : (m : ℚ) = c := mul_right_cancel₀ hp hv
  have : m = c := by exact_mod_cast hmc
  rw [ho, this]

example : finish .rne false 1234 1 (-2) (-2) = (.fin false 1234 (-2), 0) :=
  finish_representable _ _ _ _ (by decide) (by decide) (by decide) (by decide)

/-! ### values between two rounding boundaries have the same deliveries (used for `sqrt`) -/

/-- `u` and `u'` lie on the same side of every half-integer (and hit the same ones). -/
def SameSide (u u' : ℚ) : Prop :=
  ∀ K : ℤ, ((K : ℚ) / 2 ≤ u ↔ (K : ℚ) / 2 ≤ u') ∧ (u ≤ (K : ℚ) / 2 ↔ u' ≤ (K : ℚ) / 2)

theorem SameSide.symm {u u' : ℚ} (h : SameSide u u') : SameSide u' u :=
  fun K => ⟨(h K).1.symm, (h K).2.symm⟩

/-- Rounding to an integer only depends on the position relative to the half-integers. -/
theorem RoundedTo_of_sameSide {mode : Mode} {neg : Bool} {u u' : ℚ} {m : Nat} (h : SameSide u u')
    (hr : RoundedTo mode neg u m) : RoundedTo mode neg u' m := by
  have a0 : ((m : ℚ) ≤ u ↔ (m : ℚ) ≤ u') ∧ (u ≤ (m : ℚ) ↔ u' ≤ (m : ℚ)) := by
    have := h (2 * m); push_cast at this
    rwa [mul_div_cancel_left₀ _ (two_ne_zero)] at this
  have a1 : ((m : ℚ) + 1 ≤ u ↔ (m : ℚ) + 1 ≤ u') ∧ (u ≤ (m : ℚ) + 1 ↔ u' ≤ (m : ℚ) + 1) := by
    have := h (2 * m + 2); push_cast at this
    have e : (2 * (m : ℚ) + 2) / 2 = m + 1 := by ring
    rwa [e] at this
  have am1 : ((m : ℚ) - 1 ≤ u ↔ (m : ℚ) - 1 ≤ u') ∧ (u ≤ (m : ℚ) - 1 ↔ u' ≤ (m : ℚ) - 1) := by
    have := h (2 * m - 2); push_cast at this
    have e : (2 * (m : ℚ) - 2) / 2 = m - 1 := by ring
    rwa [e] at this
  have ah : ((m : ℚ) + 1 / 2 ≤ u ↔ (m : ℚ) + 1 / 2 ≤ u') ∧ (u ≤ (m : ℚ) + 1 / 2 ↔ u' ≤ (m : ℚ) + 1 / 2) := by
    have := h (2 * m + 1); push_cast at this
    have e : (2 * (m : ℚ) + 1) / 2 = m + 1 / 2 := by ring
    rwa [e] at this
  have amh : ((m : ℚ) - 1 / 2 ≤ u ↔ (m : ℚ) - 1 / 2 ≤ u') ∧ (u ≤ (m : ℚ) - 1 / 2 ↔ u' ≤ (m : ℚ) - 1 / 2) := by
    have := h (2 * m - 1); push_cast at this
    have e : (2 * (m : ℚ) - 1) / 2 = m - 1 / 2 := by ring
    rwa [e] at this
  have near : |u - m| ≤ 1 / 2 → |u' - m| ≤ 1 / 2 := by
    intro hh
    obtain ⟨l, r⟩ := abs_le.mp hh
    have l' := amh.1.mp (by linarith)
    have r' := ah.2.mp (by linarith)
    exact abs_le.mpr ⟨by linarith, by linarith⟩
  have tie : |u' - m| = 1 / 2 → |u - m| = 1 / 2 := by
    intro hh
    rcases abs_cases (u' - (m : ℚ)) with ⟨e, _⟩ | ⟨e, _⟩
    · have l := ah.1.mpr (by linarith)
      have r := ah.2.mpr (by linarith)
      rw [abs_of_nonneg (by linarith)]; linarith
    · have l := amh.1.mpr (by linarith)
      have r := amh.2.mpr (by linarith)
      rw [abs_of_nonpos (by linarith)]; linarith
  have lt1 : u < (m : ℚ) + 1 → u' < (m : ℚ) + 1 := fun hh => not_le.mp (fun c => absurd (a1.1.mpr c) (not_le.mpr hh))
  have gt1 : (m : ℚ) < u + 1 → (m : ℚ) < u' + 1 := fun hh => by
    have : ¬ u' ≤ (m : ℚ) - 1 := fun c => absurd (am1.2.mpr c) (not_le.mpr (by linarith))
    linarith [not_le.mp this]
  cases mode <;> cases neg <;> simp only [RoundedTo, if_true, if_false, Bool.false_eq_true] at hr ⊢
  all_goals
    first
    | exact ⟨a0.1.mp hr.1, lt1 hr.2⟩
    | exact ⟨a0.2.mp hr.1, gt1 hr.2⟩
    | exact ⟨near hr.1, fun t => hr.2 (tie t)⟩
    | exact ⟨near hr.1, fun t => a0.2.mp (hr.2 (tie t))⟩

/-- all the points strictly between two consecutive multiples of `1/(2H)` are on the same side of every
half-integer -/
theorem sameSide_between (r H : Nat) (hH : 0 < H) {t t' : ℚ} (ht0 : 0 < t) (ht1 : t < 1)
    (ht0' : 0 < t') (ht1' : t' < 1) :
    SameSide (((r : ℚ) + t) / (2 * H)) (((r : ℚ) + t') / (2 * H)) := by
  have hHq : (0 : ℚ) < 2 * H := by have : (0 : ℚ) < H := by exact_mod_cast hH
                                   linarith
  have key1 : ∀ (K : ℤ) (s : ℚ), 0 < s → s < 1 → (((K * H : ℤ) : ℚ) ≤ (r : ℚ) + s ↔ K * H ≤ (r : ℤ)) := by
    intro K s h0 h1
    constructor
    · intro h
      have : ((K * H : ℤ) : ℚ) < ((r + 1 : ℤ) : ℚ) := by push_cast at h ⊢; linarith
      have : K * H < r + 1 := by exact_mod_cast this
      omega
    · intro h
      have : ((K * H : ℤ) : ℚ) ≤ ((r : ℤ) : ℚ) := by exact_mod_cast h
      push_cast at this ⊢; linarith
  have key2 : ∀ (K : ℤ) (s : ℚ), 0 < s → s < 1 → ((r : ℚ) + s ≤ ((K * H : ℤ) : ℚ) ↔ (r : ℤ) < K * H) := by
    intro K s h0 h1
    constructor
    · intro h
      have : ((r : ℤ) : ℚ) < ((K * H : ℤ) : ℚ) := by push_cast at h ⊢; linarith
      exact_mod_cast this
    · intro h
      have : (((r : ℤ) + 1 : ℤ) : ℚ) ≤ ((K * H : ℤ) : ℚ) := by exact_mod_cast h
      push_cast at this ⊢; linarith
  intro K
  have e : (K : ℚ) / 2 * (2 * H) = ((K * H : ℤ) : ℚ) := by push_cast; ring
  constructor
  · rw [le_div_iff₀ hHq, le_div_iff₀ hHq, e, key1 K t ht0 ht1, key1 K t' ht0' ht1']
  · rw [div_le_iff₀ hHq, div_le_iff₀ hHq, e, key2 K t ht0 ht1, key2 K t' ht0' ht1']


theorem RoundedTo_lt {mode : Mode} {neg : Bool} {u : ℚ} {M : Nat} (h : RoundedTo mode neg u M) :
    u < M + 1 := by
  cases mode <;> cases neg <;> simp only [RoundedTo, if_true, if_false, Bool.false_eq_true] at h <;>
    first
    | (obtain ⟨h1, h2⟩ := h; linarith)
    | (obtain ⟨h1, h2⟩ := h; have := abs_le.mp h1; linarith)

theorem sameSide_eq_nat {u u' : ℚ} (h : SameSide u u') {m : Nat} (hu : u = m) : u' = m := by
  have := h (2 * m); push_cast at this
  rw [mul_div_cancel_left₀ _ (two_ne_zero)] at this
  exact le_antisymm (this.2.mp hu.le) (this.1.mp hu.ge)

section transfer
variable {ρ ρ' : ℚ} {E : ℤ}

private theorem tr_size (hρ : (10 : ℚ) ^ (37 + E) ≤ ρ) {x : ℤ} (h : ρ / (10 : ℚ) ^ x < (10 : ℚ) ^ (35 : ℤ)) :
    E + 1 ≤ x := by
  have hp : (0 : ℚ) < (10 : ℚ) ^ x := zpow_pos ten_pos _
  rw [div_lt_iff₀ hp, ← zpow_add₀ ten_ne] at h
  have := (zpow_lt_zpow_iff_right₀ one_lt_ten).mp (lt_of_le_of_lt hρ h)
  omega

private theorem tr_mem (hρ : (10 : ℚ) ^ (37 + E) ≤ ρ)
    (hss : ∀ x : ℤ, E + 1 ≤ x → SameSide (ρ / (10 : ℚ) ^ x) (ρ' / (10 : ℚ) ^ x))
    {m : Nat} {x : ℤ} (hr : Representable m x) (hv : fval false m x = ρ) : fval false m x = ρ' := by
  have hp : (0 : ℚ) < (10 : ℚ) ^ x := zpow_pos ten_pos _
  rw [fval_false] at hv ⊢
  have hu : ρ / (10 : ℚ) ^ x = m := by rw [← hv]; field_simp
  have hm : (m : ℚ) < (10 : ℚ) ^ (35 : ℤ) := by
    have : (m : ℚ) < ((P34 : Nat) : ℚ) := by exact_mod_cast hr.1
    rw [P34_cast] at this
    exact lt_trans this (zpow_lt_zpow_right₀ one_lt_ten (by norm_num))
  have hx := tr_size hρ (by rw [hu]; exact hm)
  have := sameSide_eq_nat (hss x hx) hu
  rw [← this]; field_simp

private theorem tr_tiny (hρ : (10 : ℚ) ^ (37 + E) ≤ ρ) (hρ' : (10 : ℚ) ^ (37 + E) ≤ ρ')
    (hss : ∀ x : ℤ, E + 1 ≤ x → SameSide (ρ / (10 : ℚ) ^ x) (ρ' / (10 : ℚ) ^ x)) :
    ρ < (10 : ℚ) ^ (-6143 : ℤ) ↔ ρ' < (10 : ℚ) ^ (-6143 : ℤ) := by
  by_cases hE : E + 1 ≤ -6143
  · have hp : (0 : ℚ) < (10 : ℚ) ^ (-6143 : ℤ) := zpow_pos ten_pos _
    have := (hss (-6143) hE 2).1
    rw [show ((2 : ℤ) : ℚ) / 2 = 1 by norm_num, le_div_iff₀ hp, le_div_iff₀ hp, one_mul] at this
    rw [← not_le, ← not_le, this]
  · have h1 : (10 : ℚ) ^ (-6143 : ℤ) ≤ (10 : ℚ) ^ (37 + E) := zpow_le_zpow_right₀ one_lt_ten.le (by omega)
    constructor
    · intro h; linarith
    · intro h; linarith

/-- `FinishSpec` only depends on the position of the value relative to the rounding boundaries: two
values of at least 37 + 1 digits above `10^E` that lie on the same side of every half-unit at every
exponent above `E` have the same correct deliveries. -/
theorem FinishSpec_transfer {mode : Mode} {neg : Bool} {pref : Int} {out : Datum × Flags}
    (hρ : (10 : ℚ) ^ (37 + E) ≤ ρ) (hρ' : (10 : ℚ) ^ (37 + E) ≤ ρ')
    (hss : ∀ x : ℤ, E + 1 ≤ x → SameSide (ρ / (10 : ℚ) ^ x) (ρ' / (10 : ℚ) ^ x))
    (h : FinishSpec mode neg ρ pref out) : FinishSpec mode neg ρ' pref out := by
  have hss' : ∀ x : ℤ, E + 1 ≤ x → SameSide (ρ' / (10 : ℚ) ^ x) (ρ / (10 : ℚ) ^ x) := fun x hx => (hss x hx).symm
  have mem : IsMember ρ ↔ IsMember ρ' := by
    constructor
    · rintro ⟨m, x, hr, hv⟩; exact ⟨m, x, hr, tr_mem hρ hss hr hv⟩
    · rintro ⟨m, x, hr, hv⟩; exact ⟨m, x, hr, tr_mem hρ' hss' hr hv⟩
  have h35 : ((P34 : Nat) : ℚ) + 1 ≤ (10 : ℚ) ^ (35 : ℤ) := by rw [P34_cast]; norm_num
  rcases h with ⟨hm, m, x, ho, hv, hr, hc⟩ | ⟨hm, m, x, ho, h1, h2, h3, h4, h5⟩ | ⟨hm, ho, M, hM, hP⟩
  · left
    refine ⟨mem.mp hm, m, x, ho, tr_mem hρ hss hr hv, hr, ?_⟩
    intro m' x' hr' hv'
    exact hc m' x' hr' (tr_mem hρ' hss' hr' hv')
  · right; left
    refine ⟨fun c => hm (mem.mpr c), m, x, ?_, h1, h2, h3, h4, ?_⟩
    · rw [ho]
      have := tr_tiny hρ hρ' hss
      by_cases ht : ρ < (10 : ℚ) ^ (-6143 : ℤ)
      · rw [if_pos ht, if_pos (this.mp ht)]
      · rw [if_neg ht, if_neg (fun c => ht (this.mpr c))]
    · rcases h5 with h5 | ⟨h5, h6⟩
      · left
        have hlt := RoundedTo_lt h5
        have hmq : (m : ℚ) < ((P34 : Nat) : ℚ) := by exact_mod_cast h1
        have hx := tr_size hρ (show ρ / (10 : ℚ) ^ x < (10 : ℚ) ^ (35 : ℤ) by linarith)
        exact RoundedTo_of_sameSide (hss x hx) h5
      · right
        have hlt := RoundedTo_lt h6
        have hx := tr_size hρ (show ρ / (10 : ℚ) ^ (x - 1) < (10 : ℚ) ^ (35 : ℤ) by linarith)
        exact ⟨h5, RoundedTo_of_sameSide (hss (x - 1) hx) h6⟩
  · right; right
    refine ⟨fun c => hm (mem.mpr c), ho, ?_⟩
    by_cases hE : E + 1 ≤ eMax
    · exact ⟨M, RoundedTo_of_sameSide (hss eMax hE) hM, hP⟩
    · have : (10 : ℚ) ^ (34 + eMax) ≤ ρ' :=
        le_trans (zpow_le_zpow_right₀ one_lt_ten.le (by omega)) hρ'
      exact (overflow_clause mode neg this).2

end transfer

end Dec
