/-
  DecProofs.Core.DigitStr — decimal digit strings: `natDigits` / `digitBytes` are the decimal
  digits of a natural number (value, digit-ness, non-emptiness, no leading zero, length), and
  `takeDigits` splits a digit run off the front of a text.  Core Lean only.
-/
import DecModel.Str

namespace Dec

/-! ### `natDigitsAux` -/

/-- the accumulator of `natDigitsAux` is just appended -/
theorem natDigitsAux_acc (f n : Nat) (acc : List Nat) :
    natDigitsAux f n acc = natDigitsAux f n [] ++ acc := by
  induction f generalizing n acc with
  | zero => simp [natDigitsAux]
  | succ f ih =>
    simp only [natDigitsAux]
    split
    · simp
    · rw [ih (n / 10) (n % 10 :: acc), ih (n / 10) [n % 10]]
      simp

/-- one unfolding step with an empty accumulator -/
theorem natDigitsAux_succ (f n : Nat) :
    natDigitsAux (f + 1) n [] = if n < 10 then [n] else natDigitsAux f (n / 10) [] ++ [n % 10] := by
  simp only [natDigitsAux]
  split
  · rfl
  · exact natDigitsAux_acc f (n / 10) [n % 10]

/-- every produced entry is a decimal digit -/
theorem natDigitsAux_lt_ten (f n : Nat) : ∀ d ∈ natDigitsAux f n [], d < 10 := by
  induction f generalizing n with
  | zero => simp [natDigitsAux]
  | succ f ih =>
    rw [natDigitsAux_succ]
    split
    · intro d hd; simp at hd; omega
    · intro d hd
      rcases List.mem_append.1 hd with h | h
      · exact ih _ d h
      · simp at h; omega

/-- with at least one unit of fuel the result is non-empty -/
theorem natDigitsAux_ne_nil (f n : Nat) : natDigitsAux (f + 1) n [] ≠ [] := by
  rw [natDigitsAux_succ]
  split <;> simp

theorem digitsVal_append_single (xs : Bytes) (b : Nat) :
    digitsVal (xs ++ [b]) = digitsVal xs * 10 + (b - 48) := by
  simp [digitsVal, List.foldl_append]

/-- with enough fuel, the digits denote `n` -/
theorem digitsVal_natDigitsAux (f n : Nat) (h : n < 10 ^ f) :
    digitsVal ((natDigitsAux f n []).map (· + 48)) = n := by
  induction f generalizing n with
  | zero =>
    have : n = 0 := by simpa using h
    subst this; simp [natDigitsAux, digitsVal]
  | succ f ih =>
    rw [natDigitsAux_succ]
    split
    · simp [digitsVal]
    · have h1 : n / 10 < 10 ^ f := by
        rw [Nat.pow_succ] at h; omega
      rw [List.map_append, List.map_singleton, digitsVal_append_single, ih _ h1]
      omega

/-- with enough fuel, the leading digit is zero only for zero -/
theorem natDigitsAux_head (f n : Nat) (h : n < 10 ^ (f + 1)) :
    (natDigitsAux (f + 1) n []).head? = some 0 ↔ n = 0 := by
  induction f generalizing n with
  | zero =>
    rw [natDigitsAux_succ]
    have : n < 10 := by simpa using h
    simp [this]
  | succ f ih =>
    rw [natDigitsAux_succ]
    split
    · simp
    · rename_i hn
      have h1 : n / 10 < 10 ^ (f + 1) := by
        rw [Nat.pow_succ] at h; omega
      have hne := natDigitsAux_ne_nil f (n / 10)
      have hh : (natDigitsAux (f + 1) (n / 10) [] ++ [n % 10]).head? =
          (natDigitsAux (f + 1) (n / 10) []).head? := by
        cases hq : natDigitsAux (f + 1) (n / 10) [] with
        | nil => exact absurd hq hne
        | cons a t => rfl
      rw [hh, ih _ h1]
      omega

/-- the number of digits is bounded by any `k ≥ 1` with `n < 10^k` -/
theorem natDigitsAux_length_le (f n k : Nat) (hk : 1 ≤ k) (h : n < 10 ^ k) :
    (natDigitsAux f n []).length ≤ k := by
  induction f generalizing n k with
  | zero => simp [natDigitsAux]
  | succ f ih =>
    rw [natDigitsAux_succ]
    split
    · simpa using hk
    · rename_i hn
      obtain ⟨k, rfl⟩ : ∃ j, k = j + 1 := ⟨k - 1, by omega⟩
      have hk1 : 1 ≤ k := by
        rcases Nat.eq_zero_or_pos k with h0 | h0
        · subst h0; simp at h; omega
        · exact h0
      have h1 : n / 10 < 10 ^ k := by
        rw [Nat.pow_succ] at h; omega
      have := ih (n / 10) k hk1 h1
      simp only [List.length_append, List.length_singleton]
      omega

/-! ### the fuel `n.log2 + 2` suffices -/

theorem lt_ten_pow_log2_succ (n : Nat) : n < 10 ^ (n.log2 + 1) :=
  Nat.lt_of_lt_of_le Nat.lt_log2_self (Nat.pow_le_pow_left (by decide) _)

theorem lt_ten_pow_fuel (n : Nat) : n < 10 ^ (n.log2 + 2) :=
  Nat.lt_of_lt_of_le (lt_ten_pow_log2_succ n) (Nat.pow_le_pow_right (by decide) (by omega))

/-! ### `natDigits` / `digitBytes` -/

theorem natDigits_lt_ten (n : Nat) : ∀ d ∈ natDigits n, d < 10 :=
  natDigitsAux_lt_ten _ n

theorem natDigits_ne_nil (n : Nat) : natDigits n ≠ [] :=
  natDigitsAux_ne_nil _ n

/-- the digit string of `n` denotes `n` -/
theorem digitsVal_digitBytes (n : Nat) : digitsVal (digitBytes n) = n :=
  digitsVal_natDigitsAux _ n (lt_ten_pow_fuel n)

/-- the digit string of `n` consists of ASCII digits only -/
theorem digitBytes_isDigit (n : Nat) : ∀ b ∈ digitBytes n, isDigitB b = true := by
  intro b hb
  simp only [digitBytes, List.mem_map] at hb
  obtain ⟨d, hd, rfl⟩ := hb
  have := natDigits_lt_ten n d hd
  simp only [isDigitB, Bool.and_eq_true, decide_eq_true_eq]
  omega

/-- the digit string of `n` is never empty -/
theorem digitBytes_ne_nil (n : Nat) : digitBytes n ≠ [] := by
  simp only [digitBytes, ne_eq, List.map_eq_nil_iff]
  exact natDigits_ne_nil n

theorem digitBytes_isEmpty (n : Nat) : (digitBytes n).isEmpty = false := by
  simpa [List.isEmpty_iff] using digitBytes_ne_nil n

/-- no leading `'0'` unless the number is zero (and zero prints as `"0"`) -/
theorem digitBytes_head_zero (n : Nat) : (digitBytes n).head? = some 48 ↔ n = 0 := by
  have h := natDigitsAux_head (n.log2 + 1) n (lt_ten_pow_fuel n)
  simp only [digitBytes, natDigits, List.head?_map]
  rw [← h]
  cases (natDigitsAux (n.log2 + 1 + 1) n []).head? with
  | none => simp
  | some d => simp

theorem digitBytes_zero : digitBytes 0 = [48] := by decide

/-- at most `k` digits when `n < 10^k` (`k ≥ 1`) -/
theorem digitBytes_length_le (n k : Nat) (hk : 1 ≤ k) (h : n < 10 ^ k) :
    (digitBytes n).length ≤ k := by
  simp only [digitBytes, List.length_map]
  exact natDigitsAux_length_le _ n k hk h

/-! ### `takeDigits` -/

/-- a run of digits followed by a non-digit (or the end) is split off exactly -/
theorem takeDigits_append (ds rest : Bytes) (hds : ∀ b ∈ ds, isDigitB b = true)
    (hrest : rest.head?.map isDigitB ≠ some true) : takeDigits (ds ++ rest) = (ds, rest) := by
  induction ds with
  | nil =>
    cases rest with
    | nil => simp [takeDigits]
    | cons b r =>
      have hb : isDigitB b = false := by
        cases hb : isDigitB b
        · rfl
        · simp [hb] at hrest
      simp [takeDigits, hb]
  | cons d ds ih =>
    have hd : isDigitB d = true := hds d (by simp)
    have ih' := ih (fun b hb => hds b (by simp [hb]))
    simp only [takeDigits, Prod.mk.injEq] at ih' ⊢
    simp only [List.cons_append, List.takeWhile_cons, List.dropWhile_cons, hd, if_true]
    exact ⟨by rw [ih'.1], ih'.2⟩

/-- a run of digits covering the whole text -/
theorem takeDigits_all (ds : Bytes) (hds : ∀ b ∈ ds, isDigitB b = true) :
    takeDigits ds = (ds, []) := by
  have := takeDigits_append ds [] hds (by simp)
  simpa using this

/-- what `takeDigits` returns: a digit run, a remainder not starting with a digit, and the two
concatenate to the input -/
theorem takeDigits_spec (s : Bytes) :
    (takeDigits s).1 ++ (takeDigits s).2 = s ∧ (∀ b ∈ (takeDigits s).1, isDigitB b = true) ∧
      (takeDigits s).2.head?.map isDigitB ≠ some true := by
  refine ⟨by simp [takeDigits], ?_, ?_⟩
  · intro b hb
    have hall : ((takeDigits s).1).all isDigitB = true := by simp [takeDigits]
    exact List.all_eq_true.1 hall b hb
  · simp only [takeDigits]
    induction s with
    | nil => simp
    | cons b r ih =>
      rw [List.dropWhile_cons]
      split
      · exact ih
      · rename_i hb; simp [hb]

/-! ### parsing scientific notation `sign digits E sign digits` -/

/-- the exponent part `E±digits` parses to the signed value of its digits -/
theorem parseExpPart_sci (eb sb : Nat) (ds : Bytes) (heb : eb = 69 ∨ eb = 101) (neg : Bool)
    (hsb : sb = if neg then 45 else 43)
    (hds : ∀ b ∈ ds, isDigitB b = true) (hne : ds ≠ []) :
    parseExpPart (eb :: sb :: ds) =
      some (if neg then -(digitsVal ds : Int) else (digitsVal ds : Int)) := by
  have hE : (eb == 101 || eb == 69) = true := by rcases heb with h | h <;> subst h <;> decide
  have hss : splitSign (sb :: ds) = (some neg, ds) := by
    subst hsb; cases neg <;> simp [splitSign]
  have hemp : ds.isEmpty = false := by simpa [List.isEmpty_iff] using hne
  simp only [parseExpPart, hE, if_true, hss, takeDigits_all ds hds, hemp]
  cases neg <;> simp

/-- a text of the shape `sign digits E sign digits` is a literal with exactly those parts -/
theorem parseLiteral_sci (sgb eb sb : Nat) (ip ds : Bytes) (s neg : Bool)
    (hsgb : sgb = if s then 45 else 43) (heb : eb = 69 ∨ eb = 101)
    (hsb : sb = if neg then 45 else 43)
    (hip : ∀ b ∈ ip, isDigitB b = true) (hipne : ip ≠ [])
    (hds : ∀ b ∈ ds, isDigitB b = true) (hne : ds ≠ []) :
    parseLiteral (sgb :: ip ++ eb :: sb :: ds) =
      some { neg := s, intDigits := ip, fracDigits := [],
             exp := if neg then -(digitsVal ds : Int) else (digitsVal ds : Int) } := by
  have hss : splitSign (sgb :: (ip ++ eb :: sb :: ds)) = (some s, ip ++ eb :: sb :: ds) := by
    subst hsgb; cases s <;> simp [splitSign]
  have hnd : ((eb :: sb :: ds).head?.map isDigitB) ≠ some true := by
    rcases heb with h | h <;> subst h <;> simp [isDigitB]
  have htd := takeDigits_append ip (eb :: sb :: ds) hip hnd
  have hemp : ip.isEmpty = false := by simpa [List.isEmpty_iff] using hipne
  have hexp := parseExpPart_sci eb sb ds heb neg hsb hds hne
  unfold parseLiteral
  simp only [List.cons_append, hss, htd]
  rcases heb with rfl | rfl <;> simp [hemp, hexp]

/-! ### positional value of digit strings -/

theorem digitsVal_foldl_acc (l : Bytes) (acc : Nat) :
    l.foldl (fun acc b => acc * 10 + (b - 48)) acc = acc * 10 ^ l.length + digitsVal l := by
  induction l generalizing acc with
  | nil => simp [digitsVal]
  | cons b t ih =>
    simp only [List.foldl_cons, List.length_cons, digitsVal]
    rw [ih (acc * 10 + (b - 48)), ih (0 * 10 + (b - 48))]
    grind

/-- positional value: concatenation shifts the left part by the length of the right part -/
theorem digitsVal_append (a b : Bytes) :
    digitsVal (a ++ b) = digitsVal a * 10 ^ b.length + digitsVal b := by
  rw [digitsVal, List.foldl_append, digitsVal_foldl_acc]; rfl

theorem digitsVal_nil : digitsVal [] = 0 := rfl

theorem digitsVal_cons (b : Nat) (ds : Bytes) :
    digitsVal (b :: ds) = (b - 48) * 10 ^ ds.length + digitsVal ds := by
  have := digitsVal_append [b] ds
  simpa [digitsVal] using this

/-- leading zeros do not change the value -/
theorem digitsVal_dropZeros (ds : Bytes) : digitsVal (ds.dropWhile (· == 48)) = digitsVal ds := by
  induction ds with
  | nil => rfl
  | cons b t ih =>
    rw [List.dropWhile_cons]
    split
    · rename_i hb
      have : b = 48 := by simpa using hb
      subst this
      rw [ih, digitsVal_cons]; simp
    · rfl

/-- a string of `k` digits denotes a number below `10^k` -/
theorem digitsVal_lt (ds : Bytes) (h : ∀ b ∈ ds, isDigitB b = true) : digitsVal ds < 10 ^ ds.length := by
  induction ds with
  | nil => simp [digitsVal]
  | cons b t ih =>
    have hb : isDigitB b = true := h b (by simp)
    have ht := ih (fun x hx => h x (by simp [hx]))
    simp only [isDigitB, Bool.and_eq_true, decide_eq_true_eq] at hb
    rw [digitsVal_cons, List.length_cons, Nat.pow_succ]
    have : (b - 48) * 10 ^ t.length ≤ 9 * 10 ^ t.length := Nat.mul_le_mul_right _ (by omega)
    omega


end Dec
