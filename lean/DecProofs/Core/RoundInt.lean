/-
  DecProofs.Core.RoundInt — the integer rounding step, specified by cross-multiplication
  (no division, no ℚ): with `V = q·D + r`, `0 ≤ r < D`, the value to round is `V / D`.
-/
import DecModel.Round

namespace Dec

/-- Integer-level statement of "`m` is `V/D` rounded in `mode` (sign `neg`)". -/
def RoundedInt (mode : Mode) (neg : Bool) (V D m : Nat) : Prop :=
  match mode with
  | .rtz => m * D ≤ V ∧ V < m * D + D
  | .rdn => if neg then (V ≤ m * D ∧ m * D < V + D) else (m * D ≤ V ∧ V < m * D + D)
  | .rup => if neg then (m * D ≤ V ∧ V < m * D + D) else (V ≤ m * D ∧ m * D < V + D)
  | .rne => (2 * V ≤ 2 * m * D + D ∧ 2 * m * D ≤ 2 * V + D) ∧
            ((2 * V = 2 * m * D + D ∨ 2 * m * D = 2 * V + D) → m % 2 = 0)
  | .rna => (2 * V ≤ 2 * m * D + D ∧ 2 * m * D ≤ 2 * V + D) ∧
            ((2 * V = 2 * m * D + D ∨ 2 * m * D = 2 * V + D) → V ≤ m * D)

/-- `roundInt` meets its specification in every mode and for both signs. -/
theorem roundInt_spec (mode : Mode) (neg : Bool) (q r D : Nat) (hr : r < D) :
    RoundedInt mode neg (q * D + r) D (roundInt mode neg q r D) := by
  have e1 : (q + 1) * D = q * D + D := by rw [Nat.add_mul, Nat.one_mul]
  have e2 : 2 * (q + 1) * D = 2 * (q * D) + 2 * D := by rw [Nat.mul_assoc, e1]; omega
  have e3 : 2 * q * D = 2 * (q * D) := Nat.mul_assoc _ _ _
  by_cases hr0 : r = 0
  · subst hr0
    have : roundInt mode neg q 0 D = q := by simp [roundInt, roundUp]
    rw [this]
    cases mode <;> cases neg <;> simp only [RoundedInt] <;> (try simp only [if_true, if_false, Bool.false_eq_true]) <;> omega
  · cases mode <;> cases neg <;>
      simp only [RoundedInt, roundInt, roundUp, hr0, if_false, if_true, Bool.false_eq_true, Bool.not_false, Bool.not_true]
    all_goals (try split) <;> (try simp only [Bool.or_eq_true, Bool.and_eq_true, decide_eq_true_eq, beq_iff_eq, not_or, not_and] at *) <;>
      (try rw [e1]) <;> (try rw [e2]) <;> (try rw [e3]) <;> omega

/-- The specification determines the result: two integers satisfying it coincide. -/
theorem RoundedInt_unique (mode : Mode) (neg : Bool) (V D m m' : Nat) (hD : 0 < D)
    (h : RoundedInt mode neg V D m) (h' : RoundedInt mode neg V D m') : m = m' := by
  -- compare m*D and m'*D through the gap D
  have key : ∀ a b : Nat, a * D + D ≤ b * D ∨ b * D + D ≤ a * D ∨ a = b := by
    intro a b
    rcases Nat.lt_trichotomy a b with hlt | heq | hgt
    · left
      have : (a + 1) * D ≤ b * D := Nat.mul_le_mul_right D hlt
      rw [Nat.add_mul, Nat.one_mul] at this; exact this
    · right; right; exact heq
    · right; left
      have : (b + 1) * D ≤ a * D := Nat.mul_le_mul_right D hgt
      rw [Nat.add_mul, Nat.one_mul] at this; exact this
  have e3 : ∀ a : Nat, 2 * a * D = 2 * (a * D) := fun a => Nat.mul_assoc _ _ _
  rcases key m m' with hk | hk | hk
  · cases mode <;> cases neg <;> simp only [RoundedInt, if_true, if_false, Bool.false_eq_true, e3] at h h' <;> (try omega)
    all_goals
      -- nearest modes: both at distance exactly D/2, parity / direction decides
      (obtain ⟨⟨h1, h2⟩, h3⟩ := h; obtain ⟨⟨h1', h2'⟩, h3'⟩ := h')
    all_goals first
      | (have hm : m' = m + 1 := by
           have : m' * D = m * D + D := by omega
           have : m' * D = (m + 1) * D := by rw [Nat.add_mul, Nat.one_mul]; exact this
           exact Nat.eq_of_mul_eq_mul_right hD this
         have a1 := h3 (by omega); have a2 := h3' (by omega); omega)
      | omega
  · cases mode <;> cases neg <;> simp only [RoundedInt, if_true, if_false, Bool.false_eq_true, e3] at h h' <;> (try omega)
    all_goals
      (obtain ⟨⟨h1, h2⟩, h3⟩ := h; obtain ⟨⟨h1', h2'⟩, h3'⟩ := h')
    all_goals first
      | (have hm : m = m' + 1 := by
           have : m * D = m' * D + D := by omega
           have : m * D = (m' + 1) * D := by rw [Nat.add_mul, Nat.one_mul]; exact this
           exact Nat.eq_of_mul_eq_mul_right hD this
         have a1 := h3 (by omega); have a2 := h3' (by omega); omega)
      | omega
  · exact hk

end Dec
