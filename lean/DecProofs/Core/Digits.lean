/-
  DecProofs.Core.Digits — digit counting, trailing zeros and `⌊log₁₀ (n/d)⌋` of the model meet their
  specifications.
-/
import Mathlib.Data.Rat.Defs
import Mathlib.Algebra.Order.Field.Basic
import Mathlib.Tactic.Ring
import Mathlib.Tactic.Linarith
import Mathlib.Tactic.Positivity
import Mathlib.Tactic.NormNum
import Mathlib.Tactic.FieldSimp
import DecModel.Round

namespace Dec

/-! ### `ndigitsSlow` -/

theorem ndigitsSlow_zero : ndigitsSlow 0 = 0 := by
  rw [ndigitsSlow]; simp

theorem ndigitsSlow_of_ne_zero {n : Nat} (h : n ≠ 0) : ndigitsSlow n = 1 + ndigitsSlow (n / 10) := by
  rw [ndigitsSlow]; simp [h]

theorem ndigitsSlow_pos {n : Nat} (h : 0 < n) : 0 < ndigitsSlow n := by
  rw [ndigitsSlow_of_ne_zero (by omega)]; omega

/-- `ndigitsSlow n` is the number of decimal digits of `n > 0`. -/
theorem ndigitsSlow_spec : ∀ {n : Nat}, 0 < n → 10 ^ (ndigitsSlow n - 1) ≤ n ∧ n < 10 ^ (ndigitsSlow n) := by
  intro n
  induction n using Nat.strongRecOn with
  | _ n ih =>
    intro hn
    rw [ndigitsSlow_of_ne_zero (by omega)]
    by_cases h10 : n / 10 = 0
    · rw [h10, ndigitsSlow_zero]
      simp only [Nat.add_zero, Nat.sub_self, Nat.pow_zero, Nat.pow_one]
      omega
    · have hlt : n / 10 < n := by omega
      have hp : 0 < n / 10 := by omega
      obtain ⟨h1, h2⟩ := ih (n / 10) hlt hp
      have hk := ndigitsSlow_pos hp
      generalize ndigitsSlow (n / 10) = k at *
      have e1 : 1 + k - 1 = (k - 1) + 1 := by omega
      have e2 : 1 + k = k + 1 := by omega
      have e3 : k = (k - 1) + 1 := by omega
      rw [e1, e2, Nat.pow_succ]
      constructor
      · have : 10 ^ (k - 1) * 10 ≤ (n / 10) * 10 := Nat.mul_le_mul_right 10 h1
        omega
      · rw [Nat.pow_succ]
        have : (n / 10 + 1) * 10 ≤ 10 ^ k * 10 := Nat.mul_le_mul_right 10 h2
        omega

/-- The digit count is determined by the two bounds. -/
theorem digits_unique {n a b : Nat} (ha1 : 10 ^ (a - 1) ≤ n) (ha2 : n < 10 ^ a)
    (hb1 : 10 ^ (b - 1) ≤ n) (hb2 : n < 10 ^ b) (ha : 0 < a) (hb : 0 < b) : a = b := by
  rcases Nat.lt_trichotomy a b with h | h | h
  · have : 10 ^ a ≤ 10 ^ (b - 1) := Nat.pow_le_pow_right (by omega) (by omega)
    omega
  · exact h
  · have : 10 ^ b ≤ 10 ^ (a - 1) := Nat.pow_le_pow_right (by omega) (by omega)
    omega

/-! ### `ndigits` (fast, certificate-checked) -/

theorem ndigits_eq_slow (n : Nat) : ndigits n = ndigitsSlow n := by
  unfold ndigits
  by_cases h0 : n = 0
  · simp [h0, ndigitsSlow_zero]
  · simp only [h0, if_false]
    split
    · rename_i hc
      obtain ⟨c1, c2, c3⟩ := hc
      have hn : 0 < n := by omega
      obtain ⟨s1, s2⟩ := ndigitsSlow_spec hn
      exact digits_unique c1 c2 s1 s2 c3 (ndigitsSlow_pos hn)
    · rfl

theorem ndigits_zero : ndigits 0 = 0 := by rw [ndigits_eq_slow, ndigitsSlow_zero]

theorem ndigits_pos {n : Nat} (h : 0 < n) : 0 < ndigits n := by
  rw [ndigits_eq_slow]; exact ndigitsSlow_pos h

/-- `ndigits n` is the number of decimal digits of `n > 0`. -/
theorem ndigits_spec {n : Nat} (h : 0 < n) : 10 ^ (ndigits n - 1) ≤ n ∧ n < 10 ^ (ndigits n) := by
  rw [ndigits_eq_slow]; exact ndigitsSlow_spec h

theorem lt_pow_ndigits (n : Nat) : n < 10 ^ ndigits n := by
  by_cases h : n = 0
  · subst h; rw [ndigits_zero]; decide
  · exact (ndigits_spec (by omega)).2

/-- `n` has at most `k` digits iff `n < 10^k`. -/
theorem ndigits_le_iff {n k : Nat} (h : 0 < n) : ndigits n ≤ k ↔ n < 10 ^ k := by
  obtain ⟨h1, h2⟩ := ndigits_spec h
  have hp := ndigits_pos h
  constructor
  · intro hk
    have : 10 ^ ndigits n ≤ 10 ^ k := Nat.pow_le_pow_right (by omega) hk
    omega
  · intro hk
    by_contra hc
    have : 10 ^ k ≤ 10 ^ (ndigits n - 1) := Nat.pow_le_pow_right (by omega) (by omega)
    omega

/-- `n` has more than `k` digits iff `10^k ≤ n`. -/
theorem lt_ndigits_iff {n k : Nat} (h : 0 < n) : k < ndigits n ↔ 10 ^ k ≤ n := by
  have := @ndigits_le_iff n k h
  omega

/-- The digit count characterised: `ndigits n = k` iff `10^(k-1) ≤ n < 10^k` (for `n, k > 0`). -/
theorem ndigits_eq_iff {n k : Nat} (h : 0 < n) (hk : 0 < k) :
    ndigits n = k ↔ 10 ^ (k - 1) ≤ n ∧ n < 10 ^ k := by
  obtain ⟨h1, h2⟩ := ndigits_spec h
  constructor
  · intro e; subst e; exact ⟨h1, h2⟩
  · intro ⟨a, b⟩; exact digits_unique h1 h2 a b (ndigits_pos h) hk

/-! ### trailing zeros -/

/-- The counted zeros really are trailing zeros. -/
theorem pow_trailingZeros_dvd : ∀ (f n : Nat), 10 ^ trailingZeros f n ∣ n
  | 0, n => by simp [trailingZeros]
  | f + 1, n => by
    unfold trailingZeros
    split
    · rename_i h
      obtain ⟨k, hk⟩ := pow_trailingZeros_dvd f (n / 10)
      refine ⟨k, ?_⟩
      have e : 1 + trailingZeros f (n / 10) = trailingZeros f (n / 10) + 1 := by omega
      rw [e, Nat.pow_succ, Nat.mul_right_comm, ← hk]
      omega
    · simp

theorem trailingZeros_le : ∀ (f n : Nat), trailingZeros f n ≤ f
  | 0, n => by simp [trailingZeros]
  | f + 1, n => by
    unfold trailingZeros
    split
    · have := trailingZeros_le f (n / 10); omega
    · omega

/-- Maximality: with enough fuel (`n < 10^f`) no higher power of ten divides `n > 0`. -/
theorem trailingZeros_max : ∀ (f n k : Nat), 0 < n → n < 10 ^ f → 10 ^ k ∣ n → k ≤ trailingZeros f n
  | 0, n, k, hn, hf, _ => by simp at hf; omega
  | f + 1, n, k, hn, hf, hk => by
    unfold trailingZeros
    cases k with
    | zero => omega
    | succ k =>
      obtain ⟨t, ht⟩ := hk
      rw [Nat.pow_succ] at ht
      have h10 : n % 10 = 0 := by
        have : n = 10 * (10 ^ k * t) := by rw [ht, Nat.mul_comm (10 ^ k) 10, Nat.mul_assoc]
        omega
      have hdiv : n / 10 = 10 ^ k * t := by
        have : n = 10 * (10 ^ k * t) := by rw [ht, Nat.mul_comm (10 ^ k) 10, Nat.mul_assoc]
        omega
      have hc : n ≠ 0 ∧ n % 10 = 0 := ⟨by omega, h10⟩
      simp only [hc, ne_eq, not_false_eq_true, and_self, if_true]
      have hpos : 0 < n / 10 := by omega
      have hlt : n / 10 < 10 ^ f := by
        rw [Nat.pow_succ] at hf; omega
      have := trailingZeros_max f (n / 10) k hpos hlt ⟨t, hdiv⟩
      omega

/-- With enough fuel, `10^k ∣ n` iff `k ≤ trailingZeros f n`. -/
theorem dvd_iff_le_trailingZeros {f n k : Nat} (hn : 0 < n) (hf : n < 10 ^ f) :
    10 ^ k ∣ n ↔ k ≤ trailingZeros f n := by
  constructor
  · exact trailingZeros_max f n k hn hf
  · intro h
    exact Nat.dvd_trans (Nat.pow_dvd_pow 10 h) (pow_trailingZeros_dvd f n)

/-! ### `ilog10Ratio` -/

private theorem cast_pow_nat (k : Nat) : ((10 ^ k : Nat) : ℚ) = (10 : ℚ) ^ k := by push_cast; rfl

/-- the rational bounds given by the digit count -/
theorem ndigits_bounds_rat {n : Nat} (h : 0 < n) :
    (10 : ℚ) ^ ((ndigits n : Int) - 1) ≤ n ∧ (n : ℚ) < (10 : ℚ) ^ (ndigits n : Int) := by
  obtain ⟨h1, h2⟩ := ndigits_spec h
  have hp := ndigits_pos h
  constructor
  · have : ((ndigits n : Int) - 1) = ((ndigits n - 1 : Nat) : Int) := by omega
    rw [this, zpow_natCast, ← cast_pow_nat]
    exact_mod_cast h1
  · rw [zpow_natCast, ← cast_pow_nat]
    exact_mod_cast h2

/-- `ilog10Ratio n d = ⌊log₁₀ (n/d)⌋`: `10^L ≤ n/d < 10^(L+1)`. -/
theorem ilog10Ratio_spec {n d : Nat} (hn : 0 < n) (hd : 0 < d) :
    (10 : ℚ) ^ (ilog10Ratio n d) ≤ (n : ℚ) / d ∧ (n : ℚ) / d < (10 : ℚ) ^ (ilog10Ratio n d + 1) := by
  obtain ⟨n1, n2⟩ := ndigits_bounds_rat hn
  obtain ⟨d1, d2⟩ := ndigits_bounds_rat hd
  have hdq : (0 : ℚ) < d := by exact_mod_cast hd
  have hnq : (0 : ℚ) < n := by exact_mod_cast hn
  have h10 : (0 : ℚ) < 10 := by norm_num
  have h10' : (10 : ℚ) ≠ 0 := by norm_num
  -- coarse bounds: 10^(j-1) < n/d < 10^(j+1)
  have lo : (10 : ℚ) ^ ((ndigits n : Int) - (ndigits d : Int) - 1) ≤ (n : ℚ) / d := by
    rw [le_div_iff₀ hdq]
    have e : ((ndigits n : Int) - (ndigits d : Int) - 1) = ((ndigits n : Int) - 1) - (ndigits d : Int) := by ring
    rw [e, zpow_sub₀ h10']
    have hpd : (0 : ℚ) < (10 : ℚ) ^ (ndigits d : Int) := zpow_pos h10 _
    have hpn : (0 : ℚ) < (10 : ℚ) ^ ((ndigits n : Int) - 1) := zpow_pos h10 _
    calc (10 : ℚ) ^ ((ndigits n : Int) - 1) / (10 : ℚ) ^ (ndigits d : Int) * d
        ≤ (10 : ℚ) ^ ((ndigits n : Int) - 1) / (10 : ℚ) ^ (ndigits d : Int) * (10 : ℚ) ^ (ndigits d : Int) := by
          apply mul_le_mul_of_nonneg_left (le_of_lt d2)
          positivity
      _ = (10 : ℚ) ^ ((ndigits n : Int) - 1) := by field_simp
      _ ≤ n := n1
  have hi : (n : ℚ) / d < (10 : ℚ) ^ ((ndigits n : Int) - (ndigits d : Int) + 1) := by
    rw [div_lt_iff₀ hdq]
    have e : ((ndigits n : Int) - (ndigits d : Int) + 1) = (ndigits n : Int) - ((ndigits d : Int) - 1) := by ring
    rw [e, zpow_sub₀ h10']
    have hpd : (0 : ℚ) < (10 : ℚ) ^ ((ndigits d : Int) - 1) := zpow_pos h10 _
    have hpn : (0 : ℚ) < (10 : ℚ) ^ (ndigits n : Int) := zpow_pos h10 _
    calc (n : ℚ) < (10 : ℚ) ^ (ndigits n : Int) := n2
      _ = (10 : ℚ) ^ (ndigits n : Int) / (10 : ℚ) ^ ((ndigits d : Int) - 1) * (10 : ℚ) ^ ((ndigits d : Int) - 1) := by
          field_simp
      _ ≤ (10 : ℚ) ^ (ndigits n : Int) / (10 : ℚ) ^ ((ndigits d : Int) - 1) * d := by
          apply mul_le_mul_of_nonneg_left d1
          positivity
  -- the comparison decides between j and j-1
  unfold ilog10Ratio
  generalize hj : (ndigits n : Int) - (ndigits d : Int) = j at lo hi
  simp only
  have key : (if j ≥ 0 then decide (n ≥ d * 10 ^ j.toNat) else decide (n * 10 ^ (-j).toNat ≥ d)) = true ↔
      (10 : ℚ) ^ j ≤ (n : ℚ) / d := by
    rw [le_div_iff₀ hdq]
    by_cases hj0 : j ≥ 0
    · simp only [hj0, if_true, decide_eq_true_eq, ge_iff_le]
      have : (10 : ℚ) ^ j = ((10 ^ j.toNat : Nat) : ℚ) := by
        rw [cast_pow_nat, ← zpow_natCast, Int.toNat_of_nonneg hj0]
      rw [this, mul_comm]
      exact_mod_cast Iff.rfl
    · simp only [hj0, if_false, decide_eq_true_eq, ge_iff_le]
      have hneg : 0 ≤ -j := by omega
      have : (10 : ℚ) ^ j = (((10 ^ (-j).toNat : Nat) : ℚ))⁻¹ := by
        rw [cast_pow_nat, ← zpow_natCast, Int.toNat_of_nonneg hneg, zpow_neg, inv_inv]
      rw [this]
      have hp : (0 : ℚ) < ((10 ^ (-j).toNat : Nat) : ℚ) := by
        rw [cast_pow_nat]; positivity
      rw [inv_mul_le_iff₀ hp, mul_comm]
      exact_mod_cast Iff.rfl
  generalize (if j ≥ 0 then decide (n ≥ d * 10 ^ j.toNat) else decide (n * 10 ^ (-j).toNat ≥ d)) = b at key
  cases b
  · have hlt : (n : ℚ) / d < (10 : ℚ) ^ j := by
      by_contra hc
      exact Bool.false_ne_true (key.mpr (not_lt.mp hc))
    simp only [Bool.false_eq_true, if_false]
    refine ⟨lo, ?_⟩
    have : j - 1 + 1 = j := by ring
    rw [this]; exact hlt
  · simp only [if_true]
    exact ⟨key.mp rfl, hi⟩

/-! ### integer square root -/

theorem exists_sqrt (n : Nat) : ∃ s, s * s ≤ n ∧ n < (s + 1) * (s + 1) := by
  induction n with
  | zero => exact ⟨0, by omega, by omega⟩
  | succ n ih =>
    obtain ⟨s, h1, h2⟩ := ih
    by_cases h : (s + 1) * (s + 1) ≤ n + 1
    · refine ⟨s + 1, h, ?_⟩
      have : (s + 1) * (s + 1) < (s + 1 + 1) * (s + 1 + 1) := Nat.mul_self_lt_mul_self (by omega)
      omega
    · exact ⟨s, by omega, by omega⟩

theorem isqrtFix_spec : ∀ (f n r s : Nat), s * s ≤ n → n < (s + 1) * (s + 1) → r ≤ s + f → s ≤ r + f →
    isqrtFix f n r = s
  | 0, n, r, s, _, _, h3, h4 => by unfold isqrtFix; omega
  | f + 1, n, r, s, h1, h2, h3, h4 => by
    unfold isqrtFix
    by_cases c1 : r * r > n
    · rw [if_pos c1]
      have : s < r := by
        by_contra hc
        have : r * r ≤ s * s := Nat.mul_self_le_mul_self (by omega)
        omega
      exact isqrtFix_spec f n (r - 1) s h1 h2 (by omega) (by omega)
    · rw [if_neg c1]
      by_cases c2 : (r + 1) * (r + 1) ≤ n
      · rw [if_pos c2]
        have : r + 1 ≤ s := by
          by_contra hc
          have : (s + 1) * (s + 1) ≤ (r + 1) * (r + 1) := Nat.mul_self_le_mul_self (by omega)
          omega
        exact isqrtFix_spec f n (r + 1) s h1 h2 (by omega) (by omega)
      · rw [if_neg c2]
        rcases Nat.lt_trichotomy r s with h | h | h
        · have : (r + 1) * (r + 1) ≤ s * s := Nat.mul_self_le_mul_self (by omega)
          omega
        · exact h
        · have : (s + 1) * (s + 1) ≤ r * r := Nat.mul_self_le_mul_self (by omega)
          omega

theorem isqrtIter_le : ∀ (f n x : Nat), isqrtIter f n x ≤ x
  | 0, _, _ => by unfold isqrtIter; omega
  | f + 1, n, x => by
    unfold isqrtIter
    simp only
    split
    · rename_i h
      have := isqrtIter_le f n ((x + n / x) / 2)
      omega
    · omega

/-- `isqrt n = ⌊√n⌋`. -/
theorem isqrt_spec (n : Nat) : isqrt n * isqrt n ≤ n ∧ n < (isqrt n + 1) * (isqrt n + 1) := by
  by_cases h0 : n = 0
  · subst h0; decide
  · obtain ⟨s, h1, h2⟩ := exists_sqrt n
    have hs : s ≤ n := by
      rcases Nat.eq_zero_or_pos s with h | h
      · omega
      · have : s * 1 ≤ s * s := Nat.mul_le_mul_left s h
        omega
    have hx0 : 2 ^ (n.log2 / 2 + 1) ≤ n + 1 := by
      have hl := Nat.log2_self_le h0
      by_cases hL : n.log2 < 2
      · have : n.log2 / 2 + 1 = 1 := by omega
        rw [this]; omega
      · have : 2 ^ (n.log2 / 2 + 1) ≤ 2 ^ n.log2 := Nat.pow_le_pow_right (by omega) (by omega)
        omega
    have hle := isqrtIter_le (n.log2 + 8) n (2 ^ (n.log2 / 2 + 1))
    have : isqrt n = s := by
      unfold isqrt
      rw [if_neg h0]
      exact isqrtFix_spec (n + 1) n _ s h1 h2 (by omega) (by omega)
    rw [this]; exact ⟨h1, h2⟩

end Dec
