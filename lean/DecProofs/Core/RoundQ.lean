/-
  DecProofs.Core.RoundQ — the bridge from the integer-level rounding specification `RoundedInt`
  (cross-multiplied, no division) to the ℚ-level specification `RoundedTo`, and the "named rounding"
  readings of `roundInt` with Mathlib's `⌊·⌋`, `⌈·⌉`, `round`.
-/
import DecProofs.Spec
import DecProofs.Core.RoundInt
import Mathlib.Algebra.Order.Floor.Ring
import Mathlib.Algebra.Order.Round
import Mathlib.Data.Rat.Floor
import Mathlib.Tactic.FieldSimp
import Mathlib.Tactic.Push

namespace Dec

/-! ### cross-multiplied comparisons versus comparisons of the quotient -/

section cross
variable {V D m : Nat}

private theorem x1 (hD : 0 < D) : m * D ≤ V ↔ (m : ℚ) ≤ (V : ℚ) / D := by
  have hd : (0 : ℚ) < D := by exact_mod_cast hD
  rw [le_div_iff₀ hd]; exact_mod_cast Iff.rfl

private theorem x2 (hD : 0 < D) : V < m * D + D ↔ (V : ℚ) / D < m + 1 := by
  have hd : (0 : ℚ) < D := by exact_mod_cast hD
  rw [div_lt_iff₀ hd, add_mul, one_mul]; exact_mod_cast Iff.rfl

private theorem x3 (hD : 0 < D) : V ≤ m * D ↔ (V : ℚ) / D ≤ m := by
  have hd : (0 : ℚ) < D := by exact_mod_cast hD
  rw [div_le_iff₀ hd]; exact_mod_cast Iff.rfl

private theorem x4 (hD : 0 < D) : m * D < V + D ↔ (m : ℚ) < (V : ℚ) / D + 1 := by
  have hd : (0 : ℚ) < D := by exact_mod_cast hD
  rw [← sub_lt_iff_lt_add, lt_div_iff₀ hd, sub_mul, one_mul, sub_lt_iff_lt_add]; exact_mod_cast Iff.rfl

private theorem x5 (hD : 0 < D) : 2 * V ≤ 2 * m * D + D ↔ (V : ℚ) / D - m ≤ 1 / 2 := by
  have hd : (0 : ℚ) < D := by exact_mod_cast hD
  rw [sub_le_iff_le_add, div_le_iff₀ hd]
  have : (2 * V ≤ 2 * m * D + D) ↔ (2 * (V : ℚ) ≤ 2 * m * D + D) := by exact_mod_cast Iff.rfl
  rw [this]; constructor <;> intro h <;> linarith

private theorem x6 (hD : 0 < D) : 2 * m * D ≤ 2 * V + D ↔ -(1 / 2) ≤ (V : ℚ) / D - m := by
  have hd : (0 : ℚ) < D := by exact_mod_cast hD
  rw [le_sub_iff_add_le, le_div_iff₀ hd]
  have : (2 * m * D ≤ 2 * V + D) ↔ (2 * (m : ℚ) * D ≤ 2 * V + D) := by exact_mod_cast Iff.rfl
  rw [this]; constructor <;> intro h <;> linarith

private theorem x7 (hD : 0 < D) : 2 * V = 2 * m * D + D ↔ (V : ℚ) / D - m = 1 / 2 := by
  have hd : (0 : ℚ) < D := by exact_mod_cast hD
  rw [sub_eq_iff_eq_add, div_eq_iff hd.ne']
  have : (2 * V = 2 * m * D + D) ↔ (2 * (V : ℚ) = 2 * m * D + D) := by exact_mod_cast Iff.rfl
  rw [this]; constructor <;> intro h <;> linarith

private theorem x8 (hD : 0 < D) : 2 * m * D = 2 * V + D ↔ (V : ℚ) / D - m = -(1 / 2) := by
  have hd : (0 : ℚ) < D := by exact_mod_cast hD
  rw [sub_eq_iff_eq_add, div_eq_iff hd.ne']
  have : (2 * m * D = 2 * V + D) ↔ (2 * (m : ℚ) * D = 2 * V + D) := by exact_mod_cast Iff.rfl
  rw [this]; constructor <;> intro h <;> linarith

end cross

/-- **Bridge.** The integer-level and the ℚ-level rounding specifications say the same thing about
the quotient `V / D` (for `D > 0`). -/
theorem RoundedInt_iff_RoundedTo (mode : Mode) (neg : Bool) (V D m : Nat) (hD : 0 < D) :
    RoundedInt mode neg V D m ↔ RoundedTo mode neg ((V : ℚ) / D) m := by
  have hhalf : (0 : ℚ) ≤ 1 / 2 := by norm_num
  cases mode
  case rtz => simp only [RoundedInt, RoundedTo, x1 hD, x2 hD]
  case rdn => cases neg <;> simp only [RoundedInt, RoundedTo, if_true, if_false, Bool.false_eq_true, x1 hD, x2 hD, x3 hD, x4 hD]
  case rup => cases neg <;> simp only [RoundedInt, RoundedTo, if_true, if_false, Bool.false_eq_true, x1 hD, x2 hD, x3 hD, x4 hD]
  case rne => simp only [RoundedInt, RoundedTo, x5 hD, x6 hD, x7 hD, x8 hD, abs_le, abs_eq hhalf]; tauto
  case rna => simp only [RoundedInt, RoundedTo, x5 hD, x6 hD, x7 hD, x8 hD, x3 hD, abs_le, abs_eq hhalf]; tauto

/-- integer-level specification ⇒ ℚ-level specification -/
theorem RoundedInt.toRoundedTo {mode : Mode} {neg : Bool} {V D m : Nat}
    (h : RoundedInt mode neg V D m) (hD : 0 < D) : RoundedTo mode neg ((V : ℚ) / D) m :=
  (RoundedInt_iff_RoundedTo mode neg V D m hD).1 h

/-- ℚ-level specification ⇒ integer-level specification -/
theorem RoundedTo.toRoundedInt {mode : Mode} {neg : Bool} {V D m : Nat}
    (h : RoundedTo mode neg ((V : ℚ) / D) m) (hD : 0 < D) : RoundedInt mode neg V D m :=
  (RoundedInt_iff_RoundedTo mode neg V D m hD).2 h

/-- `q + r/D` as a single quotient -/
theorem quot_add_rem_div (q r D : Nat) (hD : 0 < D) :
    (q : ℚ) + (r : ℚ) / D = ((q * D + r : Nat) : ℚ) / D := by
  have hd : (D : ℚ) ≠ 0 := by exact_mod_cast hD.ne'
  push_cast; field_simp

/-- Euclidean division in ℚ: `c / D = ⌊c/D⌋ + (c mod D)/D` -/
theorem cast_div_add_mod_div (c D : Nat) (hD : 0 < D) :
    ((c / D : Nat) : ℚ) + ((c % D : Nat) : ℚ) / D = (c : ℚ) / D := by
  rw [quot_add_rem_div _ _ _ hD, Nat.mul_comm, Nat.div_add_mod]

/-- **`roundInt` is correct over ℚ**: it returns `q + r/D` rounded in `mode`. -/
theorem roundInt_RoundedTo (mode : Mode) (neg : Bool) (q r D : Nat) (hr : r < D) :
    RoundedTo mode neg ((q : ℚ) + (r : ℚ) / D) (roundInt mode neg q r D) := by
  have hD : 0 < D := by omega
  rw [quot_add_rem_div q r D hD]
  exact (roundInt_spec mode neg q r D hr).toRoundedTo hD

/-- the shape every caller in the model uses: `c / D` and `c % D` -/
theorem roundInt_divmod_RoundedTo (mode : Mode) (neg : Bool) (c D : Nat) (hD : 0 < D) :
    RoundedTo mode neg ((c : ℚ) / D) (roundInt mode neg (c / D) (c % D) D) := by
  have := roundInt_RoundedTo mode neg (c / D) (c % D) D (Nat.mod_lt _ hD)
  rwa [cast_div_add_mod_div c D hD] at this

/-- the ℚ-level specification determines the rounded integer -/
theorem RoundedTo.unique (mode : Mode) (neg : Bool) (v : ℚ) (m m' : Nat)
    (h : RoundedTo mode neg v m) (h' : RoundedTo mode neg v m') : m = m' := by
  have key : ∀ a b : Nat, (a : ℚ) + 1 ≤ b ∨ (b : ℚ) + 1 ≤ a ∨ a = b := by
    intro a b
    rcases Nat.lt_trichotomy a b with hlt | heq | hgt
    · left; exact_mod_cast hlt
    · right; right; exact heq
    · right; left; exact_mod_cast hgt
  have hhalf : (0 : ℚ) ≤ 1 / 2 := by norm_num
  rcases key m m' with hk | hk | hk
  · exfalso
    cases mode <;> cases neg <;>
      simp only [RoundedTo, if_true, if_false, Bool.false_eq_true, abs_le, abs_eq hhalf] at h h' <;>
      first
        | linarith [h.1, h.2, h'.1, h'.2]
        | (obtain ⟨⟨h1, h2⟩, h3⟩ := h; obtain ⟨⟨h1', h2'⟩, h3'⟩ := h'
           have e1 : (m' : ℚ) = m + 1 := by linarith
           have e1' : m' = m + 1 := by exact_mod_cast e1
           have a1 := h3 (Or.inl (by linarith)); have a2 := h3' (Or.inr (by linarith))
           first | omega | linarith)
  · exfalso
    cases mode <;> cases neg <;>
      simp only [RoundedTo, if_true, if_false, Bool.false_eq_true, abs_le, abs_eq hhalf] at h h' <;>
      first
        | linarith [h.1, h.2, h'.1, h'.2]
        | (obtain ⟨⟨h1, h2⟩, h3⟩ := h; obtain ⟨⟨h1', h2'⟩, h3'⟩ := h'
           have e1 : (m : ℚ) = m' + 1 := by linarith
           have e1' : m = m' + 1 := by exact_mod_cast e1
           have a1 := h3 (Or.inr (by linarith)); have a2 := h3' (Or.inl (by linarith))
           first | omega | linarith)
  · exact hk

/-! ### Signed integer results: floor, ceiling, truncation, nearest -/

/-- `sInt` over ℚ -/
theorem sInt_cast (neg : Bool) (m : Nat) : ((sInt neg m : Int) : ℚ) = if neg then -(m : ℚ) else (m : ℚ) := by
  unfold sInt; cases neg <;> simp

/-- `n` is the signed rational `x` rounded to an integer in the named direction:
`rdn` = floor, `rup` = ceiling, `rtz` = truncation, `rne` / `rna` = nearest integer with ties to
even / away from zero. -/
def RoundedZ (mode : Mode) (x : ℚ) (n : Int) : Prop :=
  match mode with
  | .rdn => n = ⌊x⌋
  | .rup => n = ⌈x⌉
  | .rtz => n = if 0 ≤ x then ⌊x⌋ else ⌈x⌉
  | .rne => |x - n| ≤ 1 / 2 ∧ (|x - n| = 1 / 2 → n % 2 = 0)
  | .rna => |x - n| ≤ 1 / 2 ∧ (|x - n| = 1 / 2 → |x| ≤ |(n : ℚ)|)

/-- downward rounding of the magnitude-and-sign pair is the floor of the signed value -/
theorem RoundedTo.rdn_floor {neg : Bool} {v : ℚ} {m : Nat} (h : RoundedTo .rdn neg v m) :
    sInt neg m = ⌊if neg then -v else v⌋ := by
  symm; rw [Int.floor_eq_iff, sInt_cast]
  cases neg <;> simp only [RoundedTo, if_true, if_false, Bool.false_eq_true] at h ⊢ <;>
    constructor <;> linarith [h.1, h.2]

/-- upward rounding is the ceiling of the signed value -/
theorem RoundedTo.rup_ceil {neg : Bool} {v : ℚ} {m : Nat} (h : RoundedTo .rup neg v m) :
    sInt neg m = ⌈if neg then -v else v⌉ := by
  symm; rw [Int.ceil_eq_iff, sInt_cast]
  cases neg <;> simp only [RoundedTo, if_true, if_false, Bool.false_eq_true] at h ⊢ <;>
    constructor <;> linarith [h.1, h.2]

/-- rounding toward zero is the floor of the magnitude -/
theorem RoundedTo.rtz_floor {neg : Bool} {v : ℚ} {m : Nat} (h : RoundedTo .rtz neg v m) :
    (m : Int) = ⌊v⌋ := by
  symm; rw [Int.floor_eq_iff]
  simp only [RoundedTo] at h
  exact ⟨by exact_mod_cast h.1, by exact_mod_cast h.2⟩

/-- rounding toward zero of a non-negative magnitude is truncation of the signed value -/
theorem RoundedTo.rtz_trunc {neg : Bool} {v : ℚ} {m : Nat} (h : RoundedTo .rtz neg v m) (hv : 0 ≤ v) :
    sInt neg m = (if 0 ≤ (if neg then -v else v) then ⌊if neg then -v else v⌋ else ⌈if neg then -v else v⌉) := by
  have hm := h.rtz_floor
  cases neg <;> simp only [if_true, if_false, Bool.false_eq_true, hv, sInt]
  · exact hm
  · by_cases h0 : (0 : ℚ) ≤ -v
    · have : v = 0 := by linarith
      subst this
      simp at hm ⊢; exact hm
    · rw [if_neg h0, Int.ceil_neg, hm]

/-- all five modes at once: the signed result is the signed value rounded in the named direction -/
theorem RoundedTo.toRoundedZ {mode : Mode} {neg : Bool} {v : ℚ} {m : Nat}
    (h : RoundedTo mode neg v m) (hv : 0 ≤ v) :
    RoundedZ mode (if neg then -v else v) (sInt neg m) := by
  cases mode
  · -- rne
    simp only [RoundedZ, sInt_cast]
    simp only [RoundedTo] at h
    have e : |(if neg then -v else v) - (if neg then -(m : ℚ) else (m : ℚ))| = |v - m| := by
      cases neg
      · simp
      · simp only [if_true]; rw [← abs_neg]; congr 1; ring
    rw [e]
    refine ⟨h.1, fun ht => ?_⟩
    have := h.2 ht
    unfold sInt; cases neg <;> simp only [if_true, if_false, Bool.false_eq_true] <;> omega
  · exact h.rdn_floor
  · exact h.rup_ceil
  · exact h.rtz_trunc hv
  · -- rna
    simp only [RoundedZ, sInt_cast]
    simp only [RoundedTo] at h
    have e : |(if neg then -v else v) - (if neg then -(m : ℚ) else (m : ℚ))| = |v - m| := by
      cases neg
      · simp
      · simp only [if_true]; rw [← abs_neg]; congr 1; ring
    rw [e]
    refine ⟨h.1, fun ht => ?_⟩
    have := h.2 ht
    have hm : (0 : ℚ) ≤ m := Nat.cast_nonneg m
    cases neg <;> simp only [if_true, if_false, Bool.false_eq_true, abs_neg, abs_of_nonneg hv, abs_of_nonneg hm] <;>
      exact this

/-- nearest-away of a non-negative magnitude is Mathlib's `round` (half up) of the magnitude -/
theorem RoundedTo.rna_round {neg : Bool} {v : ℚ} {m : Nat} (h : RoundedTo .rna neg v m) :
    (m : Int) = round v := by
  symm; rw [round_eq, Int.floor_eq_iff]
  simp only [RoundedTo, abs_le] at h
  obtain ⟨⟨h1, h2⟩, h3⟩ := h
  refine ⟨by push_cast; linarith, ?_⟩
  push_cast
  rcases lt_or_eq_of_le h2 with hlt | heq
  · linarith
  · exfalso
    have : |v - m| = 1 / 2 := by rw [heq]; norm_num
    have := h3 this
    linarith

/-! ### The named roundings computed by `roundInt`

The exact value is `x = ±(q + r/D)` (sign `neg`), `0 ≤ r < D`. -/

section named
variable (neg : Bool) (q r D : Nat)

/-- all modes: `sInt neg (roundInt …)` is the signed value rounded in the named direction -/
theorem roundInt_RoundedZ (mode : Mode) (hr : r < D) :
    RoundedZ mode (if neg then -((q : ℚ) + (r : ℚ) / D) else ((q : ℚ) + (r : ℚ) / D))
      (sInt neg (roundInt mode neg q r D)) := by
  have hD : (0 : ℚ) < D := by exact_mod_cast (show 0 < D by omega)
  exact (roundInt_RoundedTo mode neg q r D hr).toRoundedZ (by positivity)

/-- toward-negative: the floor of the signed value -/
theorem roundInt_rdn_floor (hr : r < D) :
    sInt neg (roundInt .rdn neg q r D) = ⌊if neg then -((q : ℚ) + (r : ℚ) / D) else ((q : ℚ) + (r : ℚ) / D)⌋ :=
  (roundInt_RoundedTo .rdn neg q r D hr).rdn_floor

/-- toward-positive: the ceiling of the signed value -/
theorem roundInt_rup_ceil (hr : r < D) :
    sInt neg (roundInt .rup neg q r D) = ⌈if neg then -((q : ℚ) + (r : ℚ) / D) else ((q : ℚ) + (r : ℚ) / D)⌉ :=
  (roundInt_RoundedTo .rup neg q r D hr).rup_ceil

/-- toward-zero: the integer part of the absolute value -/
theorem roundInt_rtz_floor_abs (hr : r < D) :
    roundInt .rtz neg q r D = Int.toNat ⌊|if neg then -((q : ℚ) + (r : ℚ) / D) else ((q : ℚ) + (r : ℚ) / D)|⌋ := by
  have hD : (0 : ℚ) < D := by exact_mod_cast (show 0 < D by omega)
  have hv : (0 : ℚ) ≤ (q : ℚ) + (r : ℚ) / D := by positivity
  have e : |if neg then -((q : ℚ) + (r : ℚ) / D) else ((q : ℚ) + (r : ℚ) / D)| = (q : ℚ) + (r : ℚ) / D := by
    cases neg <;> simp only [if_true, if_false, Bool.false_eq_true, abs_neg, abs_of_nonneg hv]
  rw [e, ← (roundInt_RoundedTo .rtz neg q r D hr).rtz_floor, Int.toNat_natCast]

/-- toward-zero, signed: truncation (floor for non-negative, ceiling for negative values) -/
theorem roundInt_rtz_trunc (hr : r < D) :
    sInt neg (roundInt .rtz neg q r D) =
      (if 0 ≤ (if neg then -((q : ℚ) + (r : ℚ) / D) else ((q : ℚ) + (r : ℚ) / D))
       then ⌊if neg then -((q : ℚ) + (r : ℚ) / D) else ((q : ℚ) + (r : ℚ) / D)⌋
       else ⌈if neg then -((q : ℚ) + (r : ℚ) / D) else ((q : ℚ) + (r : ℚ) / D)⌉) := by
  have hD : (0 : ℚ) < D := by exact_mod_cast (show 0 < D by omega)
  exact (roundInt_RoundedTo .rtz neg q r D hr).rtz_trunc (by positivity)

/-- nearest-even: within one half of the signed value, and even when exactly half-way -/
theorem roundInt_rne_nearest (hr : r < D) :
    let x : ℚ := if neg then -((q : ℚ) + (r : ℚ) / D) else ((q : ℚ) + (r : ℚ) / D)
    let n : Int := sInt neg (roundInt .rne neg q r D)
    |x - n| ≤ 1 / 2 ∧ (|x - n| = 1 / 2 → n % 2 = 0) :=
  roundInt_RoundedZ neg q r D .rne hr

/-- nearest-away: within one half of the signed value, and the one of larger magnitude when exactly
half-way -/
theorem roundInt_rna_nearest (hr : r < D) :
    let x : ℚ := if neg then -((q : ℚ) + (r : ℚ) / D) else ((q : ℚ) + (r : ℚ) / D)
    let n : Int := sInt neg (roundInt .rna neg q r D)
    |x - n| ≤ 1 / 2 ∧ (|x - n| = 1 / 2 → |x| ≤ |(n : ℚ)|) :=
  roundInt_RoundedZ neg q r D .rna hr

/-- nearest-away is `round` (half up) of the magnitude -/
theorem roundInt_rna_round (hr : r < D) :
    (roundInt .rna neg q r D : Int) = round ((q : ℚ) + (r : ℚ) / D) :=
  (roundInt_RoundedTo .rna neg q r D hr).rna_round

end named

/-- `RoundedZ` determines the integer -/
theorem RoundedZ_unique (mode : Mode) (x : ℚ) (n n' : Int)
    (h : RoundedZ mode x n) (h' : RoundedZ mode x n') : n = n' := by
  have hhalf : (0 : ℚ) ≤ 1 / 2 := by norm_num
  have key : (n : ℚ) + 1 ≤ n' ∨ (n' : ℚ) + 1 ≤ n ∨ n = n' := by
    rcases lt_trichotomy n n' with hlt | heq | hgt
    · left; exact_mod_cast hlt
    · right; right; exact heq
    · right; left; exact_mod_cast hgt
  cases mode
  case rdn => simp only [RoundedZ] at h h'; rw [h, h']
  case rup => simp only [RoundedZ] at h h'; rw [h, h']
  case rtz => simp only [RoundedZ] at h h'; rw [h, h']
  case rne =>
    simp only [RoundedZ, abs_le, abs_eq hhalf] at h h'
    obtain ⟨⟨h1, h2⟩, h3⟩ := h; obtain ⟨⟨h1', h2'⟩, h3'⟩ := h'
    rcases key with hk | hk | hk
    · have e1 : (n' : ℚ) = n + 1 := by linarith
      have e1' : n' = n + 1 := by exact_mod_cast e1
      have a1 := h3 (Or.inl (by linarith)); have a2 := h3' (Or.inr (by linarith)); omega
    · have e1 : (n : ℚ) = n' + 1 := by linarith
      have e1' : n = n' + 1 := by exact_mod_cast e1
      have a1 := h3 (Or.inr (by linarith)); have a2 := h3' (Or.inl (by linarith)); omega
    · exact hk
  case rna =>
    simp only [RoundedZ] at h h'
    obtain ⟨hA, h3⟩ := h; obtain ⟨hA', h3'⟩ := h'
    rw [abs_le] at hA hA'
    obtain ⟨h1, h2⟩ := hA; obtain ⟨h1', h2'⟩ := hA'
    rcases key with hk | hk | hk
    · exfalso
      have e1 : (n' : ℚ) = n + 1 := by linarith
      have a1 := h3 ((abs_eq hhalf).2 (Or.inl (by linarith)))
      have a2 := h3' ((abs_eq hhalf).2 (Or.inr (by linarith)))
      have ex : x = n + 1 / 2 := by linarith
      rw [ex, e1] at a2; rw [ex] at a1
      rcases le_or_gt 0 (n : ℚ) with hn | hn
      · rw [abs_of_nonneg (by linarith), abs_of_nonneg hn] at a1; linarith
      · have hn' : (n : ℚ) + 1 ≤ 0 := by
          have h0 : n < 0 := by exact_mod_cast hn
          have : n + 1 ≤ 0 := by omega
          exact_mod_cast this
        rw [abs_of_nonpos hn', abs_le] at a2; linarith [a2.1, a2.2]
    · exfalso
      have e1 : (n : ℚ) = n' + 1 := by linarith
      have a1 := h3 ((abs_eq hhalf).2 (Or.inr (by linarith)))
      have a2 := h3' ((abs_eq hhalf).2 (Or.inl (by linarith)))
      have ex : x = n' + 1 / 2 := by linarith
      rw [ex, e1] at a1; rw [ex] at a2
      rcases le_or_gt 0 (n' : ℚ) with hn | hn
      · rw [abs_of_nonneg (by linarith), abs_of_nonneg hn] at a2; linarith
      · have hn' : (n' : ℚ) + 1 ≤ 0 := by
          have h0 : n' < 0 := by exact_mod_cast hn
          have : n' + 1 ≤ 0 := by omega
          exact_mod_cast this
        rw [abs_of_nonpos hn', abs_le] at a1; linarith [a1.1, a1.2]
    · exact hk

example : RoundedZ .rne (5 / 2) 2 := by
  have h := roundInt_RoundedZ false 2 1 2 .rne (by decide)
  have e : roundInt .rne false 2 1 2 = 2 := by decide
  rw [e] at h; norm_num [sInt] at h ⊢; exact h

/-! ### `fval` in the two exponent regimes -/

/-- an integer-valued rational -/
def IsInt (x : ℚ) : Prop := ∃ n : Int, x = n

theorem zpow10_nonneg (e : Int) (h : 0 ≤ e) : (10 : ℚ) ^ e = ((10 ^ e.toNat : Nat) : ℚ) := by
  obtain ⟨k, rfl⟩ := Int.eq_ofNat_of_zero_le h
  rw [zpow_natCast, Int.toNat_natCast]; push_cast; rfl

theorem zpow10_neg (e : Int) (h : e ≤ 0) : (10 : ℚ) ^ e = 1 / ((10 ^ (-e).toNat : Nat) : ℚ) := by
  obtain ⟨k, hk⟩ := Int.eq_ofNat_of_zero_le (show 0 ≤ -e by omega)
  have : e = -(k : Int) := by omega
  subst this
  rw [zpow_neg, zpow_natCast, neg_neg, Int.toNat_natCast]; push_cast; rw [one_div]

theorem pow10_pos (k : Nat) : 0 < 10 ^ k := Nat.pow_pos (by decide)

/-- `fval` as a signed magnitude -/
theorem fval_signed (s : Bool) (c : Nat) (e : Int) :
    fval s c e = if s then -((c : ℚ) * (10 : ℚ) ^ e) else (c : ℚ) * (10 : ℚ) ^ e := by
  unfold fval; cases s <;> simp

theorem abs_fval (s : Bool) (c : Nat) (e : Int) : |fval s c e| = (c : ℚ) * (10 : ℚ) ^ e := by
  have : (0 : ℚ) ≤ (c : ℚ) * (10 : ℚ) ^ e := mul_nonneg (Nat.cast_nonneg c) (zpow_nonneg (by norm_num) e)
  rw [fval_signed]; cases s <;> simp only [if_true, if_false, Bool.false_eq_true, abs_neg, abs_of_nonneg this]

/-- non-negative exponent: the value is the integer `±c·10^e` -/
theorem fval_of_nonneg (s : Bool) (c : Nat) (e : Int) (h : 0 ≤ e) :
    fval s c e = ((sInt s (c * 10 ^ e.toNat) : Int) : ℚ) := by
  rw [fval_signed, sInt_cast, zpow10_nonneg e h]; push_cast; rfl

/-- negative exponent: the value is `±c / 10^(-e)` -/
theorem fval_of_neg (s : Bool) (c : Nat) (e : Int) (h : e ≤ 0) :
    fval s c e = if s then -((c : ℚ) / ((10 ^ (-e).toNat : Nat) : ℚ)) else (c : ℚ) / ((10 ^ (-e).toNat : Nat) : ℚ) := by
  rw [fval_signed, zpow10_neg e h]; simp only [mul_one_div]

theorem fval_zero_exp (s : Bool) (m : Nat) : fval s m 0 = ((sInt s m : Int) : ℚ) := by
  rw [fval_of_nonneg s m 0 (le_refl _)]; simp

/-- an integer is its own rounding in every direction -/
theorem RoundedZ_intCast (mode : Mode) (n : Int) : RoundedZ mode (n : ℚ) n := by
  cases mode <;> simp [RoundedZ]

/-- `c / D` is an integer iff `D` divides `c` -/
theorem isInt_div_iff (c D : Nat) (hD : 0 < D) : IsInt ((c : ℚ) / D) ↔ c % D = 0 := by
  have hd : (D : ℚ) ≠ 0 := by exact_mod_cast hD.ne'
  constructor
  · rintro ⟨n, hn⟩
    have h0 : (0 : ℚ) ≤ n := by rw [← hn]; positivity
    have h0' : 0 ≤ n := by exact_mod_cast h0
    obtain ⟨k, rfl⟩ := Int.eq_ofNat_of_zero_le h0'
    rw [div_eq_iff hd] at hn
    have : c = k * D := by exact_mod_cast hn
    rw [this]; exact Nat.mul_mod_left _ _
  · intro h
    obtain ⟨k, hk⟩ := Nat.dvd_of_mod_eq_zero h
    exact ⟨(k : Int), by rw [hk]; push_cast; field_simp⟩

theorem isInt_neg_iff (x : ℚ) : IsInt (-x) ↔ IsInt x := by
  constructor
  · rintro ⟨n, hn⟩; exact ⟨-n, by push_cast; linarith⟩
  · rintro ⟨n, hn⟩; exact ⟨-n, by push_cast; linarith⟩

/-- for a negative exponent the value is an integer iff the dropped digits are all zero -/
theorem isInt_fval_iff (s : Bool) (c : Nat) (e : Int) (h : e ≤ 0) :
    IsInt (fval s c e) ↔ c % 10 ^ (-e).toNat = 0 := by
  rw [fval_of_neg s c e h, ← isInt_div_iff c _ (pow10_pos _)]
  cases s <;> simp only [if_true, if_false, Bool.false_eq_true, isInt_neg_iff]

theorem isInt_fval_of_nonneg (s : Bool) (c : Nat) (e : Int) (h : 0 ≤ e) : IsInt (fval s c e) :=
  ⟨_, fval_of_nonneg s c e h⟩

/-! ### further helpers used by the property files -/

/-- an integer magnitude is its own rounding, in every mode -/
theorem RoundedTo_natCast (mode : Mode) (neg : Bool) (k : Nat) : RoundedTo mode neg (k : ℚ) k := by
  have := roundInt_RoundedTo mode neg k 0 1 (by decide)
  have e : roundInt mode neg k 0 1 = k := by simp [roundInt, roundUp]
  rw [e] at this; simpa using this

theorem RoundedTo_natCast_iff (mode : Mode) (neg : Bool) (k m : Nat) : RoundedTo mode neg (k : ℚ) m ↔ m = k :=
  ⟨fun h => RoundedTo.unique mode neg _ _ _ h (RoundedTo_natCast mode neg k), fun h => h ▸ RoundedTo_natCast mode neg k⟩

/-- `roundInt` returns `q` or `q + 1` -/
theorem roundInt_le (mode : Mode) (neg : Bool) (q r D : Nat) : roundInt mode neg q r D ≤ q + 1 := by
  unfold roundInt; split <;> omega

theorem le_roundInt (mode : Mode) (neg : Bool) (q r D : Nat) : q ≤ roundInt mode neg q r D := by
  unfold roundInt; split <;> omega

theorem roundInt_zero_rem (mode : Mode) (neg : Bool) (q D : Nat) : roundInt mode neg q 0 D = q := by
  simp [roundInt, roundUp]

/-- padding the coefficient with `k` zeros and lowering the exponent by `k` keeps the value -/
theorem fval_pad (s : Bool) (c : Nat) (e : Int) (k : Nat) : fval s (c * 10 ^ k) (e - k) = fval s c e := by
  unfold fval
  rw [zpow_sub₀ (by norm_num : (10 : ℚ) ≠ 0), zpow_natCast]
  have : ((10 : ℚ) ^ k) ≠ 0 := by positivity
  push_cast; field_simp

/-- the ratio of two powers of ten, downward -/
theorem zpow10_div_of_lt (e ey : Int) (h : e ≤ ey) :
    (10 : ℚ) ^ e / (10 : ℚ) ^ ey = 1 / ((10 ^ (ey - e).toNat : Nat) : ℚ) := by
  rw [← zpow_sub₀ (by norm_num : (10 : ℚ) ≠ 0), zpow10_neg (e - ey) (by omega)]
  have : -(e - ey) = ey - e := by ring
  rw [this]

theorem zpow10_div_of_ge (e ey : Int) (h : ey ≤ e) :
    (10 : ℚ) ^ e / (10 : ℚ) ^ ey = ((10 ^ (e - ey).toNat : Nat) : ℚ) := by
  rw [← zpow_sub₀ (by norm_num : (10 : ℚ) ≠ 0), zpow10_nonneg (e - ey) (by omega)]

/-- two values with the same sign and exponent are equal iff the coefficients are (ℚ coefficients) -/
theorem signed_scale_inj (s : Bool) (a b : ℚ) (e : Int) :
    (if s then (-1 : ℚ) else 1) * a * (10 : ℚ) ^ e = (if s then (-1 : ℚ) else 1) * b * (10 : ℚ) ^ e ↔ a = b := by
  have hp : (10 : ℚ) ^ e ≠ 0 := (zpow_pos (by norm_num) e).ne'
  have hs : (if s then (-1 : ℚ) else 1) ≠ 0 := by cases s <;> simp
  constructor
  · intro h
    exact mul_left_cancel₀ hs (mul_right_cancel₀ hp h)
  · intro h; rw [h]

end Dec
