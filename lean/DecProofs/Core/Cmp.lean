/-
  DecProofs.Core.Cmp — T-cmp: the model's numeric comparison is the order of the exact values.

  * `cmpFin s1 c1 e1 s2 c2 e2 = compare (fval s1 c1 e1) (fval s2 c2 e2)` in ℚ, for all coefficients and
    exponents (no range hypotheses);
  * `cmpD x y = some (compare x.ext y.ext)` for non-NaN data, where `Datum.ext` is the value in the
    extended rationals `WithBot (WithTop ℚ)` (−∞ = ⊥, +∞ = ⊤);
  * consequently `cmpD` is a strict weak order on non-NaN data: swap, transitivity, totality.
-/
import DecProofs.Spec
import Mathlib.Order.WithBot

namespace Dec

/-! ### generic facts about `compare` in a linear order -/

/-- an `Ordering` whose `.lt`/`.eq` cases are characterised by `<`/`=` is `compare` -/
theorem eq_compare_of_iff {α : Type*} [LinearOrder α] {o : Ordering} {a b : α}
    (hlt : o = .lt ↔ a < b) (heq : o = .eq ↔ a = b) : o = compare a b := by
  rcases lt_trichotomy a b with h | h | h
  · rw [compare_lt_iff_lt.2 h]; exact hlt.2 h
  · rw [compare_eq_iff_eq.2 h]; exact heq.2 h
  · rw [compare_gt_iff_gt.2 h]
    cases o
    · exact absurd (hlt.1 rfl) (lt_asymm h)
    · exact absurd (heq.1 rfl) (ne_of_gt h)
    · rfl

theorem compare_swap_lin {α : Type*} [LinearOrder α] (a b : α) : compare b a = (compare a b).swap := by
  rcases lt_trichotomy a b with h | h | h
  · rw [compare_lt_iff_lt.2 h, compare_gt_iff_gt.2 h]; rfl
  · rw [compare_eq_iff_eq.2 h, compare_eq_iff_eq.2 h.symm]; rfl
  · rw [compare_gt_iff_gt.2 h, compare_lt_iff_lt.2 h]; rfl

/-! ### elementary facts about `fval` -/

theorem ten_zpow_pos (m : Int) : (0 : ℚ) < (10 : ℚ) ^ m := zpow_pos (by norm_num) m

theorem fval_false (c : Nat) (e : Int) : fval false c e = (c : ℚ) * (10 : ℚ) ^ e := by
  simp [fval]

theorem fval_true (c : Nat) (e : Int) : fval true c e = -((c : ℚ) * (10 : ℚ) ^ e) := by
  simp [fval]

theorem fval_true_eq_neg (c : Nat) (e : Int) : fval true c e = -fval false c e := by
  rw [fval_true, fval_false]

theorem fval_false_nonneg (c : Nat) (e : Int) : 0 ≤ fval false c e := by
  rw [fval_false]; exact mul_nonneg (Nat.cast_nonneg c) (ten_zpow_pos e).le

theorem fval_true_nonpos (c : Nat) (e : Int) : fval true c e ≤ 0 := by
  rw [fval_true_eq_neg]; linarith [fval_false_nonneg c e]

theorem fval_zero (s : Bool) (e : Int) : fval s 0 e = 0 := by simp [fval]

theorem fval_eq_zero_iff (s : Bool) (c : Nat) (e : Int) : fval s c e = 0 ↔ c = 0 := by
  have h10 : (10 : ℚ) ^ e ≠ 0 := (ten_zpow_pos e).ne'
  cases s <;> simp [fval, h10]

theorem fval_false_pos (c : Nat) (e : Int) (hc : c ≠ 0) : 0 < fval false c e :=
  lt_of_le_of_ne (fval_false_nonneg c e) (fun h => hc ((fval_eq_zero_iff false c e).1 h.symm))

theorem fval_true_neg (c : Nat) (e : Int) (hc : c ≠ 0) : fval true c e < 0 := by
  rw [fval_true_eq_neg]; linarith [fval_false_pos c e hc]

/-- members of one cohort have the same value: shifting `k` zeros into the coefficient -/
theorem fval_cohort (s : Bool) (c k : Nat) (e : Int) : fval s (c * 10 ^ k) (e - k) = fval s c e := by
  have hp : (10 : ℚ) ^ e = (10 : ℚ) ^ k * (10 : ℚ) ^ (e - k) := by
    rw [← zpow_natCast, ← zpow_add₀ (by norm_num : (10 : ℚ) ≠ 0)]
    congr 1; omega
  unfold fval
  push_cast
  rw [hp]; ring

/-! ### T-cmp for finite numbers -/

/-- the value as a signed integer times a common power of ten -/
theorem fval_eq_scaled (s : Bool) (c : Nat) (e m : Int) (h : m ≤ e) :
    fval s c e = ((sInt s (c * 10 ^ (e - m).toNat) : Int) : ℚ) * (10 : ℚ) ^ m := by
  have hp : (10 : ℚ) ^ e = (10 : ℚ) ^ (e - m).toNat * (10 : ℚ) ^ m := by
    rw [← zpow_natCast, ← zpow_add₀ (by norm_num : (10 : ℚ) ≠ 0), Int.toNat_of_nonneg (by omega)]
    congr 1; omega
  unfold fval sInt
  cases s <;> simp only [Bool.false_eq_true, if_true, if_false] <;> push_cast <;> rw [hp] <;> ring

theorem cmpFin_scaled (s1 : Bool) (c1 : Nat) (e1 : Int) (s2 : Bool) (c2 : Nat) (e2 : Int) :
    ∃ (a b : Int) (m : Int), cmpFin s1 c1 e1 s2 c2 e2 = compare a b ∧
      fval s1 c1 e1 = (a : ℚ) * (10 : ℚ) ^ m ∧ fval s2 c2 e2 = (b : ℚ) * (10 : ℚ) ^ m := by
  refine ⟨_, _, (if e1 ≤ e2 then e1 else e2), rfl, fval_eq_scaled _ _ _ _ ?_, fval_eq_scaled _ _ _ _ ?_⟩ <;>
    split <;> omega

/-- `cmpFin` says Less exactly when the first value is smaller -/
theorem cmpFin_lt_iff (s1 : Bool) (c1 : Nat) (e1 : Int) (s2 : Bool) (c2 : Nat) (e2 : Int) :
    cmpFin s1 c1 e1 s2 c2 e2 = .lt ↔ fval s1 c1 e1 < fval s2 c2 e2 := by
  obtain ⟨a, b, m, hc, h1, h2⟩ := cmpFin_scaled s1 c1 e1 s2 c2 e2
  rw [hc, h1, h2, Int.compare_eq_lt, mul_lt_mul_iff_of_pos_right (ten_zpow_pos m), Int.cast_lt]

/-- `cmpFin` says Equal exactly when the values are equal -/
theorem cmpFin_eq_iff (s1 : Bool) (c1 : Nat) (e1 : Int) (s2 : Bool) (c2 : Nat) (e2 : Int) :
    cmpFin s1 c1 e1 s2 c2 e2 = .eq ↔ fval s1 c1 e1 = fval s2 c2 e2 := by
  obtain ⟨a, b, m, hc, h1, h2⟩ := cmpFin_scaled s1 c1 e1 s2 c2 e2
  rw [hc, h1, h2, Int.compare_eq_eq, mul_left_inj' (ten_zpow_pos m).ne', Int.cast_inj]

/-- **T-cmp**: `cmpFin` is `compare` on the exact rational values -/
theorem cmpFin_eq_compare (s1 : Bool) (c1 : Nat) (e1 : Int) (s2 : Bool) (c2 : Nat) (e2 : Int) :
    cmpFin s1 c1 e1 s2 c2 e2 = compare (fval s1 c1 e1) (fval s2 c2 e2) :=
  eq_compare_of_iff (cmpFin_lt_iff ..) (cmpFin_eq_iff ..)

/-- `cmpFin` says Greater exactly when the first value is larger -/
theorem cmpFin_gt_iff (s1 : Bool) (c1 : Nat) (e1 : Int) (s2 : Bool) (c2 : Nat) (e2 : Int) :
    cmpFin s1 c1 e1 s2 c2 e2 = .gt ↔ fval s2 c2 e2 < fval s1 c1 e1 := by
  rw [cmpFin_eq_compare, compare_gt_iff_gt]

theorem cmpFin_swap (s1 : Bool) (c1 : Nat) (e1 : Int) (s2 : Bool) (c2 : Nat) (e2 : Int) :
    cmpFin s2 c2 e2 s1 c1 e1 = (cmpFin s1 c1 e1 s2 c2 e2).swap := by
  rw [cmpFin_eq_compare, cmpFin_eq_compare, compare_swap_lin]

/-! ### the extended value of a non-NaN datum -/

/-- Value in the extended rationals: `−∞ ↦ ⊥`, `+∞ ↦ ⊤`, finite `↦` its rational value.
(A NaN has no value; it is mapped to `⊥` and every theorem below carries a non-NaN guard.) -/
def Datum.ext : Datum → WithBot (WithTop ℚ)
  | .fin s c e => ((fval s c e : ℚ) : WithTop ℚ)
  | .inf true => ⊥
  | .inf false => ((⊤ : WithTop ℚ) : WithBot (WithTop ℚ))
  | .nan .. => ⊥

theorem ext_fin_eq_iff (s1 : Bool) (c1 : Nat) (e1 : Int) (s2 : Bool) (c2 : Nat) (e2 : Int) :
    (Datum.fin s1 c1 e1).ext = (Datum.fin s2 c2 e2).ext ↔ fval s1 c1 e1 = fval s2 c2 e2 := by
  simp [Datum.ext]

theorem ext_fin_lt_iff (s1 : Bool) (c1 : Nat) (e1 : Int) (s2 : Bool) (c2 : Nat) (e2 : Int) :
    (Datum.fin s1 c1 e1).ext < (Datum.fin s2 c2 e2).ext ↔ fval s1 c1 e1 < fval s2 c2 e2 := by
  simp [Datum.ext]

theorem ext_fin_le_iff (s1 : Bool) (c1 : Nat) (e1 : Int) (s2 : Bool) (c2 : Nat) (e2 : Int) :
    (Datum.fin s1 c1 e1).ext ≤ (Datum.fin s2 c2 e2).ext ↔ fval s1 c1 e1 ≤ fval s2 c2 e2 := by
  simp [Datum.ext]

theorem cmpD_nan_left (x y : Datum) (h : x.isNaN = true) : cmpD x y = none := by
  cases x <;> simp [Datum.isNaN] at h; cases y <;> rfl

theorem cmpD_nan_right (x y : Datum) (h : y.isNaN = true) : cmpD x y = none := by
  cases y <;> simp [Datum.isNaN] at h; cases x <;> rfl

/-- an ordered answer means neither operand is a NaN -/
theorem not_nan_of_cmpD {x y : Datum} {o : Ordering} (h : cmpD x y = some o) :
    x.isNaN = false ∧ y.isNaN = false := by
  cases x <;> cases y <;> simp [cmpD, Datum.isNaN] at h ⊢

theorem cmpD_lt_iff (x y : Datum) (hx : x.isNaN = false) (hy : y.isNaN = false) :
    cmpD x y = some .lt ↔ x.ext < y.ext := by
  rcases x with ⟨s1, c1, e1⟩ | ⟨_ | _⟩ | _ <;> rcases y with ⟨s2, c2, e2⟩ | ⟨_ | _⟩ | _ <;>
    simp [Datum.isNaN] at hx hy <;>
    simp [cmpD, Datum.ext, cmpFin_lt_iff, WithBot.bot_lt_coe, lt_top_iff_ne_top]

theorem cmpD_eq_iff_ext (x y : Datum) (hx : x.isNaN = false) (hy : y.isNaN = false) :
    cmpD x y = some .eq ↔ x.ext = y.ext := by
  rcases x with ⟨s1, c1, e1⟩ | ⟨_ | _⟩ | _ <;> rcases y with ⟨s2, c2, e2⟩ | ⟨_ | _⟩ | _ <;>
    simp [Datum.isNaN] at hx hy <;>
    simp [cmpD, Datum.ext, cmpFin_eq_iff]

/-- **T-cmp, all non-NaN data**: `cmpD` is `compare` on the extended values -/
theorem cmpD_eq_compare (x y : Datum) (hx : x.isNaN = false) (hy : y.isNaN = false) :
    cmpD x y = some (compare x.ext y.ext) := by
  obtain ⟨o, ho⟩ : ∃ o, cmpD x y = some o := by
    cases x <;> cases y <;> simp [Datum.isNaN] at hx hy <;> simp [cmpD]
  rw [ho]; congr 1
  apply eq_compare_of_iff
  · rw [← cmpD_lt_iff x y hx hy, ho]; simp
  · rw [← cmpD_eq_iff_ext x y hx hy, ho]; simp

theorem cmpD_gt_iff (x y : Datum) (hx : x.isNaN = false) (hy : y.isNaN = false) :
    cmpD x y = some .gt ↔ y.ext < x.ext := by
  rw [cmpD_eq_compare x y hx hy, Option.some_inj, compare_gt_iff_gt]

theorem cmpD_le_iff (x y : Datum) (hx : x.isNaN = false) (hy : y.isNaN = false) :
    (cmpD x y = some .lt ∨ cmpD x y = some .eq) ↔ x.ext ≤ y.ext := by
  rw [cmpD_lt_iff x y hx hy, cmpD_eq_iff_ext x y hx hy, le_iff_lt_or_eq]

/-- non-NaN data are always ordered -/
theorem cmpD_total (x y : Datum) (hx : x.isNaN = false) (hy : y.isNaN = false) :
    cmpD x y = some .lt ∨ cmpD x y = some .eq ∨ cmpD x y = some .gt := by
  rw [cmpD_eq_compare x y hx hy]
  rcases compare x.ext y.ext <;> simp

/-! ### exported order facts -/

/-- exchanging the operands mirrors the answer (unordered stays unordered) -/
theorem cmpD_swap (x y : Datum) : cmpD y x = (cmpD x y).map Ordering.swap := by
  cases hx : x.isNaN
  · cases hy : y.isNaN
    · rw [cmpD_eq_compare x y hx hy, cmpD_eq_compare y x hy hx, compare_swap_lin]; rfl
    · rw [cmpD_nan_left y x hy, cmpD_nan_right x y hy]; rfl
  · rw [cmpD_nan_right y x hx, cmpD_nan_left x y hx]; rfl

theorem cmpD_lt_iff_gt (x y : Datum) : cmpD x y = some .lt ↔ cmpD y x = some .gt := by
  rw [cmpD_swap x y]
  rcases cmpD x y with _ | (_ | _ | _) <;> simp [Ordering.swap]

theorem cmpD_eq_symm (x y : Datum) : cmpD x y = some .eq ↔ cmpD y x = some .eq := by
  rw [cmpD_swap x y]
  rcases cmpD x y with _ | (_ | _ | _) <;> simp [Ordering.swap]

/-- Equal means: both are numbers or infinities, and the extended values coincide -/
theorem cmpD_eq_iff (x y : Datum) :
    cmpD x y = some .eq ↔ x.isNaN = false ∧ y.isNaN = false ∧ x.ext = y.ext := by
  constructor
  · intro h
    obtain ⟨hx, hy⟩ := not_nan_of_cmpD h
    exact ⟨hx, hy, (cmpD_eq_iff_ext x y hx hy).1 h⟩
  · rintro ⟨hx, hy, h⟩
    exact (cmpD_eq_iff_ext x y hx hy).2 h

theorem cmpD_trans_lt {x y z : Datum} (h1 : cmpD x y = some .lt) (h2 : cmpD y z = some .lt) :
    cmpD x z = some .lt := by
  obtain ⟨hx, hy⟩ := not_nan_of_cmpD h1
  obtain ⟨_, hz⟩ := not_nan_of_cmpD h2
  rw [cmpD_lt_iff _ _ ‹_› ‹_›] at *
  exact lt_trans h1 h2

theorem cmpD_trans_lt_eq {x y z : Datum} (h1 : cmpD x y = some .lt) (h2 : cmpD y z = some .eq) :
    cmpD x z = some .lt := by
  obtain ⟨hx, hy⟩ := not_nan_of_cmpD h1
  obtain ⟨_, hz⟩ := not_nan_of_cmpD h2
  rw [cmpD_lt_iff _ _ ‹_› ‹_›] at *
  rw [cmpD_eq_iff_ext _ _ ‹_› ‹_›] at h2
  exact h2 ▸ h1

theorem cmpD_trans_eq_lt {x y z : Datum} (h1 : cmpD x y = some .eq) (h2 : cmpD y z = some .lt) :
    cmpD x z = some .lt := by
  obtain ⟨hx, hy⟩ := not_nan_of_cmpD h1
  obtain ⟨_, hz⟩ := not_nan_of_cmpD h2
  rw [cmpD_lt_iff _ _ ‹_› ‹_›] at *
  rw [cmpD_eq_iff_ext _ _ ‹_› ‹_›] at h1
  exact h1 ▸ h2

theorem cmpD_trans_eq {x y z : Datum} (h1 : cmpD x y = some .eq) (h2 : cmpD y z = some .eq) :
    cmpD x z = some .eq := by
  obtain ⟨hx, hy⟩ := not_nan_of_cmpD h1
  obtain ⟨_, hz⟩ := not_nan_of_cmpD h2
  rw [cmpD_eq_iff_ext _ _ ‹_› ‹_›] at *
  exact h1.trans h2

/-- `≤` chains: Less-or-Equal composed with Less-or-Equal is Less-or-Equal -/
theorem cmpD_trans_le {x y z : Datum} (h1 : cmpD x y = some .lt ∨ cmpD x y = some .eq)
    (h2 : cmpD y z = some .lt ∨ cmpD y z = some .eq) :
    cmpD x z = some .lt ∨ cmpD x z = some .eq := by
  rcases h1 with h1 | h1 <;> rcases h2 with h2 | h2
  · exact Or.inl (cmpD_trans_lt h1 h2)
  · exact Or.inl (cmpD_trans_lt_eq h1 h2)
  · exact Or.inl (cmpD_trans_eq_lt h1 h2)
  · exact Or.inr (cmpD_trans_eq h1 h2)

/-! ### trailing zeros and the normal form of a non-zero value (used for the Hash law) -/

/-- `trailingZeros` only counts zeros that are there -/
theorem trailingZeros_dvd (f n : Nat) : 10 ^ trailingZeros f n ∣ n := by
  induction f generalizing n with
  | zero => simp [trailingZeros]
  | succ f ih =>
    unfold trailingZeros
    split
    · rename_i h
      obtain ⟨k, hk⟩ := ih (n / 10)
      refine ⟨k, ?_⟩
      rw [Nat.pow_add, Nat.pow_one, Nat.mul_assoc, ← hk]
      omega
    · simp

/-- with enough fuel (`n < 10^f`) `trailingZeros` strips all of them -/
theorem trailingZeros_stripped (f n : Nat) (hn : n ≠ 0) (hlt : n < 10 ^ f) :
    (n / 10 ^ trailingZeros f n) % 10 ≠ 0 := by
  induction f generalizing n with
  | zero => simp at hlt; omega
  | succ f ih =>
    unfold trailingZeros
    split
    · rename_i h
      have := ih (n / 10) (by omega) (by rw [Nat.pow_succ] at hlt; omega)
      rwa [Nat.pow_add, Nat.pow_one, ← Nat.div_div_eq_div_mul]
    · rename_i h
      simp only [Nat.pow_zero, Nat.div_one]
      intro h0; exact h ⟨hn, h0⟩

theorem stripped_unique_aux (a b : Nat) (ea eb : Int) (ha : a % 10 ≠ 0)
    (hle : ea ≤ eb) (h : (a : ℚ) * (10 : ℚ) ^ ea = (b : ℚ) * (10 : ℚ) ^ eb) : a = b ∧ ea = eb := by
  have hp : (10 : ℚ) ^ eb = (10 : ℚ) ^ (eb - ea).toNat * (10 : ℚ) ^ ea := by
    rw [← zpow_natCast, ← zpow_add₀ (by norm_num : (10 : ℚ) ≠ 0), Int.toNat_of_nonneg (by omega)]
    congr 1; omega
  rw [hp, ← mul_assoc, mul_left_inj' (ten_zpow_pos ea).ne'] at h
  have h' : a = b * 10 ^ (eb - ea).toNat := by exact_mod_cast h
  rcases hd : (eb - ea).toNat with _ | k
  · rw [hd] at h'; exact ⟨by simpa using h', by omega⟩
  · rw [hd, Nat.pow_succ, ← Nat.mul_assoc] at h'
    exact absurd (by omega) ha

/-- normal form: a value `a·10^ea` whose coefficient is not divisible by ten determines `a` and `ea` -/
theorem stripped_unique (a b : Nat) (ea eb : Int) (ha : a % 10 ≠ 0) (hb : b % 10 ≠ 0)
    (h : (a : ℚ) * (10 : ℚ) ^ ea = (b : ℚ) * (10 : ℚ) ^ eb) : a = b ∧ ea = eb := by
  rcases le_total ea eb with hle | hle
  · exact stripped_unique_aux a b ea eb ha hle h
  · obtain ⟨h1, h2⟩ := stripped_unique_aux b a eb ea hb hle h.symm
    exact ⟨h1.symm, h2.symm⟩

/-- stripping trailing zeros into the exponent keeps the value (any fuel) -/
theorem fval_strip (s : Bool) (c : Nat) (e : Int) (f : Nat) :
    fval s (c / 10 ^ trailingZeros f c) (e + trailingZeros f c) = fval s c e := by
  have hc : c / 10 ^ trailingZeros f c * 10 ^ trailingZeros f c = c :=
    Nat.div_mul_cancel (trailingZeros_dvd f c)
  have := fval_cohort s (c / 10 ^ trailingZeros f c) (trailingZeros f c) (e + trailingZeros f c)
  rw [hc, show e + (trailingZeros f c : Int) - trailingZeros f c = e by omega] at this
  exact this.symm

theorem P34_eq : P34 = 10 ^ 34 := by norm_num [P34]

theorem fval_false_inj (c1 c2 : Nat) (e : Int) : fval false c1 e = fval false c2 e ↔ c1 = c2 := by
  rw [fval_false, fval_false, mul_left_inj' (ten_zpow_pos e).ne', Nat.cast_inj]

example : cmpD (.fin false 10 (-1)) (.fin false 1 0) = some .eq := by decide
example : cmpD (.fin true 3 5) (.fin false 0 (-7)) = some .lt := by decide

end Dec
