/-
  DecProofs.Core.FinishUnique — **T-finish-unique**: the declarative delivery clause determines its outcome.

  Finding.  `FinishSpec` (DecProofs.Core.Finish) is *not* single-valued: in its inexact clause the
  "least possible exponent" is expressed on the *rounded* coefficient (`P33 ≤ m ∨ x = eMin`), and a value
  just below `10^34·10^x` also rounds, one exponent higher, to `P33 = 10^33`, which passes that test
  (`FinishSpec_not_unique` below: `v = 10^34 - 4.7` allows both `…995E0`, the correct result, and `1000…0E1`).

  So this file
  * proves uniqueness for the exact clause and the exclusion overflow / finite for `FinishSpec` as it is
    (`FinishSpec_unique_of_member`, `FinishSpec_overflow_unique`),
  * defines the tight clause `FinishSpecStrict` (inexact: `x` is the least in-range exponent at which the
    rounded coefficient fits in 34 digits), proves that it implies `FinishSpec`, that `finish` satisfies it
    (`finish_spec_strict`), that it is single-valued (`FinishSpecStrict_unique`), and hence the headline
    `finish_eq_iff : finish mode neg n d e pref = out ↔ FinishSpecStrict mode neg (n/d·10^e) pref out`.
-/
import DecProofs.Core.Finish

namespace Dec

/-! ### more on `RoundedTo` -/

/-- rounding to an integer is monotone -/
theorem RoundedTo_mono {mode : Mode} {neg : Bool} {u u' : ℚ} {M M' : Nat} (huu : u ≤ u')
    (h : RoundedTo mode neg u M) (h' : RoundedTo mode neg u' M') : M ≤ M' := by
  rcases eq_or_lt_of_le huu with e | hlt
  · subst e; exact (RoundedTo_unique h h').le
  · have : (M : ℚ) < M' + 1 := by
      cases mode <;> cases neg <;> simp only [RoundedTo, if_true, if_false, Bool.false_eq_true] at h h' <;>
        first
        | (obtain ⟨h1, h2⟩ := h; obtain ⟨h1', h2'⟩ := h'; linarith)
        | (obtain ⟨h1, h2⟩ := h; obtain ⟨h1', h2'⟩ := h'
           have := abs_le.mp h1; have := abs_le.mp h1'; linarith)
    have : M < M' + 1 := by exact_mod_cast this
    omega

theorem P34_cast_ten : ((P34 : Nat) : ℚ) = 10 * ((P33 : Nat) : ℚ) := by
  unfold P34 P33; norm_num

/-- a rounding that carries to `10^34` is, one exponent higher, a rounding to `10^33`: the "carry"
alternative of `FinishSpec` is an instance of the plain one -/
theorem RoundedTo_carry {mode : Mode} {neg : Bool} {U : ℚ} (h : RoundedTo mode neg U P34) :
    RoundedTo mode neg (U / 10) P33 := by
  have e := P34_cast_ten
  have hev : P33 % 2 = 0 := by decide
  cases mode <;> cases neg <;> simp only [RoundedTo, if_true, if_false, Bool.false_eq_true] at h ⊢
  all_goals
    first
    | (obtain ⟨h1, h2⟩ := h; constructor <;> linarith)
    | (obtain ⟨h1, h2⟩ := h
       have hb := abs_le.mp h1
       have hb' : |U / 10 - ((P33 : Nat) : ℚ)| ≤ 1 / 20 := abs_le.mpr ⟨by linarith, by linarith⟩
       refine ⟨by linarith, fun t => ?_⟩
       first | exact hev | (exfalso; linarith))

/-- if the rounding at one exponent does not fit in 34 digits, the rounding at the next exponent has
(at least) 34 digits -/
theorem RoundedTo_div10_ge {mode : Mode} {neg : Bool} {U : ℚ} {M m : Nat} (hM : RoundedTo mode neg U M)
    (hP : P34 ≤ M) (hm : RoundedTo mode neg (U / 10) m) : P33 ≤ m := by
  by_contra hlt
  have h1 : (m : ℚ) + 1 ≤ ((P33 : Nat) : ℚ) := by exact_mod_cast (by omega : m + 1 ≤ P33)
  have h2 : ((P34 : Nat) : ℚ) ≤ (M : ℚ) := by exact_mod_cast hP
  have e := P34_cast_ten
  cases mode <;> cases neg <;> simp only [RoundedTo, if_true, if_false, Bool.false_eq_true] at hM hm <;>
    first
    | (obtain ⟨a1, a2⟩ := hM; obtain ⟨b1, b2⟩ := hm; linarith)
    | (obtain ⟨a1, a2⟩ := hM; obtain ⟨b1, b2⟩ := hm
       have := abs_le.mp a1; have := abs_le.mp b1; linarith)

/-! ### a cohort is an interval of exponents -/

/-- between two members of a cohort every exponent carries a member of the cohort -/
theorem cohort_between {m m' : Nat} {x x' y : Int} (hr : Representable m x) (hr' : Representable m' x')
    (hv : (m : ℚ) * (10 : ℚ) ^ x = m' * (10 : ℚ) ^ x') (h1 : x ≤ y) (h2 : y ≤ x') :
    ∃ m'' : Nat, Representable m'' y ∧ (m'' : ℚ) * (10 : ℚ) ^ y = m * (10 : ℚ) ^ x := by
  have hval : ((m' * 10 ^ (x' - y).toNat : Nat) : ℚ) * (10 : ℚ) ^ y = m * (10 : ℚ) ^ x := by
    rw [hv]
    have e : (10 : ℚ) ^ x' = (10 : ℚ) ^ (x' - y) * (10 : ℚ) ^ y := by
      rw [← zpow_add₀ ten_ne]; congr 1; ring
    rw [e, zpow_toNat (by omega : 0 ≤ x' - y)]; push_cast; ring
  refine ⟨m' * 10 ^ (x' - y).toNat, ⟨?_, by have := hr.2.1; omega, by have := hr'.2.2; omega⟩, hval⟩
  have e := member_int h1 hval
  have e' : m = m' * 10 ^ (x' - y).toNat * 10 ^ (y - x).toNat := by exact_mod_cast e
  have hpos : 0 < 10 ^ (y - x).toNat := Nat.pow_pos (by omega)
  have := Nat.le_mul_of_pos_right (m' * 10 ^ (x' - y).toNat) hpos
  have := hr.1
  omega

private theorem closest_unique_aux {m m' : Nat} {x x' pref : Int} (hlt : x < x')
    (hr : Representable m x) (hr' : Representable m' x')
    (hv : (m : ℚ) * (10 : ℚ) ^ x = m' * (10 : ℚ) ^ x')
    (c : ∀ m'' x'', Representable m'' x'' → (m'' : ℚ) * (10 : ℚ) ^ x'' = m * (10 : ℚ) ^ x →
      |x - pref| ≤ |x'' - pref|)
    (c' : ∀ m'' x'', Representable m'' x'' → (m'' : ℚ) * (10 : ℚ) ^ x'' = m * (10 : ℚ) ^ x →
      |x' - pref| ≤ |x'' - pref|) : False := by
  by_cases hp1 : pref ≤ x
  · have h := c' m x hr rfl
    rw [abs_of_nonneg (by omega), abs_of_nonneg (by omega)] at h
    omega
  by_cases hp2 : x' ≤ pref
  · have h := c m' x' hr' hv.symm
    rw [abs_of_nonpos (by omega), abs_of_nonpos (by omega)] at h
    omega
  obtain ⟨m'', hr'', hv''⟩ := cohort_between hr hr' hv (by omega : x ≤ pref) (by omega : pref ≤ x')
  have h := c m'' pref hr'' hv''
  rw [sub_self, abs_zero, abs_of_nonpos (by omega)] at h
  omega

/-- **The exact clause is single-valued**: two members of the cohort of `v`, each at least as close to the
preferred exponent as every member of the cohort, coincide (a cohort is an interval of exponents, so the
point of it closest to `pref` is unique). -/
theorem closest_member_unique {v : ℚ} {pref : Int} {m m' : Nat} {x x' : Int}
    (hr : Representable m x) (hval : fval false m x = v)
    (hc : ∀ m'' x'', Representable m'' x'' → fval false m'' x'' = v → |x - pref| ≤ |x'' - pref|)
    (hr' : Representable m' x') (hval' : fval false m' x' = v)
    (hc' : ∀ m'' x'', Representable m'' x'' → fval false m'' x'' = v → |x' - pref| ≤ |x'' - pref|) :
    m = m' ∧ x = x' := by
  rw [fval_false] at hval hval'
  have hv : (m : ℚ) * (10 : ℚ) ^ x = m' * (10 : ℚ) ^ x' := by rw [hval, hval']
  have hx : x = x' := by
    rcases lt_trichotomy x x' with h | h | h
    · exfalso
      refine closest_unique_aux h hr hr' hv (fun m'' x'' a b => hc m'' x'' a ?_) (fun m'' x'' a b => hc' m'' x'' a ?_)
      · rw [fval_false, b, hval]
      · rw [fval_false, b, hval]
    · exact h
    · exfalso
      refine closest_unique_aux h hr' hr hv.symm (fun m'' x'' a b => hc' m'' x'' a ?_) (fun m'' x'' a b => hc m'' x'' a ?_)
      · rw [fval_false, b, hval']
      · rw [fval_false, b, hval']
  subst hx
  have hp : (10 : ℚ) ^ x ≠ 0 := (zpow_pos ten_pos _).ne'
  have : (m : ℚ) = m' := mul_right_cancel₀ hp hv
  exact ⟨by exact_mod_cast this, rfl⟩


/-! ### what `FinishSpec` itself determines -/

/-- the inexact clause of `FinishSpec` always gives a plain rounding at the result's exponent (the carry
alternative is subsumed) -/
theorem inexact_clause_rounded {mode : Mode} {neg : Bool} {v : ℚ} {m : Nat} {x : Int}
    (h : RoundedTo mode neg (v / (10 : ℚ) ^ x) m ∨ (m = P33 ∧ RoundedTo mode neg (v / (10 : ℚ) ^ (x - 1)) P34)) :
    RoundedTo mode neg (v / (10 : ℚ) ^ x) m := by
  rcases h with h | ⟨rfl, h⟩
  · exact h
  · have := RoundedTo_carry h
    have e : v / (10 : ℚ) ^ (x - 1) / 10 = v / (10 : ℚ) ^ x := by
      rw [zpow_sub₀ ten_ne, zpow_one]
      have hp : (10 : ℚ) ^ x ≠ 0 := (zpow_pos ten_pos _).ne'
      field_simp
    rwa [e] at this

/-- a finite rounded result and the overflow clause exclude each other -/
theorem rounded_not_overflow {mode : Mode} {neg : Bool} {v : ℚ} (hv : 0 < v) {m M : Nat} {x : Int}
    (hm : m < P34) (hx : x ≤ eMax) (hr : RoundedTo mode neg (v / (10 : ℚ) ^ x) m)
    (hM : RoundedTo mode neg (v / (10 : ℚ) ^ eMax) M) (hP : P34 ≤ M) : False := by
  have hle : v / (10 : ℚ) ^ eMax ≤ v / (10 : ℚ) ^ x :=
    div_le_div_of_nonneg_left hv.le (zpow_pos ten_pos _) (zpow_le_zpow_right₀ one_lt_ten.le hx)
  have := RoundedTo_mono hle hM hr
  omega

/-- **`FinishSpec`, exact case, is single-valued.** -/
theorem FinishSpec_unique_of_member {mode : Mode} {neg : Bool} {v : ℚ} {pref : Int} {out out' : Datum × Flags}
    (hmem : IsMember v) (h : FinishSpec mode neg v pref out) (h' : FinishSpec mode neg v pref out') :
    out = out' := by
  rcases h with ⟨_, m, x, ho, hval, hr, hc⟩ | ⟨hm, _⟩ | ⟨hm, _⟩
  · rcases h' with ⟨_, m', x', ho', hval', hr', hc'⟩ | ⟨hm', _⟩ | ⟨hm', _⟩
    · obtain ⟨rfl, rfl⟩ := closest_member_unique hr hval hc hr' hval' hc'
      rw [ho, ho']
    · exact absurd hmem hm'
    · exact absurd hmem hm'
  · exact absurd hmem hm
  · exact absurd hmem hm

/-- **`FinishSpec`: overflow and a finite result exclude each other** — if one correct delivery of `v > 0`
is the overflow outcome, every correct delivery is. -/
theorem FinishSpec_overflow_unique {mode : Mode} {neg : Bool} {v : ℚ} {pref : Int} {out' : Datum × Flags}
    (hv : 0 < v) (h : FinishSpec mode neg v pref (overflowResult mode neg, fOverflow ||| fInexact))
    (h' : FinishSpec mode neg v pref out') : out' = (overflowResult mode neg, fOverflow ||| fInexact) := by
  have hflag : ∀ b : Prop, [Decidable b] → (fOverflow ||| fInexact : Flags) ≠ (if b then fUnderflow ||| fInexact else fInexact) := by
    intro b _; split <;> decide
  rcases h with ⟨_, m, x, ho, _⟩ | ⟨_, m, x, ho, _⟩ | ⟨hm, _, M, hM, hP⟩
  · exact absurd (Prod.mk.inj ho).2 (by decide)
  · exact absurd (Prod.mk.inj ho).2 (hflag _)
  · rcases h' with ⟨hm', _⟩ | ⟨_, m', x', ho', h1, h2, h3, h4, h5⟩ | ⟨_, ho', _⟩
    · exact absurd hm' hm
    · exact (rounded_not_overflow hv h1 h3 (inexact_clause_rounded h5) hM hP).elim
    · exact ho'

/-- **`FinishSpec` is not single-valued** (inexact clause): for `v = 10^34 - 4.7`, nearest-even, both the
correct result `9999999999999999999999999999999995E0` and `1000000000000000000000000000000000E1` (= `10^34`,
which is `v / 10` rounded to `10^33`, a 34-digit coefficient) satisfy it. -/
theorem FinishSpec_not_unique :
    ∃ (v : ℚ) (out out' : Datum × Flags), 0 < v ∧ FinishSpec .rne false v 0 out ∧ FinishSpec .rne false v 0 out' ∧
      out = finish .rne false (10 ^ 35 - 47) 10 0 0 ∧ out ≠ out' := by
  have hfin : finish .rne false (10 ^ 35 - 47) 10 0 0 = (.fin false (P34 - 5) 0, fInexact) := by decide +kernel
  have hs := finish_spec .rne false (10 ^ 35 - 47) 10 0 0 (by norm_num) (by norm_num)
  obtain ⟨v, hv⟩ : ∃ v : ℚ, v = ((10 ^ 35 - 47 : Nat) : ℚ) / ((10 : Nat) : ℚ) * (10 : ℚ) ^ (0 : ℤ) := ⟨_, rfl⟩
  rw [← hv] at hs
  have hv' : v = 10 ^ 34 - 47 / 10 := by rw [hv]; norm_num
  have hpos : 0 < v := by rw [hv']; norm_num
  have hnm : ¬ IsMember v := by
    rcases hs.flags with ⟨h0, _⟩ | ⟨h, _⟩
    · rw [hfin] at h0; exact absurd h0 (by decide)
    · exact h
  have hbig : ¬ v < (10 : ℚ) ^ (-6143 : ℤ) := by
    have : (10 : ℚ) ^ (-6143 : ℤ) ≤ (10 : ℚ) ^ (0 : ℤ) := zpow_le_zpow_right₀ one_lt_ten.le (by norm_num)
    rw [zpow_zero] at this
    have : (1 : ℚ) ≤ v := by rw [hv']; norm_num
    linarith
  refine ⟨v, _, (.fin false P33 1, fInexact), hpos, hs, ?_, rfl, ?_⟩
  · right; left
    refine ⟨hnm, P33, 1, by rw [if_neg hbig], by decide, by decide, by decide, Or.inl (Nat.le_refl _), Or.inl ?_⟩
    have e : v / (10 : ℚ) ^ (1 : ℤ) - ((P33 : Nat) : ℚ) = -(47 / 100) := by
      rw [hv']; unfold P33; norm_num
    show |v / (10 : ℚ) ^ (1 : ℤ) - ((P33 : Nat) : ℚ)| ≤ 1 / 2 ∧ (|v / (10 : ℚ) ^ (1 : ℤ) - ((P33 : Nat) : ℚ)| = 1 / 2 → P33 % 2 = 0)
    rw [e, abs_neg, abs_of_pos (by norm_num)]
    exact ⟨by norm_num, fun _ => by decide⟩
  · rw [hfin]; decide

/-! ### the tight clause -/

/--
`out` is *the* correctly rounded delivery of the exact value `(-1)^neg · v` (`v > 0` the magnitude) with
preferred exponent `pref`.  As `FinishSpec`, with the inexact clause made tight:

* inexact: `v` is not a member; the result is `m·10^x` with `x` in range, `m < 10^34` the rounding of
  `v / 10^x` to an integer in `mode`, and `x` the **least** in-range exponent for which that rounding fits in
  34 digits (at every exponent `eMin ≤ x' < x` the rounding of `v / 10^x'` is `≥ 10^34`); inexact is raised,
  and underflow iff `v < 10^-6143`.
-/
def FinishSpecStrict (mode : Mode) (neg : Bool) (v : ℚ) (pref : Int) (out : Datum × Flags) : Prop :=
  (IsMember v ∧ ∃ m x, out = (.fin neg m x, 0) ∧ fval false m x = v ∧ Representable m x ∧
      ∀ m' x', Representable m' x' → fval false m' x' = v → |x - pref| ≤ |x' - pref|)
  ∨ (¬ IsMember v ∧ ∃ m x,
      out = (.fin neg m x, if v < (10 : ℚ) ^ (-6143 : ℤ) then fUnderflow ||| fInexact else fInexact) ∧
      m < P34 ∧ eMin ≤ x ∧ x ≤ eMax ∧ RoundedTo mode neg (v / (10 : ℚ) ^ x) m ∧
      ∀ x' M, eMin ≤ x' → x' < x → RoundedTo mode neg (v / (10 : ℚ) ^ x') M → P34 ≤ M)
  ∨ (¬ IsMember v ∧ out = (overflowResult mode neg, fOverflow ||| fInexact) ∧
      ∃ M, RoundedTo mode neg (v / (10 : ℚ) ^ eMax) M ∧ P34 ≤ M)

/-- the tight clause implies the loose one -/
theorem FinishSpecStrict.toFinishSpec {mode : Mode} {neg : Bool} {v : ℚ} {pref : Int} {out : Datum × Flags}
    (hv : 0 < v) (h : FinishSpecStrict mode neg v pref out) : FinishSpec mode neg v pref out := by
  rcases h with h | ⟨hm, m, x, ho, h1, h2, h3, h4, h5⟩ | h
  · exact Or.inl h
  · right; left
    refine ⟨hm, m, x, ho, h1, h2, h3, ?_, Or.inl h4⟩
    by_cases hx : x = eMin
    · exact Or.inr hx
    · left
      have hp : (0 : ℚ) < (10 : ℚ) ^ (x - 1) := zpow_pos ten_pos _
      obtain ⟨M, hM⟩ := RoundedTo_exists mode neg (div_pos hv hp).le
      have hP := h5 (x - 1) M (by omega) (by omega) hM
      have e : v / (10 : ℚ) ^ (x - 1) / 10 = v / (10 : ℚ) ^ x := by
        rw [zpow_sub₀ ten_ne, zpow_one]
        have hp : (10 : ℚ) ^ x ≠ 0 := (zpow_pos ten_pos _).ne'
        field_simp
      rw [← e] at h4
      exact RoundedTo_div10_ge hM hP h4
  · exact Or.inr (Or.inr h)

/-- **T-finish-unique**: the tight delivery clause determines its outcome. -/
theorem FinishSpecStrict_unique {mode : Mode} {neg : Bool} {v : ℚ} {pref : Int} {out out' : Datum × Flags}
    (hv : 0 < v) (h : FinishSpecStrict mode neg v pref out) (h' : FinishSpecStrict mode neg v pref out') :
    out = out' := by
  rcases h with ⟨hm, m, x, ho, hval, hr, hc⟩ | ⟨hm, m, x, ho, h1, h2, h3, h4, h5⟩ | ⟨hm, ho, M, hM, hP⟩
  · rcases h' with ⟨_, m', x', ho', hval', hr', hc'⟩ | ⟨hm', _⟩ | ⟨hm', _⟩
    · obtain ⟨rfl, rfl⟩ := closest_member_unique hr hval hc hr' hval' hc'
      rw [ho, ho']
    · exact absurd hm hm'
    · exact absurd hm hm'
  · rcases h' with ⟨hm', _⟩ | ⟨_, m', x', ho', h1', h2', h3', h4', h5'⟩ | ⟨_, ho', M', hM', hP'⟩
    · exact absurd hm' hm
    · have hx : x = x' := by
        rcases lt_trichotomy x x' with hlt | heq | hgt
        · have := h5' x m h2 hlt h4; omega
        · exact heq
        · have := h5 x' m' h2' hgt h4'; omega
      subst hx
      have := RoundedTo_unique h4 h4'
      subst this
      rw [ho, ho']
    · exact (rounded_not_overflow hv h1 h3 h4 hM' hP').elim
  · rcases h' with ⟨hm', _⟩ | ⟨_, m', x', ho', h1', h2', h3', h4', h5'⟩ | ⟨_, ho', _⟩
    · exact absurd hm' hm
    · exact (rounded_not_overflow hv h1' h3' h4' hM hP).elim
    · rw [ho, ho']


/-! ### `finish` satisfies the tight clause -/

/-- in the main branch of `finish`, a finite inexact result sits at the least exponent whose rounding fits -/
theorem finishAt_least (mode : Mode) (neg : Bool) (num den : Nat) (x0 pref : Int) (tiny : Bool)
    (hden : 0 < den) (hleast : x0 = eMin ∨ (10 : ℚ) ^ (33 : ℤ) ≤ (num : ℚ) / den)
    {m : Nat} {x : Int} {f : Flags}
    (ho : finishAt mode neg num den x0 pref tiny = (.fin neg m x, f)) (hf0 : f ≠ 0)
    (hfo : f ≠ fOverflow ||| fInexact) {x' : Int} {M : Nat} (hx1 : eMin ≤ x') (hx2 : x' < x)
    (hM : RoundedTo mode neg ((num : ℚ) / den * (10 : ℚ) ^ x0 / (10 : ℚ) ^ x') M) : P34 ≤ M := by
  obtain ⟨w, hw⟩ : ∃ w : ℚ, w = (num : ℚ) / den := ⟨_, rfl⟩
  rw [← hw] at hM hleast
  have hw0 : 0 ≤ w := by rw [hw]; positivity
  have hscale : w * (10 : ℚ) ^ x0 / (10 : ℚ) ^ x' = w * (10 : ℚ) ^ (x0 - x') := by
    rw [zpow_sub₀ ten_ne]; ring
  rw [hscale] at hM
  by_cases hrz : num % den = 0
  · by_cases hx : x0 > eMax
    · rw [finishAt_exact_ovf _ _ _ _ _ _ _ hrz hx] at ho
      exact absurd (Prod.mk.inj ho).2.symm hfo
    · rw [finishAt_exact _ _ _ _ _ _ _ hrz (by omega)] at ho
      exact absurd (Prod.mk.inj ho).2.symm hf0
  · have hspec := roundInt_spec mode neg (num / den) (num % den) den (Nat.mod_lt _ hden)
    rw [Nat.div_add_mod'] at hspec
    have hR := RoundedTo_of_RoundedInt hden hspec
    rw [← hw] at hR
    by_cases hcarry : roundInt mode neg (num / den) (num % den) den = P34
    · rw [finishAt_inexact_carry _ _ _ _ _ _ _ hrz hcarry] at ho
      by_cases hx : x0 + 1 > eMax
      · rw [if_pos hx] at ho
        exact absurd (Prod.mk.inj ho).2.symm hfo
      · rw [if_neg hx] at ho
        have hd := (Prod.mk.inj ho).1
        injection hd with _ _ hxx
        rw [hcarry] at hR
        have h1 : (1 : ℚ) ≤ (10 : ℚ) ^ (x0 - x') := by
          have := zpow_le_zpow_right₀ one_lt_ten.le (by omega : (0 : ℤ) ≤ x0 - x')
          rwa [zpow_zero] at this
        have hle : w ≤ w * (10 : ℚ) ^ (x0 - x') := le_mul_of_one_le_right hw0 h1
        exact RoundedTo_mono hle hR hM
    · rw [finishAt_inexact _ _ _ _ _ _ _ hrz hcarry] at ho
      by_cases hx : x0 > eMax
      · rw [if_pos hx] at ho
        exact absurd (Prod.mk.inj ho).2.symm hfo
      · rw [if_neg hx] at ho
        have hd := (Prod.mk.inj ho).1
        injection hd with _ _ hxx
        have h33 : (10 : ℚ) ^ (33 : ℤ) ≤ w := by
          rcases hleast with h | h
          · omega
          · exact h
        have h10 : (10 : ℚ) ^ (1 : ℤ) ≤ (10 : ℚ) ^ (x0 - x') :=
          zpow_le_zpow_right₀ one_lt_ten.le (by omega)
        have hge : ((P34 : Nat) : ℚ) ≤ w * (10 : ℚ) ^ (x0 - x') := by
          rw [P34_cast, show (34 : ℤ) = 33 + 1 by norm_num, zpow_add₀ ten_ne]
          exact mul_le_mul h33 h10 (zpow_pos ten_pos _).le hw0
        exact RoundedTo_ge hge hM

/-- a finite inexact result of `finish` sits at the least in-range exponent whose rounding fits in 34 digits -/
theorem finish_least (mode : Mode) (neg : Bool) (n d : Nat) (e pref : Int) (hn : 0 < n) (hd : 0 < d)
    {m : Nat} {x : Int} {f : Flags}
    (ho : finish mode neg n d e pref = (.fin neg m x, f)) (hf0 : f ≠ 0)
    (hfo : f ≠ fOverflow ||| fInexact) {x' : Int} {M : Nat} (hx1 : eMin ≤ x') (hx2 : x' < x)
    (hM : RoundedTo mode neg ((n : ℚ) / d * (10 : ℚ) ^ e / (10 : ℚ) ^ x') M) : P34 ≤ M := by
  obtain ⟨l1, l2⟩ := lg_spec hn hd e
  rw [finish_eq] at ho
  generalize ilog10Ratio n d + e = lg at l1 l2 ho
  by_cases hhi : lg > 7000
  · rw [if_pos hhi] at ho
    exact absurd (Prod.mk.inj ho).2.symm hfo
  rw [if_neg hhi] at ho
  by_cases hlo : lg < -7000
  · rw [if_pos hlo] at ho
    have hd' := (Prod.mk.inj ho).1
    injection hd' with _ _ hxx
    omega
  rw [if_neg hlo] at ho
  have hx0def : fx0 lg = eMin ∧ lg - 33 < eMin ∨ fx0 lg = lg - 33 ∧ ¬ lg - 33 < eMin := by
    unfold fx0; split <;> simp [*]
  obtain ⟨x0, hx0⟩ : ∃ x0, x0 = fx0 lg := ⟨_, rfl⟩
  rw [← hx0] at hx0def ho
  have hp0 : (0 : ℚ) < (10 : ℚ) ^ x0 := zpow_pos ten_pos _
  have hval := fnum_fden_val n hd (e - x0)
  have hvw : ((fnum n (e - x0) : Nat) : ℚ) / (fden d (e - x0) : Nat) * (10 : ℚ) ^ x0 = (n : ℚ) / d * (10 : ℚ) ^ e := by
    rw [hval, mul_assoc, ← zpow_add₀ ten_ne]; congr 2; ring
  have hw : ((fnum n (e - x0) : Nat) : ℚ) / (fden d (e - x0) : Nat) = (n : ℚ) / d * (10 : ℚ) ^ e / (10 : ℚ) ^ x0 := by
    rw [← hvw]; field_simp
  refine finishAt_least mode neg _ _ x0 pref _ (fden_pos hd _) ?_ ho hf0 hfo hx1 hx2 (by rw [hvw]; exact hM)
  rcases hx0def with ⟨h, _⟩ | ⟨h, _⟩
  · left; exact h
  · right
    rw [hw, le_div_iff₀ hp0, ← zpow_add₀ ten_ne]
    exact le_trans (zpow_le_zpow_right₀ one_lt_ten.le (by omega)) l1

/-- **The tight specification of `finish`**: as `finish_spec`, with the inexact result pinned to the least
exponent whose rounding fits in 34 digits. -/
theorem finish_spec_strict (mode : Mode) (neg : Bool) (n d : Nat) (e pref : Int) (hn : 0 < n) (hd : 0 < d) :
    FinishSpecStrict mode neg ((n : ℚ) / d * (10 : ℚ) ^ e) pref (finish mode neg n d e pref) := by
  rcases finish_spec mode neg n d e pref hn hd with h | ⟨hm, m, x, ho, h1, h2, h3, h4, h5⟩ | h
  · exact Or.inl h
  · right; left
    refine ⟨hm, m, x, ho, h1, h2, h3, inexact_clause_rounded h5, ?_⟩
    intro x' M hx1 hx2 hM
    refine finish_least mode neg n d e pref hn hd ho (flags_ne_zero _).symm ?_ hx1 hx2 hM
    split <;> decide
  · exact Or.inr (Or.inr h)

/-- the exact value handled by `finish` is positive -/
theorem finish_val_pos {n d : Nat} (hn : 0 < n) (hd : 0 < d) (e : Int) : (0 : ℚ) < (n : ℚ) / d * (10 : ℚ) ^ e := by
  have : (0 : ℚ) < n := by exact_mod_cast hn
  have : (0 : ℚ) < d := by exact_mod_cast hd
  have := zpow_pos ten_pos e
  positivity

/-- **"Equal to the model's output" is equivalent to "satisfies the declarative IEEE clause"**: for
`n, d > 0`, an outcome is the result of `finish` iff it is the (tight) correct delivery of `(n/d)·10^e`. -/
theorem finish_eq_iff (mode : Mode) (neg : Bool) (n d : Nat) (e pref : Int) (hn : 0 < n) (hd : 0 < d)
    (out : Datum × Flags) :
    finish mode neg n d e pref = out ↔ FinishSpecStrict mode neg ((n : ℚ) / d * (10 : ℚ) ^ e) pref out := by
  constructor
  · rintro rfl; exact finish_spec_strict mode neg n d e pref hn hd
  · intro h
    exact FinishSpecStrict_unique (finish_val_pos hn hd e) (finish_spec_strict mode neg n d e pref hn hd) h

/-- for members of the format (and for overflowing values) already `FinishSpec` pins the outcome down:
on these, `finish = out ↔ FinishSpec out` -/
theorem finish_eq_iff_of_member (mode : Mode) (neg : Bool) (n d : Nat) (e pref : Int) (hn : 0 < n) (hd : 0 < d)
    (hmem : IsMember ((n : ℚ) / d * (10 : ℚ) ^ e)) (out : Datum × Flags) :
    finish mode neg n d e pref = out ↔ FinishSpec mode neg ((n : ℚ) / d * (10 : ℚ) ^ e) pref out := by
  constructor
  · rintro rfl; exact finish_spec mode neg n d e pref hn hd
  · intro h
    exact FinishSpec_unique_of_member hmem (finish_spec mode neg n d e pref hn hd) h

example : finish .rne false (10 ^ 35 - 47) 10 0 0 = (.fin false (P34 - 5) 0, fInexact) := by decide +kernel

/-- the spurious second outcome allowed by `FinishSpec` is rejected by the tight clause -/
example : ¬ FinishSpecStrict .rne false (((10 ^ 35 - 47 : Nat) : ℚ) / ((10 : Nat) : ℚ) * (10 : ℚ) ^ (0 : ℤ)) 0
    (.fin false P33 1, fInexact) := by
  intro h
  have := (finish_eq_iff .rne false (10 ^ 35 - 47) 10 0 0 (by norm_num) (by norm_num) _).mpr h
  revert this
  decide +kernel

/-- whatever satisfies the tight clause is characterised by it: `r = out ↔ FinishSpecStrict … out` -/
theorem FinishSpecStrict.eq_iff {mode : Mode} {neg : Bool} {v : ℚ} {pref : Int} {r : Datum × Flags}
    (hv : 0 < v) (h : FinishSpecStrict mode neg v pref r) (out : Datum × Flags) :
    r = out ↔ FinishSpecStrict mode neg v pref out :=
  ⟨fun e => e ▸ h, fun h' => FinishSpecStrict_unique hv h h'⟩

end Dec
