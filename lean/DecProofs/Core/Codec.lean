/-
  DecProofs.Core.Codec — the BID codec of the model: `decode` is total and lands in well-formed
  data, `encode` is its right inverse on well-formed data, `canon = encode ∘ decode` is an idempotent
  retraction onto the canonical patterns, and the non-canonical patterns are exactly the four
  families of IEEE 754-2008 §3.5.2.

  Core Lean only (`omega` after turning the powers of two into numerals with `Nat.reducePow`).
-/
import DecModel.Basic

namespace Dec

/-! ### Small helpers -/

theorem ite_lt_self (c P : Nat) (hP : 0 < P) : (if c < P then c else 0) < P := by
  split <;> omega

theorem beq_one_of_eq (x : Nat) (s : Bool) (h : x = if s then 1 else 0) : (x == 1) = s := by
  cases s <;> simp [h]

/-- the sign bit of a decoded pattern, arithmetically -/
theorem signBit_beq (x : Nat) : signBit (x % 2 == 1) = (x % 2) * 2^127 := by
  unfold signBit
  rcases Nat.mod_two_eq_zero_or_one x with h | h <;> simp [h]

theorem signBit_lt (s : Bool) : signBit s = 0 ∨ signBit s = 2^127 := by
  cases s <;> simp [signBit]

theorem sigBit_beq (x : Nat) : (if (x % 2 == 1) = true then 2^121 else 0) = (x % 2) * 2^121 := by
  rcases Nat.mod_two_eq_zero_or_one x with h | h <;> simp [h]

theorem P34_lt : P34 < 2^113 := by decide
theorem P33_lt : P33 < 2^110 := by decide

/-! ### `decode` by cases on the combination field

Bits 126..123 are `g`.  `g = 15`: infinity (bit 122 clear) or NaN (bit 122 set); otherwise
`g / 4 = 3` is the large-coefficient form and anything else the ordinary form. -/

theorem decode_inf (b : Nat) (h : (b / 2^123) % 16 = 15) (h2 : (b / 2^122) % 2 = 0) :
    decode b = .inf ((b / 2^127) % 2 == 1) := by
  unfold decode
  simp [h, h2]

theorem decode_nan (b : Nat) (h : (b / 2^123) % 16 = 15) (h2 : (b / 2^122) % 2 = 1) :
    decode b = .nan ((b / 2^127) % 2 == 1) ((b / 2^121) % 2 == 1)
      (if b % 2^110 < P33 then b % 2^110 else 0) := by
  unfold decode
  simp [h, h2]

theorem decode_large (b : Nat) (h : (b / 2^123) % 16 ≠ 15) (h2 : (b / 2^123) % 16 / 4 = 3) :
    decode b = .fin ((b / 2^127) % 2 == 1) 0 (((b / 2^111) % 2^14 : Nat) - (6176 : Int)) := by
  unfold decode
  simp [h, h2]

theorem decode_small (b : Nat) (h : (b / 2^123) % 16 ≠ 15) (h2 : (b / 2^123) % 16 / 4 ≠ 3) :
    decode b = .fin ((b / 2^127) % 2 == 1) (if b % 2^113 < P34 then b % 2^113 else 0)
      (((b / 2^113) % 2^14 : Nat) - (6176 : Int)) := by
  unfold decode
  simp [h, h2]

/-- The four cases are exhaustive (and, by their hypotheses, exclusive). -/
theorem decode_cases (b : Nat) :
    ((b / 2^123) % 16 = 15 ∧ (b / 2^122) % 2 = 0) ∨
    ((b / 2^123) % 16 = 15 ∧ (b / 2^122) % 2 = 1) ∨
    ((b / 2^123) % 16 ≠ 15 ∧ (b / 2^123) % 16 / 4 = 3) ∨
    ((b / 2^123) % 16 ≠ 15 ∧ (b / 2^123) % 16 / 4 ≠ 3) := by
  omega

/-! ### Totality: every pattern decodes to a well-formed datum -/

/-- Every natural number (every 128-bit pattern, and anything larger too) decodes to a
well-formed datum. -/
theorem decode_WF (b : Nat) : (decode b).WF := by
  unfold decode
  simp only [Nat.reducePow, beq_iff_eq]
  split
  · split
    · trivial
    · exact ite_lt_self _ _ (by decide)
  · split
    · simp only [Datum.WF, P34, eMin, eMax]; omega
    · refine ⟨ite_lt_self _ _ (by decide), ?_⟩
      simp only [eMin, eMax]
      omega

/-! ### `encode` is a right inverse of `decode` on well-formed data -/

theorem decode_encode_fin (neg : Bool) (c : Nat) (e : Int) (h : (Datum.fin neg c e).WF) :
    decode (encode (.fin neg c e)) = .fin neg c e := by
  obtain ⟨hc', h1, h2⟩ := h
  have hc := hc'
  simp only [P34, eMin, eMax] at hc h1 h2
  generalize hE : (e + 6176).toNat = E
  have hE' : e = (E : Int) - 6176 := by omega
  have hEl : E < 12288 := by omega
  generalize hb : encode (.fin neg c e) = b
  have hb' : b = (if neg then 1 else 0) * 2^127 + E * 2^113 + c := by
    rw [← hb, encode, signBit, hE]; cases neg <;> simp
  generalize hs : (if neg then 1 else 0 : Nat) = s at hb'
  have hs2 : s < 2 := by cases neg <;> simp at hs <;> omega
  simp only [Nat.reducePow] at hb'
  rw [decode_small b (by simp only [Nat.reducePow]; omega) (by simp only [Nat.reducePow]; omega)]
  simp only [Nat.reducePow]
  have e1 : b / 170141183460469231731687303715884105728 % 2 = s := by omega
  have e2 : b % 10384593717069655257060992658440192 = c := by omega
  have e3 : b / 10384593717069655257060992658440192 % 16384 = E := by omega
  rw [e1, e2, e3, if_pos hc', beq_one_of_eq s neg hs.symm, hE']

theorem decode_encode_inf (neg : Bool) : decode (encode (.inf neg)) = .inf neg := by
  cases neg <;> decide

theorem decode_encode_nan (neg sig : Bool) (p : Nat) (h : (Datum.nan neg sig p).WF) :
    decode (encode (.nan neg sig p)) = .nan neg sig p := by
  have hp' : p < P33 := h
  have hp := hp'
  simp only [P33] at hp
  generalize hb : encode (.nan neg sig p) = b
  have hb' : b = (if neg then 1 else 0) * 2^127 + 0x7c * 2^120 + (if sig then 1 else 0) * 2^121 + p := by
    rw [← hb, encode, signBit]; cases neg <;> cases sig <;> simp
  generalize hs : (if neg then 1 else 0 : Nat) = s at hb'
  generalize hq : (if sig then 1 else 0 : Nat) = q at hb'
  have hs2 : s < 2 := by cases neg <;> simp at hs <;> omega
  have hq2 : q < 2 := by cases sig <;> simp at hq <;> omega
  simp only [Nat.reducePow] at hb'
  rw [decode_nan b (by simp only [Nat.reducePow]; omega) (by simp only [Nat.reducePow]; omega)]
  simp only [Nat.reducePow]
  have e1 : b / 170141183460469231731687303715884105728 % 2 = s := by omega
  have e2 : b % 1298074214633706907132624082305024 = p := by omega
  have e3 : b / 2658455991569831745807614120560689152 % 2 = q := by omega
  rw [e1, e2, e3, if_pos hp', beq_one_of_eq s neg hs.symm, beq_one_of_eq q sig hq.symm]

/-- Decoding the canonical encoding of a well-formed datum gives the datum back
(finite numbers of both signs, both infinities, quiet and signalling NaNs with any payload). -/
theorem decode_encode {d : Datum} (h : d.WF) : decode (encode d) = d := by
  cases d with
  | fin s c e => exact decode_encode_fin s c e h
  | inf s => exact decode_encode_inf s
  | nan s g p => exact decode_encode_nan s g p h

/-- Canonical encodings of well-formed data fit 128 bits. -/
theorem encode_lt {d : Datum} (h : d.WF) : encode d < 2^128 := by
  cases d with
  | fin s c e =>
    obtain ⟨hc, h1, h2⟩ := h
    simp only [P34, eMin, eMax] at hc h1 h2
    have hE : (e + 6176).toNat < 12288 := by omega
    rw [encode]
    rcases signBit_lt s with hs | hs <;> rw [hs] <;> simp only [Nat.reducePow] <;> omega
  | inf s => cases s <;> decide
  | nan s g p =>
    have hp : p < P33 := h
    simp only [P33] at hp
    rw [encode]
    rcases signBit_lt s with hs | hs <;> rw [hs] <;> cases g <;> simp only [Nat.reducePow] <;>
      simp <;> omega

/-! ### `canon`, `isCanonical` -/

theorem canon_lt (b : Nat) : canon b < 2^128 := encode_lt (decode_WF b)

/-- Re-encoding does not change the datum a pattern denotes. -/
theorem decode_canon (b : Nat) : decode (canon b) = decode b := decode_encode (decode_WF b)

theorem canon_idem (b : Nat) : canon (canon b) = canon b := by
  unfold canon
  rw [decode_encode (decode_WF b)]

theorem canon_encode {d : Datum} (h : d.WF) : canon (encode d) = encode d := by
  unfold canon
  rw [decode_encode h]

/-- Encodings of well-formed data are canonical patterns. -/
theorem isCanonical_encode {d : Datum} (h : d.WF) : isCanonical (encode d) = true := by
  unfold isCanonical
  rw [canon_encode h]
  simp [encode_lt h]

theorem isCanonical_canon (b : Nat) : isCanonical (canon b) = true :=
  isCanonical_encode (decode_WF b)

theorem canonical_iff {b : Nat} (hb : b < 2^128) :
    isCanonical b = true ↔ encode (decode b) = b := by
  unfold isCanonical canon
  simp [hb]

theorem isCanonical_iff (b : Nat) : isCanonical b = true ↔ (b < 2^128 ∧ canon b = b) := by
  unfold isCanonical
  simp

/-- A pattern is canonical iff it is the encoding of some well-formed datum. -/
theorem isCanonical_iff_exists (b : Nat) : isCanonical b = true ↔ ∃ d : Datum, d.WF ∧ encode d = b := by
  constructor
  · intro h
    exact ⟨decode b, decode_WF b, ((isCanonical_iff b).1 h).2⟩
  · rintro ⟨d, hd, rfl⟩
    exact isCanonical_encode hd

/-! ### `canon` in closed form, by case -/

theorem canon_inf (b : Nat) (h : (b / 2^123) % 16 = 15) (h2 : (b / 2^122) % 2 = 0) :
    canon b = (b / 2^127 % 2) * 2^127 + 0x78 * 2^120 := by
  unfold canon
  rw [decode_inf b h h2, encode, signBit_beq]

theorem canon_nan (b : Nat) (h : (b / 2^123) % 16 = 15) (h2 : (b / 2^122) % 2 = 1) :
    canon b = (b / 2^127 % 2) * 2^127 + 0x7c * 2^120 + (b / 2^121 % 2) * 2^121
      + (if b % 2^110 < P33 then b % 2^110 else 0) := by
  unfold canon
  rw [decode_nan b h h2, encode, signBit_beq, sigBit_beq]

theorem canon_large (b : Nat) (h : (b / 2^123) % 16 ≠ 15) (h2 : (b / 2^123) % 16 / 4 = 3) :
    canon b = (b / 2^127 % 2) * 2^127 + ((b / 2^111) % 2^14) * 2^113 := by
  unfold canon
  rw [decode_large b h h2, encode, signBit_beq]
  have : ((((b / 2^111) % 2^14 : Nat) : Int) - 6176 + 6176).toNat = (b / 2^111) % 2^14 := by omega
  rw [this, Nat.add_zero]

theorem canon_small (b : Nat) (h : (b / 2^123) % 16 ≠ 15) (h2 : (b / 2^123) % 16 / 4 ≠ 3) :
    canon b = (b / 2^127 % 2) * 2^127 + ((b / 2^113) % 2^14) * 2^113
      + (if b % 2^113 < P34 then b % 2^113 else 0) := by
  unfold canon
  rw [decode_small b h h2, encode, signBit_beq]
  have : ((((b / 2^113) % 2^14 : Nat) : Int) - 6176 + 6176).toNat = (b / 2^113) % 2^14 := by omega
  rw [this]

/-! ### The non-canonical patterns (IEEE 754-2008 §3.5.2)

(a) finite, large-coefficient form; (b) finite, coefficient field ≥ 10^34; (c) infinity with a
non-zero bit among bits 121..0; (d) NaN with payload field ≥ 10^33 or a reserved bit (120..110) set.
Each is non-canonical, each decodes as the standard says, and there are no others. -/

/-- (a) large-coefficient form: never canonical; it is a zero with the pattern's sign and the
exponent held in bits 124..111 -/
theorem noncanonical_large (b : Nat) (h : (b / 2^123) % 16 ≠ 15) (h2 : (b / 2^123) % 16 / 4 = 3) :
    isCanonical b = false ∧
    decode b = .fin ((b / 2^127) % 2 == 1) 0 (((b / 2^111) % 2^14 : Nat) - (6176 : Int)) := by
  refine ⟨?_, decode_large b h h2⟩
  have hc := canon_large b h h2
  rw [Bool.eq_false_iff]
  intro hcan
  have := ((isCanonical_iff b).1 hcan).2
  rw [this] at hc
  simp only [Nat.reducePow] at hc h h2
  omega

/-- (b) ordinary form with coefficient field ≥ 10^34: never canonical; a zero with the pattern's
sign and exponent -/
theorem noncanonical_bigcoef (b : Nat) (h : (b / 2^123) % 16 ≠ 15) (h2 : (b / 2^123) % 16 / 4 ≠ 3)
    (hc : P34 ≤ b % 2^113) :
    isCanonical b = false ∧
    decode b = .fin ((b / 2^127) % 2 == 1) 0 (((b / 2^113) % 2^14 : Nat) - (6176 : Int)) := by
  have hn : ¬ (b % 2^113 < P34) := by omega
  constructor
  · have hcn := canon_small b h h2
    rw [if_neg hn] at hcn
    rw [Bool.eq_false_iff]
    intro hcan
    have := ((isCanonical_iff b).1 hcan).2
    rw [this] at hcn
    simp only [Nat.reducePow, P34] at hcn h h2 hc
    omega
  · rw [decode_small b h h2, if_neg hn]

/-- (c) infinity with any of bits 121..0 set: not canonical; still the infinity of that sign -/
theorem noncanonical_inf (b : Nat) (h : (b / 2^123) % 16 = 15) (h2 : (b / 2^122) % 2 = 0)
    (hj : b % 2^122 ≠ 0) :
    isCanonical b = false ∧ decode b = .inf ((b / 2^127) % 2 == 1) := by
  refine ⟨?_, decode_inf b h h2⟩
  have hc := canon_inf b h h2
  rw [Bool.eq_false_iff]
  intro hcan
  have := ((isCanonical_iff b).1 hcan).2
  rw [this] at hc
  simp only [Nat.reducePow] at hc h h2 hj
  omega

/-- (d1) NaN with payload field ≥ 10^33: not canonical; a NaN of the same sign and kind with
payload 0 -/
theorem noncanonical_nan_payload (b : Nat) (h : (b / 2^123) % 16 = 15) (h2 : (b / 2^122) % 2 = 1)
    (hp : P33 ≤ b % 2^110) :
    isCanonical b = false ∧
    decode b = .nan ((b / 2^127) % 2 == 1) ((b / 2^121) % 2 == 1) 0 := by
  have hn : ¬ (b % 2^110 < P33) := by omega
  constructor
  · have hcn := canon_nan b h h2
    rw [if_neg hn] at hcn
    rw [Bool.eq_false_iff]
    intro hcan
    have := ((isCanonical_iff b).1 hcan).2
    rw [this] at hcn
    simp only [Nat.reducePow, P33] at hcn h h2 hp
    omega
  · rw [decode_nan b h h2, if_neg hn]

/-- (d2) NaN with a reserved bit (120..110) set: not canonical; the reserved bits are ignored -/
theorem noncanonical_nan_reserved (b : Nat) (h : (b / 2^123) % 16 = 15) (h2 : (b / 2^122) % 2 = 1)
    (hr : (b / 2^110) % 2^11 ≠ 0) :
    isCanonical b = false ∧
    decode b = .nan ((b / 2^127) % 2 == 1) ((b / 2^121) % 2 == 1)
      (if b % 2^110 < P33 then b % 2^110 else 0) := by
  refine ⟨?_, decode_nan b h h2⟩
  have hcn := canon_nan b h h2
  rw [Bool.eq_false_iff]
  intro hcan
  have := ((isCanonical_iff b).1 hcan).2
  rw [this] at hcn
  have hl := ite_lt_self (b % 2^110) P33 (by decide)
  generalize (if b % 2^110 < P33 then b % 2^110 else 0) = p at hcn hl
  simp only [Nat.reducePow, P33] at hcn h h2 hr hl
  omega

/-- The complete characterisation: a 128-bit pattern is canonical iff it is
* an infinity with bits 121..0 all zero, or
* a NaN with payload field < 10^33 and reserved bits 120..110 zero, or
* a finite number in the ordinary form with coefficient field < 10^34.
(The large-coefficient form is never canonical.) -/
theorem isCanonical_characterisation {b : Nat} (hb : b < 2^128) :
    isCanonical b = true ↔
      ((b / 2^123) % 16 = 15 ∧ (b / 2^122) % 2 = 0 ∧ b % 2^122 = 0) ∨
      ((b / 2^123) % 16 = 15 ∧ (b / 2^122) % 2 = 1 ∧ b % 2^110 < P33 ∧ (b / 2^110) % 2^11 = 0) ∨
      ((b / 2^123) % 16 ≠ 15 ∧ (b / 2^123) % 16 / 4 ≠ 3 ∧ b % 2^113 < P34) := by
  rw [isCanonical_iff]
  constructor
  · intro ⟨_, hcan⟩
    have hcan' : isCanonical b = true := (isCanonical_iff b).2 ⟨hb, hcan⟩
    rcases decode_cases b with ⟨h, h2⟩ | ⟨h, h2⟩ | ⟨h, h2⟩ | ⟨h, h2⟩
    · refine Or.inl ⟨h, h2, ?_⟩
      apply Classical.byContradiction; intro hj
      have := (noncanonical_inf b h h2 hj).1
      rw [hcan'] at this; contradiction
    · refine Or.inr (Or.inl ⟨h, h2, ?_, ?_⟩)
      · apply Classical.byContradiction; intro hp
        have := (noncanonical_nan_payload b h h2 (by omega)).1
        rw [hcan'] at this; contradiction
      · apply Classical.byContradiction; intro hr
        have := (noncanonical_nan_reserved b h h2 hr).1
        rw [hcan'] at this; contradiction
    · have := (noncanonical_large b h h2).1
      rw [hcan'] at this; contradiction
    · refine Or.inr (Or.inr ⟨h, h2, ?_⟩)
      apply Classical.byContradiction; intro hc
      have := (noncanonical_bigcoef b h h2 (by omega)).1
      rw [hcan'] at this; contradiction
  · rintro (⟨h, h2, h3⟩ | ⟨h, h2, h3, h4⟩ | ⟨h, h2, h3⟩)
    · refine ⟨hb, ?_⟩
      rw [canon_inf b h h2]
      simp only [Nat.reducePow] at h h2 h3 hb ⊢
      omega
    · refine ⟨hb, ?_⟩
      rw [canon_nan b h h2, if_pos h3]
      simp only [Nat.reducePow] at h h2 h4 hb ⊢
      omega
    · refine ⟨hb, ?_⟩
      rw [canon_small b h h2, if_pos h3]
      simp only [Nat.reducePow] at h h2 hb ⊢
      omega

/-- The same, from the other side: a 128-bit pattern is non-canonical iff it belongs to one of the
four families (a)–(d). -/
theorem not_isCanonical_iff {b : Nat} (hb : b < 2^128) :
    isCanonical b = false ↔
      ((b / 2^123) % 16 ≠ 15 ∧ (b / 2^123) % 16 / 4 = 3) ∨
      ((b / 2^123) % 16 ≠ 15 ∧ (b / 2^123) % 16 / 4 ≠ 3 ∧ P34 ≤ b % 2^113) ∨
      ((b / 2^123) % 16 = 15 ∧ (b / 2^122) % 2 = 0 ∧ b % 2^122 ≠ 0) ∨
      ((b / 2^123) % 16 = 15 ∧ (b / 2^122) % 2 = 1 ∧ (P33 ≤ b % 2^110 ∨ (b / 2^110) % 2^11 ≠ 0)) := by
  rw [← Bool.not_eq_true, isCanonical_characterisation hb]
  omega

end Dec
