/-
  C08GenRoundIntegral — the round-to-integral routines of bid128_round_integral.rs (and bid128_nearbyint.rs), as translated in
  `DecGen/Code.lean`, compute the spec-level `Dec.toIntegralD` of the decoded operand, for ALL 2^128 patterns (non-canonical
  encodings included), all rounding modes and every incoming status word, and never panic.

  Main theorems (`bitsOf x` the 128-bit pattern, `d = decode (bitsOf x)`, `riD mode d` = quieted NaN / `toIntegralD mode d`,
  `riFlags f d` = `f` with `invalid` or-ed in iff `d` is a signalling NaN, `riFlagsX` = the same plus `inexact` iff the value
  changed):
    `round_integral_zero_spec`           bid128_round_integral_zero x f          = .ok (ofBits (encode (riD .rtz d)), riFlags f d)
    `round_integral_negative_spec`       bid128_round_integral_negative x f      = … .rdn …          (C08GenRiDirected)
    `round_integral_positive_spec`       bid128_round_integral_positive x f      = … .rup …
    `round_integral_nearest_even_spec`   bid128_round_integral_nearest_even x f  = … .rne …          (C08GenRiNearest)
    `round_integral_nearest_away_spec`   bid128_round_integral_nearest_away x f  = … .rna …
    `round_integral_exact_spec`          bid128_round_integral_exact x m f = .ok (ofBits (encode (riD (modeOf m) d)), riFlagsX f (modeOf m) d)
                                                                                                      (C08GenRiExact)
    `nearbyint_spec`                     bid128_nearbyint x m f = .ok (ofBits (encode (riD (modeOf m) d)), riFlags f d)   (C08GenRiNearby)
  and here the same in the judge's vocabulary (`…_table`: the single result and exactly the flags `expectCore` allows).

  On the way (C08GenRiBase): `frontEnd_cases` (NaN / infinity / zero / non-canonical operands, common to all seven routines),
  `countQ_spec` (the digit-count block incl. the `f64` exponent trick `f64_trick` returns `ndigits C` for 0 < C < 2^113),
  `recip_core` / `Recip` (error analysis of the reciprocal multiplication: quotient exact, discarded part `f* = q·δ + r·K`),
  the three word-position forms of quotient and `f*` (`Recip.qA/qB/qC`, `fA/fB/fC`), the inexactness test `f* ≥ K ⟺ r ≠ 0`
  (`Recip.geA/geB/geC`), the midpoint test `f* < K ⟺ r = 0` (`ltA/ltB/ltC`), the midpoint addition (`addMid_spec`) and the
  exactness test of the nearest modes `½ < f* < ½ + K ⟺ r = midpoint` (`Recip.nearA/nearB/nearC`).

  How the translated code is handled: for every routine an `…_unfold` theorem (one `simp`) rewrites the translated `do` block
  into `frontEnd x f (…Fin x f)`, where the blocks of the routine are *copies of the translated text* turned into
  definitions with the mutable state as parameters (`withQ`, `floorMain`, `evenTail`, …); if the translation changes, these
  equalities fail.  Nothing was found that deviates from the specification.
-/
import DecProofs.Properties.C08GenRiBase
import DecProofs.Properties.C08GenRiDirected
import DecProofs.Properties.C08GenRiNearest
import DecProofs.Properties.C08GenRiExact
import DecProofs.Properties.C08GenRiNearby

set_option linter.unusedSimpArgs false

namespace Dec.C08GenRoundIntegral
open Dec.Rs Dec.Gen.Code Dec.C03GenCompare

/-! ## In the judge's vocabulary -/

/-- the expectation of `DecModel.Ops` for the round-to-integral operations that do not signal inexact -/
theorem un_ri (mode : Mode) (b : Nat) :
    un b (fun a => exactly [.d (encode (toIntegralD mode a).1)] 0)
      = .oneOf [[.d (encode (riD mode (decode b)))]] (if (decode b).isSNaN then fInvalid else 0) := by
  unfold un nanRule riD exactly
  cases h : decode b with
  | fin s c e => rfl
  | inf s => rfl
  | nan n s p => cases s <;> rfl

/-- … and for `round_to_integral_exact` -/
theorem un_rix (mode : Mode) (b : Nat) :
    un b (fun a => let r := toIntegralD mode a; exactly [.d (encode r.1)] (if r.2 then fInexact else 0))
      = .oneOf [[.d (encode (riD mode (decode b)))]]
          (if (decode b).isSNaN then fInvalid else if (toIntegralD mode (decode b)).2 then fInexact else 0) := by
  unfold un nanRule riD exactly
  cases h : decode b with
  | fin s c e => rfl
  | inf s => rfl
  | nan n s p => cases s <;> rfl

theorem riFlags_eq (f : UInt32) (d : Datum) : riFlags f d = f ||| UInt32.ofNat (if d.isSNaN then fInvalid else 0) := by
  unfold riFlags
  split
  · rfl
  · exact (UInt32.or_zero).symm

theorem riFlagsX_eq (f : UInt32) (mode : Mode) (d : Datum) :
    riFlagsX f mode d = f ||| UInt32.ofNat (if d.isSNaN then fInvalid else if (toIntegralD mode d).2 then fInexact else 0) := by
  unfold riFlagsX
  split
  · rfl
  · split
    · rfl
    · exact (UInt32.or_zero).symm

theorem expect_rtz (m : Mode) (b : Nat) : expectCore "round_to_integral_ties_toward_zero" m [.d b] =
    un b (fun a => exactly [.d (encode (toIntegralD .rtz a).1)] 0) := rfl

/-- the judge's expectation for `round_to_integral_ties_toward_zero` is met by `bid128_round_integral_zero`: the single allowed result and exactly
the allowed newly raised flags -/
theorem round_integral_zero_table (x : U128) (f : UInt32) (m : Mode) :
    ∃ b r, expectCore "round_to_integral_ties_toward_zero" m [.d (bitsOf x)] = .oneOf [[.d b]] r ∧
      bid128_round_integral_zero x f = .ok (ofBits b, f ||| UInt32.ofNat r) :=
  ⟨encode (riD .rtz (decode (bitsOf x))), (if (decode (bitsOf x)).isSNaN then fInvalid else 0),
    (expect_rtz m _).trans (un_ri .rtz _), by rw [round_integral_zero_spec, riFlags_eq]⟩

theorem expect_rdn (m : Mode) (b : Nat) : expectCore "round_to_integral_ties_toward_negative" m [.d b] =
    un b (fun a => exactly [.d (encode (toIntegralD .rdn a).1)] 0) := rfl

/-- the judge's expectation for `round_to_integral_ties_toward_negative` is met by `bid128_round_integral_negative`: the single allowed result and exactly
the allowed newly raised flags -/
theorem round_integral_negative_table (x : U128) (f : UInt32) (m : Mode) :
    ∃ b r, expectCore "round_to_integral_ties_toward_negative" m [.d (bitsOf x)] = .oneOf [[.d b]] r ∧
      bid128_round_integral_negative x f = .ok (ofBits b, f ||| UInt32.ofNat r) :=
  ⟨encode (riD .rdn (decode (bitsOf x))), (if (decode (bitsOf x)).isSNaN then fInvalid else 0),
    (expect_rdn m _).trans (un_ri .rdn _), by rw [round_integral_negative_spec, riFlags_eq]⟩

theorem expect_rup (m : Mode) (b : Nat) : expectCore "round_to_integral_ties_toward_positive" m [.d b] =
    un b (fun a => exactly [.d (encode (toIntegralD .rup a).1)] 0) := rfl

/-- the judge's expectation for `round_to_integral_ties_toward_positive` is met by `bid128_round_integral_positive`: the single allowed result and exactly
the allowed newly raised flags -/
theorem round_integral_positive_table (x : U128) (f : UInt32) (m : Mode) :
    ∃ b r, expectCore "round_to_integral_ties_toward_positive" m [.d (bitsOf x)] = .oneOf [[.d b]] r ∧
      bid128_round_integral_positive x f = .ok (ofBits b, f ||| UInt32.ofNat r) :=
  ⟨encode (riD .rup (decode (bitsOf x))), (if (decode (bitsOf x)).isSNaN then fInvalid else 0),
    (expect_rup m _).trans (un_ri .rup _), by rw [round_integral_positive_spec, riFlags_eq]⟩

theorem expect_rne (m : Mode) (b : Nat) : expectCore "round_to_integral_ties_to_even" m [.d b] =
    un b (fun a => exactly [.d (encode (toIntegralD .rne a).1)] 0) := rfl

/-- the judge's expectation for `round_to_integral_ties_to_even` is met by `bid128_round_integral_nearest_even`: the single allowed result and exactly
the allowed newly raised flags -/
theorem round_integral_nearest_even_table (x : U128) (f : UInt32) (m : Mode) :
    ∃ b r, expectCore "round_to_integral_ties_to_even" m [.d (bitsOf x)] = .oneOf [[.d b]] r ∧
      bid128_round_integral_nearest_even x f = .ok (ofBits b, f ||| UInt32.ofNat r) :=
  ⟨encode (riD .rne (decode (bitsOf x))), (if (decode (bitsOf x)).isSNaN then fInvalid else 0),
    (expect_rne m _).trans (un_ri .rne _), by rw [round_integral_nearest_even_spec, riFlags_eq]⟩

theorem expect_rna (m : Mode) (b : Nat) : expectCore "round_to_integral_ties_to_away" m [.d b] =
    un b (fun a => exactly [.d (encode (toIntegralD .rna a).1)] 0) := rfl

/-- the judge's expectation for `round_to_integral_ties_to_away` is met by `bid128_round_integral_nearest_away`: the single allowed result and exactly
the allowed newly raised flags -/
theorem round_integral_nearest_away_table (x : U128) (f : UInt32) (m : Mode) :
    ∃ b r, expectCore "round_to_integral_ties_to_away" m [.d (bitsOf x)] = .oneOf [[.d b]] r ∧
      bid128_round_integral_nearest_away x f = .ok (ofBits b, f ||| UInt32.ofNat r) :=
  ⟨encode (riD .rna (decode (bitsOf x))), (if (decode (bitsOf x)).isSNaN then fInvalid else 0),
    (expect_rna m _).trans (un_ri .rna _), by rw [round_integral_nearest_away_spec, riFlags_eq]⟩

theorem expect_exact (m : Mode) (b : Nat) : expectCore "round_to_integral_exact" m [.d b] =
    un b (fun a => let r := toIntegralD m a; exactly [.d (encode r.1)] (if r.2 then fInexact else 0)) := rfl

theorem round_integral_exact_table (x : U128) (m : RoundingMode) (f : UInt32) :
    ∃ b r, expectCore "round_to_integral_exact" (modeOf m) [.d (bitsOf x)] = .oneOf [[.d b]] r ∧
      bid128_round_integral_exact x m f = .ok (ofBits b, f ||| UInt32.ofNat r) :=
  ⟨encode (riD (modeOf m) (decode (bitsOf x))),
    (if (decode (bitsOf x)).isSNaN then fInvalid else if (toIntegralD (modeOf m) (decode (bitsOf x))).2 then fInexact else 0),
    (expect_exact _ _).trans (un_rix (modeOf m) _), by rw [round_integral_exact_spec, riFlagsX_eq]⟩

theorem expect_nearbyint (m : Mode) (b : Nat) : expectCore "nearbyint" m [.d b] =
    un b (fun a => exactly [.d (encode (toIntegralD m a).1)] 0) := rfl

theorem nearbyint_table (x : U128) (m : RoundingMode) (f : UInt32) :
    ∃ b r, expectCore "nearbyint" (modeOf m) [.d (bitsOf x)] = .oneOf [[.d b]] r ∧
      bid128_nearbyint x m f = .ok (ofBits b, f ||| UInt32.ofNat r) :=
  ⟨encode (riD (modeOf m) (decode (bitsOf x))), (if (decode (bitsOf x)).isSNaN then fInvalid else 0),
    (expect_nearbyint _ _).trans (un_ri (modeOf m) _), by rw [nearbyint_spec, riFlags_eq]⟩

/-- the mode numbering of the library is the model's -/
theorem modeOf_toNat (m : RoundingMode) : (modeOf m).toNat = m.toNat := by cases m <;> rfl


-- the judge's expectation instantiated: −123.456 toward zero
example : ∃ b r, expectCore "round_to_integral_ties_toward_zero" .rne [.d (bitsOf ⟨123456, 0xb03a000000000000⟩)] = .oneOf [[.d b]] r ∧
    bid128_round_integral_zero ⟨123456, 0xb03a000000000000⟩ 0 = .ok (ofBits b, 0 ||| UInt32.ofNat r) :=
  round_integral_zero_table _ _ _

end Dec.C08GenRoundIntegral
