/-
  C08GenRoundIntegral — the round-to-integral routines of bid128_round_integral.rs, as translated in `DecGen/Code.lean`
  (`Dec.Gen.Code.bid128_round_integral_*`), compute the spec-level `Dec.toIntegralD` of the decoded operand
  (NaN operands: the quieted canonical NaN, `invalid` for a signalling one), for ALL 128-bit patterns and every incoming
  status word, without ever panicking.
-/
import DecGen.Code
import DecModel.Misc
import DecModel.Ops
import DecProofs.Core.Codec
import DecProofs.Core.Digits
import DecProofs.TableFacts.Mechanisms
import DecProofs.TableFacts.NrDigits
import DecProofs.Properties.C03GenCompare
import DecProofs.Properties.C06GenFromInt
import DecProofs.Properties.C08
import Mathlib.Tactic.SplitIfs
import Mathlib.Tactic.Ring
import Mathlib.Tactic.Linarith

set_option linter.unusedSimpArgs false
set_option linter.unusedVariables false

namespace Dec.C08GenRoundIntegral
open Dec.Rs Dec.Gen.Code Dec.C03GenCompare

/-- the `U128` holding a 128-bit pattern -/
abbrev ofBits (b : Nat) : U128 := Dec.C06GenFromInt.ofBits b

theorem eq_ofBits {r : U128} {n : Nat} (h : bitsOf r = n) : r = ofBits n :=
  Dec.C06GenFromInt.eq_ofBits h

/-! ## 0. The specification -/

/-- the result datum of a round-to-integral operation in direction `mode`: a NaN operand gives the quieted NaN with the
same sign and payload (`nanRule` of `DecModel.Ops`), every other operand `toIntegralD` -/
def riD (mode : Mode) (d : Datum) : Datum := if d.isNaN then quietNaN d else (toIntegralD mode d).1

/-- the status word after a round-to-integral operation that does not signal inexact: `invalid` (0x01) is or-ed in iff
the operand is a signalling NaN -/
def riFlags (f : UInt32) (d : Datum) : UInt32 := if d.isSNaN then f ||| 1 else f

/-! ## 1. The structure of the routines -/

/-- the result for an infinity or a NaN (all seven routines) -/
def specialRes (x : U128) (f : UInt32) : Except String (U128 × UInt32) :=
  if (x.w1 &&& c_MASK_NAN == c_MASK_NAN) = true then
    if (decide (x.w1 &&& 0x3fffffffffff > 0x314dc6448d93) ||
        x.w1 &&& 0x3fffffffffff == 0x314dc6448d93 && decide (x.w0 > 0x38c15b09ffffffff)) = true then
      if (x.w1 &&& 0xffffc00000000000 &&& c_MASK_SNAN == c_MASK_SNAN) = true then
        .ok (⟨0, x.w1 &&& 0xffffc00000000000 &&& 0xfc003fffffffffff⟩, f ||| c_StatusFlags_BID_INVALID_EXCEPTION)
      else .ok (⟨0, x.w1 &&& 0xffffc00000000000 &&& 0xfc003fffffffffff⟩, f)
    else if (x.w1 &&& c_MASK_SNAN == c_MASK_SNAN) = true then
      .ok (⟨x.w0, x.w1 &&& 0xfc003fffffffffff⟩, f ||| c_StatusFlags_BID_INVALID_EXCEPTION)
    else .ok (⟨x.w0, x.w1 &&& 0xfc003fffffffffff⟩, f)
  else if (x.w1 &&& c_MASK_SIGN == 0) = true then .ok (⟨0, 0x7800000000000000⟩, f)
  else .ok (⟨0, 0xf800000000000000⟩, f)

/-- the result for a zero whose exponent word is `e` -/
def zeroRes (x : U128) (e : UInt64) : U128 :=
  ⟨0, if decide (e ≤ (6176 : UInt64) <<< 49) = true then x.w1 &&& 0x8000000000000000 ||| 0x3040000000000000
      else x.w1 &&& c_MASK_SIGN ||| e⟩

/-- the part common to all seven routines: special operands and zeros are answered, finite non-zero canonical operands are
handed on as sign word, exponent word and coefficient -/
def frontEnd (x : U128) (f : UInt32) (k : UInt64 → UInt64 → U128 → Except String (U128 × UInt32)) :
    Except String (U128 × UInt32) :=
  if (x.w1 &&& c_MASK_SPECIAL == c_MASK_SPECIAL) = true then specialRes x f
  else if (x.w1 &&& 0x6000000000000000 == 0x6000000000000000) = true then .ok (zeroRes x (x.w1 <<< 2 &&& c_MASK_EXP), f)
  else if (decide (x.w1 &&& c_MASK_COEFF > 0x1ed09bead87c0) ||
      x.w1 &&& c_MASK_COEFF == 0x1ed09bead87c0 && decide (x.w0 > 0x378d8e63ffffffff)) = true then
    .ok (zeroRes x (x.w1 &&& c_MASK_EXP), f)
  else if (x.w1 &&& c_MASK_COEFF == 0 && x.w0 == 0) = true then .ok (zeroRes x (x.w1 &&& c_MASK_EXP), f)
  else k (x.w1 &&& c_MASK_SIGN) (x.w1 &&& c_MASK_EXP) ⟨x.w0, x.w1 &&& c_MASK_COEFF⟩

/-- the bit length of the coefficient as the code obtains it (exponent field of a conversion to `f64`) -/
def nrBits (C : U128) : UInt64 :=
  if (C.w1 == 0) = true then
    if decide (C.w0 ≥ 0x20000000000000) = true then
      UInt64.ofInt (toI ((33 : UInt32) + ((UInt32.ofInt (toI ((F64U.ofU64 (UInt64.ofInt (toI (C.w0 >>> 32)))).bits >>> 52)) &&& 2047) - 1023)))
    else UInt64.ofInt (toI ((1 : UInt32) + ((UInt32.ofInt (toI ((F64U.ofU64 (UInt64.ofInt (toI C.w0))).bits >>> 52)) &&& 2047) - 1023)))
  else UInt64.ofInt (toI ((65 : UInt32) + ((UInt32.ofInt (toI ((F64U.ofU64 (UInt64.ofInt (toI C.w1))).bits >>> 52)) &&& 2047) - 1023)))

/-- the digit count block -/
def countQ (C : U128) : Except String Int32 :=
  (tblDD Dec.Gen.BID_NR_DIGITS (nrBits C - 1)).bind fun v =>
    if (Int32.ofInt (toI v.digits) == 0) = true then
      if (decide (C.w1 > v.threshold_hi) || (C.w1 == v.threshold_hi && decide (C.w0 ≥ v.threshold_lo))) = true then
        .ok (Int32.ofInt (toI v.digits1) + 1)
      else .ok (Int32.ofInt (toI v.digits1))
    else .ok (Int32.ofInt (toI v.digits))

/-- the exponent as the code computes it from the exponent word -/
def expOf (e : UInt64) : Int32 := Int32.ofInt (toI (e >>> 49 - 6176))

/-- digit removal of `bid128_round_integral_zero` -/
def truncMain (C : U128) (s : UInt64) (exp : Int32) (f : UInt32) : Except String (U128 × UInt32) :=
  (tbl128 Dec.Gen.BID_TEN2MK128 (UInt64.ofInt (toI (-exp - 1)))).bind fun t =>
  (mul_128x128_to_256 C t).bind fun v =>
    if decide (-exp - 1 ≤ 2) = true then .ok (⟨v.w2, v.w3 ||| (s ||| 0x3040000000000000)⟩, f)
    else if decide (-exp - 1 ≤ 21) = true then
      (tblI32 Dec.Gen.BID_SHIFTRIGHT128 (UInt64.ofInt (toI (-exp - 1)))).bind fun sh =>
        .ok (⟨v.w3 <<< UInt64.ofInt (toI (64 - sh)) ||| v.w2 >>> UInt64.ofInt (toI sh),
              v.w3 >>> UInt64.ofInt (toI sh) ||| (s ||| 0x3040000000000000)⟩, f)
    else
      (tblI32 Dec.Gen.BID_SHIFTRIGHT128 (UInt64.ofInt (toI (-exp - 1)))).bind fun sh =>
        .ok (⟨v.w3 >>> UInt64.ofInt (toI (sh - 64)), 0 ||| (s ||| 0x3040000000000000)⟩, f)

def rizFin (x : U128) (f : UInt32) (s e : UInt64) (C : U128) : Except String (U128 × UInt32) :=
  if decide (e ≤ 0x2ffc000000000000) = true then .ok (⟨0, s ||| 0x3040000000000000⟩, f)
  else
    (countQ C).bind fun q =>
      if decide (expOf e ≥ 0) = true then .ok (⟨x.w0, x.w1⟩, f)
      else if decide (q + expOf e > 0) = true then truncMain C s (expOf e) f
      else .ok (⟨0, s ||| 0x3040000000000000⟩, f)

/-- the three ways through the digit count proper, after the bit length has been fixed -/
syntax "ri_digits " term:max term:max : tactic
macro_rules
  | `(tactic| ri_digits $c1 $c0) => `(tactic|
    (generalize hT : tblDD Dec.Gen.BID_NR_DIGITS _ = T
     cases T with
     | error e => rfl
     | ok v =>
       simp only []
       by_cases h8 : (Int32.ofInt (toI v.digits) == 0) = true
       · by_cases h9 : decide ($c1 > v.threshold_hi) = true
         · simp only [h8, h9, if_true, Bool.true_or]
           rfl
         · by_cases h10 : ($c1 == v.threshold_hi) = true
           · by_cases h11 : decide ($c0 ≥ v.threshold_lo) = true
             · simp only [h8, h9, h10, h11, if_true, if_false, Bool.false_eq_true, Bool.false_or, Bool.true_and, Bool.and_true]
               rfl
             · simp only [h8, h9, h10, h11, if_true, if_false, Bool.false_eq_true, Bool.false_or, Bool.true_and, Bool.and_false]
               rfl
           · simp only [h8, h9, h10, if_true, if_false, Bool.false_eq_true, Bool.false_or, Bool.false_and]
             rfl
       · simp only [h8, if_false, Bool.false_eq_true]
         rfl))

theorem riz_unfold (x : U128) (f : UInt32) :
    bid128_round_integral_zero x f = frontEnd x f (rizFin x f) := by
  unfold frontEnd
  by_cases h1 : (x.w1 &&& c_MASK_SPECIAL == c_MASK_SPECIAL) = true
  · simp only [bid128_round_integral_zero, bind, Except.bind, pure, Except.pure, h1, if_true, specialRes]
  · by_cases h2 : (x.w1 &&& 0x6000000000000000 == 0x6000000000000000) = true
    · simp only [bid128_round_integral_zero, bind, Except.bind, pure, Except.pure, h1, h2, if_true, if_false, zeroRes, beq_self_eq_true, Bool.and_self, Bool.false_eq_true]
    · by_cases h3 : (decide (x.w1 &&& c_MASK_COEFF > 0x1ed09bead87c0) ||
        x.w1 &&& c_MASK_COEFF == 0x1ed09bead87c0 && decide (x.w0 > 0x378d8e63ffffffff)) = true
      · simp only [bid128_round_integral_zero, bind, Except.bind, pure, Except.pure, h1, h2, h3, if_true, if_false, zeroRes, beq_self_eq_true, Bool.and_self, Bool.false_eq_true]
      · by_cases h4 : (x.w1 &&& c_MASK_COEFF == 0 && x.w0 == 0) = true
        · simp only [bid128_round_integral_zero, bind, Except.bind, pure, Except.pure, h1, h2, h3, h4, if_true, if_false, zeroRes, beq_self_eq_true, Bool.and_self, Bool.false_eq_true]
        · simp only [bid128_round_integral_zero, bind, Except.bind, pure, Except.pure, h1, h2, h3, h4, if_true, if_false, zeroRes, beq_self_eq_true, Bool.and_self, Bool.false_eq_true]
          simp only [rizFin, countQ, nrBits, expOf, truncMain, Except.bind]
          by_cases h5 : decide (x.w1 &&& c_MASK_EXP ≤ 3457638613913698304) = true
          · simp only [h5, if_true]
          · simp only [h5, if_false, Bool.false_eq_true]
            by_cases h6 : (x.w1 &&& c_MASK_COEFF == 0) = true
            · by_cases h7 : decide (x.w0 ≥ 9007199254740992) = true
              · simp only [h6, h7, if_true]
                ri_digits (x.w1 &&& c_MASK_COEFF) (x.w0)
              · simp only [h6, h7, if_true, if_false, Bool.false_eq_true]
                ri_digits (x.w1 &&& c_MASK_COEFF) (x.w0)
            · simp only [h6, if_false, Bool.false_eq_true]
              ri_digits (x.w1 &&& c_MASK_COEFF) (x.w0)


/-! ### the bit-field tests of the front end -/

theorem special_test (w : UInt64) : (w &&& c_MASK_SPECIAL == c_MASK_SPECIAL) = decide (w.toNat / 2^59 % 16 = 15) := inf_test w
theorem nan_test' (w : UInt64) : (w &&& c_MASK_NAN == c_MASK_NAN) = decide (w.toNat / 2^58 % 32 = 31) := nan_test w
theorem snan_test' (w : UInt64) : (w &&& c_MASK_SNAN == c_MASK_SNAN) = decide (w.toNat / 2^57 % 64 = 63) := snan_test w

theorem sign_zero_test (w : UInt64) : (w &&& c_MASK_SIGN == 0) = decide (w.toNat / 2^63 % 2 = 0) := by
  rw [Bool.eq_iff_iff, beq_iff_eq, decide_eq_true_eq, ← UInt64.toNat_inj,
    toNat_and_field w c_MASK_SIGN 1 63 (by decide), UInt64.toNat_zero]
  omega

theorem payload_test (x : U128) :
    (decide (x.w1 &&& 0x3fffffffffff > 0x314dc6448d93) ||
        x.w1 &&& 0x3fffffffffff == 0x314dc6448d93 && decide (x.w0 > 0x38c15b09ffffffff))
      = decide (P33 ≤ x.w1.toNat % 2^46 * 2^64 + x.w0.toNat) := by
  rw [gt128, Dec.C06GenFromInt.and_low _ _ 46 (by rfl), decide_eq_decide]
  rw [show (0x314dc6448d93 : UInt64).toNat = 0x314dc6448d93 from rfl,
    show (0x38c15b09ffffffff : UInt64).toNat = 0x38c15b09ffffffff from rfl]
  unfold P33
  omega

theorem bigcoeff_test (x : U128) :
    (decide (x.w1 &&& c_MASK_COEFF > 0x1ed09bead87c0) ||
      x.w1 &&& c_MASK_COEFF == 0x1ed09bead87c0 && decide (x.w0 > 0x378d8e63ffffffff))
      = decide (P34 ≤ sigW x.w1.toNat x.w0.toNat) := by
  rw [gt128, show c_MASK_COEFF = 0x1ffffffffffff from rfl, coeff_hi, decide_eq_decide]
  rw [show (0x1ed09bead87c0 : UInt64).toNat = 0x1ed09bead87c0 from rfl,
    show (0x378d8e63ffffffff : UInt64).toNat = 0x378d8e63ffffffff from rfl]
  unfold P34 sigW
  omega

theorem zerocoeff_test (x : U128) :
    (x.w1 &&& c_MASK_COEFF == 0 && x.w0 == 0) = decide (sigW x.w1.toNat x.w0.toNat = 0) := by
  rw [zero128, show c_MASK_COEFF = 0x1ffffffffffff from rfl, coeff_hi]
  rfl

/-! ### the model side of the special cases -/

theorem riD_nan (mode : Mode) (s g : Bool) (p : Nat) : riD mode (.nan s g p) = .nan s false p := rfl
theorem riD_inf (mode : Mode) (s : Bool) : riD mode (.inf s) = .inf s := rfl
theorem riD_fin (mode : Mode) (s : Bool) (c : Nat) (e : Int) : riD mode (.fin s c e) = (toIntegralD mode (.fin s c e)).1 := rfl

theorem riD_zero (mode : Mode) (s : Bool) (e : Int) : riD mode (.fin s 0 e) = .fin s 0 (if 0 ≤ e then e else 0) := by
  rw [riD_fin]
  by_cases h : 0 ≤ e
  · rw [C08.integral_unchanged mode s 0 e h, if_pos h]
  · rw [C08.integral_rounded mode s 0 e (by omega), if_neg h]
    simp [roundInt, roundUp]

/-! ## 2. Front end: NaN, infinity, zero -/

theorem bitsOf_mk (a b : UInt64) : bitsOf ⟨a, b⟩ = b.toNat * 2^64 + a.toNat := rfl

theorem mask_fc (w : UInt64) : (w &&& 0xfc003fffffffffff).toNat = w.toNat / 2^58 % 2^6 * 2^58 + w.toNat % 2^46 := by
  have e : (0xfc003fffffffffff : UInt64).toNat = (2^6 - 1) * 2^58 ||| (2^46 - 1) := by decide
  rw [UInt64.toNat_and, e, Nat.and_or_distrib_left, Dec.C06GenFromInt.and_field, Nat.and_two_pow_sub_one_eq_mod, Nat.mul_comm,
    ← Nat.two_pow_add_eq_or_of_lt (by omega)]

theorem mask_clear (w : UInt64) : (w &&& 0xffffc00000000000 &&& 0xfc003fffffffffff).toNat = w.toNat / 2^58 % 2^6 * 2^58 := by
  rw [UInt64.and_assoc, show (0xffffc00000000000 &&& 0xfc003fffffffffff : UInt64) = 0xfc00000000000000 from by decide]
  exact toNat_and_field w _ 6 58 (by decide)

theorem snan_clear (w : UInt64) : (w &&& 0xffffc00000000000 &&& c_MASK_SNAN == c_MASK_SNAN) = decide (w.toNat / 2^57 % 64 = 63) := by
  rw [UInt64.and_assoc, show (0xffffc00000000000 &&& c_MASK_SNAN : UInt64) = c_MASK_SNAN from by decide]
  exact snan_test w

/-- **NaN and infinity** (all seven routines, all directions): the quieted canonical NaN with `invalid` for a signalling one,
the canonical infinity. -/
theorem specialRes_spec (mode : Mode) (x : U128) (f : UInt32) (h : x.w1.toNat / 2^59 % 16 = 15) :
    specialRes x f = .ok (ofBits (encode (riD mode (decode (bitsOf x)))), riFlags f (decode (bitsOf x))) := by
  have hl := x.w0.toNat_lt
  have hh := x.w1.toNat_lt
  rw [decode_bitsOf]
  unfold specialRes
  rw [nan_test', payload_test, snan_clear, snan_test', sign_zero_test]
  by_cases h2 : x.w1.toNat / 2^58 % 2 = 0
  · -- infinity
    have hd : decodeW x.w1.toNat x.w0.toNat = .inf (decide (x.w1.toNat / 2^63 % 2 = 1)) := by
      simp only [decodeW, h, h2, if_true]
    rw [hd, riD_inf, if_neg (by simp only [decide_eq_true_eq]; omega)]
    by_cases hs : x.w1.toNat / 2^63 % 2 = 0
    · rw [if_pos (by simpa using hs), show decide (x.w1.toNat / 2^63 % 2 = 1) = false from by simp; omega]
      rfl
    · rw [if_neg (by simpa using hs), show decide (x.w1.toNat / 2^63 % 2 = 1) = true from by simp; omega]
      rfl
  · -- NaN
    have hn : x.w1.toNat / 2^58 % 32 = 31 := by omega
    have hd : decodeW x.w1.toNat x.w0.toNat = .nan (decide (x.w1.toNat / 2^63 % 2 = 1)) (decide (x.w1.toNat / 2^57 % 2 = 1))
        (if x.w1.toNat % 2^46 * 2^64 + x.w0.toNat < P33 then x.w1.toNat % 2^46 * 2^64 + x.w0.toNat else 0) := by
      simp only [decodeW, h, h2, if_true, if_false]
    have hsn : decide (x.w1.toNat / 2^57 % 64 = 63) = decide (x.w1.toNat / 2^57 % 2 = 1) := by
      rw [decide_eq_decide]; omega
    rw [hd, riD_nan, if_pos (by simpa using hn), hsn]
    have hfl : ∀ (r : U128), (if decide (x.w1.toNat / 2^57 % 2 = 1) = true then
          (Except.ok (r, f ||| c_StatusFlags_BID_INVALID_EXCEPTION) : Except String (U128 × UInt32)) else .ok (r, f)) =
        .ok (r, riFlags f (.nan (decide (x.w1.toNat / 2^63 % 2 = 1)) (decide (x.w1.toNat / 2^57 % 2 = 1))
          (if x.w1.toNat % 2^46 * 2^64 + x.w0.toNat < P33 then x.w1.toNat % 2^46 * 2^64 + x.w0.toNat else 0))) := by
      intro r; unfold riFlags; simp only [Datum.isSNaN]
      by_cases hq : decide (x.w1.toNat / 2^57 % 2 = 1) = true
      · simp only [hq, if_true]; rfl
      · simp only [hq, if_false, Bool.false_eq_true]
    rw [hfl, hfl]
    have henc : ∀ p, p < 2^110 → encode (.nan (decide (x.w1.toNat / 2^63 % 2 = 1)) false p)
        = (x.w1.toNat / 2^58 % 2^6 * 2^58) * 2^64 + p := by
      intro p hp
      have e1 : encode (.nan (decide (x.w1.toNat / 2^63 % 2 = 1)) false p)
          = (if x.w1.toNat / 2^63 % 2 = 1 then 2^127 else 0) + 0x7c * 2^120 + p := by
        simp only [encode, signBit, decide_eq_true_eq, Bool.false_eq_true, if_false, Nat.add_zero, Nat.reducePow, Nat.reduceMul]
      rw [e1]
      split <;> omega
    by_cases hp : P33 ≤ x.w1.toNat % 2^46 * 2^64 + x.w0.toNat
    · rw [if_pos (by simpa using hp), if_neg (by omega)]
      rw [eq_ofBits (r := ⟨0, x.w1 &&& 0xffffc00000000000 &&& 0xfc003fffffffffff⟩) (n := encode (.nan (decide (x.w1.toNat / 2^63 % 2 = 1)) false 0))
        (by rw [bitsOf_mk, mask_clear, henc 0 (by omega)]; rfl)]
    · rw [if_neg (by simpa using hp), if_pos (by omega)]
      rw [eq_ofBits (r := ⟨x.w0, x.w1 &&& 0xfc003fffffffffff⟩)
        (n := encode (.nan (decide (x.w1.toNat / 2^63 % 2 = 1)) false (x.w1.toNat % 2^46 * 2^64 + x.w0.toNat)))
        (by rw [bitsOf_mk, mask_fc, henc _ (by unfold P33 at hp; omega)]; omega)]


theorem sign_word (w : UInt64) : (w &&& c_MASK_SIGN).toNat = w.toNat / 2^63 % 2 * 2^63 := by
  rw [toNat_and_field w c_MASK_SIGN 1 63 (by decide), Nat.pow_one]

theorem exp_word (w : UInt64) : (w &&& c_MASK_EXP).toNat = w.toNat / 2^49 % 2^14 * 2^49 := by
  rw [toNat_and_field w c_MASK_EXP 14 49 (by decide)]

theorem exp_word_large (w : UInt64) : (w <<< 2 &&& c_MASK_EXP).toNat = w.toNat / 2^47 % 2^14 * 2^49 := by
  have := w.toNat_lt
  rw [toNat_and_field _ c_MASK_EXP 14 49 (by decide), UInt64.toNat_shiftLeft, Nat.shiftLeft_eq]
  show w.toNat * 2^2 % 2^64 / 2^49 % 2^14 * 2^49 = _
  omega

theorem or_sign (a b : UInt64) (hb : b.toNat < 2^63) : (a &&& c_MASK_SIGN ||| b).toNat = a.toNat / 2^63 % 2 * 2^63 + b.toNat := by
  rw [UInt64.toNat_or, sign_word, Dec.C06GenFromInt.or_disjoint _ _ _ hb]

theorem encode_fin (s : Bool) (c : Nat) (E : Nat) :
    encode (.fin s c ((E : Int) - 6176)) = (if s then 2^127 else 0) + E * 2^113 + c := by
  simp only [encode, signBit]
  rw [show ((E : Int) - 6176 + 6176).toNat = E by omega]

/-- **zeros** (all seven routines, all directions): the zero of the same sign with the exponent `max(e, 0)` -/
theorem zeroRes_spec (mode : Mode) (x : U128) (e : UInt64) (E : Nat) (hE : E < 2^14) (he : e.toNat = E * 2^49) :
    zeroRes x e = ofBits (encode (riD mode (.fin (decide (x.w1.toNat / 2^63 % 2 = 1)) 0 ((E : Int) - 6176)))) := by
  have hh := x.w1.toNat_lt
  apply eq_ofBits
  rw [riD_zero]
  unfold zeroRes
  rw [bitsOf_mk, UInt64.toNat_zero, Nat.add_zero]
  have hc : (decide (e ≤ (6176 : UInt64) <<< 49) = true) ↔ E ≤ 6176 := by
    rw [decide_eq_true_eq, UInt64.le_iff_toNat_le, he, show ((6176 : UInt64) <<< 49).toNat = 6176 * 2^49 from by decide]
    omega
  by_cases h : E ≤ 6176
  · rw [if_pos (hc.2 h), show (0x8000000000000000 : UInt64) = c_MASK_SIGN from rfl, or_sign _ _ (by decide)]
    have e2 : (if (0 : Int) ≤ (E : Int) - 6176 then (E : Int) - 6176 else 0) = ((6176 : Nat) : Int) - 6176 := by
      split <;> omega
    rw [e2, encode_fin, show (0x3040000000000000 : UInt64).toNat = 6176 * 2^49 from by decide]
    simp only [decide_eq_true_eq]
    split <;> omega
  · rw [if_neg (fun hn => h (hc.1 hn)), or_sign _ _ (by omega), he]
    have e2 : (if (0 : Int) ≤ (E : Int) - 6176 then (E : Int) - 6176 else 0) = (E : Int) - 6176 := by
      split <;> omega
    rw [e2, encode_fin]
    simp only [decide_eq_true_eq]
    split <;> omega

/-- what the routines know of a finite non-zero operand (it is canonical): sign `s`, coefficient `c`, exponent `E − 6176` -/
structure FinView (x : U128) (s : Bool) (c E : Nat) : Prop where
  dec : decode (bitsOf x) = .fin s c ((E : Int) - 6176)
  pos : 0 < c
  lt : c < P34
  elt : E < 2^14
  sgn : (x.w1 &&& c_MASK_SIGN).toNat = if s then 2^63 else 0
  exp : (x.w1 &&& c_MASK_EXP).toNat = E * 2^49
  coeff : val128 ⟨x.w0, x.w1 &&& c_MASK_COEFF⟩ = c
  enc : bitsOf x = encode (.fin s c ((E : Int) - 6176))

/-- **front end** (all seven routines): NaNs, infinities and zeros (non-canonical finite encodings included) are answered
as the model says, in every direction; every other operand is finite, non-zero and canonical and is handed on to the
routine-specific part `k` as sign word, exponent word and two-word coefficient. -/
theorem frontEnd_cases (mode : Mode) (x : U128) (f : UInt32) (k : UInt64 → UInt64 → U128 → Except String (U128 × UInt32)) :
    frontEnd x f k = .ok (ofBits (encode (riD mode (decode (bitsOf x)))), riFlags f (decode (bitsOf x))) ∨
    ∃ s c E, FinView x s c E ∧
      frontEnd x f k = k (x.w1 &&& c_MASK_SIGN) (x.w1 &&& c_MASK_EXP) ⟨x.w0, x.w1 &&& c_MASK_COEFF⟩ := by
  have hl := x.w0.toNat_lt
  have hh := x.w1.toNat_lt
  unfold frontEnd
  rw [special_test, steer_test, bigcoeff_test, zerocoeff_test]
  by_cases h1 : x.w1.toNat / 2^59 % 16 = 15
  · left
    rw [if_pos (by simpa using h1)]
    exact specialRes_spec mode x f h1
  · rw [if_neg (by simpa using h1)]
    have hfl : ∀ (s : Bool) (c : Nat) (e : Int), riFlags f (.fin s c e) = f := fun _ _ _ => rfl
    by_cases h2 : x.w1.toNat / 2^61 % 4 = 3
    · left
      rw [if_pos (by simpa using h2), decode_bitsOf]
      have hd : decodeW x.w1.toNat x.w0.toNat
          = .fin (decide (x.w1.toNat / 2^63 % 2 = 1)) 0 ((x.w1.toNat / 2^47 % 2^14 : Nat) - (6176 : Int)) := by
        simp only [decodeW, h1, h2, if_true, if_false]
      rw [hd, hfl, zeroRes_spec mode x _ _ (by omega) (exp_word_large x.w1)]
    · rw [if_neg (by simpa using h2)]
      have hz : ∀ (hc : ¬ (sigW x.w1.toNat x.w0.toNat < P34 ∧ sigW x.w1.toNat x.w0.toNat ≠ 0)),
          (Except.ok (zeroRes x (x.w1 &&& c_MASK_EXP), f) : Except String (U128 × UInt32)) =
            .ok (ofBits (encode (riD mode (decode (bitsOf x)))), riFlags f (decode (bitsOf x))) := by
        intro hc
        have hd : decodeW x.w1.toNat x.w0.toNat
            = .fin (decide (x.w1.toNat / 2^63 % 2 = 1)) 0 ((x.w1.toNat / 2^49 % 2^14 : Nat) - (6176 : Int)) := by
          unfold sigW at hc
          simp only [decodeW, h1, h2, if_true, if_false]
          split
          · rw [show x.w1.toNat % 2^49 * 2^64 + x.w0.toNat = 0 by omega]
          · rfl
        rw [decode_bitsOf, hd, hfl, zeroRes_spec mode x _ _ (by omega) (exp_word x.w1)]
      by_cases h3 : P34 ≤ sigW x.w1.toNat x.w0.toNat
      · left
        rw [if_pos (by simpa using h3)]
        exact hz (by omega)
      · rw [if_neg (by simpa using h3)]
        by_cases h4 : sigW x.w1.toNat x.w0.toNat = 0
        · left
          rw [if_pos (by simpa using h4)]
          exact hz (by omega)
        · right
          rw [if_neg (by simpa using h4)]
          have hd : decodeW x.w1.toNat x.w0.toNat
              = .fin (decide (x.w1.toNat / 2^63 % 2 = 1)) (sigW x.w1.toNat x.w0.toNat)
                  ((x.w1.toNat / 2^49 % 2^14 : Nat) - (6176 : Int)) := by
            unfold sigW at h3 ⊢
            simp only [decodeW, h1, h2, if_true, if_false]
            rw [if_pos (by omega)]
          refine ⟨_, _, _, ⟨by rw [decode_bitsOf, hd], by omega, by omega, by omega, ?_, exp_word x.w1, ?_, ?_⟩, rfl⟩
          · rw [sign_word]
            simp only [decide_eq_true_eq]
            split <;> omega
          · show (x.w1 &&& c_MASK_COEFF).toNat * 2^64 + x.w0.toNat = _
            rw [show c_MASK_COEFF = 0x1ffffffffffff from rfl, coeff_hi]
            rfl
          · rw [encode_fin]
            unfold bitsOf sigW
            simp only [decide_eq_true_eq]
            split <;> omega

/-! ## 3. The digit count -/

/-! ### the `f64` conversion trick -/

/-- the biased-exponent field of the `f64` nearest to an integer below 2^53 (the conversion is exact there) is
`⌊log₂ n⌋ + 1023` -/
theorem floatBits_exp (n : Nat) (h0 : 0 < n) (h1 : n < 2^53) :
    floatBitsOfNat 52 1023 n / 2^52 = Nat.log2 n + 1023 ∧ floatBitsOfNat 52 1023 n < 2^63 := by
  have hne : n ≠ 0 := by omega
  have hl : Nat.log2 n ≤ 52 := by
    have := (Nat.log2_lt hne).2 h1
    omega
  have lo := Nat.log2_self_le hne
  have hi := @Nat.lt_log2_self n
  unfold floatBitsOfNat
  rw [if_neg hne]
  simp only [hl, if_true]
  have e : 2 ^ 52 = 2 ^ Nat.log2 n * 2 ^ (52 - Nat.log2 n) := by rw [← Nat.pow_add]; congr 1; omega
  have a1 : 2 ^ 52 ≤ n * 2 ^ (52 - Nat.log2 n) := by rw [e]; exact Nat.mul_le_mul_right _ lo
  have a2 : n * 2 ^ (52 - Nat.log2 n) < 2 ^ 53 := by
    have : 2 ^ 53 = 2 ^ (Nat.log2 n + 1) * 2 ^ (52 - Nat.log2 n) := by rw [← Nat.pow_add]; congr 1; omega
    rw [this]
    exact Nat.mul_lt_mul_of_pos_right hi (Nat.pow_pos (by decide))
  generalize n * 2 ^ (52 - Nat.log2 n) = m at a1 a2
  generalize Nat.log2 n = l at hl
  omega

/-- the bit-length expression of the code: `k + (biased exponent of (double) w − 1023)` is `k + ⌊log₂ w⌋` -/
theorem f64_trick (w : UInt64) (k : UInt32) (h0 : 0 < w.toNat) (h1 : w.toNat < 2^53) (hk : k.toNat ≤ 65) :
    (UInt64.ofInt (toI (k + ((UInt32.ofInt (toI ((F64U.ofU64 (UInt64.ofInt (toI w))).bits >>> 52)) &&& 2047) - 1023)))).toNat
      = k.toNat + Nat.log2 w.toNat := by
  obtain ⟨e1, e2⟩ := floatBits_exp w.toNat h0 h1
  have hl : Nat.log2 w.toNat < 53 := (Nat.log2_lt (by omega)).2 h1
  have hw : UInt64.ofInt (toI w) = w := by
    apply UInt64.toNat_inj.1
    show (UInt64.ofInt (w.toNat : Int)).toNat = _
    rw [ofInt_natCast64]; have := w.toNat_lt; omega
  rw [hw]
  have hb : ((F64U.ofU64 w).bits >>> 52).toNat = Nat.log2 w.toNat + 1023 := by
    unfold F64U.ofU64
    rw [UInt64.toNat_shiftRight, UInt64.toNat_ofNat', Nat.mod_eq_of_lt (by omega), Nat.shiftRight_eq_div_pow]
    exact e1
  have h32 : (UInt32.ofInt (toI ((F64U.ofU64 w).bits >>> 52))).toNat = Nat.log2 w.toNat + 1023 := by
    show (UInt32.ofInt (((F64U.ofU64 w).bits >>> 52).toNat : Int)).toNat = _
    rw [ofInt_natCast32, hb]; omega
  have hm : ((UInt32.ofInt (toI ((F64U.ofU64 w).bits >>> 52)) &&& 2047) - 1023).toNat = Nat.log2 w.toNat := by
    rw [UInt32.toNat_sub, UInt32.toNat_and, h32, show (2047 : UInt32).toNat = 2^11 - 1 from rfl,
      Nat.and_two_pow_sub_one_eq_mod, show (1023 : UInt32).toNat = 1023 from rfl]
    omega
  show (UInt64.ofInt ((k + ((UInt32.ofInt (toI ((F64U.ofU64 w).bits >>> 52)) &&& 2047) - 1023)).toNat : Int)).toNat = _
  rw [ofInt_natCast64, UInt32.toNat_add, hm]
  omega


theorem log2_eq_of {n k : Nat} (h1 : 2^k ≤ n) (h2 : n < 2^(k+1)) : Nat.log2 n = k :=
  (Nat.log2_eq_iff (by have := Nat.pow_pos (n := k) (show 0 < 2 by decide); omega)).2 ⟨h1, h2⟩

theorem log2_shift (n k : Nat) (h : 2^k ≤ n) : Nat.log2 (n / 2^k) + k = Nat.log2 n := by
  have hk : 0 < 2^k := Nat.pow_pos (by decide)
  have hne : n ≠ 0 := by omega
  have hq : n / 2^k ≠ 0 := by
    have := Nat.div_pos h hk
    omega
  have lo := Nat.log2_self_le hq
  have hi := @Nat.lt_log2_self (n / 2^k)
  symm
  apply log2_eq_of
  · rw [Nat.pow_add]
    calc 2 ^ (n / 2^k).log2 * 2^k ≤ n / 2^k * 2^k := Nat.mul_le_mul_right _ lo
      _ ≤ n := Nat.div_mul_le_self n (2^k)
  · rw [show (n / 2^k).log2 + k + 1 = ((n / 2^k).log2 + 1) + k by omega, Nat.pow_add]
    exact (Nat.div_lt_iff_lt_mul hk).1 hi

/-- **the bit length**: for a coefficient `0 < C < 2^113` the three-way `f64` trick yields `⌊log₂ C⌋ + 1` -/
theorem nrBits_spec (C : U128) (h0 : 0 < val128 C) (h1 : val128 C < 2^113) :
    (nrBits C).toNat = Nat.log2 (val128 C) + 1 := by
  have hl := C.w0.toNat_lt
  unfold val128 at h0 h1 ⊢
  unfold nrBits
  by_cases a : C.w1 = 0
  · rw [if_pos (by simpa using a)]
    have a' : C.w1.toNat = 0 := by rw [a]; rfl
    rw [a'] at h0 h1 ⊢
    simp only [Nat.zero_mul, Nat.zero_add] at h0 h1 ⊢
    by_cases b : C.w0 ≥ 0x20000000000000
    · rw [if_pos (by simpa using b)]
      have b' : 2^53 ≤ C.w0.toNat := by
        have := UInt64.le_iff_toNat_le.1 b
        exact this
      have hs : (C.w0 >>> 32).toNat = C.w0.toNat / 2^32 := high32 C.w0
      rw [f64_trick (C.w0 >>> 32) 33 (by rw [hs]; omega) (by rw [hs]; omega) (by decide), hs,
        show (33 : UInt32).toNat = 33 from rfl, ← log2_shift C.w0.toNat 32 (by omega)]
      omega
    · rw [if_neg (by simpa using b)]
      have b' : C.w0.toNat < 2^53 := by
        have := UInt64.lt_iff_toNat_lt.1 (UInt64.not_le.1 b)
        exact this
      rw [f64_trick C.w0 1 h0 b' (by decide), show (1 : UInt32).toNat = 1 from rfl]
      omega
  · rw [if_neg (by simpa using a)]
    have a' : 0 < C.w1.toNat := by
      rcases Nat.eq_zero_or_pos C.w1.toNat with h | h
      · exact absurd (UInt64.toNat_inj.1 (by rw [h]; rfl)) a
      · exact h
    rw [f64_trick C.w1 65 a' (by omega) (by decide), show (65 : UInt32).toNat = 65 from rfl,
      ← log2_shift (C.w1.toNat * 2^64 + C.w0.toNat) 64 (by omega)]
    rw [show (C.w1.toNat * 2^64 + C.w0.toNat) / 2^64 = C.w1.toNat by omega]
    omega


/-! ### the table lookup -/

open Dec.TableFacts in
/-- row `i` of `BID_NR_DIGITS`, word by word (closed form of `DecProofs.TableFacts.F_BID_NR_DIGITS`) -/
theorem nr_get (i : Nat) (hi : i < 113) :
    Dec.Gen.BID_NR_DIGITS[i * 4 + 0]? = (nrRow i)[0]? ∧ Dec.Gen.BID_NR_DIGITS[i * 4 + 1]? = (nrRow i)[1]? ∧
    Dec.Gen.BID_NR_DIGITS[i * 4 + 2]? = (nrRow i)[2]? ∧ Dec.Gen.BID_NR_DIGITS[i * 4 + 3]? = (nrRow i)[3]? := by
  have h := fun j (hj : j < 4) =>
    getElem?_flatMap_const_width nrRow 4 (fun _ => rfl) (List.range 113) i j i (List.getElem?_range hi) hj
  rw [BID_NR_DIGITS_rows]
  exact ⟨h 0 (by decide), h 1 (by decide), h 2 (by decide), h 3 (by decide)⟩

theorem tblDD_of (t : List Nat) (i : UInt64) (a b c d : Nat) (h0 : t[i.toNat * 4 + 0]? = some a) (h1 : t[i.toNat * 4 + 1]? = some b)
    (h2 : t[i.toNat * 4 + 2]? = some c) (h3 : t[i.toNat * 4 + 3]? = some d) :
    tblDD t i = .ok ⟨UInt32.ofNat a, UInt64.ofNat b, UInt64.ofNat c, UInt32.ofNat d⟩ := by
  unfold tblDD
  rw [Nat.mul_comm 4 i.toNat]
  rw [Nat.add_zero] at h0
  rw [h0, h1, h2, h3]

open Dec.TableFacts in
theorem tblDD_nr (i : UInt64) (hi : i.toNat < 113) :
    tblDD Dec.Gen.BID_NR_DIGITS i = .ok ⟨
      UInt32.ofNat (if ndigitsSlow (2 ^ i.toNat) = ndigitsSlow (2 ^ (i.toNat + 1) - 1) then ndigitsSlow (2 ^ i.toNat) else 0),
      UInt64.ofNat (10 ^ ndigitsSlow (2 ^ i.toNat) / 2 ^ 64), UInt64.ofNat (10 ^ ndigitsSlow (2 ^ i.toNat) % 2 ^ 64),
      UInt32.ofNat (ndigitsSlow (2 ^ i.toNat))⟩ := by
  obtain ⟨g0, g1, g2, g3⟩ := nr_get _ hi
  exact tblDD_of _ _ _ _ _ _ (g0.trans (by simp only [nrRow, List.getElem?_cons_zero])) 
    (g1.trans (by simp only [nrRow, List.getElem?_cons_zero, List.getElem?_cons_succ])) 
    (g2.trans (by simp only [nrRow, List.getElem?_cons_zero, List.getElem?_cons_succ])) 
    (g3.trans (by simp only [nrRow, List.getElem?_cons_zero, List.getElem?_cons_succ])) 

theorem int32_of_small (d : Nat) (h : d < 2^31) : (Int32.ofInt (toI (UInt32.ofNat d))).toInt = d := by
  show (Int32.ofInt ((UInt32.ofNat d).toNat : Int)).toInt = _
  rw [UInt32.toNat_ofNat', Nat.mod_eq_of_lt (by omega), Int32.toInt_ofInt_of_le (by omega) (by omega)]

end Dec.C08GenRoundIntegral
