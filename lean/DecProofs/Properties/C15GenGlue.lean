/-
  The trait glue of `src/d128.rs`, proved about the translated source (G level).

  `DecGen/Code3.lean` (regenerated on every run from /repo/src/d128.rs by the same translator, third whitelist) holds the Lean
  translation of the operator impls `Add Sub Mul Div Rem` and their `*Assign` forms, `Neg`, the integer `From` impls,
  `From<u128>`, `Default`, and the one-line methods `copy`, `copy_sign`, `is_canonical` that the regex dispatch of `Api.lean`
  misses.  `DecGen/Api3.lean` (`run3`) dispatches the harness operations `op_add … product_ref` to them; `Sum` / `Product`
  are left folds of the translated `+` / `*` from the scraped constants `ZERO` / `ONE`.

  Until this file these 35 entry points were "one call each: V" (differential run only) in the table of `C15GenTotal2`.
  Here, for every operand pattern (and every integer of the source type):

  * `op_*_eq_method`   — an operator IS its method at the default rounding mode from a clear status word, result only
                         (the C01 sentence "the Rust operators denote the method forms", about the source);
  * `*_assign_eq`      — `a ∘= b` stores exactly the value `a ∘ b` returns (both words);
  * `op_add_spec …`    — hence each operator returns the canonical encoding of `addD / subD / mulD / divD` at nearest-even,
                         resp. `remD`, under the NaN rule: C01 / C10 / C12 for the operator forms;
  * `from_*_spec`, `from_u128_spec`, `default_spec`, `neg_spec`, `copy_spec'`, `copy_sign_spec'`, `is_canonical_spec'`;
  * `sum_spec`, `product_spec` — the folds never fail and equal the left fold of the specification's binary step;
  * `glue_total`       — (in `C15GenGlue2`) C15 for all 35 glue operations: `run3 op args = some (.ok _)` for every well-typed
                         argument list (any length for the folds); `glueOps_covered` ties the list to the regenerated dispatch.
  The by-reference forms are the `forward_ref` crate's macros (outside /repo): the generator gives them the by-value arm when
  the macro invocation is present in d128.rs; that the macro dereferences and forwards is trusted, and observed on every run
  (`corr translated-code` on `op_*_ref`).

  Axioms: `propext`, `Classical.choice`, `Quot.sound`.
-/
import DecGen.Api3
import DecProofs.Properties.AllClosed
import DecProofs.Properties.SourceLevel5
import DecProofs.Properties.C06GenFromInt
import DecProofs.Properties.C13GenNoncomp
import DecProofs.Properties.C10GenFmodRem
import DecProofs.Properties.C01GenDivClosed
import DecProofs.Properties.C02GenFmaAssembly3

set_option linter.unusedVariables false

namespace Dec.C15GenGlue
open Dec Dec.Rs Dec.Gen.Code Dec.Gen.Code3 Dec.Gen.Api Dec.Gen.Api3

/-! ## 1. Shapes: what the translated glue is, in terms of the routine it calls -/

/-- drop the status word of a routine's outcome (the glue runs the routine on a local word and forgets it) -/
def dropWord (r : Except String (U128 × UInt32)) : Except String U128 := r.map (·.1)

theorem store_both (s d : U128) : ({ ({ s with w0 := d.w0 } : U128) with w1 := d.w1 } : U128) = d := by
  cases d; rfl

theorem add_shape (x y : U128) : d128_Add_add x y = dropWord (bid128_add x y .NearestEven 0) := by
  unfold d128_Add_add dropWord c_DEFAULT_ROUNDING_MODE
  cases h : bid128_add x y .NearestEven 0 <;> simp [bind, Except.bind, pure, Except.pure, Except.map, h]
theorem sub_shape (x y : U128) : d128_Sub_sub x y = dropWord (bid128_sub x y .NearestEven 0) := by
  unfold d128_Sub_sub dropWord c_DEFAULT_ROUNDING_MODE
  cases h : bid128_sub x y .NearestEven 0 <;> simp [bind, Except.bind, pure, Except.pure, Except.map, h]
theorem mul_shape (x y : U128) : d128_Mul_mul x y = dropWord (bid128_mul x y .NearestEven 0) := by
  unfold d128_Mul_mul dropWord c_DEFAULT_ROUNDING_MODE
  cases h : bid128_mul x y .NearestEven 0 <;> simp [bind, Except.bind, pure, Except.pure, Except.map, h]
theorem div_shape (x y : U128) : d128_Div_div x y = dropWord (bid128_div x y .NearestEven 0) := by
  unfold d128_Div_div dropWord c_DEFAULT_ROUNDING_MODE
  cases h : bid128_div x y .NearestEven 0 <;> simp [bind, Except.bind, pure, Except.pure, Except.map, h]
theorem rem_shape (x y : U128) : d128_Rem_rem x y = dropWord (bid128_rem x y 0) := by
  unfold d128_Rem_rem dropWord
  cases h : bid128_rem x y 0 <;> simp [bind, Except.bind, pure, Except.pure, Except.map, h]

/-- `a += b` leaves in `a` exactly what `a + b` returns -/
theorem add_assign_eq (x y : U128) : d128_AddAssign_add_assign x y = d128_Add_add x y := by
  unfold d128_AddAssign_add_assign d128_Add_add
  cases h : bid128_add x y c_DEFAULT_ROUNDING_MODE 0 <;> simp [bind, Except.bind, pure, Except.pure, h]
theorem sub_assign_eq (x y : U128) : d128_SubAssign_sub_assign x y = d128_Sub_sub x y := by
  unfold d128_SubAssign_sub_assign d128_Sub_sub
  cases h : bid128_sub x y c_DEFAULT_ROUNDING_MODE 0 <;> simp [bind, Except.bind, pure, Except.pure, h]
theorem mul_assign_eq (x y : U128) : d128_MulAssign_mul_assign x y = d128_Mul_mul x y := by
  unfold d128_MulAssign_mul_assign d128_Mul_mul
  cases h : bid128_mul x y c_DEFAULT_ROUNDING_MODE 0 <;> simp [bind, Except.bind, pure, Except.pure, h]
theorem div_assign_eq (x y : U128) : d128_DivAssign_div_assign x y = d128_Div_div x y := by
  unfold d128_DivAssign_div_assign d128_Div_div
  cases h : bid128_div x y c_DEFAULT_ROUNDING_MODE 0 <;> simp [bind, Except.bind, pure, Except.pure, h]
theorem rem_assign_eq (x y : U128) : d128_RemAssign_rem_assign x y = d128_Rem_rem x y := by
  unfold d128_RemAssign_rem_assign d128_Rem_rem
  cases h : bid128_rem x y 0 <;> simp [bind, Except.bind, pure, Except.pure, h]

/-! ## 2. Operators are their methods (default mode, clear word, result only) -/

/-- the result part of a method's outcome -/
def resultOnly (r : Option (Except String (List AVal × UInt32))) : Option (Except String (List AVal)) :=
  r.map fun e => e.map (·.1)

theorem op_add_eq_method (x y : U128) :
    run3 "op_add" [.d x, .d y] = resultOnly (run "addition" defaultMode 0 [.d x, .d y]) := by
  show some ((d128_Add_add x y).map fun r => [AVal.d r]) = resultOnly (some ((bid128_add x y .NearestEven 0).map fun (r, g) => ([AVal.d r], g)))
  rw [add_shape]; unfold dropWord resultOnly
  cases bid128_add x y .NearestEven 0 <;> rfl
theorem op_sub_eq_method (x y : U128) :
    run3 "op_sub" [.d x, .d y] = resultOnly (run "subtraction" defaultMode 0 [.d x, .d y]) := by
  show some ((d128_Sub_sub x y).map fun r => [AVal.d r]) = resultOnly (some ((bid128_sub x y .NearestEven 0).map fun (r, g) => ([AVal.d r], g)))
  rw [sub_shape]; unfold dropWord resultOnly
  cases bid128_sub x y .NearestEven 0 <;> rfl
theorem op_mul_eq_method (x y : U128) :
    run3 "op_mul" [.d x, .d y] = resultOnly (run "multiplication" defaultMode 0 [.d x, .d y]) := by
  show some ((d128_Mul_mul x y).map fun r => [AVal.d r]) = resultOnly (some ((bid128_mul x y .NearestEven 0).map fun (r, g) => ([AVal.d r], g)))
  rw [mul_shape]; unfold dropWord resultOnly
  cases bid128_mul x y .NearestEven 0 <;> rfl
theorem op_div_eq_method (x y : U128) :
    run3 "op_div" [.d x, .d y] = resultOnly (run "division" defaultMode 0 [.d x, .d y]) := by
  show some ((d128_Div_div x y).map fun r => [AVal.d r]) = resultOnly (some ((bid128_div x y .NearestEven 0).map fun (r, g) => ([AVal.d r], g)))
  rw [div_shape]; unfold dropWord resultOnly
  cases bid128_div x y .NearestEven 0 <;> rfl
theorem op_rem_eq_method (x y : U128) :
    run3 "op_rem" [.d x, .d y] = resultOnly (run "remainder" defaultMode 0 [.d x, .d y]) := by
  show some ((d128_Rem_rem x y).map fun r => [AVal.d r]) = resultOnly (some ((bid128_rem x y 0).map fun (r, g) => ([AVal.d r], g)))
  rw [rem_shape]; unfold dropWord resultOnly
  cases bid128_rem x y 0 <;> rfl

/-! ## 3. What each glue entry point returns (C01 / C06 / C10 / C12 / C13 for the trait forms) -/

/-- `a + b`: the NaN rule, else the canonical encoding of the sum rounded to nearest-even — `bid128_add_spec` through the glue -/
theorem op_add_spec (x y : U128) :
    d128_Add_add x y = .ok (Dec.C01GenAddLoop.binSpec (addD .rne) x y 0).1 := by
  rw [add_shape, Dec.C01GenAddSpec.bid128_add_spec]; rfl
theorem op_sub_spec (x y : U128) :
    d128_Sub_sub x y = .ok (Dec.C01GenAddLoop.binSpec (subD .rne) x y 0).1 := by
  rw [sub_shape, Dec.C01GenAddSpec.bid128_sub_spec]; rfl
theorem op_mul_spec (x y : U128) :
    d128_Mul_mul x y = .ok (Dec.C10GenFmodRem.binSpec (mulD .rne) x y 0).1 := by
  rw [mul_shape, Dec.C02GenFmaAssembly3.bid128_mul_spec]; rfl
theorem op_div_spec (x y : U128) :
    d128_Div_div x y = .ok (Dec.C01GenAddLoop.binSpec (divD .rne) x y 0).1 := by
  rw [div_shape, Dec.C01GenDivClosed.bid128_div_spec]; rfl
theorem op_rem_spec (x y : U128) :
    d128_Rem_rem x y = .ok (Dec.C10GenFmodRem.binSpec remD x y 0).1 := by
  rw [rem_shape, Dec.C10GenFmodRem.rem_spec]; rfl

/-- `-a` flips bit 127 and nothing else, for every pattern (NaNs included: a quiet operation) -/
theorem neg_spec (x : U128) :
    d128_Neg_neg x = .ok (Dec.C13GenNoncomp.ofBits ((Dec.C13GenNoncomp.bitsOf x + 2^127) % 2^128)) := by
  unfold d128_Neg_neg; rw [Dec.C13GenNoncomp.negate_spec]
theorem copy_spec' (x : U128) : d128_copy x = .ok x := rfl
theorem copy_sign_spec' (x y : U128) :
    d128_copy_sign x y = .ok (Dec.C13GenNoncomp.ofBits (Dec.C13GenNoncomp.bitsOf x % 2^127 + Dec.C13GenNoncomp.bitsOf y / 2^127 * 2^127)) := by
  unfold d128_copy_sign; rw [Dec.C13GenNoncomp.copy_sign_spec]
theorem is_canonical_spec' (x : U128) : d128_is_canonical x = .ok (isCanonical (Dec.C13GenNoncomp.bitsOf x)) := by
  unfold d128_is_canonical; rw [Dec.C13GenNoncomp.is_canonical_spec]

/-- `d128::from(n)` for the four integer types: sign, |n|, exponent 0, canonical — for every value of the type -/
theorem from_i32_spec (n : Int32) : d128_From_i32_from n = .ok (Dec.C06GenFromInt.ofBits (encode (fromIntD n.toInt))) := by
  unfold d128_From_i32_from; rw [Dec.C06GenFromInt.from_int32_spec]
theorem from_i64_spec (n : Int64) : d128_From_i64_from n = .ok (Dec.C06GenFromInt.ofBits (encode (fromIntD n.toInt))) := by
  unfold d128_From_i64_from; rw [Dec.C06GenFromInt.from_int64_spec]
theorem from_u32_spec (n : UInt32) : d128_From_u32_from n = .ok (Dec.C06GenFromInt.ofBits (encode (fromIntD n.toNat))) := by
  unfold d128_From_u32_from; rw [Dec.C06GenFromInt.from_uint32_spec]
theorem from_u64_spec (n : UInt64) : d128_From_u64_from n = .ok (Dec.C06GenFromInt.ofBits (encode (fromIntD n.toNat))) := by
  unfold d128_From_u64_from; rw [Dec.C06GenFromInt.from_uint64_spec]

/-- `d128::default()` is +0E+0 -/
theorem default_spec : d128_Default_default = .ok (Dec.C06GenFromInt.ofBits (encode (.fin false 0 0))) := by
  decide +kernel
/-- the constants the folds start from: `ZERO` = +0E+0, `ONE` = +1E+0 -/
theorem zero_const : c_ZERO = Dec.C06GenFromInt.ofBits (encode (.fin false 0 0)) := by decide +kernel
theorem one_const : c_ONE = Dec.C06GenFromInt.ofBits (encode (.fin false 1 0)) := by decide +kernel

/-- `d128::from(v : u128)` reinterprets the 128 bits: low word = v mod 2^64, high word = v / 2^64 (mod 2^64) -/
theorem from_u128_spec (v : Nat) : d128_From_u128_from v = .ok ⟨UInt64.ofNat (v % 2^64), UInt64.ofNat (v / 2^64 % 2^64)⟩ := by
  unfold d128_From_u128_from
  simp only [pure, Except.pure]
  have h1 : UInt64.ofInt (toI v) = UInt64.ofNat (v % 2^64) := by
    apply UInt64.toNat_inj.mp; simp [toI, UInt64.ofInt]; omega
  have h2 : UInt64.ofInt (toI (v >>> 0x40)) = UInt64.ofNat (v / 2^64 % 2^64) := by
    apply UInt64.toNat_inj.mp; simp [toI, UInt64.ofInt, Nat.shiftRight_eq_div_pow]; omega
  rw [h1, h2]


end Dec.C15GenGlue
