/-
  C01 (generated-code level) — the float-margin fact left open in `C01GenDiv256.div_256_by_128_exact` (`corner_margin`)
  and, with it, the exactness of `bid___div_256_by_128` without any residual hypothesis (`div_256_by_128_exact'`).

  The corner: stage 1 of the routine is skipped (dividend below 2^192, quotient below 2^100) and the quotient is at least
  `2^100 − 2^49`.  Stage 2 then computes `Q = ⌊lq · 2^-49⌋ − 1` with `lq = RN(lx / ly)`, and `Q` overshoots iff `lq` reaches
  `2^100 + 2^49`, i.e. iff `lx / ly ≥ 2^100 + 3·2^47`.  `corner_margin` shows `lx ≤ (2^100 + 2^48)·ly` for ALL three-word
  dividends below `2^100·Y`:

    A. `rn53_cases`: the two outcomes of a rounding and when each occurs (ties to even).
       `round_after_up`: if a word was rounded UP, adding at most one unit `2^w` of the lower part does not move the
       rounded sum (below half a grid step; on a tie the significand reached by rounding up is even).
    B. `step_le_repr`, `lval_le_repr`, `lval3_le_repr`: the word-by-word conversion `lval3` never exceeds a representable
       number that bounds the integer from above (although intermediate sums can exceed it).
    C. `divisor_below_next`: the divisor `Y` is at most its image `ly`, or `ly = N·2^j` and `Y < (N + 1)·2^j` (the error of
       the low word is below 2^10, half a grid step of the sum at least 2^11).
    D. `corner_margin`: `X < 2^100·Y ≤ 2^100·(next representable above ly)`, which is representable, so by B
       `lx ≤ 2^100·ly + 2^(100+j) ≤ (2^100 + 2^48)·ly`.
-/
import DecProofs.Properties.C01GenDiv256
namespace Dec.C01GenDiv256
open Dec.Rs Dec.Gen.Code Dec.C10GenRem
open Dec.C11GenLogb (log2_unique log2_mul_pow)
set_option linter.unusedVariables false

/-! ## A. The shape of a rounding -/

/-- the two possible outcomes of rounding `n ≥ 2^53` to 53 bits, with the conditions under which each occurs -/
theorem rn53_cases (n : Nat) (hl : 52 < Nat.log2 n) :
    ∃ sh q r h, Nat.log2 n = sh + 52 ∧ 1 ≤ sh ∧ 2 ^ sh = 2 * h ∧ h = 2 ^ (sh - 1) ∧ n = q * (2 * h) + r ∧ r < 2 * h ∧
      2 ^ 52 ≤ q ∧ q < 2 ^ 53 ∧
      ((rn53 n = q * (2 * h) ∧ (r < h ∨ (r = h ∧ q % 2 = 0))) ∨
       (rn53 n = (q + 1) * (2 * h) ∧ (h < r ∨ (r = h ∧ q % 2 = 1)))) := by
  obtain ⟨sh, hsh⟩ : ∃ sh, Nat.log2 n = sh + 53 := ⟨Nat.log2 n - 53, by omega⟩
  obtain ⟨a, b⟩ := q_range n (by omega)
  have hs : Nat.log2 n - 52 = sh + 1 := by omega
  have hp : 2 ^ (sh + 1) = 2 * 2 ^ sh := by rw [Nat.pow_succ]; ring
  have hdm := Nat.div_add_mod n (2 ^ (sh + 1))
  have hr : n % 2 ^ (sh + 1) < 2 ^ (sh + 1) := Nat.mod_lt _ (Nat.pow_pos (by decide))
  rw [hs] at a b
  refine ⟨sh + 1, n / 2 ^ (sh + 1), n % 2 ^ (sh + 1), 2 ^ sh, by omega, by omega, hp, by simp, ?_, by rw [← hp]; exact hr,
    a, b, ?_⟩
  · rw [← hp, Nat.mul_comm]; exact hdm.symm
  · unfold rn53 rq53
    rw [if_neg (by omega)]
    simp only [hs, Nat.add_sub_cancel]
    rw [hp]
    generalize n / (2 * 2 ^ sh) = q at *
    generalize n % (2 * 2 ^ sh) = r at *
    generalize 2 ^ sh = h at *
    split
    · rename_i hup
      right
      refine ⟨rfl, ?_⟩
      simp only [Bool.or_eq_true, Bool.and_eq_true, decide_eq_true_eq, beq_iff_eq] at hup
      rcases hup with h1 | h1
      · exact Or.inl h1
      · exact Or.inr h1
    · rename_i hup
      left
      refine ⟨rfl, ?_⟩
      simp only [Bool.or_eq_true, Bool.and_eq_true, decide_eq_true_eq, beq_iff_eq, not_or, not_and] at hup
      obtain ⟨h1, h2⟩ := hup
      rcases Nat.lt_or_ge r h with hlt | hge
      · exact Or.inl hlt
      · have : r = h := by omega
        exact Or.inr ⟨this, by have := h2 this; omega⟩

/-- uniqueness of quotient and remainder, in the shape produced by `rn53_cases` -/
theorem divmod_unique (n q r q' r' D : Nat) (h1 : n = q * D + r) (hr : r < D) (h2 : n = q' * D + r') (hr' : r' < D) :
    q = q' ∧ r = r' := by
  have hD : 0 < D := by omega
  have a : n / D = q ∧ n % D = r := (Nat.div_mod_unique hD).2 ⟨by rw [h1]; ring, hr⟩
  have b : n / D = q' ∧ n % D = r' := (Nat.div_mod_unique hD).2 ⟨by rw [h2]; ring, hr'⟩
  exact ⟨a.1.symm.trans b.1, a.2.symm.trans b.2⟩

/-- **after a word has been rounded up, adding at most one unit of the lower part does not move the sum**: if
`rn53 top > top` then `rn53 (rn53 top · 2^w + L) = rn53 top · 2^w` for `L ≤ 2^w` (on a tie the significand that was
reached by rounding up is even) -/
theorem round_after_up (top w L : Nat) (hz : top < rn53 top) (hL : L ≤ 2 ^ w) :
    rn53 (rn53 top * 2 ^ w + L) = rn53 top * 2 ^ w := by
  have hl : 52 < Nat.log2 top := by
    by_contra hc
    have : rn53 top = top := by unfold rn53; rw [if_pos (by omega)]
    omega
  obtain ⟨sh, q, r, h, hlog, hsh1, hpow, hh, hn, hr, hq1, hq2, hcase⟩ := rn53_cases top hl
  have hpw : 0 < 2 ^ w := Nat.pow_pos (by decide)
  have hh1 : 1 ≤ h := by rw [hh]; exact Nat.pow_pos (by decide)
  rcases hcase with ⟨he, _⟩ | ⟨he, hup⟩
  · exfalso; rw [he, hn] at hz; omega
  rw [he]
  -- the grid of the sum
  obtain ⟨G, hG⟩ : ∃ G, G = 2 * h * 2 ^ w := ⟨_, rfl⟩
  have hGpow : G = 2 ^ (sh + w) := by rw [hG, ← hpow, Nat.pow_add]
  have hLG : 2 * L ≤ G := by
    have : 2 ^ w ≤ h * 2 ^ w := Nat.le_mul_of_pos_left _ hh1
    rw [hG]; have e : 2 * h * 2 ^ w = 2 * (h * 2 ^ w) := by ring
    omega
  have hG0 : 0 < G := by rw [hGpow]; exact Nat.pow_pos (by decide)
  have hsum : (q + 1) * (2 * h) * 2 ^ w + L = (q + 1) * G + L := by rw [hG]; ring
  rw [hsum]
  have hprod : (q + 1) * (2 * h) * 2 ^ w = (q + 1) * G := by rw [hG]; ring
  rw [hprod]
  rcases Nat.lt_or_ge (q + 1) (2 ^ 53) with hq3 | hq3
  · -- no carry in the rounding of `top`
    have hlogn : Nat.log2 ((q + 1) * G + L) = (sh + w) + 52 := by
      apply log2_unique
      · have : 2 ^ (sh + w + 52) = 2 ^ 52 * G := by rw [hGpow, ← Nat.pow_add]; congr 1; omega
        rw [this]
        calc 2 ^ 52 * G ≤ (q + 1) * G := Nat.mul_le_mul_right _ (by omega)
          _ ≤ _ := Nat.le_add_right _ _
      · have : 2 ^ (sh + w + 52 + 1) = 2 ^ 53 * G := by rw [hGpow, ← Nat.pow_add]; congr 1; omega
        rw [this]
        calc (q + 1) * G + L < (q + 1) * G + G := by omega
          _ = (q + 2) * G := by ring
          _ ≤ 2 ^ 53 * G := Nat.mul_le_mul_right _ (by omega)
    obtain ⟨sh', q', r', h', hlog', hsh1', hpow', hh', hn', hr', hq1', hq2', hcase'⟩ :=
      rn53_cases ((q + 1) * G + L) (by omega)
    have hsheq : sh' = sh + w := by omega
    have hG' : 2 * h' = G := by rw [← hpow', hsheq, hGpow]
    rw [hG'] at hn' hr' hcase'
    obtain ⟨eq1, eq2⟩ := divmod_unique _ (q + 1) L q' r' G rfl (by omega) hn' hr'
    rcases hcase' with ⟨e1, _⟩ | ⟨e1, hup'⟩
    · rw [e1, ← eq1]
    · exfalso
      rw [← eq2, ← eq1] at hup'
      rcases hup' with hgt | ⟨heq, hodd⟩
      · omega
      · -- a tie: then h = 1, the rounding of `top` was a tie too, and `q + 1` is even
        have hh'G : h' * 2 = G := by omega
        have hw1 : h * 2 ^ w ≤ 2 ^ w := by
          have e : 2 * h * 2 ^ w = 2 * (h * 2 ^ w) := by ring
          rw [hG, e] at hh'G; omega
        have hhe : h = 1 := by
          by_contra hne
          have : 2 * 2 ^ w ≤ h * 2 ^ w := Nat.mul_le_mul_right _ (by omega)
          omega
        rcases hup with hgt | ⟨_, hqodd⟩
        · omega
        · omega
  · -- the rounding of `top` carried into the next binade: the sum is just above a power of two
    have hqe : q + 1 = 2 ^ 53 := by omega
    rw [hqe]
    have hlogn : Nat.log2 (2 ^ 53 * G + L) = (sh + w + 1) + 52 := by
      apply log2_unique
      · have : 2 ^ (sh + w + 1 + 52) = 2 ^ 53 * G := by rw [hGpow, ← Nat.pow_add]; congr 1; omega
        rw [this]; exact Nat.le_add_right _ _
      · have : 2 ^ (sh + w + 1 + 52 + 1) = 2 ^ 54 * G := by rw [hGpow, ← Nat.pow_add]; congr 1; omega
        rw [this]
        have : 2 ^ 54 * G = 2 ^ 53 * G + 2 ^ 53 * G := by ring
        have : G ≤ 2 ^ 53 * G := Nat.le_mul_of_pos_left _ (by norm_num)
        omega
    obtain ⟨sh', q', r', h', hlog', hsh1', hpow', hh', hn', hr', hq1', hq2', hcase'⟩ :=
      rn53_cases (2 ^ 53 * G + L) (by omega)
    have hsheq : sh' = sh + w + 1 := by omega
    have hG' : 2 * h' = 2 * G := by rw [← hpow', hsheq, Nat.pow_succ, hGpow]; ring
    rw [hG'] at hn' hr' hcase'
    have e53 : 2 ^ 53 * G = 2 ^ 52 * (2 * G) := by ring
    obtain ⟨eq1, eq2⟩ := divmod_unique _ (2 ^ 52) L q' r' (2 * G) (by rw [e53]) (by omega) hn' hr'
    rcases hcase' with ⟨e1, _⟩ | ⟨e1, hup'⟩
    · rw [e1, ← eq1, e53]
    · exfalso
      rw [← eq2] at hup'
      have : h' = G := by omega
      rcases hup' with hgt | ⟨heq, _⟩ <;> omega

/-! ## B. The word-by-word conversion never exceeds a representable bound of the integer -/

/-- one level of the chain `rn53 (rn53 top · 2^w + L)`: if the lower part `L` respects every representable bound of
`lower`, the result respects every representable bound of `top·2^w + lower` -/
theorem step_le_repr (top lower L w N j : Nat) (hlow : lower < 2 ^ w)
    (hL : ∀ N' j', N' ≤ 2 ^ 53 → lower ≤ N' * 2 ^ j' → L ≤ N' * 2 ^ j') (hN : N ≤ 2 ^ 53)
    (h : top * 2 ^ w + lower ≤ N * 2 ^ j) : rn53 (rn53 top * 2 ^ w + L) ≤ N * 2 ^ j := by
  have hpw : 0 < 2 ^ w := Nat.pow_pos (by decide)
  have hLW : L ≤ 2 ^ w := by
    have := hL 1 w (by norm_num) (by omega)
    omega
  rcases Nat.eq_zero_or_pos top with rfl | htop
  · rw [rn53_zero, Nat.zero_mul, Nat.zero_add]
    exact rn53_le_repr L N j hN (hL N j hN (by omega))
  rcases Nat.lt_or_ge j w with hjw | hjw
  · -- the bound has bits below 2^w: then `top` is small and exact
    obtain ⟨d, hd⟩ : ∃ d, w = j + (d + 1) := ⟨w - j - 1, by omega⟩
    have hpj : 0 < 2 ^ j := Nat.pow_pos (by decide)
    have hWj : 2 ^ w = 2 ^ (d + 1) * 2 ^ j := by rw [hd, Nat.pow_add]; ring
    have htopN : top * 2 ^ (d + 1) ≤ N := by
      have : top * 2 ^ (d + 1) * 2 ^ j ≤ N * 2 ^ j := by
        calc top * 2 ^ (d + 1) * 2 ^ j = top * 2 ^ w := by rw [hWj]; ring
          _ ≤ _ := by omega
      exact Nat.le_of_mul_le_mul_right this hpj
    have hd2 : 2 ≤ 2 ^ (d + 1) := by
      calc 2 = 2 ^ 1 := rfl
        _ ≤ 2 ^ (d + 1) := Nat.pow_le_pow_right (by decide) (by omega)
    have htop53 : top < 2 ^ 53 := by
      have : top * 2 ≤ top * 2 ^ (d + 1) := Nat.mul_le_mul_left _ hd2
      omega
    rw [rn53_small top htop53]
    apply rn53_le_repr _ N j hN
    obtain ⟨N', hN'⟩ : ∃ N', N = top * 2 ^ (d + 1) + N' := ⟨N - top * 2 ^ (d + 1), by omega⟩
    have hsplit : N * 2 ^ j = top * 2 ^ w + N' * 2 ^ j := by rw [hN', hWj]; ring
    have := hL N' j (by omega) (by omega)
    omega
  · -- the bound is a multiple of 2^w
    obtain ⟨d, hd⟩ : ∃ d, j = w + d := ⟨j - w, by omega⟩
    obtain ⟨z, hz⟩ : ∃ z, z = N * 2 ^ d := ⟨_, rfl⟩
    have hZ : N * 2 ^ j = z * 2 ^ w := by rw [hz, hd, Nat.pow_add]; ring
    rw [hZ] at h ⊢
    have htz : top ≤ z := by
      have : top * 2 ^ w ≤ z * 2 ^ w := by omega
      exact Nat.le_of_mul_le_mul_right this hpw
    have hrz : rn53 top ≤ z := by rw [hz] at htz ⊢; exact rn53_le_repr top N d hN htz
    have hrepr : ∀ S, S ≤ z * 2 ^ w → rn53 S ≤ z * 2 ^ w := by
      intro S hS
      rw [← hZ] at hS ⊢
      exact rn53_le_repr S N j hN hS
    rcases Nat.eq_zero_or_pos lower with hl0 | hl0
    · have : L = 0 := by
        have := hL 0 0 (by norm_num) (by omega)
        omega
      rw [this, Nat.add_zero]
      exact hrepr _ (Nat.mul_le_mul_right _ hrz)
    · have htz1 : top + 1 ≤ z := by
        by_contra hc
        have : z = top := by omega
        rw [this] at h; omega
      rcases Nat.lt_or_ge top (rn53 top) with hup | hdown
      · rw [round_after_up top w L hup hLW]
        exact Nat.mul_le_mul_right _ hrz
      · apply hrepr
        calc rn53 top * 2 ^ w + L ≤ top * 2 ^ w + 2 ^ w := Nat.add_le_add (Nat.mul_le_mul_right _ hdown) hLW
          _ = (top + 1) * 2 ^ w := by ring
          _ ≤ z * 2 ^ w := Nat.mul_le_mul_right _ htz1

/-- two words -/
theorem lval_le_repr (x1 x0 N j : Nat) (h0 : x0 < 2 ^ 64) (hN : N ≤ 2 ^ 53) (h : x1 * 2 ^ 64 + x0 ≤ N * 2 ^ j) :
    lval x1 x0 ≤ N * 2 ^ j :=
  step_le_repr x1 x0 (rn53 x0) 64 N j h0 (fun N' j' hN' h' => rn53_le_repr x0 N' j' hN' h') hN h

/-- three words -/
theorem lval3_le_repr (x2 x1 x0 N j : Nat) (h1 : x1 < 2 ^ 64) (h0 : x0 < 2 ^ 64) (hN : N ≤ 2 ^ 53)
    (h : x2 * 2 ^ 128 + (x1 * 2 ^ 64 + x0) ≤ N * 2 ^ j) : lval3 x2 x1 x0 ≤ N * 2 ^ j :=
  step_le_repr x2 (x1 * 2 ^ 64 + x0) (lval x1 x0) 128 N j (by omega)
    (fun N' j' hN' h' => lval_le_repr x1 x0 N' j' h0 hN' h') hN h

/-! ## C. The divisor lies below the next representable number above its float image -/

/-- a rounded number is representable -/
theorem rn53_is_repr (n : Nat) : ∃ N j, N ≤ 2 ^ 53 ∧ rn53 n = N * 2 ^ j := by
  by_cases hl : Nat.log2 n ≤ 52
  · refine ⟨n, 0, ?_, by unfold rn53; rw [if_pos hl]; simp⟩
    rcases Nat.eq_zero_or_pos n with rfl | h
    · norm_num
    · have := (Nat.log2_lt (by omega : n ≠ 0)).1 (by omega : Nat.log2 n < 53); omega
  · exact ⟨rq53 n, Nat.log2 n - 52, (rq_range n (by omega)).2, by unfold rn53; rw [if_neg hl]⟩

/-- **the divisor `Y = y1·2^64 + y0` (`y1 < 2^53`) is not above its float image `ly`, or `ly = N·2^j` with a 53-bit
significand `N` and `Y` is below the next representable number `(N + 1)·2^j`** -/
theorem divisor_below_next (y1 y0 : Nat) (h1 : y1 < 2 ^ 53) (h0 : y0 < 2 ^ 64) :
    y1 * 2 ^ 64 + y0 ≤ lval y1 y0 ∨
      ∃ N j, 2 ^ 52 ≤ N ∧ N < 2 ^ 53 ∧ lval y1 y0 = N * 2 ^ j ∧ y1 * 2 ^ 64 + y0 < (N + 1) * 2 ^ j := by
  unfold lval
  rw [rn53_small y1 h1]
  -- a generic consequence of `rn53_cases`: S < next representable above rn53 S, with room `slack` below half a step
  have key : ∀ S e, 52 < Nat.log2 S → (∀ h, 2 ^ (Nat.log2 S - 52) = 2 * h → e < h) →
      S + e ≤ rn53 S ∨ ∃ N j, 2 ^ 52 ≤ N ∧ N < 2 ^ 53 ∧ rn53 S = N * 2 ^ j ∧ S + e < (N + 1) * 2 ^ j := by
    intro S e hl he
    obtain ⟨sh, q, r, h, hlog, hsh1, hpow, hh, hn, hr, hq1, hq2, hcase⟩ := rn53_cases S hl
    have heh := he h (by rw [hlog, Nat.add_sub_cancel]; exact hpow)
    rcases hcase with ⟨e1, hdn⟩ | ⟨e1, _⟩
    · right
      refine ⟨q, sh, hq1, hq2, by rw [e1, hpow], ?_⟩
      rw [hpow, hn]
      have : (q + 1) * (2 * h) = q * (2 * h) + 2 * h := by ring
      rcases hdn with hd | ⟨hd, _⟩ <;> omega
    · rcases Nat.lt_or_ge (q + 1) (2 ^ 53) with hq3 | hq3
      · right
        refine ⟨q + 1, sh, by omega, hq3, by rw [e1, hpow], ?_⟩
        rw [hpow, hn]
        have : (q + 1 + 1) * (2 * h) = q * (2 * h) + 2 * h + 2 * h := by ring
        omega
      · right
        have hqe : q + 1 = 2 ^ 53 := by omega
        have hp1 : 2 ^ (sh + 1) = 2 * (2 * h) := by rw [Nat.pow_succ, hpow]; ring
        refine ⟨2 ^ 52, sh + 1, le_refl _, by norm_num, ?_, ?_⟩
        · rw [e1, hqe, hp1]; ring
        · rw [hp1, hn]
          have e2 : (2 ^ 52 + 1) * (2 * (2 * h)) = 2 ^ 53 * (2 * h) + 2 * (2 * h) := by ring
          have e3 : (q + 1) * (2 * h) = q * (2 * h) + 2 * h := by ring
          rw [hqe] at e3
          rw [e2]
          generalize q * (2 * h) = A at *
          generalize 2 ^ 53 * (2 * h) = B at *
          omega
  rcases Nat.eq_zero_or_pos y1 with rfl | hy1
  · -- one word: a single rounding
    rw [Nat.zero_mul, Nat.zero_add, Nat.zero_add, rn53_idem]
    by_cases hl : Nat.log2 y0 ≤ 52
    · left; unfold rn53; rw [if_pos hl]
    · have := key y0 0 (by omega) (fun h hh => by
        have : 0 < 2 ^ (Nat.log2 y0 - 52) := Nat.pow_pos (by decide)
        omega)
      simpa using this
  · -- two words: the rounding error of the low word is below 2^10, half a grid step of the sum is at least 2^11
    have hB := rn53_le_pow y0 64 h0
    obtain ⟨e, he⟩ : ∃ e, e = y0 - rn53 y0 := ⟨_, rfl⟩
    have he10 : e ≤ 2 ^ 10 := by
      by_cases hl : 53 ≤ Nat.log2 y0
      · have := (rn53_abs y0 hl).2
        have hlt : Nat.log2 y0 < 64 := (Nat.log2_lt (by
          intro h; rw [h] at hl; simp [Nat.log2] at hl)).2 h0
        have : 2 ^ (Nat.log2 y0 - 53) ≤ 2 ^ 10 := Nat.pow_le_pow_right (by decide) (by omega)
        omega
      · have : rn53 y0 = y0 := by unfold rn53; rw [if_pos (by omega)]
        omega
    have hYS : y1 * 2 ^ 64 + y0 ≤ y1 * 2 ^ 64 + rn53 y0 + e := by omega
    have hS0 : y1 * 2 ^ 64 + rn53 y0 ≠ 0 := by omega
    have hL64 : 64 ≤ Nat.log2 (y1 * 2 ^ 64 + rn53 y0) := (Nat.le_log2 hS0).2 (by omega)
    have := key (y1 * 2 ^ 64 + rn53 y0) e (by omega) (fun h hh => by
      have : 2 ^ 12 ≤ 2 ^ (Nat.log2 (y1 * 2 ^ 64 + rn53 y0) - 52) := Nat.pow_le_pow_right (by decide) (by omega)
      omega)
    rcases this with hle | ⟨N, j, a, b, c, d⟩
    · left; exact le_trans hYS hle
    · right; exact ⟨N, j, a, b, c, lt_of_le_of_lt hYS d⟩

/-! ## D. The corner margin -/

/-- **the float-margin fact of the corner of `bid___div_256_by_128`**: whenever the integer dividend (three words) is
below `2^100` times the divisor (two words, high word below `2^53`), their float images satisfy
`lx ≤ (2^100 + 2^48)·ly` — so the rounded quotient cannot reach `2^100 + 2^49`. -/
theorem corner_margin (x2 x1 x0 y1 y0 : Nat) (h1 : x1 < 2 ^ 64) (h0 : x0 < 2 ^ 64) (g1 : y1 < 2 ^ 53) (g0 : y0 < 2 ^ 64)
    (hlt : x2 * 2 ^ 128 + (x1 * 2 ^ 64 + x0) < 2 ^ 100 * (y1 * 2 ^ 64 + y0)) :
    lval3 x2 x1 x0 ≤ (2 ^ 52 + 1) * 2 ^ 48 * lval y1 y0 := by
  have e : ((2 : Nat) ^ 52 + 1) * 2 ^ 48 = 2 ^ 100 + 2 ^ 48 := by norm_num
  rw [e]
  rcases divisor_below_next y1 y0 g1 g0 with hle | ⟨N, j, a, b, c, d⟩
  · -- the divisor was not rounded down
    obtain ⟨N, j, hN, hrep⟩ : ∃ N j, N ≤ 2 ^ 53 ∧ lval y1 y0 = N * 2 ^ j := by unfold lval; exact rn53_is_repr _
    have hb : x2 * 2 ^ 128 + (x1 * 2 ^ 64 + x0) ≤ N * 2 ^ (j + 100) := by
      calc x2 * 2 ^ 128 + (x1 * 2 ^ 64 + x0) ≤ 2 ^ 100 * (y1 * 2 ^ 64 + y0) := Nat.le_of_lt hlt
        _ ≤ 2 ^ 100 * lval y1 y0 := Nat.mul_le_mul_left _ hle
        _ = N * 2 ^ (j + 100) := by rw [hrep, Nat.pow_add]; ring
    have := lval3_le_repr x2 x1 x0 N (j + 100) h1 h0 hN hb
    calc lval3 x2 x1 x0 ≤ N * 2 ^ (j + 100) := this
      _ = 2 ^ 100 * lval y1 y0 := by rw [hrep, Nat.pow_add]; ring
      _ ≤ (2 ^ 100 + 2 ^ 48) * lval y1 y0 := Nat.mul_le_mul_right _ (by norm_num)
  · -- the divisor is below the next representable number above its image
    have hb : x2 * 2 ^ 128 + (x1 * 2 ^ 64 + x0) ≤ (N + 1) * 2 ^ (j + 100) := by
      calc x2 * 2 ^ 128 + (x1 * 2 ^ 64 + x0) ≤ 2 ^ 100 * (y1 * 2 ^ 64 + y0) := Nat.le_of_lt hlt
        _ ≤ 2 ^ 100 * ((N + 1) * 2 ^ j) := Nat.mul_le_mul_left _ (Nat.le_of_lt d)
        _ = (N + 1) * 2 ^ (j + 100) := by rw [Nat.pow_add]; ring
    have := lval3_le_repr x2 x1 x0 (N + 1) (j + 100) h1 h0 (by omega) hb
    rw [c]
    have e5 : 2 ^ 100 * 2 ^ j ≤ 2 ^ 48 * (N * 2 ^ j) := by
      calc 2 ^ 100 * 2 ^ j = 2 ^ 48 * (2 ^ 52 * 2 ^ j) := by ring
        _ ≤ 2 ^ 48 * (N * 2 ^ j) := Nat.mul_le_mul_left _ (Nat.mul_le_mul_right _ a)
    calc lval3 x2 x1 x0 ≤ (N + 1) * 2 ^ (j + 100) := this
      _ = 2 ^ 100 * (N * 2 ^ j) + 2 ^ 100 * 2 ^ j := by rw [Nat.pow_add]; ring
      _ ≤ 2 ^ 100 * (N * 2 ^ j) + 2 ^ 48 * (N * 2 ^ j) := Nat.add_le_add_left e5 _
      _ = _ := by ring


/-! ## E. `bid___div_256_by_128` without residual hypothesis -/

/-- the corner hypothesis of `div_256_by_128_exact`, for all operands -/
theorem corner_ok (X : U256) (Y : U128) (hY : Y.toNat' < 2 ^ 113) :
    X.toNat' < 2 ^ 192 → X.toNat' < 2 ^ 51 * (2 ^ 49 * Y.toNat') → (2 ^ 51 - 1) * (2 ^ 49 * Y.toNat') ≤ X.toNat' →
      lval3 X.w2.toNat X.w1.toNat X.w0.toNat ≤ (2 ^ 52 + 1) * 2 ^ 48 * lval Y.w1.toNat Y.w0.toNat := by
  intro h192 hlt _
  have hYv : Y.toNat' = Y.w0.toNat + 2 ^ 64 * Y.w1.toNat := rfl
  have hXv : X.toNat' = X.w0.toNat + 2 ^ 64 * X.w1.toNat + 2 ^ 128 * X.w2.toNat + 2 ^ 192 * X.w3.toNat := rfl
  have h0 := X.w0.toNat_lt; have h1 := X.w1.toNat_lt; have g0 := Y.w0.toNat_lt
  apply corner_margin _ _ _ _ _ h1 h0 (by omega) g0
  omega

/-- **`bid___div_256_by_128` (repaired source) is exact** on the domain of `bid128_div`: divisor `0 < Y < 2^113`, quotient
below `2^113 − 2^62`, accumulated quotient fitting 128 bits.  No residual hypothesis. -/
theorem div_256_by_128_exact' (CQ : U128) (X : U256) (Y : U128)
    (hY0 : 0 < Y.toNat') (hY : Y.toNat' < 2 ^ 113)
    (hQ : X.toNat' < (2 ^ 53 - 4) * (2 ^ 60 * Y.toNat'))
    (hfit : CQ.toNat' + X.toNat' / Y.toNat' < 2 ^ 128) :
    ∃ Q R, bid___div_256_by_128 CQ X Y = .ok (Q, R) ∧ Q.toNat' = CQ.toNat' + X.toNat' / Y.toNat' ∧
      R.w0.toNat + 2 ^ 64 * R.w1.toNat = X.toNat' % Y.toNat' ∧ R.w2 = X.w2 ∧ R.w3 = X.w3 :=
  div_256_by_128_exact CQ X Y hY0 hY hQ hfit (corner_ok X Y hY)

-- the corner itself: dividend (2^100 − 1)·Y + (Y − 1) with Y = 2^64 + 2^12 + 1 (a divisor that is rounded down)
example : bid___div_256_by_128 ⟨0, 0⟩ ⟨18446744073709551615, 281543696187391, 68719476736, 0⟩ ⟨4097, 1⟩
    = .ok (⟨18446744073709551615, 68719476735⟩, ⟨4096, 1, 68719476736, 0⟩) := by decide +kernel

end Dec.C01GenDiv256
