/-
  C02GenFmaWrap — the CALLERS of `bid_add_and_round` in the fused multiply-add `bid128_ext_fma` (bid128_fma.rs), as translated
  in `DecGen/Code.lean`, with the correctness of `bid_add_and_round` as ONE named hypothesis:
    * Cases (15), (16), (17) (`delta < 0` side; Rust lines 3981–4003 at the present HEAD): `case1517K`;
    * the `else` arm of Cases (2)–(6), taken when `delta <= 1 && p_sign != z_sign` (Rust lines 3218–3267): the swap "from
      Case (6)" or `delta = -delta`, then the call: `arm26K`.
  Both are literal copies of the translated text (parameters = live variables); `case1517K_eq`, `arm26K_eq`: they ARE the call
  (on the swapped variables / with `−delta`).

  THE HYPOTHESIS.  `AarSpec : Prop` is, binder for binder, the planned final theorem `Dec.C02GenFmaLow.add_and_round_spec` of
  C02GenFmaLow.lean (agreed with its author), so that `AarSpec` is discharged by importing that file: for sign words
  `sz`/`sp`, `p34 = 34`, `e4 = E ∈ [−10^6, 6111]`, `sc = q4 − delta − q3 ≤ 68` (as the routine computes its `scale`), `C4 > 0`,
  `C3·10^sc < 10^69`, `C4 < 10^69` and — only when the signs agree — `C3·10^sc + C4 < 10^69`:
      bid_add_and_round … = .ok (ofBits (encode D.1), indicators, f ||| UInt32.ofNat D.2),
      D = addFin (modeOf m) sp C4 E sz C3 (E + sc) E.
  (The sum bound is asked for equal signs only because the arm needs it so: x = y = (10^34 − 1)E0, z = −99E67 reaches the arm
  with `C3·10^67 + C4 > 10^69`; the last example of the file.)

  THEOREMS (all `(haar : AarSpec) → …`).
    * `case1517_spec` / `case1517_fma`: under the entry invariant and the code's test `cond1517`, Cases (15)–(17) return `.ok` of
      the encoding of `addFin` (product, addend), preferred exponent `e4 = e1 + e2` (`= min`, because the test gives
      `e4 ≤ e3`: `cond1517_imp`), some indicators, `f ||| flags` — `= fmaD`.
    * `arm_iff`: past Case (1) and `p34 == delta`, with at most 34 digits in the place of the addend, the five-way test of
      Cases (2)–(6) always holds, so the arm is taken exactly when `delta ≤ 1` and the signs differ.
    * `arm26_spec`: the arm, for the SYMMETRIC invariant (it is reached in the first pass and, after the swap of Cases
      (9), (10), (13), (14), (18), in the second pass with the roles exchanged): both terms non-zero, `q3 ≤ 34`, `q4 ≤ 68`,
      exponents in `[−12352, 12222]` with the smaller one `≤ 6111`, `delta = q3 + e3 − q4 − e4 ∈ {0, 1}`, signs different:
      returns the encoding of `addFin` of the two terms with preferred exponent `min(e3, e4)` and `f ||| flags`.
      `arm26_fma` (first pass) and `arm26_fma_swapped` (second pass: product in `C3`, addend in `C4`): `= fmaD`.
    * "Note: overlow is not possible in this case" (source comment at the arm):
        - REFUTED for the arm as a whole — `arm_overflow_witness`: x = 2E3072, y = 1E3073, z = −99·10^32 E6111 (= −9.9E6144),
          nearest-even: Case (9), swap, Case (2) with `delta = 1` and opposite signs, the arm; the exact sum 1.01·10^6145
          overflows.  NOT a defect: `bid_add_and_round` has its own overflow handling, the routine returns +Inf with
          overflow|inexact (toward zero: the largest finite number, overflow|inexact) = the model (`decide +kernel` through
          `bid128_fma`).  The comment is wrong, the code is right.
        - what is true: `arm_no_overflow` — if the term in the place of the addend is below `10^6145` (`q3 + e3 ≤ 6145`; always
          in the first pass, where it IS the addend), the model's sum cannot overflow (the difference is below
          0.99·10^6145): `finish_no_overflow`.
    * Cases (11), (12) are NOT callers of `bid_add_and_round` and are not treated here: their tail (Rust 3590–3980) is a
      different text from the routine's (the indicators of the first rounding of `C3` are merged in before the exponent
      tests; different order of the underflow / correction steps; an extra `gt_half_ulp`), so `AarSpec` does not apply to it;
      it needs its own proof (on the arithmetic of `two_step` / `half_step` of C02GenFmaLow).
-/
import DecGen.Code
import DecModel.Arith
import DecProofs.Properties.C01GenArith
import DecProofs.Properties.C02GenCorrection
import DecProofs.Properties.C02GenFmaSwap
import DecProofs.Core.FinishUnique
import Mathlib.Tactic.Ring
import Mathlib.Tactic.Linarith
import Mathlib.Tactic.NormNum

set_option linter.unusedVariables false

namespace Dec.C02GenFmaWrap
open Dec Dec.Rs Dec.Gen.Code
open Dec.C02GenCorrection (ofBits modeOf)
open Dec.C02GenRound (v128 v256)
open Dec.C02GenFmaSwap (sgnW addFin_comm swap_coeff mid26 i34)
open Dec.C08GenRoundIntegral (i32_add i32_sub i32_neg)

/-! ## 0. The one hypothesis: correctness of `bid_add_and_round` -/

/-- **`AarSpec`** — the specification of `bid_add_and_round` (bid128_fma.rs lines 241–664), the planned final theorem
`Dec.C02GenFmaLow.add_and_round_spec` of C02GenFmaLow.lean (statement agreed with its author; the bound on the operands is
asked for the SUM only when the signs agree — the `delta <= 1` arm subtracts a `C3·10^scale` that can have 69 digits from a
68-digit `C4`): the routine returns the encoding of the model's `addFin` of `± C4·10^E` and `± C3·10^(E+sc)`,
`sc = q4 − delta − q3` (as the code computes it), preferred exponent `E`, some indicators, and the model's flags or-ed into
the status word. -/
def AarSpec : Prop :=
  ∀ (q3 q4 e4 delta p34 : Int32) (z_sign p_sign : UInt64) (C3 : U128) (C4 : U256) (m : RoundingMode)
    (b1 b2 b3 b4 : Bool) (f : UInt32) (sz sp : Bool)
    (hzs : z_sign = if sz = true then (0x8000000000000000 : UInt64) else 0)
    (hps : p_sign = if sp = true then (0x8000000000000000 : UInt64) else 0)
    (hp34 : p34 = 34)
    (E : Int) (he4 : e4.toInt = E) (hElo : -1000000 ≤ E) (hEhi : E ≤ 6111)
    (sc : Nat) (hsc : ((q4 - delta) - q3).toInt = (sc : Int)) (hsc2 : sc ≤ 68)
    (hC4 : 0 < C4.toNat')
    (hA : C3.toNat' * 10 ^ sc < 10 ^ 69) (hB : C4.toNat' < 10 ^ 69)
    (hN : sz = sp → C3.toNat' * 10 ^ sc + C4.toNat' < 10 ^ 69),
    ∃ i : Dec.RH.Ind,
      bid_add_and_round q3 q4 e4 delta p34 z_sign p_sign C3 C4 m b1 b2 b3 b4 f =
        .ok (ofBits (encode (addFin (modeOf m) sp C4.toNat' E sz C3.toNat' (E + sc) E).1),
             i.midLtEven, i.midGtEven, i.inexLtMid, i.inexGtMid,
             f ||| UInt32.ofNat (addFin (modeOf m) sp C4.toNat' E sz C3.toNat' (E + sc) E).2)

/-! ## 1. The text of the two call sites -/

/-- the test of Cases (15), (16), (17), literally -/
def cond1517 (q3 q4 delta p34 : Int32) : Bool :=
  (((((decide (p34 ≤ delta)) && (decide ((delta + q3) ≤ q4)))) || ((((decide (delta < p34)) && (decide (p34 < (delta + q3)))) && (decide ((delta + q3) ≤ q4))))) || (((decide ((delta + q3) ≤ p34)) && (decide (p34 < q4)))))

/-- Cases (15)–(17) (Rust lines 3981–4003 at the present HEAD): the call and the return, literally -/
def case1517K (q3 q4 e4 delta p34 : Int32) (z_sign p_sign : UInt64) (C3 : U128) (C4 : U256) (rnd_mode : RoundingMode)
    (is_midpoint_lt_even_ is_midpoint_gt_even_ is_inexact_lt_midpoint_ is_inexact_gt_midpoint_ : Bool)
    (pfpsf_ : UInt32) : Except String (U128 × Bool × Bool × Bool × Bool × UInt32) := do
  let mut is_midpoint_lt_even : Bool := is_midpoint_lt_even_
  let mut is_midpoint_gt_even : Bool := is_midpoint_gt_even_
  let mut is_inexact_lt_midpoint : Bool := is_inexact_lt_midpoint_
  let mut is_inexact_gt_midpoint : Bool := is_inexact_gt_midpoint_
  let mut pfpsf : UInt32 := pfpsf_
  let mut res : U128 := default
  let mut ptr_is_midpoint_lt_even : Bool := default
  let mut ptr_is_midpoint_gt_even : Bool := default
  let mut ptr_is_inexact_lt_midpoint : Bool := default
  let mut ptr_is_inexact_gt_midpoint : Bool := default
  let t__69 ← bid_add_and_round q3 q4 e4 delta p34 z_sign p_sign C3 C4 rnd_mode is_midpoint_lt_even is_midpoint_gt_even is_inexact_lt_midpoint is_inexact_gt_midpoint pfpsf
  is_midpoint_lt_even := t__69.2.1
  is_midpoint_gt_even := t__69.2.2.1
  is_inexact_lt_midpoint := t__69.2.2.2.1
  is_inexact_gt_midpoint := t__69.2.2.2.2.1
  pfpsf := t__69.2.2.2.2.2
  res := t__69.1
  ptr_is_midpoint_lt_even := is_midpoint_lt_even
  ptr_is_midpoint_gt_even := is_midpoint_gt_even
  ptr_is_inexact_lt_midpoint := is_inexact_lt_midpoint
  ptr_is_inexact_gt_midpoint := is_inexact_gt_midpoint
  return (res, ptr_is_midpoint_lt_even, ptr_is_midpoint_gt_even, ptr_is_inexact_lt_midpoint, ptr_is_inexact_gt_midpoint, pfpsf)

/-- the `else` arm of Cases (2)–(6) — `delta <= 1` and opposite signs — (Rust lines 3218–3267): the swap "from Case (6)" or
the change of sign of `delta`, the call and the return, literally -/
def arm26K (q3_ q4_ e3_ e4_ delta_ p34 : Int32) (z_sign_ p_sign_ : UInt64) (C3_ : U128) (C4_ : U256) (rnd_mode : RoundingMode)
    (is_midpoint_lt_even_ is_midpoint_gt_even_ is_inexact_lt_midpoint_ is_inexact_gt_midpoint_ : Bool)
    (pfpsf_ : UInt32) : Except String (U128 × Bool × Bool × Bool × Bool × UInt32) := do
  let mut q3 : Int32 := q3_
  let mut q4 : Int32 := q4_
  let mut e3 : Int32 := e3_
  let mut e4 : Int32 := e4_
  let mut delta : Int32 := delta_
  let mut z_sign : UInt64 := z_sign_
  let mut p_sign : UInt64 := p_sign_
  let mut C3 : U128 := C3_
  let mut C4 : U256 := C4_
  let mut is_midpoint_lt_even : Bool := is_midpoint_lt_even_
  let mut is_midpoint_gt_even : Bool := is_midpoint_gt_even_
  let mut is_inexact_lt_midpoint : Bool := is_inexact_lt_midpoint_
  let mut is_inexact_gt_midpoint : Bool := is_inexact_gt_midpoint_
  let mut pfpsf : UInt32 := pfpsf_
  let mut res : U128 := default
  let mut P128 : U128 := default
  let mut ind : Int32 := default
  let mut tmp_sign : UInt64 := default
  let mut ptr_is_midpoint_lt_even : Bool := default
  let mut ptr_is_midpoint_gt_even : Bool := default
  let mut ptr_is_inexact_lt_midpoint : Bool := default
  let mut ptr_is_inexact_gt_midpoint : Bool := default
  if (decide ((delta + q4) < q3)) then
    P128 := { P128 with w1 := C3.w1 }
    P128 := { P128 with w0 := C3.w0 }
    C3 := { C3 with w1 := C4.w1 }
    C3 := { C3 with w0 := C4.w0 }
    C4 := { C4 with w1 := P128.w1 }
    C4 := { C4 with w0 := P128.w0 }
    ind := q3
    q3 := q4
    q4 := ind
    ind := e3
    e3 := e4
    e4 := ind
    tmp_sign := z_sign
    z_sign := p_sign
    p_sign := tmp_sign
  else
    delta := (-delta)
  let t__49 ← bid_add_and_round q3 q4 e4 delta p34 z_sign p_sign C3 C4 rnd_mode is_midpoint_lt_even is_midpoint_gt_even is_inexact_lt_midpoint is_inexact_gt_midpoint pfpsf
  is_midpoint_lt_even := t__49.2.1
  is_midpoint_gt_even := t__49.2.2.1
  is_inexact_lt_midpoint := t__49.2.2.2.1
  is_inexact_gt_midpoint := t__49.2.2.2.2.1
  pfpsf := t__49.2.2.2.2.2
  res := t__49.1
  ptr_is_midpoint_lt_even := is_midpoint_lt_even
  ptr_is_midpoint_gt_even := is_midpoint_gt_even
  ptr_is_inexact_lt_midpoint := is_inexact_lt_midpoint
  ptr_is_inexact_gt_midpoint := is_inexact_gt_midpoint
  return (res, ptr_is_midpoint_lt_even, ptr_is_midpoint_gt_even, ptr_is_inexact_lt_midpoint, ptr_is_inexact_gt_midpoint, pfpsf)

/-- the six components of a result, put together again -/
theorem eta6 (R : Except String (U128 × Bool × Bool × Bool × Bool × UInt32)) :
    (R.bind fun t => .ok (t.1, t.2.1, t.2.2.1, t.2.2.2.1, t.2.2.2.2.1, t.2.2.2.2.2)) = R := by
  cases R with
  | error e => rfl
  | ok t => rfl

/-- Cases (15)–(17) ARE the call -/
theorem case1517K_eq (q3 q4 e4 delta p34 : Int32) (z_sign p_sign : UInt64) (C3 : U128) (C4 : U256) (m : RoundingMode)
    (a b c d : Bool) (f : UInt32) :
    case1517K q3 q4 e4 delta p34 z_sign p_sign C3 C4 m a b c d f =
      bid_add_and_round q3 q4 e4 delta p34 z_sign p_sign C3 C4 m a b c d f :=
  eta6 _

/-- the arm IS the call, on the swapped variables or with `−delta` -/
theorem arm26K_eq (q3 q4 e3 e4 delta p34 : Int32) (z_sign p_sign : UInt64) (C3 : U128) (C4 : U256) (m : RoundingMode)
    (a b c d : Bool) (f : UInt32) :
    arm26K q3 q4 e3 e4 delta p34 z_sign p_sign C3 C4 m a b c d f =
      if decide ((delta + q4) < q3) = true then
        bid_add_and_round q4 q3 e3 delta p34 p_sign z_sign ⟨C4.w0, C4.w1⟩ ⟨C3.w0, C3.w1, C4.w2, C4.w3⟩ m a b c d f
      else bid_add_and_round q3 q4 e4 (-delta) p34 z_sign p_sign C3 C4 m a b c d f := by
  unfold arm26K
  by_cases h : decide ((delta + q4) < q3) = true
  · simp only [h, if_true]; exact eta6 _
  · simp only [h, if_false, Bool.false_eq_true]; exact eta6 _

/-! ## 2. Cases (15)–(17) -/

theorem sgnW_eq (s : Bool) : sgnW s = if s = true then (0x8000000000000000 : UInt64) else 0 := rfl

theorem pow_mul_lt (c q sc n : Nat) (hc : c < 10 ^ q) (h : q + sc ≤ n) : c * 10 ^ sc < 10 ^ n := by
  calc c * 10 ^ sc < 10 ^ q * 10 ^ sc := Nat.mul_lt_mul_of_pos_right hc (Nat.pow_pos (by decide))
    _ = 10 ^ (q + sc) := (Nat.pow_add ..).symm
    _ ≤ 10 ^ n := Nat.pow_le_pow_right (by decide) h

/-- what the test of Cases (15)–(17) says: the addend lies inside the digits of a product of more than 34 digits -/
theorem cond1517_imp (q3 q4 delta : Int32) (h3 : 1 ≤ q3.toInt) (h3' : q3.toInt ≤ 34) (h4' : q4.toInt ≤ 68)
    (hd : 0 ≤ delta.toInt) (hd' : delta.toInt < 2^19) (h : cond1517 q3 q4 delta 34 = true) :
    delta.toInt + q3.toInt ≤ q4.toInt ∧ 34 < q4.toInt := by
  have a : (delta + q3).toInt = delta.toInt + q3.toInt := i32_add _ _ ⟨by omega, by omega⟩ ⟨by omega, by omega⟩
  simp only [cond1517, Bool.or_eq_true, Bool.and_eq_true, decide_eq_true_eq, Int32.le_iff_toInt_le, Int32.lt_iff_toInt_lt, a,
    i34] at h
  omega

/-- **Cases (15), (16), (17) — block specification**, given `AarSpec`.
ENTRY: the invariant of the case blocks (first pass, `delta` negated): `C3` the addend's coefficient (`< 10^q3`, `q3 ≤ 34`,
exponent `e3`), `C4 ≠ 0` the exact product (`< 10^q4`, `q4 ≤ 68`, exponent `e4`), `delta = q4 + e4 − q3 − e3`; the code's test
`cond1517`.  Then the block returns the encoding of the model's sum (preferred exponent `e4 = min(e3, e4)`), some
indicators, and the model's flags or-ed into the status word. -/
theorem case1517_spec (haar : AarSpec) (m : RoundingMode) (f : UInt32) (ps zs : Bool) (C3 : U128) (C4 : U256)
    (q3n q4n : Nat) (e3 e4 : Int) (q3 q4 e4w delta : Int32) (b1 b2 b3 b4 : Bool)
    (hq3w : q3.toInt = q3n) (hq4w : q4.toInt = q4n)
    (hq3 : 1 ≤ q3n) (hq3' : q3n ≤ 34) (hc3 : v128 C3 < 10 ^ q3n)
    (hq4' : q4n ≤ 68) (hc4lo : 0 < v256 C4) (hc4 : v256 C4 < 10 ^ q4n)
    (he3' : e3 ≤ 6111) (he4 : -12352 ≤ e4)
    (hew : e4w.toInt = e4) (hdelta : delta.toInt = q4n + e4 - q3n - e3) (hd0 : 0 ≤ delta.toInt) (hd1 : delta.toInt < 2^19)
    (hcond : cond1517 q3 q4 delta 34 = true) :
    ∃ lt gt ilt igt : Bool,
      case1517K q3 q4 e4w delta 34 (sgnW zs) (sgnW ps) C3 C4 m b1 b2 b3 b4 f =
        .ok (ofBits (encode (addFin (modeOf m) ps (v256 C4) e4 zs (v128 C3) e3 e4).1), lt, gt, ilt, igt,
             f ||| UInt32.ofNat (addFin (modeOf m) ps (v256 C4) e4 zs (v128 C3) e3 e4).2) := by
  obtain ⟨c1, c2⟩ := cond1517_imp q3 q4 delta (by omega) (by omega) (by omega) hd0 hd1 hcond
  rw [hq3w, hq4w] at c1
  rw [hq4w] at c2
  obtain ⟨sc, hscI⟩ : ∃ sc : Nat, e3 - e4 = sc := ⟨(e3 - e4).toNat, by omega⟩
  have hsc : ((q4 - delta) - q3).toInt = (sc : Int) := by
    have a : (q4 - delta).toInt = q4n - delta.toInt :=
      by rw [i32_sub _ _ ⟨by omega, by omega⟩ ⟨by omega, by omega⟩, hq4w]
    rw [i32_sub _ _ ⟨by omega, by omega⟩ ⟨by omega, by omega⟩, a, hq3w]; omega
  have hqs : q3n + sc ≤ 68 := by omega
  obtain ⟨i, hi⟩ := haar q3 q4 e4w delta 34 (sgnW zs) (sgnW ps) C3 C4 m b1 b2 b3 b4 f zs ps rfl rfl rfl e4 hew (by omega)
    (by omega) sc hsc (by omega) hc4lo (pow_mul_lt _ _ _ 69 hc3 (by omega))
    (lt_of_lt_of_le hc4 (Nat.pow_le_pow_right (by decide) (by omega)))
    (fun _ => by
      have a := pow_mul_lt _ _ _ 68 hc3 hqs
      have b : v256 C4 < 10 ^ 68 := lt_of_lt_of_le hc4 (Nat.pow_le_pow_right (by decide) hq4')
      have : (10:Nat) ^ 69 = 10 * 10 ^ 68 := by rw [Nat.pow_succ]; omega
      show v128 C3 * 10 ^ sc + v256 C4 < 10 ^ 69
      omega)
  rw [case1517K_eq, hi, show e4 + (sc : Int) = e3 by omega]
  exact ⟨_, _, _, _, rfl⟩

/-- the same against `fmaD` -/
theorem case1517_fma (haar : AarSpec) (m : RoundingMode) (f : UInt32) (s1 s2 s3 : Bool) (c1 c2 : Nat) (e1 e2 : Int)
    (C3 : U128) (C4 : U256) (q3n q4n : Nat) (e3 : Int) (q3 q4 e4w delta : Int32) (b1 b2 b3 b4 : Bool)
    (hq3w : q3.toInt = q3n) (hq4w : q4.toInt = q4n)
    (hq3 : 1 ≤ q3n) (hq3' : q3n ≤ 34) (hc3 : v128 C3 < 10 ^ q3n)
    (hq4' : q4n ≤ 68) (hprod : v256 C4 = c1 * c2) (hc4lo : 0 < c1 * c2) (hc4 : c1 * c2 < 10 ^ q4n)
    (he3' : e3 ≤ 6111) (he4 : -12352 ≤ e1 + e2)
    (hew : e4w.toInt = e1 + e2) (hdelta : delta.toInt = q4n + (e1 + e2) - q3n - e3) (hd0 : 0 ≤ delta.toInt)
    (hd1 : delta.toInt < 2^19) (hcond : cond1517 q3 q4 delta 34 = true) :
    ∃ lt gt ilt igt : Bool,
      case1517K q3 q4 e4w delta 34 (sgnW s3) (sgnW (s1 != s2)) C3 C4 m b1 b2 b3 b4 f =
        .ok (ofBits (encode (fmaD (modeOf m) false (.fin s1 c1 e1) (.fin s2 c2 e2) (.fin s3 (v128 C3) e3)).1), lt, gt, ilt, igt,
             f ||| UInt32.ofNat (fmaD (modeOf m) false (.fin s1 c1 e1) (.fin s2 c2 e2) (.fin s3 (v128 C3) e3)).2) := by
  obtain ⟨c1', c2'⟩ := cond1517_imp q3 q4 delta (by omega) (by omega) (by omega) hd0 hd1 hcond
  have hle : e1 + e2 ≤ e3 := by rw [hq3w, hq4w] at c1'; omega
  have h := case1517_spec haar m f (s1 != s2) s3 C3 C4 q3n q4n e3 (e1 + e2) q3 q4 e4w delta b1 b2 b3 b4 hq3w hq4w hq3 hq3' hc3
    hq4' (by rw [hprod]; exact hc4lo) (by rw [hprod]; exact hc4) he3' he4 hew hdelta hd0 hd1 hcond
  rw [hprod] at h
  have hf : fmaD (modeOf m) false (.fin s1 c1 e1) (.fin s2 c2 e2) (.fin s3 (v128 C3) e3) =
      addFin (modeOf m) (s1 != s2) (c1 * c2) (e1 + e2) s3 (v128 C3) e3 (e1 + e2) := by
    show addFin (modeOf m) (s1 != s2) (c1 * c2) (e1 + e2) s3 (v128 C3) e3 (if e1 + e2 ≤ e3 then e1 + e2 else e3) false = _
    rw [if_pos hle]
  rw [hf]
  exact h

/-! ## 3. The `delta <= 1`, opposite signs arm of Cases (2)–(6) -/

/-- the test of Cases (2)–(6), literally; the arm is its `else` -/
def midTest (q3 q4 delta p34 : Int32) (p_sign z_sign : UInt64) : Bool :=
  ((((((((((decide (q3 ≤ delta)) && (decide (delta < p34))) && (decide (p34 < (delta + q4))))) || (((decide (q3 ≤ delta)) && (decide ((delta + q4) ≤ p34))))) || (((decide (delta < q3)) && (decide (p34 < (delta + q4)))))) || ((((decide (delta < q3)) && (decide (q3 ≤ (delta + q4)))) && (decide ((delta + q4) ≤ p34))))) || ((decide ((delta + q4) < q3))))) && (!(((decide (delta ≤ (1 : Int32))) && (p_sign != z_sign)))))

theorem midTest_eq (q3 q4 delta p34 : Int32) (p_sign z_sign : UInt64) :
    midTest q3 q4 delta p34 p_sign z_sign =
      (mid26 q3 q4 delta p34 && !((decide (delta ≤ (1 : Int32))) && (p_sign != z_sign))) := rfl

theorem sgnW_bne (a b : Bool) : (sgnW a != sgnW b) = (a != b) := by cases a <;> cases b <;> rfl

/-- **when the arm is taken**: on the `delta ≥ 0` side, past Case (1) and `p34 == delta` (so `delta < 34`), with an "addend" of
at most 34 digits, the five-way test of Cases (2)–(6) always holds, so the `else` arm is taken exactly when `delta ≤ 1` and the
signs differ -/
theorem arm_iff (q3 q4 delta : Int32) (ps zs : Bool) (h3 : 1 ≤ q3.toInt) (h3' : q3.toInt ≤ 34) (h4 : 1 ≤ q4.toInt)
    (h4' : q4.toInt ≤ 68) (hd : 0 ≤ delta.toInt) (hd' : delta.toInt < 34) :
    midTest q3 q4 delta 34 (sgnW ps) (sgnW zs) = false ↔ (delta.toInt ≤ 1 ∧ ps ≠ zs) := by
  have a : (delta + q4).toInt = delta.toInt + q4.toInt := i32_add _ _ ⟨by omega, by omega⟩ ⟨by omega, by omega⟩
  have hm : mid26 q3 q4 delta 34 = true := by
    simp only [mid26, Bool.or_eq_true, Bool.and_eq_true, decide_eq_true_eq, Int32.le_iff_toInt_le, Int32.lt_iff_toInt_lt, a, i34]
    omega
  rw [midTest_eq, hm, Bool.true_and, sgnW_bne, Bool.not_eq_false', Bool.and_eq_true, decide_eq_true_eq, Int32.le_iff_toInt_le,
    show (1 : Int32).toInt = 1 from rfl, bne_iff_ne]

theorem lt_i32 (a b : Int32) : decide (a < b) = decide (a.toInt < b.toInt) := by
  rw [decide_eq_decide, Int32.lt_iff_toInt_lt]

/-- **the arm — block specification**, given `AarSpec`.
ENTRY (first OR second pass of the loop, so the roles may have been exchanged by the swap): two terms, `C3` (`< 10^q3`,
`q3 ≤ 34`, exponent `e3`, sign `zs`) and `C4` (`< 10^q4`, `q4 ≤ 68`, exponent `e4`, sign `ps`), both non-zero, exponents anywhere
in `[−12352, 12222]` with the smaller one at most 6111 (one of the two terms is the addend `z`), `delta = q3 + e3 − q4 − e4`;
the arm's condition `0 ≤ delta ≤ 1`, `ps ≠ zs` (`arm_iff`).  Then the arm returns the encoding of the model's sum with preferred
exponent `min(e3, e4)`, some indicators, and the model's flags or-ed into the status word — overflow included. -/
theorem arm26_spec (haar : AarSpec) (m : RoundingMode) (f : UInt32) (ps zs : Bool) (C3 : U128) (C4 : U256)
    (q3n q4n : Nat) (e3 e4 : Int) (q3 q4 e3w e4w delta : Int32) (b1 b2 b3 b4 : Bool)
    (hq3w : q3.toInt = q3n) (hq4w : q4.toInt = q4n)
    (hq3 : 1 ≤ q3n) (hq3' : q3n ≤ 34) (hc3lo : 0 < v128 C3) (hc3 : v128 C3 < 10 ^ q3n)
    (hq4 : 1 ≤ q4n) (hq4' : q4n ≤ 68) (hc4lo : 0 < v256 C4) (hc4 : v256 C4 < 10 ^ q4n)
    (he3 : -12352 ≤ e3) (he3' : e3 ≤ 12222) (he4 : -12352 ≤ e4) (he4' : e4 ≤ 12222) (hmin : e3 ≤ 6111 ∨ e4 ≤ 6111)
    (hew3 : e3w.toInt = e3) (hew : e4w.toInt = e4) (hdelta : delta.toInt = q3n + e3 - q4n - e4)
    (hd0 : 0 ≤ delta.toInt) (hd1 : delta.toInt ≤ 1) (hsign : ps ≠ zs) :
    ∃ lt gt ilt igt : Bool,
      arm26K q3 q4 e3w e4w delta 34 (sgnW zs) (sgnW ps) C3 C4 m b1 b2 b3 b4 f =
        .ok (ofBits (encode (addFin (modeOf m) ps (v256 C4) e4 zs (v128 C3) e3 (if e4 ≤ e3 then e4 else e3)).1), lt, gt, ilt, igt,
             f ||| UInt32.ofNat (addFin (modeOf m) ps (v256 C4) e4 zs (v128 C3) e3 (if e4 ≤ e3 then e4 else e3)).2) := by
  have a : (delta + q4).toInt = delta.toInt + q4n := by
    rw [i32_add _ _ ⟨by omega, by omega⟩ ⟨by omega, by omega⟩, hq4w]
  rw [arm26K_eq, lt_i32, a, hq3w]
  by_cases hsw : delta.toInt + (q4n : Int) < q3n
  · -- from Case (6): the roles are exchanged
    rw [if_pos (decide_eq_true hsw)]
    obtain ⟨sc, hscI⟩ : ∃ sc : Nat, e4 - e3 = sc := ⟨(e4 - e3).toNat, by omega⟩
    have hsc : ((q3 - delta) - q4).toInt = (sc : Int) := by
      have a : (q3 - delta).toInt = q3n - delta.toInt := by
        rw [i32_sub _ _ ⟨by omega, by omega⟩ ⟨by omega, by omega⟩, hq3w]
      rw [i32_sub _ _ ⟨by omega, by omega⟩ ⟨by omega, by omega⟩, a, hq4w]; omega
    have h34 : v256 C4 < 10 ^ 34 := lt_of_lt_of_le hc4 (Nat.pow_le_pow_right (by decide) (by omega))
    obtain ⟨_, _, s3, s4⟩ := swap_coeff C3 C4 h34
    obtain ⟨i, hi⟩ := haar q4 q3 e3w delta 34 (sgnW ps) (sgnW zs) ⟨C4.w0, C4.w1⟩ ⟨C3.w0, C3.w1, C4.w2, C4.w3⟩ m b1 b2 b3 b4 f
      ps zs rfl rfl rfl e3 hew3 (by omega) (by omega) sc hsc (by omega)
      (by show 0 < v256 _; rw [s4]; exact hc3lo)
      (by show v128 _ * 10 ^ sc < _; rw [s3]; exact pow_mul_lt _ _ _ 69 hc4 (by omega))
      (by show v256 _ < _; rw [s4]; exact lt_of_lt_of_le hc3 (Nat.pow_le_pow_right (by decide) (by omega)))
      (fun h => absurd h hsign)
    rw [hi, show e3 + (sc : Int) = e4 by omega, if_neg (show ¬ e4 ≤ e3 by omega)]
    refine ⟨i.midLtEven, i.midGtEven, i.inexLtMid, i.inexGtMid, ?_⟩
    show Except.ok (ofBits (encode (addFin (modeOf m) zs (v256 _) e3 ps (v128 _) e4 e3).1), _, _, _, _,
      f ||| UInt32.ofNat (addFin (modeOf m) zs (v256 _) e3 ps (v128 _) e4 e3).2) = _
    rw [s3, s4, addFin_comm]
  · -- from Cases (2)–(5): `delta` changes sign
    rw [if_neg (by rw [decide_eq_true_eq]; exact hsw)]
    obtain ⟨sc, hscI⟩ : ∃ sc : Nat, e3 - e4 = sc := ⟨(e3 - e4).toNat, by omega⟩
    have hsc : ((q4 - (-delta)) - q3).toInt = (sc : Int) := by
      have n : (-delta).toInt = -delta.toInt := i32_neg _ ⟨by omega, by omega⟩
      have a : (q4 - (-delta)).toInt = q4n + delta.toInt := by
        rw [i32_sub _ _ ⟨by omega, by omega⟩ ⟨by omega, by omega⟩, hq4w, n]; omega
      rw [i32_sub _ _ ⟨by omega, by omega⟩ ⟨by omega, by omega⟩, a, hq3w]; omega
    obtain ⟨i, hi⟩ := haar q3 q4 e4w (-delta) 34 (sgnW zs) (sgnW ps) C3 C4 m b1 b2 b3 b4 f zs ps rfl rfl rfl e4 hew (by omega)
      (by omega) sc hsc (by omega) hc4lo (pow_mul_lt _ _ _ 69 hc3 (by omega))
      (lt_of_lt_of_le hc4 (Nat.pow_le_pow_right (by decide) (by omega))) (fun h => absurd h.symm hsign)
    rw [hi, show e4 + (sc : Int) = e3 by omega, if_pos (show e4 ≤ e3 by omega)]
    exact ⟨_, _, _, _, rfl⟩

theorem min_comm' (a b : Int) : (if a ≤ b then a else b) = (if b ≤ a then b else a) := by
  split <;> split <;> omega

/-- the arm against `fmaD`, entered in the FIRST pass: `C3` the addend, `C4 = c1·c2` the product -/
theorem arm26_fma (haar : AarSpec) (m : RoundingMode) (f : UInt32) (s1 s2 s3 : Bool) (c1 c2 : Nat) (e1 e2 : Int)
    (C3 : U128) (C4 : U256) (q3n q4n : Nat) (e3 : Int) (q3 q4 e3w e4w delta : Int32) (b1 b2 b3 b4 : Bool)
    (hq3w : q3.toInt = q3n) (hq4w : q4.toInt = q4n)
    (hq3 : 1 ≤ q3n) (hq3' : q3n ≤ 34) (hc3lo : 0 < v128 C3) (hc3 : v128 C3 < 10 ^ q3n)
    (hq4 : 1 ≤ q4n) (hq4' : q4n ≤ 68) (hprod : v256 C4 = c1 * c2) (hc4lo : 0 < c1 * c2) (hc4 : c1 * c2 < 10 ^ q4n)
    (he3 : -6176 ≤ e3) (he3' : e3 ≤ 6111) (he4 : -12352 ≤ e1 + e2) (he4' : e1 + e2 ≤ 12222)
    (hew3 : e3w.toInt = e3) (hew : e4w.toInt = e1 + e2) (hdelta : delta.toInt = q3n + e3 - q4n - (e1 + e2))
    (hd0 : 0 ≤ delta.toInt) (hd1 : delta.toInt ≤ 1) (hsign : (s1 != s2) ≠ s3) :
    ∃ lt gt ilt igt : Bool,
      arm26K q3 q4 e3w e4w delta 34 (sgnW s3) (sgnW (s1 != s2)) C3 C4 m b1 b2 b3 b4 f =
        .ok (ofBits (encode (fmaD (modeOf m) false (.fin s1 c1 e1) (.fin s2 c2 e2) (.fin s3 (v128 C3) e3)).1), lt, gt, ilt, igt,
             f ||| UInt32.ofNat (fmaD (modeOf m) false (.fin s1 c1 e1) (.fin s2 c2 e2) (.fin s3 (v128 C3) e3)).2) := by
  have h := arm26_spec haar m f (s1 != s2) s3 C3 C4 q3n q4n e3 (e1 + e2) q3 q4 e3w e4w delta b1 b2 b3 b4 hq3w hq4w hq3 hq3'
    hc3lo hc3 hq4 hq4' (by rw [hprod]; exact hc4lo) (by rw [hprod]; exact hc4) (by omega) (by omega) he4 he4' (Or.inl he3')
    hew3 hew hdelta hd0 hd1 hsign
  rw [hprod] at h
  exact h

/-- the arm against `fmaD`, entered in the SECOND pass (after the swap of Cases (9), (10), (13), (14), (18)): `C3` holds the
product `c1·c2` (at most 34 digits), `C4` the addend's coefficient `c3` -/
theorem arm26_fma_swapped (haar : AarSpec) (m : RoundingMode) (f : UInt32) (s1 s2 s3 : Bool) (c1 c2 c3 : Nat) (e1 e2 : Int)
    (C3 : U128) (C4 : U256) (q3n q4n : Nat) (e3 : Int) (q3 q4 e3w e4w delta : Int32) (b1 b2 b3 b4 : Bool)
    (hq3w : q3.toInt = q3n) (hq4w : q4.toInt = q4n)
    (hq3 : 1 ≤ q3n) (hq3' : q3n ≤ 34) (hprod : v128 C3 = c1 * c2) (hc3lo : 0 < c1 * c2) (hc3 : c1 * c2 < 10 ^ q3n)
    (hq4 : 1 ≤ q4n) (hq4' : q4n ≤ 34) (hz : v256 C4 = c3) (hc4lo : 0 < c3) (hc4 : c3 < 10 ^ q4n)
    (he3 : -6176 ≤ e3) (he3' : e3 ≤ 6111) (he4 : -12352 ≤ e1 + e2) (he4' : e1 + e2 ≤ 12222)
    (hew3 : e3w.toInt = e1 + e2) (hew : e4w.toInt = e3) (hdelta : delta.toInt = q3n + (e1 + e2) - q4n - e3)
    (hd0 : 0 ≤ delta.toInt) (hd1 : delta.toInt ≤ 1) (hsign : (s1 != s2) ≠ s3) :
    ∃ lt gt ilt igt : Bool,
      arm26K q3 q4 e3w e4w delta 34 (sgnW (s1 != s2)) (sgnW s3) C3 C4 m b1 b2 b3 b4 f =
        .ok (ofBits (encode (fmaD (modeOf m) false (.fin s1 c1 e1) (.fin s2 c2 e2) (.fin s3 c3 e3)).1), lt, gt, ilt, igt,
             f ||| UInt32.ofNat (fmaD (modeOf m) false (.fin s1 c1 e1) (.fin s2 c2 e2) (.fin s3 c3 e3)).2) := by
  have h := arm26_spec haar m f s3 (s1 != s2) C3 C4 q3n q4n (e1 + e2) e3 q3 q4 e3w e4w delta b1 b2 b3 b4 hq3w hq4w hq3 hq3'
    (by rw [hprod]; exact hc3lo) (by rw [hprod]; exact hc3) hq4 (by omega) (by rw [hz]; exact hc4lo) (by rw [hz]; exact hc4)
    he4 he4' (by omega) (by omega) (Or.inr he3') hew3 hew hdelta hd0 hd1 (fun h => hsign h.symm)
  rw [hprod, hz, addFin_comm, min_comm'] at h
  exact h

/-! ## 4. "Note: overflow is not possible in this case" (source comment at the arm) — refuted, and what is true of it -/

/-- `finish` does not overflow on a value that is not above the largest finite number -/
theorem finish_no_overflow (mode : Mode) (neg : Bool) (N : Nat) (m pref : Int) (hN : 0 < N)
    (hv : (N : ℚ) * (10 : ℚ) ^ m ≤ ((P34 - 1 : Nat) : ℚ) * (10 : ℚ) ^ eMax) :
    (finish mode neg N 1 m pref).2 ≠ fOverflow ||| fInexact := by
  have h := finish_spec_strict mode neg N 1 m pref hN (by decide)
  rw [Nat.cast_one, div_one] at h
  rcases h with ⟨_, m', x, ho, _⟩ | ⟨_, m', x, ho, _⟩ | ⟨_, ho, M, hM, hP⟩
  · rw [ho]; show (0 : Nat) ≠ _; decide
  · rw [ho]; show (if _ then _ else _ : Nat) ≠ _; split <;> decide
  · exfalso
    have hp : (0 : ℚ) < (10 : ℚ) ^ eMax := zpow_pos ten_pos _
    have : (N : ℚ) * (10 : ℚ) ^ m / (10 : ℚ) ^ eMax ≤ ((P34 - 1 : Nat) : ℚ) := by
      rw [div_le_iff₀ hp]; exact hv
    have := RoundedTo_le this hM
    have : 0 < P34 := by decide
    omega

/-- **what is true of the comment**: if the term in the place of the addend lies below `10^6145` (`q3 + e3 ≤ 6145` — always so in
the first pass, where it IS the addend), the difference formed in the arm cannot overflow: both terms have their leading
digits at most one place apart, so the difference is below `0.99·10^6145`. -/
theorem arm_no_overflow (mode : Mode) (ps zs : Bool) (c3 c4 q3n q4n : Nat) (e3 e4 : Int)
    (hq3 : 1 ≤ q3n) (hc3lo : 10 ^ (q3n - 1) ≤ c3) (hc3 : c3 < 10 ^ q3n)
    (hq4 : 1 ≤ q4n) (hc4lo : 10 ^ (q4n - 1) ≤ c4) (hc4 : c4 < 10 ^ q4n)
    (hd0 : 0 ≤ (q3n : Int) + e3 - q4n - e4) (hd1 : (q3n : Int) + e3 - q4n - e4 ≤ 1) (hsign : ps ≠ zs)
    (htop : (q3n : Int) + e3 ≤ 6145) :
    (addFin mode ps c4 e4 zs c3 e3 (if e4 ≤ e3 then e4 else e3)).2 ≠ fOverflow ||| fInexact := by
  unfold addFin
  simp only []
  obtain ⟨m, hm⟩ : ∃ m : Int, m = (if e4 ≤ e3 then e4 else e3) := ⟨_, rfl⟩
  rw [← hm]
  have hm1 : m ≤ e3 := by rw [hm]; split <;> omega
  have hm2 : m ≤ e4 := by rw [hm]; split <;> omega
  obtain ⟨a, ha⟩ : ∃ a : Nat, e4 - m = a := ⟨(e4 - m).toNat, by omega⟩
  obtain ⟨b, hb⟩ : ∃ b : Nat, e3 - m = b := ⟨(e3 - m).toNat, by omega⟩
  rw [ha, hb, Int.toNat_natCast, Int.toNat_natCast]
  -- the two terms in units of 10^m
  obtain ⟨k, hk⟩ : ∃ k : Nat, k = q3n + b := ⟨_, rfl⟩
  have hZ1 : c3 * 10 ^ b < 10 ^ k := by rw [hk, Nat.pow_add]; exact Nat.mul_lt_mul_of_pos_right hc3 (Nat.pow_pos (by decide))
  have hP1 : c4 * 10 ^ a < 10 ^ k := by
    have : c4 * 10 ^ a < 10 ^ (q4n + a) := by rw [Nat.pow_add]; exact Nat.mul_lt_mul_of_pos_right hc4 (Nat.pow_pos (by decide))
    exact lt_of_lt_of_le this (Nat.pow_le_pow_right (by decide) (by omega))
  have hZ2 : 10 ^ k ≤ 100 * (c3 * 10 ^ b) := by
    have : 10 ^ (q3n - 1) * 10 ^ b ≤ c3 * 10 ^ b := Nat.mul_le_mul_right _ hc3lo
    rw [← Nat.pow_add] at this
    have e : 10 ^ k = 10 * 10 ^ (q3n - 1 + b) := by rw [← Nat.pow_succ']; congr 1; omega
    omega
  have hP2 : 10 ^ k ≤ 100 * (c4 * 10 ^ a) := by
    have : 10 ^ (q4n - 1) * 10 ^ a ≤ c4 * 10 ^ a := Nat.mul_le_mul_right _ hc4lo
    rw [← Nat.pow_add] at this
    have e : 10 ^ k ≤ 100 * 10 ^ (q4n - 1 + a) := by
      rw [show (100 : Nat) = 10 ^ 2 from rfl, ← Nat.pow_add]
      exact Nat.pow_le_pow_right (by decide) (by omega)
    omega
  generalize c3 * 10 ^ b = Z at *
  generalize c4 * 10 ^ a = P at *
  have key : ∀ N : Nat, 100 * N < 99 * 10 ^ k → 0 < N → ∀ neg pref, (finish mode neg N 1 m pref).2 ≠ fOverflow ||| fInexact := by
    intro N hN hpos neg pref
    apply finish_no_overflow mode neg N m pref hpos
    have h1 : (N : ℚ) ≤ 99 / 100 * (10 : ℚ) ^ (k : ℤ) := by
      have : ((100 * N : Nat) : ℚ) ≤ ((99 * 10 ^ k : Nat) : ℚ) := by exact_mod_cast hN.le
      push_cast at this
      rw [zpow_natCast]; linarith
    have hp : (0 : ℚ) < (10 : ℚ) ^ m := zpow_pos ten_pos _
    have h2 : (10 : ℚ) ^ (k : ℤ) * (10 : ℚ) ^ m ≤ (10 : ℚ) ^ (6145 : ℤ) := by
      rw [← zpow_add₀ ten_ne]; exact zpow_le_zpow_right₀ one_lt_ten.le (by omega)
    have h3 : (99 : ℚ) / 100 * (10 : ℚ) ^ (6145 : ℤ) ≤ ((P34 - 1 : Nat) : ℚ) * (10 : ℚ) ^ eMax := by
      have e : (10 : ℚ) ^ (6145 : ℤ) = (10 : ℚ) ^ (34 : ℤ) * (10 : ℚ) ^ eMax := by
        rw [← zpow_add₀ ten_ne]; rfl
      have hq : (0 : ℚ) < (10 : ℚ) ^ eMax := zpow_pos ten_pos _
      rw [e, ← mul_assoc]
      apply mul_le_mul_of_nonneg_right _ hq.le
      rw [show ((P34 - 1 : Nat) : ℚ) = 9999999999999999999999999999999999 by unfold P34; norm_num]
      norm_num
    calc (N : ℚ) * (10 : ℚ) ^ m ≤ 99 / 100 * (10 : ℚ) ^ (k : ℤ) * (10 : ℚ) ^ m := mul_le_mul_of_nonneg_right h1 hp.le
      _ = 99 / 100 * ((10 : ℚ) ^ (k : ℤ) * (10 : ℚ) ^ m) := by ring
      _ ≤ 99 / 100 * (10 : ℚ) ^ (6145 : ℤ) := mul_le_mul_of_nonneg_left h2 (by norm_num)
      _ ≤ _ := h3
  by_cases hS : sInt ps P + sInt zs Z = 0
  · rw [if_pos hS]; show (0 : Nat) ≠ _; decide
  · rw [if_neg hS]
    apply key
    · cases ps <;> cases zs <;> simp only [sInt, Bool.false_eq_true, if_false, if_true] at hS ⊢ <;>
        first | exact absurd rfl hsign | omega
    · omega

open Dec.C02GenFmaSwap (w128 w256 swapCond cond2 cond9) in
/-- **FINDING — the comment is wrong (the code is right).**  "Note: overlow is not possible in this case" does not hold for the
arm when it is entered in the SECOND pass, with the product in the place of the addend: `x = 2E3072`, `y = 1E3073`
(product `2·10^6145`, one digit), `z = −9.9E6144 = −99·10^32 E6111`, nearest-even.  First pass: `delta = −1`, negated `1`, Case (9),
swap; second pass: Case (2) with `delta = 1` and opposite signs — the arm; the exact sum `1.01·10^6145` exceeds the largest
finite number.  `bid_add_and_round` handles it: `+Inf` with overflow and inexact, as the model says. -/
theorem arm_overflow_witness :
    -- the model: overflow
    fmaD .rne false (.fin false 2 3072) (.fin false 1 3073) (.fin true (99 * 10 ^ 32) 6111) = (.inf false, fOverflow ||| fInexact) ∧
    -- the path: Case (9), swap, then the test of Cases (2)–(6) fails on the sign guard
    swapCond 34 1 1 34 = true ∧ cond9 34 1 1 34 = true ∧ cond2 1 34 1 34 = true ∧
    midTest 1 34 1 34 (sgnW true) (sgnW false) = false ∧
    -- the arm on the swapped state (product 2·10^6145 in `C3`, addend in `C4`)
    (arm26K 1 34 6145 6111 1 34 (sgnW false) (sgnW true) ⟨2, 0⟩ (w256 (99 * 10 ^ 32)) .NearestEven false false false false 0).toOption =
      some (ofBits (encode (.inf false)), false, false, false, false, 0x28) ∧
    -- the routine itself
    (bid128_fma (ofBits (encode (.fin false 2 3072))) (ofBits (encode (.fin false 1 3073)))
      (ofBits (encode (.fin true (99 * 10 ^ 32) 6111))) .NearestEven 0).toOption = some (ofBits (encode (.inf false)), 0x28) := by
  refine ⟨by decide +kernel, by decide, by decide, by decide, by decide, by decide +kernel, by decide +kernel⟩

open Dec.C02GenFmaSwap (w128 w256) in
-- the same toward zero: the largest finite number, overflow + inexact — code and model
example : (bid128_fma (ofBits (encode (.fin false 2 3072))) (ofBits (encode (.fin false 1 3073)))
      (ofBits (encode (.fin true (99 * 10 ^ 32) 6111))) .TowardZero 0).toOption =
    some (ofBits (encode (.fin false (P34 - 1) 6111)), 0x28) ∧
    fmaD .rtz false (.fin false 2 3072) (.fin false 1 3073) (.fin true (99 * 10 ^ 32) 6111) =
      (.fin false (P34 - 1) 6111, 0x28) := by
  constructor <;> decide +kernel

open Dec.C02GenFmaSwap (w128 w256) in
-- Case (17): product (10^39 + 987654321)·10^−10 (40 digits), addend −1234567·10^5, delta = 18: the call, and the model
example : cond1517 7 40 18 34 = true ∧
    (case1517K 7 40 (-10) 18 34 (sgnW true) (sgnW false) (w128 1234567) (w256 (10 ^ 39 + 987654321)) .NearestEven
      false false false false 0).toOption =
      some (ofBits (encode (.fin false 9999999999999999987654330000009877 (-5))), false, false, false, true, 0x20) ∧
    addFin .rne false (10 ^ 39 + 987654321) (-10) true 1234567 5 (-10) =
      (.fin false 9999999999999999987654330000009877 (-5), 0x20) := by
  refine ⟨by decide, by decide +kernel, by decide +kernel⟩

open Dec.C02GenFmaSwap (w128 w256) in
-- the arm in the first pass, from Case (4): product (10^34 − 1)^2 (68 digits), addend −99·10^67, delta = 1: C3·10^67 has 69 digits
-- and the SUM of the two magnitudes exceeds 10^69 — why `AarSpec` asks the sum bound only for equal signs
example : (arm26K 2 68 67 0 1 34 (sgnW true) (sgnW false) (w128 99) (w256 ((10 ^ 34 - 1) ^ 2)) .NearestEven
      false false false false 0).toOption =
    some (ofBits (encode (addFin .rne false ((10 ^ 34 - 1) ^ 2) 0 true 99 67 0).1), false, false, true, false, 0x20) ∧
    99 * 10 ^ 67 + (10 ^ 34 - 1) ^ 2 > 10 ^ 69 := by
  constructor <;> decide +kernel

end Dec.C02GenFmaWrap
