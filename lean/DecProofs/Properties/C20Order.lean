/-
  C20 (order part) — the trait glue is lawful: `==` (`eqGlue`) is an equivalence relation, `partial_cmp`
  (`partialCmpGlue`) is antisymmetric and transitive and agrees with `==`, `<=` derived from it is a preorder,
  and equal values hash equally (`hashKey`), for every canonical datum.

  All of it rests on T-cmp (`DecProofs.Core.Cmp`): `cmpD` is `compare` on extended rational values.
-/
import DecProofs.Core.Cmp
import DecProofs.Properties.C03
import DecProofs.Properties.C20

namespace Dec.C20Order

/-! ### the shape of the glue -/

/-- `==` holds when both are NaNs or when the numeric comparison says Equal -/
theorem eqGlue_iff (x y : Datum) :
    eqGlue x y = true ↔ (x.isNaN = true ∧ y.isNaN = true) ∨ cmpD x y = some .eq := by
  unfold eqGlue
  cases hx : x.isNaN <;> cases hy : y.isNaN <;> simp
  · rw [cmpD_nan_right x y hy]; simp
  · rw [cmpD_nan_left x y hx]; simp

/-- `partial_cmp` is the numeric comparison, except that two NaNs are Equal -/
theorem partialCmpGlue_eq (x y : Datum) :
    partialCmpGlue x y = if x.isNaN && y.isNaN then some .eq else cmpD x y := by
  unfold partialCmpGlue eqGlue
  cases hx : x.isNaN <;> cases hy : y.isNaN <;> simp
  · rcases cmpD x y with _ | (_ | _ | _) <;> simp
  · rw [cmpD_nan_right x y hy]
  · rw [cmpD_nan_left x y hx]

/-- `partial_cmp` answers Less exactly when the numeric comparison does -/
theorem partialCmpGlue_lt_iff (x y : Datum) : partialCmpGlue x y = some .lt ↔ cmpD x y = some .lt := by
  rw [partialCmpGlue_eq]
  cases hx : x.isNaN <;> cases hy : y.isNaN <;> simp
  rw [cmpD_nan_left x y hx]; simp

/-- `partial_cmp` answers Greater exactly when the numeric comparison does -/
theorem partialCmpGlue_gt_iff (x y : Datum) : partialCmpGlue x y = some .gt ↔ cmpD x y = some .gt := by
  rw [partialCmpGlue_eq]
  cases hx : x.isNaN <;> cases hy : y.isNaN <;> simp
  rw [cmpD_nan_left x y hx]; simp

/-! ### `==` is an equivalence relation (reflexivity: `C20.eq_refl`) -/

/-- `==` is symmetric: `a == b` and `b == a` always agree -/
theorem eq_symm (x y : Datum) : eqGlue x y = eqGlue y x := by
  rw [Bool.eq_iff_iff, eqGlue_iff, eqGlue_iff, cmpD_eq_symm x y, and_comm]

/-- `==` is transitive, for all data (NaNs form one class, `+0 == -0`, cohort members are equal) -/
theorem eq_trans {x y z : Datum} (h1 : eqGlue x y = true) (h2 : eqGlue y z = true) : eqGlue x z = true := by
  rw [eqGlue_iff] at *
  rcases h1 with ⟨hx, hy⟩ | h1 <;> rcases h2 with ⟨hy', hz⟩ | h2
  · exact Or.inl ⟨hx, hz⟩
  · have := (not_nan_of_cmpD h2).1; simp [hy] at this
  · have := (not_nan_of_cmpD h1).2; simp [hy'] at this
  · exact Or.inr (cmpD_trans_eq h1 h2)

/-- on numbers `==` is equality of the exact values -/
theorem eq_fin_iff (s1 : Bool) (c1 : Nat) (e1 : Int) (s2 : Bool) (c2 : Nat) (e2 : Int) :
    eqGlue (.fin s1 c1 e1) (.fin s2 c2 e2) = true ↔ fval s1 c1 e1 = fval s2 c2 e2 := by
  rw [eqGlue_iff]; simp [Datum.isNaN, cmpD, cmpFin_eq_iff]

example : eqGlue (.fin false 100 (-2)) (.fin false 10 (-1)) = true ∧ eqGlue (.fin false 10 (-1)) (.fin false 1 0) = true ∧
    eqGlue (.fin false 100 (-2)) (.fin false 1 0) = true := by decide
example : eqGlue (.fin true 0 5) (.fin false 0 (-3)) = true := by decide

/-! ### `partial_cmp` is antisymmetric and transitive -/

/-- exchanging the operands of `partial_cmp` mirrors the answer -/
theorem partialCmp_swap (x y : Datum) : partialCmpGlue y x = (partialCmpGlue x y).map Ordering.swap := by
  rw [partialCmpGlue_eq, partialCmpGlue_eq, cmpD_swap x y, Bool.and_comm]
  split <;> rfl

/-- antisymmetry: `a < b` exactly when `b > a` -/
theorem partialCmp_lt_iff_gt (x y : Datum) :
    partialCmpGlue x y = some .lt ↔ partialCmpGlue y x = some .gt := by
  rw [partialCmpGlue_lt_iff, partialCmpGlue_gt_iff, cmpD_lt_iff_gt]

/-- `a < b` is the strict order of the exact values (numbers) -/
theorem partialCmp_fin_lt_iff (s1 : Bool) (c1 : Nat) (e1 : Int) (s2 : Bool) (c2 : Nat) (e2 : Int) :
    partialCmpGlue (.fin s1 c1 e1) (.fin s2 c2 e2) = some .lt ↔ fval s1 c1 e1 < fval s2 c2 e2 := by
  rw [partialCmpGlue_lt_iff]; simp [cmpD, cmpFin_lt_iff]

/-- never both `a < b` and `a == b` -/
theorem partialCmp_lt_not_eq {x y : Datum} (h : partialCmpGlue x y = some .lt) : eqGlue x y = false := by
  rw [Bool.eq_false_iff]; intro he
  rw [(C20.partialCmp_eq_iff x y).2 he] at h; simp at h

/-- transitivity: Less, Less -/
theorem partialCmp_trans_lt {x y z : Datum} (h1 : partialCmpGlue x y = some .lt)
    (h2 : partialCmpGlue y z = some .lt) : partialCmpGlue x z = some .lt := by
  rw [partialCmpGlue_lt_iff] at *; exact cmpD_trans_lt h1 h2

/-- transitivity: Less, Equal -/
theorem partialCmp_trans_lt_eq {x y z : Datum} (h1 : partialCmpGlue x y = some .lt)
    (h2 : partialCmpGlue y z = some .eq) : partialCmpGlue x z = some .lt := by
  rw [C20.partialCmp_eq_iff, eqGlue_iff] at h2
  rw [partialCmpGlue_lt_iff] at *
  rcases h2 with ⟨hy, _⟩ | h2
  · have := (not_nan_of_cmpD h1).2; simp [hy] at this
  · exact cmpD_trans_lt_eq h1 h2

/-- transitivity: Equal, Less -/
theorem partialCmp_trans_eq_lt {x y z : Datum} (h1 : partialCmpGlue x y = some .eq)
    (h2 : partialCmpGlue y z = some .lt) : partialCmpGlue x z = some .lt := by
  rw [C20.partialCmp_eq_iff, eqGlue_iff] at h1
  rw [partialCmpGlue_lt_iff] at *
  rcases h1 with ⟨_, hy⟩ | h1
  · have := (not_nan_of_cmpD h2).1; simp [hy] at this
  · exact cmpD_trans_eq_lt h1 h2

/-- transitivity: Equal, Equal -/
theorem partialCmp_trans_eq {x y z : Datum} (h1 : partialCmpGlue x y = some .eq)
    (h2 : partialCmpGlue y z = some .eq) : partialCmpGlue x z = some .eq := by
  rw [C20.partialCmp_eq_iff] at *; exact eq_trans h1 h2

/-- transitivity: Greater, Greater (the mirror image) -/
theorem partialCmp_trans_gt {x y z : Datum} (h1 : partialCmpGlue x y = some .gt)
    (h2 : partialCmpGlue y z = some .gt) : partialCmpGlue x z = some .gt := by
  rw [← partialCmp_lt_iff_gt] at *; exact partialCmp_trans_lt h2 h1

example : partialCmpGlue (.inf true) (.fin true 5 3) = some .lt ∧ partialCmpGlue (.fin true 5 3) (.fin false 0 0) = some .lt ∧
    partialCmpGlue (.inf true) (.fin false 0 0) = some .lt := by decide
example : partialCmpGlue (.fin false 1 0) (.nan false false 0) = none := by decide

/-! ### `<=` as derived from `partial_cmp` -/

/-- `a <= b` as the crate's glue computes it (and as the judge expects it, see `EntryPoints`, op `"le"`):
`partial_cmp` answers Less or Equal -/
def leGlue (x y : Datum) : Bool := partialCmpGlue x y == some .lt || partialCmpGlue x y == some .eq

/-- unfolding `<=` -/
theorem leGlue_iff (x y : Datum) :
    leGlue x y = true ↔ partialCmpGlue x y = some .lt ∨ partialCmpGlue x y = some .eq := by
  simp [leGlue]

/-- `<=` is transitive, for all data (two NaNs are `<=` each other, a NaN and a number never are) -/
theorem le_trans {x y z : Datum} (h1 : leGlue x y = true) (h2 : leGlue y z = true) : leGlue x z = true := by
  rw [leGlue_iff] at *
  rcases h1 with h1 | h1 <;> rcases h2 with h2 | h2
  · exact Or.inl (partialCmp_trans_lt h1 h2)
  · exact Or.inl (partialCmp_trans_lt_eq h1 h2)
  · exact Or.inl (partialCmp_trans_eq_lt h1 h2)
  · exact Or.inr (partialCmp_trans_eq h1 h2)

/-- `<=` is reflexive (because all NaNs are equal in this crate) -/
theorem le_refl (x : Datum) : leGlue x x = true := by
  rw [leGlue_iff]; exact Or.inr ((C20.partialCmp_eq_iff x x).2 (C20.eq_refl x))

/-- `a <= b` and `b <= a` give `a == b` -/
theorem le_antisymm {x y : Datum} (h1 : leGlue x y = true) (h2 : leGlue y x = true) : eqGlue x y = true := by
  rw [leGlue_iff] at *
  rcases h1 with h1 | h1
  · rcases h2 with h2 | h2
    · rw [partialCmp_lt_iff_gt] at h2; rw [h1] at h2; simp at h2
    · rw [C20.partialCmp_eq_iff] at h2; rw [eq_symm]; exact h2
  · exact (C20.partialCmp_eq_iff x y).1 h1

/-- on numbers `<=` is `≤` of the exact values -/
theorem le_fin_iff (s1 : Bool) (c1 : Nat) (e1 : Int) (s2 : Bool) (c2 : Nat) (e2 : Int) :
    leGlue (.fin s1 c1 e1) (.fin s2 c2 e2) = true ↔ fval s1 c1 e1 ≤ fval s2 c2 e2 := by
  rw [leGlue_iff, partialCmp_fin_lt_iff, C20.partialCmp_eq_iff, eq_fin_iff, le_iff_lt_or_eq]

example : leGlue (.fin true 1 0) (.fin false 10 (-1)) = true ∧ leGlue (.fin false 10 (-1)) (.fin false 1 0) = true ∧
    leGlue (.fin true 1 0) (.fin false 1 0) = true := by decide

/-! ### the Hash law -/

/-- the key of a non-zero number: all (up to 34) trailing zeros moved into the exponent -/
theorem hashKey_fin_nonzero (s : Bool) (c : Nat) (e : Int) (hc : c ≠ 0) :
    hashKey (.fin s c e) = .fin s (c / 10 ^ trailingZeros 34 c) (e + trailingZeros 34 c) := by
  simp [hashKey, hc]

/-- equal magnitudes, same sign, non-zero: same key (uniqueness of the stripped normal form) -/
theorem hash_fin_same_sign (s : Bool) (c1 c2 : Nat) (e1 e2 : Int) (h1 : c1 < P34) (h2 : c2 < P34)
    (hc1 : c1 ≠ 0) (hc2 : c2 ≠ 0) (h : fval false c1 e1 = fval false c2 e2) :
    hashKey (.fin s c1 e1) = hashKey (.fin s c2 e2) := by
  rw [hashKey_fin_nonzero s c1 e1 hc1, hashKey_fin_nonzero s c2 e2 hc2]
  rw [← fval_strip false c1 e1 34, ← fval_strip false c2 e2 34, fval_false, fval_false] at h
  obtain ⟨ha, hb⟩ := stripped_unique _ _ _ _
    (trailingZeros_stripped 34 c1 hc1 (P34_eq ▸ h1)) (trailingZeros_stripped 34 c2 hc2 (P34_eq ▸ h2)) h
  rw [ha, hb]

/-- numbers with coefficients below 10^34 and the same exact value have the same hash key -/
theorem hash_fin (s1 s2 : Bool) (c1 c2 : Nat) (e1 e2 : Int) (h1 : c1 < P34) (h2 : c2 < P34)
    (h : fval s1 c1 e1 = fval s2 c2 e2) : hashKey (.fin s1 c1 e1) = hashKey (.fin s2 c2 e2) := by
  by_cases hc1 : c1 = 0
  · subst hc1
    rw [fval_zero, eq_comm, fval_eq_zero_iff] at h
    subst h; simp [hashKey]
  by_cases hc2 : c2 = 0
  · subst hc2
    rw [fval_zero, fval_eq_zero_iff] at h
    exact absurd h hc1
  cases s1 <;> cases s2
  · exact hash_fin_same_sign _ _ _ _ _ h1 h2 hc1 hc2 h
  · linarith [fval_false_pos c1 e1 hc1, fval_true_neg c2 e2 hc2]
  · linarith [fval_false_pos c2 e2 hc2, fval_true_neg c1 e1 hc1]
  · rw [fval_true_eq_neg, fval_true_eq_neg, neg_inj] at h
    exact hash_fin_same_sign _ _ _ _ _ h1 h2 hc1 hc2 h

/-- **Hash law**: `a == b` implies `hash(a) == hash(b)`, for all well-formed (canonical) data: NaNs of any
sign/kind/payload, zeros of any sign and exponent, every member of a cohort, infinities.
(Only the coefficient bound `c < 10^34` of `Datum.WF` is used: it guarantees that the fuel 34 of `trailingZeros`
strips every trailing zero.) -/
theorem hash_law (x y : Datum) (hx : x.WF) (hy : y.WF) (h : eqGlue x y = true) : hashKey x = hashKey y := by
  rw [eqGlue_iff] at h
  rcases h with ⟨hx', hy'⟩ | h
  · cases x <;> simp [Datum.isNaN] at hx'
    cases y <;> simp [Datum.isNaN] at hy'
    rfl
  · rcases x with ⟨s1, c1, e1⟩ | ⟨s1⟩ | _ <;> rcases y with ⟨s2, c2, e2⟩ | ⟨s2⟩ | _ <;>
      simp [cmpD] at h
    · exact hash_fin _ _ _ _ _ _ hx.1 hy.1 ((cmpFin_eq_iff ..).1 h)
    · cases s2 <;> simp at h
    · cases s1 <;> simp at h
    · cases s1 <;> cases s2 <;> simp at h <;> rfl

/-- every datum is `==` to its hash key (no well-formedness needed: the key keeps the value) -/
theorem eqGlue_hashKey (x : Datum) : eqGlue x (hashKey x) = true := by
  rw [eqGlue_iff]
  rcases x with ⟨s, c, e⟩ | ⟨s⟩ | _
  · right
    by_cases hc : c = 0
    · subst hc; simpa [hashKey] using C03.zeros_equal s false e 0
    · rw [hashKey_fin_nonzero s c e hc]
      simp only [cmpD, Option.some.injEq]
      rw [cmpFin_eq_iff, fval_strip]
  · right; simp [hashKey, cmpD]
  · left; simp [hashKey, Datum.isNaN]

/-- conversely, equal hash keys only for equal values: the key is a complete invariant of `==` -/
theorem eq_of_hashKey_eq (x y : Datum) (h : hashKey x = hashKey y) : eqGlue x y = true := by
  have h1 := eqGlue_hashKey x
  have h2 := eqGlue_hashKey y
  rw [eq_symm] at h2
  rw [h] at h1
  exact eq_trans h1 h2

/-- for well-formed data: `a == b` exactly when the hash keys coincide -/
theorem eq_iff_hashKey_eq (x y : Datum) (hx : x.WF) (hy : y.WF) : eqGlue x y = true ↔ hashKey x = hashKey y :=
  ⟨hash_law x y hx hy, eq_of_hashKey_eq x y⟩

example : (Datum.fin true 7920000 (-3)).WF ∧ (Datum.fin true 792 1).WF ∧
    eqGlue (.fin true 7920000 (-3)) (.fin true 792 1) = true ∧
    hashKey (.fin true 7920000 (-3)) = hashKey (.fin true 792 1) := by decide
example : (Datum.fin false (P34 - 1) 6111).WF ∧ (Datum.nan true true (P33 - 1)).WF := by decide

end Dec.C20Order
