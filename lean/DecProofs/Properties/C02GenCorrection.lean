/-
  C02GenCorrection — `bid_rounding_correction` of bid128_fma.rs (lines 24–130), as translated in `DecGen/Code.lean`
  (`Dec.Gen.Code.bid_rounding_correction`): the step that turns a result rounded to NEAREST-EVEN at 34 digits, together with
  the four indicators of the rounding helpers, into the result correctly rounded in the mode asked for, raises inexact, and
  handles overflow.  Called 18 times by `bid128_ext_fma` / `bid_add_and_round`.

  THE TABLE the code implements (correction of the magnitude; L = is_inexact_lt_midpoint: exact value in (c, c + ½);
  G = is_inexact_gt_midpoint: in (c − ½, c); ML = is_midpoint_lt_even: = c − ½; MG = is_midpoint_gt_even: = c + ½;
  c the delivered coefficient; all in units of its last place):

        mode            sign      none    L     G     ML    MG
        NearestEven     ±          0      0     0     0     0
        NearestAway     ±          0      0     0     0    +1
        TowardZero      ±          0      0    −1    −1     0
        Upward          +          0     +1     0     0    +1
        Upward          −          0      0    −1    −1     0
        Downward        +          0      0    −1    −1     0
        Downward        −          0     +1     0     0    +1
  (`table_rows`; `upD`, `downD`, `corrI`; the code's own Boolean expressions are `upB`, `downB`: `upB_eq`, `downB_eq`.)
  It is the right one: `table_correct` — for the exact magnitude `V/D`, `c` its nearest-even rounding, and the indicators
  saying where `V/D` lies, `c + correction` is `V/D` rounded in the mode for the sign, in the sense of `RoundedInt`
  (`DecProofs/Core/RoundInt.lean`, which `roundInt` of the model satisfies: `roundInt_spec`), all five modes, both signs.

  Theorems.
    * `correction_shape` (by `rfl`): the routine is `corrBody` on its own decisions.
    * `correction_eval`: the routine EVALUATED, for every mode, every combination of indicators (also several at once), every
      status word, every coefficient field `c < 10^34` and `−6176 ≤ unbexp ≤ 26591`: coefficient stepped by the table with
      the two decade wraps (`stepC`: `10^34 ↦ 10^33`, exponent + 1;  `10^33 − 1 ↦ 10^34 − 1`, exponent − 1, unless the
      exponent is −6176: then `10^33 − 1` stays and underflow is raised), canonical packing, overflow pattern when the
      final exponent exceeds 6111 (`ovf_word`, `ovfDatum`), status word `outF`.  Never panics.
    * `step_value`, `correction_spec`: the SPECIFICATION — hypotheses on (exact value, delivered value, indicators) as in
      `table_correct`, plus what the rounding helpers guarantee at the decade boundaries; conclusion: the returned
      coefficient and exponent are the exact value rounded ONCE in the mode `m` (`RoundedInt (modeOf m)`), renormalised
      to at most 34 digits, with the flags described.
    * `contract`: the `Spec` of the rounding helpers (`C02RoundHelpers`, proved of the translated `bid_round*` in
      `C02GenRound`) implies every hypothesis of `correction_spec`.
    * `helper_then_correction`, `round128_then_correction`: rounding helper followed by correction gives
      `c2·10^(e2 − ef) = roundInt (modeOf m) sign ⌊C/10^x⌋ (C mod 10^x) 10^x` — the statement `fma` relies on; inexact iff
      something was discarded, underflow never, overflow + inexact iff the final exponent exceeds 6111.

  Findings.
    * OVERFLOW IN MODE NearestEven: for a final exponent above 6111 the routine returns ±(10^34 − 1)·10^6111 in mode
      `NearestEven`, where rounding to nearest overflows to ±Inf (`ovfDatum_nearestEven`; input e.g.
      `bid_rounding_correction NearestEven false false false false 6112 ⟨0x38c15b0a00000000, 0x314dc6448d93⟩ 0`
      = `(⟨0x378d8e63ffffffff, 0x5fffed09bead87c0⟩, 0x28)`).  For the other four modes it is the model's `overflowResult`
      (`ovfDatum_model`).  Not reached by the callers: they treat nearest-even overflow themselves (bid128_fma.rs lines
      1462, 2279, 2420, 3128) and guard all other calls by `rnd_mode != NearestEven`, except the call at line 1822, whose
      exponent (that of `z`, lowered) cannot exceed 6111.
    * THE LOWER DECADE WRAP IS A CONTRACT, NOT A COMPUTATION: at `c = 10^33` with G or ML set and a mode that truncates, the
      routine returns `(10^34 − 1)·10^(e−1)` whatever the distance of the exact value below `10^33·10^e`.  That is right
      exactly when the value is at least `(10^34 − 1)·10^(e−1)`: so when the `10^33` came from a carry of the nearest-even
      rounding (`incr_exp`, the only way the helpers deliver it together with G / ML: `contract`), and in general when the
      caller's "nearest" was nearest also across the decade boundary.  `lower_decade_example` exhibits admissible-looking
      inputs (value `(10^33 − 0.4)·10^0`) for which the returned `(10^34 − 1)·10^−1` is not the truncation.  Callers other
      than the helpers (the indicators set by hand in `bid_add_and_round`, e.g. lines 2481–2483) must keep that contract;
      that is outside this file.
    * for `unbexp + 6176 ≥ 2^15` (unbexp ≥ 26592, far beyond what `fma` can produce) the test `exp > 0` of the lower-decade
      branch reads a truncated field; the theorems ask `unbexp ≤ 26591`.
    * several indicators set at once (never delivered by the helpers: `Spec.atMostOne`) are still covered by
      `correction_eval`: `upB` wins over `downB`.
-/
import DecGen.Code
import DecModel.Round
import DecProofs.Core.RoundInt
import DecProofs.Core.Codec
import DecProofs.Properties.C03GenCompare
import DecProofs.Properties.C17GenNext
import DecProofs.Properties.C02RoundHelpers
import DecProofs.Properties.C02GenRound
import Mathlib.Tactic.Ring
import Mathlib.Tactic.Linarith

set_option linter.unusedSimpArgs false
set_option linter.unusedVariables false

namespace Dec.C02GenCorrection
open Dec.Rs Dec.Gen.Code Dec.C03GenCompare

/-- the `U128` holding a 128-bit pattern -/
abbrev ofBits (b : Nat) : U128 := Dec.C17GenNext.ofBits b

/-! ## 1. The routine, with its decisions named -/

/-- the body of `bid_rounding_correction` once the three decisions (`any`: some indicator is set; `up`: add one unit;
`down`: subtract one unit) and the overflow pattern `ovf` are given -/
def corrBody (up down any : Bool) (ovf : UInt64 × UInt64) (unbexp_ : Int32) (ptrres_ : U128) (ptrfpsf_ : UInt32) :
    Except String (U128 × UInt32) := do
  let mut unbexp : Int32 := unbexp_
  let mut ptrfpsf : UInt32 := ptrfpsf_
  let mut res : U128 := ptrres_
  let mut sign : UInt64 := default
  let mut exp : UInt64 := default
  let mut C_hi : UInt64 := default
  let mut C_lo : UInt64 := default
  if any then
    ptrfpsf := (ptrfpsf ||| c_StatusFlags_BID_INEXACT_EXCEPTION)
  sign := (res.w1 &&& c_MASK_SIGN)
  exp := (((UInt64.ofInt (toI ((unbexp + (0x1820 : Int32)))))) <<< 0x31)
  C_hi := (res.w1 &&& c_MASK_COEFF)
  C_lo := res.w0
  if up then
    C_lo := (C_lo + 1)
    if (C_lo == (0 : UInt64)) then
      C_hi := (C_hi + 1)
    if ((C_hi == (0x1ed09bead87c0 : UInt64)) && (C_lo == (0x378d8e6400000000 : UInt64))) then
      C_hi := (0x314dc6448d93 : UInt64)
      C_lo := (0x38c15b0a00000000 : UInt64)
      unbexp := (unbexp + 1)
      exp := (((UInt64.ofInt (toI ((unbexp + (0x1820 : Int32)))))) <<< 0x31)
  else
    if down then
      C_lo := (C_lo - 1)
      if (C_lo == (0xffffffffffffffff : UInt64)) then
        C_hi := (C_hi - 1)
      if ((C_hi == (0x314dc6448d93 : UInt64)) && (C_lo == (0x38c15b09ffffffff : UInt64))) then
        if (decide (exp > (0 : UInt64))) then
          C_hi := (0x1ed09bead87c0 : UInt64)
          C_lo := (0x378d8e63ffffffff : UInt64)
          unbexp := (unbexp - 1)
          exp := (((UInt64.ofInt (toI ((unbexp + (0x1820 : Int32)))))) <<< 0x31)
        else
          ptrfpsf := (ptrfpsf ||| c_StatusFlags_BID_UNDERFLOW_EXCEPTION)
    else
      pure ()
  if (decide (unbexp > c_EXP_MAX_UNBIASED)) then
    ptrfpsf := (ptrfpsf ||| (c_StatusFlags_BID_INEXACT_EXCEPTION ||| c_StatusFlags_BID_OVERFLOW_EXCEPTION))
    exp := (0 : UInt64)
    C_hi := ovf.1
    C_lo := ovf.2
  res := { res with w1 := ((sign ||| exp) ||| C_hi) }
  res := { res with w0 := C_lo }
  return (res, ptrfpsf)

/-- the code's decision "add one unit", from the mode, the sign word and the indicators -/
def upB (m : RoundingMode) (sign : UInt64) (L MG : Bool) : Bool :=
  ((((sign == (0 : UInt64)) && (((((m == RoundingMode.Upward) && L)) || (((((m == RoundingMode.NearestAway) || (m == RoundingMode.Upward))) && MG)))))) || (((sign != (0 : UInt64)) && (((((m == RoundingMode.Downward) && L)) || (((((m == RoundingMode.NearestAway) || (m == RoundingMode.Downward))) && MG)))))))

/-- the code's decision "subtract one unit" (looked at only when `upB` is false) -/
def downB (m : RoundingMode) (sign : UInt64) (G ML : Bool) : Bool :=
  (((ML || G)) && (((((sign != (0 : UInt64)) && (((m == RoundingMode.Upward) || (m == RoundingMode.TowardZero))))) || (((sign == (0 : UInt64)) && (((m == RoundingMode.Downward) || (m == RoundingMode.TowardZero))))))))

/-- the code's overflow pattern -/
def ovfB (m : RoundingMode) (sign : UInt64) : UInt64 × UInt64 :=
  (if (sign == (0 : UInt64)) then (if ((m == RoundingMode.Upward) || (m == RoundingMode.NearestAway)) then ((0x7800000000000000 : UInt64), (0 : UInt64)) else ((0x5fffed09bead87c0 : UInt64), (0x378d8e63ffffffff : UInt64))) else (if ((m == RoundingMode.Downward) || (m == RoundingMode.NearestAway)) then ((0xf800000000000000 : UInt64), (0 : UInt64)) else ((0xdfffed09bead87c0 : UInt64), (0x378d8e63ffffffff : UInt64))))

/-- `bid_rounding_correction` is `corrBody` on the code's own decisions -/
theorem correction_shape (m : RoundingMode) (L G ML MG : Bool) (e : Int32) (res : U128) (f : UInt32) :
    bid_rounding_correction m L G ML MG e res f =
      corrBody (upB m (res.w1 &&& c_MASK_SIGN) L MG) (downB m (res.w1 &&& c_MASK_SIGN) G ML)
        (((L || G) || ML) || MG) (ovfB m (res.w1 &&& c_MASK_SIGN)) e res f := by
  rfl


/-! ## 2. What the body computes, on numbers -/

/-- coefficient, exponent and "tiny" after the unit step with the two decade wraps: `c + 1 = 10^34` becomes `10^33` with
the exponent raised; `c − 1 = 10^33 − 1` becomes `10^34 − 1` with the exponent lowered, unless the exponent is the least
one (then the coefficient stays `10^33 − 1` and the result is tiny) -/
def stepC (up down : Bool) (c : Nat) (e : Int) : Nat × Int × Bool :=
  if up = true then (if c + 1 = P34 then (P33, e + 1, false) else (c + 1, e, false))
  else if down = true then
    (if c = P33 then (if -6176 < e then (P34 - 1, e - 1, false) else (P33 - 1, e, true)) else (c - 1, e, false))
  else (c, e, false)

/-- the status word: inexact if some indicator is set, underflow if the step ended tiny, overflow + inexact if the final
exponent is above `emax` -/
def outF (any uf ov : Bool) (f : UInt32) : UInt32 :=
  let f1 := if any = true then f ||| 0x20 else f
  let f2 := if uf = true then f1 ||| 0x10 else f1
  if ov = true then f2 ||| 0x28 else f2

/-- the result word: the overflow pattern under the sign word, or sign, biased exponent and coefficient packed -/
def outW (ovf : UInt64 × UInt64) (res : U128) (c2 : Nat) (e2 : Int) : U128 :=
  if 6111 < e2 then ⟨ovf.2, ((res.w1 &&& c_MASK_SIGN) ||| 0) ||| ovf.1⟩
  else ofBits ((res.w1.toNat / 2^63 % 2) * 2^127 + (e2 + 6176).toNat * 2^113 + c2)

theorem i32_gt (a b : Int32) : decide (a > b) = decide (b.toInt < a.toInt) := by
  rw [decide_eq_decide, gt_iff_lt, Int32.lt_iff_toInt_lt]

/-- the exponent field as the code forms it: `(unbexp + 6176) as u64 << 49` -/
theorem expField (u : Int32) (uI : Int) (hu : u.toInt = uI) (h1 : -6176 ≤ uI) (h2 : uI < 26592) :
    ((UInt64.ofInt (toI (u + (0x1820 : Int32)))) <<< 0x31).toNat = (uI + 6176).toNat * 2^49 := by
  have hs : (u + (0x1820 : Int32)).toInt = ((uI + 6176).toNat : Int) := by
    rw [Int32.toInt_add, hu, show (0x1820 : Int32).toInt = 6176 from rfl, Dec.C17GenNext.bmod32 _ (by omega) (by omega)]
    omega
  rw [Dec.C17GenNext.shl49 _ _ (Dec.C17GenNext.idx_toNat _ _ hs) (by omega)]

theorem i32_add1 (u : Int32) (uI : Int) (hu : u.toInt = uI) (h2 : uI < 2^30) (h1 : -2^30 < uI) : (u + 1).toInt = uI + 1 := by
  rw [Int32.toInt_add, hu, show (1 : Int32).toInt = 1 from rfl, Dec.C17GenNext.bmod32 _ (by omega) (by omega)]

theorem i32_sub1 (u : Int32) (uI : Int) (hu : u.toInt = uI) (h2 : uI < 2^30) (h1 : -2^30 < uI) : (u - 1).toInt = uI - 1 := by
  rw [Int32.toInt_sub, hu, show (1 : Int32).toInt = 1 from rfl, Dec.C17GenNext.bmod32 _ (by omega) (by omega)]

/-- the last part of the body: overflow test and packing -/
def finishW (ovf : UInt64 × UInt64) (sign exp C_hi C_lo : UInt64) (u : Int32) (f : UInt32) : U128 × UInt32 :=
  if decide (u > c_EXP_MAX_UNBIASED) = true then
    (⟨ovf.2, (sign ||| 0) ||| ovf.1⟩, f ||| (c_StatusFlags_BID_INEXACT_EXCEPTION ||| c_StatusFlags_BID_OVERFLOW_EXCEPTION))
  else (⟨C_lo, (sign ||| exp) ||| C_hi⟩, f)

theorem finishW_eval (ovf : UInt64 × UInt64) (res : U128) (exp C_hi C_lo : UInt64) (u : Int32) (f : UInt32) (uI : Int) (c2 : Nat)
    (hu : u.toInt = uI) (h1 : -6176 ≤ uI) (hx : uI ≤ 6111 → exp.toNat = (uI + 6176).toNat * 2^49)
    (hc : C_hi.toNat * 2^64 + C_lo.toNat = c2) (hlt : c2 < 2^113) :
    finishW ovf (res.w1 &&& c_MASK_SIGN) exp C_hi C_lo u f =
      (outW ovf res c2 uI, if 6111 < uI then f ||| 0x28 else f) := by
  unfold finishW outW
  rw [i32_gt, hu, show c_EXP_MAX_UNBIASED.toInt = 6111 from rfl]
  by_cases ho : 6111 < uI
  · rw [if_pos (by simpa using ho), if_pos ho, if_pos ho]; rfl
  · rw [if_neg (by simpa using ho), if_neg ho, if_neg ho]
    congr 1
    exact Dec.C17GenNext.pack_bits _ _ _ _ (res.w1.toNat / 2^63 % 2) (uI + 6176).toNat c2
      (Dec.C17GenNext.sign_toNat res.w1) (by omega) (hx (by omega)) (by omega) hc hlt


theorem coeff_words (res : U128) : (res.w1 &&& c_MASK_COEFF).toNat * 2^64 + res.w0.toNat = sigW res.w1.toNat res.w0.toNat := by
  unfold sigW
  rw [show c_MASK_COEFF = 0x1ffffffffffff from rfl, coeff_hi]

theorem outF_eq (any uf : Bool) (f : UInt32) (e2 : Int) :
    (if 6111 < e2 then (if uf = true then (if any = true then f ||| 0x20 else f) ||| 0x10 else (if any = true then f ||| 0x20 else f)) ||| 0x28
      else (if uf = true then (if any = true then f ||| 0x20 else f) ||| 0x10 else (if any = true then f ||| 0x20 else f))) =
      outF any uf (decide (6111 < e2)) f := by
  unfold outF
  by_cases h : 6111 < e2
  · simp [h]
  · simp [h]

theorem corrBody_any (up down any : Bool) (ovf : UInt64 × UInt64) (e : Int32) (res : U128) (f : UInt32) :
    corrBody up down any ovf e res f =
      corrBody up down false ovf e res (if any = true then f ||| c_StatusFlags_BID_INEXACT_EXCEPTION else f) := by
  cases any <;> rfl

theorem u64_gt (a b : UInt64) : decide (a > b) = decide (b.toNat < a.toNat) := by
  rw [decide_eq_decide, gt_iff_lt, UInt64.lt_iff_toNat_lt]

theorem beq_words (a b : UInt64) (n : Nat) (hb : b.toNat = n) : (a == b) = decide (a.toNat = n) := by
  rw [Bool.eq_iff_iff, beq_iff_eq, decide_eq_true_eq, ← UInt64.toNat_inj, hb]

/-- **the body, evaluated**: for a coefficient field `c < 10^34` (positive when a unit is subtracted) and an unbiased
exponent in `[−6176, 26591]`, the body returns the stepped coefficient with its exponent packed under the sign — or the
overflow pattern when the final exponent exceeds 6111 — and the status word `outF`; it never panics -/
theorem corrBody_eval (up down any : Bool) (ovf : UInt64 × UInt64) (e : Int32) (res : U128) (f : UInt32) (eI : Int) (c : Nat)
    (he : e.toInt = eI) (h1 : -6176 ≤ eI) (h2 : eI < 26592) (hc : sigW res.w1.toNat res.w0.toNat = c) (hlt : c < P34)
    (hpos : up = false → down = true → 0 < c) :
    corrBody up down any ovf e res f =
      .ok (outW ovf res (stepC up down c eI).1 (stepC up down c eI).2.1,
           outF any (stepC up down c eI).2.2 (decide (6111 < (stepC up down c eI).2.1)) f) := by
  have hw := coeff_words res
  rw [hc] at hw
  have h0 := res.w0.toNat_lt
  have hhi : (res.w1 &&& c_MASK_COEFF).toNat < 2^49 := by
    rw [show c_MASK_COEFF = 0x1ffffffffffff from rfl, coeff_hi]; omega
  have e34 : P34 = 10000000000000000000000000000000000 := rfl
  have e33 : P33 = 1000000000000000000000000000000000 := rfl
  have hx0 := expField e eI he h1 h2
  -- every leaf of the body is `finishW`
  have leaf : ∀ (exp C_hi C_lo : UInt64) (u : Int32) (g : UInt32),
      (if decide (u > c_EXP_MAX_UNBIASED) = true then
        (Except.ok (⟨ovf.2, ((res.w1 &&& c_MASK_SIGN) ||| 0) ||| ovf.1⟩,
          g ||| (c_StatusFlags_BID_INEXACT_EXCEPTION ||| c_StatusFlags_BID_OVERFLOW_EXCEPTION)) : Except String (U128 × UInt32))
       else Except.ok (⟨C_lo, ((res.w1 &&& c_MASK_SIGN) ||| exp) ||| C_hi⟩, g)) =
      .ok (finishW ovf (res.w1 &&& c_MASK_SIGN) exp C_hi C_lo u g) := by
    intro exp C_hi C_lo u g
    unfold finishW
    split <;> rfl
  rw [corrBody_any, ← outF_eq]
  rw [show (if any = true then f ||| c_StatusFlags_BID_INEXACT_EXCEPTION else f) = (if any = true then f ||| 0x20 else f) from rfl]
  generalize (if any = true then f ||| 0x20 else f) = g
  simp only [corrBody, bind, Except.bind, pure, Except.pure, Bool.false_eq_true, if_false, leaf]
  generalize hCH : res.w1 &&& c_MASK_COEFF = CH at *
  generalize hCL : res.w0 = CL at *
  have fin : ∀ (exp C_hi C_lo : UInt64) (u : Int32) (g' : UInt32) (uI : Int) (c2 : Nat),
      u.toInt = uI → -6176 ≤ uI → (uI ≤ 6111 → exp.toNat = (uI + 6176).toNat * 2^49) →
      C_hi.toNat * 2^64 + C_lo.toNat = c2 → c2 < 2^113 →
      (Except.ok (finishW ovf (res.w1 &&& c_MASK_SIGN) exp C_hi C_lo u g') : Except String (U128 × UInt32)) =
        .ok (outW ovf res c2 uI, if 6111 < uI then g' ||| 0x28 else g') := by
    intro exp C_hi C_lo u g' uI c2 a1 a2 a3 a4 a5
    rw [finishW_eval ovf res exp C_hi C_lo u g' uI c2 a1 a2 a3 a4 a5]
  cases up
  · cases down
    · -- no step
      simp only [Bool.false_eq_true, if_false, stepC]
      exact fin _ CH CL e g eI c he h1 (fun _ => hx0) hw (by omega)
    · -- one unit down
      have hcpos := hpos rfl rfl
      simp only [Bool.false_eq_true, if_false, if_true, stepC]
      rw [beq_words (CL - 1) _ 18446744073709551615 (by decide)]
      have hsub : (CL - 1).toNat = (2^64 - 1 + CL.toNat) % 2^64 := by
        rw [UInt64.toNat_sub, UInt64.toNat_one]
      by_cases hb : CL.toNat = 0
      · -- borrow
        have hCHpos : 0 < CH.toNat := by omega
        have hsubH : (CH - 1).toNat = CH.toNat - 1 := by
          rw [UInt64.toNat_sub, UInt64.toNat_one]; omega
        have hsub0 : (CL - 1).toNat = 18446744073709551615 := by rw [hsub, hb]; omega
        rw [if_pos (by rw [hsub0]; exact decide_eq_true rfl)]
        rw [beq_words (CH - 1) _ 54210108624275 (by decide), beq_words (CL - 1) _ 4089650035136921599 (by decide)]
        rw [if_neg (by rw [hsub0]; simp), if_neg (by omega)]
        have hval : (CH - 1).toNat * 2^64 + (CL - 1).toNat = c - 1 := by
          rw [hsubH, hsub0, Nat.sub_mul]; omega
        exact fin _ (CH - 1) (CL - 1) e g eI (c - 1) he h1 (fun _ => hx0) hval (by omega)
      · rw [if_neg (by rw [hsub, decide_eq_true_eq]; omega)]
        have hsub' : (CL - 1).toNat = CL.toNat - 1 := by rw [hsub]; omega
        rw [beq_words CH _ 54210108624275 (by decide), beq_words (CL - 1) _ 4089650035136921599 (by decide)]
        by_cases hw33 : c = P33
        · rw [if_pos (by rw [hsub']; simp only [Bool.and_eq_true, decide_eq_true_eq]; omega), if_pos hw33]
          rw [u64_gt, hx0, UInt64.toNat_zero]
          by_cases hE : -6176 < eI
          · rw [if_pos (by simp only [decide_eq_true_eq]; omega), if_pos hE]
            have hu := i32_sub1 e eI he (by omega) (by omega)
            exact fin _ _ _ (e - 1) g (eI - 1) (P34 - 1) hu (by omega)
              (fun _ => expField (e - 1) (eI - 1) hu (by omega) (by omega)) (by rw [e34]; decide) (by omega)
          · rw [if_neg (by simp only [decide_eq_true_eq]; omega), if_neg hE]
            have := fin _ CH (CL - 1) e (g ||| c_StatusFlags_BID_UNDERFLOW_EXCEPTION) eI (P33 - 1) he h1 (fun _ => hx0)
              (by rw [hsub']; omega) (by omega)
            rw [this]
            rfl
        · rw [if_neg (by rw [hsub']; simp only [Bool.and_eq_true, decide_eq_true_eq]; omega), if_neg hw33]
          exact fin _ CH (CL - 1) e g eI (c - 1) he h1 (fun _ => hx0) (by rw [hsub']; omega) (by omega)
  · -- one unit up
    simp only [if_true, stepC]
    rw [beq_words (CL + 1) _ 0 (by decide)]
    have hadd : (CL + 1).toNat = (CL.toNat + 1) % 2^64 := by rw [UInt64.toNat_add, UInt64.toNat_one]
    by_cases hcarry : CL.toNat = 18446744073709551615
    · have haddH : (CH + 1).toNat = CH.toNat + 1 := by
        rw [UInt64.toNat_add, UInt64.toNat_one]; omega
      have hadd0 : (CL + 1).toNat = 0 := by rw [hadd, hcarry]; omega
      rw [if_pos (by rw [hadd0]; exact decide_eq_true rfl)]
      rw [beq_words (CH + 1) _ 542101086242752 (by decide), beq_words (CL + 1) _ 4003012203950112768 (by decide)]
      rw [if_neg (by rw [hadd0]; simp), if_neg (by omega)]
      have hval : (CH + 1).toNat * 2^64 + (CL + 1).toNat = c + 1 := by
        rw [haddH, hadd0, Nat.add_mul]; linarith
      exact fin _ (CH + 1) (CL + 1) e g eI (c + 1) he h1 (fun _ => hx0) hval (by omega)
    · have hadd' : (CL + 1).toNat = CL.toNat + 1 := by rw [hadd]; omega
      rw [if_neg (by rw [hadd', decide_eq_true_eq]; omega)]
      rw [beq_words CH _ 542101086242752 (by decide), beq_words (CL + 1) _ 4003012203950112768 (by decide)]
      by_cases hw34 : c + 1 = P34
      · rw [if_pos (by rw [hadd']; simp only [Bool.and_eq_true, decide_eq_true_eq]; omega), if_pos hw34]
        have hu := i32_add1 e eI he (by omega) (by omega)
        exact fin _ _ _ (e + 1) g (eI + 1) P33 hu (by omega)
          (fun hle => expField (e + 1) (eI + 1) hu (by omega) (by omega)) (by rw [e33]; decide) (by omega)
      · rw [if_neg (by rw [hadd']; simp only [Bool.and_eq_true, decide_eq_true_eq]; omega), if_neg hw34]
        exact fin _ CH (CL + 1) e g eI (c + 1) he h1 (fun _ => hx0) (by rw [hadd']; omega) (by omega)


/-! ## 3. The table the code implements, and why it is the right one -/

/-- the model's name of a rounding mode of the crate -/
def modeOf : RoundingMode → Mode
  | .NearestEven => .rne
  | .Downward => .rdn
  | .Upward => .rup
  | .TowardZero => .rtz
  | .NearestAway => .rna

/-- "add one unit", by mode, sign (`s` = negative) and indicators: the directed mode pointing away from zero adds on
`inexact_lt_midpoint` and on `midpoint_gt_even` (the exact magnitude is above the delivered one); ties-away adds on
`midpoint_gt_even` -/
def upD (m : RoundingMode) (s L MG : Bool) : Bool :=
  match m with
  | .Upward => !s && (L || MG)
  | .Downward => s && (L || MG)
  | .NearestAway => MG
  | _ => false

/-- "subtract one unit": the modes that truncate the magnitude subtract on `inexact_gt_midpoint` and on `midpoint_lt_even`
(the exact magnitude is below the delivered one) -/
def downD (m : RoundingMode) (s G ML : Bool) : Bool :=
  match m with
  | .Upward => s && (ML || G)
  | .Downward => !s && (ML || G)
  | .TowardZero => ML || G
  | _ => false

/-- the table, as a number: +1, −1 or 0 -/
def corrI (m : RoundingMode) (s L G ML MG : Bool) : Int :=
  if upD m s L MG = true then 1 else if downD m s G ML = true then -1 else 0

theorem sign_beq (w : UInt64) : (w &&& c_MASK_SIGN == 0) = !negW w.toNat := by
  rw [show c_MASK_SIGN = 0x8000000000000000 from rfl, Dec.C17GenNext.sign_zero_test]
  unfold negW
  rw [Bool.eq_iff_iff]; simp

theorem sign_bne (w : UInt64) : (w &&& c_MASK_SIGN != 0) = negW w.toNat := by
  rw [bne, sign_beq, Bool.not_not]

theorem upB_eq (m : RoundingMode) (w : UInt64) (L MG : Bool) :
    upB m (w &&& c_MASK_SIGN) L MG = upD m (negW w.toNat) L MG := by
  unfold upB
  rw [sign_beq, sign_bne]
  generalize negW w.toNat = s
  cases m <;> cases s <;> cases L <;> cases MG <;> rfl

theorem downB_eq (m : RoundingMode) (w : UInt64) (G ML : Bool) :
    downB m (w &&& c_MASK_SIGN) G ML = downD m (negW w.toNat) G ML := by
  unfold downB
  rw [sign_beq, sign_bne]
  generalize negW w.toNat = s
  cases m <;> cases s <;> cases G <;> cases ML <;> rfl

/-- **the table is the right one.**  Let the exact magnitude be `V/D` units of the last place, `c` its rounding to nearest-even,
and let the indicators say where `V/D` lies relative to `c`: `L` strictly between `c` and `c + ½`, `G` strictly between
`c − ½` and `c`, `ML` at `c − ½`, `MG` at `c + ½`.  Then `c` plus the code's correction is `V/D` rounded in the mode `m`
for the sign `s`, in the sense of `RoundedInt` (`DecProofs/Core/RoundInt.lean`) — for all five modes and both signs. -/
theorem table_correct (m : RoundingMode) (s : Bool) (V D c : Nat) (L G ML MG : Bool) (hD : 0 < D)
    (hne : RoundedInt .rne s V D c)
    (hL : L = decide (c * D < V ∧ 2 * V < 2 * (c * D) + D)) (hG : G = decide (V < c * D ∧ 2 * (c * D) < 2 * V + D))
    (hML : ML = decide (2 * V + D = 2 * (c * D))) (hMG : MG = decide (2 * V = 2 * (c * D) + D)) :
    RoundedInt (modeOf m) s V D (c + corrI m s L G ML MG).toNat := by
  have e3 : ∀ a : Nat, 2 * a * D = 2 * (a * D) := fun a => Nat.mul_assoc _ _ _
  have hc1 : (c + 1) * D = c * D + D := by rw [Nat.add_mul, Nat.one_mul]
  have hc0 : V < c * D → (c - 1) * D = c * D - D := by
    intro h
    have : 0 < c := Nat.pos_of_ne_zero (fun h0 => by rw [h0, Nat.zero_mul] at h; omega)
    rw [Nat.sub_mul, Nat.one_mul]
  have hpar1 : (c + 1) % 2 = 0 → c % 2 = 1 := by omega
  simp only [RoundedInt, e3] at hne
  obtain ⟨⟨n1, n2⟩, n3⟩ := hne
  subst hL hG hML hMG
  unfold corrI
  by_cases hup : upD m s (decide (c * D < V ∧ 2 * V < 2 * (c * D) + D)) (decide (2 * V = 2 * (c * D) + D)) = true
  · rw [if_pos hup, show (c + (1 : Int)).toNat = c + 1 by omega]
    cases m <;> cases s <;>
      simp only [upD, modeOf, RoundedInt, Bool.not_true, Bool.not_false, Bool.false_and, Bool.true_and, Bool.or_eq_true,
        decide_eq_true_eq, Bool.false_eq_true, if_false, if_true, e3, hc1] at hup ⊢ <;> omega
  · rw [if_neg hup]
    by_cases hdn : downD m s (decide (V < c * D ∧ 2 * (c * D) < 2 * V + D)) (decide (2 * V + D = 2 * (c * D))) = true
    · rw [if_pos hdn]
      have hlt : V < c * D := by
        cases m <;> cases s <;>
          simp only [downD, Bool.not_true, Bool.not_false, Bool.false_and, Bool.true_and, Bool.or_eq_true,
            decide_eq_true_eq, Bool.false_eq_true] at hdn <;> omega
      have hcpos : 0 < c := Nat.pos_of_ne_zero (fun h0 => by rw [h0, Nat.zero_mul] at hlt; omega)
      rw [show (c + (-1 : Int)).toNat = c - 1 by omega]
      have hm := hc0 hlt
      cases m <;> cases s <;>
        simp only [downD, modeOf, RoundedInt, Bool.not_true, Bool.not_false, Bool.false_and, Bool.true_and, Bool.or_eq_true,
          decide_eq_true_eq, Bool.false_eq_true, if_false, if_true, e3] at hdn ⊢ <;> omega
    · rw [if_neg hdn, Int.add_zero, Int.toNat_natCast]
      cases m <;> cases s <;>
        simp only [upD, downD, modeOf, RoundedInt, Bool.not_true, Bool.not_false, Bool.false_and, Bool.true_and,
          Bool.or_eq_true, decide_eq_true_eq, Bool.false_eq_true, if_false, if_true, e3, not_or, not_and, not_false_eq_true] at hup hdn ⊢ <;>
        omega


/-! ## 4. The routine, evaluated -/

/-- **`bid_rounding_correction`, evaluated** — every mode, every combination of the indicators (also several at once),
every status word: for a coefficient field `c < 10^34` in `res` (its exponent field is ignored; `c > 0` when the table says
−1) and `−6176 ≤ unbexp ≤ 26591` the routine returns the coefficient stepped by the table (`stepC`), packed with the sign of
`res` and the biased exponent — or the overflow pattern when the final exponent exceeds 6111 — and the status word `outF`:
inexact iff some indicator is set, underflow iff the step went from `10^33` to `10^33 − 1` at the least exponent,
overflow + inexact iff the final exponent exceeds 6111.  It never panics. -/
theorem correction_eval (m : RoundingMode) (L G ML MG : Bool) (e : Int32) (res : U128) (f : UInt32) (eI : Int) (c : Nat)
    (he : e.toInt = eI) (h1 : -6176 ≤ eI) (h2 : eI < 26592) (hc : sigW res.w1.toNat res.w0.toNat = c) (hlt : c < P34)
    (hpos : upD m (negW res.w1.toNat) L MG = false → downD m (negW res.w1.toNat) G ML = true → 0 < c) :
    bid_rounding_correction m L G ML MG e res f =
      .ok (outW (ovfB m (res.w1 &&& c_MASK_SIGN)) res
              (stepC (upD m (negW res.w1.toNat) L MG) (downD m (negW res.w1.toNat) G ML) c eI).1
              (stepC (upD m (negW res.w1.toNat) L MG) (downD m (negW res.w1.toNat) G ML) c eI).2.1,
           outF (L || G || ML || MG)
              (stepC (upD m (negW res.w1.toNat) L MG) (downD m (negW res.w1.toNat) G ML) c eI).2.2
              (decide (6111 < (stepC (upD m (negW res.w1.toNat) L MG) (downD m (negW res.w1.toNat) G ML) c eI).2.1)) f) := by
  rw [correction_shape, upB_eq, downB_eq]
  exact corrBody_eval _ _ _ _ e res f eI c he h1 h2 hc hlt hpos

/-- the datum the code returns on overflow -/
def ovfDatum (m : RoundingMode) (s : Bool) : Datum :=
  if s = true then (if m = .Downward ∨ m = .NearestAway then .inf true else .fin true (P34 - 1) eMax)
  else (if m = .Upward ∨ m = .NearestAway then .inf false else .fin false (P34 - 1) eMax)

/-- the overflow pattern under the sign word is the canonical encoding of `ovfDatum` -/
theorem ovf_word (m : RoundingMode) (res : U128) :
    (⟨(ovfB m (res.w1 &&& c_MASK_SIGN)).2, ((res.w1 &&& c_MASK_SIGN) ||| 0) ||| (ovfB m (res.w1 &&& c_MASK_SIGN)).1⟩ : U128) =
      ofBits (encode (ovfDatum m (negW res.w1.toNat))) := by
  have hs := Dec.C17GenNext.sign_toNat res.w1
  unfold ovfB ovfDatum
  rw [sign_beq]
  by_cases hn : res.w1.toNat / 2^63 % 2 = 1
  · have hneg : negW res.w1.toNat = true := by unfold negW; simpa using hn
    have hw : res.w1 &&& c_MASK_SIGN = 0x8000000000000000 := by
      rw [← UInt64.toNat_inj, show c_MASK_SIGN = 0x8000000000000000 from rfl, hs, hn]; rfl
    rw [hneg, hw]
    cases m <;> decide +kernel
  · have hneg : negW res.w1.toNat = false := by unfold negW; simpa using hn
    have hw : res.w1 &&& c_MASK_SIGN = 0 := by
      rw [← UInt64.toNat_inj, show c_MASK_SIGN = 0x8000000000000000 from rfl, hs]
      have : res.w1.toNat / 2^63 % 2 = 0 := by omega
      rw [this]; rfl
    rw [hneg, hw]
    cases m <;> decide +kernel

/-- for the four modes the routine is meant for, the overflow result is the model's `overflowResult` -/
theorem ovfDatum_model (m : RoundingMode) (s : Bool) (hm : m ≠ .NearestEven) :
    ovfDatum m s = overflowResult (modeOf m) s := by
  cases m <;> cases s <;> first | rfl | exact absurd rfl hm

/-- FINDING (not reached by the callers, which handle nearest-even overflow themselves — bid128_fma.rs lines 1462, 2279,
2420, 3128 — and guard the other calls by `rnd_mode != NearestEven`; the one unguarded call, line 1822, passes an exponent
that cannot overflow): called with `NearestEven` and an exponent above 6111 the routine returns the largest finite number,
where rounding to nearest-even overflows to infinity -/
theorem ovfDatum_nearestEven (s : Bool) :
    ovfDatum .NearestEven s = .fin s (P34 - 1) eMax ∧ overflowResult .rne s = .inf s := by
  cases s <;> exact ⟨rfl, rfl⟩

-- the routine itself on +1·10^33 × 10^6112 in mode NearestEven (nothing to correct): +MAX, overflow + inexact
example : bid_rounding_correction .NearestEven false false false false 6112 ⟨0x38c15b0a00000000, 0x314dc6448d93⟩ 0 =
    .ok (⟨0x378d8e63ffffffff, 0x5fffed09bead87c0⟩, 0x28) := by rfl

/-! ## 5. The corrected result is the exact value rounded once, in the mode asked for -/

/-- how a nearest-even value of `cf ≤ 10^34` units of `10^ef` is handed to the routine: as it is, or — when the rounding
carried into a 35th digit, `cf = 10^34` — as `10^33` with the exponent raised (`incr_exp` of the rounding helpers) -/
def deliver (cf : Nat) (ef : Int) : Nat × Int := if cf = P34 then (P33, ef + 1) else (cf, ef)

/-- the correction as a number -/
def corrOf (up down : Bool) : Int := if up = true then 1 else if down = true then -1 else 0

theorem corrI_eq (m : RoundingMode) (s L G ML MG : Bool) : corrI m s L G ML MG = corrOf (upD m s L MG) (downD m s G ML) := rfl

/-- **the unit step with its decade wraps, on values.**  Let the routine be handed `deliver cf ef`.  If the table says +1 only
when `cf < 10^34`, and −1 at `cf = 10^33` only at the least exponent (both hold when the indicators come from the rounding
helpers: see `contract`), then the stepped coefficient `c2` at exponent `e2` is `cf + corr` units of `10^ef`, renormalised to at
most 34 digits: `c2·10^(e2 − ef) = cf + corr`, `ef ≤ e2 ≤ ef + 1`, `c2 < 10^34`; "tiny" is reported exactly when
`10^33·10^emin` was lowered to `(10^33 − 1)·10^emin`. -/
theorem step_value (up down : Bool) (cf : Nat) (ef : Int) (hcf : cf ≤ P34) (hup : up = true → cf < P34)
    (hpos : up = false → down = true → 0 < cf)
    (hlow : up = false → down = true → cf = P33 → ef = -6176) (hef : -6176 ≤ ef) :
    ((stepC up down (deliver cf ef).1 (deliver cf ef).2).1 *
        10 ^ ((stepC up down (deliver cf ef).1 (deliver cf ef).2).2.1 - ef).toNat : Nat) = (cf + corrOf up down).toNat ∧
    ef ≤ (stepC up down (deliver cf ef).1 (deliver cf ef).2).2.1 ∧
    (stepC up down (deliver cf ef).1 (deliver cf ef).2).2.1 ≤ ef + 1 ∧
    (stepC up down (deliver cf ef).1 (deliver cf ef).2).1 < P34 ∧
    ((stepC up down (deliver cf ef).1 (deliver cf ef).2).2.2 = true ↔ (up = false ∧ down = true ∧ cf = P33)) := by
  have e34 : P34 = 10000000000000000000000000000000000 := rfl
  have e33 : P33 = 1000000000000000000000000000000000 := rfl
  unfold deliver stepC corrOf
  have p0 : (10:Nat) ^ (ef - ef).toNat = 1 := by rw [Int.sub_self]; rfl
  have p1 : (10:Nat) ^ (ef + 1 - ef).toNat = 10 := by rw [show ef + 1 - ef = 1 by omega]; rfl
  have p2 : (10:Nat) ^ (ef + 1 - 1 - ef).toNat = 1 := by rw [show ef + 1 - 1 - ef = 0 by omega]; rfl
  by_cases h34 : cf = P34
  · -- delivered as 10^33 with the exponent raised
    simp only [h34, if_true]
    cases up
    · cases down
      · simp only [Bool.false_eq_true, if_false, p1]
        refine ⟨by omega, by omega, by omega, by omega, by simp⟩
      · simp only [Bool.false_eq_true, if_false, if_true]
        rw [if_pos (by omega)]
        simp only [p2]
        refine ⟨by omega, by omega, by omega, by omega, by simp; omega⟩
    · exact absurd (hup rfl) (by omega)
  · simp only [h34, if_false]
    cases up
    · cases down
      · simp only [Bool.false_eq_true, if_false, p0]
        refine ⟨by omega, by omega, by omega, by omega, by simp⟩
      · have hp := hpos rfl rfl
        simp only [Bool.false_eq_true, if_false, if_true]
        by_cases h33 : cf = P33
        · have := hlow rfl rfl h33
          rw [if_pos h33, if_neg (by omega)]
          simp only [p0]
          refine ⟨by omega, by omega, by omega, by omega, by simp [h33]⟩
        · rw [if_neg h33]
          simp only [p0]
          refine ⟨by omega, by omega, by omega, by omega, by simp [h33]⟩
    · have hlt := hup rfl
      simp only [if_true]
      by_cases hw : cf + 1 = P34
      · rw [if_pos hw]
        simp only [p1]
        refine ⟨by omega, by omega, by omega, by omega, by simp⟩
      · rw [if_neg hw]
        simp only [p0]
        refine ⟨by omega, by omega, by omega, by omega, by simp⟩


/-- the result word is the canonical encoding of the overflow datum, or of sign · coefficient · 10^exponent -/
theorem outW_eq (m : RoundingMode) (res : U128) (c2 : Nat) (e2 : Int) :
    outW (ovfB m (res.w1 &&& c_MASK_SIGN)) res c2 e2 =
      ofBits (encode (if 6111 < e2 then ovfDatum m (negW res.w1.toNat) else .fin (negW res.w1.toNat) c2 e2)) := by
  unfold outW
  by_cases h : 6111 < e2
  · rw [if_pos h, if_pos h, ovf_word]
  · rw [if_neg h, if_neg h]
    congr 1
    unfold negW encode signBit
    by_cases hn : res.w1.toNat / 2^63 % 2 = 1
    · rw [hn]; simp
    · have : res.w1.toNat / 2^63 % 2 = 0 := by omega
      rw [this]; simp

/-- **`bid_rounding_correction` — specification.**
Let the exact magnitude be `V/D` units of `10^ef`, and `cf ≤ 10^34` its rounding to nearest-even (`RoundedInt .rne`), handed to
the routine as `deliver cf ef` (coefficient field of `res`, `unbexp`) with the sign in `res`; let the four indicators say
where `V/D` lies relative to `cf` (`L`: in `(cf, cf + ½)`; `G`: in `(cf − ½, cf)`; `ML`: `= cf − ½`; `MG`: `= cf + ½`).
Suppose the value is not above a carried `cf = 10^34`, and not below `cf = 10^33` unless `ef` is the least exponent (what the
rounding helpers guarantee: `contract`).  Then the routine returns `.ok (word, status)` where, with `c2`, `e2` the stepped
coefficient and exponent:
  * `c2·10^(e2 − ef)` IS `V/D` ROUNDED IN THE MODE `m` (for the sign of `res`): `RoundedInt (modeOf m) s V D (c2·10^(e2−ef))`,
    with `ef ≤ e2 ≤ ef + 1` and `c2 < 10^34` (renormalised to at most 34 digits);
  * `word` is the canonical encoding of `± c2·10^e2` when `e2 ≤ 6111`, else of the overflow datum `ovfDatum m s`
    (the model's `overflowResult` for the four modes other than nearest-even);
  * `status` is the incoming word with inexact or-ed in iff some indicator is set, underflow iff `10^33·10^−6176` was lowered to
    `(10^33 − 1)·10^−6176`, overflow + inexact iff `e2 > 6111`. -/
theorem correction_spec (m : RoundingMode) (L G ML MG : Bool) (e : Int32) (res : U128) (f : UInt32)
    (V D cf : Nat) (ef : Int) (hD : 0 < D)
    (hne : RoundedInt .rne (negW res.w1.toNat) V D cf)
    (hL : L = decide (cf * D < V ∧ 2 * V < 2 * (cf * D) + D)) (hG : G = decide (V < cf * D ∧ 2 * (cf * D) < 2 * V + D))
    (hML : ML = decide (2 * V + D = 2 * (cf * D))) (hMG : MG = decide (2 * V = 2 * (cf * D) + D))
    (hcf : cf ≤ P34) (hcarry : cf = P34 → V ≤ cf * D) (hlow : V < cf * D → cf = P33 → ef = -6176)
    (hef1 : -6176 ≤ ef) (hef2 : ef < 26590)
    (hc : sigW res.w1.toNat res.w0.toNat = (deliver cf ef).1) (he : e.toInt = (deliver cf ef).2) :
    ∃ (c2 : Nat) (e2 : Int) (uf : Bool),
      bid_rounding_correction m L G ML MG e res f =
        .ok (ofBits (encode (if 6111 < e2 then ovfDatum m (negW res.w1.toNat) else .fin (negW res.w1.toNat) c2 e2)),
             outF (L || G || ML || MG) uf (decide (6111 < e2)) f) ∧
      RoundedInt (modeOf m) (negW res.w1.toNat) V D (c2 * 10 ^ (e2 - ef).toNat) ∧
      ef ≤ e2 ∧ e2 ≤ ef + 1 ∧ c2 < P34 ∧
      (uf = true ↔ (corrI m (negW res.w1.toNat) L G ML MG = -1 ∧ cf = P33)) := by
  have e34 : P34 = 10000000000000000000000000000000000 := rfl
  have e33 : P33 = 1000000000000000000000000000000000 := rfl
  generalize hs : negW res.w1.toNat = s at *
  have htab := table_correct m s V D cf L G ML MG hD hne hL hG hML hMG
  -- what the table's decisions imply about the value
  have upV : upD m s L MG = true → cf * D < V := by
    intro h
    subst hL hMG
    cases m <;> cases s <;> simp only [upD, Bool.not_true, Bool.not_false, Bool.false_and, Bool.true_and, Bool.or_eq_true,
      decide_eq_true_eq, Bool.false_eq_true] at h <;> omega
  have dnV : downD m s G ML = true → V < cf * D := by
    intro h
    subst hG hML
    cases m <;> cases s <;> simp only [downD, Bool.not_true, Bool.not_false, Bool.false_and, Bool.true_and, Bool.or_eq_true,
      decide_eq_true_eq, Bool.false_eq_true] at h <;> omega
  have hup : upD m s L MG = true → cf < P34 := by
    intro h
    have := upV h
    by_contra hcon
    have := hcarry (by omega)
    omega
  have hpos : upD m s L MG = false → downD m s G ML = true → 0 < cf := by
    intro _ h
    have := dnV h
    exact Nat.pos_of_ne_zero (fun h0 => by rw [h0, Nat.zero_mul] at this; omega)
  obtain ⟨v1, v2, v3, v4, v5⟩ := step_value (upD m s L MG) (downD m s G ML) cf ef hcf hup hpos
    (fun _ h => hlow (dnV h)) hef1
  have hd1 : (deliver cf ef).1 < P34 := by unfold deliver; split <;> simp only [] <;> omega
  have hd2 : -6176 ≤ (deliver cf ef).2 ∧ (deliver cf ef).2 < 26592 := by unfold deliver; split <;> simp only [] <;> omega
  have hpos' : upD m (negW res.w1.toNat) L MG = false → downD m (negW res.w1.toNat) G ML = true → 0 < (deliver cf ef).1 := by
    rw [hs]
    intro a b
    have := hpos a b
    unfold deliver; split <;> simp only [] <;> omega
  have hev := correction_eval m L G ML MG e res f _ _ he hd2.1 hd2.2 hc hd1 hpos'
  rw [hs, outW_eq, hs] at hev
  refine ⟨_, _, _, hev, ?_, v2, v3, v4, ?_⟩
  · rw [v1, ← corrI_eq]; exact htab
  · rw [v5, corrI_eq]
    unfold corrOf
    constructor
    · rintro ⟨a, b, c⟩; rw [a, b]; simp [c]
    · rintro ⟨a, c⟩
      refine ⟨?_, ?_, c⟩
      · by_contra hcon
        rw [if_pos (by simpa using hcon)] at a; omega
      · by_contra hcon
        have hu : upD m s L MG = false := by
          by_contra hcon2
          rw [if_pos (by simpa using hcon2)] at a; omega
        rw [hu] at a
        simp only [Bool.false_eq_true, if_false] at a
        rw [if_neg hcon] at a; omega

open Dec.C02RoundHelpers (Spec rne rne_eq rne_rounded)

/-! ## 6. The callers' contract: rounding helper, then correction = one rounding in the mode asked for -/

theorem pow_split (x : Nat) (hx : 1 ≤ x) : ∃ h, 0 < h ∧ 10 ^ x = 2 * h ∧ 10 ^ x / 2 = h := by
  obtain ⟨y, rfl⟩ : ∃ y, x = y + 1 := ⟨x - 1, by omega⟩
  refine ⟨5 * 10 ^ y, Nat.mul_pos (by decide) (Nat.pow_pos (by decide)), by rw [Nat.pow_succ]; omega, by rw [Nat.pow_succ]; omega⟩

/-- **the contract.**  What a rounding helper hands back for a `q`-digit `C` rounded to 34 digits (`q = x + 34`, `Spec` of
`C02RoundHelpers`, proved of the translated helpers in `C02GenRound`) meets every hypothesis of `correction_spec`, with the
exact magnitude `C` units of `10^e0` = `C/10^x` units of the last kept place, `cf = rne C x`, and `(C*, incr_exp)` the delivered
form: `cf` is the nearest-even rounding, the indicators say where the value lies, a carried `10^34` lies above the value, and
the value is never below a delivered `10^33` (the decrement never crosses into the lower decade from an un-carried
coefficient: `C* − 1 ≥ 10^33`). -/
theorem contract (x C cstar : Nat) (incr : Bool) (fl : Dec.RH.Ind) (sp : Spec (x + 34) x C cstar incr fl) (hx : 1 ≤ x)
    (hlo : 10 ^ (x + 33) ≤ C) (hhi : C < 10 ^ (x + 34)) (s : Bool) (ef : Int) :
    RoundedInt .rne s C (10 ^ x) (rne C x) ∧
    fl.inexLtMid = decide (rne C x * 10 ^ x < C ∧ 2 * C < 2 * (rne C x * 10 ^ x) + 10 ^ x) ∧
    fl.inexGtMid = decide (C < rne C x * 10 ^ x ∧ 2 * (rne C x * 10 ^ x) < 2 * C + 10 ^ x) ∧
    fl.midLtEven = decide (2 * C + 10 ^ x = 2 * (rne C x * 10 ^ x)) ∧
    fl.midGtEven = decide (2 * C = 2 * (rne C x * 10 ^ x) + 10 ^ x) ∧
    rne C x ≤ P34 ∧ (rne C x = P34 → C ≤ rne C x * 10 ^ x) ∧ (C < rne C x * 10 ^ x → rne C x ≠ P33) ∧
    deliver (rne C x) ef = (cstar, ef + if incr = true then 1 else 0) := by
  have e34 : P34 = 10 ^ 34 := by decide
  have e33 : P33 = 10 ^ 33 := by decide
  have hq : x + 34 - x = 34 := by omega
  have hq' : x + 34 - x - 1 = 33 := by omega
  obtain ⟨c1, c2, c3, c4, c5, c6⟩ := sp
  rw [hq] at c1 c2
  rw [show 34 - 1 = 33 from rfl] at c1
  obtain ⟨h, hh, hD, hh2⟩ := pow_split x hx
  have hr := rne_eq C x hx
  rw [hh2] at c3 c4 c5 c6 hr
  have hdm := Nat.div_add_mod C (10 ^ x)
  have hrl := Nat.mod_lt C (Nat.pow_pos (by decide) : 0 < 10 ^ x)
  have ha1 : C / 10 ^ x < 10 ^ 34 := by
    rw [Nat.div_lt_iff_lt_mul (Nat.pow_pos (by decide)), ← Nat.pow_add, Nat.add_comm]; exact hhi
  have ha2 : 10 ^ 33 ≤ C / 10 ^ x := by
    rw [Nat.le_div_iff_mul_le (Nat.pow_pos (by decide)), ← Nat.pow_add, Nat.add_comm]; exact hlo
  have hne : RoundedInt .rne s C (10 ^ x) (rne C x) := rne_rounded C x
  refine ⟨hne, ?_⟩
  have hsucc : (C / 10 ^ x + 1) * 10 ^ x = C / 10 ^ x * 10 ^ x + 10 ^ x := by rw [Nat.add_mul, Nat.one_mul]
  have hcomm : 10 ^ x * (C / 10 ^ x) = C / 10 ^ x * 10 ^ x := Nat.mul_comm _ _
  rw [hcomm] at hdm
  generalize hR : rne C x = R at *
  generalize ha : C / 10 ^ x = a at *
  generalize hrr : C % 10 ^ x = r at *
  generalize hDD : 10 ^ x = D at *
  generalize hP : a * D = P at *
  clear hne
  -- the delivered form
  have hdel : deliver R ef = (cstar, ef + if incr = true then 1 else 0) := by
    unfold deliver
    rw [e34, e33]
    by_cases hc : R = 10 ^ 34
    · rw [if_pos hc, c1, if_pos hc, c2.2 hc]; rfl
    · rw [if_neg hc, c1, if_neg hc]
      have : incr = false := by
        cases hi : incr
        · rfl
        · exact absurd (c2.1 hi) hc
      rw [this]; simp
  -- R is a or a + 1
  have hRD : (R = a ∧ R * D = P) ∨ (R = a + 1 ∧ R * D = P + D) := by
    split at hr
    · left; exact ⟨hr, by rw [hr, hP]⟩
    · split at hr
      · right; exact ⟨hr, by rw [hr, hsucc]⟩
      · split at hr
        · left; exact ⟨hr, by rw [hr, hP]⟩
        · right; exact ⟨hr, by rw [hr, hsucc]⟩
  have b2d : ∀ (b : Bool) (p : Prop) [Decidable p], (b = true ↔ p) → b = decide p := by
    intro b p _ hbp
    cases b
    · exact (decide_eq_false (fun hp => Bool.noConfusion (hbp.2 hp))).symm
    · exact (decide_eq_true (hbp.1 rfl)).symm
  rw [e34, e33]
  refine ⟨b2d _ _ ?_, b2d _ _ ?_, b2d _ _ ?_, b2d _ _ ?_, ?_, ?_, ?_, hdel⟩
  · rw [c5]; rcases hRD with ⟨h1, h2⟩ | ⟨h1, h2⟩ <;> rw [h2] <;> split at hr <;> (try split at hr) <;> (try split at hr) <;> omega
  · rw [c6]; rcases hRD with ⟨h1, h2⟩ | ⟨h1, h2⟩ <;> rw [h2] <;> split at hr <;> (try split at hr) <;> (try split at hr) <;> omega
  · rw [c3]; rcases hRD with ⟨h1, h2⟩ | ⟨h1, h2⟩ <;> rw [h2] <;> split at hr <;> (try split at hr) <;> (try split at hr) <;> omega
  · rw [c4]; rcases hRD with ⟨h1, h2⟩ | ⟨h1, h2⟩ <;> rw [h2] <;> split at hr <;> (try split at hr) <;> (try split at hr) <;> omega
  · rcases hRD with ⟨h1, _⟩ | ⟨h1, _⟩ <;> omega
  · intro h34
    rcases hRD with ⟨h1, h2⟩ | ⟨h1, h2⟩ <;> rw [h2] <;> omega
  · intro hlt
    rcases hRD with ⟨h1, h2⟩ | ⟨h1, h2⟩ <;> rw [h2] at hlt <;> omega


/-- **rounding helper, then correction = one rounding in the mode asked for.**  Let a helper have rounded the `q`-digit `C` to 34
digits (`Spec`), let `res` carry the sign and `C*` as its coefficient field, and `unbexp` be the exponent `ef` of the last
kept place, plus one if `incr_exp`.  Then `bid_rounding_correction`, given the helper's four indicators, returns the
coefficient `c2` and exponent `e2` with

      c2 · 10^(e2 − ef)  =  roundInt (modeOf m) sign ⌊C/10^x⌋ (C mod 10^x) 10^x

— the model's single rounding of the exact value in the mode `m` —, `ef ≤ e2 ≤ ef + 1`, `c2 < 10^34`, packed canonically (or
the overflow datum when `e2 > 6111`), inexact or-ed in iff `C mod 10^x ≠ 0` (some indicator set), overflow + inexact iff
`e2 > 6111`, and underflow never. -/
theorem helper_then_correction (m : RoundingMode) (x C cstar : Nat) (incr : Bool) (fl : Dec.RH.Ind)
    (sp : Spec (x + 34) x C cstar incr fl) (hx : 1 ≤ x) (hlo : 10 ^ (x + 33) ≤ C) (hhi : C < 10 ^ (x + 34))
    (e : Int32) (res : U128) (f : UInt32) (ef : Int) (hef1 : -6176 ≤ ef) (hef2 : ef < 26590)
    (hc : sigW res.w1.toNat res.w0.toNat = cstar) (he : e.toInt = ef + if incr = true then 1 else 0) :
    ∃ (c2 : Nat) (e2 : Int),
      bid_rounding_correction m fl.inexLtMid fl.inexGtMid fl.midLtEven fl.midGtEven e res f =
        .ok (ofBits (encode (if 6111 < e2 then ovfDatum m (negW res.w1.toNat) else .fin (negW res.w1.toNat) c2 e2)),
             outF (fl.inexLtMid || fl.inexGtMid || fl.midLtEven || fl.midGtEven) false (decide (6111 < e2)) f) ∧
      c2 * 10 ^ (e2 - ef).toNat = roundInt (modeOf m) (negW res.w1.toNat) (C / 10 ^ x) (C % 10 ^ x) (10 ^ x) ∧
      ef ≤ e2 ∧ e2 ≤ ef + 1 ∧ c2 < P34 := by
  obtain ⟨k1, k2, k3, k4, k5, k6, k7, k8, k9⟩ := contract x C cstar incr fl sp hx hlo hhi (negW res.w1.toNat) ef
  have hD : 0 < 10 ^ x := Nat.pow_pos (by decide)
  obtain ⟨c2, e2, uf, h1, h2, h3, h4, h5, h6⟩ := correction_spec m fl.inexLtMid fl.inexGtMid fl.midLtEven fl.midGtEven e res f
    C (10 ^ x) (rne C x) ef hD k1 k2 k3 k4 k5 k6 k7 (fun hlt h33 => absurd h33 (k8 hlt)) hef1 hef2
    (by rw [k9]; exact hc) (by rw [k9]; exact he)
  have huf : uf = false := by
    cases hu : uf
    · rfl
    · obtain ⟨a, b⟩ := h6.1 hu
      -- corr = −1 means the value is below the delivered coefficient, which is then not 10^33
      have hdn : downD m (negW res.w1.toNat) fl.inexGtMid fl.midLtEven = true := by
        rw [corrI_eq] at a
        unfold corrOf at a
        by_contra hcon
        split at a
        · omega
        · omega
      have hlt : C < rne C x * 10 ^ x := by
        rw [k3, k4] at hdn
        generalize negW res.w1.toNat = s at hdn
        cases m <;> cases s <;> simp only [downD, Bool.not_true, Bool.not_false, Bool.false_and, Bool.true_and, Bool.or_eq_true,
          decide_eq_true_eq, Bool.false_eq_true] at hdn <;> omega
      exact absurd b (k8 hlt)
  rw [huf] at h1
  refine ⟨c2, e2, h1, ?_, h3, h4, h5⟩
  have hspec := roundInt_spec (modeOf m) (negW res.w1.toNat) (C / 10 ^ x) (C % 10 ^ x) (10 ^ x) (Nat.mod_lt _ hD)
  rw [Nat.div_add_mod'] at hspec
  exact RoundedInt_unique _ _ _ _ _ _ hD h2 hspec

/-- the same with the translated 128-bit helper in front (35- to 38-digit `C`, the sums and products of `fma` that fit two
words): `bid_round128_19_38` followed by `bid_rounding_correction` -/
theorem round128_then_correction (m : RoundingMode) (xn : Nat) (C : U128) (hx : 1 ≤ xn) (hx4 : xn ≤ 4)
    (hlo : 10 ^ (xn + 33) ≤ Dec.C02GenRound.v128 C) (hhi : Dec.C02GenRound.v128 C < 10 ^ (xn + 34)) :
    ∃ (cs : U128) (incr lt gt ilt igt : Bool),
      bid_round128_19_38 (Int32.ofNat (xn + 34)) (Int32.ofNat xn) C false false false false false =
        .ok (cs, incr, lt, gt, ilt, igt) ∧
      ∀ (e : Int32) (res : U128) (f : UInt32) (ef : Int), -6176 ≤ ef → ef < 26590 →
        sigW res.w1.toNat res.w0.toNat = Dec.C02GenRound.v128 cs → e.toInt = ef + (if incr = true then 1 else 0) →
        ∃ (c2 : Nat) (e2 : Int),
          bid_rounding_correction m ilt igt lt gt e res f =
            .ok (ofBits (encode (if 6111 < e2 then ovfDatum m (negW res.w1.toNat) else .fin (negW res.w1.toNat) c2 e2)),
                 outF (ilt || igt || lt || gt) false (decide (6111 < e2)) f) ∧
          c2 * 10 ^ (e2 - ef).toNat =
            roundInt (modeOf m) (negW res.w1.toNat) (Dec.C02GenRound.v128 C / 10 ^ xn) (Dec.C02GenRound.v128 C % 10 ^ xn) (10 ^ xn) ∧
          ef ≤ e2 ∧ e2 ≤ ef + 1 ∧ c2 < P34 := by
  obtain ⟨cs, incr, lt, gt, ilt, igt, hcall, sp⟩ :=
    Dec.C02GenRound.bid_round128_19_38_spec (xn + 34) xn C (by omega) (by omega) hx (by omega) hhi
  refine ⟨cs, incr, lt, gt, ilt, igt, hcall, fun e res f ef h1 h2 hc he => ?_⟩
  exact helper_then_correction m xn _ _ incr ⟨lt, gt, ilt, igt⟩ sp hx hlo hhi e res f ef h1 h2 hc he


/-! ## 7. The table written out, and examples -/

/-- the table, row by row (columns: nothing set, `L` = inexact_lt_midpoint, `G` = inexact_gt_midpoint, `ML` = midpoint_lt_even,
`MG` = midpoint_gt_even), for a positive and for a negative result -/
theorem table_rows :
    (∀ s, [corrI .NearestEven s false false false false, corrI .NearestEven s true false false false, corrI .NearestEven s false true false false,
           corrI .NearestEven s false false true false, corrI .NearestEven s false false false true] = [0, 0, 0, 0, 0]) ∧
    (∀ s, [corrI .NearestAway s false false false false, corrI .NearestAway s true false false false, corrI .NearestAway s false true false false,
           corrI .NearestAway s false false true false, corrI .NearestAway s false false false true] = [0, 0, 0, 0, 1]) ∧
    (∀ s, [corrI .TowardZero s false false false false, corrI .TowardZero s true false false false, corrI .TowardZero s false true false false,
           corrI .TowardZero s false false true false, corrI .TowardZero s false false false true] = [0, 0, -1, -1, 0]) ∧
    ([corrI .Upward false false false false false, corrI .Upward false true false false false, corrI .Upward false false true false false,
      corrI .Upward false false false true false, corrI .Upward false false false false true] = [0, 1, 0, 0, 1]) ∧
    ([corrI .Upward true false false false false, corrI .Upward true true false false false, corrI .Upward true false true false false,
      corrI .Upward true false false true false, corrI .Upward true false false false true] = [0, 0, -1, -1, 0]) ∧
    ([corrI .Downward false false false false false, corrI .Downward false true false false false, corrI .Downward false false true false false,
      corrI .Downward false false false true false, corrI .Downward false false false false true] = [0, 0, -1, -1, 0]) ∧
    ([corrI .Downward true false false false false, corrI .Downward true true false false false, corrI .Downward true false true false false,
      corrI .Downward true false false true false, corrI .Downward true false false false true] = [0, 1, 0, 0, 1]) := by
  refine ⟨fun s => ?_, fun s => ?_, fun s => ?_, ?_, ?_, ?_, ?_⟩ <;> (try cases s) <;> decide

-- Upward, +1234567890123456789012345678901234·10^0 with inexact_lt_midpoint: one unit up, inexact
example : bid_rounding_correction .Upward true false false false 0 ⟨0xde825cd07e96aff2, 0x00003cde6fff9732⟩ 0 =
    .ok (ofBits (encode (.fin false 1234567890123456789012345678901235 0)), 0x20) := by decide +kernel
-- the upper decade wrap: (10^34 − 1)·10^5 up one unit is 10^33·10^6
example : bid_rounding_correction .Upward true false false false 5 ⟨0x378d8e63ffffffff, 0x0001ed09bead87c0⟩ 0 =
    .ok (ofBits (encode (.fin false (10^33) 6)), 0x20) := by decide +kernel
-- … at the largest exponent it overflows: ties-away, negative: −Inf, overflow + inexact
example : bid_rounding_correction .NearestAway false false false true 6111 ⟨0x378d8e63ffffffff, 0x8001ed09bead87c0⟩ 0 =
    .ok (ofBits (encode (.inf true)), 0x28) := by decide +kernel
-- … toward zero the midpoint above is dropped: −MAX… here +MAX stays, only inexact is added to the word (4 was set)
example : bid_rounding_correction .TowardZero false false false true 6111 ⟨0x378d8e63ffffffff, 0x0001ed09bead87c0⟩ 4 =
    .ok (ofBits (encode (.fin false (10^34 - 1) 6111)), 0x24) := by decide +kernel
-- the lower decade wrap after a carry: the helper delivered 10^33·10^1 for a value just below 10^34·10^0; toward zero:
-- (10^34 − 1)·10^0
example : bid_rounding_correction .TowardZero false true false false 1 ⟨0x38c15b0a00000000, 0x0000314dc6448d93⟩ 0 =
    .ok (ofBits (encode (.fin false (10^34 - 1) 0)), 0x20) := by decide +kernel
-- … at the least exponent there is no lower decade: (10^33 − 1)·10^−6176, underflow + inexact
example : bid_rounding_correction .Downward false false true false (-6176) ⟨0x38c15b0a00000000, 0x0000314dc6448d93⟩ 0 =
    .ok (ofBits (encode (.fin false (10^33 - 1) (-6176))), 0x30) := by decide +kernel
-- a borrow across the words: 2^64 down one unit
example : bid_rounding_correction .Downward false true false false 0 ⟨0, 1⟩ 0 =
    .ok (ofBits (encode (.fin false (2^64 - 1) 0)), 0x20) := by decide +kernel
-- the same through the theorem: `correction_eval` names the stepped coefficient
example : ∃ w, bid_rounding_correction .Upward true false false false 5 ⟨0x378d8e63ffffffff, 0x0001ed09bead87c0⟩ 0 = .ok (w, 0x20) :=
  ⟨_, correction_eval .Upward true false false false 5 ⟨0x378d8e63ffffffff, 0x0001ed09bead87c0⟩ 0 5 (10^34 - 1) rfl (by decide)
    (by decide) (by decide +kernel) (by decide) (by decide)⟩

/-- WHY THE CONTRACT MATTERS.  The routine cannot see how far below a delivered `10^33` the exact value lies: it always returns
`(10^34 − 1)·10^(e−1)`.  That is the value rounded toward zero only if the value is at least `(10^34 − 1)·10^(e−1)` — true when
the `10^33` came from a carry (`contract`), false e.g. for the exact value `(10^33 − 0.4)·10^0 = (10^34 − 4)·10^−1`, for which
the hypotheses of `table_correct` hold with `c = 10^33`, `G` set (V = 10^34 − 4, D = 10), yet the 34-digit truncation is
`(10^34 − 4)·10^−1`, not the returned `(10^34 − 1)·10^−1`.  `correction_spec` therefore asks `hlow`; the rounding helpers
never produce this situation. -/
theorem lower_decade_example :
    bid_rounding_correction .TowardZero false true false false 0 ⟨0x38c15b0a00000000, 0x0000314dc6448d93⟩ 0 =
      .ok (ofBits (encode (.fin false (10^34 - 1) (-1))), 0x20) ∧
    RoundedInt .rne false (10^34 - 4) 10 (10^33) ∧ RoundedInt .rtz false (10^34 - 4) 1 (10^34 - 4) := by
  refine ⟨by decide +kernel, ?_, ?_⟩
  · unfold RoundedInt; exact by decide +kernel
  · unfold RoundedInt; exact by decide +kernel

end Dec.C02GenCorrection
