/-
  C07 (bridge) — the binary-float → decimal128 conversions of the MACHINE-TRANSLATED SOURCE `DecGen/Code2.lean`
  (`Dec.Gen.Code2.binary64_to_bid128`, `binary32_to_bid128`, regenerated from /repo/src/bid_binarydecimal.rs on every
  run) and the four public methods of `DecGen/Api2.lean` (`convert_from_f64`, `convert_from_f32`, `From<f64>`,
  `From<f32>`), tied to the line-numbered model `DecModel/BinConvCode.lean` (`Dec.bin64Code`, `Dec.bin32Code`,
  `Dec.binConvCodeOp`) and, through `C07BinConvCode.lean` (`bin64Code_spec`, `bin32Code_spec`), to the specification
  `Dec.binToDecD` of the correctly rounded conversion.

  MAIN THEOREMS (for EVERY bit pattern, rounding mode and incoming status word; no hypothesis besides the width of the
  pattern):
  * `binary64_to_bid128_bridge` / `binary32_to_bid128_bridge`: the translated routine returns `.ok` (it never panics)
    with exactly the 128-bit pattern of the model, and the status word is the incoming one OR the model's flags;
  * `binary64_to_bid128_spec` / `binary32_to_bid128_spec`: the same with the specification in place of the model
    (`binSpec`: `encode` of `binToDecD` of the decoded binary float, the denormal/invalid flags, NaN payloads);
  * `run2_convert_from_f64`, `run2_convert_from_f32`, `run2_from_f64`, `run2_from_f32` (and the `…_spec` forms): the four
    public methods as `Api2.run2` dispatches them; the two `From` impls leave the caller's status word untouched;
  * `binary64_to_bid128_isOk`, `binary32_to_bid128_isOk`: no input makes the translated routines fail.

  METHOD.  Routine by routine, as in `C01GenArith.lean`: each helper of the translation gets a `<routine>_bridge`
  (`clz32_nz … ctz64`, `lt128`, `le128`, `srl128`, `srl384_short`, `mul_128x256_to_384`, `mul_10x64`,
  `mul_10x384_to_384`, `return_bid128{,_zero,_inf,_nan}`, the table accessors `tbl128/tbl256/tblI32` on the seven tables,
  `unpack_binary64`, `unpack_binary32`): for all arguments it returns `.ok r` and `r`, read through `toNat`/`toInt`, is
  the model's value.  The main routines are then stepped through block by block without ever normalising them
  (`ostep`, `otake_pos/neg/call`, `ojp`: head reduction only, join points kept as local definitions), each join point
  `__do_jp` of the translation getting its own statement (`H1 … H4` in `conv_tail`): the exact block, the bipartite
  table look-up, product and shift, the adjustment by ten, the rounding increment, the inexact flag, the packing.  From
  the test `e <= 0` on the two routines are the same text, so that part of the proof is one script (`conv_tail`) run
  twice.

  WHERE THE MODEL IS NOT THE CODE'S SHAPE (all proved harmless here): the model returns an `Unpacked` value where the
  code writes through `&mut` parameters and returns an `Option`; `exactBlock` is a three-valued function where the code
  returns early or falls through; `tableR` does the two inner look-ups (and the two outer ones) as one pair where the
  code does them one after the other and mutates `r` word by word; `mainBlock`/`roundPack` take the ×10 adjustment and
  the round-bound look-up as functional updates where the code mutates `z`, `e_out`, `c_prov_*` behind join points;
  `roundProv` is the nested `if` of the increment (`roundProv_bridge`).  The status word: the model returns the flags
  raised, the code ORs them into `*pfpsf`.
-/
import DecGen.Code2
import DecGen.Api2
import DecModel.HkGen
import DecProofs.Properties.C01GenArith
import DecProofs.Properties.C12GenNaN
import DecProofs.Properties.C07BinConvCode

namespace Dec.C07GenBinConv
open Dec.Rs (toI)
open Dec.Gen Dec.C01GenArith Dec.C12GenNaN Dec.C06GenFromInt

/-- 2^64 -/
local notation "W" => (18446744073709551616 : Nat)

/-! ### 1. Word operations -/

theorem tn_and (a b : UInt64) : (a &&& b).toNat = a.toNat &&& b.toNat := UInt64.toNat_and a b
theorem tn_not (a : UInt64) : (~~~a).toNat = BC.not64 a.toNat := by
  rw [UInt64.toNat_not]; unfold BC.not64; have := a.toNat_lt; show 18446744073709551616 - 1 - a.toNat = _; omega
theorem bne_u64 (a b : UInt64) : (a != b) = !decide (a.toNat = b.toNat) := by
  simp only [bne, beq_u64]

/-! ### 2. Compares and shifts -/

theorem lt128_bridge (a b c d : UInt64) :
    Code.lt128 a b c d = .ok (BC.lt128 a.toNat b.toNat c.toNat d.toNat) := by
  simp only [Code.lt128, BC.lt128, pure, Except.pure, dec_lt, beq_eq_decide, UInt64.toNat_inj]

theorem le128_bridge (a b c d : UInt64) :
    Code.le128 a b c d = .ok (BC.le128 a.toNat b.toNat c.toNat d.toNat) := by
  simp only [Code.le128, BC.le128, pure, Except.pure, dec_lt, dec_le, beq_eq_decide, UInt64.toNat_inj]

theorem srl128_bridge (hi lo c : UInt64) :
    ∃ r, Code.srl128 hi lo c = .ok r ∧ (r.1.toNat, r.2.toNat) = BC.srl128 hi.toNat lo.toNat c.toNat := by
  unfold Code.srl128 BC.srl128
  by_cases h0 : c = 0
  · subst h0; exact ⟨_, rfl, rfl⟩
  · have h0' : (c == 0) = false := by simpa using h0
    have h0n : (c.toNat == 0) = false := by
      rw [beq_eq_false_iff_ne]; intro h; apply h0; exact UInt64.toNat_inj.mp h
    by_cases h64 : c ≥ 0x40
    · have h64n : c.toNat ≥ 64 := UInt64.le_iff_toNat_le.mp h64
      refine ⟨_, by simp only [h0', h64, decide_true]; rfl, ?_⟩
      simp only [h0n, if_pos h64n, Bool.false_eq_true, if_false, tn_shr, tn_sub, UInt64.toNat_zero]
      rfl
    · have h64n : ¬ c.toNat ≥ 64 := fun h => h64 (UInt64.le_iff_toNat_le.mpr h)
      refine ⟨_, by simp only [h0', h64, decide_false]; rfl, ?_⟩
      simp only [h0n, if_neg h64n, Bool.false_eq_true, if_false, BC.srl128Short, tn_shr, tn_shl, tn_add, tn_sub]
      rfl

theorem srl384_short_bridge (x : Rs.U512) (c : Int32) :
    ∃ r, Code.srl384_short x c = .ok r ∧ n512 r = BC.srl384Short (n512 x) c.toInt := by
  refine ⟨_, rfl, ?_⟩
  simp only [n512, BC.srl384Short, tn_shr, tn_shl, tn_add, shr_cast, shl_cast, i32_sub, i32_64]

/-! ### 3. Products -/

/-- projections of the conversions and of pairs, and the word operations, as one simp set -/
local macro "fold_model" "[" ls:Lean.Parser.Tactic.simpLemma,* "]" : tactic =>
  `(tactic| (simp only [n128_w0, n128_w1, n256_w0, n256_w1, n256_w2, n256_w3,
      n512_w0, n512_w1, n512_w2, n512_w3, n512_w4, n512_w5, n512_w6, n512_w7, $ls,*] <;>
    try simp only [n128, n256, n512, tn_add, tn_mul, tn_shr, tn_or, UInt64.toNat_zero]))

open Lean in
/-- run the `do` block of a translated routine with the results `h_i : sub-call = .ok r_i` of its sub-calls -/
local macro "run_do " f:ident " [" hs:term,* "]" : tactic => do
  let steps ← hs.getElems.mapM fun h => `(tactic| (rw [$h:term]; try dsimp only))
  `(tactic| (unfold $f; simp only [bind, Except.bind]; $[$steps];*; try rfl))

theorem mul_128x256_to_384_bridge (A : Rs.U128) (B : Rs.U256) :
    ∃ r, Code.mul_128x256_to_384 A B = .ok r ∧ n512 r = BC.mul128x256to384 (n128 A) (n256 B) := by
  obtain ⟨P0, h0, e0⟩ := mul_64x256_to_320_bridge A.w0 B
  obtain ⟨P1, h1, e1⟩ := mul_64x256_to_320_bridge A.w1 B
  obtain ⟨a1, ha1, ea1⟩ := add_carry_out_bridge P1.w0 P0.w1
  obtain ⟨a2, ha2, ea2⟩ := add_carry_in_out_bridge P1.w1 P0.w2 a1.2
  obtain ⟨a3, ha3, ea3⟩ := add_carry_in_out_bridge P1.w2 P0.w3 a2.2
  obtain ⟨a4, ha4, ea4⟩ := add_carry_in_out_bridge P1.w3 P0.w4 a3.2
  refine ⟨_, by run_do Code.mul_128x256_to_384 [h0, h1, ha1, ha2, ha3, ha4], ?_⟩
  fold_model [BC.mul128x256to384, ← e0, ← e1, ← ea1, ← ea2, ← ea3, ← ea4, dflt512_w6, dflt512_w7, UInt64.toNat_zero]

theorem mul_10x64_bridge (s0 c0 input carryin : UInt64) :
    ∃ r, Code2.mul_10x64 s0 c0 input carryin = .ok r ∧
      (r.1.toNat, r.2.toNat) = BC.mul10x64 input.toNat carryin.toNat := by
  unfold Code2.mul_10x64
  by_cases h : decide ((input + input >>> 2) <<< 3 + (input &&& 3) <<< 1 + carryin <
      (input + input >>> 2) <<< 3 + (input &&& 3) <<< 1) = true
  · refine ⟨_, by simp only [h]; rfl, ?_⟩
    rw [decide_eq_true_eq, UInt64.lt_iff_toNat_lt] at h
    simp only [tn_add, tn_shl, tn_shr, tn_and, UInt64.reduceToNat] at h
    simp only [BC.mul10x64, tn_add, tn_shl, tn_shr, tn_and, tn_ite, dec_lt, decide_eq_true_eq, UInt64.reduceToNat,
      if_pos h]
  · refine ⟨_, by simp only [h]; rfl, ?_⟩
    rw [decide_eq_true_eq, UInt64.lt_iff_toNat_lt] at h
    simp only [tn_add, tn_shl, tn_shr, tn_and, UInt64.reduceToNat] at h
    simp only [BC.mul10x64, tn_add, tn_shl, tn_shr, tn_and, tn_ite, dec_lt, decide_eq_true_eq, UInt64.reduceToNat,
      if_neg h]

theorem mul_10x384_bridge (p : Rs.U512) :
    ∃ r, Code2.mul_10x384_to_384 p = .ok r ∧ n512 r = BC.mul10x384 (n512 p) := by
  obtain ⟨r0, h0, e0⟩ := mul_10x64_bridge p.w0 0 p.w0 0
  obtain ⟨r1, h1, e1⟩ := mul_10x64_bridge p.w1 0 p.w1 r0.2
  obtain ⟨r2, h2, e2⟩ := mul_10x64_bridge p.w2 0 p.w2 r1.2
  obtain ⟨r3, h3, e3⟩ := mul_10x64_bridge p.w3 0 p.w3 r2.2
  obtain ⟨r4, h4, e4⟩ := mul_10x64_bridge p.w4 0 p.w4 r3.2
  obtain ⟨r5, h5, e5⟩ := mul_10x64_bridge p.w5 0 p.w5 r4.2
  refine ⟨_, by run_do Code2.mul_10x384_to_384 [h0, h1, h2, h3, h4, h5], ?_⟩
  simp only [UInt64.toNat_zero] at e0
  fold_model [BC.mul10x384, ← e0, ← e1, ← e2, ← e3, ← e4, ← e5]

/-! ### 4. Packing -/

/-- `v as u64` for an `i32` -/
theorem tn_i32AsU64 (v : Int32) : (UInt64.ofInt (toI v)).toNat = BC.i32AsU64 v.toInt := by
  simp only [toI_i32, toNat_ofInt64, BC.i32AsU64]

theorem return_bid128_bridge (s e : Int32) (hi lo : UInt64) :
    ∃ r, Code.return_bid128 s e hi lo = .ok r ∧ n128 r = BC.returnBid128 s.toInt e.toInt hi.toNat lo.toNat := by
  refine ⟨_, rfl, ?_⟩
  simp only [n128, BC.returnBid128, tn_add, tn_shl, tn_i32AsU64, UInt64.reduceToNat]

theorem return_bid128_zero_bridge (s : Int32) :
    ∃ r, Code.return_bid128_zero s = .ok r ∧ n128 r = BC.returnBid128Zero s.toInt := by
  refine ⟨_, rfl, ?_⟩
  simp only [n128, BC.returnBid128Zero, BC.returnBid128, tn_add, tn_shl, tn_i32AsU64, UInt64.reduceToNat]
  rfl

theorem return_bid128_inf_bridge (s : Int32) :
    ∃ r, Code.return_bid128_inf s = .ok r ∧ n128 r = BC.returnBid128Inf s.toInt := by
  refine ⟨_, rfl, ?_⟩
  simp only [n128, BC.returnBid128Inf, BC.returnBid128, tn_add, tn_shl, tn_i32AsU64, UInt64.reduceToNat]
  rfl

theorem return_bid128_nan_bridge (s : Int32) (hi lo : UInt64) :
    ∃ r, Code.return_bid128_nan s hi lo = .ok r ∧ n128 r = BC.returnBid128Nan s.toInt hi.toNat lo.toNat := by
  unfold Code.return_bid128_nan BC.returnBid128Nan
  simp only [bind, Except.bind, lt128_bridge, tn_shr, tn_shl, tn_add, UInt64.reduceToNat]
  split
  · refine ⟨_, rfl, ?_⟩
    simp only [n128, BC.returnBid128, tn_add, tn_shl, tn_i32AsU64, UInt64.reduceToNat]
    rfl
  · refine ⟨_, rfl, ?_⟩
    simp only [n128, BC.returnBid128, tn_add, tn_shl, tn_shr, tn_i32AsU64, UInt64.reduceToNat]
    rfl

/-! ### 5. Counting zeros -/

theorem i64_pattern (x : Int64) : (UInt64.ofInt (toI x)) = x.toUInt64 := by
  apply UInt64.toNat_inj.mp
  rw [toNat_ofInt64]
  show (x.toBitVec.toInt % 18446744073709551616).toNat = x.toBitVec.toNat
  rw [BitVec.toInt_eq_toNat_cond]
  have := x.toBitVec.isLt
  split <;> omega
theorem i64_of_u64 (c : UInt64) : (Int64.ofInt (toI c)).toUInt64 = c := by
  apply UInt64.toNat_inj.mp
  show (Int64.ofInt (c.toNat : Int)).toBitVec.toNat = c.toNat
  simp [Int64.ofInt]
  rfl
theorem lowbit64 (c : UInt64) :
    (UInt64.ofInt (toI ((Int64.ofInt (toI c)) &&& -(Int64.ofInt (toI c))))).toNat = c.toNat &&& BC.neg64 c.toNat := by
  rw [i64_pattern, Int64.toUInt64_and, Int64.toUInt64_neg, i64_of_u64, UInt64.toNat_and, UInt64.toNat_neg]
  unfold BC.neg64
  have := c.toNat_lt
  congr 1
  show (18446744073709551616 - c.toNat) % 18446744073709551616 = _
  omega

theorem i32_pattern (x : Int32) : (UInt32.ofInt (toI x)) = x.toUInt32 := by
  apply UInt32.toNat_inj.mp
  rw [toNat_ofInt32]
  show (x.toBitVec.toInt % 4294967296).toNat = x.toBitVec.toNat
  rw [BitVec.toInt_eq_toNat_cond]
  have := x.toBitVec.isLt
  split <;> omega
theorem i32_of_u64 (c : UInt64) : (Int32.ofInt (toI c)).toUInt32.toNat = AH.lo32 c.toNat := by
  show (Int32.ofInt (c.toNat : Int)).toBitVec.toNat = _
  simp [Int32.ofInt, AH.lo32]
  rfl
theorem lowbit32 (c : UInt64) :
    (UInt32.ofInt (toI ((Int32.ofInt (toI c)) &&& -(Int32.ofInt (toI c))))).toNat =
      AH.lo32 c.toNat &&& BC.neg32 (AH.lo32 c.toNat) := by
  rw [i32_pattern, Int32.toUInt32_and, Int32.toUInt32_neg, UInt32.toNat_and, UInt32.toNat_neg, i32_of_u64]
  unfold BC.neg32
  have : AH.lo32 c.toNat < 4294967296 := Nat.mod_lt _ (by decide)
  congr 1
  show (4294967296 - AH.lo32 c.toNat) % 4294967296 = _
  omega

theorem tn32_add (a b : UInt32) : (a + b).toNat = BC.add32 a.toNat b.toNat := by
  rw [UInt32.toNat_add]; rfl
theorem tn32_sub (a b : UInt32) : (a - b).toNat = BC.sub32 a.toNat b.toNat := by
  rw [UInt32.toNat_sub]; simp only [BC.sub32]
  have := a.toNat_lt; have := b.toNat_lt
  omega
theorem tn32_and (a b : UInt32) : (a &&& b).toNat = a.toNat &&& b.toNat := UInt32.toNat_and a b
theorem tn32_not (a : UInt32) : (~~~a).toNat = BC.not32 a.toNat := by
  rw [UInt32.toNat_not]; unfold BC.not32; have := a.toNat_lt; show 4294967296 - 1 - a.toNat = _; omega
theorem tn32_ite (c : Prop) [Decidable c] (a b : UInt32) :
    (if c then a else b).toNat = if c then a.toNat else b.toNat := by
  split <;> rfl
theorem dec_le32 (a b : UInt32) : decide (a ≤ b) = decide (a.toNat ≤ b.toNat) := by
  simp only [UInt32.le_iff_toNat_le]
theorem bne_u32 (a b : UInt32) : (a != b) = !decide (a.toNat = b.toNat) := by
  simp only [bne, beq_eq_decide, UInt32.toNat_inj]
theorem tn_bif (c : Bool) (a b : UInt64) : (if c = true then a else b).toNat = if c = true then a.toNat else b.toNat := by
  cases c <;> rfl
theorem tn32_bif (c : Bool) (a b : UInt32) : (if c = true then a else b).toNat = if c = true then a.toNat else b.toNat := by
  cases c <;> rfl

theorem clz64_nz_bridge (n : UInt64) : ∃ r, Code2.clz64_nz n = .ok r ∧ r.toNat = BC.clz64Nz n.toNat := by
  refine ⟨_, rfl, ?_⟩
  simp only [BC.clz64Nz, tn_add, tn_ite, decide_eq_true_eq, UInt64.le_iff_toNat_le, tn_and, tn_not,
    Code2.c_CLZ64_MASK32, Code2.c_CLZ64_MASK16, Code2.c_CLZ64_MASK8, Code2.c_CLZ64_MASK4, Code2.c_CLZ64_MASK2,
    Code2.c_CLZ64_MASK1, UInt64.reduceToNat, BC.CLZ64_MASK32, BC.CLZ64_MASK16, BC.CLZ64_MASK8, BC.CLZ64_MASK4,
    BC.CLZ64_MASK2, BC.CLZ64_MASK1]
  rfl

theorem clz64_bridge (n : UInt64) : ∃ r, Code2.clz64 n = .ok r ∧ r.toNat = BC.clz64 n.toNat := by
  unfold Code2.clz64 BC.clz64
  by_cases h : n = 0
  · subst h; exact ⟨_, rfl, rfl⟩
  · have h1 : (n == 0) = false := by simpa using h
    have h2 : (n.toNat == 0) = false := by
      rw [beq_eq_false_iff_ne]; intro hh; exact h (UInt64.toNat_inj.mp hh)
    obtain ⟨r, hr, er⟩ := clz64_nz_bridge n
    refine ⟨r, by simp only [h1]; exact hr ▸ rfl, ?_⟩
    rw [h2, er]; rfl

theorem ctz64_1bit_bridge (n : UInt64) : ∃ r, Code2.ctz64_1bit n = .ok r ∧ r.toNat = BC.ctz64OneBit n.toNat := by
  refine ⟨_, rfl, ?_⟩
  simp only [BC.ctz64OneBit, tn_add, tn_ite, bne_iff_ne, ne_eq, ← UInt64.toNat_inj, tn_and, tn_not,
    Code2.c_CLZ64_MASK32, Code2.c_CLZ64_MASK16, Code2.c_CLZ64_MASK8, Code2.c_CLZ64_MASK4, Code2.c_CLZ64_MASK2,
    Code2.c_CLZ64_MASK1, UInt64.reduceToNat, BC.CLZ64_MASK32, BC.CLZ64_MASK16, BC.CLZ64_MASK8, BC.CLZ64_MASK4,
    BC.CLZ64_MASK2, BC.CLZ64_MASK1]

/-- `ctz64(c as i64)` -/
theorem ctz64_bridge (c : UInt64) :
    ∃ r, Code2.ctz64 (Int64.ofInt (toI c)) = .ok r ∧ r.toNat = BC.ctz64 c.toNat := by
  unfold Code2.ctz64 BC.ctz64
  by_cases h : c = 0
  · subst h; exact ⟨_, rfl, rfl⟩
  · have h2 : (c.toNat == 0) = false := by
      rw [beq_eq_false_iff_ne]; intro hh; exact h (UInt64.toNat_inj.mp hh)
    have h1 : (Int64.ofInt (toI c) == 0) = false := by
      rw [beq_eq_false_iff_ne]; intro hh
      apply h
      have := congrArg Int64.toUInt64 hh
      rw [i64_of_u64] at this
      exact this
    obtain ⟨r, hr, er⟩ := ctz64_1bit_bridge (UInt64.ofInt (toI ((Int64.ofInt (toI c)) &&& -(Int64.ofInt (toI c)))))
    refine ⟨r, by simp only [h1]; exact hr ▸ rfl, ?_⟩
    rw [h2, er, lowbit64]; rfl

theorem clz32_nz_bridge (n : UInt32) : ∃ r, Code2.clz32_nz n = .ok r ∧ r.toNat = BC.clz32Nz n.toNat := by
  refine ⟨_, rfl, ?_⟩
  simp only [BC.clz32Nz, tn32_add, tn32_ite, decide_eq_true_eq, UInt32.le_iff_toNat_le, tn32_and, tn32_not,
    Code2.c_CLZ32_MASK16, Code2.c_CLZ32_MASK8, Code2.c_CLZ32_MASK4, Code2.c_CLZ32_MASK2,
    Code2.c_CLZ32_MASK1, UInt32.reduceToNat, BC.CLZ32_MASK16, BC.CLZ32_MASK8, BC.CLZ32_MASK4,
    BC.CLZ32_MASK2, BC.CLZ32_MASK1]
  rfl

theorem clz32_bridge (n : UInt32) : ∃ r, Code2.clz32 n = .ok r ∧ r.toNat = BC.clz32 n.toNat := by
  unfold Code2.clz32 BC.clz32
  by_cases h : n = 0
  · subst h; exact ⟨_, rfl, rfl⟩
  · have h1 : (n == 0) = false := by simpa using h
    have h2 : (n.toNat == 0) = false := by
      rw [beq_eq_false_iff_ne]; intro hh; exact h (UInt32.toNat_inj.mp hh)
    obtain ⟨r, hr, er⟩ := clz32_nz_bridge n
    refine ⟨r, by simp only [h1]; exact hr ▸ rfl, ?_⟩
    rw [h2, er]; rfl

theorem ctz32_1bit_bridge (n : UInt32) : ∃ r, Code2.ctz32_1bit n = .ok r ∧ r.toNat = BC.ctz32OneBit n.toNat := by
  refine ⟨_, rfl, ?_⟩
  simp only [BC.ctz32OneBit, tn32_add, tn32_ite, bne_iff_ne, ne_eq, ← UInt32.toNat_inj, tn32_and, tn32_not,
    Code2.c_CLZ32_MASK16, Code2.c_CLZ32_MASK8, Code2.c_CLZ32_MASK4, Code2.c_CLZ32_MASK2,
    Code2.c_CLZ32_MASK1, UInt32.reduceToNat, BC.CLZ32_MASK16, BC.CLZ32_MASK8, BC.CLZ32_MASK4,
    BC.CLZ32_MASK2, BC.CLZ32_MASK1]

/-- `ctz32(c as i32)` -/
theorem ctz32_bridge (c : UInt64) :
    ∃ r, Code2.ctz32 (Int32.ofInt (toI c)) = .ok r ∧ r.toNat = BC.ctz32 (AH.lo32 c.toNat) := by
  unfold Code2.ctz32 BC.ctz32
  by_cases h : Int32.ofInt (toI c) = 0
  · have h0 : AH.lo32 c.toNat = 0 := by
      rw [← i32_of_u64, h]; rfl
    rw [h, h0]; exact ⟨_, rfl, rfl⟩
  · have h1 : (Int32.ofInt (toI c) == 0) = false := by simpa using h
    have h2 : (AH.lo32 c.toNat == 0) = false := by
      rw [beq_eq_false_iff_ne]; intro hh
      apply h
      apply Int32.toBitVec.inj
      apply BitVec.eq_of_toNat_eq
      show (Int32.ofInt (toI c)).toUInt32.toNat = _
      rw [i32_of_u64, hh]; rfl
    obtain ⟨r, hr, er⟩ := ctz32_1bit_bridge (UInt32.ofInt (toI ((Int32.ofInt (toI c)) &&& -(Int32.ofInt (toI c)))))
    refine ⟨r, by simp only [h1]; exact hr ▸ rfl, ?_⟩
    rw [h2, er, lowbit32]; rfl

/-- `clz32(c as u32)` -/
theorem clz32_bridge' (c : UInt64) :
    ∃ r, Code2.clz32 (UInt32.ofInt (toI c)) = .ok r ∧ r.toNat = BC.clz32 (AH.lo32 c.toNat) := by
  obtain ⟨r, hr, er⟩ := clz32_bridge (UInt32.ofInt (toI c))
  refine ⟨r, hr, ?_⟩
  rw [er, toI_u64, toNat_ofInt32]
  congr 1



/-! ### 6. `i32` arithmetic, table access -/

theorem bmod_i32w (v : Int) : v.bmod (2 ^ 32) = AH.i32w v := by
  simp only [AH.i32w, Int.bmod]
  split <;> omega

theorem i32_addw (a b : Int32) : (a + b).toInt = AH.i32w (a.toInt + b.toInt) := by
  rw [Int32.toInt_add, bmod_i32w]
theorem i32_subw (a b : Int32) : (a - b).toInt = AH.i32w (a.toInt - b.toInt) := by
  rw [Int32.toInt_sub, bmod_i32w]
theorem i32_mulw (a b : Int32) : (a * b).toInt = AH.i32w (a.toInt * b.toInt) := by
  rw [Int32.toInt_mul, bmod_i32w]
theorem i32_negw (a : Int32) : (-a).toInt = AH.i32w (-a.toInt) := by
  rw [Int32.toInt_neg, bmod_i32w]
theorem i32_of_word (u : UInt64) : (Int32.ofInt (toI u)).toInt = AH.i32OfWord u.toNat := by
  rw [Int32.toInt_ofInt, toI_u64]
  exact bmod_i32w _
theorem i32_of_word32 (u : UInt32) : (Int32.ofInt (toI u)).toInt = AH.i32OfWord u.toNat := by
  rw [Int32.toInt_ofInt, toI_u32]
  exact bmod_i32w _

theorem i32_shr16 (n : Int32) : (n >>> 0x10).toInt = n.toInt / 65536 := by
  have h : (n >>> 0x10).toInt = (n.toBitVec.sshiftRight' ((0x10 : Int32).toBitVec.smod 32)).toInt := rfl
  rw [h, BitVec.toInt_sshiftRight']
  have : ((0x10 : Int32).toBitVec.smod 32).toNat = 16 := by decide
  rw [this]
  show n.toInt >>> 16 = _
  rw [Int.shiftRight_eq_div_pow]; rfl
theorem i32_shr7 (n : Int32) : (n >>> 7).toInt = n.toInt / 128 := by
  have h : (n >>> 7).toInt = (n.toBitVec.sshiftRight' ((7 : Int32).toBitVec.smod 32)).toInt := rfl
  rw [h, BitVec.toInt_sshiftRight']
  have : ((7 : Int32).toBitVec.smod 32).toNat = 7 := by decide
  rw [this]
  show n.toInt >>> 7 = _
  rw [Int.shiftRight_eq_div_pow]; rfl
theorem i32_and127 (n : Int32) : (n &&& 0x7f).toInt = n.toInt % 128 := by
  have h1 : (n &&& 0x7f).toBitVec = n.toBitVec &&& 127#32 := rfl
  have ht : n.toInt = n.toBitVec.toInt := rfl
  have ht' : (n &&& 0x7f).toInt = (n &&& 0x7f).toBitVec.toInt := rfl
  rw [ht', h1, ht, BitVec.toInt_eq_toNat_cond, BitVec.toInt_eq_toNat_cond, BitVec.toNat_and]
  have : (127#32 : BitVec 32).toNat = 2 ^ 7 - 1 := rfl
  rw [this, Nat.and_two_pow_sub_one_eq_mod]
  have := n.toBitVec.isLt
  split <;> split <;> omega

theorem dec_le_i32 (a b : Int32) : decide (a ≤ b) = decide (a.toInt ≤ b.toInt) := by
  simp only [Int32.le_iff_toInt_le]
theorem beq_i32 (a b : Int32) : (a == b) = decide (a.toInt = b.toInt) := by
  simp only [beq_eq_decide, Int32.toInt_inj]
theorem bne_i32 (a b : Int32) : (a != b) = !decide (a.toInt = b.toInt) := by
  simp only [bne, beq_i32]

/-- every word of the seven tables is a `u64` -/
theorem tables_words :
    (∀ v ∈ Dec.Gen.BID_ROUNDBOUND_128, v < W) ∧ (∀ v ∈ Dec.Gen.BID_POWER_FIVE, v < W) ∧
    (∀ v ∈ Dec.Gen.BID_COEFFLIMITS_BID128, v < W) ∧ (∀ v ∈ Dec.Gen.BID_OUTERTABLE_SIG, v < W) ∧
    (∀ v ∈ Dec.Gen.BID_INNERTABLE_SIG, v < W) ∧ (∀ v ∈ Dec.Gen.BID_OUTERTABLE_EXP, v < W) ∧
    (∀ v ∈ Dec.Gen.BID_INNERTABLE_EXP, v < W) := by
  refine ⟨?_, ?_, ?_, ?_, ?_, ?_, ?_⟩ <;> decide +kernel

theorem ofNat_tn {v : Nat} (h : v < W) : (UInt64.ofNat v).toNat = v := by
  rw [UInt64.toNat_ofNat']; exact Nat.mod_eq_of_lt h

theorem getElem?_mem {t : List Nat} {i v : Nat} (h : t[i]? = some v) : v ∈ t := List.mem_of_getElem? h

theorem tbl128_bridge (t : List Nat) (hw : ∀ v ∈ t, v < W) (i : UInt64) (x : AH.U128)
    (h : BC.tbl2 t i.toNat = some x) : ∃ r, Rs.tbl128 t i = .ok r ∧ n128 r = x := by
  unfold BC.tbl2 at h
  unfold Rs.tbl128
  cases ha : t[2 * i.toNat]? with
  | none => rw [ha] at h; cases h
  | some a =>
    cases hb : t[2 * i.toNat + 1]? with
    | none => rw [ha, hb] at h; cases h
    | some b =>
      rw [ha, hb] at h
      cases h
      refine ⟨_, rfl, ?_⟩
      simp only [n128, ofNat_tn (hw a (getElem?_mem ha)), ofNat_tn (hw b (getElem?_mem hb))]

theorem tbl256_bridge (t : List Nat) (hw : ∀ v ∈ t, v < W) (i : UInt64) (x : AH.U256)
    (h : BC.tbl4 t i.toNat = some x) : ∃ r, Rs.tbl256 t i = .ok r ∧ n256 r = x := by
  unfold BC.tbl4 at h
  unfold Rs.tbl256
  cases ha : t[4 * i.toNat]? with
  | none => rw [ha] at h; cases h
  | some a =>
    cases hb : t[4 * i.toNat + 1]? with
    | none => rw [ha, hb] at h; cases h
    | some b =>
      cases hc : t[4 * i.toNat + 2]? with
      | none => rw [ha, hb, hc] at h; cases h
      | some c =>
        cases hd : t[4 * i.toNat + 3]? with
        | none => rw [ha, hb, hc, hd] at h; cases h
        | some d =>
          rw [ha, hb, hc, hd] at h
          cases h
          refine ⟨_, rfl, ?_⟩
          simp only [n256, ofNat_tn (hw a (getElem?_mem ha)), ofNat_tn (hw b (getElem?_mem hb)),
            ofNat_tn (hw c (getElem?_mem hc)), ofNat_tn (hw d (getElem?_mem hd))]

theorem tblI32_bridge (t : List Nat) (hw : ∀ v ∈ t, v < W) (i : UInt64) (v : Nat)
    (h : BC.tbl1 t i.toNat = some v) : ∃ r, Rs.tblI32 t i = .ok r ∧ r.toInt = AH.i32OfWord v := by
  unfold BC.tbl1 at h
  unfold Rs.tblI32
  rw [h]
  refine ⟨_, rfl, ?_⟩
  have hv := hw v (getElem?_mem h)
  rw [Int32.toInt_ofInt]
  show Int.bmod (UInt64.ofNat v).toInt64.toBitVec.toInt (2 ^ 32) = _
  have e : (UInt64.ofNat v).toInt64.toBitVec.toNat = v := by
    show (UInt64.ofNat v).toNat = v
    exact ofNat_tn hv
  rw [BitVec.toInt_eq_toNat_cond, e, bmod_i32w]
  unfold AH.i32OfWord AH.i32w
  split <;> omega


/-! ### 7. Unpacking -/

local notation "M11" => (((1 : UInt64) <<< (11 : UInt64)) - (1 : UInt64))
local notation "M52" => (((1 : UInt64) <<< (52 : UInt64)) - (1 : UInt64))
local notation "B51" => ((1 : UInt64) <<< (51 : UInt64))
local notation "B52" => ((1 : UInt64) <<< (52 : UInt64))

/-- the translated `unpack_binary32/64` result `r` (started with status word `f`) is the model's `Unpacked` value -/
def UnpRel (f : UInt32) (r : Option Rs.U128 × Int32 × Int32 × UInt64 × Int32 × UInt32) : BC.Unpacked → Prop
  | .ret res flags => ∃ v, r.1 = some v ∧ n128 v = res ∧ r.2.2.2.2.2 = f ||| UInt32.ofNat flags
  | .go s e c t flags => r.1 = none ∧ r.2.1.toInt = s ∧ r.2.2.1.toInt = e ∧ r.2.2.2.1.toNat = c ∧
      r.2.2.2.2.1.toInt = t ∧ r.2.2.2.2.2 = f ||| UInt32.ofNat flags

theorem i32_zero : (0 : Int32).toInt = 0 := by decide
theorem or_zero32 (f : UInt32) : f ||| UInt32.ofNat 0 = f := by
  show f ||| 0 = f
  exact UInt32.or_zero

theorem beq_u64' {a b : UInt64} {a' b' : Nat} (ha : a.toNat = a') (hb : b.toNat = b') :
    (a == b) = (a' == b') := by
  rw [beq_u64, ha, hb]; simp only [beq_eq_decide]
theorem beq_i32' {a b : Int32} {a' b' : Int} (ha : a.toInt = a') (hb : b.toInt = b') :
    (a == b) = (a' == b') := by
  rw [beq_i32, ha, hb]; simp only [beq_eq_decide]
theorem ssf (f g : UInt32) : Code.set_status_flags f g = .ok (f ||| g) := rfl

theorem ex_ok {α : Type} {a : Except String α} {P : α → Prop} {v : α} (h : a = .ok v) (hp : P v) :
    ∃ r, a = .ok r ∧ P r := ⟨v, h, hp⟩

theorem unpack_binary64_bridge (x : UInt64) (s0 e0 : Int32) (c0 : UInt64) (t0 : Int32) (f : UInt32) :
    ∃ r, Code2.unpack_binary64 ⟨x⟩ s0 e0 c0 t0 Code.return_bid128_zero Code.return_bid128_inf
        Code.return_bid128_nan f = .ok r ∧ UnpRel f r (BC.unpackBinary64 x.toNat) := by
  have hs : (Int32.ofInt (toI (x >>> 63))).toInt = AH.i32OfWord (AH.shr64 x.toNat 63) := by
    rw [i32_of_word, tn_shr]; rfl
  have he : (Int32.ofInt (toI (x >>> 52 &&& M11))).toInt
      = AH.i32OfWord (AH.shr64 x.toNat 52 &&& AH.sub64 (AH.shl64 1 11) 1) := by
    rw [i32_of_word, tn_and, tn_shr, tn_sub, tn_shl]; rfl
  have hc : (x &&& M52).toNat = x.toNat &&& AH.sub64 (AH.shl64 1 52) 1 := by
    rw [tn_and, tn_sub, tn_shl]; rfl
  have q1 := beq_i32' he i32_zero
  have q2 := beq_u64' (b := 0) (b' := 0) hc rfl
  have q3 : (UInt64.ofInt (toI (Int32.ofInt (toI (x >>> 52 &&& M11)))) == M11)
      = (BC.i32AsU64 (AH.i32OfWord (AH.shr64 x.toNat 52 &&& AH.sub64 (AH.shl64 1 11) 1))
          == AH.sub64 (AH.shl64 1 11) 1) :=
    beq_u64' (by rw [tn_i32AsU64, he]) (by rw [tn_sub, tn_shl]; rfl)
  have q4 : (x &&& M52 &&& B51 == 0)
      = (x.toNat &&& AH.sub64 (AH.shl64 1 52) 1 &&& AH.shl64 1 51 == 0) :=
    beq_u64' (b := 0) (b' := 0) (by rw [tn_and, hc, tn_shl]; rfl) rfl
  unfold BC.unpackBinary64
  by_cases h1 : (Int32.ofInt (toI (x >>> 52 &&& M11)) == 0) = true
  · have m1 := h1; rw [q1] at m1
    by_cases h2 : (x &&& M52 == 0) = true
    · have m2 := h2; rw [q2] at m2
      obtain ⟨v, hv, ev⟩ := return_bid128_zero_bridge (Int32.ofInt (toI (x >>> 63)))
      apply ex_ok
      ·
        unfold Code2.unpack_binary64
        take_pos; exact h1
        take_pos; exact h2
        take_call hv
        rfl
      simp only [m1, m2, if_true]
      exact ⟨v, rfl, by rw [ev, hs], (or_zero32 f).symm⟩
    · have m2 := h2; rw [q2] at m2
      obtain ⟨l, hl, el⟩ := clz64_bridge (x &&& M52)
      apply ex_ok
      ·
        unfold Code2.unpack_binary64
        take_pos; exact h1
        take_neg; exact h2
        take_call hl
        take_call (ssf _ _)
        rfl
      simp only [m1, m2, if_true]
      refine ⟨rfl, hs, ?_, ?_, rfl, rfl⟩
      · show (-(Int32.ofInt (toI (l - 11)) + 1074)).toInt = _
        rw [i32_negw, i32_addw, i32_of_word, tn_sub, el, hc]; rfl
      · show ((x &&& M52) <<< UInt64.ofInt (toI (Int32.ofInt (toI (l - 11))))).toNat = _
        rw [tn_shl, shl_cast, i32_of_word, tn_sub, el, hc]; rfl
  · have m1 := h1; rw [q1] at m1
    by_cases h3 : (UInt64.ofInt (toI (Int32.ofInt (toI (x >>> 52 &&& M11)))) == M11) = true
    · have m3 := h3; rw [q3] at m3
      by_cases h2 : (x &&& M52 == 0) = true
      · have m2 := h2; rw [q2] at m2
        obtain ⟨v, hv, ev⟩ := return_bid128_inf_bridge (Int32.ofInt (toI (x >>> 63)))
        apply ex_ok
        ·
          unfold Code2.unpack_binary64
          take_neg; exact h1
          take_pos; exact h3
          take_pos; exact h2
          take_call hv
          rfl
        simp only [m1, m2, m3, if_true]
        exact ⟨v, rfl, by rw [ev, hs], (or_zero32 f).symm⟩
      · have m2 := h2; rw [q2] at m2
        obtain ⟨v, hv, ev⟩ := return_bid128_nan_bridge (Int32.ofInt (toI (x >>> 63)))
          ((x &&& M52) <<< 13) 0
        have ev' : n128 v = BC.returnBid128Nan (AH.i32OfWord (AH.shr64 x.toNat 63))
            (AH.shl64 (x.toNat &&& AH.sub64 (AH.shl64 1 52) 1) 13) 0 := by
          rw [ev, hs, tn_shl, hc]; rfl
        by_cases h4 : (x &&& M52 &&& B51 == 0) = true
        · have m4 := h4; rw [q4] at m4
          apply ex_ok
          ·
            unfold Code2.unpack_binary64
            take_neg; exact h1
            take_pos; exact h3
            take_neg; exact h2
            take_pos; exact h4
            take_call (ssf _ _)
            take_call hv
            rfl
          simp only [m1, m2, m3, m4, if_true]
          exact ⟨v, rfl, ev', rfl⟩
        · have m4 := h4; rw [q4] at m4
          apply ex_ok
          ·
            unfold Code2.unpack_binary64
            take_neg; exact h1
            take_pos; exact h3
            take_neg; exact h2
            take_neg; exact h4
            take_call hv
            rfl
          simp only [m1, m2, m3, m4, if_true]
          exact ⟨v, rfl, ev', (or_zero32 f).symm⟩
    · have m3 := h3; rw [q3] at m3
      obtain ⟨t, ht, et⟩ := ctz64_bridge ((x &&& M52) + B52)
      apply ex_ok
      ·
        unfold Code2.unpack_binary64
        take_neg; exact h1
        take_neg; exact h3
        take_call ht
        rfl
      simp only [m1, m3]
      have hcc : ((x &&& M52) + B52).toNat
          = AH.add64 (x.toNat &&& AH.sub64 (AH.shl64 1 52) 1) (AH.shl64 1 52) := by
        rw [tn_add, hc, tn_shl]; rfl
      refine ⟨rfl, hs, ?_, hcc, ?_, (or_zero32 f).symm⟩
      · show (Int32.ofInt (toI (x >>> 52 &&& M11)) - 1075).toInt = _
        rw [i32_subw, he]; rfl
      · show (Int32.ofInt (toI t)).toInt = _
        rw [i32_of_word, et, hcc]
local notation "M8" => (((1 : UInt64) <<< (8 : UInt64)) - (1 : UInt64))
local notation "M23" => (((1 : UInt64) <<< (23 : UInt64)) - (1 : UInt64))
local notation "B22" => ((1 : UInt64) <<< (22 : UInt64))
local notation "B23" => ((1 : UInt64) <<< (23 : UInt64))

theorem unpack_binary32_bridge (x : UInt32) (s0 e0 : Int32) (c0 : UInt64) (t0 : Int32) (f : UInt32) :
    ∃ r, Code2.unpack_binary32 ⟨x⟩ s0 e0 c0 t0 Code.return_bid128_zero Code.return_bid128_inf
        Code.return_bid128_nan f = .ok r ∧ UnpRel f r (BC.unpackBinary32 x.toNat) := by
  have hs : (Int32.ofInt (toI ((UInt64.ofInt (toI x)) >>> 31))).toInt = AH.i32OfWord (AH.shr64 (UInt64.ofInt (toI x)).toNat 31) := by
    rw [i32_of_word, tn_shr]; rfl
  have he : (Int32.ofInt (toI ((UInt64.ofInt (toI x)) >>> 23 &&& M8))).toInt
      = AH.i32OfWord (AH.shr64 (UInt64.ofInt (toI x)).toNat 23 &&& AH.sub64 (AH.shl64 1 8) 1) := by
    rw [i32_of_word, tn_and, tn_shr, tn_sub, tn_shl]; rfl
  have hc : ((UInt64.ofInt (toI x)) &&& M23).toNat = (UInt64.ofInt (toI x)).toNat &&& AH.sub64 (AH.shl64 1 23) 1 := by
    rw [tn_and, tn_sub, tn_shl]; rfl
  have q1 := beq_i32' he i32_zero
  have q2 := beq_u64' (b := 0) (b' := 0) hc rfl
  have q3 : (UInt64.ofInt (toI (Int32.ofInt (toI ((UInt64.ofInt (toI x)) >>> 23 &&& M8)))) == M8)
      = (BC.i32AsU64 (AH.i32OfWord (AH.shr64 (UInt64.ofInt (toI x)).toNat 23 &&& AH.sub64 (AH.shl64 1 8) 1))
          == AH.sub64 (AH.shl64 1 8) 1) :=
    beq_u64' (by rw [tn_i32AsU64, he]) (by rw [tn_sub, tn_shl]; rfl)
  have q4 : ((UInt64.ofInt (toI x)) &&& M23 &&& B22 == 0)
      = ((UInt64.ofInt (toI x)).toNat &&& AH.sub64 (AH.shl64 1 23) 1 &&& AH.shl64 1 22 == 0) :=
    beq_u64' (b := 0) (b' := 0) (by rw [tn_and, hc, tn_shl]; rfl) rfl
  have hX : x.toNat = (UInt64.ofInt (toI x)).toNat := by
    rw [toI_u32, toNat_ofInt64]; have := x.toNat_lt; omega
  rw [hX]
  unfold BC.unpackBinary32
  by_cases h1 : (Int32.ofInt (toI ((UInt64.ofInt (toI x)) >>> 23 &&& M8)) == 0) = true
  · have m1 := h1; rw [q1] at m1
    by_cases h2 : ((UInt64.ofInt (toI x)) &&& M23 == 0) = true
    · have m2 := h2; rw [q2] at m2
      obtain ⟨v, hv, ev⟩ := return_bid128_zero_bridge (Int32.ofInt (toI ((UInt64.ofInt (toI x)) >>> 31)))
      apply ex_ok
      ·
        unfold Code2.unpack_binary32
        take_pos; exact h1
        take_pos; exact h2
        take_call hv
        rfl
      simp only [m1, m2, if_true]
      exact ⟨v, rfl, by rw [ev, hs], (or_zero32 f).symm⟩
    · have m2 := h2; rw [q2] at m2
      obtain ⟨l, hl, el⟩ := clz32_bridge' ((UInt64.ofInt (toI x)) &&& M23)
      apply ex_ok
      ·
        unfold Code2.unpack_binary32
        take_pos; exact h1
        take_neg; exact h2
        take_call hl
        take_call (ssf _ _)
        rfl
      simp only [m1, m2, if_true]
      refine ⟨rfl, hs, ?_, ?_, rfl, rfl⟩
      · show (-(Int32.ofInt (toI (l - 8)) + 149)).toInt = _
        rw [i32_negw, i32_addw, i32_of_word32, tn32_sub, el, hc]; rfl
      · show (((UInt64.ofInt (toI x)) &&& M23) <<< UInt64.ofInt (toI (Int32.ofInt (toI (l - 8))))).toNat = _
        rw [tn_shl, shl_cast, i32_of_word32, tn32_sub, el, hc]; rfl
  · have m1 := h1; rw [q1] at m1
    by_cases h3 : (UInt64.ofInt (toI (Int32.ofInt (toI ((UInt64.ofInt (toI x)) >>> 23 &&& M8)))) == M8) = true
    · have m3 := h3; rw [q3] at m3
      by_cases h2 : ((UInt64.ofInt (toI x)) &&& M23 == 0) = true
      · have m2 := h2; rw [q2] at m2
        obtain ⟨v, hv, ev⟩ := return_bid128_inf_bridge (Int32.ofInt (toI ((UInt64.ofInt (toI x)) >>> 31)))
        apply ex_ok
        ·
          unfold Code2.unpack_binary32
          take_neg; exact h1
          take_pos; exact h3
          take_pos; exact h2
          take_call hv
          rfl
        simp only [m1, m2, m3, if_true]
        exact ⟨v, rfl, by rw [ev, hs], (or_zero32 f).symm⟩
      · have m2 := h2; rw [q2] at m2
        obtain ⟨v, hv, ev⟩ := return_bid128_nan_bridge (Int32.ofInt (toI ((UInt64.ofInt (toI x)) >>> 31)))
          (((UInt64.ofInt (toI x)) &&& M23) <<< 42) 0
        have ev' : n128 v = BC.returnBid128Nan (AH.i32OfWord (AH.shr64 (UInt64.ofInt (toI x)).toNat 31))
            (AH.shl64 ((UInt64.ofInt (toI x)).toNat &&& AH.sub64 (AH.shl64 1 23) 1) 42) 0 := by
          rw [ev, hs, tn_shl, hc]; rfl
        by_cases h4 : ((UInt64.ofInt (toI x)) &&& M23 &&& B22 == 0) = true
        · have m4 := h4; rw [q4] at m4
          apply ex_ok
          ·
            unfold Code2.unpack_binary32
            take_neg; exact h1
            take_pos; exact h3
            take_neg; exact h2
            take_pos; exact h4
            take_call (ssf _ _)
            take_call hv
            rfl
          simp only [m1, m2, m3, m4, if_true]
          exact ⟨v, rfl, ev', rfl⟩
        · have m4 := h4; rw [q4] at m4
          apply ex_ok
          ·
            unfold Code2.unpack_binary32
            take_neg; exact h1
            take_pos; exact h3
            take_neg; exact h2
            take_neg; exact h4
            take_call hv
            rfl
          simp only [m1, m2, m3, m4, if_true]
          exact ⟨v, rfl, ev', (or_zero32 f).symm⟩
    · have m3 := h3; rw [q3] at m3
      obtain ⟨t, ht, et⟩ := ctz32_bridge (((UInt64.ofInt (toI x)) &&& M23) + B23)
      apply ex_ok
      ·
        unfold Code2.unpack_binary32
        take_neg; exact h1
        take_neg; exact h3
        take_call ht
        rfl
      simp only [m1, m3]
      have hcc : (((UInt64.ofInt (toI x)) &&& M23) + B23).toNat
          = AH.add64 ((UInt64.ofInt (toI x)).toNat &&& AH.sub64 (AH.shl64 1 23) 1) (AH.shl64 1 23) := by
        rw [tn_add, hc, tn_shl]; rfl
      refine ⟨rfl, hs, ?_, hcc, ?_, (or_zero32 f).symm⟩
      · show (Int32.ofInt (toI ((UInt64.ofInt (toI x)) >>> 23 &&& M8)) - 150).toInt = _
        rw [i32_subw, he]; rfl
      · show (Int32.ofInt (toI t)).toInt = _
        rw [i32_of_word32, et, hcc]

/-! ### 8. The main routines, block by block -/

theorem tn_rmode (m : Mode) : (UInt64.ofInt (toI (HkGen.rmode m))).toNat = m.toNat := by
  cases m <;> rfl

/-- the computation `a` returns normally, with status word `F` and a result whose words are `R` -/
@[reducible] def OkTo (F : UInt32) (R : AH.U128) (a : Except String (Rs.U128 × UInt32)) : Prop :=
  ∃ v, a = .ok (v, F) ∧ n128 v = R

theorem OkTo.of_eq {F : UInt32} {R : AH.U128} {a b : Except String (Rs.U128 × UInt32)} (h : a = b)
    (hb : OkTo F R b) : OkTo F R a := h ▸ hb

open Lean Meta in
/-- head reduction (β, projections, `match` on constructors, ζ of the leading `have`s) that stops at a join point
`have __do_jp := …`; `fuel` bounds the number of leading `have`s -/
def headNorm : Nat → Expr → MetaM Expr
  | 0, a => pure a
  | fuel + 1, a => do
    let a ← withConfig (fun c => { c with zeta := false, zetaDelta := true }) (whnfCore a)
    match a with
    | .letE n _ v b _ =>
      if n.eraseMacroScopes == `__do_jp then return a else headNorm fuel (b.instantiate1 v)
    | .mdata _ b => headNorm fuel b
    | _ => return a

open Lean Meta Elab Tactic in
/-- reduce the computation of an `OkTo` goal at its head only, up to the next join point -/
local elab "ostep" : tactic => do
  let g ← getMainGoal
  g.withContext do
    let t := (← instantiateMVars (← g.getType)).consumeMData
    unless t.isAppOfArity ``OkTo 3 do throwError "ostep: not an OkTo goal"
    let a' ← headNorm 1000 t.appArg!
    let g' ← g.replaceTargetDefEq (mkApp t.appFn! a')
    replaceMainGoal [g']

open Lean Meta Elab Tactic in
/-- the computation of the `OkTo` goal starts with `have x := v; b`: make it a local definition named `n` -/
local elab "olet1 " n:ident : tactic => do
  let g ← getMainGoal
  g.withContext do
    let t := (← instantiateMVars (← g.getType)).consumeMData
    unless t.isAppOfArity ``OkTo 3 do throwError "olet1: not an OkTo goal"
    match t.appArg!.consumeMData with
    | .letE _ ty v b _ =>
      let newT := Expr.letE n.getId ty v (mkApp t.appFn! b) false
      let g' ← g.replaceTargetDefEq newT
      let (_, g'') ← g'.intro n.getId
      replaceMainGoal [g'']
    | _ => throwError "olet1: the computation does not start with a `have`"

open Lean Meta Elab Tactic in
/-- as `ostep`, but stops at every `have` -/
local elab "ostep'" : tactic => do
  let g ← getMainGoal
  g.withContext do
    let t := (← instantiateMVars (← g.getType)).consumeMData
    unless t.isAppOfArity ``OkTo 3 do throwError "ostep': not an OkTo goal"
    let a' ← withConfig (fun c => { c with zeta := false, zetaDelta := true }) (whnfCore t.appArg!)
    let g' ← g.replaceTargetDefEq (mkApp t.appFn! a')
    replaceMainGoal [g']

/-- name the leading `have`s of the computation (local definitions) -/
local macro "olet " ns:(ppSpace colGt ident)+ : tactic => `(tactic| ($[olet1 $ns];*))

/-- run up to the next join point `have __do_jp := …` and name it (a local definition) -/
local macro "ojp " n:ident : tactic => `(tactic| (ostep; olet1 $n))

local macro "otake_pos" : tactic => `(tactic| (ostep; refine OkTo.of_eq (if_pos ?_) ?_))
local macro "otake_neg" : tactic => `(tactic| (ostep; refine OkTo.of_eq (if_neg ?_) ?_))
local macro "otake_call " h:term : tactic => `(tactic| (ostep; refine OkTo.of_eq (bind_ok_step $h _) ?_))

theorem ofNat_or32 (a b : Nat) : UInt32.ofNat (a ||| b) = UInt32.ofNat a ||| UInt32.ofNat b := by
  apply UInt32.toNat_inj.mp
  rw [UInt32.toNat_or, UInt32.toNat_ofNat', UInt32.toNat_ofNat', UInt32.toNat_ofNat', Nat.or_mod_two_pow]

theorem i32_one : (1 : Int32).toInt = 1 := by decide

/-- the rounding increment of the model in terms of the machine words -/
theorem roundProv_bridge (b : Bool) (hi lo : UInt64) (eo : Int32) :
    BC.roundProv b ⟨hi.toNat, lo.toNat, eo.toInt⟩ =
      if b = true then
        if (lo + 1 == 0) = true then ⟨(hi + 1).toNat, (lo + 1).toNat, eo.toInt⟩
        else if (lo + 1 == 4003012203950112768 && hi == 542101086242752) = true then
          ⟨(54210108624275 : UInt64).toNat, (4089650035136921600 : UInt64).toNat, (eo + 1).toInt⟩
        else ⟨hi.toNat, (lo + 1).toNat, eo.toInt⟩
      else ⟨hi.toNat, lo.toNat, eo.toInt⟩ := by
  have q1 : (lo + 1 == 0) = (AH.add64 lo.toNat 1 == 0) := beq_u64' (b := 0) (b' := 0) (tn_add _ _) rfl
  have q2 : (lo + 1 == 4003012203950112768) = (AH.add64 lo.toNat 1 == 4003012203950112768) :=
    beq_u64' (b := 4003012203950112768) (b' := 4003012203950112768) (tn_add _ _) rfl
  have q3 : (hi == 542101086242752) = (hi.toNat == 542101086242752) :=
    beq_u64' (b := 542101086242752) (b' := 542101086242752) rfl rfl
  unfold BC.roundProv
  rw [q1, q2, q3, tn_add, tn_add, i32_addw, i32_one]
  rfl

set_option hygiene false in
/-- the common part of `binary32_to_bid128` and `binary64_to_bid128` (the two bodies are the same text from the test
`e <= 0` on): the exact block, the table look-up, product, shift, adjustment by ten, rounding, packing -/
local macro "conv_tail" : tactic => `(tactic| (
    ojp jp1
    have H1 : (match BC.tableR E.toInt with
        | none => none
        | some tr => BC.mainBlock m us.toInt E.toInt ⟨0, CC.w1.toNat⟩ tr flags) = some (R, fl) →
        OkTo (f ||| UInt32.ofNat fl) R (jp1 ()) := by
      intro hm
      ostep'
      olet EP EO EH0 EL EH
      have hEP : AH.i32w (E.toInt + 42152) = EP.toInt := by
        show _ = (E + 42152).toInt
        rw [i32_addw]; rfl
      clear_value EP
      have hEO : AH.i32w (AH.i32w (AH.i32w (19728 * EP.toInt) + AH.i32w (19779 * EP.toInt) / 65536)
          / 65536 - 6512) = EO.toInt := by
        show _ = (((19728 : Int32) * EP + ((19779 : Int32) * EP) >>> 16) >>> 16 - 6512).toInt
        rw [i32_subw, i32_shr16, i32_addw, i32_shr16, i32_mulw, i32_mulw]; rfl
      clear_value EO
      have hEH0 : AH.i32w (11232 - EO.toInt) = EH0.toInt := by
        show _ = ((11232 : Int32) - EO).toInt
        rw [i32_subw]; rfl
      have hEL : EH0.toInt % 128 = EL.toInt := (i32_and127 _).symm
      have hEH : EH0.toInt / 128 = EH.toInt := (i32_shr7 _).symm
      clear_value EH EL EH0
      cases hT : BC.tableR E.toInt with
      | none => rw [hT] at hm; cases hm
      | some tr =>
        rw [hT] at hm
        dsimp only at hm
        unfold BC.tableR at hT
        simp only [hEP, hEO, hEH0, hEL, hEH] at hT
        ostep
        cases hr : BC.tbl4 BID_INNERTABLE_SIG (BC.i32AsU64 EL.toInt) with
        | none => rw [hr] at hT; cases hT
        | some r0 =>
        cases hf : BC.tbl1 BID_INNERTABLE_EXP (BC.i32AsU64 EL.toInt) with
        | none => rw [hr, hf] at hT; cases hT
        | some fw =>
        rw [hr, hf] at hT
        dsimp only at hT
        obtain ⟨rr, hrr, err⟩ := tbl256_bridge _ tables_words.2.2.2.2.1 (UInt64.ofInt (toI EL)) r0
          (by rw [tn_i32AsU64]; exact hr)
        obtain ⟨ff, hff, eff⟩ := tblI32_bridge _ tables_words.2.2.2.2.2.2 (UInt64.ofInt (toI EL)) fw
          (by rw [tn_i32AsU64]; exact hf)
        otake_call hrr
        otake_call hff
        ojp jp2
        have H2 : ∀ (r : Rs.U256) (fe : Int32),
            BC.mainBlock m us.toInt E.toInt ⟨0, CC.w1.toNat⟩ ⟨n256 r, fe.toInt, EO.toInt⟩ flags = some (R, fl) →
            OkTo (f ||| UInt32.ofNat fl) R (jp2 () r fe) := by
          intro r fe hmb
          ostep
          obtain ⟨z0, hz0, ez0⟩ := mul_128x256_to_384_bridge CC r
          otake_call hz0
          obtain ⟨z1, hz1, ez1⟩ := srl384_short_bridge z0 (-(241 + E + fe))
          otake_call hz1
          otake_call (lt128_bridge z1.w5 z1.w4 54210108624275 4089650035136921600)
          ojp jp3
          have H3 : ∀ (z : Rs.U512) (eo : Int32),
              BC.roundPack m us.toInt (n512 z) eo.toInt flags = some (R, fl) →
              OkTo (f ||| UInt32.ofNat fl) R (jp3 () z eo) := by
            intro z eo hrp
            ostep
            unfold BC.roundPack at hrp
            dsimp only at hrp
            have hidx : (UInt64.ofInt (toI (HkGen.rmode m)) <<< 2 + (UInt64.ofInt (toI us) &&& 1) <<< 1
                + (z.w4 &&& 1)).toNat = AH.add64 (AH.add64 (AH.shl64 m.toNat 2)
                  (AH.shl64 (BC.i32AsU64 us.toInt &&& 1) 1)) ((n512 z).w4 &&& 1) := by
              rw [tn_add, tn_add, tn_shl, tn_shl, tn_and, tn_and, tn_rmode, tn_i32AsU64]; rfl
            cases hrb : BC.tbl2 BID_ROUNDBOUND_128 (AH.add64 (AH.add64 (AH.shl64 m.toNat 2)
                  (AH.shl64 (BC.i32AsU64 us.toInt &&& 1) 1)) ((n512 z).w4 &&& 1)) with
            | none => rw [hrb] at hrp; cases hrp
            | some rb0 =>
            rw [hrb] at hrp
            dsimp only at hrp
            obtain ⟨rb, hrbk, erb⟩ := tbl128_bridge _ tables_words.1 _ rb0 (by rw [hidx]; exact hrb)
            subst erb
            otake_call hrbk
            otake_call (lt128_bridge rb.w1 rb.w0 z.w3 z.w2)
            ojp jp4
            cases hrp
            have H4 : ∀ (hi lo : UInt64) (eo' : Int32),
                OkTo (f ||| UInt32.ofNat (if ((n512 z).w3 != 0 || (n512 z).w2 != 0) = true then flags ||| fInexact
                    else flags))
                  (BC.returnBid128 us.toInt eo'.toInt hi.toNat lo.toNat) (jp4 () hi lo eo') := by
              intro hi lo eo'
              ostep
              ojp jp5
              obtain ⟨v, hv, ev⟩ := return_bid128_bridge us eo' hi lo
              have q : (z.w3 != 0 || z.w2 != 0) = ((n512 z).w3 != 0 || (n512 z).w2 != 0) := by
                rw [bne_u64, bne_u64]; rfl
              by_cases hin : (z.w3 != 0 || z.w2 != 0) = true
              · otake_pos; exact hin
                otake_call (ssf _ _)
                ostep
                otake_call hv
                rw [q] at hin
                rw [if_pos hin, ofNat_or32, ← UInt32.or_assoc]
                exact ⟨v, rfl, ev⟩
              · otake_neg; exact hin
                ostep
                otake_call hv
                rw [q] at hin
                rw [if_neg hin]
                exact ⟨v, rfl, ev⟩
            have hrw := roundProv_bridge (BC.lt128 rb.w1.toNat rb.w0.toNat z.w3.toNat z.w2.toNat) z.w5 z.w4 eo
            by_cases hup : BC.lt128 rb.w1.toNat rb.w0.toNat z.w3.toNat z.w2.toNat = true
            · otake_pos; exact hup
              rw [if_pos hup] at hrw
              by_cases hz : (z.w4 + 1 == 0) = true
              · otake_pos; exact hz
                rw [if_pos hz] at hrw
                ostep
                rw [hrw]
                exact H4 (z.w5 + 1) (z.w4 + 1) eo
              · otake_neg; exact hz
                rw [if_neg hz] at hrw
                by_cases hd : (z.w4 + 1 == 4003012203950112768 && z.w5 == 542101086242752) = true
                · otake_pos; exact hd
                  rw [if_pos hd] at hrw
                  ostep
                  rw [hrw]
                  exact H4 54210108624275 4089650035136921600 (eo + 1)
                · otake_neg; exact hd
                  rw [if_neg hd] at hrw
                  rw [hrw]
                  exact H4 z.w5 (z.w4 + 1) eo
            · otake_neg; exact hup
              rw [if_neg hup] at hrw
              rw [hrw]
              exact H4 z.w5 z.w4 eo
          unfold BC.mainBlock at hmb
          dsimp only at hmb
          have hcc : n128 CC = ⟨0, CC.w1.toNat⟩ := by
            show (⟨CC.w0.toNat, CC.w1.toNat⟩ : AH.U128) = _
            rw [hc0]; rfl
          have ee : (-(241 + E + fe)).toInt = AH.i32w (-(AH.i32w (AH.i32w (241 + E.toInt) + fe.toInt))) := by
            rw [i32_negw, i32_addw, i32_addw]; rfl
          rw [hcc] at ez0
          rw [ee] at ez1
          rw [← ez0, ← ez1] at hmb
          by_cases hlt : BC.lt128 z1.w5.toNat z1.w4.toNat 54210108624275 4089650035136921600 = true
          · obtain ⟨z2, hz2, ez2⟩ := mul_10x384_bridge z1
            otake_pos; exact hlt
            otake_call hz2
            ostep
            refine H3 _ _ ?_
            rw [if_pos hlt, if_pos hlt, ← ez2] at hmb
            rw [i32_subw]
            exact hmb
          · otake_neg; exact hlt
            refine H3 _ _ ?_
            rw [if_neg hlt, if_neg hlt] at hmb
            exact hmb
        have q39 : (EH != 39) = (EH.toInt != 39) := by
          rw [bne_i32]; rfl
        by_cases hh : (EH != 39) = true
        · otake_pos; exact hh
          rw [q39] at hh
          rw [if_pos hh] at hT
          cases hs : BC.tbl4 BID_OUTERTABLE_SIG (BC.i32AsU64 EH.toInt) with
          | none => rw [hs] at hT; cases hT
          | some s0 =>
          cases hg : BC.tbl1 BID_OUTERTABLE_EXP (BC.i32AsU64 EH.toInt) with
          | none => rw [hs, hg] at hT; cases hT
          | some gw =>
          rw [hs, hg] at hT
          dsimp only at hT
          obtain ⟨ss, hss, ess⟩ := tbl256_bridge _ tables_words.2.2.2.1 (UInt64.ofInt (toI EH)) s0
            (by rw [tn_i32AsU64]; exact hs)
          obtain ⟨gg, hgg, egg⟩ := tblI32_bridge _ tables_words.2.2.2.2.2.1 (UInt64.ofInt (toI EH)) gw
            (by rw [tn_i32AsU64]; exact hg)
          obtain ⟨tp, htp, etp⟩ := mul_256x256_to_512_bridge rr ss
          otake_call hss
          otake_call hgg
          otake_call htp
          ostep
          refine H2 _ _ ?_
          cases hT
          subst err ess
          rw [← etp, ← eff, ← egg] at hm
          rw [i32_addw, i32_addw]
          refine Eq.trans (congrArg (fun q => BC.mainBlock m us.toInt E.toInt ⟨0, CC.w1.toNat⟩ q flags) ?_) hm
          show (⟨⟨(tp.w4 + 1).toNat, tp.w5.toNat, tp.w6.toNat, tp.w7.toNat⟩, _, _⟩ : BC.TabR) = _
          rw [tn_add]
          rfl
        · otake_neg; exact hh
          rw [q39] at hh
          rw [if_neg hh] at hT
          cases hT
          subst err
          refine H2 _ _ ?_
          rw [eff]
          exact hm
    have hz32 : (0 : Int32).toInt = 0 := i32_zero
    have ha : AH.i32w (-(AH.i32w (E.toInt + T.toInt))) = (-(E + T)).toInt := by
      rw [i32_negw, i32_addw]
    have hcw0 : CC.w0.toNat = 0 := by rw [hc0]; rfl
    unfold BC.convTail at h
    by_cases he : decide (E ≤ 0) = true
    · otake_pos; exact he
      rw [dec_le_i32, decide_eq_true_eq, hz32] at he
      by_cases h0 : decide (-(E + T) ≤ 0) = true
      · otake_pos; exact h0
        rw [dec_le_i32, decide_eq_true_eq, hz32] at h0
        obtain ⟨r1, hr1, er1⟩ := srl128_bridge CC.w1 CC.w0 (UInt64.ofInt (toI (15 - E)))
        otake_call hr1
        otake_call (lt128_bridge r1.1 r1.2 542101086242752 4003012203950112768)
        have hsr : BC.srl128 CC.w1.toNat 0 (BC.i32AsU64 (AH.i32w (15 - E.toInt))) = (r1.1.toNat, r1.2.toNat) := by
          rw [er1, hcw0, tn_i32AsU64, i32_subw]; rfl
        by_cases hl : BC.lt128 r1.1.toNat r1.2.toNat 542101086242752 4003012203950112768 = true
        · otake_pos; exact hl
          obtain ⟨v, hv, ev⟩ := return_bid128_bridge us 6176 r1.1 r1.2
          otake_call hv
          have hx : BC.exactBlock us.toInt E.toInt ⟨0, CC.w1.toNat⟩ T.toInt
              = some (some (BC.returnBid128 us.toInt 6176 r1.1.toNat r1.2.toNat)) := by
            simp only [BC.exactBlock, if_pos he, ha, if_pos h0, hsr, if_pos hl]
          rw [hx] at h
          cases h
          exact ⟨v, rfl, ev⟩
        · otake_neg; exact hl
          have hx : BC.exactBlock us.toInt E.toInt ⟨0, CC.w1.toNat⟩ T.toInt = some none := by
            simp only [BC.exactBlock, if_pos he, ha, if_pos h0, hsr, if_neg hl]
          rw [hx] at h
          exact H1 h
      · otake_neg; exact h0
        rw [dec_le_i32, decide_eq_true_eq, hz32] at h0
        by_cases h48 : decide (-(E + T) ≤ 48) = true
        · otake_pos; exact h48
          have h48' : (-(E + T)).toInt ≤ 48 := by
            rw [dec_le_i32, decide_eq_true_eq] at h48; exact h48
          cases hp : BC.tbl2 BID_COEFFLIMITS_BID128 (BC.i32AsU64 (-(E + T)).toInt) with
          | none =>
            have hx : BC.exactBlock us.toInt E.toInt ⟨0, CC.w1.toNat⟩ T.toInt = none := by
              simp only [BC.exactBlock, if_pos he, ha, if_neg h0, if_pos h48', hp]
            rw [hx] at h
            cases h
          | some p0 =>
          obtain ⟨pw, hpw, epw⟩ := tbl128_bridge _ tables_words.2.2.1 (UInt64.ofInt (toI (-(E + T)))) p0
            (by rw [tn_i32AsU64]; exact hp)
          subst epw
          otake_call hpw
          obtain ⟨r1, hr1, er1⟩ := srl128_bridge CC.w1 CC.w0 (UInt64.ofInt (toI (15 + T)))
          otake_call hr1
          otake_call (le128_bridge r1.1 r1.2 pw.w1 pw.w0)
          have hsr : BC.srl128 CC.w1.toNat 0 (BC.i32AsU64 (AH.i32w (15 + T.toInt))) = (r1.1.toNat, r1.2.toNat) := by
            rw [er1, hcw0, tn_i32AsU64, i32_addw]; rfl
          by_cases hl : BC.le128 r1.1.toNat r1.2.toNat pw.w1.toNat pw.w0.toNat = true
          · otake_pos; exact hl
            cases hq : BC.tbl2 BID_POWER_FIVE (BC.i32AsU64 (-(E + T)).toInt) with
            | none =>
              have hx : BC.exactBlock us.toInt E.toInt ⟨0, CC.w1.toNat⟩ T.toInt = none := by
                simp only [BC.exactBlock, if_pos he, ha, if_neg h0, if_pos h48', hp, hsr]
                rw [if_pos hl, hq]
              rw [hx] at h
              cases h
            | some q0 =>
            obtain ⟨qw, hqw, eqw⟩ := tbl128_bridge _ tables_words.2.1 (UInt64.ofInt (toI (-(E + T)))) q0
              (by rw [tn_i32AsU64]; exact hq)
            subst eqw
            otake_call hqw
            obtain ⟨cc, hcc, ecc⟩ := mul_128x128_low_bridge ⟨r1.2, r1.1⟩ qw
            otake_call hcc
            obtain ⟨v, hv, ev⟩ := return_bid128_bridge us (6176 - -(E + T)) cc.w1 cc.w0
            otake_call hv
            have hx : BC.exactBlock us.toInt E.toInt ⟨0, CC.w1.toNat⟩ T.toInt
                = some (some (BC.returnBid128 us.toInt (6176 - -(E + T)).toInt cc.w1.toNat cc.w0.toNat)) := by
              simp only [BC.exactBlock, if_pos he, ha, if_neg h0, if_pos h48', hp, hsr]
              rw [if_pos hl, hq]
              dsimp only
              rw [i32_subw, ← show n128 cc = AH.mul128x128Low ⟨r1.2.toNat, r1.1.toNat⟩ (n128 qw) from ecc]
              rfl
            rw [hx] at h
            cases h
            exact ⟨v, rfl, ev⟩
          · otake_neg; exact hl
            have hx : BC.exactBlock us.toInt E.toInt ⟨0, CC.w1.toNat⟩ T.toInt = some none := by
              simp only [BC.exactBlock, if_pos he, ha, if_neg h0, if_pos h48', hp, hsr]
              rw [if_neg hl]
            rw [hx] at h
            exact H1 h
        · otake_neg; exact h48
          have h48' : ¬ (-(E + T)).toInt ≤ 48 := by
            rw [dec_le_i32, decide_eq_true_eq] at h48; exact h48
          have hx : BC.exactBlock us.toInt E.toInt ⟨0, CC.w1.toNat⟩ T.toInt = some none := by
            simp only [BC.exactBlock, if_pos he, ha, if_neg h0, if_neg h48']
          rw [hx] at h
          exact H1 h
    · otake_neg; exact he
      rw [dec_le_i32, decide_eq_true_eq, hz32] at he
      have hx : BC.exactBlock us.toInt E.toInt ⟨0, CC.w1.toNat⟩ T.toInt = some none := by
        simp only [BC.exactBlock, if_neg he]
      rw [hx] at h
      exact H1 h))

set_option linter.constructorNameAsVariable false in
theorem binary64_to_bid128_ok (m : Mode) (x : UInt64) (f : UInt32) (R : AH.U128) (fl : Flags)
    (h : BC.binary64ToBid128 m x.toNat = some (R, fl)) :
    OkTo (f ||| UInt32.ofNat fl) R (Code2.binary64_to_bid128 ⟨x⟩ (HkGen.rmode m) f) := by
  obtain ⟨u, hu, ru⟩ := unpack_binary64_bridge x 0 0 (default : Rs.U128).w1 0 f
  unfold BC.binary64ToBid128 at h
  cases hup : BC.unpackBinary64 x.toNat with
  | ret res flags =>
    rw [hup] at h ru
    obtain ⟨v, h1, h2, h3⟩ := ru
    simp only [BC.afterUnpack] at h
    cases h
    unfold Code2.binary64_to_bid128
    otake_call hu
    otake_pos; rw [h1]; rfl
    rw [h1, h3]
    exact ⟨v, rfl, h2⟩
  | go s e c t flags =>
    rw [hup] at h ru
    obtain ⟨h1, h2, h3, h4, h5, h6⟩ := ru
    simp only [BC.afterUnpack] at h
    unfold Code2.binary64_to_bid128
    otake_call hu
    otake_neg; rw [h1]; exact Bool.false_ne_true
    clear hu hup h1
    generalize u.2.1 = us at *
    generalize u.2.2.1 = ue at *
    generalize u.2.2.2.1 = uc at *
    generalize u.2.2.2.2.1 = ut at *
    generalize u.2.2.2.2.2 = pf at *
    clear u
    subst h2 h3 h4 h5 h6
    olet c1 CC T E
    have hE : AH.i32w (ue.toInt - (113 - 53)) = E.toInt := by
      show _ = (ue - 60).toInt
      rw [i32_subw]; rfl
    have hT : AH.i32w (ut.toInt + (113 - 53)) = T.toInt := by
      show _ = (ut + 60).toInt
      rw [i32_addw]; rfl
    have hC : AH.shl64 uc.toNat 11 = CC.w1.toNat := by
      show _ = (uc <<< 11).toNat
      rw [tn_shl]; rfl
    have hc0 : CC.w0 = 0 := rfl
    rw [hE, hT, hC] at h
    clear hE hT hC
    clear_value E T CC
    clear c1
    conv_tail
set_option linter.constructorNameAsVariable false in
theorem binary32_to_bid128_ok (m : Mode) (x : UInt32) (f : UInt32) (R : AH.U128) (fl : Flags)
    (h : BC.binary32ToBid128 m x.toNat = some (R, fl)) :
    OkTo (f ||| UInt32.ofNat fl) R (Code2.binary32_to_bid128 ⟨x⟩ (HkGen.rmode m) f) := by
  obtain ⟨u, hu, ru⟩ := unpack_binary32_bridge x 0 0 (default : Rs.U128).w1 0 f
  unfold BC.binary32ToBid128 at h
  cases hup : BC.unpackBinary32 x.toNat with
  | ret res flags =>
    rw [hup] at h ru
    obtain ⟨v, h1, h2, h3⟩ := ru
    simp only [BC.afterUnpack] at h
    cases h
    unfold Code2.binary32_to_bid128
    otake_call hu
    otake_pos; rw [h1]; rfl
    rw [h1, h3]
    exact ⟨v, rfl, h2⟩
  | go s e c t flags =>
    rw [hup] at h ru
    obtain ⟨h1, h2, h3, h4, h5, h6⟩ := ru
    simp only [BC.afterUnpack] at h
    unfold Code2.binary32_to_bid128
    otake_call hu
    otake_neg; rw [h1]; exact Bool.false_ne_true
    clear hu hup h1
    generalize u.2.1 = us at *
    generalize u.2.2.1 = ue at *
    generalize u.2.2.2.1 = uc at *
    generalize u.2.2.2.2.1 = ut at *
    generalize u.2.2.2.2.2 = pf at *
    clear u
    subst h2 h3 h4 h5 h6
    olet c1 CC T E
    have hE : AH.i32w (ue.toInt - (113 - 24)) = E.toInt := by
      show _ = (ue - 89).toInt
      rw [i32_subw]; rfl
    have hT : AH.i32w (ut.toInt + (113 - 24)) = T.toInt := by
      show _ = (ut + 89).toInt
      rw [i32_addw]; rfl
    have hC : AH.shl64 uc.toNat 40 = CC.w1.toNat := by
      show _ = (uc <<< 40).toNat
      rw [tn_shl]; rfl
    have hc0 : CC.w0 = 0 := rfl
    rw [hE, hT, hC] at h
    clear hE hT hC
    clear_value E T CC
    clear c1
    conv_tail

/-! ### 9. The statements for the translated source -/

theorem ofNat64_tn {b : Nat} (h : b < 2 ^ 64) : (UInt64.ofNat b).toNat = b := by
  rw [UInt64.toNat_ofNat']; exact Nat.mod_eq_of_lt h
theorem ofNat32_tn {b : Nat} (h : b < 2 ^ 32) : (UInt32.ofNat b).toNat = b := by
  rw [UInt32.toNat_ofNat']; exact Nat.mod_eq_of_lt h

/-- **The translated `binary64_to_bid128` is the model, for every input.**  Take any 64-bit pattern `bits`, any rounding
mode `m` and any incoming status word `f`.  The machine translation of the Rust routine, run on the `f64` with that
pattern, returns normally (never the `.error` of a panic); the 128-bit result is exactly the pattern `r` the
line-numbered model `bin64Code` gives, and the status word it leaves is `f` with the model's flags `fl` ORed in —
nothing else is set, nothing is cleared.  (`bin64Code m bits` is `some …` for every pattern: `binCode_isSome`.) -/
theorem binary64_to_bid128_bridge (m : Mode) (bits : Nat) (hb : bits < 2 ^ 64) (f : UInt32) (r : Nat) (fl : Flags)
    (h : bin64Code m bits = some (r, fl)) :
    Code2.binary64_to_bid128 ⟨UInt64.ofNat bits⟩ (HkGen.rmode m) f = .ok (ofBits r, f ||| UInt32.ofNat fl) := by
  unfold bin64Code at h
  cases hR : BC.binary64ToBid128 m bits with
  | none => rw [hR] at h; cases h
  | some p =>
    obtain ⟨R, fl'⟩ := p
    rw [hR] at h
    cases h
    obtain ⟨v, hv, ev⟩ := binary64_to_bid128_ok m (UInt64.ofNat bits) f R fl' (by rw [ofNat64_tn hb]; exact hR)
    rw [hv]
    subst ev
    rw [show BC.bitsOf (n128 v) = bitsOf v from rfl, ofBits_bitsOf]

/-- **The translated `binary32_to_bid128` is the model, for every input**: as `binary64_to_bid128_bridge`, for the 32-bit
patterns and `bin32Code`. -/
theorem binary32_to_bid128_bridge (m : Mode) (bits : Nat) (hb : bits < 2 ^ 32) (f : UInt32) (r : Nat) (fl : Flags)
    (h : bin32Code m bits = some (r, fl)) :
    Code2.binary32_to_bid128 ⟨UInt32.ofNat bits⟩ (HkGen.rmode m) f = .ok (ofBits r, f ||| UInt32.ofNat fl) := by
  unfold bin32Code at h
  cases hR : BC.binary32ToBid128 m bits with
  | none => rw [hR] at h; cases h
  | some p =>
    obtain ⟨R, fl'⟩ := p
    rw [hR] at h
    cases h
    obtain ⟨v, hv, ev⟩ := binary32_to_bid128_ok m (UInt32.ofNat bits) f R fl' (by rw [ofNat32_tn hb]; exact hR)
    rw [hv]
    subst ev
    rw [show BC.bitsOf (n128 v) = bitsOf v from rfl, ofBits_bitsOf]

open Dec.C07BinConvCode in
/-- **The translated `binary64_to_bid128` meets the specification, for every input.**  For every 64-bit pattern, mode and
incoming status word the translated routine returns normally; its result is the encoding of the correctly rounded
decimal128 value of the binary64 number the pattern denotes (`binToDecD` of `decodeBin 11 52 bits`; ±infinity; for a NaN
the quiet NaN with the operand's sign and the payload `nanPayload64 bits`), and it ORs into the status word exactly
the flags of the specification (inexact; denormal for a nonzero subnormal input; invalid for a signalling NaN). -/
theorem binary64_to_bid128_spec (m : Mode) (bits : Nat) (hb : bits < 2 ^ 64) (f : UInt32) :
    Code2.binary64_to_bid128 ⟨UInt64.ofNat bits⟩ (HkGen.rmode m) f =
      .ok (ofBits (binSpec m (nanPayload64 bits) (decodeBin 11 52 bits)).1,
        f ||| UInt32.ofNat (binSpec m (nanPayload64 bits) (decodeBin 11 52 bits)).2) :=
  binary64_to_bid128_bridge m bits hb f _ _ (bin64Code_spec m bits hb)

open Dec.C07BinConvCode in
/-- **The translated `binary32_to_bid128` meets the specification, for every input** (`decodeBin 8 23 bits`,
`nanPayload32 bits`). -/
theorem binary32_to_bid128_spec (m : Mode) (bits : Nat) (hb : bits < 2 ^ 32) (f : UInt32) :
    Code2.binary32_to_bid128 ⟨UInt32.ofNat bits⟩ (HkGen.rmode m) f =
      .ok (ofBits (binSpec m (nanPayload32 bits) (decodeBin 8 23 bits)).1,
        f ||| UInt32.ofNat (binSpec m (nanPayload32 bits) (decodeBin 8 23 bits)).2) :=
  binary32_to_bid128_bridge m bits hb f _ _ (bin32Code_spec m bits hb)

/-- The translated `binary64_to_bid128` never fails (no index out of range, no `unwrap` of `None`), whatever the operand,
the mode and the status word. -/
theorem binary64_to_bid128_isOk (m : Mode) (x : UInt64) (f : UInt32) :
    ∃ v, Code2.binary64_to_bid128 ⟨x⟩ (HkGen.rmode m) f = .ok v := by
  have h := binary64_to_bid128_spec m x.toNat x.toNat_lt f
  rw [UInt64.ofNat_toNat] at h
  exact ⟨_, h⟩

/-- The translated `binary32_to_bid128` never fails. -/
theorem binary32_to_bid128_isOk (m : Mode) (x : UInt32) (f : UInt32) :
    ∃ v, Code2.binary32_to_bid128 ⟨x⟩ (HkGen.rmode m) f = .ok v := by
  have h := binary32_to_bid128_spec m x.toNat x.toNat_lt f
  rw [UInt32.ofNat_toNat] at h
  exact ⟨_, h⟩

/-- every `RoundingMode` of the translation is a mode of the model -/
theorem rmode_surj (md : Rs.RoundingMode) : ∃ m, HkGen.rmode m = md := by
  cases md
  · exact ⟨.rne, rfl⟩
  · exact ⟨.rdn, rfl⟩
  · exact ⟨.rup, rfl⟩
  · exact ⟨.rtz, rfl⟩
  · exact ⟨.rna, rfl⟩

/-- **`d128::convert_from_f64` as translated** (`Api2.run2 "convert_from_f64"`): for every pattern, mode and status word
the method returns the pattern the helper judge's model `binConvCodeOp` gives, and leaves the status word ORed with the
model's flags. -/
theorem run2_convert_from_f64 (m : Mode) (bits : Nat) (hb : bits < 2 ^ 64) (f : UInt32) (r : Nat) (fl : Flags)
    (h : binConvCodeOp "convert_from_f64" m bits = some (some (r, fl))) :
    Api2.run2 "convert_from_f64" (HkGen.rmode m) f bits = some (.ok (ofBits r, f ||| UInt32.ofNat fl)) := by
  have h' : bin64Code m bits = some (r, fl) := Option.some.inj h
  show some (Code2.binary64_to_bid128 ⟨UInt64.ofNat bits⟩ (HkGen.rmode m) f) = _
  rw [binary64_to_bid128_bridge m bits hb f r fl h']

/-- **`d128::convert_from_f32` as translated**: as `run2_convert_from_f64`, for the 32-bit patterns. -/
theorem run2_convert_from_f32 (m : Mode) (bits : Nat) (hb : bits < 2 ^ 32) (f : UInt32) (r : Nat) (fl : Flags)
    (h : binConvCodeOp "convert_from_f32" m bits = some (some (r, fl))) :
    Api2.run2 "convert_from_f32" (HkGen.rmode m) f bits = some (.ok (ofBits r, f ||| UInt32.ofNat fl)) := by
  have h' : bin32Code m bits = some (r, fl) := Option.some.inj h
  show some (Code2.binary32_to_bid128 ⟨UInt32.ofNat bits⟩ (HkGen.rmode m) f) = _
  rw [binary32_to_bid128_bridge m bits hb f r fl h']

/-- **`impl From<f64> for d128` as translated** (`Api2.run2 "from_f64"`): whatever mode `md` and status word `f` the
caller has, the method returns the pattern the model gives (round-to-nearest-even) and the caller's status word is
UNTOUCHED — the flags go to a status word local to the call; accordingly the model reports no flag (`fl = 0`). -/
theorem run2_from_f64 (m : Mode) (md : Rs.RoundingMode) (bits : Nat) (hb : bits < 2 ^ 64) (f : UInt32) (r : Nat)
    (fl : Flags) (h : binConvCodeOp "from_f64" m bits = some (some (r, fl))) :
    Api2.run2 "from_f64" md f bits = some (.ok (ofBits r, f)) ∧ fl = 0 := by
  have h' : (bin64Code .rne bits).map (fun r => (r.1, 0)) = some (r, fl) := Option.some.inj h
  cases hc : bin64Code .rne bits with
  | none => rw [hc] at h'; cases h'
  | some p =>
    rw [hc] at h'
    cases h'
    refine ⟨?_, rfl⟩
    show some ((Code2.binary64_to_bid128 ⟨UInt64.ofNat bits⟩ (HkGen.rmode .rne) 0).map fun r => (r.1, f)) = _
    rw [binary64_to_bid128_bridge .rne bits hb 0 p.1 p.2 hc]
    rfl

/-- **`impl From<f32> for d128` as translated**: as `run2_from_f64`. -/
theorem run2_from_f32 (m : Mode) (md : Rs.RoundingMode) (bits : Nat) (hb : bits < 2 ^ 32) (f : UInt32) (r : Nat)
    (fl : Flags) (h : binConvCodeOp "from_f32" m bits = some (some (r, fl))) :
    Api2.run2 "from_f32" md f bits = some (.ok (ofBits r, f)) ∧ fl = 0 := by
  have h' : (bin32Code .rne bits).map (fun r => (r.1, 0)) = some (r, fl) := Option.some.inj h
  cases hc : bin32Code .rne bits with
  | none => rw [hc] at h'; cases h'
  | some p =>
    rw [hc] at h'
    cases h'
    refine ⟨?_, rfl⟩
    show some ((Code2.binary32_to_bid128 ⟨UInt32.ofNat bits⟩ (HkGen.rmode .rne) 0).map fun r => (r.1, f)) = _
    rw [binary32_to_bid128_bridge .rne bits hb 0 p.1 p.2 hc]
    rfl

open Dec.C07BinConvCode in
/-- **The four public methods meet the specification** (the translated source, every pattern, mode and status word):
`convert_from_f64`/`convert_from_f32` return the encoding of the correctly rounded value and OR the specification's flags
into the status word; `From<f64>`/`From<f32>` return the round-to-nearest-even result and leave the status word as it
was. -/
theorem run2_spec (m : Mode) (md : Rs.RoundingMode) (bits : Nat) (f : UInt32) :
    (bits < 2 ^ 64 → Api2.run2 "convert_from_f64" (HkGen.rmode m) f bits =
      some (.ok (ofBits (binSpec m (nanPayload64 bits) (decodeBin 11 52 bits)).1,
        f ||| UInt32.ofNat (binSpec m (nanPayload64 bits) (decodeBin 11 52 bits)).2))) ∧
    (bits < 2 ^ 32 → Api2.run2 "convert_from_f32" (HkGen.rmode m) f bits =
      some (.ok (ofBits (binSpec m (nanPayload32 bits) (decodeBin 8 23 bits)).1,
        f ||| UInt32.ofNat (binSpec m (nanPayload32 bits) (decodeBin 8 23 bits)).2))) ∧
    (bits < 2 ^ 64 → Api2.run2 "from_f64" md f bits =
      some (.ok (ofBits (binSpec .rne (nanPayload64 bits) (decodeBin 11 52 bits)).1, f))) ∧
    (bits < 2 ^ 32 → Api2.run2 "from_f32" md f bits =
      some (.ok (ofBits (binSpec .rne (nanPayload32 bits) (decodeBin 8 23 bits)).1, f))) := by
  have hs := binConvCodeOp_spec m bits
  refine ⟨fun hb => ?_, fun hb => ?_, fun hb => ?_, fun hb => ?_⟩
  · exact run2_convert_from_f64 m bits hb f _ _ (hs.1 hb)
  · exact run2_convert_from_f32 m bits hb f _ _ (hs.2.1 hb)
  · exact (run2_from_f64 m md bits hb f _ _ (hs.2.2.1 hb)).1
  · exact (run2_from_f32 m md bits hb f _ _ (hs.2.2.2 hb)).1

/-! Examples: the translated routines run (kernel evaluation of the translated source itself) on `1.0`, `0.1`, the
smallest subnormal and a signalling NaN; and the theorems specialised. -/

/-- what a run of the translated `binary64_to_bid128` shows: the 128-bit pattern and the status word -/
def show64 (bits : Nat) (m : Mode) (f : UInt32) : Option (Nat × Nat) :=
  match Code2.binary64_to_bid128 ⟨UInt64.ofNat bits⟩ (HkGen.rmode m) f with
  | .ok r => some (bitsOf r.1, r.2.toNat)
  | .error _ => none

/-- what a run of the translated `binary32_to_bid128` shows -/
def show32 (bits : Nat) (m : Mode) (f : UInt32) : Option (Nat × Nat) :=
  match Code2.binary32_to_bid128 ⟨UInt32.ofNat bits⟩ (HkGen.rmode m) f with
  | .ok r => some (bitsOf r.1, r.2.toNat)
  | .error _ => none

-- 1.0 = 1·10^0, exact (the exact block), status word kept
example : show64 0x3FF0000000000000 .rne 4 = some (0x30400000000000000000000000000001, 4) := by decide +kernel
-- 0.1 (binary64) = 0.1000000000000000055511151231257827… rounded to 34 digits, inexact (0x20)
example : show64 0x3FB999999999999A .rne 0 = some (0x2FFC314DC6448D933986922312364CE3, 0x20) := by decide +kernel
-- the smallest subnormal 2^-1074 = 4.940656458412465441765687928682214e-324: denormal (0x02) and inexact (0x20)
-- are ORed into the status word
example : show64 1 .rne 0 = some (0x2D76F397DA03AF06AA833FD25715F6E6, 0x22) := by decide +kernel
-- a signalling NaN (lowest fraction bit set): the quiet NaN with the payload as the code derives it, invalid (0x01)
example : show64 0x7FF0000000000001 .rne 0 = some (0x7C000000000000000800000000000000, 1) := by decide +kernel
-- 0.1f32 = 0.100000001490116119384765625 exactly (27 digits): no flag raised, the incoming status word 1 is kept
example : show32 0x3DCCCCCD .rup 1 = some (0x300A00000052B7D2F176018A160334B9, 1) := by decide +kernel
example (f : UInt32) : ∃ v, Code2.binary64_to_bid128 ⟨0x7FF0000000000001⟩ .TowardZero f = .ok v :=
  binary64_to_bid128_isOk .rtz _ f
example (f : UInt32) : Api2.run2 "from_f32" .Upward f 0x3F800000 =
    some (.ok (ofBits (Dec.C07BinConvCode.binSpec .rne (Dec.C07BinConvCode.nanPayload32 0x3F800000)
      (decodeBin 8 23 0x3F800000)).1, f)) :=
  (run2_spec .rne .Upward 0x3F800000 f).2.2.2 (by decide)

end Dec.C07GenBinConv
