/-
  C10 — IEEE remainder and fmod are exact.
-/
import DecModel.Ops

namespace Dec.C10

/-- The integers the model works with: `x = X·10^m`, `y = Y·10^m`, `m = min(e₁,e₂)`. -/
def scaled (c1 : Nat) (e1 : Int) (c2 : Nat) (e2 : Int) : Nat × Nat × Int :=
  let m : Int := if e1 ≤ e2 then e1 else e2
  (c1 * 10 ^ (e1 - m).toNat, c2 * 10 ^ (e2 - m).toNat, m)

/-- fmod: result `r·10^m` with `X = (X / Y)·Y + r`, `r < Y`, sign of x, exponent `min(e₁,e₂)`, no flag -/
theorem fmod_spec (s1 s2 : Bool) (c1 c2 : Nat) (e1 e2 : Int) (h : c2 ≠ 0) :
    let (X, Y, m) := scaled c1 e1 c2 e2
    fmodD (.fin s1 c1 e1) (.fin s2 c2 e2) = (.fin s1 (X % Y) m, 0) ∧ X = (X / Y) * Y + X % Y ∧ X % Y < Y := by
  simp only [scaled, fmodD, h, if_false, true_and]
  generalize c1 * 10 ^ (e1 - if e1 ≤ e2 then e1 else e2).toNat = X
  have hY : 0 < c2 * 10 ^ (e2 - if e1 ≤ e2 then e1 else e2).toNat :=
    Nat.mul_pos (Nat.pos_of_ne_zero h) (Nat.pow_pos (by decide))
  generalize c2 * 10 ^ (e2 - if e1 ≤ e2 then e1 else e2).toNat = Y at hY
  constructor
  · have := Nat.div_add_mod X Y
    rw [Nat.mul_comm] at this; exact this.symm
  · exact Nat.mod_lt _ hY

/-- remainder: there is an integer `n` (`X / Y` or `X / Y + 1`) with `X = n·Y ± r`, `2r ≤ Y`, and when
`2r = Y` the chosen `n` is even; exact zero keeps the sign of x; no flag -/
theorem rem_spec (s1 s2 : Bool) (c1 c2 : Nat) (e1 e2 : Int) (h : c2 ≠ 0) :
    let (X, Y, m) := scaled c1 e1 c2 e2
    ∃ (n r : Nat) (neg : Bool),
      remD (.fin s1 c1 e1) (.fin s2 c2 e2) = (.fin neg r m, 0) ∧
      2 * r ≤ Y ∧
      ((neg = s1 ∧ X = n * Y + r) ∨ (neg = !s1 ∧ r ≠ 0 ∧ X + r = n * Y)) ∧
      (2 * r = Y → n % 2 = 0) ∧ (r = 0 → neg = s1) := by
  simp only [scaled, remD, h, if_false]
  generalize hX : c1 * 10 ^ (e1 - if e1 ≤ e2 then e1 else e2).toNat = X
  generalize hY : c2 * 10 ^ (e2 - if e1 ≤ e2 then e1 else e2).toNat = Y
  have hYpos : 0 < Y := by
    rw [← hY]; exact Nat.mul_pos (Nat.pos_of_ne_zero h) (Nat.pow_pos (by decide))
  have hdm := Nat.div_add_mod X Y
  have hlt := Nat.mod_lt X hYpos
  generalize hq : X / Y = q at *
  generalize hr : X % Y = r at *
  have hmul : Y * q = q * Y := Nat.mul_comm _ _
  by_cases hr0 : r = 0
  · refine ⟨q, 0, s1, ?_, by omega, Or.inl ⟨rfl, by omega⟩, by omega, fun _ => rfl⟩
    simp [hr0]
  · by_cases hup : (decide (2 * r > Y) || (decide (2 * r = Y) && q % 2 == 1)) = true
    · refine ⟨q + 1, Y - r, !s1, ?_, ?_, Or.inr ⟨rfl, by omega, ?_⟩, ?_, ?_⟩
      · simp [hr0, hup]
      · simp at hup; omega
      · rw [Nat.add_mul]; omega
      · intro h2; simp at hup; omega
      · intro h0; omega
    · refine ⟨q, r, s1, ?_, ?_, Or.inl ⟨rfl, by omega⟩, ?_, fun h0 => absurd h0 hr0⟩
      · simp [hr0, hup]
      · simp at hup; omega
      · intro h2; simp at hup; omega

/-- the result coefficient of fmod never exceeds that of the smaller-exponent operand's scale: in
particular it is below `Y`, hence below 10^34 when `e₂ ≤ e₁` -/
theorem fmod_lt_divisor (s1 s2 : Bool) (c1 c2 : Nat) (e1 e2 : Int) (h : c2 ≠ 0) (hle : e2 ≤ e1) (hc : c2 < P34) :
    ∃ r, fmodD (.fin s1 c1 e1) (.fin s2 c2 e2) = (.fin s1 r e2, 0) ∧ r < P34 := by
  have hm : (if e1 ≤ e2 then e1 else e2) = e2 := by split <;> omega
  refine ⟨c1 * 10 ^ (e1 - e2).toNat % c2, ?_, ?_⟩
  · simp [fmodD, h, hm]
  · exact Nat.lt_trans (Nat.mod_lt _ (Nat.pos_of_ne_zero h)) hc

/-- special values: x infinite or y zero ⇒ invalid default NaN; y infinite ⇒ x unchanged -/
theorem rem_specials (s1 s2 : Bool) (c : Nat) (e e2 : Int) (y : Datum) :
    remD (.inf s1) y = invalidResult ∧ fmodD (.inf s1) y = invalidResult ∧
    remD (.fin s1 c e) (.fin s2 0 e2) = invalidResult ∧ fmodD (.fin s1 c e) (.fin s2 0 e2) = invalidResult ∧
    remD (.fin s1 c e) (.inf s2) = (.fin s1 c e, 0) ∧ fmodD (.fin s1 c e) (.inf s2) = (.fin s1 c e, 0) := by
  cases y <;> simp [remD, fmodD]

/-- `%` is `remainder` -/
theorem rem_operator : normOp "op_rem_assign" = "op_rem" ∧ normOp "op_rem_ref" = "op_rem" := by decide

example : remD (.fin false 7 0) (.fin false 2 0) = (.fin true 1 0, 0) := by decide     -- 7 rem 2 = -1 (n = 4)
example : remD (.fin false 5 0) (.fin false 2 0) = (.fin false 1 0, 0) := by decide    -- 5 rem 2 = +1 (n = 2)
example : fmodD (.fin true 75 (-1)) (.fin false 2 0) = (.fin true 15 (-1), 0) := by decide

end Dec.C10
