/-
  C15 for the text entry points, composed: the translated wrappers (`DecGen/Code3.lean`, G) over the code-shaped model of the
  string routine (`DecModel/Scan.lean` + `ScanNum.lean`, H, tied to the compiled routine by `corr scanner-model` on every
  observed text) never panic — for EVERY text, every rounding mode and every status word.

  Ingredients: `C14GenTextGlue.text_total` (for any string routine that returns normally, each of `bid128_from_string`,
  `convert_from_decimal_character`, `FromStr::from_str`, `From<&str>::from`, `d128::nan` returns normally) and
  `C04ScanTotal.fromStringCode_total` (the composed scanner + numeric-phase model reaches no panic site on any text: no buffer
  index or slice out of range, no `to_digit(..).unwrap()` on a non-digit, no table index out of range inside the packer — not
  only on well-formed literals, as `C04ScanNum.fromStringCode_no_panic` had it).
  What this does NOT establish: anything about the real `bid128_from_string_clear_status` (≈ 430 untranslated lines) beyond its
  observed agreement with the model (`corr scanner-model`, exact bits and flags on every observed text).  Also: `csModel` below reads
  the text as `s.toList`; the executable judge (`DecModel/HkJudge.lean`) reads the observed UTF-8 bytes through `utf8Decode?` — the
  two are not related by a lemma (it would be the UTF-8 round trip of `String`); for the judge's route the corresponding fact is
  `C04ScanTotal.fromStringCodeBits_total` (for every byte string the model never predicts a panic; bytes that are not UTF-8 are
  not a `&str` and give no prediction).
  Axioms: `propext`, `Classical.choice`, `Quot.sound`.
-/
import DecProofs.Properties.C14GenTextGlue
import DecProofs.Properties.C04ScanTotal

set_option linter.unusedVariables false

namespace Dec.C15GenTextTotal
open Dec Dec.Rs Dec.Gen.Code Dec.Gen.Code3 Dec.C14GenTextGlue

def modeOfR : RoundingMode → Mode
  | .NearestEven => .rne | .Downward => .rdn | .Upward => .rup | .TowardZero => .rtz | .NearestAway => .rna

/-- the string routine as the code-shaped models predict it, on the characters of the text -/
def csModel (s : String) (m : RoundingMode) (f : UInt32) : Except String (U128 × UInt32) :=
  match fromStringCode (modeOfR m) s.toList with
  | some (bits, fl) => .ok (⟨UInt64.ofNat (bits % 2 ^ 64), UInt64.ofNat (bits / 2 ^ 64)⟩, f ||| UInt32.ofNat fl)
  | none => .error "the scanner / numeric-phase model reaches a panic site"

theorem csModel_total (s : String) (m : RoundingMode) : ∃ r, csModel s m 0 = .ok r := by
  unfold csModel
  cases h : fromStringCode (modeOfR m) s.toList with
  | none => exact absurd h (Dec.C04ScanTotal.fromStringCode_total _ _)
  | some p => exact ⟨_, rfl⟩

/-- **no text entry point panics, for any text** (wrappers: about the translated source; string routine: about its model) -/
theorem text_entry_points_total (s : String) (om : Option RoundingMode) (m : RoundingMode) (f : UInt32) :
    (∃ r, bid128_from_string csModel s m f = .ok r) ∧ (∃ r, d128_convert_from_decimal_character csModel s om f = .ok r) ∧
    (∃ r, d128_FromStr_from_str csModel s = .ok r) ∧ (∃ r, d128_From_str_from csModel s = .ok r) ∧
    (∃ r, d128_nan csModel s f = .ok r) :=
  text_total csModel csModel_total s om m f

end Dec.C15GenTextTotal
