/-
  C01 — add, sub, mul, div, sqrt are correctly rounded (integer-level facts about the rounding step
  and the special-value table; the ℚ-level statement of `finish` is in `DecProofs.Core.Finish`).
-/
import DecModel.Ops

namespace Dec.C01

/-- the rounded integer is `q` or `q + 1` -/
theorem roundInt_cases (mode : Mode) (neg : Bool) (q r D : Nat) :
    roundInt mode neg q r D = q ∨ roundInt mode neg q r D = q + 1 := by
  unfold roundInt; split <;> simp

/-- nothing is discarded ⇒ nothing changes -/
theorem roundInt_exact (mode : Mode) (neg : Bool) (q D : Nat) : roundInt mode neg q 0 D = q := by
  simp [roundInt, roundUp]

/-- directed modes: toward zero never goes up; Downward goes up in magnitude exactly for negative
inexact values, Upward exactly for positive ones -/
theorem roundInt_directed (neg : Bool) (q r D : Nat) (hr : r ≠ 0) :
    roundInt .rtz neg q r D = q ∧
    roundInt .rdn neg q r D = (if neg then q + 1 else q) ∧
    roundInt .rup neg q r D = (if neg then q else q + 1) := by
  cases neg <;> simp [roundInt, roundUp, hr]

/-- nearest modes: up iff the discarded part exceeds half, ties to even / away -/
theorem roundInt_nearest (neg : Bool) (q r D : Nat) (hr : r ≠ 0) :
    (roundInt .rne neg q r D = q + 1 ↔ (2 * r > D ∨ (2 * r = D ∧ q % 2 = 1))) ∧
    (roundInt .rna neg q r D = q + 1 ↔ 2 * r ≥ D) := by
  constructor
  · simp only [roundInt, roundUp, hr, if_false]
    by_cases h1 : 2 * r > D <;> by_cases h2 : 2 * r = D <;> by_cases h3 : q % 2 = 1 <;> simp [h1, h2, h3] <;> omega
  · simp only [roundInt, roundUp, hr, if_false]
    by_cases h1 : 2 * r ≥ D <;> simp [h1]

/-- sign of an exact zero sum: like signs keep the sign, unlike signs give +0 except under Downward -/
theorem zero_sum_sign (mode : Mode) (s : Bool) :
    zeroSumSign mode s s = s ∧ zeroSumSign mode s (!s) = decide (mode = .rdn) := by
  cases s <;> cases mode <;> decide

/-- the special-value table of addition -/
theorem add_specials (mode : Mode) (s1 s2 : Bool) (c : Nat) (e : Int) :
    addD mode (.inf s1) (.inf s1) = (.inf s1, 0) ∧
    addD mode (.inf s1) (.inf (!s1)) = invalidResult ∧
    addD mode (.inf s1) (.fin s2 c e) = (.inf s1, 0) ∧
    addD mode (.fin s2 c e) (.inf s1) = (.inf s1, 0) := by
  cases s1 <;> simp [addD]

/-- division: x/0 is a correctly signed infinity with division-by-zero; 0/0 and ∞/∞ invalid -/
theorem div_specials (mode : Mode) (s1 s2 : Bool) (c : Nat) (e e2 : Int) (hc : c ≠ 0) :
    divD mode (.fin s1 c e) (.fin s2 0 e2) = (.inf (s1 != s2), fDivZero) ∧
    divD mode (.fin s1 0 e) (.fin s2 0 e2) = invalidResult ∧
    divD mode (.inf s1) (.inf s2) = invalidResult ∧
    divD mode (.inf s1) (.fin s2 c e) = (.inf (s1 != s2), 0) ∧
    divD mode (.fin s1 0 e) (.fin s2 c e2) = (zeroAt (s1 != s2) (e - e2), 0) := by
  simp [divD, hc]

/-- square root of a zero keeps the sign and halves the exponent (floor) -/
theorem sqrt_zero (mode : Mode) (s : Bool) (e : Int) : sqrtD mode (.fin s 0 e) = (zeroAt s (e.fdiv 2), 0) := by
  simp [sqrtD, halfFloor]

/-- subtraction is addition of the negation -/
theorem sub_is_add_neg (mode : Mode) (x y : Datum) : subD mode x y = addD mode x y.negate := rfl

/-- the operator forms (by value, by reference, compound assignment) denote the method form at
round-half-even: the judge maps all of them to one expectation -/
theorem op_forms :
    normOp "op_add_ref" = "op_add" ∧ normOp "op_add_assign" = "op_add" ∧ normOp "op_add_assign_ref" = "op_add" ∧
    normOp "op_sub_ref" = "op_sub" ∧ normOp "op_sub_assign" = "op_sub" ∧ normOp "op_sub_assign_ref" = "op_sub" ∧
    normOp "op_mul_ref" = "op_mul" ∧ normOp "op_mul_assign" = "op_mul" ∧ normOp "op_mul_assign_ref" = "op_mul" ∧
    normOp "op_div_ref" = "op_div" ∧ normOp "op_div_assign" = "op_div" ∧ normOp "op_div_assign_ref" = "op_div" := by
  decide

example : roundInt .rne false 12 5 10 = 12 ∧ roundInt .rne false 13 5 10 = 14 ∧ roundInt .rna true 12 5 10 = 13 := by decide

end Dec.C01
