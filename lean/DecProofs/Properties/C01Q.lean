/-
  C01Q — add, sub, mul, div (and sqrt) are correctly rounded: the ℚ-level statements, as corollaries of
  the specification of `finish` (`DecProofs.Core.Finish`).

  `FinishSpec mode neg v pref out` reads: `out` is the correct delivery of the exact value of sign `neg`
  and magnitude `v > 0` — the exact value with the cohort exponent closest to `pref` and no flag if `v`
  is a member of the format; otherwise the value correctly rounded in `mode` at the least possible
  exponent with inexact (and underflow iff `v < 10^-6143`); or the mode's overflow result with overflow
  and inexact.
-/
import DecProofs.Core.Finish

namespace Dec.C01Q

/-! ### helpers: the signed-integer encoding used by `addFin` -/

theorem sInt_cast (s : Bool) (c : Nat) : ((sInt s c : Int) : ℚ) = (if s then -1 else 1) * (c : ℚ) := by
  cases s <;> simp [sInt]

/-- a finite value written over a smaller exponent -/
theorem fval_rescale (s : Bool) (c : Nat) {k m : Int} (h : m ≤ k) :
    fval s c k = ((sInt s (c * 10 ^ (k - m).toNat) : Int) : ℚ) * (10 : ℚ) ^ m := by
  have e : (10 : ℚ) ^ k = (10 : ℚ) ^ (k - m) * (10 : ℚ) ^ m := by
    rw [← zpow_add₀ ten_ne]; congr 1; ring
  rw [sInt_cast, fval, e, zpow_toNat (by omega)]
  push_cast; ring

theorem fval_not (s : Bool) (c : Nat) (e : Int) : fval (!s) c e = - fval s c e := by
  cases s <;> simp [fval]

/-- magnitude of a finite value -/
theorem abs_fval (s : Bool) (c : Nat) (e : Int) : |fval s c e| = (c : ℚ) * (10 : ℚ) ^ e := by
  have hp : (0 : ℚ) < (10 : ℚ) ^ e := zpow_pos ten_pos _
  have h0 : (0 : ℚ) ≤ (c : ℚ) * (10 : ℚ) ^ e := by positivity
  cases s
  · rw [fval_false, abs_of_nonneg h0]
  · rw [fval_true, abs_neg, abs_of_nonneg h0]

theorem fval_eq_zero_iff (s : Bool) (c : Nat) (e : Int) : fval s c e = 0 ↔ c = 0 := by
  have hp : (10 : ℚ) ^ e ≠ 0 := (zpow_pos ten_pos _).ne'
  cases s <;> simp [fval, hp]

/-- sign of a non-zero finite value -/
theorem fval_neg_iff (s : Bool) (c : Nat) (e : Int) (hc : c ≠ 0) : fval s c e < 0 ↔ s = true := by
  have hp : (0 : ℚ) < (10 : ℚ) ^ e := zpow_pos ten_pos _
  have hcq : (0 : ℚ) < c := by exact_mod_cast Nat.pos_of_ne_zero hc
  have h0 : (0 : ℚ) < (c : ℚ) * (10 : ℚ) ^ e := by positivity
  cases s
  · rw [fval_false]; simp only [Bool.false_eq_true, iff_false, not_lt]; exact h0.le
  · rw [fval_true]; simp only [iff_true]; linarith

/-! ### addition / subtraction -/

/-- The core of addition and subtraction: `addFin` with preferred exponent `pref` delivers the exact sum
`V` of the two finite operands correctly: a zero sum is an exact zero with the IEEE sign and exponent
`pref` (clamped into range); a non-zero sum goes through `finish`. -/
theorem addFin_correct (mode : Mode) (s1 : Bool) (c1 : Nat) (e1 : Int) (s2 : Bool) (c2 : Nat) (e2 : Int)
    (pref : Int) :
    let V : ℚ := fval s1 c1 e1 + fval s2 c2 e2
    (V = 0 → addFin mode s1 c1 e1 s2 c2 e2 pref = (zeroAt (zeroSumSign mode s1 s2) pref, 0)) ∧
    (V ≠ 0 → FinishSpec mode (decide (V < 0)) |V| pref (addFin mode s1 c1 e1 s2 c2 e2 pref)) := by
  intro V
  obtain ⟨m, hm⟩ : ∃ m : Int, m = if e1 ≤ e2 then e1 else e2 := ⟨_, rfl⟩
  have hm1 : m ≤ e1 := by rw [hm]; split <;> omega
  have hm2 : m ≤ e2 := by rw [hm]; split <;> omega
  obtain ⟨S, hS⟩ : ∃ S : Int, S = sInt s1 (c1 * 10 ^ (e1 - m).toNat) + sInt s2 (c2 * 10 ^ (e2 - m).toNat) :=
    ⟨_, rfl⟩
  have hp : (0 : ℚ) < (10 : ℚ) ^ m := zpow_pos ten_pos _
  have hV : V = (S : ℚ) * (10 : ℚ) ^ m := by
    show fval s1 c1 e1 + fval s2 c2 e2 = _
    rw [fval_rescale s1 c1 hm1, fval_rescale s2 c2 hm2, hS]; push_cast; ring
  have hfin : addFin mode s1 c1 e1 s2 c2 e2 pref =
      if S = 0 then (zeroAt (zeroSumSign mode s1 s2) pref, 0)
      else finish mode (decide (S < 0)) S.natAbs 1 m pref := by
    rw [hS, hm]; rfl
  have hz : V = 0 ↔ S = 0 := by
    rw [hV]; constructor
    · intro h
      rcases mul_eq_zero.mp h with h | h
      · exact_mod_cast h
      · exact absurd h hp.ne'
    · intro h; rw [h]; simp
  constructor
  · intro h0; rw [hfin, if_pos (hz.mp h0)]
  · intro h0
    have hS0 : S ≠ 0 := fun h => h0 (hz.mpr h)
    rw [hfin, if_neg hS0]
    have hsign : decide (V < 0) = decide (S < 0) := by
      apply decide_eq_decide.mpr
      rw [hV]
      constructor
      · intro h
        have : (S : ℚ) < 0 := by
          by_contra hc
          have : 0 ≤ (S : ℚ) * (10 : ℚ) ^ m := mul_nonneg (not_lt.mp hc) hp.le
          linarith
        exact_mod_cast this
      · intro h
        have : (S : ℚ) < 0 := by exact_mod_cast h
        exact mul_neg_of_neg_of_pos this hp
    have habs : |V| = ((S.natAbs : Nat) : ℚ) / ((1 : Nat) : ℚ) * (10 : ℚ) ^ m := by
      rw [hV, abs_mul, abs_of_pos hp, Nat.cast_natAbs, Int.cast_abs]; simp
    rw [hsign, habs]
    exact finish_spec mode _ _ 1 m pref (by omega) (by omega)

/-- **Addition is correctly rounded.**  For finite operands with exact sum `V`: if `V = 0` the result is
an exact zero (no flag) whose sign follows the IEEE rule (`zeroSumSign`) and whose exponent is
`min e1 e2` (clamped into the format's range — a no-op for in-range operands); otherwise the result is
`V` itself with the member of its cohort whose exponent is closest to `min e1 e2` and no flag, or `V`
correctly rounded in `mode` with inexact (and underflow / overflow as described by `FinishSpec`). -/
theorem add_correct (mode : Mode) (s1 : Bool) (c1 : Nat) (e1 : Int) (s2 : Bool) (c2 : Nat) (e2 : Int) :
    let V : ℚ := fval s1 c1 e1 + fval s2 c2 e2
    (V = 0 → addD mode (.fin s1 c1 e1) (.fin s2 c2 e2) = (zeroAt (zeroSumSign mode s1 s2) (min e1 e2), 0)) ∧
    (V ≠ 0 → FinishSpec mode (decide (V < 0)) |V| (min e1 e2) (addD mode (.fin s1 c1 e1) (.fin s2 c2 e2))) := by
  have h : addD mode (.fin s1 c1 e1) (.fin s2 c2 e2) = addFin mode s1 c1 e1 s2 c2 e2 (min e1 e2) := by
    rw [Int.min_def]; rfl
  rw [h]
  exact addFin_correct mode s1 c1 e1 s2 c2 e2 (min e1 e2)

example : addD .rne (.fin false 1 0) (.fin false 25 (-1)) = (.fin false 35 (-1), 0) := by decide +kernel
example : addD .rdn (.fin false 1 0) (.fin true 10 (-1)) = (.fin true 0 (-1), 0) := by decide +kernel
example : addD .rne (.fin false (P34 - 1) 0) (.fin false 6 (-1)) = (.fin false P33 1, fInexact) := by
  decide +kernel

/-- **Subtraction is correctly rounded**: as `add_correct`, for the exact difference; an exact zero
difference has the sign of `x + (-y)` by the IEEE rule. -/
theorem sub_correct (mode : Mode) (s1 : Bool) (c1 : Nat) (e1 : Int) (s2 : Bool) (c2 : Nat) (e2 : Int) :
    let V : ℚ := fval s1 c1 e1 - fval s2 c2 e2
    (V = 0 → subD mode (.fin s1 c1 e1) (.fin s2 c2 e2) = (zeroAt (zeroSumSign mode s1 (!s2)) (min e1 e2), 0)) ∧
    (V ≠ 0 → FinishSpec mode (decide (V < 0)) |V| (min e1 e2) (subD mode (.fin s1 c1 e1) (.fin s2 c2 e2))) := by
  have h : subD mode (.fin s1 c1 e1) (.fin s2 c2 e2) = addD mode (.fin s1 c1 e1) (.fin (!s2) c2 e2) := rfl
  have hv : fval s1 c1 e1 - fval s2 c2 e2 = fval s1 c1 e1 + fval (!s2) c2 e2 := by
    rw [fval_not]; ring
  rw [h, hv]
  exact add_correct mode s1 c1 e1 (!s2) c2 e2

example : subD .rne (.fin false 1 0) (.fin false 25 (-1)) = (.fin true 15 (-1), 0) := by decide +kernel

/-- the clamp on the exponent of an exact zero is the identity for in-range operands -/
theorem zeroAt_min (s : Bool) {e1 e2 : Int} (h1 : eMin ≤ e1) (h1' : e1 ≤ eMax) (h2 : eMin ≤ e2) (h2' : e2 ≤ eMax) :
    zeroAt s (min e1 e2) = .fin s 0 (min e1 e2) := by
  unfold zeroAt clampInt
  have : eMin ≤ min e1 e2 ∧ min e1 e2 ≤ eMax := by omega
  rw [if_neg (by omega), if_neg (by omega)]

/-! ### multiplication -/

/-- **Multiplication is correctly rounded.**  For finite operands with exact product `V`: a zero product
is an exact zero with sign `s1 xor s2` and exponent `e1 + e2` (clamped into range); a non-zero product
has sign `s1 xor s2` and is delivered exactly with the cohort exponent closest to `e1 + e2`, or correctly
rounded with inexact (underflow / overflow as in `FinishSpec`). -/
theorem mul_correct (mode : Mode) (s1 : Bool) (c1 : Nat) (e1 : Int) (s2 : Bool) (c2 : Nat) (e2 : Int) :
    let V : ℚ := fval s1 c1 e1 * fval s2 c2 e2
    (V = 0 → mulD mode (.fin s1 c1 e1) (.fin s2 c2 e2) = (zeroAt (s1 != s2) (e1 + e2), 0)) ∧
    (V ≠ 0 → decide (V < 0) = (s1 != s2) ∧
      FinishSpec mode (decide (V < 0)) |V| (e1 + e2) (mulD mode (.fin s1 c1 e1) (.fin s2 c2 e2))) := by
  intro V
  have hz : V = 0 ↔ c1 * c2 = 0 := by
    show fval s1 c1 e1 * fval s2 c2 e2 = 0 ↔ _
    rw [mul_eq_zero, fval_eq_zero_iff, fval_eq_zero_iff, Nat.mul_eq_zero]
  have hfin : mulD mode (.fin s1 c1 e1) (.fin s2 c2 e2) =
      if c1 * c2 = 0 then (zeroAt (s1 != s2) (e1 + e2), 0)
      else finish mode (s1 != s2) (c1 * c2) 1 (e1 + e2) (e1 + e2) := rfl
  constructor
  · intro h0; rw [hfin, if_pos (hz.mp h0)]
  · intro h0
    have hc : c1 * c2 ≠ 0 := fun h => h0 (hz.mpr h)
    have hc1 : c1 ≠ 0 := fun h => hc (by rw [h, Nat.zero_mul])
    have hc2 : c2 ≠ 0 := fun h => hc (by rw [h, Nat.mul_zero])
    have hsign : decide (V < 0) = (s1 != s2) := by
      have hV : V = fval (s1 != s2) (c1 * c2) (e1 + e2) := by
        show fval s1 c1 e1 * fval s2 c2 e2 = _
        unfold fval; rw [zpow_add₀ ten_ne]; push_cast
        cases s1 <;> cases s2 <;> simp <;> ring
      rw [hV]
      have := fval_neg_iff (s1 != s2) (c1 * c2) (e1 + e2) hc
      cases h : (s1 != s2) <;> simp [h] at this ⊢ <;> exact this
    refine ⟨hsign, ?_⟩
    have habs : |V| = ((c1 * c2 : Nat) : ℚ) / ((1 : Nat) : ℚ) * (10 : ℚ) ^ (e1 + e2) := by
      show |fval s1 c1 e1 * fval s2 c2 e2| = _
      rw [abs_mul, abs_fval, abs_fval, zpow_add₀ ten_ne]; push_cast; ring
    rw [hfin, if_neg hc, hsign, habs]
    exact finish_spec mode _ _ 1 _ _ (Nat.pos_of_ne_zero hc) (by omega)

example : mulD .rne (.fin false 12 (-1)) (.fin true 5 (-1)) = (.fin true 60 (-2), 0) := by decide +kernel
example : mulD .rup (.fin false (P34 - 1) 6111) (.fin false 2 0) = (.inf false, fOverflow ||| fInexact) := by
  decide +kernel
example : mulD .rne (.fin false 1 (-6176)) (.fin false 1 (-1)) = (.fin false 0 (-6176), fUnderflow ||| fInexact) := by
  decide +kernel

/-! ### division -/

/-- **Division is correctly rounded.**  For finite operands with a non-zero divisor and exact quotient
`V`: a zero quotient is an exact zero with sign `s1 xor s2` and exponent `e1 - e2` (clamped into range);
a non-zero quotient has sign `s1 xor s2` and is delivered exactly with the cohort exponent closest to
`e1 - e2`, or correctly rounded with inexact (underflow / overflow as in `FinishSpec`). -/
theorem div_correct (mode : Mode) (s1 : Bool) (c1 : Nat) (e1 : Int) (s2 : Bool) (c2 : Nat) (e2 : Int)
    (hc2 : c2 ≠ 0) :
    let V : ℚ := fval s1 c1 e1 / fval s2 c2 e2
    (V = 0 → divD mode (.fin s1 c1 e1) (.fin s2 c2 e2) = (zeroAt (s1 != s2) (e1 - e2), 0)) ∧
    (V ≠ 0 → decide (V < 0) = (s1 != s2) ∧
      FinishSpec mode (decide (V < 0)) |V| (e1 - e2) (divD mode (.fin s1 c1 e1) (.fin s2 c2 e2))) := by
  intro V
  have h2 : fval s2 c2 e2 ≠ 0 := fun h => hc2 ((fval_eq_zero_iff _ _ _).mp h)
  have hz : V = 0 ↔ c1 = 0 := by
    show fval s1 c1 e1 / fval s2 c2 e2 = 0 ↔ _
    rw [div_eq_zero_iff, fval_eq_zero_iff]
    constructor
    · rintro (h | h)
      · exact h
      · exact absurd h h2
    · intro h; left; exact h
  have hfin : divD mode (.fin s1 c1 e1) (.fin s2 c2 e2) =
      if c1 = 0 then (zeroAt (s1 != s2) (e1 - e2), 0)
      else finish mode (s1 != s2) c1 c2 (e1 - e2) (e1 - e2) := by
    simp only [divD, hc2, if_false]
  constructor
  · intro h0; rw [hfin, if_pos (hz.mp h0)]
  · intro h0
    have hc1 : c1 ≠ 0 := fun h => h0 (hz.mpr h)
    have hc2q : (c2 : ℚ) ≠ 0 := by exact_mod_cast hc2
    have hp2 : (10 : ℚ) ^ e2 ≠ 0 := (zpow_pos ten_pos _).ne'
    have habs : |V| = ((c1 : Nat) : ℚ) / ((c2 : Nat) : ℚ) * (10 : ℚ) ^ (e1 - e2) := by
      show |fval s1 c1 e1 / fval s2 c2 e2| = _
      rw [abs_div, abs_fval, abs_fval, zpow_sub₀ ten_ne]; field_simp
    have hsign : decide (V < 0) = (s1 != s2) := by
      have hpos : 0 < |V| := abs_pos.mpr h0
      have hV : V = (if (s1 != s2) then -1 else 1) * |V| := by
        rw [habs]
        show fval s1 c1 e1 / fval s2 c2 e2 = _
        unfold fval; rw [zpow_sub₀ ten_ne]
        cases s1 <;> cases s2 <;> simp <;> field_simp
      cases h : (s1 != s2)
      · rw [h] at hV; simp only [Bool.false_eq_true, if_false, one_mul] at hV
        simp only [decide_eq_false_iff_not, not_lt]; rw [hV]; exact hpos.le
      · rw [h] at hV; simp only [if_true] at hV
        simp only [decide_eq_true_eq]; rw [hV]; linarith
    refine ⟨hsign, ?_⟩
    rw [hfin, if_neg hc1, hsign, habs]
    exact finish_spec mode _ _ _ _ _ (Nat.pos_of_ne_zero hc1) (Nat.pos_of_ne_zero hc2)

example : divD .rne (.fin false 1 0) (.fin true 3 0) =
    (.fin true 3333333333333333333333333333333333 (-34), fInexact) := by decide +kernel
example : divD .rne (.fin false 10 0) (.fin false 4 0) = (.fin false 25 (-1), 0) := by decide +kernel

/-! ### square root -/

theorem two_halfFloor {e : Int} (h : e % 2 = 0) : 2 * halfFloor e = e := by
  unfold halfFloor
  rw [Int.fdiv_eq_ediv_of_nonneg _ (by omega)]
  omega

/-- scaled: all the points strictly between `r·10^E` and `(r+1)·10^E` are on the same side of every
rounding boundary at any exponent above `E` -/
theorem sameSide_scaled (r : Nat) {E x : Int} (hx : E + 1 ≤ x) {t t' : ℚ} (ht0 : 0 < t) (ht1 : t < 1)
    (ht0' : 0 < t') (ht1' : t' < 1) :
    SameSide (((r : ℚ) + t) * (10 : ℚ) ^ E / (10 : ℚ) ^ x) (((r : ℚ) + t') * (10 : ℚ) ^ E / (10 : ℚ) ^ x) := by
  have hpE : (10 : ℚ) ^ E ≠ 0 := (zpow_pos ten_pos _).ne'
  have e1 : (10 : ℚ) ^ x = (10 : ℚ) ^ E * (2 * ((5 * 10 ^ (x - E - 1).toNat : Nat) : ℚ)) := by
    have : x = E + ((x - E - 1) + 1) := by ring
    rw [this, zpow_add₀ ten_ne, zpow_add₀ ten_ne, zpow_toNat (by omega : 0 ≤ x - E - 1)]
    have : E + (x - E - 1 + 1) - E - 1 = x - E - 1 := by ring
    rw [this]; push_cast; ring
  have e2 : ∀ s : ℚ, ((r : ℚ) + s) * (10 : ℚ) ^ E / (10 : ℚ) ^ x =
      ((r : ℚ) + s) / (2 * ((5 * 10 ^ (x - E - 1).toNat : Nat) : ℚ)) := by
    intro s; rw [e1]; field_simp
  rw [e2, e2]
  exact sameSide_between r _ (Nat.mul_pos (by omega) (Nat.pow_pos (by omega))) ht0 ht1 ht0' ht1'


/-- unfolding of `sqrtD` on a positive finite operand -/
theorem sqrtD_pos (mode : Mode) (c : Nat) (e : Int) (hc : c ≠ 0) :
    ∃ (N r : Nat) (E : Int), r = isqrt N ∧ 10 ^ 74 ≤ N ∧ fval false c e = (N : ℚ) * (10 : ℚ) ^ (2 * E) ∧
      sqrtD mode (.fin false c e) =
        if r * r = N then finish mode false r 1 E (halfFloor e) else finish mode false (4 * r + 1) 4 E (halfFloor e) := by
  obtain ⟨c', hc'⟩ : ∃ c', c' = if (e % 2 != 0) = true then c * 10 else c := ⟨_, rfl⟩
  obtain ⟨e', he'⟩ : ∃ e' : Int, e' = if (e % 2 != 0) = true then e - 1 else e := ⟨_, rfl⟩
  refine ⟨c' * 10 ^ (2 * 37), isqrt (c' * 10 ^ (2 * 37)), halfFloor e' - (37 : Nat), rfl, ?_, ?_, ?_⟩
  · have : 1 ≤ c' := by rw [hc']; split <;> omega
    calc 10 ^ 74 = 1 * 10 ^ (2 * 37) := by norm_num
      _ ≤ c' * 10 ^ (2 * 37) := Nat.mul_le_mul_right _ this
  · have hev : e' % 2 = 0 := by
      rw [he']; split
      · rename_i h; simp only [bne_iff_ne, ne_eq] at h; omega
      · rename_i h; simp only [bne_iff_ne, ne_eq, not_not] at h; exact h
    have h2 := two_halfFloor hev
    have hE : 2 * (halfFloor e' - ((37 : Nat) : Int)) = e' - 74 := by push_cast; omega
    rw [hE, fval_false]
    have hval : (c : ℚ) * (10 : ℚ) ^ e = (c' : ℚ) * (10 : ℚ) ^ e' := by
      rw [hc', he']
      split
      · have : e = (e - 1) + 1 := by ring
        rw [this, zpow_add₀ ten_ne]; push_cast
        have : e - 1 + 1 - 1 = e - 1 := by ring
        rw [this]; ring
      · rfl
    rw [hval]
    have : e' = 74 + (e' - 74) := by ring
    rw [this, zpow_add₀ ten_ne]
    have : 74 + (e' - 74) - 74 = e' - 74 := by ring
    rw [this]; push_cast; ring
  · rw [hc', he']
    simp only [sqrtD, hc, if_false, Bool.false_eq_true]

/-- **Square root is correctly rounded.**  For a positive finite operand of value `V`: either `V` has a
rational square root `v`, and the result is `v` delivered exactly with the cohort exponent closest to
`⌊e/2⌋` or correctly rounded (`FinishSpec`); or `√V` lies strictly inside an interval `(a, b)`
(`a² < V < b²`) so narrow that every number in it has one and the same correct delivery, and the result is
that delivery: it is what `FinishSpec` demands for *every* rational `ρ` in `(a, b)`, hence for `√V`. -/
theorem sqrt_correct (mode : Mode) (c : Nat) (e : Int) (hc : c ≠ 0) :
    let V : ℚ := fval false c e
    let out := sqrtD mode (.fin false c e)
    (∃ v : ℚ, 0 < v ∧ v * v = V ∧ FinishSpec mode false v (halfFloor e) out) ∨
    (∃ a b : ℚ, 0 < a ∧ a < b ∧ a * a < V ∧ V < b * b ∧
        ∀ ρ : ℚ, a < ρ → ρ < b → FinishSpec mode false ρ (halfFloor e) out) := by
  intro V out
  obtain ⟨N, r, E, hr, hN, hV, hout⟩ := sqrtD_pos mode c e hc
  obtain ⟨s1, s2⟩ := isqrt_spec N
  rw [← hr] at s1 s2
  have hpE : (0 : ℚ) < (10 : ℚ) ^ E := zpow_pos ten_pos _
  have h2E : (10 : ℚ) ^ (2 * E) = (10 : ℚ) ^ E * (10 : ℚ) ^ E := by
    rw [← zpow_add₀ ten_ne]; congr 1; ring
  have hV' : V = (N : ℚ) * ((10 : ℚ) ^ E * (10 : ℚ) ^ E) := by rw [← h2E]; exact hV
  by_cases hsq : r * r = N
  · left
    have hr0 : 0 < r := by
      rcases Nat.eq_zero_or_pos r with h | h
      · rw [h] at hsq; omega
      · exact h
    have hrq : (0 : ℚ) < r := by exact_mod_cast hr0
    refine ⟨(r : ℚ) / ((1 : Nat) : ℚ) * (10 : ℚ) ^ E, by positivity, ?_, ?_⟩
    · rw [hV', ← hsq]; push_cast; ring
    · show FinishSpec _ _ _ _ (sqrtD mode (.fin false c e))
      rw [hout, if_pos hsq]
      exact finish_spec mode false r 1 E _ hr0 (by omega)
  · right
    have s1' : r * r < N := by omega
    have hr37 : 10 ^ 37 ≤ r := by
      by_contra hlt
      have : (r + 1) * (r + 1) ≤ 10 ^ 37 * 10 ^ 37 := Nat.mul_self_le_mul_self (by omega)
      have e74 : (10 : Nat) ^ 37 * 10 ^ 37 = 10 ^ 74 := by norm_num
      omega
    have hr37q : (10 : ℚ) ^ (37 : ℤ) ≤ (r : ℚ) := by
      have : ((10 ^ 37 : Nat) : ℚ) ≤ (r : ℚ) := by exact_mod_cast hr37
      rw [zpow_toNat (by norm_num)]; exact this
    have hrq : (0 : ℚ) < r := lt_of_lt_of_le (zpow_pos ten_pos _) hr37q
    have big : ∀ t : ℚ, 0 < t → (10 : ℚ) ^ (37 + E) ≤ ((r : ℚ) + t) * (10 : ℚ) ^ E := by
      intro t ht
      rw [zpow_add₀ ten_ne]
      exact mul_le_mul_of_nonneg_right (by linarith) hpE.le
    -- the model's representative of the interval: r + 1/4
    have hspec := finish_spec mode false (4 * r + 1) 4 E (halfFloor e) (by omega) (by omega)
    have hρ0 : ((4 * r + 1 : Nat) : ℚ) / ((4 : Nat) : ℚ) * (10 : ℚ) ^ E = ((r : ℚ) + 1 / 4) * (10 : ℚ) ^ E := by
      push_cast; ring
    rw [hρ0] at hspec
    refine ⟨(r : ℚ) * (10 : ℚ) ^ E, ((r : ℚ) + 1) * (10 : ℚ) ^ E, by positivity, ?_, ?_, ?_, ?_⟩
    · exact mul_lt_mul_of_pos_right (by linarith) hpE
    · have : ((r * r : Nat) : ℚ) < (N : ℚ) := by exact_mod_cast s1'
      push_cast at this
      rw [hV']
      have hpp : (0 : ℚ) < (10 : ℚ) ^ E * (10 : ℚ) ^ E := by positivity
      calc (r : ℚ) * (10 : ℚ) ^ E * ((r : ℚ) * (10 : ℚ) ^ E) = (r : ℚ) * r * ((10 : ℚ) ^ E * (10 : ℚ) ^ E) := by ring
        _ < (N : ℚ) * ((10 : ℚ) ^ E * (10 : ℚ) ^ E) := mul_lt_mul_of_pos_right this hpp
    · have : (N : ℚ) < (((r + 1) * (r + 1) : Nat) : ℚ) := by exact_mod_cast s2
      push_cast at this
      rw [hV']
      have hpp : (0 : ℚ) < (10 : ℚ) ^ E * (10 : ℚ) ^ E := by positivity
      calc (N : ℚ) * ((10 : ℚ) ^ E * (10 : ℚ) ^ E) < ((r : ℚ) + 1) * ((r : ℚ) + 1) * ((10 : ℚ) ^ E * (10 : ℚ) ^ E) :=
            mul_lt_mul_of_pos_right this hpp
        _ = ((r : ℚ) + 1) * (10 : ℚ) ^ E * (((r : ℚ) + 1) * (10 : ℚ) ^ E) := by ring
    · intro ρ h1 h2
      obtain ⟨t, ht⟩ : ∃ t : ℚ, t = ρ / (10 : ℚ) ^ E - r := ⟨_, rfl⟩
      have hρ : ρ = ((r : ℚ) + t) * (10 : ℚ) ^ E := by rw [ht]; field_simp; ring
      have ht0 : 0 < t := by
        rw [ht, sub_pos, lt_div_iff₀ hpE]; exact h1
      have ht1 : t < 1 := by
        rw [ht, sub_lt_iff_lt_add, div_lt_iff₀ hpE]; linarith
      show FinishSpec _ _ _ _ (sqrtD mode (.fin false c e))
      rw [hout, if_neg hsq, hρ]
      refine FinishSpec_transfer (E := E) (big _ (by norm_num)) (big _ ht0) ?_ hspec
      intro x hx
      exact sameSide_scaled r hx (by norm_num) (by norm_num) ht0 ht1

example : sqrtD .rne (.fin false 2 0) = (.fin false 1414213562373095048801688724209698 (-33), fInexact) := by
  decide +kernel
example : sqrtD .rne (.fin false 4 0) = (.fin false 2 0, 0) := by decide +kernel


end Dec.C01Q
