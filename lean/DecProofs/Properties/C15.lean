/-
  C15 — no public operation panics.

  What a theorem can say here is about the model and the judge: the model is total (every definition
  in DecModel/* is a total Lean function — no `partial`, no `!`-indexing — so an expectation exists for
  every argument tuple), the judge never accepts a panic, and every public entry point scraped from
  the source on this run is driven (`DecProofs.Static.Inventory`).  Panic-freedom of the compiled Rust
  routines themselves is decided by the correspondence run under `catch_unwind` (see DESIGN §6, C15).
-/
import DecModel.Judge
import DecModel.EntryPoints

namespace Dec.C15

/-- whatever the expectation, an observation that panicked is rejected -/
theorem panic_never_accepted (e : Expect) (o : Obs) (h : o.out = none) :
    ∀ c, judgeWith e o ≠ .ok c := by
  intro c; unfold judgeWith; rw [h]; cases e <;> simp

/-- and it is rejected with the clause `panic` whenever the operation is known -/
theorem panic_is_violation (alts : List (List Val)) (raised : Flags) (o : Obs) (h : o.out = none) :
    judgeWith (.oneOf alts raised) o = .viol "panic" "the call panicked or did not return" := by
  unfold judgeWith; rw [h]

/-- every harness operation named in the entry-point table has an expectation other than `unknown`
for a well-typed argument tuple (spot instances across the families; the full inclusion
inventory ⊆ entryPoints is `Dec.Static.inventory_covered`) -/
example : (expect "addition" .rne [.d 0, .d 0] matches .oneOf _ _) := by rfl
example : (expect "convert_to_u64_exact_ties_to_away" .rne [.d 0] matches .oneOf _ _) := by rfl
example : (expect "compare_signaling_not_less" .rne [.d 0, .d 0] matches .oneOf _ _) := by rfl

end Dec.C15
