import DecProofs.Properties.C06GenToIntRN

/-!
# C06 (source level): the ten signed 64-bit conversions of `bid128_to_int64.rs`

About the machine translation in `DecGen/Code.lean`:
`bid128_to_int64_rnint`, `_xrnint`, `_rninta`, `_xrninta`, `_int`, `_xint`, `_floor`, `_xfloor`, `_ceil`, `_xceil`
(`U128` and the incoming status word in, `(Int64 × UInt32)` out).

Main results (`to_int64_*_spec`): for **every** 128-bit pattern `x` and every incoming status word `f`, the routine
returns `.ok` (never panics) and the pair is `specOut64 mode xf x f`, i.e. the integer and the flags of the specification
`toIntD mode xf (−2^63) (2^63 − 1) (−2^63) (decode (bitsOf x))` exactly as the judge uses it for `convert_to_i64_*`
(flags or-ed into `f`).  `specOut64_toInt` says that the `Int64` of `specOut64` has exactly the model's integer as value.

Method (that of the 32-bit family, `C06GenToInt.lean` / `C06GenToIntRN.lean`, whose blocks and lemmas are reused):
each routine is cut into blocks that are literally the text of the translation with the live variables as parameters
(`*_unfold`, all by `rfl`); each block has a specification; two skeleton theorems (`skelTFC64_spec`, `skelRN64_spec`) turn
the per-copy parameters (range constants checked `by decide`, the treatment of tiny operands and of the removed digits)
into the for-all statement.  New with respect to the 32-bit copies: the range test at nineteen integer digits against
128-bit constants (`rangeK64`, `thr_*64`, `rangeK64_sem`), truncating digit removal without adding a half
(`trunc_num`, `truncK_spec`, the inexactness test `ixK_spec`, the increment `incK_spec`), 64-bit results
(`resOf64_spec`, `posExpK64_ok`: two's-complement arithmetic is a ring homomorphism, so the magnitude `2^63` of
`i64::MIN` needs no special case).

No deviation from the specification was found in any of the ten copies.
-/

set_option linter.unusedSimpArgs false
set_option linter.unusedVariables false
set_option linter.unnecessarySeqFocus false

namespace Dec.C06GenToInt64
open Dec.Rs Dec.Gen.Code Dec.C06GenToInt
open Dec.C03GenCompare (ite_ok val192 val128 val128_lt sigW sigF zeroP nzFin negW expW expW_lt val256 val128_sigF mul_64x64_to_128_spec tbl64_ten int32_gt_lit)

/-! ### the blocks of the 64-bit copies that differ from the 32-bit ones (each is the text of the Rust routine) -/

/-- a copy's range-test constants at `q + exp = 19` (128-bit: `w1`, `w0`) and strictness, negative and positive side -/
structure RangeP64 where
  nW1 : UInt64
  nW0 : UInt64
  sN : Bool
  pW1 : UInt64
  pW0 : UInt64
  sP : Bool

/-- one side of the range test: `C1·10^(20−q)` (or `C1`) against `c` (or `c·10^(q−20)`) -/
def rangeSide {α : Type} (cW1 cW0 : UInt64) (strict : Bool) (C1_ : U128) (q : Int32) (inv k : Except String α) :
    Except String α := do
  let mut C1 : U128 := C1_
  let mut C : U128 := default
  C := { C with w1 := cW1 }
  C := { C with w0 := cW0 }
  if (decide (q ≤ (0x13 : Int32))) then
    C1 := (← mul_64x64_to_128MACH C1.w0 (← tbl64 Dec.Gen.BID_TEN2K64 (UInt64.ofInt (toI (((0x14 : Int32) - q))))))
  else
    if (q == (0x14 : Int32)) then
      pure ()
    else
      C := (← mul_128x64_to_128 (← tbl64 Dec.Gen.BID_TEN2K64 (UInt64.ofInt (toI ((q - (0x14 : Int32)))))) C)
  if cmp128 strict C1 C then inv else k

/-- range test: more than 19 integer digits → `inv`; exactly 19 → compare `10·|x|` with the copy's constant -/
def rangeK64 {α : Type} (P : RangeP64) (x_sign : UInt64) (C1 : U128) (q exp : Int32) (inv k : Except String α) :
    Except String α :=
  if decide (q + exp > (0x13 : Int32)) then inv
  else if (q + exp == (0x13 : Int32)) then
    if (x_sign != (0 : UInt64)) then rangeSide P.nW1 P.nW0 P.sN C1 q inv k
    else rangeSide P.pW1 P.pW0 P.sP C1 q inv k
  else k

def INV64 (f : UInt32) : Except String (Int64 × UInt32) :=
  .ok ((0x8000000000000000 : Int64), f ||| c_StatusFlags_BID_INVALID_EXCEPTION)
def fin64 (f : UInt32) (r : Int64) : Except String (Int64 × UInt32) := .ok (r, f)

/-- the signed result -/
def resOf64 (x_sign : UInt64) (w : UInt64) : Int64 :=
  (if (x_sign != (0 : UInt64)) then (-((Int64.ofInt (toI w)))) else (Int64.ofInt (toI w)))

/-- the result for a positive exponent, product formed on `i64` on both sides -/
def posExpK64 {α : Type} (x_sign : UInt64) (C1 : U128) (exp : Int32) (k : Int64 → Except String α) : Except String α := do
  let v ← (if (x_sign != (0 : UInt64)) then (do pure ((-((Int64.ofInt (toI C1.w0)))) * ((Int64.ofInt (toI (← tbl64 Dec.Gen.BID_TEN2K64 (UInt64.ofInt (toI exp)))))))) else (do pure (((Int64.ofInt (toI C1.w0))) * ((Int64.ofInt (toI (← tbl64 Dec.Gen.BID_TEN2K64 (UInt64.ofInt (toI exp)))))))))
  k v

/-- the product split without the fraction, the shift written as a statement (as `int` has it) -/
def splitCK2 {α : Type} (C1 : U128) (ind : Int32) (k : U128 → Except String α) : Except String α := do
  let mut Cstar : U128 := default
  let mut P256 : U256 := default
  let mut shift : Int32 := default
  P256 := (← mul_128x128_to_256 C1 (← tbl128 Dec.Gen.BID_TEN2MK128 (UInt64.ofInt (toI ((ind - (1 : Int32)))))))
  if (decide ((ind - (1 : Int32)) ≤ (0x15 : Int32))) then
    Cstar := { Cstar with w1 := P256.w3 }
    Cstar := { Cstar with w0 := P256.w2 }
  else
    Cstar := { Cstar with w1 := (0 : UInt64) }
    Cstar := { Cstar with w0 := P256.w3 }
  shift := (← tblI32 Dec.Gen.BID_SHIFTRIGHT128 (UInt64.ofInt (toI ((ind - (1 : Int32))))))
  if (decide ((ind - (1 : Int32)) ≤ (0x15 : Int32))) then
    Cstar := { Cstar with w0 := (((Cstar.w0 >>> (UInt64.ofInt (toI shift)))) ||| ((Cstar.w1 <<< (UInt64.ofInt (toI (((0x40 : Int32) - shift))))))) }
  else
    Cstar := { Cstar with w0 := (Cstar.w0 >>> (UInt64.ofInt (toI (shift - (0x40 : Int32))))) }
  k Cstar

/-- the skeleton of the truncating / floor / ceiling copies: what differs is the range constants `P`, the answer `small` for
operands below one, and the digit-removal stage `rem` -/
def skelTFC64 (P : RangeP64) (f : UInt32) (small : UInt64 → Except String (Int64 × UInt32))
    (rem : UInt64 → U128 → Int32 → Except String (Int64 × UInt32)) (x : U128) : Except String (Int64 × UInt32) :=
  frontK x (INV64 f) (.ok (0, f)) (fun x_sign C1 q exp =>
    rangeK64 P x_sign C1 q exp (INV64 f)
      (if decide (q + exp ≤ (0 : Int32)) then small x_sign
       else if decide (exp < (0 : Int32)) then rem x_sign C1 (-exp)
       else if (exp == (0 : Int32)) then fin64 f (resOf64 x_sign C1.w0)
       else posExpK64 x_sign C1 exp (fin64 f)))

/-- the inexactness test of the truncating copies: is the fraction above the truncated reciprocal (the discarded part is
non-zero)?  Three ways of reading the fraction words, by the position of the split -/
def ixK {α : Type} (fstar : U256) (ind : Int32) (k : Bool → Except String α) : Except String α := do
  if (decide ((ind - (1 : Int32)) ≤ (2 : Int32))) then
    k (← (if (decide (fstar.w1 > (← tbl128 Dec.Gen.BID_TEN2MK128TRUNC (UInt64.ofInt (toI ((ind - (1 : Int32)))))).w1)) then pure true else (do pure ((← (if (fstar.w1 == (← tbl128 Dec.Gen.BID_TEN2MK128TRUNC (UInt64.ofInt (toI ((ind - (1 : Int32)))))).w1) then (do pure (decide (fstar.w0 > (← tbl128 Dec.Gen.BID_TEN2MK128TRUNC (UInt64.ofInt (toI ((ind - (1 : Int32)))))).w0))) else pure false))))))
  else
    if (decide ((ind - (1 : Int32)) ≤ (0x15 : Int32))) then
      k (← (if (← (if (fstar.w2 != (0 : UInt64)) then pure true else (do pure (decide (fstar.w1 > (← tbl128 Dec.Gen.BID_TEN2MK128TRUNC (UInt64.ofInt (toI ((ind - (1 : Int32)))))).w1))))) then pure true else (do pure ((← (if (fstar.w1 == (← tbl128 Dec.Gen.BID_TEN2MK128TRUNC (UInt64.ofInt (toI ((ind - (1 : Int32)))))).w1) then (do pure (decide (fstar.w0 > (← tbl128 Dec.Gen.BID_TEN2MK128TRUNC (UInt64.ofInt (toI ((ind - (1 : Int32)))))).w0))) else pure false))))))
    else
      k (← (if (← (if ((fstar.w3 != (0 : UInt64)) || (fstar.w2 != (0 : UInt64))) then pure true else (do pure (decide (fstar.w1 > (← tbl128 Dec.Gen.BID_TEN2MK128TRUNC (UInt64.ofInt (toI ((ind - (1 : Int32)))))).w1))))) then pure true else (do pure ((← (if (fstar.w1 == (← tbl128 Dec.Gen.BID_TEN2MK128TRUNC (UInt64.ofInt (toI ((ind - (1 : Int32)))))).w1) then (do pure (decide (fstar.w0 > (← tbl128 Dec.Gen.BID_TEN2MK128TRUNC (UInt64.ofInt (toI ((ind - (1 : Int32)))))).w0))) else pure false))))))

/-- the quotient plus one (with the carry into the high word, which is never read afterwards) -/
def incK {α : Type} (Cs : U128) (k : U128 → Except String α) : Except String α := do
  let mut Cstar : U128 := Cs
  Cstar := { Cstar with w0 := (Cstar.w0 + 1) }
  if (Cstar.w0 == (0 : UInt64)) then
    Cstar := { Cstar with w1 := (Cstar.w1 + 1) }
  k Cstar

def IX (f : UInt32) : UInt32 := f ||| c_StatusFlags_BID_INEXACT_EXCEPTION

def P_int : RangeP64 := ⟨5, 0xa, false, 5, 0, false⟩
def P_floor : RangeP64 := ⟨5, 0, true, 5, 0, false⟩
def P_ceil : RangeP64 := ⟨5, 0xa, false, 4, 0xfffffffffffffff6, true⟩

set_option maxRecDepth 100000 in
set_option maxHeartbeats 1000000 in
theorem int_unfold (x : U128) (f : UInt32) :
    bid128_to_int64_int x f =
      skelTFC64 P_int f (fun _ => .ok (0, f))
        (fun xs C1 ind => splitCK2 C1 ind (fun Cs => fin64 f (resOf64 xs Cs.w0))) x := rfl

set_option maxRecDepth 100000 in
set_option maxHeartbeats 1000000 in
theorem xint_unfold (x : U128) (f : UInt32) :
    bid128_to_int64_xint x f =
      skelTFC64 P_int f (fun _ => .ok (0, IX f))
        (fun xs C1 ind => splitK C1 ind (fun Cs fs => ixK fs ind (fun b =>
          if b then fin64 (IX f) (resOf64 xs Cs.w0) else fin64 f (resOf64 xs Cs.w0)))) x := rfl

set_option maxRecDepth 100000 in
set_option maxHeartbeats 1000000 in
theorem floor_unfold (x : U128) (f : UInt32) :
    bid128_to_int64_floor x f =
      skelTFC64 P_floor f (fun xs => .ok ((if (xs != (0 : UInt64)) then (0xffffffffffffffff : Int64) else (0 : Int64)), f))
        (fun xs C1 ind => splitK C1 ind (fun Cs fs => ixK fs ind (fun b =>
          if (b && (xs != (0 : UInt64))) then incK Cs (fun Cs' => fin64 f (resOf64 xs Cs'.w0))
          else fin64 f (resOf64 xs Cs.w0)))) x := rfl

set_option maxRecDepth 100000 in
set_option maxHeartbeats 1000000 in
theorem xfloor_unfold (x : U128) (f : UInt32) :
    bid128_to_int64_xfloor x f =
      skelTFC64 P_floor f (fun xs => .ok ((if (xs != (0 : UInt64)) then (0xffffffffffffffff : Int64) else (0 : Int64)), IX f))
        (fun xs C1 ind => splitK C1 ind (fun Cs fs => ixK fs ind (fun b =>
          if b then
            (if (xs != (0 : UInt64)) then incK Cs (fun Cs' => fin64 (IX f) (resOf64 xs Cs'.w0))
             else fin64 (IX f) (resOf64 xs Cs.w0))
          else fin64 f (resOf64 xs Cs.w0)))) x := rfl

set_option maxRecDepth 100000 in
set_option maxHeartbeats 1000000 in
theorem ceil_unfold (x : U128) (f : UInt32) :
    bid128_to_int64_ceil x f =
      skelTFC64 P_ceil f (fun xs => .ok ((if (xs != (0 : UInt64)) then (0 : Int64) else (1 : Int64)), f))
        (fun xs C1 ind => splitK C1 ind (fun Cs fs => ixK fs ind (fun b =>
          if (b && (xs == (0 : UInt64))) then incK Cs (fun Cs' => fin64 f (resOf64 xs Cs'.w0))
          else fin64 f (resOf64 xs Cs.w0)))) x := rfl

set_option maxRecDepth 100000 in
set_option maxHeartbeats 1000000 in
theorem xceil_unfold (x : U128) (f : UInt32) :
    bid128_to_int64_xceil x f =
      skelTFC64 P_ceil f (fun xs => .ok ((if (xs != (0 : UInt64)) then (0 : Int64) else (1 : Int64)), IX f))
        (fun xs C1 ind => splitK2 C1 ind (fun Cs fs => ixK fs ind (fun b =>
          if b then
            (if (xs == (0 : UInt64)) then incK Cs (fun Cs' => fin64 (IX f) (resOf64 xs Cs'.w0))
             else fin64 (IX f) (resOf64 xs Cs.w0))
          else fin64 f (resOf64 xs Cs.w0)))) x := rfl


/-! ### the round-to-nearest copies -/

/-- the result for a positive exponent, the positive side multiplied on `u64` -/
def posExpK64' {α : Type} (x_sign : UInt64) (C1 : U128) (exp : Int32) (k : Int64 → Except String α) : Except String α := do
  let v ← (if (x_sign != (0 : UInt64)) then (do pure ((-((Int64.ofInt (toI C1.w0)))) * ((Int64.ofInt (toI (← tbl64 Dec.Gen.BID_TEN2K64 (UInt64.ofInt (toI exp)))))))) else (do pure (Int64.ofInt (toI ((C1.w0 * (← tbl64 Dec.Gen.BID_TEN2K64 (UInt64.ofInt (toI exp)))))))))
  k v

/-- the skeleton of the round-to-nearest copies -/
def skelRN64 (P : RangeP64) (f : UInt32) (small0 : Except String (Int64 × UInt32))
    (midB : UInt64 → U128 → Int32 → Except String (Int64 × UInt32))
    (remAll : UInt64 → U128 → Int32 → Except String (Int64 × UInt32))
    (pe : UInt64 → U128 → Int32 → (Int64 → Except String (Int64 × UInt32)) → Except String (Int64 × UInt32))
    (x : U128) : Except String (Int64 × UInt32) :=
  frontK x (INV64 f) (.ok (0, f)) (fun x_sign C1 q exp =>
    rangeK64 P x_sign C1 q exp (INV64 f)
      (if decide (q + exp < (0 : Int32)) then small0
       else if (q + exp == (0 : Int32)) then midB x_sign C1 q
       else if decide (exp < (0 : Int32)) then remAll x_sign C1 (-exp)
       else if (exp == (0 : Int32)) then fin64 f (resOf64 x_sign C1.w0)
       else pe x_sign C1 exp (fin64 f)))

def P_rnint : RangeP64 := ⟨5, 5, true, 4, 0xfffffffffffffffb, false⟩
def P_rninta : RangeP64 := ⟨5, 5, false, 4, 0xfffffffffffffffb, false⟩

/-- `±1` -/
def pm1 (xs : UInt64) : Int64 := (if (xs != (0 : UInt64)) then 0xffffffffffffffff else 1)

/-- the round-half-even repair of the half-up quotient: one less when the discarded part was exactly a half and the
quotient is odd -/
def evenFix (xs : UInt64) (Cs : U128) (fs : U256) (ind : Int32) (g : UInt32) : Except String (Int64 × UInt32) :=
  midK fs ind (if (((Cs.w0 &&& (1 : UInt64))) == (1 : UInt64)) then fin64 g (resOf64 xs (Cs.w0 - 1)) else fin64 g (resOf64 xs Cs.w0))
    (fin64 g (resOf64 xs Cs.w0))

set_option maxRecDepth 100000 in
set_option maxHeartbeats 1000000 in
theorem rnint_unfold (x : U128) (f : UInt32) :
    bid128_to_int64_rnint x f =
      skelRN64 P_rnint f (.ok (0, f))
        (fun xs C1 q => midTestK (fun a b => decide (a ≤ b)) C1 q
          (fun b => if b then fin64 f 0 else if (xs != (0 : UInt64)) then fin64 f 0xffffffffffffffff else fin64 f 1)
          (fun b => if b then fin64 f 0 else if (xs != (0 : UInt64)) then fin64 f 0xffffffffffffffff else fin64 f 1))
        (fun xs C1 ind => removeK C1 ind (fun Cs fs => evenFix xs Cs fs ind f))
        posExpK64' x := rfl


set_option maxRecDepth 100000 in
set_option maxHeartbeats 1000000 in
theorem rninta_unfold (x : U128) (f : UInt32) :
    bid128_to_int64_rninta x f =
      skelRN64 P_rninta f (.ok (0, f))
        (fun xs C1 q => midTestK (fun a b => decide (a < b)) C1 q
          (fun b => if b then fin64 f 0 else if (xs != (0 : UInt64)) then fin64 f 0xffffffffffffffff else fin64 f 1)
          (fun b => if b then fin64 f 0 else if (xs != (0 : UInt64)) then fin64 f 0xffffffffffffffff else fin64 f 1))
        (fun xs C1 ind => addHalfK C1 ind (fun C1' => splitCK C1' ind (fun Cs => fin64 f (resOf64 xs Cs.w0))))
        posExpK64 x := rfl

set_option maxRecDepth 100000 in
set_option maxHeartbeats 1000000 in
theorem xrnint_unfold (x : U128) (f : UInt32) :
    bid128_to_int64_xrnint x f =
      skelRN64 P_rnint f (.ok (0, IX f))
        (fun xs C1 q => midTestK (fun a b => decide (a ≤ b)) C1 q
          (fun b => if b then fin64 (IX f) 0 else if (xs != (0 : UInt64)) then fin64 (IX f) 0xffffffffffffffff else fin64 (IX f) 1)
          (fun b => if b then fin64 (IX f) 0 else if (xs != (0 : UInt64)) then fin64 (IX f) 0xffffffffffffffff else fin64 (IX f) 1))
        (fun xs C1 ind => removeK C1 ind (fun Cs fs =>
          fracK fs ind (evenFix xs Cs fs ind (IX f)) (evenFix xs Cs fs ind f) (evenFix xs Cs fs ind (IX f))))
        posExpK64 x := rfl

set_option maxRecDepth 100000 in
set_option maxHeartbeats 1000000 in
theorem xrninta_unfold (x : U128) (f : UInt32) :
    bid128_to_int64_xrninta x f =
      skelRN64 P_rninta f (.ok (0, IX f))
        (fun xs C1 q => midTestK (fun a b => decide (a < b)) C1 q
          (fun b => if b then fin64 (IX f) 0 else if (xs != (0 : UInt64)) then fin64 (IX f) 0xffffffffffffffff else fin64 (IX f) 1)
          (fun b => if b then fin64 (IX f) 0 else if (xs != (0 : UInt64)) then fin64 (IX f) 0xffffffffffffffff else fin64 (IX f) 1))
        (fun xs C1 ind => removeK C1 ind (fun Cs fs =>
          fracK fs ind (fin64 (IX f) (resOf64 xs Cs.w0)) (fin64 f (resOf64 xs Cs.w0)) (fin64 (IX f) (resOf64 xs Cs.w0))))
        posExpK64 x := rfl


/-! ### the range test -/

def cval (w1 w0 : UInt64) : Nat := w1.toNat * 2^64 + w0.toNat

/-- one side of the range test: `C·10^(20−n)` against `c·10^(n−20)` -/
theorem rangeSide_spec {α : Type} (cW1 cW0 : UInt64) (strict : Bool) (C1 : U128) (q : Int32) (inv k : Except String α)
    (n : Nat) (hq : q.toInt = n) (h1 : 1 ≤ n) (h34 : n ≤ 34) (hC : val128 C1 < 10 ^ n) (hc : cval cW1 cW0 < 2^68) :
    rangeSide cW1 cW0 strict C1 q inv k =
      if cmpN strict (val128 C1 * 10 ^ (20 - n)) (cval cW1 cW0 * 10 ^ (n - 20)) = true then inv else k := by
  unfold rangeSide
  simp only [bind, Except.bind, pure, Except.pure]
  by_cases c3 : n ≤ 19
  · rw [if_pos (by rw [decide_eq_true_eq, Int32.le_iff_toInt_le, hq]; show (n : Int) ≤ 19; omega)]
    have d : ((0x14 : Int32) - q).toInt = ((20 - n : Nat) : Int) := by
      rw [i32_sub _ _ (by rw [hq]; show (-2^31 : Int) ≤ 20 - n; omega) (by rw [hq]; show (20 : Int) - n < 2^31; omega), hq]
      show (20 : Int) - n = _; omega
    have hk := idx_of_i32 _ _ d
    obtain ⟨t, ht, tv⟩ := tbl64_ten (UInt64.ofInt (toI ((0x14 : Int32) - q))) (by omega)
    rw [hk] at tv
    have hC' : val128 C1 < 10 ^ 19 := Nat.lt_of_lt_of_le hC (Nat.pow_le_pow_right (by decide) c3)
    have hw1 : C1.w1.toNat = 0 := val128_small C1 (Nat.lt_trans hC' (by decide))
    have hv : val128 C1 = C1.w0.toNat := by unfold val128; rw [hw1, Nat.zero_mul, Nat.zero_add]
    obtain ⟨r, hr, rv⟩ := mul_64x64_to_128_spec C1.w0 t
    rw [ht]
    simp only [mach_eq, hr, cmp128_eq]
    rw [show n - 20 = 0 by omega, Nat.pow_zero, Nat.mul_one, show val128 r = C1.w0.toNat * t.toNat from rv, tv, ← hv]
    rfl
  · rw [if_neg (by rw [decide_eq_true_eq, Int32.le_iff_toInt_le, hq]; show ¬ (n : Int) ≤ 19; omega)]
    by_cases c4 : n = 20
    · rw [if_pos (by rw [beq_iff_eq, ← Int32.toInt_inj, hq, c4]; rfl)]
      simp only [cmp128_eq]
      rw [c4, Nat.sub_self, Nat.pow_zero, Nat.mul_one, Nat.mul_one]
      rfl
    · rw [if_neg (by rw [beq_iff_eq, ← Int32.toInt_inj, hq]; show ¬ (n : Int) = 20; omega)]
      have d : (q - (0x14 : Int32)).toInt = ((n - 20 : Nat) : Int) := by
        rw [i32_sub _ _ (by rw [hq]; show (-2^31 : Int) ≤ n - 20; omega) (by rw [hq]; show (n : Int) - 20 < 2^31; omega), hq]
        show (n : Int) - 20 = _; omega
      have hk := idx_of_i32 _ _ d
      obtain ⟨t, ht, tv⟩ := tbl64_ten (UInt64.ofInt (toI (q - (0x14 : Int32)))) (by omega)
      rw [hk] at tv
      have hb : t.toNat * val128 (⟨cW0, cW1⟩ : U128) < 2^128 := by
        rw [tv]
        calc 10 ^ (n - 20) * val128 (⟨cW0, cW1⟩ : U128) < 10 ^ 14 * 2^68 :=
              Nat.mul_lt_mul_of_le_of_lt (Nat.pow_le_pow_right (by decide) (by omega)) hc (Nat.pow_pos (by decide))
          _ < 2^128 := by decide
      obtain ⟨r, hr, rv⟩ := mul_128x64_to_128_spec t ⟨cW0, cW1⟩ hb
      rw [ht]
      simp only [hr, cmp128_eq, rv, tv]
      rw [show 20 - n = 0 by omega, Nat.pow_zero, Nat.mul_one, Nat.mul_comm]
      rfl

/-! ### the boundary test at nineteen integer digits, on numbers (`B = 2^63` or `2^63 + 1`) -/

theorem thr_mid64 (d : Dir) (B c : Nat) (strict : Bool) (hB : B = 9223372036854775808 ∨ B = 9223372036854775809)
    (ok : thrOK d B c strict) (r D' : Nat) (hD' : 0 < D') (hr : r < 10 * D') :
    cmpN strict ((B - 1) * (10 * D') + r) (c * D') = incr d ((B - 1) % 2 == 1) r (10 * D') := by
  unfold cmpN incr
  rcases hB with rfl | rfl <;> cases d <;> simp only [thrOK] at ok <;> obtain ⟨rfl, rfl⟩ := ok
  all_goals (by_cases h0 : r = 0)
  all_goals simp only [h0, if_true, if_false, Bool.false_eq_true, Nat.reduceMod, Nat.reduceSub, Nat.reduceMul, Nat.reduceBEq,
    decide_true, decide_false, Bool.and_true, Bool.and_false, Bool.or_false, Nat.add_zero, Nat.reduceEqDiff]
  all_goals rw [Bool.eq_iff_iff]
  all_goals simp only [decide_eq_true_eq, Bool.false_eq_true, Bool.or_eq_true, iff_false, iff_true, not_lt, not_le]
  all_goals omega

theorem thr_div64 (d : Dir) (B c : Nat) (strict : Bool) (hB : B = 9223372036854775808 ∨ B = 9223372036854775809)
    (ok : thrOK d B c strict) (a r D' : Nat) (hD' : 0 < D') (hr : r < 10 * D') :
    cmpN strict (a * (10 * D') + r) (c * D') = decide (B ≤ if incr d (a % 2 == 1) r (10 * D') then a + 1 else a) := by
  obtain ⟨c1, c2, c3⟩ := thrOK_c d B c strict ok (by omega)
  rcases Nat.lt_trichotomy (a + 1) B with hlt | heq | hgt
  · have h1 : (a + 2) * (10 * D') ≤ B * (10 * D') := Nat.mul_le_mul_right _ (by omega)
    have h2 : (10 * B - 10) * D' ≤ c * D' := Nat.mul_le_mul_right _ c1
    have hR : ¬ B ≤ (if incr d (a % 2 == 1) r (10 * D') then a + 1 else a) := by split <;> omega
    rw [decide_eq_false hR]
    have e1 : B * (10 * D') = (10 * B - 10) * D' + 10 * D' := by
      rw [← Nat.mul_assoc, Nat.mul_comm B 10, ← Nat.add_mul]; congr 1; omega
    rw [Nat.add_mul, e1] at h1
    unfold cmpN
    generalize a * (10 * D') = X at *
    generalize (10 * B - 10) * D' = Y at *
    generalize c * D' = Z at *
    cases strict <;> simp only [Bool.false_eq_true, if_true, if_false, decide_eq_false_iff_not] <;> (try omega)
  · have ha : a = B - 1 := by omega
    subst ha
    rw [thr_mid64 d B c strict hB ok r D' hD' hr, show B - 1 + 1 = B by omega]
    cases incr d ((B - 1) % 2 == 1) r (10 * D')
    · simp only [Bool.false_eq_true, if_false]; symm; rw [decide_eq_false_iff_not]; omega
    · simp only [if_true]; symm; rw [decide_eq_true_eq]
  · have h1 : B * (10 * D') ≤ a * (10 * D') := Nat.mul_le_mul_right _ (by omega)
    have h2 : c * D' ≤ (10 * B) * D' := Nat.mul_le_mul_right _ c2
    have hR : B ≤ (if incr d (a % 2 == 1) r (10 * D') then a + 1 else a) := by split <;> omega
    rw [decide_eq_true hR]
    have e1 : B * (10 * D') = (10 * B) * D' := by rw [← Nat.mul_assoc, Nat.mul_comm B 10]
    rw [e1] at h1
    unfold cmpN
    cases strict
    · simp only [Bool.false_eq_true, if_false, decide_eq_true_eq]
      generalize a * (10 * D') = X at *; generalize (10 * B) * D' = Y at *; generalize c * D' = Z at *
      omega
    · have h3 : c * D' < (10 * B) * D' := Nat.mul_lt_mul_of_pos_right (c3 rfl) hD'
      simp only [if_true, decide_eq_true_eq]
      generalize a * (10 * D') = X at *; generalize (10 * B) * D' = Y at *; generalize c * D' = Z at *
      omega

theorem thr_int64 (d : Dir) (B c : Nat) (strict : Bool) (hB : B = 9223372036854775808 ∨ B = 9223372036854775809)
    (ok : thrOK d B c strict) (m : Nat) : cmpN strict (10 * m) c = decide (B ≤ m) := by
  unfold cmpN
  rcases hB with rfl | rfl <;> cases d <;> simp only [thrOK] at ok <;> obtain ⟨rfl, rfl⟩ := ok <;>
    simp only [Bool.false_eq_true, if_true, if_false, Nat.reduceMod, Nat.reduceEqDiff, decide_true, decide_false] <;>
    rw [decide_eq_decide] <;> omega

/-- **the range test at nineteen integer digits is right**: the comparison of `C·10^(20−n)` with the copy's constant says
whether the rounded magnitude reaches the bound `B` -/
theorem range19 (mode : Mode) (s : Bool) (B c : Nat) (strict : Bool) (hB : B = 9223372036854775808 ∨ B = 9223372036854775809)
    (ok : thrOK (dirOf mode s) B c strict) (C : Nat) (e : Int) (hC : 0 < C) (ht : (ndigits C : Int) + e = 19) :
    cmpN strict (C * 10 ^ (20 - ndigits C)) (c * 10 ^ (ndigits C - 20)) = decide (B ≤ magOf mode s C e) := by
  have hn := ndigits_pos hC
  unfold magOf
  by_cases he : e ≥ 0
  · rw [if_pos he, show ndigits C - 20 = 0 by omega, Nat.pow_zero, Nat.mul_one,
      show 20 - ndigits C = e.toNat + 1 by omega, Nat.pow_succ, ← Nat.mul_assoc, Nat.mul_comm _ 10]
    exact thr_int64 _ B c strict hB ok _
  · rw [if_neg he, show 20 - ndigits C = 0 by omega, Nat.pow_zero, Nat.mul_one, roundInt_eq]
    have hx : (-e).toNat = (ndigits C - 20) + 1 := by omega
    rw [hx, Nat.pow_succ, Nat.mul_comm _ 10]
    have hD' : 0 < 10 ^ (ndigits C - 20) := Nat.pow_pos (by decide)
    have := thr_div64 (dirOf mode s) B c strict hB ok (C / (10 * 10 ^ (ndigits C - 20))) (C % (10 * 10 ^ (ndigits C - 20)))
      (10 ^ (ndigits C - 20)) hD' (Nat.mod_lt _ (by omega))
    rw [Nat.mul_comm (C / _), Nat.div_add_mod] at this
    exact this


/-! ### the range test of the copies -/

theorem rangeK64_spec {α : Type} (P : RangeP64) (xs : UInt64) (C1 : U128) (q exp : Int32) (inv k : Except String α)
    (n : Nat) (e : Int) (hq : q.toInt = n) (he : exp.toInt = e) (h1 : 1 ≤ n) (h34 : n ≤ 34)
    (hC : val128 C1 < 10 ^ n) (he1 : -10000 ≤ e) (he2 : e ≤ 10000)
    (hcN : cval P.nW1 P.nW0 < 2^68) (hcP : cval P.pW1 P.pW0 < 2^68) :
    rangeK64 P xs C1 q exp inv k =
      if 19 < (n : Int) + e then inv
      else if (n : Int) + e = 19 then
        (if xs ≠ 0 then
          (if cmpN P.sN (val128 C1 * 10 ^ (20 - n)) (cval P.nW1 P.nW0 * 10 ^ (n - 20)) = true then inv else k)
         else (if cmpN P.sP (val128 C1 * 10 ^ (20 - n)) (cval P.pW1 P.pW0 * 10 ^ (n - 20)) = true then inv else k))
      else k := by
  have hsum : (q + exp).toInt = (n : Int) + e := by rw [i32_add _ _ (by omega) (by omega), hq, he]
  unfold rangeK64
  by_cases c1 : 19 < (n : Int) + e
  · rw [if_pos c1, if_pos (by rw [decide_eq_true_eq, int32_gt_lit, hsum]; exact c1)]
  rw [if_neg c1, if_neg (by rw [decide_eq_true_eq, int32_gt_lit, hsum]; exact c1)]
  by_cases c2 : (n : Int) + e = 19
  swap
  · rw [if_neg c2, if_neg (by rw [beq_iff_eq, ← Int32.toInt_inj, hsum]; exact c2)]
  rw [if_pos c2, if_pos (by rw [beq_iff_eq, ← Int32.toInt_inj, hsum]; exact c2)]
  by_cases c4 : xs ≠ 0
  · rw [if_pos c4, if_pos (by simpa [bne_iff_ne] using c4)]
    exact rangeSide_spec _ _ _ C1 q inv k n hq h1 h34 hC hcN
  · rw [if_neg c4, if_neg (by simpa [bne_iff_ne] using c4)]
    exact rangeSide_spec _ _ _ C1 q inv k n hq h1 h34 hC hcP

/-- the smallest magnitude out of the `i64` range, by sign -/
def bnd64 (s : Bool) : Nat := if s then 9223372036854775809 else 9223372036854775808

/-- a copy's range-test parameters are right for rounding mode `mode` -/
def RangeOK64 (P : RangeP64) (mode : Mode) : Prop :=
  thrOK (dirOf mode true) (bnd64 true) (cval P.nW1 P.nW0) P.sN ∧ thrOK (dirOf mode false) (bnd64 false) (cval P.pW1 P.pW0) P.sP

instance (P : RangeP64) (mode : Mode) : Decidable (RangeOK64 P mode) := by unfold RangeOK64; infer_instance

/-- more than `t` integer digits: the rounded magnitude is at least `10^t`, whatever the direction -/
theorem magOf_ge (t : Nat) (mode : Mode) (s : Bool) (c : Nat) (e : Int) (hc : 0 < c) (h : (t : Int) + 1 ≤ (ndigits c : Int) + e) :
    10 ^ t ≤ magOf mode s c e := by
  obtain ⟨hlo, -⟩ := ndigits_spec hc
  unfold magOf
  by_cases he : e ≥ 0
  · rw [if_pos he]
    have : 10 ^ t ≤ 10 ^ (ndigits c - 1 + e.toNat) := Nat.pow_le_pow_right (by decide) (by omega)
    calc 10 ^ t ≤ 10 ^ (ndigits c - 1 + e.toNat) := this
      _ = 10 ^ (ndigits c - 1) * 10 ^ e.toNat := Nat.pow_add ..
      _ ≤ c * 10 ^ e.toNat := Nat.mul_le_mul_right _ hlo
  · rw [if_neg he]
    refine Nat.le_trans ?_ (roundInt_ge ..)
    rw [Nat.le_div_iff_mul_le (Nat.pow_pos (by decide)), ← Nat.pow_add]
    exact Nat.le_trans (Nat.pow_le_pow_right (by decide) (by omega)) hlo

/-- at most `t` integer digits: the rounded magnitude is at most `10^t` -/
theorem magOf_le (t : Nat) (mode : Mode) (s : Bool) (c : Nat) (e : Int) (hc : 0 < c) (h : (ndigits c : Int) + e ≤ t) :
    magOf mode s c e ≤ 10 ^ t := by
  obtain ⟨-, hhi⟩ := ndigits_spec hc
  unfold magOf
  by_cases he : e ≥ 0
  · rw [if_pos he]
    have : c * 10 ^ e.toNat < 10 ^ ndigits c * 10 ^ e.toNat := Nat.mul_lt_mul_of_pos_right hhi (Nat.pow_pos (by decide))
    rw [← Nat.pow_add] at this
    exact Nat.le_of_lt (Nat.lt_of_lt_of_le this (Nat.pow_le_pow_right (by decide) (by omega)))
  · rw [if_neg he]
    refine Nat.le_trans (roundInt_le ..) ?_
    have : c / 10 ^ (-e).toNat < 10 ^ t := by
      rw [Nat.div_lt_iff_lt_mul (Nat.pow_pos (by decide)), ← Nat.pow_add]
      exact Nat.lt_of_lt_of_le hhi (Nat.pow_le_pow_right (by decide) (by omega))
    omega

/-- **range test, semantically**: the copy answers `inv` exactly when the rounded integer is out of the `i64` range -/
theorem rangeK64_sem {α : Type} (P : RangeP64) (mode : Mode) (hP : RangeOK64 P mode) (xs : UInt64) (C1 : U128) (q exp : Int32)
    (inv k : Except String α) (s : Bool) (e : Int) (hs : (xs != 0) = s) (hC0 : 0 < val128 C1) (hC : val128 C1 < P34)
    (hq : q.toInt = (ndigits (val128 C1) : Int)) (he : exp.toInt = e) (he1 : -10000 ≤ e) (he2 : e ≤ 10000) :
    rangeK64 P xs C1 q exp inv k = if bnd64 s ≤ magOf mode s (val128 C1) e then inv else k := by
  obtain ⟨hN, hPp⟩ := hP
  have hn := ndigits_pos hC0
  obtain ⟨-, hhi⟩ := ndigits_spec hC0
  have hn34 : ndigits (val128 C1) ≤ 34 := by rw [ndigits_le_iff hC0]; simpa [P34] using hC
  have hcN : cval P.nW1 P.nW0 < 2^68 := by
    have := (thrOK_c _ _ _ _ hN (by decide)).2.1; simp only [bnd64, if_true] at this; omega
  have hcP : cval P.pW1 P.pW0 < 2^68 := by
    have := (thrOK_c _ _ _ _ hPp (by decide)).2.1; simp only [bnd64] at this; simp at this; omega
  rw [rangeK64_spec P xs C1 q exp inv k _ e hq he hn hn34 hhi he1 he2 hcN hcP]
  have h1019 : bnd64 s ≤ 10^19 := by unfold bnd64; split <;> decide
  have h1018 : 10^18 < bnd64 s := by unfold bnd64; split <;> decide
  by_cases c1 : 19 < (ndigits (val128 C1) : Int) + e
  · have := magOf_ge 19 mode s (val128 C1) e hC0 (by omega)
    rw [if_pos c1, if_pos (by omega)]
  rw [if_neg c1]
  by_cases c2 : (ndigits (val128 C1) : Int) + e = 19
  · rw [if_pos c2]
    have hxs : (xs ≠ 0) ↔ s = true := by rw [← hs, bne_iff_ne]
    cases s
    · rw [if_neg (by rw [hxs]; decide), range19 mode false (bnd64 false) _ _ (Or.inl rfl) hPp _ e hC0 c2]
      simp only [decide_eq_true_eq]
    · rw [if_pos (by rw [hxs]), range19 mode true (bnd64 true) _ _ (Or.inr rfl) hN _ e hC0 c2]
      simp only [decide_eq_true_eq]
  · rw [if_neg c2]
    have := magOf_le 18 mode s (val128 C1) e hC0 (by omega)
    rw [if_neg (by omega)]

/-! ### the specification side -/

/-- what the specification says the routine for `mode` / `xf` returns on `x` with incoming status word `f` -/
def specOut64 (mode : Mode) (xf : Bool) (x : U128) (f : UInt32) : Except String (Int64 × UInt32) :=
  .ok (Int64.ofInt (toIntD mode xf (-9223372036854775808) 9223372036854775807 (-9223372036854775808)
        (decode (Dec.C03GenCompare.bitsOf x))).1,
    f ||| UInt32.ofNat (toIntD mode xf (-9223372036854775808) 9223372036854775807 (-9223372036854775808)
        (decode (Dec.C03GenCompare.bitsOf x))).2)

/-- the integer of the model always fits an `i64`, so the `Int64` of `specOut64` has exactly that value -/
theorem specOut64_toInt (mode : Mode) (xf : Bool) (d : Datum) :
    (Int64.ofInt (toIntD mode xf (-9223372036854775808) 9223372036854775807 (-9223372036854775808) d).1).toInt =
      (toIntD mode xf (-9223372036854775808) 9223372036854775807 (-9223372036854775808) d).1 := by
  have h : -9223372036854775808 ≤ (toIntD mode xf (-9223372036854775808) 9223372036854775807 (-9223372036854775808) d).1 ∧
      (toIntD mode xf (-9223372036854775808) 9223372036854775807 (-9223372036854775808) d).1 ≤ 9223372036854775807 := by
    cases d with
    | fin s c e =>
      simp only [toIntD]
      split
      · simp_all
      · exact ⟨by decide, by decide⟩
    | inf s => simp [toIntD]
    | nan s g p => simp [toIntD]
  exact Int64.toInt_ofInt_of_le (by omega) (by omega)

-- the specification side on two of the inputs used below: −9223372036854775808.5 to nearest-even is `i64::MIN`, exact enough
-- to be in range and (for the non-`x` variant) without flag; −2.5 toward −∞ with the inexact flag
example : toIntD .rne false (-9223372036854775808) 9223372036854775807 (-9223372036854775808)
    (decode (Dec.C03GenCompare.bitsOf ⟨0x5, 0xb03e000000000005⟩)) = (-9223372036854775808, 0) := by decide +kernel
example : toIntD .rdn true (-9223372036854775808) 9223372036854775807 (-9223372036854775808)
    (decode (Dec.C03GenCompare.bitsOf ⟨0x19, 0xb03e000000000000⟩)) = (-3, fInexact) := by decide +kernel

theorem toIntD_fin64 (mode : Mode) (xf s : Bool) (c : Nat) (e : Int) :
    toIntD mode xf (-9223372036854775808) 9223372036854775807 (-9223372036854775808) (.fin s c e) =
      if magOf mode s c e < bnd64 s then
        (sInt s (magOf mode s c e), if xf && !exactOf c e then fInexact else 0)
      else (-9223372036854775808, fInvalid) := by
  simp only [toIntD, roundToInt_eq, bnd64]
  generalize magOf mode s c e = m
  cases s
  · simp only [sInt, Bool.false_eq_true, if_false]
    by_cases h : m < 9223372036854775808
    · rw [if_pos h, if_pos (by omega)]
    · rw [if_neg h, if_neg (by omega)]
  · simp only [sInt, if_true]
    by_cases h : m < 9223372036854775809
    · rw [if_pos h, if_pos (by omega)]
    · rw [if_neg h, if_neg (by omega)]


/-! ### the signed result (wrap-around arithmetic on `i64` is a ring homomorphism: no bounds needed) -/

theorem i64_ofInt_congr (a b : Int) (h : a % 2^64 = b % 2^64) : Int64.ofInt a = Int64.ofInt b := by
  rw [← Int64.toInt_inj, Int64.toInt_ofInt, Int64.toInt_ofInt]
  have e : ((Int64.size : Nat) : Int) = 2^64 := by decide
  rw [← Int.emod_bmod a, ← Int.emod_bmod b, e, h]

theorem resOf64_spec (xs w : UInt64) (s : Bool) (m : Nat) (hs : (xs != 0) = s) (hw : w.toNat = m) :
    resOf64 xs w = Int64.ofInt (sInt s m) := by
  unfold resOf64 sInt
  rw [hs]
  have e1 : toI w = (m : Int) := by show (w.toNat : Int) = m; rw [hw]
  rw [e1]
  cases s
  · simp only [Bool.false_eq_true, if_false]
  · simp only [if_true, Int64.ofInt_neg]

/-- what the skeletons need from the positive-exponent block -/
def PosExpOK64 (pe : UInt64 → U128 → Int32 → (Int64 → Except String (Int64 × UInt32)) → Except String (Int64 × UInt32)) : Prop :=
  ∀ (xs : UInt64) (C1 : U128) (exp : Int32) (k : Int64 → Except String (Int64 × UInt32)) (s : Bool) (g : Nat),
    (xs != 0) = s → exp.toInt = g → g ≤ 19 →
    pe xs C1 exp k = k (Int64.ofInt (sInt s (C1.w0.toNat * 10 ^ g)))

theorem posExpK64_ok : PosExpOK64 posExpK64 := by
  intro xs C1 exp k s g hs hg h19
  have hk := idx_of_i32 _ _ hg
  obtain ⟨t, ht, tv⟩ := tbl64_ten (UInt64.ofInt (toI exp)) (by omega)
  rw [hk] at tv
  unfold posExpK64
  rw [hs]
  have et : toI t = ((10 ^ g : Nat) : Int) := by show (t.toNat : Int) = _; rw [tv]
  have ec : toI C1.w0 = (C1.w0.toNat : Int) := rfl
  cases s
  · simp only [Bool.false_eq_true, if_false, bind, Except.bind, pure, Except.pure, ht, sInt, et, ec]
    rw [← Int64.ofInt_mul]; push_cast; rfl
  · simp only [if_true, bind, Except.bind, pure, Except.pure, ht, sInt, et, ec]
    rw [← Int64.ofInt_neg, ← Int64.ofInt_mul]
    congr 2; push_cast; ring

theorem posExpK64'_ok : PosExpOK64 posExpK64' := by
  intro xs C1 exp k s g hs hg h19
  have hk := idx_of_i32 _ _ hg
  obtain ⟨t, ht, tv⟩ := tbl64_ten (UInt64.ofInt (toI exp)) (by omega)
  rw [hk] at tv
  unfold posExpK64'
  rw [hs]
  have et : toI t = ((10 ^ g : Nat) : Int) := by show (t.toNat : Int) = _; rw [tv]
  have ec : toI C1.w0 = (C1.w0.toNat : Int) := rfl
  cases s
  · simp only [Bool.false_eq_true, if_false, bind, Except.bind, pure, Except.pure, ht, sInt]
    congr 1
    apply i64_ofInt_congr
    show (((C1.w0 * t).toNat : Nat) : Int) % 2^64 = _
    rw [UInt64.toNat_mul, tv]
    omega
  · simp only [if_true, bind, Except.bind, pure, Except.pure, ht, sInt, et, ec]
    rw [← Int64.ofInt_neg, ← Int64.ofInt_mul]
    congr 2; push_cast; ring


/-! ### the blocks of the truncating copies -/

theorem splitCK2_eq {α : Type} (C1 : U128) (ind : Int32) (k : U128 → Except String α) :
    splitCK2 C1 ind k = splitCK C1 ind k := by
  simp only [splitCK2, splitCK, bind, Except.bind, pure, Except.pure]
  by_cases c : decide (ind - 1 ≤ 0x15) = true
  · simp only [c, if_true]
  · simp only [c, if_false, Bool.false_eq_true]

theorem incK_spec {α : Type} (Cs : U128) (k : U128 → Except String α) :
    ∃ Cs' : U128, incK Cs k = k Cs' ∧ Cs'.w0 = Cs.w0 + 1 := by
  unfold incK
  simp only [bind, Except.bind, pure, Except.pure]
  by_cases h : (Cs.w0 + 1 == 0) = true
  · rw [if_pos h]; exact ⟨_, rfl, rfl⟩
  · rw [if_neg h]; exact ⟨_, rfl, rfl⟩

/-- **inexactness test**: the fraction is above the truncated reciprocal -/
theorem ixK_spec {α : Type} (fs : U256) (ind : Int32) (k : Bool → Except String α) (x : Nat)
    (hx : ind.toInt = x) (h1 : 1 ≤ x) (h34 : x ≤ 34) (hlt : val256 fs < 2 ^ (128 + shT (x - 1))) :
    ixK fs ind k = k (decide (tT (x - 1) < val256 fs)) := by
  obtain ⟨-, -, hT1, hK, -, -, ht0, ht1, -, -, -, hrange, -⟩ := row (x - 1) (by omega)
  have hk := idx_sub ind 1 x 1 hx rfl h1 (by omega)
  have d1 : (ind - 1).toInt = ((x - 1 : Nat) : Int) := by
    rw [i32_sub _ _ (by rw [hx]; show (-2^31 : Int) ≤ x - 1; omega) (by rw [hx]; show (x : Int) - 1 < 2^31; omega), hx]
    show (x : Int) - 1 = _; omega
  have hTlt : tT (x - 1) < 2^128 := by omega
  have hTr := tbl128_get _ (UInt64.ofInt (toI (ind - 1))) _ _ (by rw [hk]; exact ht0) (by rw [hk]; exact ht1)
  have b0 := fs.w0.toNat_lt; have b1 := fs.w1.toNat_lt; have b2 := fs.w2.toNat_lt; have b3 := fs.w3.toNat_lt
  simp only [ixK, bind, Except.bind, pure, Except.pure, hTr, ite_ok, ite_tt, ite_ff]
  clear hTr ht0 ht1 hT1 hK
  generalize hF : val256 fs = F at *
  generalize hTv : tT (x - 1) = T at *
  have tv0 : (UInt64.ofNat (T % 2^64)).toNat = T % 2^64 := by rw [UInt64.toNat_ofNat', Nat.mod_mod]
  have tv1 : (UInt64.ofNat (T / 2^64)).toNat = T / 2^64 := by rw [UInt64.toNat_ofNat', Nat.mod_eq_of_lt (by omega)]
  generalize UInt64.ofNat (T % 2^64) = t0 at *
  generalize UInt64.ofNat (T / 2^64) = t1 at *
  have ht01 : T = t1.toNat * 2^64 + t0.toNat := by omega
  unfold val256 at hF
  by_cases c1 : x - 1 ≤ 2
  · have c1' : decide (ind - 1 ≤ 2) = true := by
      rw [decide_eq_true_eq, Int32.le_iff_toInt_le, d1]; show ((x - 1 : Nat) : Int) ≤ 2; omega
    rw [if_pos c1']
    rw [if_pos c1] at hrange
    rw [hrange] at hlt
    have h32 : fs.w3.toNat = 0 ∧ fs.w2.toNat = 0 := by omega
    refine congrArg k ?_
    words_omega
  · have c1' : ¬ decide (ind - 1 ≤ 2) = true := by
      rw [decide_eq_true_eq, Int32.le_iff_toInt_le, d1]; show ¬ ((x - 1 : Nat) : Int) ≤ 2; omega
    rw [if_neg c1']
    rw [if_neg c1] at hrange
    by_cases c2 : x - 1 ≤ 21
    · have c2' : decide (ind - 1 ≤ 21) = true := by
        rw [decide_eq_true_eq, Int32.le_iff_toInt_le, d1]; show ((x - 1 : Nat) : Int) ≤ 21; omega
      rw [if_pos c2']
      rw [if_pos c2] at hrange
      have hp : 2 ^ (128 + shT (x - 1)) ≤ 2 ^ 192 := Nat.pow_le_pow_right (by decide) (by omega)
      have h3 : fs.w3.toNat = 0 := by omega
      refine congrArg k ?_
      words_omega
    · have c2' : ¬ decide (ind - 1 ≤ 21) = true := by
        rw [decide_eq_true_eq, Int32.le_iff_toInt_le, d1]; show ¬ ((x - 1 : Nat) : Int) ≤ 21; omega
      rw [if_neg c2']
      refine congrArg k ?_
      words_omega


/-! ### truncating digit removal -/

/-- on numbers: the bits of `C·K_x` above the split position are `C / 10^x`, and the bits below exceed the truncated
reciprocal exactly when the division leaves a remainder -/
theorem trunc_num (x C : Nat) (h1 : 1 ≤ x) (h34 : x ≤ 34) (hC : C < 10 ^ 34) :
    C * kT (x - 1) / 2 ^ (128 + shT (x - 1)) = C / 10 ^ x ∧
    (tT (x - 1) < C * kT (x - 1) % 2 ^ (128 + shT (x - 1)) ↔ 0 < C % 10 ^ x) := by
  obtain ⟨r1, r2, hT1, -, -, -, -, -, -, -, -, -, -⟩ := row (x - 1) (by omega)
  rw [show x - 1 + 1 = x by omega] at r1 r2
  generalize hK : kT (x - 1) = K at *
  generalize hE : 128 + shT (x - 1) = E at *
  generalize hT : tT (x - 1) = T at *
  have hKD : K * 10 ^ x = 2 ^ E + (K * 10 ^ x - 2 ^ E) := by omega
  have hb : (C / 10 ^ x + 1) * (K * 10 ^ x - 2 ^ E) < K := by
    have : C / 10 ^ x ≤ 10 ^ 35 / 10 ^ x := Nat.div_le_div_right (Nat.le_of_lt (Nat.lt_trans hC (by decide)))
    calc (C / 10 ^ x + 1) * (K * 10 ^ x - 2 ^ E)
        ≤ (10 ^ 35 / 10 ^ x + 1) * (K * 10 ^ x - 2 ^ E) := Nat.mul_le_mul_right _ (by omega)
      _ < K := r2
  obtain ⟨hq, hf⟩ := recipForm (10 ^ x) K E (K * 10 ^ x - 2 ^ E) C (Nat.pow_pos (by decide)) hKD hb
  refine ⟨hq, ?_⟩
  rw [hf]
  rw [Nat.add_mul, Nat.one_mul] at hb
  generalize C / 10 ^ x * (K * 10 ^ x - 2 ^ E) = ad at *
  generalize K * 10 ^ x - 2 ^ E = δ at *
  by_cases hr : C % 10 ^ x = 0
  · rw [hr, Nat.zero_mul]; omega
  · have : K ≤ C % 10 ^ x * K := Nat.le_mul_of_pos_left K (by omega)
    generalize C % 10 ^ x * K = rk at *
    omega

/-- **truncating digit removal** (`xint`, the floors, the ceilings): the continuation gets the truncated quotient
`C / 10^x` and fraction words on which the inexactness test is right -/
theorem truncK_spec {α : Type} (C1 : U128) (ind : Int32) (k : U128 → U256 → Except String α) (x : Nat)
    (hx : ind.toInt = x) (h1 : 1 ≤ x) (h34 : x ≤ 34) (hC : val128 C1 < 10 ^ 34) :
    ∃ (Cs : U128) (fs : U256), splitK C1 ind k = k Cs fs ∧
      (val128 C1 / 10 ^ x < 2^64 → Cs.w0.toNat = val128 C1 / 10 ^ x) ∧
      val256 fs < 2 ^ (128 + shT (x - 1)) ∧
      (tT (x - 1) < val256 fs ↔ 0 < val128 C1 % 10 ^ x) := by
  obtain ⟨Cs, fs, e, qv, fv⟩ := splitK_spec C1 ind k x hx h1 h34
  obtain ⟨n1, n2⟩ := trunc_num x (val128 C1) h1 h34 hC
  refine ⟨Cs, fs, e, ?_, ?_, ?_⟩
  · rw [n1] at qv; exact qv
  · rw [fv]; exact Nat.mod_lt _ (Nat.pow_pos (by decide))
  · rw [fv]; exact n2

/-- the same without the fraction (`int`) -/
theorem truncCK_spec {α : Type} (C1 : U128) (ind : Int32) (k : U128 → Except String α) (x : Nat)
    (hx : ind.toInt = x) (h1 : 1 ≤ x) (h34 : x ≤ 34) (hC : val128 C1 < 10 ^ 34) :
    ∃ (Cs : U128), splitCK C1 ind k = k Cs ∧
      (val128 C1 / 10 ^ x < 2^64 → Cs.w0.toNat = val128 C1 / 10 ^ x) := by
  obtain ⟨Cs, e, qv⟩ := splitCK_spec C1 ind k x hx h1 h34
  obtain ⟨n1, -⟩ := trunc_num x (val128 C1) h1 h34 hC
  refine ⟨Cs, e, ?_⟩
  rw [n1] at qv; exact qv


/-! ### the skeletons -/

/-- what the skeletons need from the digit-removal step of a copy: the integer rounded in `mode`, inexact as `xf` says -/
def RemAllOK64 (mode : Mode) (xf : Bool) (f : UInt32) (remAll : UInt64 → U128 → Int32 → Except String (Int64 × UInt32)) : Prop :=
  ∀ (xs : UInt64) (s : Bool) (C1 : U128) (ind : Int32) (x : Nat), (xs != 0) = s → ind.toInt = x → 1 ≤ x → x ≤ 34 →
    val128 C1 < 10 ^ 34 → val128 C1 / 10 ^ x < 10 ^ 19 →
    remAll xs C1 ind = .ok (Int64.ofInt (sInt s (roundInt mode s (val128 C1 / 10 ^ x) (val128 C1 % 10 ^ x) (10 ^ x))),
      f ||| ixFlag xf (val128 C1 % 10 ^ x == 0))

/-- the part of both skeletons after the case of an operand below one: digits to remove, none, or trailing zeros to add -/
theorem tail64 (mode : Mode) (xf : Bool) (f : UInt32)
    (remAll : UInt64 → U128 → Int32 → Except String (Int64 × UInt32))
    (pe : UInt64 → U128 → Int32 → (Int64 → Except String (Int64 × UInt32)) → Except String (Int64 × UInt32))
    (hpe : PosExpOK64 pe) (hrem : RemAllOK64 mode xf f remAll)
    (xs : UInt64) (s : Bool) (C1 : U128) (E : Int32) (e : Int) (hsw : (xs != 0) = s) (hE' : E.toInt = e)
    (hpos : 0 < val128 C1) (hlt : val128 C1 < 10 ^ 34) (he1 : -10000 ≤ e)
    (ht1 : 1 ≤ (ndigits (val128 C1) : Int) + e) (ht19 : (ndigits (val128 C1) : Int) + e ≤ 19) :
    (if decide (E < (0 : Int32)) then remAll xs C1 (-E)
       else if (E == (0 : Int32)) then fin64 f (resOf64 xs C1.w0)
       else pe xs C1 E (fin64 f)) =
      .ok (Int64.ofInt (sInt s (magOf mode s (val128 C1) e)), f ||| ixFlag xf (exactOf (val128 C1) e)) := by
  generalize hCv : val128 C1 = C at *
  have hn := ndigits_pos hpos
  obtain ⟨hlo, hhi⟩ := ndigits_spec hpos
  have hn34 : ndigits C ≤ 34 := by rw [ndigits_le_iff hpos]; exact hlt
  by_cases c2 : e < 0
  · rw [if_pos (by rw [decide_eq_true_eq, Int32.lt_iff_toInt_lt, hE']; exact c2)]
    have hx : (-E).toInt = (((-e).toNat : Nat) : Int) := by rw [i32_neg _ (by omega), hE']; omega
    have hx1 : 1 ≤ (-e).toNat := by omega
    have hx34 : (-e).toNat ≤ 34 := by omega
    have ha19 : C / 10 ^ (-e).toNat < 10 ^ 19 := by
      rw [Nat.div_lt_iff_lt_mul (Nat.pow_pos (by decide)), ← Nat.pow_add]
      exact Nat.lt_of_lt_of_le hhi (Nat.pow_le_pow_right (by decide) (by omega))
    rw [hrem xs s C1 (-E) (-e).toNat hsw hx hx1 hx34 (by rw [hCv]; exact hlt) (by rw [hCv]; exact ha19), hCv]
    unfold magOf exactOf
    rw [if_neg (by omega), if_neg (by omega)]
  rw [if_neg (by rw [decide_eq_true_eq, Int32.lt_iff_toInt_lt, hE']; exact c2)]
  have hC19 : C < 10 ^ 19 := Nat.lt_of_lt_of_le hhi (Nat.pow_le_pow_right (by decide) (by omega))
  have hw1 : C1.w1.toNat = 0 := val128_small C1 (by rw [hCv]; exact Nat.lt_trans hC19 (by decide))
  have hw0 : C1.w0.toNat = C := by rw [← hCv]; unfold val128; rw [hw1, Nat.zero_mul, Nat.zero_add]
  have hex : exactOf C e = true := by unfold exactOf; rw [if_pos (by omega)]
  have hfl : f ||| ixFlag xf true = f := by
    unfold ixFlag; cases xf <;> exact UInt32.or_zero
  rw [hex, hfl]
  by_cases c3 : e = 0
  · rw [if_pos (by rw [beq_iff_eq, ← Int32.toInt_inj, hE', c3]; rfl)]
    unfold fin64 magOf
    rw [if_pos (by omega), c3, resOf64_spec xs C1.w0 s C hsw hw0]
    simp
  · rw [if_neg (by rw [beq_iff_eq, ← Int32.toInt_inj, hE']; exact c3)]
    rw [hpe xs C1 E (fin64 f) s e.toNat hsw (by rw [hE']; omega) (by omega), hw0]
    unfold fin64 magOf
    rw [if_pos (by omega)]

open Dec.C03GenCompare (decode_bitsOf decodeW_kind nzFin_decode) in
/-- **the truncating / floor / ceiling skeleton is right** once its parameters are: the range constants fit the mode
(`RangeOK64`, a finite check); `small` is the rounded value of an operand below one; `rem` is the rounded value when digits
are removed -/
theorem skelTFC64_spec (P : RangeP64) (mode : Mode) (xf : Bool) (f : UInt32) (small : UInt64 → Except String (Int64 × UInt32))
    (rem : UInt64 → U128 → Int32 → Except String (Int64 × UInt32))
    (hP : RangeOK64 P mode)
    (hsmall : ∀ (xs : UInt64) (s : Bool) (C D : Nat), (xs != 0) = s → 0 < C → C < D →
      small xs = .ok (Int64.ofInt (sInt s (roundInt mode s 0 C D)), f ||| ixFlag xf false))
    (hrem : RemAllOK64 mode xf f rem)
    (x : U128) :
    skelTFC64 P f small rem x = specOut64 mode xf x f := by
  obtain ⟨f1, f2, f3⟩ := frontK_spec x (INV64 f) (.ok (0, f)) (fun x_sign C1 q exp =>
    rangeK64 P x_sign C1 q exp (INV64 f)
      (if decide (q + exp ≤ (0 : Int32)) then small x_sign
       else if decide (exp < (0 : Int32)) then rem x_sign C1 (-exp)
       else if (exp == (0 : Int32)) then fin64 f (resOf64 x_sign C1.w0)
       else posExpK64 x_sign C1 exp (fin64 f)))
  unfold skelTFC64 specOut64
  rw [decode_bitsOf]
  rcases decodeW_kind x.w1.toNat x.w0.toNat with ⟨hN, s, p, hd⟩ | ⟨hN, hI, hd⟩ | ⟨hI, hz, e, hd⟩ | ⟨hI, hS, hlt, hpos, hd⟩
  · rw [f1 (by omega), hd]; rfl
  · rw [f1 hI, hd]; rfl
  · rw [f2 hI hz, hd, toIntD_fin64, magOf_zero, exactOf_zero]
    have : (0 : Nat) < bnd64 (decide (x.w1.toNat / 2 ^ 63 % 2 = 1)) := by unfold bnd64; split <;> omega
    rw [if_pos this]
    cases decide (x.w1.toNat / 2 ^ 63 % 2 = 1) <;> cases xf <;>
      exact congrArg Except.ok (Prod.ext rfl (UInt32.or_zero).symm)
  · -- finite non-zero
    have hnz : nzFin x := ⟨hI, by unfold zeroP; omega⟩
    obtain ⟨Q, E, hQ, hE, hk⟩ := f3 hnz
    rw [hk, hd, toIntD_fin64]
    clear f1 f2 f3 hk
    have hsw : ((x.w1 &&& c_MASK_SIGN) != 0) = decide (x.w1.toNat / 2 ^ 63 % 2 = 1) := sign_word x.w1
    have hv : val128 (sigF x) = sigW x.w1.toNat x.w0.toNat := Dec.C03GenCompare.val128_sigF x
    have hel := expW_lt x.w1.toNat
    generalize x.w1 &&& c_MASK_SIGN = xs at *
    generalize decide (x.w1.toNat / 2 ^ 63 % 2 = 1) = s at *
    generalize hC1 : sigF x = C1 at *
    generalize hCv : sigW x.w1.toNat x.w0.toNat = C at *
    generalize hev : ((x.w1.toNat / 2 ^ 49 % 2 ^ 14 : Nat) : Int) - 6176 = e at *
    have hE' : E.toInt = e := by rw [hE, ← hev]; rfl
    have he1 : -10000 ≤ e := by rw [← hev]; omega
    have he2 : e ≤ 10000 := by
      rw [← hev]; have : x.w1.toNat / 2 ^ 49 % 2 ^ 14 < 2^14 := Nat.mod_lt _ (by decide); omega
    rw [← hv] at hQ hpos hlt ⊢
    rw [rangeK64_sem P mode hP xs C1 Q E _ _ s e hsw hpos hlt hQ hE' he1 he2]
    by_cases hin : bnd64 s ≤ magOf mode s (val128 C1) e
    · rw [if_pos hin, if_neg (show ¬ magOf mode s (val128 C1) e < bnd64 s by omega)]; rfl
    rw [if_neg hin, if_pos (show magOf mode s (val128 C1) e < bnd64 s by omega)]
    show _ = Except.ok (Int64.ofInt (sInt s (magOf mode s (val128 C1) e)), f ||| ixFlag xf (exactOf (val128 C1) e))
    have hn := ndigits_pos hpos
    have hlt' : val128 C1 < 10 ^ 34 := by simpa [P34] using hlt
    have ht19 : (ndigits (val128 C1) : Int) + e ≤ 19 := by
      apply Classical.byContradiction; intro hc
      have := magOf_ge 19 mode s (val128 C1) e hpos (by omega)
      unfold bnd64 at hin; split at hin <;> omega
    have hsum : (Q + E).toInt = (ndigits (val128 C1) : Int) + e := by rw [i32_add _ _ (by omega) (by omega), hQ, hE']
    by_cases c1 : (ndigits (val128 C1) : Int) + e ≤ 0
    · -- below one
      rw [if_pos (by rw [decide_eq_true_eq, Int32.le_iff_toInt_le, hsum]; exact c1)]
      obtain ⟨hneg, ha, hr⟩ := tiny (val128 C1) e hpos c1
      have hCD : val128 C1 < 10 ^ (-e).toNat := by
        have := Nat.mod_lt (val128 C1) (Nat.pow_pos (n := (-e).toNat) (by decide : 0 < 10)); omega
      rw [hsmall xs s (val128 C1) (10 ^ (-e).toNat) hsw hpos hCD]
      unfold magOf exactOf
      rw [if_neg (by omega), if_neg (by omega), ha, hr]
      have : (val128 C1 == 0) = false := by rw [beq_eq_false_iff_ne]; omega
      rw [this]
    rw [if_neg (by rw [decide_eq_true_eq, Int32.le_iff_toInt_le, hsum]; exact c1)]
    exact tail64 mode xf f rem posExpK64 posExpK64_ok hrem xs s C1 E e hsw hE' hpos hlt' he1 (by omega) ht19


open Dec.C03GenCompare (decode_bitsOf decodeW_kind nzFin_decode) in
/-- **the round-to-nearest skeleton is right** once its parameters are: the range constants, the answers for operands below
0.1 and in [0.1, 1), the digit-removal step, the positive-exponent block -/
theorem skelRN64_spec (P : RangeP64) (mode : Mode) (xf : Bool) (f : UInt32) (small0 : Except String (Int64 × UInt32))
    (midB : UInt64 → U128 → Int32 → Except String (Int64 × UInt32))
    (remAll : UInt64 → U128 → Int32 → Except String (Int64 × UInt32))
    (pe : UInt64 → U128 → Int32 → (Int64 → Except String (Int64 × UInt32)) → Except String (Int64 × UInt32))
    (hP : RangeOK64 P mode) (hpe : PosExpOK64 pe)
    (hdir : ∀ s, dirOf mode s = .even ∨ dirOf mode s = .away)
    (hsmall0 : small0 = .ok (0, f ||| ixFlag xf false))
    (hmidB : ∀ (xs : UInt64) (s : Bool) (C1 : U128) (q : Int32), (xs != 0) = s → 0 < val128 C1 → val128 C1 < 10 ^ 34 →
      q.toInt = (ndigits (val128 C1) : Int) →
      midB xs C1 q = .ok (Int64.ofInt (sInt s (roundInt mode s 0 (val128 C1) (10 ^ ndigits (val128 C1)))), f ||| ixFlag xf false))
    (hrem : RemAllOK64 mode xf f remAll)
    (x : U128) :
    skelRN64 P f small0 midB remAll pe x = specOut64 mode xf x f := by
  obtain ⟨f1, f2, f3⟩ := frontK_spec x (INV64 f) (.ok (0, f)) (fun x_sign C1 q exp =>
    rangeK64 P x_sign C1 q exp (INV64 f)
      (if decide (q + exp < (0 : Int32)) then small0
       else if (q + exp == (0 : Int32)) then midB x_sign C1 q
       else if decide (exp < (0 : Int32)) then remAll x_sign C1 (-exp)
       else if (exp == (0 : Int32)) then fin64 f (resOf64 x_sign C1.w0)
       else pe x_sign C1 exp (fin64 f)))
  unfold skelRN64 specOut64
  rw [decode_bitsOf]
  rcases decodeW_kind x.w1.toNat x.w0.toNat with ⟨hN, s, p, hd⟩ | ⟨hN, hI, hd⟩ | ⟨hI, hz, e, hd⟩ | ⟨hI, hS, hlt, hpos, hd⟩
  · rw [f1 (by omega), hd]; rfl
  · rw [f1 hI, hd]; rfl
  · rw [f2 hI hz, hd, toIntD_fin64, magOf_zero, exactOf_zero]
    have : (0 : Nat) < bnd64 (decide (x.w1.toNat / 2 ^ 63 % 2 = 1)) := by unfold bnd64; split <;> omega
    rw [if_pos this]
    cases decide (x.w1.toNat / 2 ^ 63 % 2 = 1) <;> cases xf <;>
      exact congrArg Except.ok (Prod.ext rfl (UInt32.or_zero).symm)
  · -- finite non-zero
    have hnz : nzFin x := ⟨hI, by unfold zeroP; omega⟩
    obtain ⟨Q, E, hQ, hE, hk⟩ := f3 hnz
    rw [hk, hd, toIntD_fin64]
    clear f1 f2 f3 hk
    have hsw : ((x.w1 &&& c_MASK_SIGN) != 0) = decide (x.w1.toNat / 2 ^ 63 % 2 = 1) := sign_word x.w1
    have hv : val128 (sigF x) = sigW x.w1.toNat x.w0.toNat := Dec.C03GenCompare.val128_sigF x
    have hel := expW_lt x.w1.toNat
    generalize x.w1 &&& c_MASK_SIGN = xs at *
    generalize decide (x.w1.toNat / 2 ^ 63 % 2 = 1) = s at *
    generalize hC1 : sigF x = C1 at *
    generalize hCv : sigW x.w1.toNat x.w0.toNat = C at *
    generalize hev : ((x.w1.toNat / 2 ^ 49 % 2 ^ 14 : Nat) : Int) - 6176 = e at *
    have hE' : E.toInt = e := by rw [hE, ← hev]; rfl
    have he1 : -10000 ≤ e := by rw [← hev]; omega
    have he2 : e ≤ 10000 := by
      rw [← hev]; have : x.w1.toNat / 2 ^ 49 % 2 ^ 14 < 2^14 := Nat.mod_lt _ (by decide); omega
    rw [← hv] at hQ hpos hlt ⊢
    rw [rangeK64_sem P mode hP xs C1 Q E _ _ s e hsw hpos hlt hQ hE' he1 he2]
    by_cases hin : bnd64 s ≤ magOf mode s (val128 C1) e
    · rw [if_pos hin, if_neg (show ¬ magOf mode s (val128 C1) e < bnd64 s by omega)]; rfl
    rw [if_neg hin, if_pos (show magOf mode s (val128 C1) e < bnd64 s by omega)]
    show _ = Except.ok (Int64.ofInt (sInt s (magOf mode s (val128 C1) e)), f ||| ixFlag xf (exactOf (val128 C1) e))
    have hn := ndigits_pos hpos
    obtain ⟨hlo, hhi⟩ := ndigits_spec hpos
    have hlt' : val128 C1 < 10 ^ 34 := by simpa [P34] using hlt
    have ht19 : (ndigits (val128 C1) : Int) + e ≤ 19 := by
      apply Classical.byContradiction; intro hc
      have := magOf_ge 19 mode s (val128 C1) e hpos (by omega)
      unfold bnd64 at hin; split at hin <;> omega
    have hsum : (Q + E).toInt = (ndigits (val128 C1) : Int) + e := by rw [i32_add _ _ (by omega) (by omega), hQ, hE']
    have hround0 : ∀ D, 2 * val128 C1 < D → roundInt mode s 0 (val128 C1) D = 0 := by
      intro D hD
      rw [roundInt_eq]
      have : incr (dirOf mode s) (0 % 2 == 1) (val128 C1) D = false := by
        unfold incr
        rw [if_neg (by omega)]
        rcases hdir s with h | h <;> rw [h] <;> simp only [Bool.or_eq_false_iff, Bool.and_eq_false_iff, decide_eq_false_iff_not] <;> omega
      rw [this]; rfl
    by_cases c1 : (ndigits (val128 C1) : Int) + e < 0
    · -- below 0.1
      rw [if_pos (by rw [decide_eq_true_eq, Int32.lt_iff_toInt_lt, hsum]; exact c1), hsmall0]
      obtain ⟨hneg, ha, hr⟩ := tiny (val128 C1) e hpos (by omega)
      unfold magOf exactOf
      rw [if_neg (by omega), if_neg (by omega), ha, hr]
      have hCD : 2 * val128 C1 < 10 ^ (-e).toNat := by
        have h1 : 10 ^ (ndigits (val128 C1) + 1) ≤ 10 ^ (-e).toNat := Nat.pow_le_pow_right (by decide) (by omega)
        rw [Nat.pow_succ] at h1
        omega
      rw [hround0 _ hCD]
      have : (val128 C1 == 0) = false := by rw [beq_eq_false_iff_ne]; omega
      rw [this]; cases s <;> rfl
    rw [if_neg (by rw [decide_eq_true_eq, Int32.lt_iff_toInt_lt, hsum]; exact c1)]
    by_cases c1' : (ndigits (val128 C1) : Int) + e = 0
    · -- in [0.1, 1)
      rw [if_pos (by rw [beq_iff_eq, ← Int32.toInt_inj, hsum, c1']; rfl)]
      rw [hmidB xs s C1 Q hsw hpos hlt' hQ]
      obtain ⟨hneg, ha, hr⟩ := tiny (val128 C1) e hpos (by omega)
      unfold magOf exactOf
      rw [if_neg (by omega), if_neg (by omega), ha, hr, show (-e).toNat = ndigits (val128 C1) by omega]
      have : (val128 C1 == 0) = false := by rw [beq_eq_false_iff_ne]; omega
      rw [this]
    rw [if_neg (by rw [beq_iff_eq, ← Int32.toInt_inj, hsum]; exact c1')]
    exact tail64 mode xf f remAll pe hpe hrem xs s C1 E e hsw hE' hpos hlt' he1 (by omega) ht19


/-! ### the truncating / floor / ceiling copies -/

theorem fin_res (xs : UInt64) (s : Bool) (Cs : U128) (a : Nat) (g : UInt32) (hs : (xs != 0) = s) (hw : Cs.w0.toNat = a) :
    fin64 g (resOf64 xs Cs.w0) = .ok (Int64.ofInt (sInt s a), g) := by
  unfold fin64; rw [resOf64_spec xs Cs.w0 s a hs hw]

theorem incK_res (xs : UInt64) (s : Bool) (Cs : U128) (a : Nat) (g : UInt32) (hs : (xs != 0) = s) (hw : Cs.w0.toNat = a)
    (ha : a + 1 < 2^64) :
    incK Cs (fun Cs' => fin64 g (resOf64 xs Cs'.w0)) = .ok (Int64.ofInt (sInt s (a + 1)), g) := by
  obtain ⟨Cs', e, hw'⟩ := incK_spec Cs (fun Cs' => fin64 g (resOf64 xs Cs'.w0))
  rw [e]
  exact fin_res xs s Cs' (a + 1) g hs (by rw [hw', UInt64.toNat_add, hw]; exact Nat.mod_eq_of_lt ha)

/-- operands below one, for the directed modes: the magnitude is 1 when rounding away from zero, else 0 -/
theorem small_dir64 (mode : Mode) (xf : Bool) (f g : UInt32) (v : UInt64 → Int64)
    (hdir : ∀ s, dirOf mode s = .down ∨ dirOf mode s = .up)
    (hv : ∀ (xs : UInt64) (s : Bool), (xs != 0) = s → v xs = Int64.ofInt (sInt s (if dirOf mode s = .up then 1 else 0)))
    (hg : g = f ||| ixFlag xf false) :
    ∀ (xs : UInt64) (s : Bool) (C D : Nat), (xs != 0) = s → 0 < C → C < D →
      (.ok (v xs, g) : Except String (Int64 × UInt32)) =
        .ok (Int64.ofInt (sInt s (roundInt mode s 0 C D)), f ||| ixFlag xf false) := by
  intro xs s C D hs hC hD
  rw [hv xs s hs, hg, roundInt_eq]
  have : incr (dirOf mode s) (0 % 2 == 1) C D = decide (dirOf mode s = .up) := by
    unfold incr
    rw [if_neg (by omega)]
    rcases hdir s with h | h <;> rw [h] <;> rfl
  rw [this]
  by_cases h : dirOf mode s = .up
  · rw [if_pos h, decide_eq_true h, if_pos rfl]
  · rw [if_neg h, decide_eq_false h, if_neg (by decide)]

/-- **after truncating digit removal, generically**: a copy that adds one to the quotient exactly when the division is
inexact and the direction is away from zero, and raises inexact as `xf` says -/
theorem remTrunc_ok (mode : Mode) (xf : Bool) (f : UInt32) (hdir : ∀ s, dirOf mode s = .down ∨ dirOf mode s = .up)
    (body : UInt64 → U128 → Bool → Except String (Int64 × UInt32))
    (hbody : ∀ (xs : UInt64) (s : Bool) (Cs : U128) (a : Nat) (b : Bool), (xs != 0) = s → Cs.w0.toNat = a → a + 1 < 2^64 →
      body xs Cs b = .ok (Int64.ofInt (sInt s (if (b && decide (dirOf mode s = .up)) = true then a + 1 else a)),
        f ||| ixFlag xf (!b))) :
    RemAllOK64 mode xf f (fun xs C1 ind => splitK C1 ind (fun Cs fs => ixK fs ind (fun b => body xs Cs b))) := by
  intro xs s C1 ind x hs hx h1 h34 hC ha
  obtain ⟨Cs, fs, e, qv, flt, ft⟩ := truncK_spec C1 ind (fun Cs fs => ixK fs ind (fun b => body xs Cs b)) x hx h1 h34 hC
  have h19 : (10:Nat)^19 + 1 < 2^64 := by decide
  simp only []
  rw [e, ixK_spec fs ind _ x hx h1 h34 flt, hbody xs s Cs _ _ hs (qv (by omega)) (by omega), roundInt_eq]
  have hb : decide (tT (x - 1) < val256 fs) = decide (0 < val128 C1 % 10 ^ x) := by
    rw [decide_eq_decide]; exact ft
  rw [hb]
  generalize val128 C1 / 10 ^ x = a
  generalize val128 C1 % 10 ^ x = r
  unfold incr
  by_cases hr : r = 0
  · rw [if_pos hr, hr]; rfl
  · rw [if_neg hr]
    have e1 : decide (0 < r) = true := decide_eq_true (by omega)
    have e2 : (r == 0) = false := by rw [beq_eq_false_iff_ne]; exact hr
    rw [e1, e2]
    rcases hdir s with h | h <;> rw [h] <;> rfl

theorem or_ix_t (f : UInt32) (xf : Bool) : f ||| ixFlag xf true = f := by
  unfold ixFlag; cases xf <;> exact UInt32.or_zero
theorem or_ix_ff (f : UInt32) (b : Bool) : f ||| ixFlag false b = f := by
  unfold ixFlag; exact UInt32.or_zero
theorem or_ix_tf (f : UInt32) : f ||| ixFlag true false = IX f := rfl

/-- `int` when digits are removed: the truncated quotient -/
theorem rem_int_ok (f : UInt32) :
    RemAllOK64 .rtz false f (fun xs C1 ind => splitCK2 C1 ind (fun Cs => fin64 f (resOf64 xs Cs.w0))) := by
  intro xs s C1 ind x hs hx h1 h34 hC ha
  obtain ⟨Cs, e, qv⟩ := truncCK_spec C1 ind (fun Cs => fin64 f (resOf64 xs Cs.w0)) x hx h1 h34 hC
  have h19 : (10:Nat)^19 + 1 < 2^64 := by decide
  simp only []
  rw [splitCK2_eq, e, fin_res xs s Cs _ f hs (qv (by omega)), roundInt_eq, or_ix_ff]
  have : incr (dirOf .rtz s) (val128 C1 / 10 ^ x % 2 == 1) (val128 C1 % 10 ^ x) (10 ^ x) = false := by
    unfold incr dirOf; split <;> rfl
  rw [this]; rfl

theorem rem_xint_ok (f : UInt32) :
    RemAllOK64 .rtz true f (fun xs C1 ind => splitK C1 ind (fun Cs fs => ixK fs ind (fun b =>
          if b then fin64 (IX f) (resOf64 xs Cs.w0) else fin64 f (resOf64 xs Cs.w0)))) := by
  refine remTrunc_ok .rtz true f (by decide) _ ?_
  intro xs s Cs a b hs hw ha
  simp only [fin_res xs s Cs a _ hs hw]
  cases b <;> cases s <;> first | rfl | exact congrArg Except.ok (Prod.ext rfl (UInt32.or_zero).symm)

theorem rem_floor_ok (f : UInt32) :
    RemAllOK64 .rdn false f (fun xs C1 ind => splitK C1 ind (fun Cs fs => ixK fs ind (fun b =>
          if (b && (xs != (0 : UInt64))) then incK Cs (fun Cs' => fin64 f (resOf64 xs Cs'.w0))
          else fin64 f (resOf64 xs Cs.w0)))) := by
  refine remTrunc_ok .rdn false f (by decide) _ ?_
  intro xs s Cs a b hs hw ha
  simp only [fin_res xs s Cs a _ hs hw, incK_res xs s Cs a _ hs hw ha]
  rw [hs]
  cases b <;> cases s <;> first | rfl | exact congrArg Except.ok (Prod.ext rfl (UInt32.or_zero).symm)

theorem rem_xfloor_ok (f : UInt32) :
    RemAllOK64 .rdn true f (fun xs C1 ind => splitK C1 ind (fun Cs fs => ixK fs ind (fun b =>
          if b then
            (if (xs != (0 : UInt64)) then incK Cs (fun Cs' => fin64 (IX f) (resOf64 xs Cs'.w0))
             else fin64 (IX f) (resOf64 xs Cs.w0))
          else fin64 f (resOf64 xs Cs.w0)))) := by
  refine remTrunc_ok .rdn true f (by decide) _ ?_
  intro xs s Cs a b hs hw ha
  simp only [fin_res xs s Cs a _ hs hw, incK_res xs s Cs a _ hs hw ha]
  rw [hs]
  cases b <;> cases s <;> first | rfl | exact congrArg Except.ok (Prod.ext rfl (UInt32.or_zero).symm)

theorem rem_ceil_ok (f : UInt32) :
    RemAllOK64 .rup false f (fun xs C1 ind => splitK C1 ind (fun Cs fs => ixK fs ind (fun b =>
          if (b && (xs == (0 : UInt64))) then incK Cs (fun Cs' => fin64 f (resOf64 xs Cs'.w0))
          else fin64 f (resOf64 xs Cs.w0)))) := by
  refine remTrunc_ok .rup false f (by decide) _ ?_
  intro xs s Cs a b hs hw ha
  simp only [fin_res xs s Cs a _ hs hw, incK_res xs s Cs a _ hs hw ha]
  rw [beq_of_bne xs s hs]
  cases b <;> cases s <;> first | rfl | exact congrArg Except.ok (Prod.ext rfl (UInt32.or_zero).symm)

theorem rem_xceil_ok (f : UInt32) :
    RemAllOK64 .rup true f (fun xs C1 ind => splitK2 C1 ind (fun Cs fs => ixK fs ind (fun b =>
          if b then
            (if (xs == (0 : UInt64)) then incK Cs (fun Cs' => fin64 (IX f) (resOf64 xs Cs'.w0))
             else fin64 (IX f) (resOf64 xs Cs.w0))
          else fin64 f (resOf64 xs Cs.w0)))) := by
  simp only [splitK2_eq]
  refine remTrunc_ok .rup true f (by decide) _ ?_
  intro xs s Cs a b hs hw ha
  simp only [fin_res xs s Cs a _ hs hw, incK_res xs s Cs a _ hs hw ha]
  rw [beq_of_bne xs s hs]
  cases b <;> cases s <;> first | rfl | exact congrArg Except.ok (Prod.ext rfl (UInt32.or_zero).symm)

/-- **`bid128_to_int64_int`** (conversion with truncation, no inexact): for every 128-bit pattern and every incoming status
word the routine returns what the specification-level `toIntD .rtz false` with the `i64` bounds says, and never panics -/
theorem to_int64_int_spec (x : U128) (f : UInt32) : bid128_to_int64_int x f = specOut64 .rtz false x f := by
  rw [int_unfold]
  exact skelTFC64_spec P_int .rtz false f _ _ (by decide)
    (small_dir64 .rtz false f f (fun _ => 0) (by decide) (by intro xs s _; cases s <;> rfl) (or_ix_ff f false).symm)
    (rem_int_ok f) x

-- 2.5, −2.5, 9223372036854775807.5, −9223372036854775808.5, −0.3, 123·10^17 (out of range), −9·10^18, −2^63, a NaN
example : bid128_to_int64_int ⟨0x19, 0x303e000000000000⟩ 0x0 = .ok (2, 0x0) := by rfl
example : bid128_to_int64_int ⟨0x19, 0xb03e000000000000⟩ 0x0 = .ok (-2, 0x0) := by rfl
example : bid128_to_int64_int ⟨0xfffffffffffffffb, 0x303e000000000004⟩ 0x0 = .ok (9223372036854775807, 0x0) := by rfl
example : bid128_to_int64_int ⟨0x5, 0xb03e000000000005⟩ 0x0 = .ok (-9223372036854775808, 0x0) := by rfl
example : bid128_to_int64_int ⟨0x3, 0xb03e000000000000⟩ 0x0 = .ok (0, 0x0) := by rfl
example : bid128_to_int64_int ⟨0x7b, 0x3062000000000000⟩ 0x0 = .ok (-9223372036854775808, 0x1) := by rfl
example : bid128_to_int64_int ⟨0x9, 0xb064000000000000⟩ 0x0 = .ok (-9000000000000000000, 0x0) := by rfl
example : bid128_to_int64_int ⟨0x8000000000000000, 0xb040000000000000⟩ 0x0 = .ok (-9223372036854775808, 0x0) := by rfl
example : bid128_to_int64_int ⟨0x7, 0x7c00000000000000⟩ 0x20 = .ok (-9223372036854775808, 0x21) := by rfl

/-- **`bid128_to_int64_xint`** (truncation, inexact signalled) -/
theorem to_int64_xint_spec (x : U128) (f : UInt32) : bid128_to_int64_xint x f = specOut64 .rtz true x f := by
  rw [xint_unfold]
  exact skelTFC64_spec P_int .rtz true f _ _ (by decide)
    (small_dir64 .rtz true f (IX f) (fun _ => 0) (by decide) (by intro xs s _; cases s <;> rfl) rfl)
    (rem_xint_ok f) x

-- 2.5, −2.5, 9223372036854775807.5, −9223372036854775808.5, −0.3, 123·10^17 (out of range), −9·10^18, −2^63, a NaN
example : bid128_to_int64_xint ⟨0x19, 0x303e000000000000⟩ 0x0 = .ok (2, 0x20) := by rfl
example : bid128_to_int64_xint ⟨0x19, 0xb03e000000000000⟩ 0x0 = .ok (-2, 0x20) := by rfl
example : bid128_to_int64_xint ⟨0xfffffffffffffffb, 0x303e000000000004⟩ 0x0 = .ok (9223372036854775807, 0x20) := by rfl
example : bid128_to_int64_xint ⟨0x5, 0xb03e000000000005⟩ 0x0 = .ok (-9223372036854775808, 0x20) := by rfl
example : bid128_to_int64_xint ⟨0x3, 0xb03e000000000000⟩ 0x0 = .ok (0, 0x20) := by rfl
example : bid128_to_int64_xint ⟨0x7b, 0x3062000000000000⟩ 0x0 = .ok (-9223372036854775808, 0x1) := by rfl
example : bid128_to_int64_xint ⟨0x9, 0xb064000000000000⟩ 0x0 = .ok (-9000000000000000000, 0x0) := by rfl
example : bid128_to_int64_xint ⟨0x8000000000000000, 0xb040000000000000⟩ 0x0 = .ok (-9223372036854775808, 0x0) := by rfl
example : bid128_to_int64_xint ⟨0x7, 0x7c00000000000000⟩ 0x20 = .ok (-9223372036854775808, 0x21) := by rfl

/-- **`bid128_to_int64_floor`** (rounding toward −∞, no inexact) -/
theorem to_int64_floor_spec (x : U128) (f : UInt32) : bid128_to_int64_floor x f = specOut64 .rdn false x f := by
  rw [floor_unfold]
  exact skelTFC64_spec P_floor .rdn false f _ _ (by decide)
    (small_dir64 .rdn false f f (fun xs => if (xs != (0 : UInt64)) then 0xffffffffffffffff else 0) (by decide)
      (by intro xs s hs; rw [hs]; cases s <;> rfl) (or_ix_ff f false).symm)
    (rem_floor_ok f) x

-- 2.5, −2.5, 9223372036854775807.5, −9223372036854775808.5, −0.3, 123·10^17 (out of range), −9·10^18, −2^63, a NaN
example : bid128_to_int64_floor ⟨0x19, 0x303e000000000000⟩ 0x0 = .ok (2, 0x0) := by rfl
example : bid128_to_int64_floor ⟨0x19, 0xb03e000000000000⟩ 0x0 = .ok (-3, 0x0) := by rfl
example : bid128_to_int64_floor ⟨0xfffffffffffffffb, 0x303e000000000004⟩ 0x0 = .ok (9223372036854775807, 0x0) := by rfl
example : bid128_to_int64_floor ⟨0x5, 0xb03e000000000005⟩ 0x0 = .ok (-9223372036854775808, 0x1) := by rfl
example : bid128_to_int64_floor ⟨0x3, 0xb03e000000000000⟩ 0x0 = .ok (-1, 0x0) := by rfl
example : bid128_to_int64_floor ⟨0x7b, 0x3062000000000000⟩ 0x0 = .ok (-9223372036854775808, 0x1) := by rfl
example : bid128_to_int64_floor ⟨0x9, 0xb064000000000000⟩ 0x0 = .ok (-9000000000000000000, 0x0) := by rfl
example : bid128_to_int64_floor ⟨0x8000000000000000, 0xb040000000000000⟩ 0x0 = .ok (-9223372036854775808, 0x0) := by rfl
example : bid128_to_int64_floor ⟨0x7, 0x7c00000000000000⟩ 0x20 = .ok (-9223372036854775808, 0x21) := by rfl

/-- **`bid128_to_int64_xfloor`** (rounding toward −∞, inexact signalled) -/
theorem to_int64_xfloor_spec (x : U128) (f : UInt32) : bid128_to_int64_xfloor x f = specOut64 .rdn true x f := by
  rw [xfloor_unfold]
  exact skelTFC64_spec P_floor .rdn true f _ _ (by decide)
    (small_dir64 .rdn true f (IX f) (fun xs => if (xs != (0 : UInt64)) then 0xffffffffffffffff else 0) (by decide)
      (by intro xs s hs; rw [hs]; cases s <;> rfl) rfl)
    (rem_xfloor_ok f) x

-- 2.5, −2.5, 9223372036854775807.5, −9223372036854775808.5, −0.3, 123·10^17 (out of range), −9·10^18, −2^63, a NaN
example : bid128_to_int64_xfloor ⟨0x19, 0x303e000000000000⟩ 0x0 = .ok (2, 0x20) := by rfl
example : bid128_to_int64_xfloor ⟨0x19, 0xb03e000000000000⟩ 0x0 = .ok (-3, 0x20) := by rfl
example : bid128_to_int64_xfloor ⟨0xfffffffffffffffb, 0x303e000000000004⟩ 0x0 = .ok (9223372036854775807, 0x20) := by rfl
example : bid128_to_int64_xfloor ⟨0x5, 0xb03e000000000005⟩ 0x0 = .ok (-9223372036854775808, 0x1) := by rfl
example : bid128_to_int64_xfloor ⟨0x3, 0xb03e000000000000⟩ 0x0 = .ok (-1, 0x20) := by rfl
example : bid128_to_int64_xfloor ⟨0x7b, 0x3062000000000000⟩ 0x0 = .ok (-9223372036854775808, 0x1) := by rfl
example : bid128_to_int64_xfloor ⟨0x9, 0xb064000000000000⟩ 0x0 = .ok (-9000000000000000000, 0x0) := by rfl
example : bid128_to_int64_xfloor ⟨0x8000000000000000, 0xb040000000000000⟩ 0x0 = .ok (-9223372036854775808, 0x0) := by rfl
example : bid128_to_int64_xfloor ⟨0x7, 0x7c00000000000000⟩ 0x20 = .ok (-9223372036854775808, 0x21) := by rfl

/-- **`bid128_to_int64_ceil`** (rounding toward +∞, no inexact) -/
theorem to_int64_ceil_spec (x : U128) (f : UInt32) : bid128_to_int64_ceil x f = specOut64 .rup false x f := by
  rw [ceil_unfold]
  exact skelTFC64_spec P_ceil .rup false f _ _ (by decide)
    (small_dir64 .rup false f f (fun xs => if (xs != (0 : UInt64)) then 0 else 1) (by decide)
      (by intro xs s hs; rw [hs]; cases s <;> rfl) (or_ix_ff f false).symm)
    (rem_ceil_ok f) x

-- 2.5, −2.5, 9223372036854775807.5, −9223372036854775808.5, −0.3, 123·10^17 (out of range), −9·10^18, −2^63, a NaN
example : bid128_to_int64_ceil ⟨0x19, 0x303e000000000000⟩ 0x0 = .ok (3, 0x0) := by rfl
example : bid128_to_int64_ceil ⟨0x19, 0xb03e000000000000⟩ 0x0 = .ok (-2, 0x0) := by rfl
example : bid128_to_int64_ceil ⟨0xfffffffffffffffb, 0x303e000000000004⟩ 0x0 = .ok (-9223372036854775808, 0x1) := by rfl
example : bid128_to_int64_ceil ⟨0x5, 0xb03e000000000005⟩ 0x0 = .ok (-9223372036854775808, 0x0) := by rfl
example : bid128_to_int64_ceil ⟨0x3, 0xb03e000000000000⟩ 0x0 = .ok (0, 0x0) := by rfl
example : bid128_to_int64_ceil ⟨0x7b, 0x3062000000000000⟩ 0x0 = .ok (-9223372036854775808, 0x1) := by rfl
example : bid128_to_int64_ceil ⟨0x9, 0xb064000000000000⟩ 0x0 = .ok (-9000000000000000000, 0x0) := by rfl
example : bid128_to_int64_ceil ⟨0x8000000000000000, 0xb040000000000000⟩ 0x0 = .ok (-9223372036854775808, 0x0) := by rfl
example : bid128_to_int64_ceil ⟨0x7, 0x7c00000000000000⟩ 0x20 = .ok (-9223372036854775808, 0x21) := by rfl

/-- **`bid128_to_int64_xceil`** (rounding toward +∞, inexact signalled) -/
theorem to_int64_xceil_spec (x : U128) (f : UInt32) : bid128_to_int64_xceil x f = specOut64 .rup true x f := by
  rw [xceil_unfold]
  exact skelTFC64_spec P_ceil .rup true f _ _ (by decide)
    (small_dir64 .rup true f (IX f) (fun xs => if (xs != (0 : UInt64)) then 0 else 1) (by decide)
      (by intro xs s hs; rw [hs]; cases s <;> rfl) rfl)
    (rem_xceil_ok f) x

-- 2.5, −2.5, 9223372036854775807.5, −9223372036854775808.5, −0.3, 123·10^17 (out of range), −9·10^18, −2^63, a NaN
example : bid128_to_int64_xceil ⟨0x19, 0x303e000000000000⟩ 0x0 = .ok (3, 0x20) := by rfl
example : bid128_to_int64_xceil ⟨0x19, 0xb03e000000000000⟩ 0x0 = .ok (-2, 0x20) := by rfl
example : bid128_to_int64_xceil ⟨0xfffffffffffffffb, 0x303e000000000004⟩ 0x0 = .ok (-9223372036854775808, 0x1) := by rfl
example : bid128_to_int64_xceil ⟨0x5, 0xb03e000000000005⟩ 0x0 = .ok (-9223372036854775808, 0x20) := by rfl
example : bid128_to_int64_xceil ⟨0x3, 0xb03e000000000000⟩ 0x0 = .ok (0, 0x20) := by rfl
example : bid128_to_int64_xceil ⟨0x7b, 0x3062000000000000⟩ 0x0 = .ok (-9223372036854775808, 0x1) := by rfl
example : bid128_to_int64_xceil ⟨0x9, 0xb064000000000000⟩ 0x0 = .ok (-9000000000000000000, 0x0) := by rfl
example : bid128_to_int64_xceil ⟨0x8000000000000000, 0xb040000000000000⟩ 0x0 = .ok (-9223372036854775808, 0x0) := by rfl
example : bid128_to_int64_xceil ⟨0x7, 0x7c00000000000000⟩ 0x20 = .ok (-9223372036854775808, 0x21) := by rfl


/-! ### the round-to-nearest copies -/

theorem pm1_eq64 (xs : UInt64) (s : Bool) (hs : (xs != 0) = s) : pm1 xs = Int64.ofInt (sInt s 1) := by
  unfold pm1; rw [hs]; cases s <;> rfl

/-- operands in [0.1, 1): the answer is 0 or ±1 by the comparison with the midpoint -/
theorem midB_ok64 (mode : Mode) (strict : Bool) (hm : (mode = .rne ∧ strict = false) ∨ (mode = .rna ∧ strict = true))
    (cmp : UInt64 → UInt64 → Bool)
    (hcmp : ∀ a b : UInt64, cmp a b = if strict then decide (a.toNat < b.toNat) else decide (a.toNat ≤ b.toNat))
    (pf : UInt32) (xs : UInt64) (s : Bool) (C1 : U128) (q : Int32)
    (k64 k128 : Bool → Except String (Int64 × UInt32))
    (hk64 : ∀ b, k64 b = fin64 pf (if b then 0 else pm1 xs)) (hk128 : ∀ b, k128 b = fin64 pf (if b then 0 else pm1 xs))
    (hs : (xs != 0) = s) (hC0 : 0 < val128 C1) (hC : val128 C1 < 10 ^ 34) (hq : q.toInt = (ndigits (val128 C1) : Int)) :
    midTestK cmp C1 q k64 k128 =
      .ok (Int64.ofInt (sInt s (roundInt mode s 0 (val128 C1) (10 ^ ndigits (val128 C1)))), pf) := by
  have hn := ndigits_pos hC0
  have hn34 : ndigits (val128 C1) ≤ 34 := by rw [ndigits_le_iff hC0]; exact hC
  rw [midTestK_spec cmp strict hcmp C1 q k64 k128 _ hq hn hn34]
  have hD := two_h (ndigits (val128 C1)) hn
  rw [← hD, roundInt_eq]
  generalize 5 * 10 ^ (ndigits (val128 C1) - 1) = M at *
  generalize val128 C1 = C at *
  have key : ∀ b : Bool, b = !incr (dirOf mode s) (0 % 2 == 1) C (2 * M) →
      (if ndigits C ≤ 19 then k64 else k128) b = .ok (Int64.ofInt (sInt s (if incr (dirOf mode s) (0 % 2 == 1) C (2 * M) = true then 0 + 1 else 0)), pf) := by
    intro b hb
    have : (if ndigits C ≤ 19 then k64 else k128) b = fin64 pf (if b then 0 else pm1 xs) := by split <;> [exact hk64 b; exact hk128 b]
    rw [this, hb, pm1_eq64 xs s hs]
    cases incr (dirOf mode s) (0 % 2 == 1) C (2 * M) <;> cases s <;> rfl
  apply key
  unfold incr
  have hC0' : ¬ C = 0 := by omega
  rcases hm with ⟨rfl, rfl⟩ | ⟨rfl, rfl⟩
  · simp only [dirOf, hC0', Bool.false_eq_true, if_false, Nat.zero_mod, Nat.reduceBEq, Bool.and_false, Bool.or_false]
    rw [Bool.eq_iff_iff]; simp only [decide_eq_true_eq, Bool.not_eq_true', decide_eq_false_iff_not]; omega
  · simp only [dirOf, hC0', if_true, if_false]
    rw [Bool.eq_iff_iff]; simp only [decide_eq_true_eq, Bool.not_eq_true', decide_eq_false_iff_not]; omega

/-- the shape of the continuation of the midpoint comparison in all four copies -/
theorem midK_shape (g : UInt32) (xs : UInt64) (b : Bool) :
    (if b then fin64 g 0 else if (xs != (0 : UInt64)) then fin64 g 0xffffffffffffffff else fin64 g 1) =
      fin64 g (if b then 0 else pm1 xs) := by
  cases b
  · unfold pm1; simp only [Bool.false_eq_true, if_false]; split <;> rfl
  · rfl

/-- digit removal (to nearest, half up) followed by a treatment `rem` of quotient and fraction -/
theorem remAll64_of_rem (mode : Mode) (xf : Bool) (f : UInt32) (rem : UInt64 → U128 → U256 → Int32 → Except String (Int64 × UInt32))
    (hrem : ∀ (xs : UInt64) (s : Bool) (Cs : U128) (fs : U256) (ind : Int32) (x a r : Nat), (xs != 0) = s → ind.toInt = x →
      1 ≤ x → x ≤ 34 → r < 10 ^ x → a < 10 ^ 19 →
      Cs.w0.toNat = (if r < 5 * 10 ^ (x - 1) then a else a + 1) → FracOK x r fs →
      rem xs Cs fs ind = .ok (Int64.ofInt (sInt s (roundInt mode s a r (10 ^ x))), f ||| ixFlag xf (r == 0))) :
    RemAllOK64 mode xf f (fun xs C1 ind => removeK C1 ind (fun Cs fs => rem xs Cs fs ind)) := by
  intro xs s C1 ind x hs hx h1 h34 hC ha19
  obtain ⟨Cs, fs, hk, hA, hF⟩ := removeK_spec C1 ind (fun Cstar fstar => rem xs Cstar fstar ind) x hx h1 h34 hC
  have hAlt : (if val128 C1 % 10 ^ x < 5 * 10 ^ (x - 1) then val128 C1 / 10 ^ x else val128 C1 / 10 ^ x + 1) < 2^64 := by
    have : (10:Nat) ^ 19 + 1 < 2^64 := by decide
    split <;> omega
  simp only []
  rw [hk, hrem xs s Cs fs ind x _ _ hs hx h1 h34 (Nat.mod_lt _ (Nat.pow_pos (by decide))) ha19 (hA hAlt) hF]

/-- ties-to-even rounding of `a + r/(2h)` -/
theorem roundInt_rne (s : Bool) (a r h : Nat) (hh : 0 < h) :
    roundInt .rne s a r (2 * h) = if r = h then (if a % 2 = 1 then a + 1 else a) else if r < h then a else a + 1 := by
  rw [roundInt_eq]
  have e : incr (dirOf .rne s) (a % 2 == 1) r (2 * h) = (if r = h then decide (a % 2 = 1) else decide (h < r)) := by
    show (if r = 0 then false else (decide (2 * r > 2 * h) || (decide (2 * r = 2 * h) && (a % 2 == 1)))) = _
    by_cases c0 : r = 0
    · rw [if_pos c0, if_neg (by omega)]; exact (decide_eq_false (by omega)).symm
    · rw [if_neg c0]
      by_cases c : r = h
      · rw [if_pos c, decide_eq_false (by omega), decide_eq_true (by omega), Bool.false_or, Bool.true_and]
        rw [Bool.eq_iff_iff, beq_iff_eq, decide_eq_true_eq]
      · rw [if_neg c, decide_eq_false (show ¬ 2 * r = 2 * h by omega), Bool.false_and, Bool.or_false, decide_eq_decide]
        omega
  rw [e]
  by_cases c : r = h
  · rw [if_pos c, if_pos c]
    by_cases c2 : a % 2 = 1
    · rw [decide_eq_true c2, if_pos rfl, if_pos c2]
    · rw [decide_eq_false c2, if_neg (by decide), if_neg c2]
  · rw [if_neg c, if_neg c]
    by_cases c2 : r < h
    · rw [decide_eq_false (by omega), if_neg (by decide), if_pos c2]
    · rw [decide_eq_true (by omega), if_pos rfl, if_neg c2]

/-- **the round-half-even repair**: from the half-up quotient to the ties-to-even one -/
theorem evenFix_spec (xs : UInt64) (s : Bool) (Cs : U128) (fs : U256) (ind : Int32) (g : UInt32) (x a r : Nat)
    (hs : (xs != 0) = s) (hx : ind.toInt = x) (h1 : 1 ≤ x) (h34 : x ≤ 34) (ha : a < 10 ^ 19)
    (hA : Cs.w0.toNat = (if r < 5 * 10 ^ (x - 1) then a else a + 1)) (ok : FracOK x r fs) :
    evenFix xs Cs fs ind g = .ok (Int64.ofInt (sInt s (roundInt .rne s a r (10 ^ x))), g) := by
  have hh : 0 < 5 * 10 ^ (x - 1) := Nat.mul_pos (by decide) (Nat.pow_pos (by decide))
  have h19 : (10:Nat)^19 + 1 < 2^64 := by decide
  unfold evenFix
  rw [midK_spec fs ind _ _ x r hx h1 h34 ok, ← two_h x h1, roundInt_rne s a r _ hh, odd_test]
  generalize 5 * 10 ^ (x - 1) = h at *
  by_cases c : r = h
  · rw [if_pos c, if_pos c]
    rw [if_neg (by omega)] at hA
    by_cases codd : Cs.w0.toNat % 2 = 1
    · rw [decide_eq_true codd, if_pos rfl, if_neg (by omega)]
      have hsub : (Cs.w0 - 1).toNat = a := by
        rw [u64_sub_toNat _ _ (by show 1 ≤ Cs.w0.toNat; omega)]; show Cs.w0.toNat - 1 = a; omega
      unfold fin64; rw [resOf64_spec xs _ s a hs hsub]
    · rw [decide_eq_false codd, if_neg (by decide), if_pos (by omega)]
      exact fin_res xs s Cs _ g hs hA
  · rw [if_neg c, if_neg c]
    exact fin_res xs s Cs _ g hs hA

/-- `rnint` when digits are removed -/
theorem rem_rnint_ok64 (f : UInt32) :
    RemAllOK64 .rne false f (fun xs C1 ind => removeK C1 ind (fun Cs fs => evenFix xs Cs fs ind f)) := by
  refine remAll64_of_rem .rne false f (fun xs Cs fs ind => evenFix xs Cs fs ind f) ?_
  intro xs s Cs fs ind x a r hs hx h1 h34 hr ha hA ok
  rw [evenFix_spec xs s Cs fs ind f x a r hs hx h1 h34 ha hA ok, or_ix_ff]

/-- the flag of the `x` copies after the fraction classification -/
theorem frac_flag (f : UInt32) (v : Int64) (r h : Nat) (hh : 0 < h) :
    (if r < h then (if 0 < r then (.ok (v, IX f) : Except String (Int64 × UInt32)) else .ok (v, f)) else .ok (v, IX f)) =
      .ok (v, f ||| ixFlag true (r == 0)) := by
  by_cases c0 : r = 0
  · rw [if_pos (by omega), if_neg (by omega)]
    have : (r == 0) = true := by rw [c0]; rfl
    rw [this, or_ix_t]
  · have : (r == 0) = false := by rw [beq_eq_false_iff_ne]; exact c0
    rw [this]
    split <;> [rw [if_pos (by omega)]; skip] <;> rfl

/-- `xrnint` when digits are removed -/
theorem rem_xrnint_ok64 (f : UInt32) :
    RemAllOK64 .rne true f (fun xs C1 ind => removeK C1 ind (fun Cs fs =>
          fracK fs ind (evenFix xs Cs fs ind (IX f)) (evenFix xs Cs fs ind f) (evenFix xs Cs fs ind (IX f)))) := by
  refine remAll64_of_rem .rne true f (fun xs Cs fs ind =>
    fracK fs ind (evenFix xs Cs fs ind (IX f)) (evenFix xs Cs fs ind f) (evenFix xs Cs fs ind (IX f))) ?_
  intro xs s Cs fs ind x a r hs hx h1 h34 hr ha hA ok
  rw [fracK_spec fs ind _ _ _ x r hx h1 h34 ok, evenFix_spec xs s Cs fs ind f x a r hs hx h1 h34 ha hA ok,
    evenFix_spec xs s Cs fs ind (IX f) x a r hs hx h1 h34 ha hA ok]
  exact frac_flag f _ r _ (Nat.mul_pos (by decide) (Nat.pow_pos (by decide)))

/-- `xrninta` when digits are removed: the fraction only decides the inexact flag -/
theorem rem_xrninta_ok64 (f : UInt32) :
    RemAllOK64 .rna true f (fun xs C1 ind => removeK C1 ind (fun Cs fs =>
          fracK fs ind (fin64 (IX f) (resOf64 xs Cs.w0)) (fin64 f (resOf64 xs Cs.w0)) (fin64 (IX f) (resOf64 xs Cs.w0)))) := by
  refine remAll64_of_rem .rna true f (fun xs Cs fs ind =>
    fracK fs ind (fin64 (IX f) (resOf64 xs Cs.w0)) (fin64 f (resOf64 xs Cs.w0)) (fin64 (IX f) (resOf64 xs Cs.w0))) ?_
  intro xs s Cs fs ind x a r hs hx h1 h34 hr ha hA ok
  rw [fracK_spec fs ind _ _ _ x r hx h1 h34 ok, roundInt_rna s a r x h1, ← hA]
  simp only [fin_res xs s Cs _ _ hs rfl]
  exact frac_flag f _ r _ (Nat.mul_pos (by decide) (Nat.pow_pos (by decide)))

/-- `rninta` when digits are removed: the half-up quotient is the answer -/
theorem rem_rninta_ok64 (f : UInt32) :
    RemAllOK64 .rna false f (fun xs C1 ind => addHalfK C1 ind (fun C1' => splitCK C1' ind (fun Cs => fin64 f (resOf64 xs Cs.w0)))) := by
  intro xs s C1 ind x hs hx h1 h34 hC ha19
  obtain ⟨r1, r2, -, -, -, -, -, -, -, -, -, -, -⟩ := row (x - 1) (by omega)
  rw [show x - 1 + 1 = x by omega] at r1 r2
  have hh : 0 < 5 * 10 ^ (x - 1) := Nat.mul_pos (by decide) (Nat.pow_pos (by decide))
  have hhalf : 5 * 10 ^ (x - 1) ≤ 5 * 10 ^ 33 := Nat.mul_le_mul_left 5 (Nat.pow_le_pow_right (by decide) (by omega))
  have hsum : val128 C1 + 5 * 10 ^ (x - 1) < 10 ^ 35 := by
    calc val128 C1 + 5 * 10 ^ (x - 1) < 10 ^ 34 + 5 * 10 ^ 33 := Nat.add_lt_add_of_lt_of_le hC hhalf
      _ < 10 ^ 35 := by decide
  obtain ⟨C1', e1, v1⟩ := addHalfK_spec C1 ind (fun C1' => splitCK C1' ind (fun Cs => fin64 f (resOf64 xs Cs.w0))) x hx h1 h34
    (Nat.lt_trans hsum (by decide))
  obtain ⟨Cs, e2, qv⟩ := splitCK_spec C1' ind (fun Cs => fin64 f (resOf64 xs Cs.w0)) x hx h1 h34
  have hD := two_h x h1
  generalize hK : kT (x - 1) = K at *
  generalize hE : 128 + shT (x - 1) = E at *
  have hKD : K * (2 * (5 * 10 ^ (x - 1))) = 2 ^ E + (K * 10 ^ x - 2 ^ E) := by rw [hD]; omega
  have hb : ((val128 C1 + 5 * 10 ^ (x - 1)) / (2 * (5 * 10 ^ (x - 1))) + 1) * (K * 10 ^ x - 2 ^ E) < K := by
    rw [hD]
    have : (val128 C1 + 5 * 10 ^ (x - 1)) / 10 ^ x ≤ 10 ^ 35 / 10 ^ x := Nat.div_le_div_right (Nat.le_of_lt hsum)
    calc ((val128 C1 + 5 * 10 ^ (x - 1)) / 10 ^ x + 1) * (K * 10 ^ x - 2 ^ E)
        ≤ (10 ^ 35 / 10 ^ x + 1) * (K * 10 ^ x - 2 ^ E) := Nat.mul_le_mul_right _ (by omega)
      _ < K := r2
  obtain ⟨t1, -⟩ := fracTests (5 * 10 ^ (x - 1)) K E (K * 10 ^ x - 2 ^ E) (val128 C1) hh hKD (by omega) (by omega) hb
  rw [hD] at t1
  rw [v1, t1] at qv
  have hAlt : (if val128 C1 % 10 ^ x < 5 * 10 ^ (x - 1) then val128 C1 / 10 ^ x else val128 C1 / 10 ^ x + 1) < 2^64 := by
    have : (10:Nat) ^ 19 + 1 < 2^64 := by decide
    split <;> omega
  have hw := qv hAlt
  simp only []
  rw [e1, e2, roundInt_rna s _ _ x h1, fin_res xs s Cs _ f hs hw, or_ix_ff]

/-- **`bid128_to_int64_rnint`** (to nearest, ties to even; no inexact) -/
theorem to_int64_rnint_spec (x : U128) (f : UInt32) : bid128_to_int64_rnint x f = specOut64 .rne false x f := by
  rw [rnint_unfold]
  refine skelRN64_spec P_rnint .rne false f _ _ _ _ (by decide) posExpK64'_ok (by decide) (by rw [or_ix_ff]) ?_
    (rem_rnint_ok64 f) x
  intro xs s C1 q hs hC0 hC hq
  rw [or_ix_ff]
  exact midB_ok64 .rne false (Or.inl ⟨rfl, rfl⟩) _ (fun a b => by simp [UInt64.le_iff_toNat_le]) f xs s C1 q _ _
    (midK_shape f xs) (midK_shape f xs) hs hC0 hC hq

-- 2.5, −2.5, 9223372036854775807.5, −9223372036854775808.5, −0.3, 123·10^17 (out of range), −9·10^18, −2^63, a NaN
example : bid128_to_int64_rnint ⟨0x19, 0x303e000000000000⟩ 0x0 = .ok (2, 0x0) := by rfl
example : bid128_to_int64_rnint ⟨0x19, 0xb03e000000000000⟩ 0x0 = .ok (-2, 0x0) := by rfl
example : bid128_to_int64_rnint ⟨0xfffffffffffffffb, 0x303e000000000004⟩ 0x0 = .ok (-9223372036854775808, 0x1) := by rfl
example : bid128_to_int64_rnint ⟨0x5, 0xb03e000000000005⟩ 0x0 = .ok (-9223372036854775808, 0x0) := by rfl
example : bid128_to_int64_rnint ⟨0x3, 0xb03e000000000000⟩ 0x0 = .ok (0, 0x0) := by rfl
example : bid128_to_int64_rnint ⟨0x7b, 0x3062000000000000⟩ 0x0 = .ok (-9223372036854775808, 0x1) := by rfl
example : bid128_to_int64_rnint ⟨0x9, 0xb064000000000000⟩ 0x0 = .ok (-9000000000000000000, 0x0) := by rfl
example : bid128_to_int64_rnint ⟨0x8000000000000000, 0xb040000000000000⟩ 0x0 = .ok (-9223372036854775808, 0x0) := by rfl
example : bid128_to_int64_rnint ⟨0x7, 0x7c00000000000000⟩ 0x20 = .ok (-9223372036854775808, 0x21) := by rfl

/-- **`bid128_to_int64_rninta`** (to nearest, ties away from zero; no inexact) -/
theorem to_int64_rninta_spec (x : U128) (f : UInt32) : bid128_to_int64_rninta x f = specOut64 .rna false x f := by
  rw [rninta_unfold]
  refine skelRN64_spec P_rninta .rna false f _ _ _ _ (by decide) posExpK64_ok (by decide) (by rw [or_ix_ff]) ?_
    (rem_rninta_ok64 f) x
  intro xs s C1 q hs hC0 hC hq
  rw [or_ix_ff]
  exact midB_ok64 .rna true (Or.inr ⟨rfl, rfl⟩) _ (fun a b => by simp [UInt64.lt_iff_toNat_lt]) f xs s C1 q _ _
    (midK_shape f xs) (midK_shape f xs) hs hC0 hC hq

-- 2.5, −2.5, 9223372036854775807.5, −9223372036854775808.5, −0.3, 123·10^17 (out of range), −9·10^18, −2^63, a NaN
example : bid128_to_int64_rninta ⟨0x19, 0x303e000000000000⟩ 0x0 = .ok (3, 0x0) := by rfl
example : bid128_to_int64_rninta ⟨0x19, 0xb03e000000000000⟩ 0x0 = .ok (-3, 0x0) := by rfl
example : bid128_to_int64_rninta ⟨0xfffffffffffffffb, 0x303e000000000004⟩ 0x0 = .ok (-9223372036854775808, 0x1) := by rfl
example : bid128_to_int64_rninta ⟨0x5, 0xb03e000000000005⟩ 0x0 = .ok (-9223372036854775808, 0x1) := by rfl
example : bid128_to_int64_rninta ⟨0x3, 0xb03e000000000000⟩ 0x0 = .ok (0, 0x0) := by rfl
example : bid128_to_int64_rninta ⟨0x7b, 0x3062000000000000⟩ 0x0 = .ok (-9223372036854775808, 0x1) := by rfl
example : bid128_to_int64_rninta ⟨0x9, 0xb064000000000000⟩ 0x0 = .ok (-9000000000000000000, 0x0) := by rfl
example : bid128_to_int64_rninta ⟨0x8000000000000000, 0xb040000000000000⟩ 0x0 = .ok (-9223372036854775808, 0x0) := by rfl
example : bid128_to_int64_rninta ⟨0x7, 0x7c00000000000000⟩ 0x20 = .ok (-9223372036854775808, 0x21) := by rfl

/-- **`bid128_to_int64_xrnint`** (to nearest, ties to even; inexact signalled) -/
theorem to_int64_xrnint_spec (x : U128) (f : UInt32) : bid128_to_int64_xrnint x f = specOut64 .rne true x f := by
  rw [xrnint_unfold]
  refine skelRN64_spec P_rnint .rne true f _ _ _ _ (by decide) posExpK64_ok (by decide) rfl ?_
    (rem_xrnint_ok64 f) x
  intro xs s C1 q hs hC0 hC hq
  exact midB_ok64 .rne false (Or.inl ⟨rfl, rfl⟩) _ (fun a b => by simp [UInt64.le_iff_toNat_le]) (IX f) xs s C1 q _ _
    (midK_shape (IX f) xs) (midK_shape (IX f) xs) hs hC0 hC hq

-- 2.5, −2.5, 9223372036854775807.5, −9223372036854775808.5, −0.3, 123·10^17 (out of range), −9·10^18, −2^63, a NaN
example : bid128_to_int64_xrnint ⟨0x19, 0x303e000000000000⟩ 0x0 = .ok (2, 0x20) := by rfl
example : bid128_to_int64_xrnint ⟨0x19, 0xb03e000000000000⟩ 0x0 = .ok (-2, 0x20) := by rfl
example : bid128_to_int64_xrnint ⟨0xfffffffffffffffb, 0x303e000000000004⟩ 0x0 = .ok (-9223372036854775808, 0x1) := by rfl
example : bid128_to_int64_xrnint ⟨0x5, 0xb03e000000000005⟩ 0x0 = .ok (-9223372036854775808, 0x20) := by rfl
example : bid128_to_int64_xrnint ⟨0x3, 0xb03e000000000000⟩ 0x0 = .ok (0, 0x20) := by rfl
example : bid128_to_int64_xrnint ⟨0x7b, 0x3062000000000000⟩ 0x0 = .ok (-9223372036854775808, 0x1) := by rfl
example : bid128_to_int64_xrnint ⟨0x9, 0xb064000000000000⟩ 0x0 = .ok (-9000000000000000000, 0x0) := by rfl
example : bid128_to_int64_xrnint ⟨0x8000000000000000, 0xb040000000000000⟩ 0x0 = .ok (-9223372036854775808, 0x0) := by rfl
example : bid128_to_int64_xrnint ⟨0x7, 0x7c00000000000000⟩ 0x20 = .ok (-9223372036854775808, 0x21) := by rfl

/-- **`bid128_to_int64_xrninta`** (to nearest, ties away from zero; inexact signalled) -/
theorem to_int64_xrninta_spec (x : U128) (f : UInt32) : bid128_to_int64_xrninta x f = specOut64 .rna true x f := by
  rw [xrninta_unfold]
  refine skelRN64_spec P_rninta .rna true f _ _ _ _ (by decide) posExpK64_ok (by decide) rfl ?_
    (rem_xrninta_ok64 f) x
  intro xs s C1 q hs hC0 hC hq
  exact midB_ok64 .rna true (Or.inr ⟨rfl, rfl⟩) _ (fun a b => by simp [UInt64.lt_iff_toNat_lt]) (IX f) xs s C1 q _ _
    (midK_shape (IX f) xs) (midK_shape (IX f) xs) hs hC0 hC hq

-- 2.5, −2.5, 9223372036854775807.5, −9223372036854775808.5, −0.3, 123·10^17 (out of range), −9·10^18, −2^63, a NaN
example : bid128_to_int64_xrninta ⟨0x19, 0x303e000000000000⟩ 0x0 = .ok (3, 0x20) := by rfl
example : bid128_to_int64_xrninta ⟨0x19, 0xb03e000000000000⟩ 0x0 = .ok (-3, 0x20) := by rfl
example : bid128_to_int64_xrninta ⟨0xfffffffffffffffb, 0x303e000000000004⟩ 0x0 = .ok (-9223372036854775808, 0x1) := by rfl
example : bid128_to_int64_xrninta ⟨0x5, 0xb03e000000000005⟩ 0x0 = .ok (-9223372036854775808, 0x1) := by rfl
example : bid128_to_int64_xrninta ⟨0x3, 0xb03e000000000000⟩ 0x0 = .ok (0, 0x20) := by rfl
example : bid128_to_int64_xrninta ⟨0x7b, 0x3062000000000000⟩ 0x0 = .ok (-9223372036854775808, 0x1) := by rfl
example : bid128_to_int64_xrninta ⟨0x9, 0xb064000000000000⟩ 0x0 = .ok (-9000000000000000000, 0x0) := by rfl
example : bid128_to_int64_xrninta ⟨0x8000000000000000, 0xb040000000000000⟩ 0x0 = .ok (-9223372036854775808, 0x0) := by rfl
example : bid128_to_int64_xrninta ⟨0x7, 0x7c00000000000000⟩ 0x20 = .ok (-9223372036854775808, 0x21) := by rfl

end Dec.C06GenToInt64
