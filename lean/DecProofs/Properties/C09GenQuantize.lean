/-
  C09 / C11 / C12 (generated-code level) — `bid128_frexp`, `bid128_fdim` and `bid128_quantize` as translated into
  `DecGen/Code.lean`, against the specification-level model (`Dec.frexpD`, `Dec.cmpD`, `Dec.quantizeD` of DecModel/Misc.lean).
  Built on `C13GenNoncomp` (bit-field tests, `decodeW`, the `BID_NR_DIGITS` digit count, exact multi-word products),
  `C06GenFromInt` (`unpack_value_spec`, `sub_eq`), `C03GenCompare` (`quiet_greater_spec`), `C13GenPack` / `C13PackHelpers`
  (table bridges, `uf_arith`: the arithmetic of "add the rounding constant, multiply by the reciprocal, cut at bit E").

  Main theorems (all unconditional, every bit pattern, every rounding mode, every incoming status word):
    frexp_spec (+ frexp_finite), fdim_spec, quantize_spec (+ quantize_decode).

  How the long routine is cut into pieces.  The translated `bid128_quantize` is one 170-line `do` block.  Its pieces
  (`quantFront2`, `quantMain`, `quantMain2`, `quantMainA`, `quantAfterEst`, `quantDispatch`, `quantDown`, `quantDownA … F`) are
  COPIES of consecutive lines of the generated text, turned into definitions that take the live variables as parameters; that
  the routine is the composition of the pieces is proved by `rfl` (`quantize_shape`, `quantMain_shape`, …) — so the pieces are
  the code, and if the Rust source changes the `rfl`s fail.  Each piece is then specified on its own.

  Kernel hygiene (learnt the hard way): never let `simp`/`dsimp` make a purely definitional step on a goal in which a
  `match`/`bind` on `.ok v` is followed by another `match`/`bind` (the kernel compares the two continuations argument by
  argument before unfolding and explodes): rewrite with `bind_ok` (a lemma with a proof term) instead; do not restate a
  lemma with a fresh `match` (a new matcher is a different constant); rewrite hypotheses into constructor form before
  giving them to `simp` together with matcher-unfolding lemmas.
-/
import DecProofs.Properties.C13GenNoncomp
import DecProofs.Properties.C06GenFromInt
import DecProofs.Properties.C03GenCompare
import DecProofs.Properties.C13GenPack
import DecGen.T_BID_POWER10_TABLE_128
import DecGen.T_BID_ESTIMATE_DECIMAL_DIGITS
import Mathlib.Tactic.Ring
import Mathlib.Tactic.Linarith
import Mathlib.Tactic.NormNum
import DecProofs.Properties.C09Q

set_option linter.unusedSimpArgs false
set_option linter.unusedVariables false
set_option maxRecDepth 4096

namespace Dec.C09GenQuantize
open Dec.Rs Dec.Gen.Code Dec.C13GenNoncomp

/-! ## A1. `bid128_frexp` -/

/-- the digit-count tail (five reads of the same `BID_NR_DIGITS` entry `t`) with an arbitrary continuation `k` -/
def nrTailG {β : Type} (t : Except String DecDigits) (hi lo : UInt64) (k : Int32 → Except String β) : Except String β :=
  Except.bind t (fun v =>
    if (Int32.ofInt (toI v.digits) == 0) = true then
      Except.bind t (fun v =>
        Except.bind t (fun v_1 =>
          Except.bind
            (if decide (hi > v_1.threshold_hi) = true then Except.ok true
              else
                Except.bind t (fun v =>
                  if (hi == v.threshold_hi) = true then
                    Except.bind t (fun v => Except.ok (decide (lo ≥ v.threshold_lo)))
                  else Except.ok false))
            (fun v_2 =>
              if v_2 = true then k (Int32.ofInt (toI v.digits1) + 1)
              else k (Int32.ofInt (toI v.digits1)))))
    else k (Int32.ofInt (toI v.digits)))

theorem nrTailG_eval {β : Type} (D D1 : UInt32) (THI TLO hi lo : UInt64) (k : Int32 → Except String β) :
    nrTailG (.ok ⟨D, THI, TLO, D1⟩) hi lo k =
      k (if Int32.ofInt (toI D) = 0 then
        (if THI.toNat * 2^64 + TLO.toNat ≤ hi.toNat * 2^64 + lo.toNat then Int32.ofInt (toI D1) + 1 else Int32.ofInt (toI D1))
        else Int32.ofInt (toI D)) := by
  have := lo.toNat_lt; have := TLO.toNat_lt
  simp only [nrTailG, Except.bind]
  by_cases h0 : Int32.ofInt (toI D) = 0
  · simp only [h0, beq_self_eq_true, if_true]
    by_cases h1 : hi > THI
    · have : THI.toNat * 2^64 + TLO.toNat ≤ hi.toNat * 2^64 + lo.toNat := by
        rw [gt_iff_lt, UInt64.lt_iff_toNat_lt] at h1; omega
      simp only [h1, decide_true, if_true, this]
    · by_cases h2 : hi = THI
      · subst h2
        by_cases h3 : lo ≥ TLO
        · have : hi.toNat * 2^64 + TLO.toNat ≤ hi.toNat * 2^64 + lo.toNat := by
            rw [ge_iff_le, UInt64.le_iff_toNat_le] at h3; omega
          simp only [h1, decide_false, Bool.false_eq_true, if_false, beq_self_eq_true, if_true, h3, decide_true, this]
        · have : ¬ hi.toNat * 2^64 + TLO.toNat ≤ hi.toNat * 2^64 + lo.toNat := by
            rw [ge_iff_le, UInt64.le_iff_toNat_le] at h3; omega
          simp only [h1, decide_false, Bool.false_eq_true, if_false, beq_self_eq_true, if_true, h3, this]
      · have : ¬ THI.toNat * 2^64 + TLO.toNat ≤ hi.toNat * 2^64 + lo.toNat := by
          rw [gt_iff_lt, UInt64.lt_iff_toNat_lt] at h1
          rw [← UInt64.toNat_inj] at h2
          omega
        have h2' : (hi == THI) = false := by rw [beq_eq_false_iff_ne]; exact h2
        simp only [h1, decide_false, Bool.false_eq_true, if_false, h2', this]
  · have h0' : (Int32.ofInt (toI D) == 0) = false := by rw [beq_eq_false_iff_ne]; exact h0
    simp only [h0', Bool.false_eq_true, if_false, h0]

/-- with the entry of the bit length of the coefficient the tail continues with `ndigits C` -/
theorem nr_coreG {β : Type} (hi lo : UInt64) (k : Int32 → Except String β)
    (hC0 : 0 < hi.toNat * 2^64 + lo.toNat) (hC : hi.toNat * 2^64 + lo.toNat < 2^113) :
    ∃ Q : Int32, Q.toInt = (ndigits (hi.toNat * 2^64 + lo.toNat) : Int) ∧
      nrTailG (tblDD Dec.Gen.BID_NR_DIGITS (UInt64.ofNat (hi.toNat * 2^64 + lo.toNat).log2)) hi lo k = k Q := by
  have hL : (hi.toNat * 2^64 + lo.toNat).log2 < 113 := (Nat.log2_lt (by omega)).2 hC
  rw [tblDD_nr _ hL, nrTailG_eval]
  exact ⟨_, nr_q _ hC0 hC, rfl⟩

/-- `frexp`'s bit-length computation: the index is the position of the leading bit -/
theorem frexp_bits_idx (v : UInt64) (K : UInt32) (h0 : 0 < v.toNat) (h53 : v.toNat < 2^53) (hK2 : K.toNat ≤ 64) :
    (UInt64.ofInt (toI (K + (((UInt32.ofInt (toI ((F64U.ofU64 (UInt64.ofInt (toI v))).bits >>> 52))) &&& 2047) - 1023))))
      = UInt64.ofNat (K.toNat + v.toNat.log2) := by
  obtain ⟨f1, f2⟩ := float_exp v.toNat h0 h53
  have hl : v.toNat.log2 < 53 := (Nat.log2_lt (by omega)).2 h53
  have e1 : (UInt64.ofInt (toI v)) = v := by rw [toI_u64, u64_ofInt_nat, UInt64.ofNat_toNat]
  have e2 : ((F64U.ofU64 v).bits >>> 52).toNat = v.toNat.log2 + 1023 := by
    rw [UInt64.toNat_shiftRight, F64U.ofU64, UInt64.toNat_ofNat', Nat.mod_eq_of_lt (by omega),
      show (52 : UInt64).toNat % 64 = 52 from by decide, Nat.shiftRight_eq_div_pow, f1]
  have e3 : (K + (((UInt32.ofInt (toI ((F64U.ofU64 v).bits >>> 52))) &&& 2047) - 1023)).toNat = K.toNat + v.toNat.log2 := by
    rw [UInt32.toNat_add, UInt32.toNat_sub, UInt32.toNat_and, toI_u64, u32_ofInt_nat, UInt32.toNat_ofNat', e2,
      show (2047 : UInt32).toNat = 2^11 - 1 from by decide, Nat.and_two_pow_sub_one_eq_mod,
      show (1023 : UInt32).toNat = 1023 from by decide]
    omega
  rw [e1, toI_u32, e3, u64_ofInt_nat]

theorem frexp_bits_idx0 (v : UInt64) (h0 : 0 < v.toNat) (h53 : v.toNat < 2^53) :
    (UInt64.ofInt (toI ((((UInt32.ofInt (toI ((F64U.ofU64 (UInt64.ofInt (toI v))).bits >>> 52))) &&& 2047) - 1023))))
      = UInt64.ofNat v.toNat.log2 := by
  have := frexp_bits_idx v 0 h0 h53 (by decide)
  rw [UInt32.zero_add, show UInt32.toNat 0 = 0 from rfl, Nat.zero_add] at this
  exact this


/-- `frexp`'s index into `BID_NR_DIGITS` (the inner `≥ 2^32` test is dead code under `≥ 2^53`, but it is in the source) -/
def frexpIdx (x : U128) : UInt64 :=
  if (x.w1 &&& 0x1ffffffffffff == 0) = true then
    if decide (x.w0 ≥ 0x20000000000000) = true then
      if decide (x.w0 ≥ 0x100000000) = true then
        UInt64.ofInt (toI ((32 : UInt32) + (((UInt32.ofInt (toI ((F64U.ofU64 (UInt64.ofInt (toI (x.w0 >>> 32)))).bits >>> 52))) &&& 2047) - 1023)))
      else UInt64.ofInt (toI ((((UInt32.ofInt (toI ((F64U.ofU64 (UInt64.ofInt (toI x.w0))).bits >>> 52))) &&& 2047) - 1023)))
    else UInt64.ofInt (toI ((((UInt32.ofInt (toI ((F64U.ofU64 (UInt64.ofInt (toI x.w0))).bits >>> 52))) &&& 2047) - 1023)))
  else UInt64.ofInt (toI ((64 : UInt32) + (((UInt32.ofInt (toI ((F64U.ofU64 (UInt64.ofInt (toI (x.w1 &&& 0x1ffffffffffff)))).bits >>> 52))) &&& 2047) - 1023)))

/-- what `frexp` returns once the digit count `q` is known -/
def frexpK (x : U128) (q : Int32) : Except String (U128 × Int32) :=
  .ok ({ w0 := x.w0,
         w1 := (x.w1 &&& (0x8001ffffffffffff : UInt64)) ||| UInt64.ofInt (toI ((Int64.ofInt (toI (-q)) + (6176 : Int64)) <<< (49 : Int64))) },
       Int32.ofInt (toI (UInt32.ofInt (toI ((x.w1 &&& (0x7ffe000000000000 : UInt64)) >>> (49 : UInt64))) - (6176 : UInt32) + UInt32.ofInt (toI q))))

theorem frexp_shape (x : U128) : bid128_frexp x =
    if (x.w1 &&& 0x7800000000000000 == 0x7800000000000000) = true then
      if (x.w1 &&& 0x7e00000000000000 == 0x7e00000000000000) = true then
        .ok ({ w0 := x.w0, w1 := x.w1 &&& 0xfdffffffffffffff }, 0)
      else .ok (x, 0)
    else if (x.w1 &&& 0x6000000000000000 == 0x6000000000000000) = true then
      .ok ({ w0 := 0, w1 := (x.w1 &&& (0x8000000000000000 : UInt64)) |||
              (UInt64.ofInt (toI (UInt32.ofInt (toI ((x.w1 &&& (0x1fff800000000000 : UInt64)) >>> (47 : UInt64))))) <<< (49 : UInt64)) }, 0)
    else if (decide (x.w1 &&& 0x1ffffffffffff > 0x1ed09bead87c0) ||
              x.w1 &&& 0x1ffffffffffff == 0x1ed09bead87c0 && decide (x.w0 > 0x378d8e63ffffffff) ||
              x.w1 &&& 0x1ffffffffffff == 0 && x.w0 == 0) = true then
      .ok ({ w0 := 0, w1 := (x.w1 &&& (0x8000000000000000 : UInt64)) |||
              (UInt64.ofInt (toI (UInt32.ofInt (toI ((x.w1 &&& (0x7ffe000000000000 : UInt64)) >>> (49 : UInt64))))) <<< (49 : UInt64)) }, 0)
    else nrTailG (tblDD Dec.Gen.BID_NR_DIGITS (frexpIdx x)) (x.w1 &&& 0x1ffffffffffff) x.w0 (frexpK x) := by
  unfold bid128_frexp frexpIdx nrTailG frexpK
  delta c_MASK_SPECIAL c_MASK_SNAN c_MASK_EXP c_MASK_EXP2 c_MASK_COEFF
  simp only [bind, Except.bind, pure, Except.pure]
  by_cases h1 : (x.w1 &&& 0x7800000000000000 == 0x7800000000000000) = true
  · rw [if_pos h1, if_pos h1]
  rw [if_neg h1, if_neg h1]
  by_cases h2 : (x.w1 &&& 0x6000000000000000 == 0x6000000000000000) = true
  · rw [if_pos h2, if_pos h2]
  rw [if_neg h2, if_neg h2]
  by_cases h3 : (decide (x.w1 &&& 0x1ffffffffffff > 0x1ed09bead87c0) ||
              x.w1 &&& 0x1ffffffffffff == 0x1ed09bead87c0 && decide (x.w0 > 0x378d8e63ffffffff) ||
              x.w1 &&& 0x1ffffffffffff == 0 && x.w0 == 0) = true
  · rw [if_pos h3, if_pos h3]
  rw [if_neg h3, if_neg h3]
  by_cases h4 : (x.w1 &&& 0x1ffffffffffff == 0) = true
  · rw [if_pos h4, if_pos h4]
    by_cases h5 : decide (x.w0 ≥ 0x20000000000000) = true
    · rw [if_pos h5, if_pos h5]
      by_cases h6 : decide (x.w0 ≥ 0x100000000) = true
      · rw [if_pos h6, if_pos h6]
      · rw [if_neg h6, if_neg h6]
    · rw [if_neg h5, if_neg h5]
  · rw [if_neg h4, if_neg h4]


theorem i32_ofInt_congr (a b : Int) (h : a % 2^32 = b % 2^32) : Int32.ofInt a = Int32.ofInt b := by
  rw [← Int32.toInt_inj, Int32.toInt_ofInt, Int32.toInt_ofInt]
  have e : ((Int32.size : Nat) : Int) = 2^32 := by decide
  rw [← Int.emod_bmod a, ← Int.emod_bmod b, e, h]

/-- `frexp`'s exponent word: `((−q as i64) + 6176) << 49` as `u64` -/
theorem frexp_w1 (Q : Int32) (nd : Nat) (hQ : Q.toInt = nd) (h1 : nd ≤ 6176) :
    UInt64.ofInt (toI ((Int64.ofInt (toI (-Q)) + (6176 : Int64)) <<< (49 : Int64))) = UInt64.ofNat ((6176 - nd) * 2^49) := by
  have eq : (-Q).toInt = -(nd : Int) := by
    rw [Int32.toInt_neg, hQ, bmod32 _ (by omega) (by omega)]
  simp only [toI]
  rw [Dec.C06GenFromInt.ofInt_toInt64, eq]
  rw [← UInt64.toNat_inj, ← Int64.toNat_toBitVec, Int64.toBitVec_shiftLeft, Int64.toBitVec_add]
  have e1 : (Int64.toBitVec 49).smod 64 = 49#64 := by decide
  have e2 : (Int64.toBitVec 6176) = 6176#64 := by decide
  rw [e1, e2, BitVec.shiftLeft_eq', BitVec.toNat_shiftLeft, BitVec.toNat_add, Int64.toBitVec_ofInt,
    BitVec.toNat_ofInt, UInt64.toNat_ofNat', Nat.shiftLeft_eq]
  simp only [BitVec.toNat_ofNat, Nat.reduceMod, Nat.reducePow]
  have : ((-(nd : Int)) % ((18446744073709551616 : Nat) : Int)).toNat = 18446744073709551616 - nd ∨ nd = 0 := by omega
  omega


theorem frexpIdx_eq (x : U128) (hC0 : 0 < x.w1.toNat % 2^49 * 2^64 + x.w0.toNat) :
    frexpIdx x = UInt64.ofNat (x.w1.toNat % 2^49 * 2^64 + x.w0.toNat).log2 := by
  have hl := x.w0.toNat_lt
  unfold frexpIdx
  by_cases c5 : x.w1.toNat % 2^49 = 0
  · rw [if_pos (by rw [u64_beq_zero, coeff_hi]; simpa using c5)]
    by_cases c6 : 2^53 ≤ x.w0.toNat
    · rw [if_pos (by rw [u64_ge]; simpa using c6), if_pos (by rw [u64_ge]; simp; omega),
        frexp_bits_idx _ 32 (by rw [shr32]; omega) (by rw [shr32]; omega) (by decide)]
      rw [shr32, show UInt32.toNat 32 = 32 from by decide, log2_shift _ c6, c5]
      simp only [Nat.zero_mul, Nat.zero_add]
    · rw [if_neg (by rw [u64_ge]; simpa using c6), frexp_bits_idx0 _ (by omega) (by omega), c5]
      simp only [Nat.zero_mul, Nat.zero_add]
  · rw [if_neg (by rw [u64_beq_zero, coeff_hi]; simpa using c5),
      frexp_bits_idx _ 64 (by rw [coeff_hi]; omega) (by rw [coeff_hi]; omega) (by decide)]
    rw [show UInt32.toNat 64 = 64 from by decide, coeff_hi, log2_hi _ _ c5 hl]

/-- the biased exponent field as `frexp` extracts it (through `u32`) -/
theorem exp_u32 (w : UInt64) : (UInt32.ofInt (toI ((w &&& 0x7ffe000000000000) >>> 49))).toNat = w.toNat / 2^49 % 2^14 := by
  have e : ((w &&& 0x7ffe000000000000) >>> 49).toNat = w.toNat / 2^49 % 2^14 := by
    rw [UInt64.toNat_shiftRight, toNat_and_field w _ 14 49 (by decide), show (49 : UInt64).toNat % 64 = 49 from by decide,
      Nat.shiftRight_eq_div_pow, Nat.mul_div_cancel _ (by decide)]
  rw [toI_u64, e, u32_ofInt_nat, UInt32.toNat_ofNat']
  omega

theorem exp2_u32 (w : UInt64) : (UInt32.ofInt (toI ((w &&& 0x1fff800000000000) >>> 47))).toNat = w.toNat / 2^47 % 2^14 := by
  have e : ((w &&& 0x1fff800000000000) >>> 47).toNat = w.toNat / 2^47 % 2^14 := by
    rw [UInt64.toNat_shiftRight, toNat_and_field w _ 14 47 (by decide), show (47 : UInt64).toNat % 64 = 47 from by decide,
      Nat.shiftRight_eq_div_pow, Nat.mul_div_cancel _ (by decide)]
  rw [toI_u64, e, u32_ofInt_nat, UInt32.toNat_ofNat']
  omega

/-- a zero with sign word `sgn` and biased exponent `E`, as `frexp` (and others) assemble it -/
theorem zero_words (w : UInt64) (u : UInt32) (E : Nat) (hu : u.toNat = E) (hE : E < 2^14) :
    ({ w0 := 0, w1 := (w &&& (0x8000000000000000 : UInt64)) ||| (UInt64.ofInt (toI u) <<< (49 : UInt64)) } : U128)
      = ofBits (encode (.fin (decide (w.toNat / 2^63 % 2 = 1)) 0 ((E : Int) - 6176))) := by
  have hw := w.toNat_lt
  have e1 : (UInt64.ofInt (toI u) <<< (49 : UInt64)).toNat = E * 2^49 := by
    rw [UInt64.toNat_shiftLeft, toI_u32, u64_ofInt_nat, UInt64.toNat_ofNat', hu,
      show (49 : UInt64).toNat % 64 = 49 from by decide, Nat.shiftLeft_eq]
    omega
  have e2 : ((w &&& (0x8000000000000000 : UInt64)) ||| (UInt64.ofInt (toI u) <<< (49 : UInt64))).toNat
      = w.toNat / 2^63 % 2 * 2^63 + E * 2^49 := by
    rw [UInt64.toNat_or, sign_keep, e1, Nat.mul_comm _ (2^63), ← Nat.two_pow_add_eq_or_of_lt (by omega)]
  have e3 : ((E : Int) - 6176 + 6176).toNat = E := by omega
  rw [← ofBits_bitsOf ({ w0 := 0, w1 := (w &&& (0x8000000000000000 : UInt64)) ||| (UInt64.ofInt (toI u) <<< (49 : UInt64)) } : U128)]
  refine congrArg ofBits ?_
  show _ * 2^64 + (0 : UInt64).toNat = signBit _ + (((E : Int) - 6176 + 6176).toNat) * 2^113 + 0
  rw [e2, e3, UInt64.toNat_zero]
  by_cases hs : w.toNat / 2^63 % 2 = 1 <;> simp only [hs, decide_true, decide_false, signBit, if_true, if_false, Bool.false_eq_true] <;> omega

theorem eq_ofBits (r : U128) (n : Nat) (h : bitsOf r = n) : r = ofBits n := by rw [← h, ofBits_bitsOf]

theorem or3 (s e c : Nat) (hs : s ≤ 1) (he : e < 2^14) (hc : c < 2^49) :
    (s * 2^63 + c) ||| (e * 2^49) = s * 2^63 + e * 2^49 + c := by
  rw [Nat.mul_comm s, Nat.two_pow_add_eq_or_of_lt (show c < 2^63 by omega) s, Nat.or_assoc, Nat.or_comm c, Nat.mul_comm e,
    ← Nat.two_pow_add_eq_or_of_lt hc e, ← Nat.two_pow_add_eq_or_of_lt (show 2^49 * e + c < 2^63 by omega) s]
  omega

/-- the finite result of `frexp`: coefficient kept, exponent field `6176 − q` -/
theorem frexp_words (x : U128) (Q : Int32) (nd : Nat) (hQ : Q.toInt = nd) (h1 : nd ≤ 6176) :
    ({ w0 := x.w0, w1 := (x.w1 &&& (0x8001ffffffffffff : UInt64)) |||
        UInt64.ofInt (toI ((Int64.ofInt (toI (-Q)) + (6176 : Int64)) <<< (49 : Int64))) } : U128)
      = ofBits (encode (.fin (decide (x.w1.toNat / 2^63 % 2 = 1)) (x.w1.toNat % 2^49 * 2^64 + x.w0.toNat) (-(nd : Int)))) := by
  have hw := x.w1.toNat_lt
  have hl := x.w0.toNat_lt
  have em : (x.w1 &&& (0x8001ffffffffffff : UInt64)).toNat = x.w1.toNat / 2^63 % 2 * 2^63 + x.w1.toNat % 2^49 := by
    have hm : (0x8001ffffffffffff : UInt64) = 0x8000000000000000 ||| 0x1ffffffffffff := by decide
    rw [hm, UInt64.toNat_and, UInt64.toNat_or, Nat.and_or_distrib_left, ← UInt64.toNat_and, ← UInt64.toNat_and, sign_keep, coeff_hi,
      Nat.mul_comm _ (2^63), ← Nat.two_pow_add_eq_or_of_lt (by omega)]
  have e2 : ((x.w1 &&& (0x8001ffffffffffff : UInt64)) |||
        UInt64.ofInt (toI ((Int64.ofInt (toI (-Q)) + (6176 : Int64)) <<< (49 : Int64)))).toNat
      = x.w1.toNat / 2^63 % 2 * 2^63 + (6176 - nd) * 2^49 + x.w1.toNat % 2^49 := by
    rw [frexp_w1 Q nd hQ h1, UInt64.toNat_or, em, UInt64.toNat_ofNat',
      Nat.mod_eq_of_lt (show (6176 - nd) * 2^49 < 2^64 by omega),
      or3 (x.w1.toNat / 2^63 % 2) (6176 - nd) (x.w1.toNat % 2^49) (by omega) (by omega) (by omega)]
  have e3 : (-(nd : Int) + 6176).toNat = 6176 - nd := by omega
  apply eq_ofBits
  show _ * 2^64 + x.w0.toNat = signBit _ + ((-(nd : Int) + 6176).toNat) * 2^113 + (x.w1.toNat % 2^49 * 2^64 + x.w0.toNat)
  rw [e2, e3]
  by_cases hs : x.w1.toNat / 2^63 % 2 = 1 <;> simp only [hs, decide_true, decide_false, signBit, if_true, if_false, Bool.false_eq_true] <;> omega

/-- the integer result of `frexp`: `(E − 6176) + q` computed in `u32`, read as `i32` -/
theorem frexp_exp (w : UInt64) (Q : Int32) (nd : Nat) (hQ : Q.toInt = nd) (h1 : nd ≤ 6176) :
    Int32.ofInt (toI (UInt32.ofInt (toI ((w &&& (0x7ffe000000000000 : UInt64)) >>> (49 : UInt64))) - (6176 : UInt32) + UInt32.ofInt (toI Q)))
      = Int32.ofInt ((nd : Int) + (((w.toNat / 2^49 % 2^14 : Nat) : Int) - 6176)) := by
  apply i32_ofInt_congr
  rw [toI_u32, UInt32.toNat_add, UInt32.toNat_sub, exp_u32, toI_i32, hQ, u32_ofInt_nat, UInt32.toNat_ofNat',
    show (6176 : UInt32).toNat = 6176 from by decide]
  have := Nat.mod_lt (w.toNat / 2^49) (show 0 < 2^14 by decide)
  omega


theorem decodeW_large (h l : Nat) (c1 : ¬ h / 2^59 % 16 = 15) (c3 : h / 2^61 % 4 = 3) :
    decodeW h l = .fin (decide (h / 2^63 % 2 = 1)) 0 ((h / 2^47 % 2^14 : Nat) - (6176 : Int)) := by
  unfold decodeW; rw [if_neg c1, if_pos c3]

theorem decodeW_small_zero (h l : Nat) (c1 : ¬ h / 2^59 % 16 = 15) (c3 : ¬ h / 2^61 % 4 = 3)
    (hz : P34 ≤ h % 2^49 * 2^64 + l ∨ h % 2^49 * 2^64 + l = 0) :
    decodeW h l = .fin (decide (h / 2^63 % 2 = 1)) 0 ((h / 2^49 % 2^14 : Nat) - (6176 : Int)) := by
  unfold decodeW; rw [if_neg c1, if_neg c3]
  rcases hz with hz | hz
  · rw [if_neg (by omega)]
  · rw [hz]; simp only [P34]; rfl

/-- clearing the signalling bit of a word that is not a signalling NaN's changes nothing when bit 57 is clear -/
theorem quiet_noop (w : UInt64) (h : w.toNat / 2^57 % 2 = 0) : w &&& 0xfdffffffffffffff = w := by
  have hw := w.toNat_lt
  rw [← UInt64.toNat_inj, UInt64.toNat_and, show (0xfdffffffffffffff : UInt64).toNat = 0xfdffffffffffffff from by decide,
    Dec.C06GenFromInt.and_quiet]
  omega

/-- **`bid128_frexp`**, every pattern (the routine takes no status word and never panics):
* finite `x` (zeros and non-canonical encodings included): exactly the canonical encoding of the model's `frexpD` fraction
  (`c·10^(−q)`, `q` the digit count; a zero stays the zero with its exponent) and its exponent `q + e` (0 for zeros);
* infinite `x`: `x` itself, bit for bit (a non-canonical infinity is NOT canonicalised), exponent 0;
* NaN `x`: `x` with the signalling bit (bit 121) cleared and nothing else touched (payload ≥ 10^33 / reserved bits are NOT
  canonicalised; an sNaN raises nothing — there is no status word), exponent 0. -/
theorem frexp_spec (x : U128) : bid128_frexp x = .ok (match decode (bitsOf x) with
    | .fin s c e => (ofBits (encode (frexpD (.fin s c e)).1), Int32.ofInt (frexpD (.fin s c e)).2)
    | .inf _ => (x, 0)
    | .nan _ _ _ => ({ w0 := x.w0, w1 := x.w1 &&& 0xfdffffffffffffff }, 0)) := by
  rw [frexp_shape, decode_bitsOf]
  simp only [inf_test, snan_test, steer_test, gt128, zero_test, coeff_hi, UInt64.toNat_ofNat]
  have hl := x.w0.toNat_lt
  have hh := x.w1.toNat_lt
  by_cases c1 : x.w1.toNat / 2^59 % 16 = 15
  · rw [if_pos (by simpa using c1)]
    by_cases cN : x.w1.toNat / 2^58 % 32 = 31
    · obtain ⟨s, p, hd⟩ := decodeW_nan _ x.w0.toNat cN
      rw [hd]
      by_cases cS : x.w1.toNat / 2^57 % 64 = 63
      · rw [if_pos (by simpa using cS)]
      · rw [if_neg (by simpa using cS), quiet_noop _ (by omega)]
    · rw [decodeW_inf _ _ c1 cN, if_neg (by simp only [decide_eq_true_eq]; omega)]
  rw [if_neg (by simpa using c1)]
  by_cases c3 : x.w1.toNat / 2^61 % 4 = 3
  · rw [if_pos (by simpa using c3), decodeW_large _ _ c1 c3]
    simp only [frexpD, if_true]
    rw [zero_words x.w1 _ _ (exp2_u32 x.w1) (Nat.mod_lt _ (by decide))]
    rfl
  rw [if_neg (by simpa using c3)]
  by_cases cz : P34 ≤ x.w1.toNat % 2^49 * 2^64 + x.w0.toNat ∨ x.w1.toNat % 2^49 * 2^64 + x.w0.toNat = 0
  · rw [if_pos (by
      simp only [P34] at cz
      simp only [Bool.or_eq_true, decide_eq_true_eq]; omega), decodeW_small_zero _ _ c1 c3 cz]
    simp only [frexpD, if_true]
    rw [zero_words x.w1 _ _ (exp_u32 x.w1) (Nat.mod_lt _ (by decide))]
    rfl
  rw [if_neg (by
      simp only [P34] at cz
      simp only [Bool.or_eq_true, decide_eq_true_eq]; omega)]
  have c4 : ¬ P34 ≤ x.w1.toNat % 2^49 * 2^64 + x.w0.toNat := fun h => cz (Or.inl h)
  have c2 : ¬ x.w1.toNat % 2^49 * 2^64 + x.w0.toNat = 0 := fun h => cz (Or.inr h)
  have hC0 : 0 < x.w1.toNat % 2^49 * 2^64 + x.w0.toNat := by omega
  have hC : x.w1.toNat % 2^49 * 2^64 + x.w0.toNat < 2^113 := by simp only [P34] at c4; omega
  have hq : ndigits (x.w1.toNat % 2^49 * 2^64 + x.w0.toNat) ≤ 34 := by
    rw [ndigits_le_iff (by omega)]; simp only [P34] at c4; omega
  obtain ⟨Q, hQ, hk⟩ := nr_coreG (x.w1 &&& 0x1ffffffffffff) x.w0 (frexpK x) (by rw [coeff_hi]; exact hC0) (by rw [coeff_hi]; exact hC)
  rw [coeff_hi] at hQ hk
  rw [frexpIdx_eq x hC0, hk, decodeW_canon _ _ c1 c3 c4]
  simp only [frexpD, if_neg c2]
  unfold frexpK
  rw [frexp_words x Q _ hQ (by omega), frexp_exp x.w1 Q _ hQ (by omega)]


theorem frexpD_WF (s : Bool) (c : Nat) (e : Int) (h : (Datum.fin s c e).WF) : (frexpD (.fin s c e)).1.WF := by
  obtain ⟨hc, h1, h2⟩ := h
  by_cases h0 : c = 0
  · simp only [frexpD, if_pos h0]; exact ⟨by simp only [P34]; omega, h1, h2⟩
  · simp only [frexpD, if_neg h0]
    have hq : ndigits c ≤ 34 := by rw [ndigits_le_iff (by omega)]; simp only [P34] at hc; omega
    have := ndigits_pos (Nat.pos_of_ne_zero h0)
    exact ⟨hc, by simp only [eMin]; omega, by simp only [eMax]; omega⟩

/-- `frexp` of a finite datum at the level of data: the result decodes to the model's fraction, is canonical, and the
returned `i32` is the model's exponent (no wrap-around) -/
theorem frexp_finite (x : U128) {s : Bool} {c : Nat} {e : Int} (h : decode (bitsOf x) = .fin s c e) :
    ∃ r n, bid128_frexp x = .ok (r, n) ∧ decode (bitsOf r) = (frexpD (.fin s c e)).1 ∧
      isCanonical (bitsOf r) = true ∧ n.toInt = (frexpD (.fin s c e)).2 := by
  have hwf : (Datum.fin s c e).WF := by rw [← h]; exact decode_WF _
  have hwf' := frexpD_WF s c e hwf
  refine ⟨_, _, by rw [frexp_spec, h], ?_, ?_, ?_⟩
  · rw [bitsOf_ofBits _ (encode_lt hwf'), decode_encode hwf']
  · rw [bitsOf_ofBits _ (encode_lt hwf')]; exact isCanonical_encode hwf'
  · obtain ⟨hc, h1, h2⟩ := hwf
    simp only [eMin, eMax] at h1 h2
    by_cases h0 : c = 0
    · simp only [frexpD, if_pos h0]; rfl
    · simp only [frexpD, if_neg h0]
      have hq : ndigits c ≤ 34 := by rw [ndigits_le_iff (by omega)]; simp only [P34] at hc; omega
      exact Int32.toInt_ofInt_of_le (by omega) (by omega)

-- 123·10^0 ↦ 0.123 and 3; the largest coefficient; a non-canonical zero keeps its exponent; −Inf with garbage is returned as is;
-- an sNaN with a payload ≥ 10^33 only loses its signalling bit
example : bid128_frexp ⟨123, 0x3040000000000000⟩ = .ok (⟨123, 0x303a000000000000⟩, 3) ∧
    bid128_frexp ⟨0x378d8e63ffffffff, 0x8001ed09bead87c0⟩ = .ok (⟨0x378d8e63ffffffff, 0xaffded09bead87c0⟩, -6142) ∧
    bid128_frexp ⟨0x378d8e6400000000, 0x3041ed09bead87c0⟩ = .ok (⟨0, 0x3040000000000000⟩, 0) ∧
    bid128_frexp ⟨5, 0x6c10000000000007⟩ = .ok (⟨0, 0x3040000000000000⟩, 0) ∧
    bid128_frexp ⟨7, 0xf800000000000001⟩ = .ok (⟨7, 0xf800000000000001⟩, 0) ∧
    bid128_frexp ⟨7, 0x7e003fffffffffff⟩ = .ok (⟨7, 0x7c003fffffffffff⟩, 0) := by decide +kernel

/-! ## A2. `bid128_fdim` -/

theorem bitsOf_eq3 (x : U128) : Dec.C03GenCompare.bitsOf x = bitsOf x := rfl
theorem bitsOf_eq6 (x : U128) : Dec.C06GenFromInt.bitsOf x = bitsOf x := rfl
theorem ofBits_eq6 (n : Nat) : Dec.C06GenFromInt.ofBits n = ofBits n := rfl

/-- **`bid128_fdim`**, every pair of patterns, rounding mode and incoming status word: the quiet comparison `x > y` is made
with its status effect discarded (the status word is saved before and restored after);
* both operands non-NaN and not `x > y` (so `x ≤ y`; infinities, zeros and non-canonical encodings included): the result is
  exactly `+0` with exponent 0 (`0x3040…0`) and the status word is returned unchanged;
* otherwise (`x > y`, or some operand NaN): whatever the translated `bid128_add` returns for `x` and `y` with its sign bit
  flipped (a NaN `y` is passed unchanged) — result and status word. -/
theorem fdim_spec (x y : U128) (m : RoundingMode) (f : UInt32) :
    bid128_fdim x y m f =
      if (decode (bitsOf x)).isNaN = false ∧ (decode (bitsOf y)).isNaN = false ∧
          cmpD (decode (bitsOf x)) (decode (bitsOf y)) ≠ some .gt
      then .ok (⟨0, 0x3040000000000000⟩, f)
      else bid128_add x (if (decode (bitsOf y)).isNaN then y else ofBits ((bitsOf y + 2^127) % 2^128)) m f := by
  unfold bid128_fdim
  simp only [bind, Except.bind, pure, Except.pure, Dec.C03GenCompare.quiet_greater_spec, Dec.C06GenFromInt.sub_eq, bne,
    Dec.C06GenFromInt.nan_test_decode, bitsOf_eq3, bitsOf_eq6, ofBits_eq6]
  have eta : ∀ r : Except String (U128 × UInt32),
      (Except.bind r (fun v => Except.ok (v.1, v.2)) : Except String (U128 × UInt32)) = r := by
    intro r; cases r <;> rfl
  by_cases hc : (decode (bitsOf x)).isNaN = false ∧ (decode (bitsOf y)).isNaN = false ∧
      cmpD (decode (bitsOf x)) (decode (bitsOf y)) ≠ some .gt
  · rw [if_pos hc, if_pos (by
      obtain ⟨h1, h2, h3⟩ := hc
      rw [h1, h2]
      simp only [Bool.not_false, Bool.true_and, Bool.not_eq_true', beq_eq_false_iff_ne]
      exact h3)]
  · rw [if_neg hc, if_neg (by
      intro h
      apply hc
      simp only [Bool.and_eq_true, Bool.not_eq_true', beq_eq_false_iff_ne] at h
      exact ⟨h.1.1, h.1.2, h.2⟩)]
    exact eta _

-- 1 ≤ 2: `+0`, status word untouched; 2 > 1: the translated addition of 2 and −1; a NaN operand goes to the addition as it is
example : bid128_fdim ⟨1, 0x3040000000000000⟩ ⟨2, 0x3040000000000000⟩ .Upward 0x20 = .ok (⟨0, 0x3040000000000000⟩, 0x20) := by
  decide +kernel
example (m : RoundingMode) (f : UInt32) : bid128_fdim ⟨2, 0x3040000000000000⟩ ⟨1, 0x3040000000000000⟩ m f
    = bid128_add ⟨2, 0x3040000000000000⟩ ⟨1, 0xb040000000000000⟩ m f := by
  rw [fdim_spec, if_neg (by decide +kernel), if_neg (by decide +kernel)]
  exact congrFun (congrFun (congrArg (bid128_add _) (by decide +kernel)) m) f
example (m : RoundingMode) (f : UInt32) : bid128_fdim ⟨2, 0x3040000000000000⟩ ⟨1, 0x7e00000000000000⟩ m f
    = bid128_add ⟨2, 0x3040000000000000⟩ ⟨1, 0x7e00000000000000⟩ m f := by
  rw [fdim_spec, if_neg (by decide +kernel), if_pos (by decide +kernel)]

/-! ## B. `bid128_quantize` -/

/-! ### the bit tests of the front end, as facts about the decoded datum -/

theorem t_nan (x : U128) : (x.w1 &&& 0x7c00000000000000 == 0x7c00000000000000) = (decode (bitsOf x)).isNaN :=
  Except.ok.inj (is_nan_spec x)
theorem t_snan (x : U128) : (x.w1 &&& 0x7e00000000000000 == 0x7e00000000000000) = (decode (bitsOf x)).isSNaN :=
  Except.ok.inj (is_signaling_spec x)
theorem t_notfin (x : U128) : (x.w1 &&& 0x7800000000000000 == 0x7800000000000000) = !(decode (bitsOf x)).isFin := by
  have h : (x.w1 &&& 0x7800000000000000 != 0x7800000000000000) = (decode (bitsOf x)).isFin := Except.ok.inj (is_finite_spec x)
  rw [← h, bne, Bool.not_not]

theorem and7c (w : UInt64) : (w &&& 0x7c00000000000000).toNat = w.toNat / 2^58 % 32 * 2^58 :=
  toNat_and_field w _ 5 58 (by decide)

theorem decodeW_isFin (h l : Nat) : (decodeW h l).isFin = decide (h / 2^59 % 16 ≠ 15) := by
  rcases decodeW_cases h l with ⟨h1, h2, hd⟩ | ⟨h1, h2, h3, hd⟩ | ⟨h1, h2, h3, hd⟩ | ⟨h1, h2, hd⟩ | ⟨h1, h2, h3, hd⟩ | ⟨h1, h2, h3, hd⟩ <;>
    rw [hd, Bool.eq_iff_iff] <;> simp only [Datum.isFin, decide_eq_true_eq, Bool.false_eq_true, false_iff, true_iff] <;> omega
theorem decodeW_isNaN (h l : Nat) : (decodeW h l).isNaN = decide (h / 2^58 % 32 = 31) := by
  rcases decodeW_cases h l with ⟨h1, h2, hd⟩ | ⟨h1, h2, h3, hd⟩ | ⟨h1, h2, h3, hd⟩ | ⟨h1, h2, hd⟩ | ⟨h1, h2, h3, hd⟩ | ⟨h1, h2, h3, hd⟩ <;>
    rw [hd, Bool.eq_iff_iff] <;> simp only [Datum.isNaN, decide_eq_true_eq, Bool.false_eq_true, false_iff, true_iff] <;> omega
theorem decodeW_isInf (h l : Nat) : (decodeW h l).isInf = decide (h / 2^58 % 32 = 30) := by
  rcases decodeW_cases h l with ⟨h1, h2, hd⟩ | ⟨h1, h2, h3, hd⟩ | ⟨h1, h2, h3, hd⟩ | ⟨h1, h2, hd⟩ | ⟨h1, h2, h3, hd⟩ | ⟨h1, h2, h3, hd⟩ <;>
    rw [hd, Bool.eq_iff_iff] <;> simp only [Datum.isInf, decide_eq_true_eq, Bool.false_eq_true, false_iff, true_iff] <;> omega

theorem t_lt78 (x : U128) : decide (x.w1 &&& 0x7c00000000000000 < 0x7800000000000000) = (decode (bitsOf x)).isFin := by
  rw [decode_bitsOf, decodeW_isFin, decide_eq_decide, UInt64.lt_iff_toNat_lt, and7c,
    show (0x7800000000000000 : UInt64).toNat = 30 * 2^58 from by decide]
  omega
theorem t_le78 (x : U128) : decide (x.w1 &&& 0x7c00000000000000 ≤ 0x7800000000000000) = !(decode (bitsOf x)).isNaN := by
  rw [decode_bitsOf, decodeW_isNaN, Bool.eq_iff_iff]
  simp only [decide_eq_true_eq, Bool.not_eq_true', decide_eq_false_iff_not, UInt64.le_iff_toNat_le, and7c,
    show (0x7800000000000000 : UInt64).toNat = 30 * 2^58 from by decide]
  omega
theorem t_eq78 (x : U128) : (x.w1 &&& 0x7c00000000000000 == 0x7800000000000000) = (decode (bitsOf x)).isInf := by
  rw [decode_bitsOf, decodeW_isInf, Bool.eq_iff_iff]
  simp only [decide_eq_true_eq, beq_iff_eq, ← UInt64.toNat_inj, and7c,
    show (0x7800000000000000 : UInt64).toNat = 30 * 2^58 from by decide]
  omega


/-! ### the results of the front end -/

theorem and_quiet64 (w : UInt64) : (w &&& 0xfdffffffffffffff).toNat = w.toNat / 2^58 % 2^6 * 2^58 + w.toNat % 2^57 := by
  rw [UInt64.toNat_and, show (0xfdffffffffffffff : UInt64).toNat = 0xfdffffffffffffff from by decide, Dec.C06GenFromInt.and_quiet]

theorem ofBits_w0 (n : Nat) : (ofBits n).w0.toNat = n % 2^64 := by
  show (UInt64.ofNat (n % 2^64)).toNat = _
  rw [UInt64.toNat_ofNat']; omega
theorem ofBits_w1 (n : Nat) (h : n < 2^128) : (ofBits n).w1.toNat = n / 2^64 := by
  show (UInt64.ofNat (n / 2^64)).toNat = _
  rw [UInt64.toNat_ofNat']; omega

/-- clearing the signalling bit of the canonical encoding of a NaN: the canonical quiet NaN with the same sign and payload -/
theorem quiet_nan_words (s g : Bool) (p : Nat) (hp : p < P33) :
    ({ w0 := (ofBits (encode (.nan s g p))).w0, w1 := (ofBits (encode (.nan s g p))).w1 &&& 0xfdffffffffffffff } : U128)
      = ofBits (encode (.nan s false p)) := by
  have hn : encode (.nan s g p) < 2^128 := encode_lt (d := .nan s g p) hp
  apply eq_ofBits
  show _ * 2^64 + _ = _
  rw [and_quiet64, ofBits_w0, ofBits_w1 _ hn]
  simp only [P33] at hp
  cases s <;> cases g <;> simp only [encode, signBit, if_true, if_false, Bool.false_eq_true] <;> omega

theorem quiet_inf_words (s : Bool) :
    ({ w0 := (ofBits (encode (.inf s))).w0, w1 := (ofBits (encode (.inf s))).w1 &&& 0xfdffffffffffffff } : U128)
      = ofBits (encode (.inf s)) := by
  cases s <;> decide +kernel

theorem nan_words : ({ w0 := 0, w1 := 0x7c00000000000000 } : U128) = ofBits (encode defaultNaN) := by decide +kernel


/-- `bid_get_BID128_very_fast` on a sign word, an in-range biased exponent and a coefficient below 10^34 -/
theorem very_fast_words (sw : UInt64) (s : Bool) (hs : sw.toNat = if s then 2^63 else 0) (E : Int) (hE0 : 0 ≤ E)
    (hE1 : E ≤ 12287) (C : Nat) (hC : C < 10^34) :
    bid_get_BID128_very_fast sw (Int32.ofInt E) (ofBits C) = .ok (ofBits (encode (.fin s C (E - 6176)))) := by
  have hC' : C < 2^128 := by
    have : (10:Nat)^34 < 2^128 := by decide +kernel
    omega
  have hsw : sw = 0 ∨ sw = 0x8000000000000000 := by
    cases s
    · left; rw [← UInt64.toNat_inj]; simpa using hs
    · right; rw [← UInt64.toNat_inj]; simpa using hs
  have hsd : decide (sw ≠ 0) = s := by
    cases s
    · have : sw = 0 := by rw [← UInt64.toNat_inj]; simpa using hs
      subst this; rfl
    · have : sw = 0x8000000000000000 := by rw [← UInt64.toNat_inj]; simpa using hs
      subst this; rfl
  have hE : (Int32.ofInt E).toInt = E := Int32.toInt_ofInt_of_le (by omega) (by omega)
  have hb : Dec.C13GenPack.bitsOf (ofBits C) = C := bitsOf_ofBits C hC'
  obtain ⟨r, h, hr, _⟩ := Dec.C13GenPack.get_very_fast_spec sw (Int32.ofInt E) (ofBits C) hsw (by omega) (by omega)
    (by rw [hb]; exact hC)
  rw [h, hE, hb, hsd] at *
  exact congrArg Except.ok (eq_ofBits r _ hr)

theorem sign_word' (x : U128) : (x.w1 &&& 0x8000000000000000).toNat = if (decode (bitsOf x)).neg then 2^63 else 0 :=
  Dec.C06GenFromInt.sign_word x


/-! ### the routine in pieces -/

def quantDown (sign_x : UInt64) (exponent_y : Int32) (CX_ : U128) (expon_diff : Int32) (rnd_mode : RoundingMode) (pfpsf_ : UInt32) : Except String (U128 × UInt32) := do
  let mut pfpsf : UInt32 := pfpsf_
  let mut CX : U128 := CX_
  let mut CT : U256 := default
  let mut CX2 : U128 := default
  let mut CR : U128 := default
  let mut Stemp : U128 := default
  let mut res : U128 := default
  let mut REM_H : U128 := default
  let mut C2N : U128 := default
  let mut remainder_h : UInt64 := default
  let mut carry : UInt64 := default
  let mut CY64 : UInt64 := default
  let mut extra_digits : Int32 := default
  let mut amount : Int32 := default
  let mut rmode : RoundingMode := default
  let mut status : UInt32 := default
  rmode := rnd_mode
  if ((sign_x != (0 : UInt64)) && ((decide ((((UInt32.ofInt (toI rmode)) - (1 : UInt32))) < (2 : UInt32))))) then
    rmode := (← RoundingMode.fromU32 ((3 : UInt32) - ((UInt32.ofInt (toI rmode)))))
  extra_digits := (-expon_diff)
  CX := (← add_128_128 CX (← tbl128_2 Dec.Gen.BID_ROUND_CONST_TABLE_128 36 (UInt64.ofInt (toI rmode)) (UInt64.ofInt (toI extra_digits))))
  CT := (← mul_128x128_to_256 CX (← tbl128 Dec.Gen.BID_RECIPROCALS10_128 (UInt64.ofInt (toI extra_digits))))
  amount := (← tblI32 Dec.Gen.BID_RECIP_SCALE (UInt64.ofInt (toI extra_digits)))
  CX2 := { CX2 with w0 := CT.w2 }
  CX2 := { CX2 with w1 := CT.w3 }
  if (decide (amount ≥ (0x40 : Int32))) then
    CR := { CR with w1 := (0 : UInt64) }
    CR := { CR with w0 := (CX2.w1 >>> (UInt64.ofInt (toI ((amount - (0x40 : Int32)))))) }
  else
    CR := (← shr_128 CX2 amount)
  if ((rnd_mode == RoundingMode.NearestEven) && (((CR.w0 &&& (1 : UInt64))) == (1 : UInt64))) then
    remainder_h := (if (decide (amount ≥ (0x40 : Int32))) then (CX2.w0 ||| ((CX2.w1 <<< (UInt64.ofInt (toI (((0x80 : Int32) - amount))))))) else (CX2.w0 <<< (UInt64.ofInt (toI (((0x40 : Int32) - amount))))))
    if (← (if (remainder_h == (0 : UInt64)) then (do pure ((← (if (decide (CT.w1 < (← tbl128 Dec.Gen.BID_RECIPROCALS10_128 (UInt64.ofInt (toI extra_digits))).w1)) then pure true else (do pure ((← (if (CT.w1 == (← tbl128 Dec.Gen.BID_RECIPROCALS10_128 (UInt64.ofInt (toI extra_digits))).w1) then (do pure (decide (CT.w0 < (← tbl128 Dec.Gen.BID_RECIPROCALS10_128 (UInt64.ofInt (toI extra_digits))).w0))) else pure false)))))))) else pure false)) then
      CR := { CR with w0 := (CR.w0 - 1) }
  status := c_StatusFlags_BID_INEXACT_EXCEPTION
  if (decide (amount ≥ (0x40 : Int32))) then
    REM_H := { REM_H with w1 := (CX2.w1 <<< (UInt64.ofInt (toI (((0x80 : Int32) - amount))))) }
    REM_H := { REM_H with w0 := CX2.w0 }
  else
    REM_H := { REM_H with w1 := (CX2.w0 <<< (UInt64.ofInt (toI (((0x40 : Int32) - amount))))) }
    REM_H := { REM_H with w0 := (0 : UInt64) }
  let t__8 : RoundingMode := rmode
  if ((t__8 == RoundingMode.NearestEven) || (t__8 == RoundingMode.NearestAway)) then
    if (← (if ((REM_H.w1 == (0x8000000000000000 : UInt64)) && (REM_H.w0 == (0 : UInt64))) then (do pure ((← (if (decide (CT.w1 < (← tbl128 Dec.Gen.BID_RECIPROCALS10_128 (UInt64.ofInt (toI extra_digits))).w1)) then pure true else (do pure ((← (if (CT.w1 == (← tbl128 Dec.Gen.BID_RECIPROCALS10_128 (UInt64.ofInt (toI extra_digits))).w1) then (do pure (decide (CT.w0 < (← tbl128 Dec.Gen.BID_RECIPROCALS10_128 (UInt64.ofInt (toI extra_digits))).w0))) else pure false)))))))) else pure false)) then
      status := c_StatusFlags_BID_EXACT_STATUS
  else
    if ((t__8 == RoundingMode.Downward) || (t__8 == RoundingMode.TowardZero)) then
      if (← (if (((REM_H.w1 ||| REM_H.w0)) == (0 : UInt64)) then (do pure ((← (if (decide (CT.w1 < (← tbl128 Dec.Gen.BID_RECIPROCALS10_128 (UInt64.ofInt (toI extra_digits))).w1)) then pure true else (do pure ((← (if (CT.w1 == (← tbl128 Dec.Gen.BID_RECIPROCALS10_128 (UInt64.ofInt (toI extra_digits))).w1) then (do pure (decide (CT.w0 < (← tbl128 Dec.Gen.BID_RECIPROCALS10_128 (UInt64.ofInt (toI extra_digits))).w0))) else pure false)))))))) else pure false)) then
        status := c_StatusFlags_BID_EXACT_STATUS
    else
      let t__9 := (← add_carry_out CT.w0 ((← tbl128 Dec.Gen.BID_RECIPROCALS10_128 (UInt64.ofInt (toI extra_digits))).w0))
      Stemp := { Stemp with w0 := t__9.1 }
      CY64 := t__9.2
      let t__10 := (← add_carry_in_out CT.w1 ((← tbl128 Dec.Gen.BID_RECIPROCALS10_128 (UInt64.ofInt (toI extra_digits))).w1) CY64)
      Stemp := { Stemp with w1 := t__10.1 }
      carry := t__10.2
      if (decide (amount < (0x40 : Int32))) then
        C2N := { C2N with w1 := (0 : UInt64) }
        C2N := { C2N with w0 := (((UInt64.ofInt (toI 1))) <<< (UInt64.ofInt (toI amount))) }
        REM_H := { REM_H with w0 := (REM_H.w1 >>> (UInt64.ofInt (toI (((0x40 : Int32) - amount))))) }
        REM_H := { REM_H with w1 := (0 : UInt64) }
      else
        C2N := { C2N with w1 := (((UInt64.ofInt (toI 1))) <<< (UInt64.ofInt (toI ((amount - (0x40 : Int32)))))) }
        C2N := { C2N with w0 := (0 : UInt64) }
        REM_H := { REM_H with w1 := (REM_H.w1 >>> (UInt64.ofInt (toI ((0x80 : Int32) - amount)))) }
      REM_H := { REM_H with w0 := (REM_H.w0 + carry) }
      if (decide (REM_H.w0 < carry)) then
        REM_H := { REM_H with w1 := (REM_H.w1 + 1) }
      if (← unsigned_compare_ge_128 REM_H C2N) then
        status := c_StatusFlags_BID_EXACT_STATUS
  let t__11 ← set_status_flags pfpsf status
  pfpsf := t__11
  res := (← bid_get_BID128_very_fast sign_x exponent_y CR)
  return (res, pfpsf)

def quantMain (sign_x : UInt64) (exponent_x exponent_y : Int32) (CX_ : U128) (rnd_mode : RoundingMode) (pfpsf_ : UInt32) : Except String (U128 × UInt32) := do
  let mut pfpsf : UInt32 := pfpsf_
  let mut CX : U128 := CX_
  let mut CT : U256 := default
  let mut T : U128 := default
  let mut CX2 : U128 := default
  let mut CR : U128 := default
  let mut Stemp : U128 := default
  let mut res : U128 := default
  let mut REM_H : U128 := default
  let mut C2N : U128 := default
  let mut remainder_h : UInt64 := default
  let mut carry : UInt64 := default
  let mut CY64 : UInt64 := default
  let mut tempx : F32U := default
  let mut digits_x : Int32 := default
  let mut extra_digits : Int32 := default
  let mut amount : Int32 := default
  let mut expon_diff : Int32 := default
  let mut total_digits : Int32 := default
  let mut bin_expon_cx : Int32 := default
  let mut rmode : RoundingMode := default
  let mut status : UInt32 := default
  if (CX.w1 != (0 : UInt64)) then
    tempx := (F32U.ofU64 (UInt64.ofInt (toI CX.w1)))
    bin_expon_cx := (Int32.ofInt (toI (((((((tempx.bits >>> 0x17)) &&& (0xff : UInt32))) - (0x7f : UInt32)) + (0x40 : UInt32)))))
  else
    tempx := (F32U.ofU64 (UInt64.ofInt (toI CX.w0)))
    bin_expon_cx := (Int32.ofInt (toI ((((((tempx.bits >>> 0x17)) &&& (0xff : UInt32))) - (0x7f : UInt32)))))
  digits_x := (← tblI32 Dec.Gen.BID_ESTIMATE_DECIMAL_DIGITS (UInt64.ofInt (toI bin_expon_cx)))
  if (← (if (decide (CX.w1 > (← tbl128 Dec.Gen.BID_POWER10_TABLE_128 (UInt64.ofInt (toI digits_x))).w1)) then pure true else (do pure ((← (if (CX.w1 == (← tbl128 Dec.Gen.BID_POWER10_TABLE_128 (UInt64.ofInt (toI digits_x))).w1) then (do pure (decide (CX.w0 ≥ (← tbl128 Dec.Gen.BID_POWER10_TABLE_128 (UInt64.ofInt (toI digits_x))).w0))) else pure false)))))) then
    digits_x := (digits_x + 1)
  expon_diff := (exponent_x - exponent_y)
  total_digits := (digits_x + expon_diff)
  if (decide (((UInt32.ofInt (toI total_digits))) ≤ (0x22 : UInt32))) then
    if (decide (expon_diff ≥ (0 : Int32))) then
      T := (← tbl128 Dec.Gen.BID_POWER10_TABLE_128 (UInt64.ofInt (toI expon_diff)))
      CX2 := (← mul_128x128_low T CX)
      res := (← bid_get_BID128_very_fast sign_x exponent_y CX2)
      return (res, pfpsf)
    rmode := rnd_mode
    if ((sign_x != (0 : UInt64)) && ((decide ((((UInt32.ofInt (toI rmode)) - (1 : UInt32))) < (2 : UInt32))))) then
      rmode := (← RoundingMode.fromU32 ((3 : UInt32) - ((UInt32.ofInt (toI rmode)))))
    extra_digits := (-expon_diff)
    CX := (← add_128_128 CX (← tbl128_2 Dec.Gen.BID_ROUND_CONST_TABLE_128 36 (UInt64.ofInt (toI rmode)) (UInt64.ofInt (toI extra_digits))))
    CT := (← mul_128x128_to_256 CX (← tbl128 Dec.Gen.BID_RECIPROCALS10_128 (UInt64.ofInt (toI extra_digits))))
    amount := (← tblI32 Dec.Gen.BID_RECIP_SCALE (UInt64.ofInt (toI extra_digits)))
    CX2 := { CX2 with w0 := CT.w2 }
    CX2 := { CX2 with w1 := CT.w3 }
    if (decide (amount ≥ (0x40 : Int32))) then
      CR := { CR with w1 := (0 : UInt64) }
      CR := { CR with w0 := (CX2.w1 >>> (UInt64.ofInt (toI ((amount - (0x40 : Int32)))))) }
    else
      CR := (← shr_128 CX2 amount)
    if ((rnd_mode == RoundingMode.NearestEven) && (((CR.w0 &&& (1 : UInt64))) == (1 : UInt64))) then
      remainder_h := (if (decide (amount ≥ (0x40 : Int32))) then (CX2.w0 ||| ((CX2.w1 <<< (UInt64.ofInt (toI (((0x80 : Int32) - amount))))))) else (CX2.w0 <<< (UInt64.ofInt (toI (((0x40 : Int32) - amount))))))
      if (← (if (remainder_h == (0 : UInt64)) then (do pure ((← (if (decide (CT.w1 < (← tbl128 Dec.Gen.BID_RECIPROCALS10_128 (UInt64.ofInt (toI extra_digits))).w1)) then pure true else (do pure ((← (if (CT.w1 == (← tbl128 Dec.Gen.BID_RECIPROCALS10_128 (UInt64.ofInt (toI extra_digits))).w1) then (do pure (decide (CT.w0 < (← tbl128 Dec.Gen.BID_RECIPROCALS10_128 (UInt64.ofInt (toI extra_digits))).w0))) else pure false)))))))) else pure false)) then
        CR := { CR with w0 := (CR.w0 - 1) }
    status := c_StatusFlags_BID_INEXACT_EXCEPTION
    if (decide (amount ≥ (0x40 : Int32))) then
      REM_H := { REM_H with w1 := (CX2.w1 <<< (UInt64.ofInt (toI (((0x80 : Int32) - amount))))) }
      REM_H := { REM_H with w0 := CX2.w0 }
    else
      REM_H := { REM_H with w1 := (CX2.w0 <<< (UInt64.ofInt (toI (((0x40 : Int32) - amount))))) }
      REM_H := { REM_H with w0 := (0 : UInt64) }
    let t__8 : RoundingMode := rmode
    if ((t__8 == RoundingMode.NearestEven) || (t__8 == RoundingMode.NearestAway)) then
      if (← (if ((REM_H.w1 == (0x8000000000000000 : UInt64)) && (REM_H.w0 == (0 : UInt64))) then (do pure ((← (if (decide (CT.w1 < (← tbl128 Dec.Gen.BID_RECIPROCALS10_128 (UInt64.ofInt (toI extra_digits))).w1)) then pure true else (do pure ((← (if (CT.w1 == (← tbl128 Dec.Gen.BID_RECIPROCALS10_128 (UInt64.ofInt (toI extra_digits))).w1) then (do pure (decide (CT.w0 < (← tbl128 Dec.Gen.BID_RECIPROCALS10_128 (UInt64.ofInt (toI extra_digits))).w0))) else pure false)))))))) else pure false)) then
        status := c_StatusFlags_BID_EXACT_STATUS
    else
      if ((t__8 == RoundingMode.Downward) || (t__8 == RoundingMode.TowardZero)) then
        if (← (if (((REM_H.w1 ||| REM_H.w0)) == (0 : UInt64)) then (do pure ((← (if (decide (CT.w1 < (← tbl128 Dec.Gen.BID_RECIPROCALS10_128 (UInt64.ofInt (toI extra_digits))).w1)) then pure true else (do pure ((← (if (CT.w1 == (← tbl128 Dec.Gen.BID_RECIPROCALS10_128 (UInt64.ofInt (toI extra_digits))).w1) then (do pure (decide (CT.w0 < (← tbl128 Dec.Gen.BID_RECIPROCALS10_128 (UInt64.ofInt (toI extra_digits))).w0))) else pure false)))))))) else pure false)) then
          status := c_StatusFlags_BID_EXACT_STATUS
      else
        let t__9 := (← add_carry_out CT.w0 ((← tbl128 Dec.Gen.BID_RECIPROCALS10_128 (UInt64.ofInt (toI extra_digits))).w0))
        Stemp := { Stemp with w0 := t__9.1 }
        CY64 := t__9.2
        let t__10 := (← add_carry_in_out CT.w1 ((← tbl128 Dec.Gen.BID_RECIPROCALS10_128 (UInt64.ofInt (toI extra_digits))).w1) CY64)
        Stemp := { Stemp with w1 := t__10.1 }
        carry := t__10.2
        if (decide (amount < (0x40 : Int32))) then
          C2N := { C2N with w1 := (0 : UInt64) }
          C2N := { C2N with w0 := (((UInt64.ofInt (toI 1))) <<< (UInt64.ofInt (toI amount))) }
          REM_H := { REM_H with w0 := (REM_H.w1 >>> (UInt64.ofInt (toI (((0x40 : Int32) - amount))))) }
          REM_H := { REM_H with w1 := (0 : UInt64) }
        else
          C2N := { C2N with w1 := (((UInt64.ofInt (toI 1))) <<< (UInt64.ofInt (toI ((amount - (0x40 : Int32)))))) }
          C2N := { C2N with w0 := (0 : UInt64) }
          REM_H := { REM_H with w1 := (REM_H.w1 >>> (UInt64.ofInt (toI ((0x80 : Int32) - amount)))) }
        REM_H := { REM_H with w0 := (REM_H.w0 + carry) }
        if (decide (REM_H.w0 < carry)) then
          REM_H := { REM_H with w1 := (REM_H.w1 + 1) }
        if (← unsigned_compare_ge_128 REM_H C2N) then
          status := c_StatusFlags_BID_EXACT_STATUS
    let t__11 ← set_status_flags pfpsf status
    pfpsf := t__11
    res := (← bid_get_BID128_very_fast sign_x exponent_y CR)
    return (res, pfpsf)
  if (decide (total_digits < (0 : Int32))) then
    CR := { CR with w1 := (0 : UInt64) }
    CR := { CR with w0 := (0 : UInt64) }
    rmode := rnd_mode
    if ((sign_x != (0 : UInt64)) && ((decide ((((UInt32.ofInt (toI rmode)) - (1 : UInt32))) < (2 : UInt32))))) then
      rmode := (← RoundingMode.fromU32 ((3 : UInt32) - ((UInt32.ofInt (toI rmode)))))
    if (rmode == RoundingMode.Upward) then
      CR := { CR with w0 := (1 : UInt64) }
    let t__12 ← set_status_flags pfpsf c_StatusFlags_BID_INEXACT_EXCEPTION
    pfpsf := t__12
    res := (← bid_get_BID128_very_fast sign_x exponent_y CR)
    return (res, pfpsf)
  let t__13 ← set_status_flags pfpsf c_StatusFlags_BID_INVALID_EXCEPTION
  pfpsf := t__13
  res := { res with w1 := (0x7c00000000000000 : UInt64) }
  res := { res with w0 := (0 : UInt64) }
  return (res, pfpsf)

def quantMain2 (sign_x : UInt64) (exponent_x exponent_y : Int32) (CX_ : U128) (rnd_mode : RoundingMode) (pfpsf_ : UInt32) : Except String (U128 × UInt32) := do
  let mut pfpsf : UInt32 := pfpsf_
  let mut CX : U128 := CX_
  let mut CT : U256 := default
  let mut T : U128 := default
  let mut CX2 : U128 := default
  let mut CR : U128 := default
  let mut Stemp : U128 := default
  let mut res : U128 := default
  let mut REM_H : U128 := default
  let mut C2N : U128 := default
  let mut remainder_h : UInt64 := default
  let mut carry : UInt64 := default
  let mut CY64 : UInt64 := default
  let mut tempx : F32U := default
  let mut digits_x : Int32 := default
  let mut extra_digits : Int32 := default
  let mut amount : Int32 := default
  let mut expon_diff : Int32 := default
  let mut total_digits : Int32 := default
  let mut bin_expon_cx : Int32 := default
  let mut rmode : RoundingMode := default
  let mut status : UInt32 := default
  if (CX.w1 != (0 : UInt64)) then
    tempx := (F32U.ofU64 (UInt64.ofInt (toI CX.w1)))
    bin_expon_cx := (Int32.ofInt (toI (((((((tempx.bits >>> 0x17)) &&& (0xff : UInt32))) - (0x7f : UInt32)) + (0x40 : UInt32)))))
  else
    tempx := (F32U.ofU64 (UInt64.ofInt (toI CX.w0)))
    bin_expon_cx := (Int32.ofInt (toI ((((((tempx.bits >>> 0x17)) &&& (0xff : UInt32))) - (0x7f : UInt32)))))
  digits_x := (← tblI32 Dec.Gen.BID_ESTIMATE_DECIMAL_DIGITS (UInt64.ofInt (toI bin_expon_cx)))
  if (← (if (decide (CX.w1 > (← tbl128 Dec.Gen.BID_POWER10_TABLE_128 (UInt64.ofInt (toI digits_x))).w1)) then pure true else (do pure ((← (if (CX.w1 == (← tbl128 Dec.Gen.BID_POWER10_TABLE_128 (UInt64.ofInt (toI digits_x))).w1) then (do pure (decide (CX.w0 ≥ (← tbl128 Dec.Gen.BID_POWER10_TABLE_128 (UInt64.ofInt (toI digits_x))).w0))) else pure false)))))) then
    digits_x := (digits_x + 1)
  expon_diff := (exponent_x - exponent_y)
  total_digits := (digits_x + expon_diff)
  if (decide (((UInt32.ofInt (toI total_digits))) ≤ (0x22 : UInt32))) then
    if (decide (expon_diff ≥ (0 : Int32))) then
      T := (← tbl128 Dec.Gen.BID_POWER10_TABLE_128 (UInt64.ofInt (toI expon_diff)))
      CX2 := (← mul_128x128_low T CX)
      res := (← bid_get_BID128_very_fast sign_x exponent_y CX2)
      return (res, pfpsf)
    return (← quantDown sign_x exponent_y CX expon_diff rnd_mode pfpsf)
  if (decide (total_digits < (0 : Int32))) then
    CR := { CR with w1 := (0 : UInt64) }
    CR := { CR with w0 := (0 : UInt64) }
    rmode := rnd_mode
    if ((sign_x != (0 : UInt64)) && ((decide ((((UInt32.ofInt (toI rmode)) - (1 : UInt32))) < (2 : UInt32))))) then
      rmode := (← RoundingMode.fromU32 ((3 : UInt32) - ((UInt32.ofInt (toI rmode)))))
    if (rmode == RoundingMode.Upward) then
      CR := { CR with w0 := (1 : UInt64) }
    let t__12 ← set_status_flags pfpsf c_StatusFlags_BID_INEXACT_EXCEPTION
    pfpsf := t__12
    res := (← bid_get_BID128_very_fast sign_x exponent_y CR)
    return (res, pfpsf)
  let t__13 ← set_status_flags pfpsf c_StatusFlags_BID_INVALID_EXCEPTION
  pfpsf := t__13
  res := { res with w1 := (0x7c00000000000000 : UInt64) }
  res := { res with w0 := (0 : UInt64) }
  return (res, pfpsf)


def quantFront2 (x y : U128) (rnd_mode : RoundingMode) (pfpsf_ : UInt32) (t__1 t__2 : UInt64 × UInt64 × Int32 × U128) : Except String (U128 × UInt32) := do
  let mut pfpsf : UInt32 := pfpsf_
  let mut CT : U256 := default
  let mut CX : U128 := default
  let mut CY : U128 := default
  let mut T : U128 := default
  let mut CX2 : U128 := default
  let mut CR : U128 := default
  let mut Stemp : U128 := default
  let mut res : U128 := default
  let mut REM_H : U128 := default
  let mut C2N : U128 := default
  let mut sign_x : UInt64 := (0 : UInt64)
  let mut sign_y : UInt64 := (0 : UInt64)
  let mut remainder_h : UInt64 := default
  let mut carry : UInt64 := default
  let mut CY64 : UInt64 := default
  let mut valid_x : UInt64 := default
  let mut tempx : F32U := default
  let mut exponent_x : Int32 := (0 : Int32)
  let mut exponent_y : Int32 := (0 : Int32)
  let mut digits_x : Int32 := default
  let mut extra_digits : Int32 := default
  let mut amount : Int32 := default
  let mut expon_diff : Int32 := default
  let mut total_digits : Int32 := default
  let mut bin_expon_cx : Int32 := default
  let mut rmode : RoundingMode := default
  let mut status : UInt32 := default
  sign_x := t__1.2.1
  exponent_x := t__1.2.2.1
  CX := t__1.2.2.2
  valid_x := t__1.1
  sign_y := t__2.2.1
  exponent_y := t__2.2.2.1
  CY := t__2.2.2.2
  if (t__2.1 == (0 : UInt64)) then
    if (((x.w1 &&& c_SNAN_MASK64)) == c_SNAN_MASK64) then
      let t__3 ← set_status_flags pfpsf c_StatusFlags_BID_INVALID_EXCEPTION
      pfpsf := t__3
    if (((y.w1 &&& (0x7c00000000000000 : UInt64))) == (0x7c00000000000000 : UInt64)) then
      if (((y.w1 &&& (0x7e00000000000000 : UInt64))) == (0x7e00000000000000 : UInt64)) then
        let t__4 ← set_status_flags pfpsf c_StatusFlags_BID_INVALID_EXCEPTION
        pfpsf := t__4
      if (((x.w1 &&& (0x7c00000000000000 : UInt64))) != (0x7c00000000000000 : UInt64)) then
        res := { res with w1 := (CY.w1 &&& c_QUIET_MASK64) }
        res := { res with w0 := CY.w0 }
      else
        res := { res with w1 := (CX.w1 &&& c_QUIET_MASK64) }
        res := { res with w0 := CX.w0 }
      return (res, pfpsf)
    if (((y.w1 &&& (0x7800000000000000 : UInt64))) == (0x7800000000000000 : UInt64)) then
      if (decide (((x.w1 &&& (0x7c00000000000000 : UInt64))) < (0x7800000000000000 : UInt64))) then
        let t__5 ← set_status_flags pfpsf c_StatusFlags_BID_INVALID_EXCEPTION
        pfpsf := t__5
        res := { res with w1 := (0x7c00000000000000 : UInt64) }
        res := { res with w0 := (0 : UInt64) }
        return (res, pfpsf)
      else
        if (decide (((x.w1 &&& (0x7c00000000000000 : UInt64))) ≤ (0x7800000000000000 : UInt64))) then
          res := { res with w1 := (CX.w1 &&& c_QUIET_MASK64) }
          res := { res with w0 := CX.w0 }
          return (res, pfpsf)
  if (valid_x == (0 : UInt64)) then
    if (((x.w1 &&& (0x7c00000000000000 : UInt64))) == (0x7800000000000000 : UInt64)) then
      let t__6 ← set_status_flags pfpsf c_StatusFlags_BID_INVALID_EXCEPTION
      pfpsf := t__6
      res := { res with w1 := (0x7c00000000000000 : UInt64) }
      res := { res with w0 := (0 : UInt64) }
      return (res, pfpsf)
    else
      if (((x.w1 &&& (0x7c00000000000000 : UInt64))) == (0x7c00000000000000 : UInt64)) then
        if (((x.w1 &&& (0x7e00000000000000 : UInt64))) == (0x7e00000000000000 : UInt64)) then
          let t__7 ← set_status_flags pfpsf c_StatusFlags_BID_INVALID_EXCEPTION
          pfpsf := t__7
        res := { res with w1 := (CX.w1 &&& c_QUIET_MASK64) }
        res := { res with w0 := CX.w0 }
        return (res, pfpsf)
    if ((CX.w1 == (0 : UInt64)) && (CX.w0 == (0 : UInt64))) then
      res := (← bid_get_BID128_very_fast sign_x exponent_y CX)
      return (res, pfpsf)
  quantMain sign_x exponent_x exponent_y CX rnd_mode pfpsf

theorem quantize_shape (x y : U128) (m : RoundingMode) (f : UInt32) :
    bid128_quantize x y m f =
      Except.bind (unpack_BID128_value 0 0 default x) (fun t1 =>
        Except.bind (unpack_BID128_value 0 0 default y) (fun t2 => quantFront2 x y m f t1 t2)) := by
  rfl

theorem quantMain_shape (sx : UInt64) (ex ey : Int32) (CX : U128) (m : RoundingMode) (f : UInt32) :
    quantMain sx ex ey CX m f = quantMain2 sx ex ey CX m f := by
  unfold quantMain quantMain2
  simp only [bind_pure]
  rfl


/-- what the NaN rule and `quantizeD` together demand -/
def quantExpect (m : Mode) (dx dy : Datum) : Datum × Flags :=
  if dx.isNaN then (quietNaN dx, if dx.isSNaN || dy.isSNaN then fInvalid else 0)
  else if dy.isNaN then (quietNaN dy, if dy.isSNaN then fInvalid else 0)
  else quantizeD m dx dy

theorem valid_zero (c : Nat) (hc : c < 2^128) : ((ofBits c).w0 ||| (ofBits c).w1 == 0) = decide (c = 0) := by
  rw [Bool.eq_iff_iff, beq_iff_eq, decide_eq_true_eq, ← UInt64.toNat_inj, UInt64.toNat_or, ofBits_w0, ofBits_w1 _ hc,
    UInt64.toNat_zero, Nat.or_eq_zero_iff]
  omega

theorem coeff_zero (c : Nat) (hc : c < 2^128) : ((ofBits c).w1 == 0 && (ofBits c).w0 == 0) = decide (c = 0) := by
  rw [zero128, ofBits_w0, ofBits_w1 _ hc, decide_eq_decide]
  omega

theorem or11 (f : UInt32) : f ||| 1 ||| 1 = f ||| 1 := by rw [UInt32.or_assoc]; rfl

/-- `Except.bind` on a value, as a rewriting step WITH a proof term (the definitional `simp` step makes the kernel compare
the continuation with the next `bind`, argument by argument, which explodes) -/
theorem bind_ok {α β : Type} (v : α) (F : α → Except String β) : Except.bind (Except.ok v) F = F v := id rfl

theorem bitsOf_fn6 : @Dec.C06GenFromInt.bitsOf = @bitsOf := rfl
theorem ofBits_fn6 : @Dec.C06GenFromInt.ofBits = @ofBits := rfl

theorem flag0 (f : UInt32) : f ||| UInt32.ofNat 0 = f := UInt32.or_zero
theorem flag1 (f : UInt32) : f ||| UInt32.ofNat 1 = f ||| 1 := rfl

theorem tests_nan (x : U128) {s g : Bool} {p : Nat} (hd : decode (bitsOf x) = .nan s g p) :
    (x.w1 &&& 0x7c00000000000000 == 0x7c00000000000000) = true ∧
    (x.w1 &&& 0x7e00000000000000 == 0x7e00000000000000) = g ∧
    (x.w1 &&& 0x7800000000000000 == 0x7800000000000000) = true ∧
    decide (x.w1 &&& 0x7c00000000000000 < 0x7800000000000000) = false ∧
    decide (x.w1 &&& 0x7c00000000000000 ≤ 0x7800000000000000) = false ∧
    (x.w1 &&& 0x7c00000000000000 == 0x7800000000000000) = false := by
  rw [t_nan, t_snan, t_notfin, t_lt78, t_le78, t_eq78, hd]
  exact ⟨rfl, rfl, rfl, rfl, rfl, rfl⟩

theorem tests_inf (x : U128) {s : Bool} (hd : decode (bitsOf x) = .inf s) :
    (x.w1 &&& 0x7c00000000000000 == 0x7c00000000000000) = false ∧
    (x.w1 &&& 0x7e00000000000000 == 0x7e00000000000000) = false ∧
    (x.w1 &&& 0x7800000000000000 == 0x7800000000000000) = true ∧
    decide (x.w1 &&& 0x7c00000000000000 < 0x7800000000000000) = false ∧
    decide (x.w1 &&& 0x7c00000000000000 ≤ 0x7800000000000000) = true ∧
    (x.w1 &&& 0x7c00000000000000 == 0x7800000000000000) = true := by
  rw [t_nan, t_snan, t_notfin, t_lt78, t_le78, t_eq78, hd]
  exact ⟨rfl, rfl, rfl, rfl, rfl, rfl⟩

theorem tests_fin (x : U128) {s : Bool} {c : Nat} {e : Int} (hd : decode (bitsOf x) = .fin s c e) :
    (x.w1 &&& 0x7c00000000000000 == 0x7c00000000000000) = false ∧
    (x.w1 &&& 0x7e00000000000000 == 0x7e00000000000000) = false ∧
    (x.w1 &&& 0x7800000000000000 == 0x7800000000000000) = false ∧
    decide (x.w1 &&& 0x7c00000000000000 < 0x7800000000000000) = true ∧
    decide (x.w1 &&& 0x7c00000000000000 ≤ 0x7800000000000000) = true ∧
    (x.w1 &&& 0x7c00000000000000 == 0x7800000000000000) = false := by
  rw [t_nan, t_snan, t_notfin, t_lt78, t_le78, t_eq78, hd]
  exact ⟨rfl, rfl, rfl, rfl, rfl, rfl⟩

/-- unfold the front end -/
macro "front_unfold" : tactic => `(tactic| (
  simp only []
  unfold quantFront2
  delta c_SNAN_MASK64 c_QUIET_MASK64 c_StatusFlags_BID_INVALID_EXCEPTION c_DEC_FE_INVALID
  simp only [bind, Except.bind, pure, Except.pure, set_status_flags, bne]))

theorem quantize_front_special (x y : U128) (m : RoundingMode) (f : UInt32)
    (h : ¬ ((decode (bitsOf x)).isFin = true ∧ (decode (bitsOf x)).isZero = false ∧ (decode (bitsOf y)).isFin = true)) :
    bid128_quantize x y m f = .ok (ofBits (encode (quantExpect (Dec.C13GenPack.md m) (decode (bitsOf x)) (decode (bitsOf y))).1),
      f ||| UInt32.ofNat (quantExpect (Dec.C13GenPack.md m) (decode (bitsOf x)) (decode (bitsOf y))).2) := by
  rw [quantize_shape, Dec.C06GenFromInt.unpack_value_spec, bind_ok, Dec.C06GenFromInt.unpack_value_spec, bind_ok,
    bitsOf_fn6, ofBits_fn6]
  have wx := decode_WF (bitsOf x)
  have wy := decode_WF (bitsOf y)
  have sgx := sign_word' x
  unfold quantExpect
  cases hdx : decode (bitsOf x) with
  | nan sx gx px =>
    have cx : canon (bitsOf x) = encode (.nan sx gx px) := by unfold canon; rw [hdx]
    rw [hdx] at wx
    obtain ⟨a1, a2, a3, a4, a5, a6⟩ := tests_nan x hdx
    cases hdy : decode (bitsOf y) with
    | nan sy gy py =>
      have cy : canon (bitsOf y) = encode (.nan sy gy py) := by unfold canon; rw [hdy]
      rw [hdy] at wy
      obtain ⟨b1, b2, b3, b4, b5, b6⟩ := tests_nan y hdy
      rw [cx, cy]
      front_unfold
      simp only [a1, a2, a3, a4, a5, a6, b1, b2, b3, beq_self_eq_true, if_true, if_false,
        Bool.not_true, Bool.not_false, Bool.false_eq_true, or11, quiet_nan_words _ _ _ wx, quiet_nan_words _ _ _ wy]
      simp only [Datum.isNaN, Datum.isSNaN, quietNaN, if_true]
      cases gx <;> cases gy <;>
        simp only [if_true, if_false, Bool.false_eq_true, Bool.or_self, Bool.or_true, Bool.true_or, Bool.or_false, fInvalid,
          flag0, flag1]
    | inf sy =>
      have cy : canon (bitsOf y) = encode (.inf sy) := by unfold canon; rw [hdy]
      obtain ⟨b1, b2, b3, b4, b5, b6⟩ := tests_inf y hdy
      rw [cx, cy]
      front_unfold
      simp only [a1, a2, a3, a4, a5, a6, b1, b2, b3, beq_self_eq_true, if_true, if_false,
        Bool.not_true, Bool.not_false, Bool.false_eq_true, or11, quiet_nan_words _ _ _ wx]
      simp only [Datum.isNaN, Datum.isSNaN, quietNaN, if_true]
      cases gx <;>
        simp only [if_true, if_false, Bool.false_eq_true, Bool.or_self, Bool.or_true, Bool.true_or, Bool.or_false, fInvalid,
          flag0, flag1]
    | fin sy cy ey =>
      have hcy : cy < 2^128 := by rw [hdy] at wy; have := wy.1; simp only [P34] at this; omega
      obtain ⟨b1, b2, b3, b4, b5, b6⟩ := tests_fin y hdy
      rw [cx]
      front_unfold
      simp only [a1, a2, a3, a4, a5, a6, b1, b2, b3, beq_self_eq_true, if_true, if_false,
        Bool.not_true, Bool.not_false, Bool.false_eq_true, or11, quiet_nan_words _ _ _ wx, valid_zero _ hcy]
      simp only [Datum.isNaN, Datum.isSNaN, quietNaN, if_true]
      cases gx <;> by_cases hz : cy = 0 <;>
        simp only [hz, decide_true, decide_false, if_true, if_false, Bool.false_eq_true, Bool.or_self, Bool.or_true, Bool.true_or,
          Bool.or_false, fInvalid, flag0, flag1, or11]
  | inf sx =>
    have cx : canon (bitsOf x) = encode (.inf sx) := by unfold canon; rw [hdx]
    obtain ⟨a1, a2, a3, a4, a5, a6⟩ := tests_inf x hdx
    cases hdy : decode (bitsOf y) with
    | nan sy gy py =>
      have cy : canon (bitsOf y) = encode (.nan sy gy py) := by unfold canon; rw [hdy]
      rw [hdy] at wy
      obtain ⟨b1, b2, b3, b4, b5, b6⟩ := tests_nan y hdy
      rw [cx, cy]
      front_unfold
      simp only [a1, a2, a3, a4, a5, a6, b1, b2, b3, beq_self_eq_true, if_true, if_false,
        Bool.not_true, Bool.not_false, Bool.false_eq_true, or11, quiet_nan_words _ _ _ wy]
      simp only [Datum.isNaN, Datum.isSNaN, quietNaN, if_true, if_false, Bool.false_eq_true]
      cases gy <;>
        simp only [if_true, if_false, Bool.false_eq_true, fInvalid, flag0, flag1]
    | inf sy =>
      have cy : canon (bitsOf y) = encode (.inf sy) := by unfold canon; rw [hdy]
      obtain ⟨b1, b2, b3, b4, b5, b6⟩ := tests_inf y hdy
      rw [cx, cy]
      front_unfold
      simp only [a1, a2, a3, a4, a5, a6, b1, b2, b3, beq_self_eq_true, if_true, if_false,
        Bool.not_true, Bool.not_false, Bool.false_eq_true, or11, quiet_inf_words]
      simp only [Datum.isNaN, Datum.isSNaN, quantizeD, if_true, if_false, Bool.false_eq_true, flag0]
    | fin sy cy ey =>
      have hcy : cy < 2^128 := by rw [hdy] at wy; have := wy.1; simp only [P34] at this; omega
      obtain ⟨b1, b2, b3, b4, b5, b6⟩ := tests_fin y hdy
      rw [cx]
      front_unfold
      simp only [a1, a2, a3, a4, a5, a6, b1, b2, b3, beq_self_eq_true, if_true, if_false,
        Bool.not_true, Bool.not_false, Bool.false_eq_true, or11, valid_zero _ hcy, nan_words]
      simp only [Datum.isNaN, Datum.isSNaN, quantizeD, invalidResult, if_true, if_false, Bool.false_eq_true, fInvalid, flag1]
      by_cases hz : cy = 0 <;> simp only [hz, decide_true, decide_false, if_true, if_false, Bool.false_eq_true]
  | fin sx cx ex =>
    have hcx : cx < 2^128 := by rw [hdx] at wx; have := wx.1; simp only [P34] at this; omega
    obtain ⟨a1, a2, a3, a4, a5, a6⟩ := tests_fin x hdx
    cases hdy : decode (bitsOf y) with
    | nan sy gy py =>
      have cy : canon (bitsOf y) = encode (.nan sy gy py) := by unfold canon; rw [hdy]
      rw [hdy] at wy
      obtain ⟨b1, b2, b3, b4, b5, b6⟩ := tests_nan y hdy
      rw [cy]
      front_unfold
      simp only [a1, a2, a3, a4, a5, a6, b1, b2, b3, beq_self_eq_true, if_true, if_false,
        Bool.not_true, Bool.not_false, Bool.false_eq_true, or11, quiet_nan_words _ _ _ wy]
      simp only [Datum.isNaN, Datum.isSNaN, quietNaN, if_true, if_false, Bool.false_eq_true]
      cases gy <;>
        simp only [if_true, if_false, Bool.false_eq_true, fInvalid, flag0, flag1]
    | inf sy =>
      have cy : canon (bitsOf y) = encode (.inf sy) := by unfold canon; rw [hdy]
      obtain ⟨b1, b2, b3, b4, b5, b6⟩ := tests_inf y hdy
      rw [cy]
      front_unfold
      simp only [a1, a2, a3, a4, a5, a6, b1, b2, b3, beq_self_eq_true, if_true, if_false,
        Bool.not_true, Bool.not_false, Bool.false_eq_true, or11, nan_words]
      simp only [Datum.isNaN, Datum.isSNaN, quantizeD, invalidResult, if_true, if_false, Bool.false_eq_true, fInvalid, flag1]
    | fin sy cy ey =>
      have hcy : cy < 2^128 := by rw [hdy] at wy; have := wy.1; simp only [P34] at this; omega
      obtain ⟨b1, b2, b3, b4, b5, b6⟩ := tests_fin y hdy
      have hz : cx = 0 := by
        rw [hdx, hdy] at h
        simp only [Datum.isFin, Datum.isZero, true_and, and_true, beq_eq_false_iff_ne, ne_eq, not_not] at h
        exact h
      subst hz
      rw [hdx] at sgx wx
      rw [hdy] at wy
      have hey := wy.2
      simp only [eMin, eMax] at hey
      have hvf := very_fast_words (x.w1 &&& 0x8000000000000000) sx sgx (ey + 6176) (by omega) (by omega) 0 (by decide)
      front_unfold
      simp only [a1, a2, a3, a4, a5, a6, b1, b2, b3, beq_self_eq_true, if_true, if_false,
        Bool.not_true, Bool.not_false, Bool.false_eq_true, or11, valid_zero _ hcy, valid_zero 0 (by decide),
        coeff_zero 0 (by decide), decide_true, hvf]
      simp only [Datum.isNaN, Datum.isSNaN, quantizeD, if_true, if_false, Bool.false_eq_true, flag0]
      have e : ey + 6176 - 6176 = ey := by omega
      by_cases hz : cy = 0 <;> simp only [hz, decide_true, decide_false, if_true, if_false, Bool.false_eq_true, e]


/-- both operands finite, `x` non-zero: the front end hands over to the numeric part -/
theorem quantize_front_main (x y : U128) (m : RoundingMode) (f : UInt32) {sx sy : Bool} {cx cy : Nat} {ex ey : Int}
    (hdx : decode (bitsOf x) = .fin sx cx ex) (hdy : decode (bitsOf y) = .fin sy cy ey) (hc : cx ≠ 0) :
    bid128_quantize x y m f =
      quantMain (x.w1 &&& 0x8000000000000000) (Int32.ofInt (ex + 6176)) (Int32.ofInt (ey + 6176)) (ofBits cx) m f := by
  rw [quantize_shape, Dec.C06GenFromInt.unpack_value_spec, bind_ok, Dec.C06GenFromInt.unpack_value_spec, bind_ok,
    bitsOf_fn6, ofBits_fn6]
  have wx := decode_WF (bitsOf x)
  have wy := decode_WF (bitsOf y)
  rw [hdx] at wx; rw [hdy] at wy
  have hcx : cx < 2^128 := by have := wx.1; simp only [P34] at this; omega
  have hcy : cy < 2^128 := by have := wy.1; simp only [P34] at this; omega
  obtain ⟨a1, a2, a3, a4, a5, a6⟩ := tests_fin x hdx
  obtain ⟨b1, b2, b3, b4, b5, b6⟩ := tests_fin y hdy
  rw [hdx, hdy]
  front_unfold
  simp only [a1, a2, a3, a4, a5, a6, b1, b2, b3, beq_self_eq_true, if_true, if_false,
    Bool.not_true, Bool.not_false, Bool.false_eq_true, or11, valid_zero _ hcy, valid_zero _ hcx, coeff_zero _ hcx, hc, decide_false]
  by_cases hz : cy = 0 <;> simp only [hz, decide_true, decide_false, if_true, if_false, Bool.false_eq_true]

/-! ### B.2 the scale-down branch -/


/-! ### shifting a 128-bit quantity held in two words: the arithmetic -/

theorem pow_split (a b : Nat) (h : b ≤ a) : 2^a = 2^b * 2^(a-b) := by
  rw [← Nat.pow_add]; congr 1; omega

/-- left shift inside a word keeps the low `t` bits, left-aligned -/
theorem shl_keep (w t : Nat) (ht : t ≤ 64) : w * 2^(64-t) % 2^64 = (w % 2^t) * 2^(64-t) := by
  rw [pow_split 64 t ht, Nat.mul_mod_mul_right]

theorem shl_back (w t : Nat) : ((w % 2^t) * 2^(64-t)) / 2^(64-t) = w % 2^t :=
  Nat.mul_div_cancel _ (Nat.pow_pos (by decide))

/-- quotient and remainder of a two-word quantity by `2^s`, `s ≤ 64` -/
theorem two_word_lo (w3 w2 s : Nat) (h2 : w2 < 2^64) (hs : s ≤ 64) :
    (w3 * 2^64 + w2) / 2^s = w3 * 2^(64-s) + w2 / 2^s ∧ (w3 * 2^64 + w2) % 2^s = w2 % 2^s := by
  have e := pow_split 64 s hs
  have hp : 0 < 2^s := Nat.pow_pos (by decide)
  rw [e]
  have e2 : w3 * (2^s * 2^(64-s)) + w2 = w2 + 2^s * (w3 * 2^(64-s)) := by ring
  rw [e2]
  exact ⟨by rw [Nat.add_mul_div_left _ _ hp]; omega, Nat.add_mul_mod_self_left _ _ _⟩

/-- quotient and remainder of a two-word quantity by `2^(64+t)` -/
theorem two_word_hi (w3 w2 t : Nat) (h2 : w2 < 2^64) :
    (w3 * 2^64 + w2) / 2^(64+t) = w3 / 2^t ∧ (w3 * 2^64 + w2) % 2^(64+t) = (w3 % 2^t) * 2^64 + w2 := by
  have hp : 0 < 2^t := Nat.pow_pos (by decide)
  have hdm := Nat.div_add_mod w3 (2^t)
  have hr : w3 % 2^t < 2^t := Nat.mod_lt _ hp
  rw [Nat.pow_add]
  generalize w3 / 2^t = q at *
  generalize w3 % 2^t = r at *
  generalize 2^t = T at *
  subst hdm
  have e : (T * q + r) * 2^64 + w2 = (r * 2^64 + w2) + 2^64 * T * q := by ring
  have hlt : r * 2^64 + w2 < 2^64 * T := by nlinarith
  rw [e]
  exact ⟨by rw [Nat.add_mul_div_left _ _ (by positivity), Nat.div_eq_of_lt hlt, Nat.zero_add],
    by rw [Nat.add_mul_mod_self_left, Nat.mod_eq_of_lt hlt]⟩

/-- `__shr_128` word by word: `(w2 >> s) | (w3 << (64−s))`, `w3 >> s` is the quotient by `2^s` (`1 ≤ s ≤ 63`) -/
theorem shr128_words (w3 w2 s : Nat) (h3 : w3 < 2^64) (h2 : w2 < 2^64) (hs1 : 1 ≤ s) (hs : s ≤ 63) :
    (w3 / 2^s) * 2^64 + (w2 / 2^s ||| w3 * 2^(64-s) % 2^64) = (w3 * 2^64 + w2) / 2^s := by
  rw [shl_keep w3 s (by omega), (two_word_lo w3 w2 s h2 (by omega)).1]
  have hp : 0 < 2^s := Nat.pow_pos (by decide)
  have e := pow_split 64 s (by omega)
  have hlt : w2 / 2^s < 2^(64-s) := by
    rw [Nat.div_lt_iff_lt_mul hp, Nat.mul_comm, ← e]; exact h2
  rw [Nat.or_comm, Nat.mul_comm (w3 % 2^s), ← Nat.two_pow_add_eq_or_of_lt hlt]
  have hdm := Nat.div_add_mod w3 (2^s)
  generalize w3 / 2^s = q at *
  generalize w3 % 2^s = r at *
  rw [← hdm, e]
  ring

def quantDownF (sign_x : UInt64) (exponent_y : Int32) (rmode : RoundingMode) (pfpsf_ : UInt32) (CT : U256) (CR REM_H_ : U128) (amount extra_digits : Int32) : Except String (U128 × UInt32) := do
  let mut pfpsf : UInt32 := pfpsf_
  let mut REM_H : U128 := REM_H_
  let mut Stemp : U128 := default
  let mut res : U128 := default
  let mut C2N : U128 := default
  let mut carry : UInt64 := default
  let mut CY64 : UInt64 := default
  let mut status : UInt32 := c_StatusFlags_BID_INEXACT_EXCEPTION
  let t__8 : RoundingMode := rmode
  if ((t__8 == RoundingMode.NearestEven) || (t__8 == RoundingMode.NearestAway)) then
    if (← (if ((REM_H.w1 == (0x8000000000000000 : UInt64)) && (REM_H.w0 == (0 : UInt64))) then (do pure ((← (if (decide (CT.w1 < (← tbl128 Dec.Gen.BID_RECIPROCALS10_128 (UInt64.ofInt (toI extra_digits))).w1)) then pure true else (do pure ((← (if (CT.w1 == (← tbl128 Dec.Gen.BID_RECIPROCALS10_128 (UInt64.ofInt (toI extra_digits))).w1) then (do pure (decide (CT.w0 < (← tbl128 Dec.Gen.BID_RECIPROCALS10_128 (UInt64.ofInt (toI extra_digits))).w0))) else pure false)))))))) else pure false)) then
      status := c_StatusFlags_BID_EXACT_STATUS
  else
    if ((t__8 == RoundingMode.Downward) || (t__8 == RoundingMode.TowardZero)) then
      if (← (if (((REM_H.w1 ||| REM_H.w0)) == (0 : UInt64)) then (do pure ((← (if (decide (CT.w1 < (← tbl128 Dec.Gen.BID_RECIPROCALS10_128 (UInt64.ofInt (toI extra_digits))).w1)) then pure true else (do pure ((← (if (CT.w1 == (← tbl128 Dec.Gen.BID_RECIPROCALS10_128 (UInt64.ofInt (toI extra_digits))).w1) then (do pure (decide (CT.w0 < (← tbl128 Dec.Gen.BID_RECIPROCALS10_128 (UInt64.ofInt (toI extra_digits))).w0))) else pure false)))))))) else pure false)) then
        status := c_StatusFlags_BID_EXACT_STATUS
    else
      let t__9 := (← add_carry_out CT.w0 ((← tbl128 Dec.Gen.BID_RECIPROCALS10_128 (UInt64.ofInt (toI extra_digits))).w0))
      Stemp := { Stemp with w0 := t__9.1 }
      CY64 := t__9.2
      let t__10 := (← add_carry_in_out CT.w1 ((← tbl128 Dec.Gen.BID_RECIPROCALS10_128 (UInt64.ofInt (toI extra_digits))).w1) CY64)
      Stemp := { Stemp with w1 := t__10.1 }
      carry := t__10.2
      if (decide (amount < (0x40 : Int32))) then
        C2N := { C2N with w1 := (0 : UInt64) }
        C2N := { C2N with w0 := (((UInt64.ofInt (toI 1))) <<< (UInt64.ofInt (toI amount))) }
        REM_H := { REM_H with w0 := (REM_H.w1 >>> (UInt64.ofInt (toI (((0x40 : Int32) - amount))))) }
        REM_H := { REM_H with w1 := (0 : UInt64) }
      else
        C2N := { C2N with w1 := (((UInt64.ofInt (toI 1))) <<< (UInt64.ofInt (toI ((amount - (0x40 : Int32)))))) }
        C2N := { C2N with w0 := (0 : UInt64) }
        REM_H := { REM_H with w1 := (REM_H.w1 >>> (UInt64.ofInt (toI ((0x80 : Int32) - amount)))) }
      REM_H := { REM_H with w0 := (REM_H.w0 + carry) }
      if (decide (REM_H.w0 < carry)) then
        REM_H := { REM_H with w1 := (REM_H.w1 + 1) }
      if (← unsigned_compare_ge_128 REM_H C2N) then
        status := c_StatusFlags_BID_EXACT_STATUS
  let t__11 ← set_status_flags pfpsf status
  pfpsf := t__11
  res := (← bid_get_BID128_very_fast sign_x exponent_y CR)
  return (res, pfpsf)

def quantDownE (sign_x : UInt64) (exponent_y : Int32) (rmode : RoundingMode) (pfpsf : UInt32) (CT : U256) (CX2 CR : U128) (amount extra_digits : Int32) : Except String (U128 × UInt32) := do
  let mut REM_H : U128 := default
  if (decide (amount ≥ (0x40 : Int32))) then
    REM_H := { REM_H with w1 := (CX2.w1 <<< (UInt64.ofInt (toI (((0x80 : Int32) - amount))))) }
    REM_H := { REM_H with w0 := CX2.w0 }
  else
    REM_H := { REM_H with w1 := (CX2.w0 <<< (UInt64.ofInt (toI (((0x40 : Int32) - amount))))) }
    REM_H := { REM_H with w0 := (0 : UInt64) }
  quantDownF sign_x exponent_y rmode pfpsf CT CR REM_H amount extra_digits

def quantDownD (sign_x : UInt64) (exponent_y : Int32) (rnd_mode rmode : RoundingMode) (pfpsf : UInt32) (CT : U256) (CX2 CR_ : U128) (amount extra_digits : Int32) : Except String (U128 × UInt32) := do
  let mut CR : U128 := CR_
  let mut remainder_h : UInt64 := default
  if ((rnd_mode == RoundingMode.NearestEven) && (((CR.w0 &&& (1 : UInt64))) == (1 : UInt64))) then
    remainder_h := (if (decide (amount ≥ (0x40 : Int32))) then (CX2.w0 ||| ((CX2.w1 <<< (UInt64.ofInt (toI (((0x80 : Int32) - amount))))))) else (CX2.w0 <<< (UInt64.ofInt (toI (((0x40 : Int32) - amount))))))
    if (← (if (remainder_h == (0 : UInt64)) then (do pure ((← (if (decide (CT.w1 < (← tbl128 Dec.Gen.BID_RECIPROCALS10_128 (UInt64.ofInt (toI extra_digits))).w1)) then pure true else (do pure ((← (if (CT.w1 == (← tbl128 Dec.Gen.BID_RECIPROCALS10_128 (UInt64.ofInt (toI extra_digits))).w1) then (do pure (decide (CT.w0 < (← tbl128 Dec.Gen.BID_RECIPROCALS10_128 (UInt64.ofInt (toI extra_digits))).w0))) else pure false)))))))) else pure false)) then
      CR := { CR with w0 := (CR.w0 - 1) }
  quantDownE sign_x exponent_y rmode pfpsf CT CX2 CR amount extra_digits

def quantDownC (sign_x : UInt64) (exponent_y : Int32) (rnd_mode rmode : RoundingMode) (pfpsf : UInt32) (CT : U256) (CX2 : U128) (amount extra_digits : Int32) : Except String (U128 × UInt32) := do
  let mut CR : U128 := default
  if (decide (amount ≥ (0x40 : Int32))) then
    CR := { CR with w1 := (0 : UInt64) }
    CR := { CR with w0 := (CX2.w1 >>> (UInt64.ofInt (toI ((amount - (0x40 : Int32)))))) }
  else
    CR := (← shr_128 CX2 amount)
  quantDownD sign_x exponent_y rnd_mode rmode pfpsf CT CX2 CR amount extra_digits

def quantDownB (sign_x : UInt64) (exponent_y : Int32) (CX_ : U128) (expon_diff : Int32) (rnd_mode rmode : RoundingMode) (pfpsf : UInt32) : Except String (U128 × UInt32) := do
  let mut CX : U128 := CX_
  let mut CT : U256 := default
  let mut CX2 : U128 := default
  let mut extra_digits : Int32 := default
  let mut amount : Int32 := default
  extra_digits := (-expon_diff)
  CX := (← add_128_128 CX (← tbl128_2 Dec.Gen.BID_ROUND_CONST_TABLE_128 36 (UInt64.ofInt (toI rmode)) (UInt64.ofInt (toI extra_digits))))
  CT := (← mul_128x128_to_256 CX (← tbl128 Dec.Gen.BID_RECIPROCALS10_128 (UInt64.ofInt (toI extra_digits))))
  amount := (← tblI32 Dec.Gen.BID_RECIP_SCALE (UInt64.ofInt (toI extra_digits)))
  CX2 := { CX2 with w0 := CT.w2 }
  CX2 := { CX2 with w1 := CT.w3 }
  quantDownC sign_x exponent_y rnd_mode rmode pfpsf CT CX2 amount extra_digits

def quantDownA (sign_x : UInt64) (exponent_y : Int32) (CX : U128) (expon_diff : Int32) (rnd_mode : RoundingMode) (pfpsf : UInt32) : Except String (U128 × UInt32) := do
  let mut rmode : RoundingMode := default
  rmode := rnd_mode
  if ((sign_x != (0 : UInt64)) && ((decide ((((UInt32.ofInt (toI rmode)) - (1 : UInt32))) < (2 : UInt32))))) then
    rmode := (← RoundingMode.fromU32 ((3 : UInt32) - ((UInt32.ofInt (toI rmode)))))
  quantDownB sign_x exponent_y CX expon_diff rnd_mode rmode pfpsf

theorem quantDown_shape (sx : UInt64) (ey : Int32) (CX : U128) (diff : Int32) (m : RoundingMode) (f : UInt32) :
    quantDown sx ey CX diff m f = quantDownA sx ey CX diff m f := by
  rfl


/-- the open-coded comparison `(CT.w1, CT.w0) < BID_RECIPROCALS10_128[extra]` with its three table reads -/
theorem ltK_chain (idx : UInt64) (K : U128) (hK : tbl128 Dec.Gen.BID_RECIPROCALS10_128 idx = .ok K) (a1 a0 : UInt64) :
    ((tbl128 Dec.Gen.BID_RECIPROCALS10_128 idx).bind fun v =>
      if decide (a1 < v.w1) = true then Except.ok true
      else (tbl128 Dec.Gen.BID_RECIPROCALS10_128 idx).bind fun v =>
        if (a1 == v.w1) = true then
          (tbl128 Dec.Gen.BID_RECIPROCALS10_128 idx).bind fun v => Except.ok (decide (a0 < v.w0))
        else Except.ok false)
      = Except.ok (decide (a1.toNat * 2^64 + a0.toNat < bitsOf K)) := by
  have h0 := a0.toNat_lt; have h1 := K.w0.toNat_lt
  rw [hK, bind_ok]
  unfold bitsOf
  by_cases hA : a1 < K.w1
  · rw [if_pos (by simpa using hA)]
    rw [UInt64.lt_iff_toNat_lt] at hA
    exact congrArg Except.ok (by rw [eq_comm, decide_eq_true_eq]; omega)
  · rw [if_neg (by simpa using hA), bind_ok]
    rw [UInt64.lt_iff_toNat_lt] at hA
    by_cases hB : a1 = K.w1
    · rw [if_pos (by simpa using hB), bind_ok]
      refine congrArg Except.ok ?_
      rw [decide_eq_decide, UInt64.lt_iff_toNat_lt, hB]; omega
    · rw [if_neg (by simpa using hB)]
      rw [← UInt64.toNat_inj] at hB
      exact congrArg Except.ok (by rw [eq_comm, decide_eq_false_iff_not]; omega)

/-- the end of the scale-down branch: pack `CR` under the sign and exponent, raise inexact unless `exact` -/
def downFin (sx : UInt64) (ey : Int32) (CR : U128) (f : UInt32) (exact : Bool) : Except String (U128 × UInt32) :=
  (bid_get_BID128_very_fast sx ey CR).bind fun r => Except.ok (r, if exact then f else f ||| 32)

theorem downFin_ite (sx : UInt64) (ey : Int32) (CR : U128) (f : UInt32) (b : Bool) :
    (if b = true then
        (Except.ok (f ||| 0)).bind fun t => (bid_get_BID128_very_fast sx ey CR).bind fun r => Except.ok (r, t)
      else (Except.ok (f ||| 32)).bind fun t => (bid_get_BID128_very_fast sx ey CR).bind fun r => Except.ok (r, t))
      = downFin sx ey CR f b := by
  unfold downFin
  cases b
  · rw [if_neg (by decide), bind_ok]; rfl
  · rw [if_pos rfl, bind_ok, UInt32.or_zero]; rfl

theorem guard_chain (c : Bool) (X : Except String Bool) (b : Bool) (hX : X = .ok b) (G : Bool → Except String (U128 × UInt32)) :
    ((if c = true then X else Except.ok false).bind G) = G (c && b) := by
  cases c
  · rw [if_neg (by decide), bind_ok]; rfl
  · rw [if_pos rfl, hX, bind_ok]; rfl

open Dec.C13GenPack (md)

theorem shr_i32 (w : UInt64) (j : Int32) (n : Nat) (hj : j.toInt = n) (hn : n ≤ 63) :
    (w >>> UInt64.ofInt (toI j)).toNat = w.toNat / 2^n := by
  rw [Dec.C13GenPack.shr_var w j (by omega) (by omega), hj]
  show w.toNat >>> n = _
  rw [Nat.shiftRight_eq_div_pow]

theorem shl_i32 (w : UInt64) (j : Int32) (n : Nat) (hj : j.toInt = n) (hn : n ≤ 63) :
    (w <<< UInt64.ofInt (toI j)).toNat = w.toNat * 2^n % 2^64 := by
  rw [Dec.C13GenPack.shl_var w j (by omega) (by omega), hj]
  show (w.toNat <<< n) % 2^64 = _
  rw [Nat.shiftLeft_eq]

theorem i32_ge64 (a : Int32) : decide (a ≥ 64) = decide (64 ≤ a.toInt) := by
  rw [decide_eq_decide, ge_iff_le, Int32.le_iff_toInt_le]; rfl
theorem i32_lt64 (a : Int32) : decide (a < 64) = decide (a.toInt < 64) := by
  rw [decide_eq_decide, Int32.lt_iff_toInt_lt]; rfl

/-- when the rounding of the scale-down branch was exact, by (sign-adjusted) mode, in terms of the fraction's high part
`fracH` (`s` bits), its low 128 bits `Ql` and the reciprocal `Kv` -/
def exactCond (r : Mode) (fracH Ql Kv s : Nat) : Bool :=
  match r with
  | .rne | .rna => decide (fracH = 2^(s-1) ∧ Ql < Kv)
  | .rdn | .rtz => decide (fracH = 0 ∧ Ql < Kv)
  | .rup => decide (2^s ≤ fracH + (if 2^128 ≤ Ql + Kv then 1 else 0))

theorem ge128_ok (A B : U128) : unsigned_compare_ge_128 A B = .ok (decide (bitsOf B ≤ bitsOf A)) := by
  have := A.w0.toNat_lt; have := B.w0.toNat_lt
  unfold unsigned_compare_ge_128 bitsOf
  simp only [bind, Except.bind, pure, Except.pure]
  refine congrArg Except.ok ?_
  rw [Bool.eq_iff_iff]
  simp only [Bool.or_eq_true, Bool.and_eq_true, decide_eq_true_eq, beq_iff_eq, gt_iff_lt, ge_iff_le, UInt64.lt_iff_toNat_lt,
    UInt64.le_iff_toNat_le, ← UInt64.toNat_inj]
  omega

theorem one_lit : UInt64.ofInt (toI (1 : Nat)) = 1 := rfl

theorem mode_nearest (r : RoundingMode) :
    (r == RoundingMode.NearestEven || r == RoundingMode.NearestAway) = decide (md r = .rne ∨ md r = .rna) := by
  cases r <;> rfl
theorem mode_trunc (r : RoundingMode) :
    (r == RoundingMode.Downward || r == RoundingMode.TowardZero) = decide (md r = .rdn ∨ md r = .rtz) := by
  cases r <;> rfl

theorem carry_val (s0 c0 s1 c1 w0 w1 k0 k1 : Nat) (va : s0 + 2^64 * c0 = w0 + k0) (vb : s1 + 2^64 * c1 = w1 + k1 + c0)
    (ba : c0 ≤ 1) (bb : c1 ≤ 1) (h1 : s0 < 2^64) (h2 : s1 < 2^64) :
    c1 = if 2^128 ≤ w1 * 2^64 + w0 + (k1 * 2^64 + k0) then 1 else 0 := by
  by_cases hc : 2^128 ≤ w1 * 2^64 + w0 + (k1 * 2^64 + k0)
  · rw [if_pos hc]; omega
  · rw [if_neg hc]; omega

theorem quantDownE_hi (sx : UInt64) (ey : Int32) (rmode : RoundingMode) (f : UInt32) (CT : U256) (CR : U128)
    (amount extra : Int32) (K : U128) (hK : tbl128 Dec.Gen.BID_RECIPROCALS10_128 (UInt64.ofInt (toI extra)) = .ok K)
    (s : Nat) (hs : amount.toInt = s) (hs1 : 65 ≤ s) (hs2 : s ≤ 127) :
    quantDownE sx ey rmode f CT ⟨CT.w2, CT.w3⟩ CR amount extra =
      downFin sx ey CR f (exactCond (md rmode) ((CT.w3.toNat * 2^64 + CT.w2.toNat) % 2^s)
        (CT.w1.toNat * 2^64 + CT.w0.toNat) (bitsOf K) s) := by
  obtain ⟨t, rfl⟩ : ∃ t, s = 64 + t := ⟨s - 64, by omega⟩
  have h2 := CT.w2.toNat_lt; have h3 := CT.w3.toNat_lt
  have e128 : ((128 : Int32) - amount).toInt = ((64 - t : Nat) : Int) := by
    rw [Dec.C13GenPack.rsub80 amount (by omega), hs]; omega
  have e64 : (amount - (64 : Int32)).toInt = (t : Int) := by
    rw [Dec.C13GenPack.sub40 amount (by omega), hs]; omega
  obtain ⟨fq, fr⟩ := two_word_hi CT.w3.toNat CT.w2.toNat t h2
  have hA : CT.w3.toNat % 2^t < 2^t := Nat.mod_lt _ (Nat.pow_pos (by decide))
  have hpt : 2^t * 2^(64-t) = 2^64 := by rw [← Nat.pow_add]; congr 1; omega
  have hX : (CT.w3 <<< UInt64.ofInt (toI ((128 : Int32) - amount))).toNat = (CT.w3.toNat % 2^t) * 2^(64-t) := by
    rw [shl_i32 _ _ (64 - t) e128 (by omega), shl_keep _ t (by omega)]
  have hXb : ((CT.w3 <<< UInt64.ofInt (toI ((128 : Int32) - amount))) >>> UInt64.ofInt (toI ((128 : Int32) - amount))).toNat
      = CT.w3.toNat % 2^t := by
    rw [shr_i32 _ _ (64 - t) e128 (by omega), hX, shl_back]
  have hC2 : (UInt64.ofInt (toI (1 : Nat)) <<< UInt64.ofInt (toI (amount - (64 : Int32)))).toNat = 2^t := by
    rw [one_lit, shl_i32 _ _ t e64 (by omega), UInt64.toNat_one, Nat.one_mul, Nat.mod_eq_of_lt]
    exact Nat.pow_lt_pow_right (by decide) (by omega)
  rw [fr]
  unfold quantDownE quantDownF
  delta c_StatusFlags_BID_INEXACT_EXCEPTION c_DEC_FE_INEXACT c_StatusFlags_BID_EXACT_STATUS
  simp only [bind, pure, Except.pure, set_status_flags]
  rw [if_pos (by rw [i32_ge64, hs]; simp)]
  simp only [mode_nearest, mode_trunc, downFin_ite]
  have hlt := ltK_chain _ K hK CT.w1 CT.w0
  cases hm : md rmode with
  | rne | rna =>
    all_goals (
      simp only [true_or, or_true, decide_true, if_true]
      rw [guard_chain _ _ _ hlt]
      refine congrArg (downFin sx ey CR f) ?_
      unfold exactCond
      simp only []
      rw [Bool.eq_iff_iff]
      simp only [Bool.and_eq_true, beq_iff_eq, decide_eq_true_eq, ← UInt64.toNat_inj, hX, UInt64.toNat_zero,
        show (9223372036854775808 : UInt64).toNat = 2^63 from by decide]
      have e63 : 2^63 = 2^(t-1) * 2^(64-t) := by rw [← Nat.pow_add]; congr 1; omega
      have e2 : 2^(64 + t - 1) = 2^(t-1) * 2^64 := by rw [← Nat.pow_add]; congr 1; omega
      rw [e63, e2]
      have hp : 0 < 2^(64-t) := Nat.pow_pos (by decide)
      constructor
      · rintro ⟨⟨a, b⟩, c⟩
        have := Nat.eq_of_mul_eq_mul_right hp a
        rw [this, b]; exact ⟨by omega, c⟩
      · rintro ⟨a, c⟩
        generalize CT.w3.toNat % 2^t = A at *
        generalize 2^(t-1) = P at *
        have hw2 : CT.w2.toNat = 0 := by omega
        have : A = P := by omega
        subst this
        exact ⟨⟨rfl, hw2⟩, c⟩)
  | rdn | rtz =>
    all_goals (
      simp only [reduceCtorEq, or_self, decide_false, Bool.false_eq_true, if_false, true_or, or_true, decide_true, if_true]
      rw [guard_chain _ _ _ hlt]
      refine congrArg (downFin sx ey CR f) ?_
      unfold exactCond
      simp only []
      rw [Bool.eq_iff_iff]
      simp only [Bool.and_eq_true, beq_iff_eq, decide_eq_true_eq, ← UInt64.toNat_inj, UInt64.toNat_or, hX, UInt64.toNat_zero,
        Nat.or_eq_zero_iff]
      have hp : 0 < 2^(64-t) := Nat.pow_pos (by decide)
      constructor
      · rintro ⟨⟨a, b⟩, c⟩
        have : CT.w3.toNat % 2^t = 0 := by
          rcases Nat.eq_zero_or_pos (CT.w3.toNat % 2^t) with h | h
          · exact h
          · exact absurd a (Nat.ne_of_gt (Nat.mul_pos h hp))
        rw [this, b]; exact ⟨by rw [Nat.zero_mul], c⟩
      · rintro ⟨a, c⟩
        have h1 : CT.w3.toNat % 2^t = 0 := by
          generalize CT.w3.toNat % 2^t = A at *
          omega
        have h2' : CT.w2.toNat = 0 := by
          generalize CT.w3.toNat % 2^t = A at *
          omega
        rw [h1]; exact ⟨⟨by omega, h2'⟩, c⟩)
  | rup =>
    simp only [reduceCtorEq, or_self, decide_false, Bool.false_eq_true, if_false]
    obtain ⟨s0, c0, ea, va, ba⟩ := add_carry_out_ok CT.w0 K.w0
    obtain ⟨s1, c1, eb, vb, bb⟩ := add_carry_in_out_ok CT.w1 K.w1 c0 ba
    rw [hK, bind_ok, ea, bind_ok, bind_ok, eb, bind_ok, if_neg (by rw [i32_lt64, hs]; simp)]
    have hc1 : c1.toNat = if 2^128 ≤ CT.w1.toNat * 2^64 + CT.w0.toNat + bitsOf K then 1 else 0 :=
      carry_val _ _ _ _ _ _ _ _ va vb ba bb s0.toNat_lt s1.toNat_lt
    have hsum : (CT.w2 + c1).toNat = (CT.w2.toNat + c1.toNat) % 2^64 := UInt64.toNat_add _ _
    have hpt' : 2^(64 + t) = 2^t * 2^64 := by rw [Nat.pow_add, Nat.mul_comm]
    have hC2b : bitsOf ({ w0 := 0, w1 := UInt64.ofInt (toI (1 : Nat)) <<< UInt64.ofInt (toI (amount - (64 : Int32))) } : U128) = 2^(64+t) := by
      unfold bitsOf; rw [hC2, hpt']; exact Nat.add_zero _
    have hpt63 : 2^t ≤ 2^63 := Nat.pow_le_pow_right (by decide) (by omega)
    by_cases hw : CT.w2 + c1 < c1
    · rw [if_pos (by simpa using hw), ge128_ok, bind_ok]
      refine congrArg (downFin sx ey CR f) ?_
      unfold exactCond
      simp only []
      rw [hC2b, decide_eq_decide, ← hc1]
      have hb : bitsOf ({ w0 := CT.w2 + c1, w1 := ((CT.w3 <<< UInt64.ofInt (toI ((128 : Int32) - amount))) >>> UInt64.ofInt (toI ((128 : Int32) - amount))) + 1 } : U128)
          = CT.w3.toNat % 2^t * 2^64 + CT.w2.toNat + c1.toNat := by
        unfold bitsOf
        rw [UInt64.toNat_add, hXb, UInt64.toNat_one, hsum, Nat.mod_eq_of_lt (by omega)]
        rw [UInt64.lt_iff_toNat_lt, hsum] at hw
        generalize CT.w3.toNat % 2^t = A at *
        omega
      rw [hb]
    · rw [if_neg (by simpa using hw), ge128_ok, bind_ok]
      refine congrArg (downFin sx ey CR f) ?_
      unfold exactCond
      simp only []
      rw [hC2b, decide_eq_decide, ← hc1]
      have hb : bitsOf ({ w0 := CT.w2 + c1, w1 := ((CT.w3 <<< UInt64.ofInt (toI ((128 : Int32) - amount))) >>> UInt64.ofInt (toI ((128 : Int32) - amount))) } : U128)
          = CT.w3.toNat % 2^t * 2^64 + CT.w2.toNat + c1.toNat := by
        unfold bitsOf
        rw [hXb, hsum]
        rw [UInt64.lt_iff_toNat_lt, hsum] at hw
        generalize CT.w3.toNat % 2^t = A at *
        omega
      rw [hb]

theorem quantDownE_lo (sx : UInt64) (ey : Int32) (rmode : RoundingMode) (f : UInt32) (CT : U256) (CR : U128)
    (amount extra : Int32) (K : U128) (hK : tbl128 Dec.Gen.BID_RECIPROCALS10_128 (UInt64.ofInt (toI extra)) = .ok K)
    (s : Nat) (hs : amount.toInt = s) (hs1 : 1 ≤ s) (hs2 : s ≤ 63) :
    quantDownE sx ey rmode f CT ⟨CT.w2, CT.w3⟩ CR amount extra =
      downFin sx ey CR f (exactCond (md rmode) ((CT.w3.toNat * 2^64 + CT.w2.toNat) % 2^s)
        (CT.w1.toNat * 2^64 + CT.w0.toNat) (bitsOf K) s) := by
  have h2 := CT.w2.toNat_lt; have h3 := CT.w3.toNat_lt
  have e64 : ((64 : Int32) - amount).toInt = ((64 - s : Nat) : Int) := by
    rw [Dec.C13GenPack.rsub40 amount (by omega), hs]; omega
  obtain ⟨fq, fr⟩ := two_word_lo CT.w3.toNat CT.w2.toNat s h2 (by omega)
  have hA : CT.w2.toNat % 2^s < 2^s := Nat.mod_lt _ (Nat.pow_pos (by decide))
  have hX : (CT.w2 <<< UInt64.ofInt (toI ((64 : Int32) - amount))).toNat = (CT.w2.toNat % 2^s) * 2^(64-s) := by
    rw [shl_i32 _ _ (64 - s) e64 (by omega), shl_keep _ s (by omega)]
  have hXb : ((CT.w2 <<< UInt64.ofInt (toI ((64 : Int32) - amount))) >>> UInt64.ofInt (toI ((64 : Int32) - amount))).toNat
      = CT.w2.toNat % 2^s := by
    rw [shr_i32 _ _ (64 - s) e64 (by omega), hX, shl_back]
  have hps : 2^s ≤ 2^63 := Nat.pow_le_pow_right (by decide) hs2
  have hC2 : (UInt64.ofInt (toI (1 : Nat)) <<< UInt64.ofInt (toI amount)).toNat = 2^s := by
    rw [one_lit, shl_i32 _ _ s hs (by omega), UInt64.toNat_one, Nat.one_mul, Nat.mod_eq_of_lt (by omega)]
  rw [fr]
  unfold quantDownE quantDownF
  delta c_StatusFlags_BID_INEXACT_EXCEPTION c_DEC_FE_INEXACT c_StatusFlags_BID_EXACT_STATUS
  simp only [bind, pure, Except.pure, set_status_flags]
  rw [if_neg (by rw [i32_ge64, hs]; simp; omega)]
  simp only [mode_nearest, mode_trunc, downFin_ite]
  have hlt := ltK_chain _ K hK CT.w1 CT.w0
  have hp : 0 < 2^(64-s) := Nat.pow_pos (by decide)
  cases hm : md rmode with
  | rne | rna =>
    all_goals (
      simp only [true_or, or_true, decide_true, if_true]
      rw [guard_chain _ _ _ hlt]
      refine congrArg (downFin sx ey CR f) ?_
      unfold exactCond
      simp only []
      rw [Bool.eq_iff_iff]
      simp only [Bool.and_eq_true, beq_iff_eq, decide_eq_true_eq, ← UInt64.toNat_inj, hX, UInt64.toNat_zero,
        show (9223372036854775808 : UInt64).toNat = 2^63 from by decide, and_true]
      have e63 : 2^63 = 2^(s-1) * 2^(64-s) := by rw [← Nat.pow_add]; congr 1; omega
      rw [e63]
      constructor
      · rintro ⟨a, c⟩
        exact ⟨Nat.eq_of_mul_eq_mul_right hp a, c⟩
      · rintro ⟨a, c⟩
        exact ⟨by rw [a], c⟩)
  | rdn | rtz =>
    all_goals (
      simp only [reduceCtorEq, or_self, decide_false, Bool.false_eq_true, if_false, true_or, or_true, decide_true, if_true]
      rw [guard_chain _ _ _ hlt]
      refine congrArg (downFin sx ey CR f) ?_
      unfold exactCond
      simp only []
      rw [Bool.eq_iff_iff]
      simp only [Bool.and_eq_true, beq_iff_eq, decide_eq_true_eq, ← UInt64.toNat_inj, UInt64.toNat_or, hX, UInt64.toNat_zero,
        Nat.or_zero]
      constructor
      · rintro ⟨a, c⟩
        refine ⟨?_, c⟩
        rcases Nat.eq_zero_or_pos (CT.w2.toNat % 2^s) with h | h
        · exact h
        · exact absurd a (Nat.ne_of_gt (Nat.mul_pos h hp))
      · rintro ⟨a, c⟩
        exact ⟨by rw [a, Nat.zero_mul], c⟩)
  | rup =>
    simp only [reduceCtorEq, or_self, decide_false, Bool.false_eq_true, if_false]
    obtain ⟨s0, c0, ea, va, ba⟩ := add_carry_out_ok CT.w0 K.w0
    obtain ⟨s1, c1, eb, vb, bb⟩ := add_carry_in_out_ok CT.w1 K.w1 c0 ba
    rw [hK, bind_ok, ea, bind_ok, bind_ok, eb, bind_ok, if_pos (by rw [i32_lt64, hs]; simp; omega)]
    have hc1 : c1.toNat = if 2^128 ≤ CT.w1.toNat * 2^64 + CT.w0.toNat + bitsOf K then 1 else 0 :=
      carry_val _ _ _ _ _ _ _ _ va vb ba bb s0.toNat_lt s1.toNat_lt
    have hC2b : bitsOf ({ w0 := UInt64.ofInt (toI (1 : Nat)) <<< UInt64.ofInt (toI amount), w1 := 0 } : U128) = 2^s := by
      unfold bitsOf; rw [hC2, UInt64.toNat_zero, Nat.zero_mul, Nat.zero_add]
    have hsum : (((CT.w2 <<< UInt64.ofInt (toI ((64 : Int32) - amount))) >>> UInt64.ofInt (toI ((64 : Int32) - amount))) + c1).toNat
        = CT.w2.toNat % 2^s + c1.toNat := by
      rw [UInt64.toNat_add, hXb, Nat.mod_eq_of_lt (by omega)]
    have hnw : ¬ (((CT.w2 <<< UInt64.ofInt (toI ((64 : Int32) - amount))) >>> UInt64.ofInt (toI ((64 : Int32) - amount))) + c1 < c1) := by
      rw [UInt64.lt_iff_toNat_lt, hsum]; omega
    rw [if_neg (by simpa using hnw), ge128_ok, bind_ok]
    refine congrArg (downFin sx ey CR f) ?_
    unfold exactCond
    simp only []
    rw [hC2b, decide_eq_decide, ← hc1]
    have hb : bitsOf ({ w0 := ((CT.w2 <<< UInt64.ofInt (toI ((64 : Int32) - amount))) >>> UInt64.ofInt (toI ((64 : Int32) - amount))) + c1, w1 := 0 } : U128)
        = CT.w2.toNat % 2^s + c1.toNat := by
      unfold bitsOf; rw [hsum, UInt64.toNat_zero, Nat.zero_mul, Nat.zero_add]
    rw [hb]

theorem quantDownE_spec (sx : UInt64) (ey : Int32) (rmode : RoundingMode) (f : UInt32) (CT : U256) (CR : U128)
    (amount extra : Int32) (K : U128) (hK : tbl128 Dec.Gen.BID_RECIPROCALS10_128 (UInt64.ofInt (toI extra)) = .ok K)
    (s : Nat) (hs : amount.toInt = s) (hs1 : 1 ≤ s) (hs2 : s ≤ 127) (hs64 : s ≠ 64) :
    quantDownE sx ey rmode f CT ⟨CT.w2, CT.w3⟩ CR amount extra =
      downFin sx ey CR f (exactCond (md rmode) ((CT.w3.toNat * 2^64 + CT.w2.toNat) % 2^s)
        (CT.w1.toNat * 2^64 + CT.w0.toNat) (bitsOf K) s) := by
  by_cases h : s ≤ 63
  · exact quantDownE_lo sx ey rmode f CT CR amount extra K hK s hs hs1 h
  · exact quantDownE_hi sx ey rmode f CT CR amount extra K hK s hs (by omega) hs2

theorem mode_ne (r : RoundingMode) : (r == RoundingMode.NearestEven) = decide (md r = .rne) := by cases r <;> rfl

/-- the midpoint repair of round-half-even: the quotient, decremented when it is odd and the fraction is below one
reciprocal unit -/
theorem quantDownD_spec (sx : UInt64) (ey : Int32) (rm rmode : RoundingMode) (f : UInt32) (CT : U256) (CR : U128)
    (amount extra : Int32) (K : U128) (hK : tbl128 Dec.Gen.BID_RECIPROCALS10_128 (UInt64.ofInt (toI extra)) = .ok K)
    (s : Nat) (hs : amount.toInt = s) (hs1 : 1 ≤ s) (hs2 : s ≤ 127) (hs64 : s ≠ 64) :
    ∃ CR', bitsOf CR' = (if md rm = .rne ∧ bitsOf CR % 2 = 1 ∧ (CT.w3.toNat * 2^64 + CT.w2.toNat) % 2^s = 0 ∧
          CT.w1.toNat * 2^64 + CT.w0.toNat < bitsOf K then bitsOf CR - 1 else bitsOf CR) ∧
      quantDownD sx ey rm rmode f CT ⟨CT.w2, CT.w3⟩ CR amount extra =
        downFin sx ey CR' f (exactCond (md rmode) ((CT.w3.toNat * 2^64 + CT.w2.toNat) % 2^s)
          (CT.w1.toNat * 2^64 + CT.w0.toNat) (bitsOf K) s) := by
  have h2 := CT.w2.toNat_lt; have h3 := CT.w3.toNat_lt
  have hodd : (CR.w0 &&& 1 == 1) = decide (bitsOf CR % 2 = 1) := by
    rw [Bool.eq_iff_iff, beq_iff_eq, decide_eq_true_eq, ← UInt64.toNat_inj, UInt64.toNat_and, UInt64.toNat_one,
      Nat.and_one_is_mod]
    unfold bitsOf; omega
  -- the test `remainder_h == 0`
  have hrem : ((if decide (amount ≥ 64) = true then CT.w2 ||| CT.w3 <<< UInt64.ofInt (toI ((128 : Int32) - amount))
        else CT.w2 <<< UInt64.ofInt (toI ((64 : Int32) - amount))) == 0)
      = decide ((CT.w3.toNat * 2^64 + CT.w2.toNat) % 2^s = 0) := by
    by_cases h : s ≤ 63
    · have e64 : ((64 : Int32) - amount).toInt = ((64 - s : Nat) : Int) := by
        rw [Dec.C13GenPack.rsub40 amount (by omega), hs]; omega
      rw [if_neg (by rw [i32_ge64, hs]; simp; omega), (two_word_lo _ _ s h2 (by omega)).2, Bool.eq_iff_iff, beq_iff_eq,
        decide_eq_true_eq, ← UInt64.toNat_inj, shl_i32 _ _ (64 - s) e64 (by omega), shl_keep _ s (by omega), UInt64.toNat_zero]
      have hp : 0 < 2^(64-s) := Nat.pow_pos (by decide)
      constructor
      · intro a
        rcases Nat.eq_zero_or_pos (CT.w2.toNat % 2^s) with h | h
        · exact h
        · exact absurd a (Nat.ne_of_gt (Nat.mul_pos h hp))
      · intro a; rw [a, Nat.zero_mul]
    · obtain ⟨t, rfl⟩ : ∃ t, s = 64 + t := ⟨s - 64, by omega⟩
      have e128 : ((128 : Int32) - amount).toInt = ((64 - t : Nat) : Int) := by
        rw [Dec.C13GenPack.rsub80 amount (by omega), hs]; omega
      rw [if_pos (by rw [i32_ge64, hs]; simp), (two_word_hi _ _ t h2).2, Bool.eq_iff_iff, beq_iff_eq,
        decide_eq_true_eq, ← UInt64.toNat_inj, UInt64.toNat_or, shl_i32 _ _ (64 - t) e128 (by omega), shl_keep _ t (by omega),
        UInt64.toNat_zero, Nat.or_eq_zero_iff]
      have hp : 0 < 2^(64-t) := Nat.pow_pos (by decide)
      constructor
      · rintro ⟨a, b⟩
        have : CT.w3.toNat % 2^t = 0 := by
          rcases Nat.eq_zero_or_pos (CT.w3.toNat % 2^t) with h | h
          · exact h
          · exact absurd b (Nat.ne_of_gt (Nat.mul_pos h hp))
        rw [this, a, Nat.zero_mul]
      · intro a
        generalize CT.w3.toNat % 2^t = A at *
        have h1 : A = 0 := by omega
        have h2' : CT.w2.toNat = 0 := by omega
        exact ⟨h2', by rw [h1, Nat.zero_mul]⟩
  have hlt := ltK_chain _ K hK CT.w1 CT.w0
  have hE := fun CR' => quantDownE_spec sx ey rmode f CT CR' amount extra K hK s hs hs1 hs2 hs64
  have hcode : quantDownD sx ey rm rmode f CT ⟨CT.w2, CT.w3⟩ CR amount extra =
      if (decide (md rm = .rne) && decide (bitsOf CR % 2 = 1)) = true then
        if (decide ((CT.w3.toNat * 2^64 + CT.w2.toNat) % 2^s = 0) &&
            decide (CT.w1.toNat * 2^64 + CT.w0.toNat < bitsOf K)) = true then
          downFin sx ey { w0 := CR.w0 - 1, w1 := CR.w1 } f (exactCond (md rmode) ((CT.w3.toNat * 2^64 + CT.w2.toNat) % 2^s)
            (CT.w1.toNat * 2^64 + CT.w0.toNat) (bitsOf K) s)
        else downFin sx ey CR f (exactCond (md rmode) ((CT.w3.toNat * 2^64 + CT.w2.toNat) % 2^s)
            (CT.w1.toNat * 2^64 + CT.w0.toNat) (bitsOf K) s)
      else downFin sx ey CR f (exactCond (md rmode) ((CT.w3.toNat * 2^64 + CT.w2.toNat) % 2^s)
            (CT.w1.toNat * 2^64 + CT.w0.toNat) (bitsOf K) s) := by
    unfold quantDownD
    simp only [bind, pure, Except.pure]
    rw [mode_ne, hodd, hrem, guard_chain _ _ _ hlt, hE, hE]
  rw [hcode]
  by_cases hc : md rm = .rne ∧ bitsOf CR % 2 = 1
  · by_cases hd : (CT.w3.toNat * 2^64 + CT.w2.toNat) % 2^s = 0 ∧ CT.w1.toNat * 2^64 + CT.w0.toNat < bitsOf K
    · refine ⟨{ w0 := CR.w0 - 1, w1 := CR.w1 }, ?_, by rw [if_pos (by simpa using hc), if_pos (by simpa using hd)]⟩
      rw [if_pos ⟨hc.1, hc.2, hd.1, hd.2⟩]
      have hw := CR.w0.toNat_lt
      have hodd' := hc.2
      unfold bitsOf at hodd' ⊢
      show CR.w1.toNat * 2^64 + (CR.w0 - 1).toNat = CR.w1.toNat * 2^64 + CR.w0.toNat - 1
      rw [UInt64.toNat_sub, UInt64.toNat_one]
      omega
    · exact ⟨CR, by rw [if_neg (fun h => hd ⟨h.2.2.1, h.2.2.2⟩)],
        by rw [if_pos (by simpa using hc), if_neg (by simpa using hd)]⟩
  · exact ⟨CR, by rw [if_neg (fun h => hc ⟨h.1, h.2.1⟩)], by rw [if_neg (by simpa using hc)]⟩


/-- `CR = CX2 >> amount`: the quotient by `2^s` of the high 128 bits of the product -/
theorem cr_value (CT : U256) (amount : Int32) (s : Nat) (hs : amount.toInt = s) (hs1 : 1 ≤ s) (hs2 : s ≤ 127) :
    ∃ CR, bitsOf CR = (CT.w3.toNat * 2^64 + CT.w2.toNat) / 2^s ∧
      (if decide (amount ≥ 64) = true then
          Except.ok ({ w0 := CT.w3 >>> UInt64.ofInt (toI (amount - (64 : Int32))), w1 := 0 } : U128)
        else shr_128 ⟨CT.w2, CT.w3⟩ amount) = Except.ok CR := by
  have h2 := CT.w2.toNat_lt; have h3 := CT.w3.toNat_lt
  by_cases h : s ≤ 63
  · rw [if_neg (by rw [i32_ge64, hs]; simp; omega)]
    obtain ⟨r, hr, pr'⟩ := Dec.C13GenPack.shr_128_bridge ⟨CT.w2, CT.w3⟩ amount (by omega) (by omega)
    refine ⟨r, ?_, hr⟩
    rw [hs] at pr'
    have e0 : r.w0.toNat = CT.w2.toNat / 2^s ||| CT.w3.toNat * 2^(64-s) % 2^64 := by
      have := congrArg Prod.fst pr'
      simp only [Dec.C13GenPack.pr, Dec.PackH.shr_128, Dec.PackH.shr64, Dec.PackH.shl64, Int.toNat_natCast,
        Nat.shiftRight_eq_div_pow, Nat.shiftLeft_eq] at this
      exact this
    have e1 : r.w1.toNat = CT.w3.toNat / 2^s := by
      have := congrArg Prod.snd pr'
      simp only [Dec.C13GenPack.pr, Dec.PackH.shr_128, Dec.PackH.shr64, Int.toNat_natCast, Nat.shiftRight_eq_div_pow] at this
      exact this
    unfold bitsOf
    rw [e0, e1]
    exact shr128_words _ _ s h3 h2 hs1 h
  · obtain ⟨t, rfl⟩ : ∃ t, s = 64 + t := ⟨s - 64, by omega⟩
    have e64 : (amount - (64 : Int32)).toInt = (t : Int) := by
      rw [Dec.C13GenPack.sub40 amount (by omega), hs]; omega
    rw [if_pos (by rw [i32_ge64, hs]; simp)]
    refine ⟨_, ?_, rfl⟩
    unfold bitsOf
    show (0 : UInt64).toNat * 2^64 + (CT.w3 >>> UInt64.ofInt (toI (amount - (64 : Int32)))).toNat = _
    rw [shr_i32 _ _ t e64 (by omega), (two_word_hi _ _ t h2).1, UInt64.toNat_zero, Nat.zero_mul, Nat.zero_add]

theorem quantDownC_spec (sx : UInt64) (ey : Int32) (rm rmode : RoundingMode) (f : UInt32) (CT : U256)
    (amount extra : Int32) (K : U128) (hK : tbl128 Dec.Gen.BID_RECIPROCALS10_128 (UInt64.ofInt (toI extra)) = .ok K)
    (s : Nat) (hs : amount.toInt = s) (hs1 : 1 ≤ s) (hs2 : s ≤ 127) (hs64 : s ≠ 64) :
    ∃ CR', bitsOf CR' = (if md rm = .rne ∧ (CT.w3.toNat * 2^64 + CT.w2.toNat) / 2^s % 2 = 1 ∧
          (CT.w3.toNat * 2^64 + CT.w2.toNat) % 2^s = 0 ∧ CT.w1.toNat * 2^64 + CT.w0.toNat < bitsOf K
        then (CT.w3.toNat * 2^64 + CT.w2.toNat) / 2^s - 1 else (CT.w3.toNat * 2^64 + CT.w2.toNat) / 2^s) ∧
      quantDownC sx ey rm rmode f CT ⟨CT.w2, CT.w3⟩ amount extra =
        downFin sx ey CR' f (exactCond (md rmode) ((CT.w3.toNat * 2^64 + CT.w2.toNat) % 2^s)
          (CT.w1.toNat * 2^64 + CT.w0.toNat) (bitsOf K) s) := by
  obtain ⟨CR, hCR, hcode⟩ := cr_value CT amount s hs hs1 hs2
  obtain ⟨CR', h1, h2⟩ := quantDownD_spec sx ey rm rmode f CT CR amount extra K hK s hs hs1 hs2 hs64
  refine ⟨CR', by rw [h1, hCR], ?_⟩
  rw [← h2]
  unfold quantDownC
  simp only [bind, pure, Except.pure]
  by_cases h : amount ≥ 64
  · rw [if_pos (by simpa using h)] at hcode ⊢
    rw [Except.ok.inj hcode]
  · rw [if_neg (by simpa using h)] at hcode ⊢
    rw [hcode, bind_ok]


/-- the fraction of the scaled product below bit `128 + s`, in terms of the two halves of the product -/
theorem frac_forms (N s Kv : Nat) (hs : 1 ≤ s) (hK : Kv < 2^128) :
    N / 2^(128+s) = N / 2^128 / 2^s ∧
    (N % 2^(128+s) < Kv ↔ (N / 2^128 % 2^s = 0 ∧ N % 2^128 < Kv)) ∧
    ((2^(128+s-1) ≤ N % 2^(128+s) ∧ N % 2^(128+s) < 2^(128+s-1) + Kv) ↔ (N / 2^128 % 2^s = 2^(s-1) ∧ N % 2^128 < Kv)) ∧
    (2^(128+s) ≤ N % 2^(128+s) + Kv ↔ 2^s ≤ N / 2^128 % 2^s + (if 2^128 ≤ N % 2^128 + Kv then 1 else 0)) := by
  have hl : N % 2^128 < 2^128 := Nat.mod_lt _ (by positivity)
  have hdm := Nat.div_add_mod N (2^128)
  have hfr : N % 2^(128+s) = N % 2^128 + 2^128 * (N / 2^128 % 2^s) := by
    have := Dec.C13PackHelpers.frac_eq (N / 2^128) (N % 2^128) s hl
    rw [Nat.add_comm (N % 2^128), hdm] at this
    exact this
  have hr : N / 2^128 % 2^s < 2^s := Nat.mod_lt _ (by positivity)
  have e1 : 2^(128+s-1) = 2^128 * 2^(s-1) := by rw [← Nat.pow_add]; congr 1; omega
  have e2 : 2^(128+s) = 2^128 * 2^s := Nat.pow_add _ _ _
  have e3 : 2^s = 2 * 2^(s-1) := by rw [← Nat.pow_succ']; congr 1; omega
  refine ⟨by rw [Nat.pow_add, Nat.div_div_eq_div_mul], ?_, ?_, ?_⟩
  · rw [hfr]
    generalize N / 2^128 % 2^s = h at *
    generalize N % 2^128 = l at *
    constructor
    · intro a
      have : h = 0 := by
        rcases Nat.eq_zero_or_pos h with h0 | h0
        · exact h0
        · exfalso; have : 2^128 * 1 ≤ 2^128 * h := Nat.mul_le_mul_left _ h0; omega
      subst this; exact ⟨rfl, by omega⟩
    · rintro ⟨a, b⟩; subst a; omega
  · rw [hfr, e1]
    generalize N / 2^128 % 2^s = h at *
    generalize N % 2^128 = l at *
    generalize 2^(s-1) = P at *
    constructor
    · rintro ⟨a, b⟩
      have h1 : P ≤ h := by
        by_contra hc
        have : 2^128 * (h + 1) ≤ 2^128 * P := Nat.mul_le_mul_left _ (by omega)
        rw [Nat.mul_add] at this; omega
      have h2 : h ≤ P := by
        by_contra hc
        have : 2^128 * (P + 1) ≤ 2^128 * h := Nat.mul_le_mul_left _ (by omega)
        rw [Nat.mul_add] at this; omega
      have : h = P := by omega
      subst this; exact ⟨rfl, by omega⟩
    · rintro ⟨a, b⟩; subst a; omega
  · rw [hfr, e2]
    generalize N / 2^128 % 2^s = h at *
    generalize N % 2^128 = l at *
    generalize 2^s = S at *
    by_cases hc : 2^128 ≤ l + Kv
    · rw [if_pos hc]
      constructor
      · intro a
        by_contra hcon
        have : 2^128 * (h + 2) ≤ 2^128 * S := Nat.mul_le_mul_left _ (by omega)
        rw [Nat.mul_add] at this; omega
      · intro a
        have : 2^128 * S ≤ 2^128 * (h + 1) := Nat.mul_le_mul_left _ a
        rw [Nat.mul_add] at this; omega
    · rw [if_neg hc]
      constructor
      · intro a
        by_contra hcon
        have : 2^128 * (h + 1) ≤ 2^128 * S := Nat.mul_le_mul_left _ (by omega)
        rw [Nat.mul_add] at this; omega
      · intro a; omega


/-- `__add_128_128`: the sum modulo 2^128 -/
theorem add_128_128_ok (A B : U128) : ∃ r, add_128_128 A B = .ok r ∧ bitsOf r = (bitsOf A + bitsOf B) % 2^128 := by
  have := A.w0.toNat_lt; have := A.w1.toNat_lt; have := B.w0.toNat_lt; have := B.w1.toNat_lt
  simp only [add_128_128, bind, Except.bind, pure, Except.pure]
  by_cases h : B.w0 + A.w0 < B.w0
  · simp only [h, decide_true, if_true]
    refine ⟨_, rfl, ?_⟩
    rw [UInt64.lt_iff_toNat_lt, UInt64.toNat_add] at h
    unfold bitsOf
    simp only [UInt64.toNat_add, UInt64.toNat_one]
    omega
  · simp only [h, decide_false, Bool.false_eq_true, if_false]
    refine ⟨_, rfl, ?_⟩
    rw [UInt64.lt_iff_toNat_lt, UInt64.toNat_add] at h
    unfold bitsOf
    simp only [UInt64.toNat_add]
    omega

open Dec.C13PackHelpers in
theorem recipS_ne64 : ∀ x < 36, recipS x ≠ 64 := by decide +kernel

theorem i32_neg_ofInt (xd : Nat) (h : xd ≤ 34) : (-(Int32.ofInt (-(xd : Int)))).toInt = xd := by
  rw [Int32.toInt_neg, Int32.toInt_ofInt_of_le (by omega) (by omega), bmod32 _ (by omega) (by omega)]; omega


open Dec.C13PackHelpers Dec.PackH in
/-- the scale-down branch once the (sign-adjusted) rounding mode is known -/
theorem quantDownB_spec (sw : UInt64) (sg : Bool) (hsg : sw.toNat = if sg then 2^63 else 0) (Ey : Nat) (hEy : Ey ≤ 12287)
    (C : Nat) (hC0 : 0 < C) (hC : C < 10^34) (xd : Nat) (h1 : 1 ≤ xd) (h2 : xd ≤ 34) (rm rmode : RoundingMode) (f : UInt32)
    (hrm : md rmode = ufRmode sw.toNat (md rm)) :
    quantDownB sw (Int32.ofInt Ey) (ofBits C) (Int32.ofInt (-(xd : Int))) rm rmode f =
      .ok (ofBits (encode (.fin sg (roundInt (md rm) sg (C / 10^xd) (C % 10^xd) (10^xd)) ((Ey : Int) - 6176))),
        if C % 10^xd = 0 then f else f ||| 32) := by
  have hex := i32_neg_ofInt xd h2
  have h128 : (10:Nat)^34 < 2^113 := by decide +kernel
  have hbC : bitsOf (ofBits C) = C := bitsOf_ofBits C (by omega)
  -- the three tables
  have hg := rowGood_of xd h1 (by omega)
  simp only [rowGood, Bool.and_eq_true, decide_eq_true_eq] at hg
  obtain ⟨⟨⟨⟨⟨⟨g1, g2⟩, g3⟩, g4⟩, g5⟩, g6⟩, _⟩ := hg
  obtain ⟨Tc, hT, pT⟩ := Dec.C13GenPack.roundConst_bridge rmode (-(Int32.ofInt (-(xd : Int)))) _
    (by rw [hex]; exact roundConst_eq (md rmode) xd h1 (by omega))
  obtain ⟨K, hK, pK⟩ := Dec.C13GenPack.recip_bridge (-(Int32.ofInt (-(xd : Int)))) _ (by rw [hex]; exact recip_eq xd (by omega))
  obtain ⟨amount, hA, vA, _, _⟩ := Dec.C13GenPack.recipScale_bridge (-(Int32.ofInt (-(xd : Int)))) _
    (by rw [hex]; exact recipScale_eq xd (by omega))
  obtain ⟨sA, sB⟩ := recip_scale_range xd (by omega)
  have s64 := recipS_ne64 xd (by omega)
  -- values
  have hP : 0 < 10^xd := Nat.pow_pos (by decide)
  have hPle : 10^xd ≤ 10^34 := Nat.pow_le_pow_right (by decide) h2
  have hTlt := roundT_lt (md rmode) (10^xd) hP
  have hTv : bitsOf Tc = roundT (md rmode) (10^xd) := by
    have := w128_val (roundT (md rmode) (10^xd))
    rw [← pT] at this
    unfold bitsOf; simp only [Dec.C13GenPack.pr] at this; omega
  have hKv : bitsOf K = recipK xd := by
    unfold recipK bitsOf; rw [← pK]; simp only [Dec.C13GenPack.pr]; omega
  have hKlt : bitsOf K < 2^128 := bitsOf_lt K
  obtain ⟨CX', hadd, vadd⟩ := add_128_128_ok (ofBits C) Tc
  rw [hbC, hTv, Nat.mod_eq_of_lt (by omega)] at vadd
  obtain ⟨CT, hmul, vmul⟩ := mul_128x128_to_256_ok CX' K
  rw [vadd] at vmul
  -- the arithmetic
  obtain ⟨H, hH⟩ : ∃ H, 10 ^ xd = 2 * H := by
    obtain ⟨j, rfl⟩ : ∃ j, xd = j + 1 := ⟨xd - 1, by omega⟩
    exact ⟨5 * 10 ^ j, by rw [Nat.pow_succ]; ring⟩
  have hKP : recipK xd * 10 ^ xd = 2 ^ (128 + recipS xd) + (recipK xd * 10 ^ xd - 2 ^ (128 + recipS xd)) := by omega
  have h35 : (10:Nat)^34 ≤ 10^35 := by norm_num
  obtain ⟨r1, r2⟩ := uf_arith (md rm) sw.toNat C (10 ^ xd) H (recipK xd) (128 + recipS xd) _ (10 ^ 35)
    hH (by omega) (by omega) hKP g6 (by omega)
  rw [← hrm] at r1 r2
  have hN : val256 CT = (C + roundT (md rmode) (10^xd)) * recipK xd := by rw [vmul, hKv]
  obtain ⟨f1, f2, f3, f4⟩ := frac_forms (val256 CT) (recipS xd) (bitsOf K) sA hKlt
  have hQh : val256 CT / 2^128 = CT.w3.toNat * 2^64 + CT.w2.toNat := by
    have := CT.w0.toNat_lt; have := CT.w1.toNat_lt; have := CT.w2.toNat_lt
    unfold val256; omega
  have hQl : val256 CT % 2^128 = CT.w1.toNat * 2^64 + CT.w0.toNat := by
    have := CT.w0.toNat_lt; have := CT.w1.toNat_lt; have := CT.w2.toNat_lt
    unfold val256; omega
  rw [hQh] at f1 f2 f3 f4
  rw [hQl] at f2 f3 f4
  obtain ⟨CR', hCR, hcode⟩ := quantDownC_spec sw (Int32.ofInt Ey) rm rmode f CT amount (-(Int32.ofInt (-(xd : Int)))) K hK
    (recipS xd) vA sA (by omega) s64
  unfold quantDownB
  simp only [bind, pure, Except.pure]
  rw [hT, bind_ok, hadd, bind_ok, hK, bind_ok, hmul, bind_ok, hA, bind_ok, hcode]
  have hsd : decide (sw.toNat ≠ 0) = sg := by
    cases sg
    · simp only [Bool.false_eq_true, if_false] at hsg; rw [hsg]; rfl
    · simp only [if_true] at hsg; rw [hsg]; rfl
  rw [hsd] at r1
  rw [← hN, ← hKv] at r1 r2
  -- the coefficient
  have hval : bitsOf CR' = roundInt (md rm) sg (C / 10^xd) (C % 10^xd) (10^xd) := by
    rw [hCR, ← r1, f1]
    by_cases hc : md rm = .rne ∧ (CT.w3.toNat * 2^64 + CT.w2.toNat) / 2^(recipS xd) % 2 = 1 ∧
        (CT.w3.toNat * 2^64 + CT.w2.toNat) % 2^(recipS xd) = 0 ∧ CT.w1.toNat * 2^64 + CT.w0.toNat < bitsOf K
    · rw [if_pos hc, if_pos ⟨hc.1, hc.2.1, f2.2 ⟨hc.2.2.1, hc.2.2.2⟩⟩]
    · rw [if_neg hc, if_neg (fun h => hc ⟨h.1, h.2.1, (f2.1 h.2.2).1, (f2.1 h.2.2).2⟩)]
  -- exactness
  have hex2 : exactCond (md rmode) ((CT.w3.toNat * 2^64 + CT.w2.toNat) % 2^(recipS xd)) (CT.w1.toNat * 2^64 + CT.w0.toNat)
      (bitsOf K) (recipS xd) = decide (C % 10^xd = 0) := by
    rw [← r2]
    unfold exactCond
    cases md rmode <;> simp only [] <;> rw [decide_eq_decide]
    · exact f3.symm
    · exact f2.symm
    · exact f4.symm
    · exact f2.symm
    · exact f3.symm
  rw [hex2]
  have hle := roundInt_le (md rm) sg (C / 10^xd) (C % 10^xd) (10^xd)
  have hq : C / 10^xd < 10^33 + 1 := by
    have : C / 10^xd ≤ C := Nat.div_le_self _ _
    have : C / 10^xd ≤ 10^34 / 10 := by
      calc C / 10^xd ≤ C / 10^1 := Nat.div_le_div_left (Nat.pow_le_pow_right (by decide) h1) (by decide)
        _ ≤ 10^34 / 10^1 := Nat.div_le_div_right (by omega)
        _ = 10^34 / 10 := by norm_num
    have e : (10:Nat)^34 / 10 = 10^33 := by norm_num
    omega
  have hlt : roundInt (md rm) sg (C / 10^xd) (C % 10^xd) (10^xd) < 10^34 := by
    have : (10:Nat)^33 + 2 ≤ 10^34 := by norm_num
    omega
  have hCRe : CR' = ofBits (roundInt (md rm) sg (C / 10^xd) (C % 10^xd) (10^xd)) := eq_ofBits CR' _ hval
  unfold downFin
  rw [hCRe, very_fast_words sw sg hsg Ey (by omega) (by omega) _ hlt, bind_ok]
  by_cases hz : C % 10^xd = 0
  · simp only [hz, decide_true, if_true]
  · simp only [hz, decide_false, Bool.false_eq_true, if_false]


/-- **the scale-down branch of `quantize`**: `xd = 1 … 34` digits are removed from a non-zero coefficient below 10^34:
the result is the coefficient divided by `10^xd` and rounded to an integer in the given mode and sign (`roundInt`), with
the exponent of `y`; inexact is raised iff `10^xd` does not divide the coefficient -/
theorem quantDown_spec' (sw : UInt64) (s : Bool) (hs : sw.toNat = if s then 2^63 else 0) (Ey : Nat) (hEy : Ey ≤ 12287)
    (C : Nat) (hC0 : 0 < C) (hC : C < 10^34) (xd : Nat) (h1 : 1 ≤ xd) (h2 : xd ≤ 34) (m : RoundingMode) (f : UInt32) :
    quantDown sw (Int32.ofInt Ey) (ofBits C) (Int32.ofInt (-(xd : Int))) m f =
      .ok (ofBits (encode (.fin s (roundInt (md m) s (C / 10^xd) (C % 10^xd) (10^xd)) ((Ey : Int) - 6176))),
        f ||| (if C % 10^xd = 0 then 0 else 32)) := by
  have hfl : (if C % 10^xd = 0 then f else f ||| 32) = f ||| (if C % 10^xd = 0 then 0 else 32) := by
    split
    · exact UInt32.or_zero.symm
    · rfl
  obtain ⟨r, hr, hcase⟩ := Dec.C13GenPack.rmode_data sw m
  rw [quantDown_shape]
  unfold quantDownA
  simp only [bind, pure, Except.pure]
  rcases hcase with ⟨hc, hv⟩ | ⟨hc, he⟩
  · rw [if_pos hc, hv, bind_ok, quantDownB_spec sw s hs Ey hEy C hC0 hC xd h1 h2 m r f hr, hfl]
  · rw [he] at hr
    rw [if_neg (by rw [hc]; decide), quantDownB_spec sw s hs Ey hEy C hC0 hC xd h1 h2 m m f hr, hfl]


/-! ### B.3 digit count, dispatch, scale-up, far-below and invalid branches -/


def quantDispatch (sign_x : UInt64) (exponent_x exponent_y : Int32) (CX : U128) (digits_x : Int32) (rnd_mode : RoundingMode) (pfpsf_ : UInt32) : Except String (U128 × UInt32) := do
  let mut pfpsf : UInt32 := pfpsf_
  let mut T : U128 := default
  let mut CX2 : U128 := default
  let mut CR : U128 := default
  let mut res : U128 := default
  let mut expon_diff : Int32 := default
  let mut total_digits : Int32 := default
  let mut rmode : RoundingMode := default
  expon_diff := (exponent_x - exponent_y)
  total_digits := (digits_x + expon_diff)
  if (decide (((UInt32.ofInt (toI total_digits))) ≤ (0x22 : UInt32))) then
    if (decide (expon_diff ≥ (0 : Int32))) then
      T := (← tbl128 Dec.Gen.BID_POWER10_TABLE_128 (UInt64.ofInt (toI expon_diff)))
      CX2 := (← mul_128x128_low T CX)
      res := (← bid_get_BID128_very_fast sign_x exponent_y CX2)
      return (res, pfpsf)
    return (← quantDown sign_x exponent_y CX expon_diff rnd_mode pfpsf)
  if (decide (total_digits < (0 : Int32))) then
    CR := { CR with w1 := (0 : UInt64) }
    CR := { CR with w0 := (0 : UInt64) }
    rmode := rnd_mode
    if ((sign_x != (0 : UInt64)) && ((decide ((((UInt32.ofInt (toI rmode)) - (1 : UInt32))) < (2 : UInt32))))) then
      rmode := (← RoundingMode.fromU32 ((3 : UInt32) - ((UInt32.ofInt (toI rmode)))))
    if (rmode == RoundingMode.Upward) then
      CR := { CR with w0 := (1 : UInt64) }
    let t__12 ← set_status_flags pfpsf c_StatusFlags_BID_INEXACT_EXCEPTION
    pfpsf := t__12
    res := (← bid_get_BID128_very_fast sign_x exponent_y CR)
    return (res, pfpsf)
  let t__13 ← set_status_flags pfpsf c_StatusFlags_BID_INVALID_EXCEPTION
  pfpsf := t__13
  res := { res with w1 := (0x7c00000000000000 : UInt64) }
  res := { res with w0 := (0 : UInt64) }
  return (res, pfpsf)

def quantAfterEst (sign_x : UInt64) (exponent_x exponent_y : Int32) (CX : U128) (rnd_mode : RoundingMode) (pfpsf : UInt32) (digits_x_ : Int32) : Except String (U128 × UInt32) := do
  let mut digits_x : Int32 := digits_x_
  if (← (if (decide (CX.w1 > (← tbl128 Dec.Gen.BID_POWER10_TABLE_128 (UInt64.ofInt (toI digits_x))).w1)) then pure true else (do pure ((← (if (CX.w1 == (← tbl128 Dec.Gen.BID_POWER10_TABLE_128 (UInt64.ofInt (toI digits_x))).w1) then (do pure (decide (CX.w0 ≥ (← tbl128 Dec.Gen.BID_POWER10_TABLE_128 (UInt64.ofInt (toI digits_x))).w0))) else pure false)))))) then
    digits_x := (digits_x + 1)
  quantDispatch sign_x exponent_x exponent_y CX digits_x rnd_mode pfpsf

def quantMainA (sign_x : UInt64) (exponent_x exponent_y : Int32) (CX : U128) (rnd_mode : RoundingMode) (pfpsf : UInt32) : Except String (U128 × UInt32) := do
  let mut tempx : F32U := default
  let mut bin_expon_cx : Int32 := default
  if (CX.w1 != (0 : UInt64)) then
    tempx := (F32U.ofU64 (UInt64.ofInt (toI CX.w1)))
    bin_expon_cx := (Int32.ofInt (toI (((((((tempx.bits >>> 0x17)) &&& (0xff : UInt32))) - (0x7f : UInt32)) + (0x40 : UInt32)))))
  else
    tempx := (F32U.ofU64 (UInt64.ofInt (toI CX.w0)))
    bin_expon_cx := (Int32.ofInt (toI ((((((tempx.bits >>> 0x17)) &&& (0xff : UInt32))) - (0x7f : UInt32)))))
  quantAfterEst sign_x exponent_x exponent_y CX rnd_mode pfpsf (← tblI32 Dec.Gen.BID_ESTIMATE_DECIMAL_DIGITS (UInt64.ofInt (toI bin_expon_cx)))

theorem quantMain2_shape (sx : UInt64) (ex ey : Int32) (CX : U128) (m : RoundingMode) (f : UInt32) :
    quantMain2 sx ex ey CX m f = quantMainA sx ex ey CX m f := by
  rfl


/-! ### table look-ups and small arithmetic of the numeric part -/

theorem pow10_all : (List.range 39).all (fun j =>
    match tbl128 Dec.Gen.BID_POWER10_TABLE_128 (UInt64.ofNat j) with
    | .ok v => decide (bitsOf v = 10^j)
    | .error _ => false) = true := by
  decide +kernel

theorem pow10_get (j : Nat) (hj : j < 39) : ∃ v, tbl128 Dec.Gen.BID_POWER10_TABLE_128 (UInt64.ofNat j) = .ok v ∧ bitsOf v = 10^j := by
  have h := List.all_eq_true.1 pow10_all j (List.mem_range.2 hj)
  cases ht : tbl128 Dec.Gen.BID_POWER10_TABLE_128 (UInt64.ofNat j) with
  | error e => rw [ht] at h; exact absurd h (by simp)
  | ok v => rw [ht] at h; exact ⟨v, rfl, by simpa using h⟩

theorem est_all : (List.range 129).all (fun j =>
    match tblI32 Dec.Gen.BID_ESTIMATE_DECIMAL_DIGITS (UInt64.ofNat j) with
    | .ok v => decide (v.toInt = ((Dec.Gen.BID_ESTIMATE_DECIMAL_DIGITS.getD j 0 : Nat) : Int))
    | .error _ => false) = true := by
  decide +kernel

theorem est_get (j : Nat) (hj : j < 129) : ∃ v, tblI32 Dec.Gen.BID_ESTIMATE_DECIMAL_DIGITS (UInt64.ofNat j) = .ok v ∧
    v.toInt = ((Dec.Gen.BID_ESTIMATE_DECIMAL_DIGITS.getD j 0 : Nat) : Int) := by
  have h := List.all_eq_true.1 est_all j (List.mem_range.2 hj)
  cases ht : tblI32 Dec.Gen.BID_ESTIMATE_DECIMAL_DIGITS (UInt64.ofNat j) with
  | error e => rw [ht] at h; exact absurd h (by simp)
  | ok v => rw [ht] at h; exact ⟨v, rfl, by simpa using h⟩

/-- `__mul_128x128_low`: the product modulo 2^128 -/
theorem mul_128x128_low_ok (A B : U128) :
    ∃ r, mul_128x128_low A B = .ok r ∧ bitsOf r = bitsOf A * bitsOf B % 2^128 := by
  obtain ⟨p, hp, vp⟩ := mul_64x64_to_128_ok A.w0 B.w0
  simp only [mul_128x128_low, bind, Except.bind, pure, Except.pure, hp]
  refine ⟨_, rfl, ?_⟩
  have := A.w0.toNat_lt; have := A.w1.toNat_lt; have := B.w0.toNat_lt; have := B.w1.toNat_lt
  have := p.w0.toNat_lt; have := p.w1.toNat_lt
  unfold bitsOf
  simp only [UInt64.toNat_add, UInt64.toNat_mul]
  have hd : (A.w1.toNat * 2^64 + A.w0.toNat) * (B.w1.toNat * 2^64 + B.w0.toNat)
      = A.w1.toNat * B.w1.toNat * 2^128 + (B.w0.toNat * A.w1.toNat + A.w0.toNat * B.w1.toNat) * 2^64 + A.w0.toNat * B.w0.toNat := by ring
  rw [hd, ← vp]
  generalize A.w1.toNat * B.w1.toNat = HH
  generalize B.w0.toNat * A.w1.toNat = M1
  generalize A.w0.toNat * B.w1.toNat = M2
  rw [Nat.add_assoc, Nat.mul_comm HH, Nat.mul_add_mod]
  generalize p.w1.toNat = p1 at *
  generalize p.w0.toNat = p0 at *
  clear vp hp hd
  omega


open Dec.C13GenPack (md swap_cond swap_val swapR)

theorem i32_nat (n : Nat) (h : n < 2^31) : (Int32.ofInt (n : Int)).toInt = n :=
  Int32.toInt_ofInt_of_le (by omega) (by omega)

theorem i32_sub_small (a b : Int32) (ha : -2^30 ≤ a.toInt ∧ a.toInt < 2^30) (hb : -2^30 ≤ b.toInt ∧ b.toInt < 2^30) :
    (a - b).toInt = a.toInt - b.toInt := by
  rw [Int32.toInt_sub, bmod32 _ (by omega) (by omega)]

theorem i32_add_small (a b : Int32) (ha : -2^30 ≤ a.toInt ∧ a.toInt < 2^30) (hb : -2^30 ≤ b.toInt ∧ b.toInt < 2^30) :
    (a + b).toInt = a.toInt + b.toInt := by
  rw [Int32.toInt_add, bmod32 _ (by omega) (by omega)]

theorem u32_le34 (t : Int32) : decide (UInt32.ofInt (toI t) ≤ 34) = decide (0 ≤ t.toInt ∧ t.toInt ≤ 34) := by
  have h1 := t.toInt_lt; have h2 := t.le_toInt
  rw [decide_eq_decide, UInt32.le_iff_toNat_le, toI_i32, show (34 : UInt32).toNat = 34 from by decide]
  show (UInt32.ofNat (t.toInt % 2^32).toNat).toNat ≤ 34 ↔ _
  rw [UInt32.toNat_ofNat']
  omega

theorem i32_ge0 (t : Int32) : decide (t ≥ 0) = decide (0 ≤ t.toInt) := by
  rw [decide_eq_decide, ge_iff_le, Int32.le_iff_toInt_le]; rfl
theorem i32_lt0 (t : Int32) : decide (t < 0) = decide (t.toInt < 0) := by
  rw [decide_eq_decide, Int32.lt_iff_toInt_lt]; rfl

theorem u64_of_i32_nonneg (t : Int32) (n : Nat) (h : t.toInt = n) : UInt64.ofInt (toI t) = UInt64.ofNat n := by
  rw [toI_i32, h, u64_ofInt_nat]

theorem quantDown_spec (sw : UInt64) (s : Bool) (hs : sw.toNat = if s then 2^63 else 0) (Ey : Nat) (hEy : Ey ≤ 12287)
    (C : Nat) (hC0 : 0 < C) (hC : C < 10^34) (xd : Nat) (h1 : 1 ≤ xd) (h2 : xd ≤ 34) (m : RoundingMode) (f : UInt32) :
    quantDown sw (Int32.ofInt Ey) (ofBits C) (Int32.ofInt (-(xd : Int))) m f =
      .ok (ofBits (encode (.fin s (roundInt (md m) s (C / 10^xd) (C % 10^xd) (10^xd)) ((Ey : Int) - 6176))),
        f ||| (if C % 10^xd = 0 then 0 else 32)) :=
  quantDown_spec' sw s hs Ey hEy C hC0 hC xd h1 h2 m f

theorem pow_lt_of_ndigits (C : Nat) (hC0 : 0 < C) : C < 10^(ndigits C) ∧ 10^(ndigits C - 1) ≤ C :=
  ⟨(ndigits_spec hC0).2, (ndigits_spec hC0).1⟩


theorem tiny_words (sw : UInt64) (s : Bool) (hs : sw.toNat = if s then 2^63 else 0) (Ey : Nat) (hEy : Ey ≤ 12287) (b : Bool) :
    bid_get_BID128_very_fast sw (Int32.ofInt Ey) { w0 := if b then 1 else 0, w1 := 0 }
      = .ok (ofBits (encode (.fin s (if b then 1 else 0) ((Ey : Int) - 6176)))) := by
  have e : ({ w0 := if b then 1 else 0, w1 := 0 } : U128) = ofBits (if b then 1 else 0) := by cases b <;> decide
  rw [e]
  exact very_fast_words sw s hs Ey (by omega) (by omega) _ (by cases b <;> decide)

theorem quantDispatch_spec (sw : UInt64) (s : Bool) (hs : sw.toNat = if s then 2^63 else 0) (Ex Ey : Nat)
    (hEx : Ex ≤ 12287) (hEy : Ey ≤ 12287) (C : Nat) (hC0 : 0 < C) (hC : C < 10^34) (d : Int32)
    (hd : d.toInt = ndigits C) (m : RoundingMode) (f : UInt32) (sy : Bool) (cy : Nat) :
    quantDispatch sw (Int32.ofInt Ex) (Int32.ofInt Ey) (ofBits C) d m f =
      .ok (ofBits (encode (quantizeD (md m) (.fin s C ((Ex : Int) - 6176)) (.fin sy cy ((Ey : Int) - 6176))).1),
        f ||| UInt32.ofNat (quantizeD (md m) (.fin s C ((Ex : Int) - 6176)) (.fin sy cy ((Ey : Int) - 6176))).2) := by
  have hx := i32_nat Ex (by omega)
  have hy := i32_nat Ey (by omega)
  have hq : ndigits C ≤ 34 := by rw [ndigits_le_iff hC0]; exact hC
  have hq1 := ndigits_pos hC0
  obtain ⟨hCu, hCl⟩ := pow_lt_of_ndigits C hC0
  have hdiff : (Int32.ofInt (Ex : Int) - Int32.ofInt (Ey : Int)).toInt = (Ex : Int) - Ey := by
    rw [i32_sub_small _ _ (by omega) (by omega), hx, hy]
  have htot : (d + (Int32.ofInt (Ex : Int) - Int32.ofInt (Ey : Int))).toInt = (ndigits C : Int) + ((Ex : Int) - Ey) := by
    rw [i32_add_small _ _ (by omega) (by omega), hdiff, hd]
  have hC0' : C ≠ 0 := by omega
  unfold quantDispatch
  delta c_StatusFlags_BID_INVALID_EXCEPTION c_DEC_FE_INVALID c_StatusFlags_BID_INEXACT_EXCEPTION c_DEC_FE_INEXACT
  simp only [bind, pure, Except.pure, set_status_flags, bind_pure, u32_le34, i32_ge0, i32_lt0, hdiff, htot]
  simp only [quantizeD, hC0', if_false]
  by_cases hA : 0 ≤ (ndigits C : Int) + ((Ex : Int) - Ey) ∧ (ndigits C : Int) + ((Ex : Int) - Ey) ≤ 34
  · rw [if_pos (by simpa using hA)]
    by_cases hU : (0 : Int) ≤ (Ex : Int) - Ey
    · -- scale up
      rw [if_pos (by simpa using hU)]
      obtain ⟨k, hk⟩ : ∃ k : Nat, (Ex : Int) - Ey = k := ⟨(Ex - Ey : Nat), by omega⟩
      have hk34 : ndigits C + k ≤ 34 := by omega
      obtain ⟨v, hv, bv⟩ := pow10_get k (by omega)
      obtain ⟨r, hr, br⟩ := mul_128x128_low_ok v (ofBits C)
      have hprod : C * 10^k < 10^34 := by
        calc C * 10^k < 10^(ndigits C) * 10^k := Nat.mul_lt_mul_of_pos_right hCu (Nat.pow_pos (by decide))
          _ = 10^(ndigits C + k) := by rw [Nat.pow_add]
          _ ≤ 10^34 := Nat.pow_le_pow_right (by decide) hk34
      have h128 : (10:Nat)^34 < 2^128 := by decide +kernel
      rw [bitsOf_ofBits C (by omega), bv, Nat.mul_comm, Nat.mod_eq_of_lt (by omega)] at br
      have hre : r = ofBits (C * 10^k) := eq_ofBits r _ br
      rw [u64_of_i32_nonneg _ k (by rw [hdiff, hk]), hv, bind_ok, hr, bind_ok, hre,
        very_fast_words sw s hs Ey (by omega) (by omega) _ hprod, bind_ok]
      have e1 : ((Ex : Int) - 6176 ≥ (Ey : Int) - 6176) := by omega
      have e2 : ((Ex : Int) - 6176 - ((Ey : Int) - 6176)).toNat = k := by omega
      rw [if_pos e1, e2, if_pos (by simp only [P34]; exact hprod)]
      simp only [flag0]
    · -- scale down
      rw [if_neg (by simpa using hU)]
      obtain ⟨xd, hxd⟩ : ∃ xd : Nat, (Ey : Int) - Ex = xd := ⟨(Ey - Ex : Nat), by omega⟩
      have hde : Int32.ofInt (Ex : Int) - Int32.ofInt (Ey : Int) = Int32.ofInt (-(xd : Int)) := by
        rw [← Int32.toInt_inj, hdiff, Int32.toInt_ofInt_of_le (by omega) (by omega)]; omega
      rw [hde, quantDown_spec sw s hs Ey hEy C hC0 hC xd (by omega) (by omega) m f]
      have e1 : ¬ ((Ex : Int) - 6176 ≥ (Ey : Int) - 6176) := by omega
      have e2 : ((Ey : Int) - 6176 - ((Ex : Int) - 6176)).toNat = xd := by omega
      rw [if_neg e1, e2]
      by_cases hz : C % 10^xd = 0
      · simp only [hz, if_true, flag0, UInt32.or_zero]
      · simp only [hz, if_false, fInexact]; rfl
  · rw [if_neg (by simpa using hA)]
    by_cases hB : (ndigits C : Int) + ((Ex : Int) - Ey) < 0
    · -- far below the quantum
      rw [if_pos (by simpa using hB)]
      obtain ⟨xd, hxd⟩ : ∃ xd : Nat, (Ey : Int) - Ex = xd := ⟨(Ey - Ex : Nat), by omega⟩
      have hxn : ndigits C + 1 ≤ xd := by omega
      have hsmall : 2 * C < 10^xd := by
        calc 2 * C < 10 * 10^(ndigits C) := by omega
          _ = 10^(ndigits C + 1) := by rw [Nat.pow_succ]; ring
          _ ≤ 10^xd := Nat.pow_le_pow_right (by decide) hxn
      have e1 : ¬ ((Ex : Int) - 6176 ≥ (Ey : Int) - 6176) := by omega
      have e2 : ((Ey : Int) - 6176 - ((Ex : Int) - 6176)).toNat = xd := by omega
      have hmod : C % 10^xd = C := Nat.mod_eq_of_lt (by omega)
      rw [if_neg e1, e2, Dec.C13PackHelpers.roundInt_small (md m) s C (10^xd) hC0 hsmall]
      simp only [hmod, hC0', if_false]
      have hsw : (sw != 0) = s := by
        cases s
        · have : sw = 0 := by rw [← UInt64.toNat_inj]; simpa using hs
          subst this; rfl
        · have : sw = 0x8000000000000000 := by rw [← UInt64.toNat_inj]; simpa using hs
          subst this; rfl
      have hfl : f ||| UInt32.ofNat fInexact = f ||| 32 := rfl
      have t1 := tiny_words sw s hs Ey hEy true
      have t0 := tiny_words sw s hs Ey hEy false
      simp only [if_true, if_false, Bool.false_eq_true] at t1 t0
      rw [hsw, hfl]
      cases s <;> cases m <;>
        simp only [md, Bool.false_and, Bool.true_and, Bool.false_eq_true, if_false, if_true, bind_ok, reduceCtorEq, and_false,
          false_and, or_false, false_or, and_true, true_and, decide_true, decide_false, t1, t0] <;> rfl
    · -- more than 34 digits would be needed
      rw [if_neg (by simpa using hB)]
      obtain ⟨k, hk⟩ : ∃ k : Nat, (Ex : Int) - Ey = k := ⟨(Ex - Ey : Nat), by omega⟩
      have hk34 : 35 ≤ ndigits C + k := by omega
      have hprod : 10^34 ≤ C * 10^k := by
        calc 10^34 ≤ 10^(ndigits C - 1 + k) := Nat.pow_le_pow_right (by decide) (by omega)
          _ = 10^(ndigits C - 1) * 10^k := by rw [Nat.pow_add]
          _ ≤ C * 10^k := Nat.mul_le_mul_right _ hCl
      have e1 : ((Ex : Int) - 6176 ≥ (Ey : Int) - 6176) := by omega
      have e2 : ((Ex : Int) - 6176 - ((Ey : Int) - 6176)).toNat = k := by omega
      rw [if_pos e1, e2, if_neg (by simp only [P34]; omega), bind_ok, nan_words]
      rfl


theorem quantAfterEst_eq (sx : UInt64) (ex ey : Int32) (CX : U128) (m : RoundingMode) (f : UInt32) (d : Int32) (e0 : Nat)
    (hd : d.toInt = e0) (he : e0 < 39) :
    quantAfterEst sx ex ey CX m f d = quantDispatch sx ex ey CX (if 10^e0 ≤ bitsOf CX then d + 1 else d) m f := by
  obtain ⟨v, hv, bv⟩ := pow10_get e0 he
  unfold quantAfterEst
  simp only [bind, pure, Except.pure]
  rw [u64_of_i32_nonneg d e0 hd, hv, bind_ok]
  have h0 := CX.w0.toNat_lt; have h1 := v.w0.toNat_lt
  unfold bitsOf at bv ⊢
  rw [← bv]
  by_cases hA : CX.w1 > v.w1
  · rw [if_pos (by simpa using hA), bind_ok, if_pos rfl, if_pos (by rw [gt_iff_lt, UInt64.lt_iff_toNat_lt] at hA; omega)]
  · rw [if_neg (by simpa using hA), bind_ok]
    by_cases hB : CX.w1 = v.w1
    · rw [if_pos (by simpa using hB), bind_ok, bind_ok]
      by_cases hC : CX.w0 ≥ v.w0
      · rw [if_pos (by simpa using hC), if_pos (by rw [ge_iff_le, UInt64.le_iff_toNat_le] at hC; rw [hB]; omega)]
      · rw [if_neg (by simpa using hC), if_neg (by rw [ge_iff_le, UInt64.le_iff_toNat_le] at hC; rw [hB]; omega)]
    · rw [if_neg (by simpa using hB), bind_ok, if_neg (by decide), if_neg (by
        rw [gt_iff_lt, UInt64.lt_iff_toNat_lt] at hA; rw [← UInt64.toNat_inj] at hB; omega)]


/-- the exponent field of `n as f32` (round to nearest even): the position of the leading bit, or one more when the
24-bit rounding carries into the next power of two — which needs `n` within `2^(i−25)` of `2^i` -/
theorem float_exp32 (n : Nat) (h0 : 0 < n) (h : n < 2^64) :
    ∃ i, floatBitsOfNat 23 127 n / 2^23 = i + 127 ∧ floatBitsOfNat 23 127 n < 2^31 ∧ i ≤ 64 ∧
      ((2^i ≤ n ∧ n < 2^(i+1)) ∨ (25 ≤ i ∧ 2^i - 2^(i-25) ≤ n ∧ n < 2^i)) := by
  have hne : n ≠ 0 := by omega
  have hl : n.log2 < 64 := (Nat.log2_lt hne).2 h
  have hlo : 2 ^ n.log2 ≤ n := Nat.log2_self_le hne
  have hhi : n < 2 ^ (n.log2 + 1) := Nat.lt_log2_self
  unfold floatBitsOfNat
  simp only [hne, if_false]
  generalize n.log2 = l at *
  by_cases hs : l ≤ 23
  · simp only [hs, if_true]
    have e : 2 ^ l * 2 ^ (23 - l) = 2 ^ 23 := by rw [← Nat.pow_add]; congr 1; omega
    have hp : 0 < 2 ^ (23 - l) := Nat.pow_pos (by decide)
    have h1 : 2 ^ 23 ≤ n * 2 ^ (23 - l) := by rw [← e]; exact Nat.mul_le_mul_right _ hlo
    have h2 : n * 2 ^ (23 - l) < 2 * 2 ^ 23 := by
      rw [← e, ← Nat.mul_assoc, ← Nat.pow_succ']; exact Nat.mul_lt_mul_of_pos_right hhi hp
    generalize n * 2 ^ (23 - l) = mm at *
    exact ⟨l, by omega, by omega, by omega, Or.inl ⟨hlo, hhi⟩⟩
  · simp only [hs, if_false]
    obtain ⟨t, ht⟩ : ∃ t, l = 24 + t := ⟨l - 24, by omega⟩
    subst ht
    have esh : 24 + t - 23 = t + 1 := by omega
    have esh1 : t + 1 - 1 = t := by omega
    rw [esh, esh1]
    have e1 : 2 ^ (24 + t) = 2^23 * (2 * 2^t) := by rw [Nat.pow_add]; norm_num; ring
    have e2 : 2 ^ (24 + t + 1) = 2^24 * (2 * 2^t) := by rw [Nat.pow_add, Nat.pow_add]; norm_num; ring
    have e3 : 2 ^ (t + 1) = 2 * 2^t := by rw [Nat.pow_succ]; ring
    have hA : 0 < 2^t := Nat.pow_pos (by decide)
    rw [e1] at hlo; rw [e2] at hhi; rw [e3]
    obtain ⟨A, hAdef⟩ : ∃ A, 2^t = A := ⟨_, rfl⟩
    rw [hAdef] at hA hlo hhi e1 e2 e3 ⊢
    have hdm := Nat.div_add_mod n (2 * A)
    have hr : n % (2 * A) < 2 * A := Nat.mod_lt _ (by omega)
    have hq1 : 2^23 ≤ n / (2 * A) := by
      rw [Nat.le_div_iff_mul_le (by omega)]; exact hlo
    have hq2 : n / (2 * A) < 2^24 := by
      rw [Nat.div_lt_iff_lt_mul (by omega)]; exact hhi
    generalize n / (2 * A) = q at *
    generalize n % (2 * A) = r at *
    by_cases hup : (decide (r > A) || (r == A && q % 2 == 1)) = true
    · rw [if_pos hup]
      by_cases hq : q + 1 < 2^24
      · refine ⟨24 + t, by omega, by omega, by omega, Or.inl ⟨by rw [e1]; exact hlo, by rw [e2]; exact hhi⟩⟩
      · have hqe : q = 2^24 - 1 := by omega
        have hrA : A ≤ r := by
          simp only [Bool.or_eq_true, decide_eq_true_eq, Bool.and_eq_true, beq_iff_eq] at hup
          omega
        refine ⟨24 + t + 1, by omega, by omega, by omega, Or.inr ⟨by omega, ?_, by rw [e2]; exact hhi⟩⟩
        rw [e2, show 24 + t + 1 - 25 = t from by omega, hAdef]
        subst hqe
        omega
    · rw [if_neg hup]
      refine ⟨24 + t, by omega, by omega, by omega, Or.inl ⟨by rw [e1]; exact hlo, by rw [e2]; exact hhi⟩⟩


open Dec.TableFacts in
/-- the estimate-and-correct digit count of `quantize` (exact bucket, or the bucket one too high when the `f32` conversion
rounded up to a power of two) -/
theorem digits_from_est (C : Nat) (hC0 : 0 < C) (hC : C < 10^34) (i : Nat)
    (hi : (2^i ≤ C ∧ C < 2^(i+1)) ∨ (25 ≤ i ∧ 2^i - 2^(i-25) ≤ C ∧ C < 2^i)) :
    i < 114 ∧ Dec.Gen.BID_ESTIMATE_DECIMAL_DIGITS.getD i 0
      + (if 10^(Dec.Gen.BID_ESTIMATE_DECIMAL_DIGITS.getD i 0) ≤ C then 1 else 0) = ndigits C := by
  have h113 : (10:Nat)^34 < 2^113 := by decide +kernel
  have hC' : C < 2^113 := by omega
  rcases hi with ⟨h1, h2⟩ | ⟨h1, h2, h3⟩
  · have hlog : C.log2 = i := (Nat.log2_eq_iff (by omega)).2 ⟨h1, h2⟩
    have hi113 : i < 113 := by rw [← hlog]; exact (Nat.log2_lt (by omega)).2 hC'
    obtain ⟨r1, r2⟩ := est_p10idx_row i (by omega)
    refine ⟨by omega, ?_⟩
    have := estDigits_mechanism_ndigits hC0 hC'
    unfold estDigitsLookup estDigitsAt at this
    rw [hlog, r2] at this
    rw [← this, r1]
  · have hi114 : i < 114 := by
      by_contra hcon
      have hge : 2^113 ≤ 2^(i-1) := Nat.pow_le_pow_right (by decide) (by omega)
      have e1 : 2^i = 2 * 2^(i-1) := by rw [← Nat.pow_succ']; congr 1; omega
      have e2 : 2^(i-25) ≤ 2^(i-1) := Nat.pow_le_pow_right (by decide) (by omega)
      omega
    obtain ⟨r1, r2⟩ := est_p10idx_row i hi114
    refine ⟨hi114, ?_⟩
    have hcd : Dec.TF.cdiv (2^i) (2^20) = 2^(i-20) := by
      unfold Dec.TF.cdiv
      have e : 2^i = 2^(i-20) * 2^20 := by rw [← Nat.pow_add]; congr 1; omega
      rw [e, Nat.add_sub_assoc (by norm_num), Nat.mul_comm, Nat.mul_add_div (by norm_num)]
      norm_num
    have hle : 2^(i-25) ≤ 2^(i-20) := Nat.pow_le_pow_right (by decide) (by omega)
    have := estDigits_mechanism_over (i := i) (C := C) (by omega) (by omega) (by rw [hcd]; omega) h3 hC0
    unfold estDigitsAt at this
    rw [r2] at this
    rw [ndigits_eq_slow, ← this, r1]


/-- the code's binary-exponent estimate: the exponent field of `v as f32`, minus the bias, plus `K` -/
theorem est_field (v : UInt64) (h0 : 0 < v.toNat) :
    ∃ i, i ≤ 64 ∧ ((2^i ≤ v.toNat ∧ v.toNat < 2^(i+1)) ∨ (25 ≤ i ∧ 2^i - 2^(i-25) ≤ v.toNat ∧ v.toNat < 2^i)) ∧
      ((((F32U.ofU64 (UInt64.ofInt (toI v))).bits >>> 23) &&& 255) - 127).toNat = i := by
  obtain ⟨i, f1, f2, f3, f4⟩ := float_exp32 v.toNat h0 v.toNat_lt
  refine ⟨i, f3, f4, ?_⟩
  have e1 : (UInt64.ofInt (toI v)) = v := by rw [toI_u64, u64_ofInt_nat, UInt64.ofNat_toNat]
  have eb : (F32U.ofU64 v).bits.toNat = floatBitsOfNat 23 127 v.toNat := by
    show (UInt32.ofNat (floatBitsOfNat 23 127 v.toNat)).toNat = _
    rw [UInt32.toNat_ofNat']; omega
  have e2 : ((F32U.ofU64 v).bits >>> 23).toNat = i + 127 := by
    rw [UInt32.toNat_shiftRight, eb, show (23 : UInt32).toNat % 32 = 23 from by decide, Nat.shiftRight_eq_div_pow, f1]
  have e3 : (((F32U.ofU64 v).bits >>> 23) &&& 255).toNat = i + 127 := by
    rw [UInt32.toNat_and, e2, show (255 : UInt32).toNat = 2^8 - 1 from by decide, Nat.and_two_pow_sub_one_eq_mod]
    omega
  rw [e1, UInt32.toNat_sub, e3, show (127 : UInt32).toNat = 127 from by decide]
  omega

theorem est_idx0 (u : UInt32) (i : Nat) (hu : u.toNat = i) (hi : i ≤ 64) :
    UInt64.ofInt (toI (Int32.ofInt (toI u))) = UInt64.ofNat i := by
  rw [toI_u32, hu, toI_i32, i32_nat i (by omega), u64_ofInt_nat]

theorem est_idx64 (u : UInt32) (i : Nat) (hu : u.toNat = i) (hi : i ≤ 64) :
    UInt64.ofInt (toI (Int32.ofInt (toI (u + 64)))) = UInt64.ofNat (i + 64) := by
  have : (u + 64).toNat = i + 64 := by
    rw [UInt32.toNat_add, hu, show (64 : UInt32).toNat = 64 from by decide]; omega
  rw [toI_u32, this, toI_i32, i32_nat (i + 64) (by omega), u64_ofInt_nat]

theorem quantMainA_spec (sw : UInt64) (s : Bool) (hs : sw.toNat = if s then 2^63 else 0) (Ex Ey : Nat)
    (hEx : Ex ≤ 12287) (hEy : Ey ≤ 12287) (C : Nat) (hC0 : 0 < C) (hC : C < 10^34) (m : RoundingMode) (f : UInt32)
    (sy : Bool) (cy : Nat) :
    quantMainA sw (Int32.ofInt Ex) (Int32.ofInt Ey) (ofBits C) m f =
      .ok (ofBits (encode (quantizeD (md m) (.fin s C ((Ex : Int) - 6176)) (.fin sy cy ((Ey : Int) - 6176))).1),
        f ||| UInt32.ofNat (quantizeD (md m) (.fin s C ((Ex : Int) - 6176)) (.fin sy cy ((Ey : Int) - 6176))).2) := by
  have h128 : (10:Nat)^34 < 2^113 := by decide +kernel
  have hb : bitsOf (ofBits C) = C := bitsOf_ofBits C (by omega)
  have hw0 := ofBits_w0 C
  have hw1 := ofBits_w1 C (by omega)
  -- the estimate `i` and the table entry
  have key : ∀ (i : Nat) (d : Int32), ((2^i ≤ C ∧ C < 2^(i+1)) ∨ (25 ≤ i ∧ 2^i - 2^(i-25) ≤ C ∧ C < 2^i)) →
      d.toInt = ((Dec.Gen.BID_ESTIMATE_DECIMAL_DIGITS.getD i 0 : Nat) : Int) →
      quantAfterEst sw (Int32.ofInt Ex) (Int32.ofInt Ey) (ofBits C) m f d =
        .ok (ofBits (encode (quantizeD (md m) (.fin s C ((Ex : Int) - 6176)) (.fin sy cy ((Ey : Int) - 6176))).1),
          f ||| UInt32.ofNat (quantizeD (md m) (.fin s C ((Ex : Int) - 6176)) (.fin sy cy ((Ey : Int) - 6176))).2) := by
    intro i d hi hdv
    obtain ⟨hi114, hnd⟩ := digits_from_est C hC0 hC i hi
    have hq : ndigits C ≤ 34 := by rw [ndigits_le_iff hC0]; exact hC
    have he0 : Dec.Gen.BID_ESTIMATE_DECIMAL_DIGITS.getD i 0 < 39 := by omega
    rw [quantAfterEst_eq _ _ _ _ _ _ d _ hdv he0, hb]
    apply quantDispatch_spec sw s hs Ex Ey hEx hEy C hC0 hC _ _ m f sy cy
    by_cases hc : 10 ^ Dec.Gen.BID_ESTIMATE_DECIMAL_DIGITS.getD i 0 ≤ C
    · rw [if_pos hc] at hnd ⊢
      rw [i32_add_small _ _ (by omega) (by decide), hdv]
      show _ + (1 : Int) = _
      omega
    · rw [if_neg hc] at hnd ⊢
      rw [hdv]; omega
  unfold quantMainA
  simp only [bind, pure, Except.pure]
  by_cases hw : (ofBits C).w1 = 0
  · rw [if_neg (by rw [hw]; decide)]
    have hw1' : C / 2^64 = 0 := by rw [← hw1, hw]; rfl
    have hC64 : C = (ofBits C).w0.toNat := by rw [hw0]; omega
    obtain ⟨i, hi64, hcond, hfld⟩ := est_field (ofBits C).w0 (by omega)
    rw [← hC64] at hcond
    obtain ⟨d, hd, hdv⟩ := est_get i (by omega)
    rw [est_idx0 _ i hfld hi64, hd, bind_ok]
    exact key i d hcond hdv
  · rw [if_pos (by simpa using hw)]
    have hw1pos : 0 < (ofBits C).w1.toNat := by
      rcases Nat.eq_zero_or_pos (ofBits C).w1.toNat with h | h
      · exact absurd (UInt64.toNat_inj.1 (by rw [h]; rfl)) hw
      · exact h
    obtain ⟨i, hi64, hcond, hfld⟩ := est_field (ofBits C).w1 hw1pos
    obtain ⟨d, hd, hdv⟩ := est_get (i + 64) (by
      rcases hcond with ⟨a, b⟩ | ⟨a, b, c⟩
      · have : 2^i < 2^49 := by rw [hw1] at a; omega
        have := (Nat.pow_lt_pow_iff_right (by decide : 1 < 2)).1 this
        omega
      · have : 2^(i-1) < 2^49 := by
          have e1 : 2^i = 2 * 2^(i-1) := by rw [← Nat.pow_succ']; congr 1; omega
          have e2 : 2^(i-25) ≤ 2^(i-1) := Nat.pow_le_pow_right (by decide) (by omega)
          rw [hw1] at b; omega
        have := (Nat.pow_lt_pow_iff_right (by decide : 1 < 2)).1 this
        omega)
    rw [est_idx64 _ i hfld hi64, hd, bind_ok]
    apply key (i + 64) d _ hdv
    have hCd : C = (ofBits C).w1.toNat * 2^64 + (ofBits C).w0.toNat := by rw [hw0, hw1]; omega
    have hl := (ofBits C).w0.toNat_lt
    generalize (ofBits C).w1.toNat = W at *
    generalize (ofBits C).w0.toNat = L at *
    rcases hcond with ⟨a, b⟩ | ⟨a, b, c⟩
    · left
      rw [Nat.pow_add, show i + 64 + 1 = (i + 1) + 64 from by omega, Nat.pow_add (a := 2) (m := i + 1)]
      generalize 2^i = P at *
      generalize 2^(i+1) = P' at *
      omega
    · right
      refine ⟨by omega, ?_, ?_⟩
      · rw [Nat.pow_add, show i + 64 - 25 = (i - 25) + 64 from by omega, Nat.pow_add (a := 2) (m := i - 25)]
        generalize 2^i = P at *
        generalize 2^(i-25) = P' at *
        omega
      · rw [Nat.pow_add]
        generalize 2^i = P at *
        omega


/-! ### B.4 the theorem -/

/-- both operands finite, `x` non-zero -/
theorem quantize_main (x y : U128) (m : RoundingMode) (f : UInt32) {sx sy : Bool} {cx cy : Nat} {ex ey : Int}
    (hdx : decode (bitsOf x) = .fin sx cx ex) (hdy : decode (bitsOf y) = .fin sy cy ey) (hc : cx ≠ 0) :
    bid128_quantize x y m f =
      .ok (ofBits (encode (quantizeD (md m) (.fin sx cx ex) (.fin sy cy ey)).1),
        f ||| UInt32.ofNat (quantizeD (md m) (.fin sx cx ex) (.fin sy cy ey)).2) := by
  have wx := decode_WF (bitsOf x)
  have wy := decode_WF (bitsOf y)
  rw [hdx] at wx; rw [hdy] at wy
  obtain ⟨hcx, hx1, hx2⟩ := wx
  obtain ⟨_, hy1, hy2⟩ := wy
  simp only [eMin, eMax] at hx1 hx2 hy1 hy2
  simp only [P34] at hcx
  have sgx := sign_word' x
  rw [hdx] at sgx
  obtain ⟨Ex, hEx⟩ : ∃ Ex : Nat, ex + 6176 = Ex := ⟨(ex + 6176).toNat, by omega⟩
  obtain ⟨Ey, hEy⟩ : ∃ Ey : Nat, ey + 6176 = Ey := ⟨(ey + 6176).toNat, by omega⟩
  have e1 : ex = (Ex : Int) - 6176 := by omega
  have e2 : ey = (Ey : Int) - 6176 := by omega
  rw [quantize_front_main x y m f hdx hdy hc, quantMain_shape, quantMain2_shape, hEx, hEy, e1, e2]
  exact quantMainA_spec (x.w1 &&& 0x8000000000000000) sx sgx Ex Ey (by omega) (by omega) cx (by omega)
    (by norm_num at hcx ⊢; exact hcx) m f sy cy

/-- **`bid128_quantize`**, every pair of patterns, every rounding mode, every incoming status word: the routine returns
(never panics)
* a NaN operand (`x` first, else `y`): the canonical quiet NaN with that operand's sign and payload; invalid iff some
  operand is signalling;
* otherwise exactly what the model's `quantizeD` demands, canonically encoded: `Inf, Inf ↦` the infinity of `x`; one
  infinity ↦ the default NaN with invalid; `x` zero ↦ zero with the sign of `x` and the exponent of `y`; `x` finite
  non-zero: the exponent of `y` and either the coefficient scaled up exactly (invalid + NaN if that needs more than 34
  digits) or the coefficient divided by the power of ten and rounded to an integer in the given mode (`roundInt`, with
  the sign-aware directed modes), inexact iff digits were lost;
* the status word: the incoming one with the flags of the model OR-ed in (nothing else is touched).
Non-canonical encodings of either operand are read as `decode` reads them. -/
theorem quantize_spec (x y : U128) (m : RoundingMode) (f : UInt32) :
    bid128_quantize x y m f =
      .ok (ofBits (encode (quantExpect (md m) (decode (bitsOf x)) (decode (bitsOf y))).1),
        f ||| UInt32.ofNat (quantExpect (md m) (decode (bitsOf x)) (decode (bitsOf y))).2) := by
  by_cases h : (decode (bitsOf x)).isFin = true ∧ (decode (bitsOf x)).isZero = false ∧ (decode (bitsOf y)).isFin = true
  · obtain ⟨h1, h2, h3⟩ := h
    cases hdx : decode (bitsOf x) with
    | nan _ _ _ => rw [hdx] at h1; exact Bool.noConfusion h1
    | inf _ => rw [hdx] at h1; exact Bool.noConfusion h1
    | fin sx cx ex =>
      cases hdy : decode (bitsOf y) with
      | nan _ _ _ => rw [hdy] at h3; exact Bool.noConfusion h3
      | inf _ => rw [hdy] at h3; exact Bool.noConfusion h3
      | fin sy cy ey =>
        rw [hdx] at h2
        have hc : cx ≠ 0 := by
          simp only [Datum.isZero, beq_eq_false_iff_ne] at h2; exact h2
        rw [quantize_main x y m f hdx hdy hc]
        rfl
  · exact quantize_front_special x y m f h

theorem quantExpect_WF (m : Mode) (dx dy : Datum) (hx : dx.WF) (hy : dy.WF) : (quantExpect m dx dy).1.WF := by
  have hnan : defaultNaN.WF := by show (0 : Nat) < P33; decide
  unfold quantExpect
  cases dx with
  | nan s g p => exact hx
  | inf s =>
    cases dy with
    | nan s' g' p' => exact hy
    | inf s' => trivial
    | fin s' c' e' => exact hnan
  | fin s c e =>
    cases dy with
    | nan s' g' p' => exact hy
    | inf s' => exact hnan
    | fin s' c' e' =>
      obtain ⟨hc, _, _⟩ := hx
      obtain ⟨_, he1, he2⟩ := hy
      simp only [Datum.isNaN, Bool.false_eq_true, if_false, quantizeD]
      by_cases h0 : c = 0
      · rw [if_pos h0]; exact ⟨by decide, he1, he2⟩
      · rw [if_neg h0]
        by_cases h1 : e ≥ e'
        · rw [if_pos h1]
          by_cases h2 : c * 10 ^ (e - e').toNat < P34
          · rw [if_pos h2]; exact ⟨h2, he1, he2⟩
          · rw [if_neg h2]; exact hnan
        · rw [if_neg h1]
          have := Dec.C09Q.raise_bound m s c e e' hc (by omega)
          exact ⟨by have := Dec.C09Q.P33_lt_P34; omega, he1, he2⟩

/-- **`quantize` at the level of data**: the result is always a canonical encoding, it decodes to the datum the NaN rule /
the model's `quantizeD` prescribe, and the outgoing status word is the incoming one with the model's flags OR-ed in -/
theorem quantize_decode (x y : U128) (m : RoundingMode) (f : UInt32) :
    ∃ r f', bid128_quantize x y m f = .ok (r, f') ∧
      decode (bitsOf r) = (quantExpect (md m) (decode (bitsOf x)) (decode (bitsOf y))).1 ∧ isCanonical (bitsOf r) = true ∧
      f'.toNat = f.toNat ||| (quantExpect (md m) (decode (bitsOf x)) (decode (bitsOf y))).2 % 2^32 := by
  have hwf := quantExpect_WF (md m) _ _ (decode_WF (bitsOf x)) (decode_WF (bitsOf y))
  refine ⟨_, _, quantize_spec x y m f, ?_, ?_, ?_⟩
  · rw [bitsOf_ofBits _ (encode_lt hwf), decode_encode hwf]
  · rw [bitsOf_ofBits _ (encode_lt hwf)]; exact isCanonical_encode hwf
  · rw [UInt32.toNat_or, UInt32.toNat_ofNat']

-- 1.2345 quantized to 10^-2 (round half even: 1.23, inexact); 1.235 → 1.24 (tie to even) and → 1.23 toward zero;
-- 5·10^0 quantized to 10^-3 (scale up, exact); to 10^-40 … more than 34 digits: invalid; 1·10^-10 to 10^0 upward: 1, inexact;
-- Inf to a finite quantum: invalid; −0 (non-canonical) keeps its sign and takes y's exponent; sNaN payload kept, invalid
example : bid128_quantize ⟨12345, 0x3038000000000000⟩ ⟨1, 0x303c000000000000⟩ .NearestEven 0 = .ok (⟨123, 0x303c000000000000⟩, 0x20) ∧
    bid128_quantize ⟨1235, 0x303a000000000000⟩ ⟨1, 0x303c000000000000⟩ .NearestEven 0 = .ok (⟨124, 0x303c000000000000⟩, 0x20) ∧
    bid128_quantize ⟨1235, 0x303a000000000000⟩ ⟨1, 0x303c000000000000⟩ .TowardZero 0 = .ok (⟨123, 0x303c000000000000⟩, 0x20) ∧
    bid128_quantize ⟨5, 0x3040000000000000⟩ ⟨7, 0x303a000000000000⟩ .NearestEven 0x08 = .ok (⟨5000, 0x303a000000000000⟩, 0x08) ∧
    bid128_quantize ⟨5, 0x3040000000000000⟩ ⟨7, 0x2ff0000000000000⟩ .NearestEven 0 = .ok (⟨0, 0x7c00000000000000⟩, 0x01) ∧
    bid128_quantize ⟨1, 0x302c000000000000⟩ ⟨1, 0x3040000000000000⟩ .Upward 0 = .ok (⟨1, 0x3040000000000000⟩, 0x20) ∧
    bid128_quantize ⟨0, 0x7800000000000000⟩ ⟨1, 0x3040000000000000⟩ .NearestEven 0 = .ok (⟨0, 0x7c00000000000000⟩, 0x01) ∧
    bid128_quantize ⟨0x378d8e6400000000, 0xb041ed09bead87c0⟩ ⟨1, 0x3000000000000000⟩ .NearestEven 0 = .ok (⟨0, 0xb000000000000000⟩, 0) ∧
    bid128_quantize ⟨9, 0xfe00000000000000⟩ ⟨1, 0x3040000000000000⟩ .NearestEven 0 = .ok (⟨9, 0xfc00000000000000⟩, 0x01) := by
  decide +kernel

end Dec.C09GenQuantize
